Model/Base.vo Model/Base.glob Model/Base.v.beautified Model/Base.required_vo: Model/Base.v 
Model/Base.vio: Model/Base.v 
Model/Base.vos Model/Base.vok Model/Base.required_vos: Model/Base.v 
Model/Driver.vo Model/Driver.glob Model/Driver.v.beautified Model/Driver.required_vo: Model/Driver.v Model/Base.vo
Model/Driver.vio: Model/Driver.v Model/Base.vio
Model/Driver.vos Model/Driver.vok Model/Driver.required_vos: Model/Driver.v Model/Base.vos
Gen/Tables.vo Gen/Tables.glob Gen/Tables.v.beautified Gen/Tables.required_vo: Gen/Tables.v 
Gen/Tables.vio: Gen/Tables.v 
Gen/Tables.vos Gen/Tables.vok Gen/Tables.required_vos: Gen/Tables.v 
Model/Consts.vo Model/Consts.glob Model/Consts.v.beautified Model/Consts.required_vo: Model/Consts.v Model/Base.vo
Model/Consts.vio: Model/Consts.v Model/Base.vio
Model/Consts.vos Model/Consts.vok Model/Consts.required_vos: Model/Consts.v Model/Base.vos
Model/Lookup.vo Model/Lookup.glob Model/Lookup.v.beautified Model/Lookup.required_vo: Model/Lookup.v Model/Consts.vo Gen/Tables.vo
Model/Lookup.vio: Model/Lookup.v Model/Consts.vio Gen/Tables.vio
Model/Lookup.vos Model/Lookup.vok Model/Lookup.required_vos: Model/Lookup.v Model/Consts.vos Gen/Tables.vos
Model/CallID.vo Model/CallID.glob Model/CallID.v.beautified Model/CallID.required_vo: Model/CallID.v Model/Driver.vo
Model/CallID.vio: Model/CallID.v Model/Driver.vio
Model/CallID.vos Model/CallID.vok Model/CallID.required_vos: Model/CallID.v Model/Driver.vos
Model/UInt.vo Model/UInt.glob Model/UInt.v.beautified Model/UInt.required_vo: Model/UInt.v Model/Driver.vo Model/Consts.vo
Model/UInt.vio: Model/UInt.v Model/Driver.vio Model/Consts.vio
Model/UInt.vos Model/UInt.vok Model/UInt.required_vos: Model/UInt.v Model/Driver.vos Model/Consts.vos
Model/CSeq.vo Model/CSeq.glob Model/CSeq.v.beautified Model/CSeq.required_vo: Model/CSeq.v Model/Driver.vo Model/Consts.vo Model/Lookup.vo Model/UInt.vo
Model/CSeq.vio: Model/CSeq.v Model/Driver.vio Model/Consts.vio Model/Lookup.vio Model/UInt.vio
Model/CSeq.vos Model/CSeq.vok Model/CSeq.required_vos: Model/CSeq.v Model/Driver.vos Model/Consts.vos Model/Lookup.vos Model/UInt.vos
Model/Quoted.vo Model/Quoted.glob Model/Quoted.v.beautified Model/Quoted.required_vo: Model/Quoted.v Model/Driver.vo Model/Consts.vo
Model/Quoted.vio: Model/Quoted.v Model/Driver.vio Model/Consts.vio
Model/Quoted.vos Model/Quoted.vok Model/Quoted.required_vos: Model/Quoted.v Model/Driver.vos Model/Consts.vos
Model/FLine.vo Model/FLine.glob Model/FLine.v.beautified Model/FLine.required_vo: Model/FLine.v Model/Driver.vo Model/Consts.vo Model/Lookup.vo Gen/Tables.vo
Model/FLine.vio: Model/FLine.v Model/Driver.vio Model/Consts.vio Model/Lookup.vio Gen/Tables.vio
Model/FLine.vos Model/FLine.vok Model/FLine.required_vos: Model/FLine.v Model/Driver.vos Model/Consts.vos Model/Lookup.vos Gen/Tables.vos
Model/TokParam.vo Model/TokParam.glob Model/TokParam.v.beautified Model/TokParam.required_vo: Model/TokParam.v Model/Driver.vo Model/Consts.vo Model/Quoted.vo
Model/TokParam.vio: Model/TokParam.v Model/Driver.vio Model/Consts.vio Model/Quoted.vio
Model/TokParam.vos Model/TokParam.vok Model/TokParam.required_vos: Model/TokParam.v Model/Driver.vos Model/Consts.vos Model/Quoted.vos
Model/NameAddr.vo Model/NameAddr.glob Model/NameAddr.v.beautified Model/NameAddr.required_vo: Model/NameAddr.v Model/Driver.vo Model/Consts.vo
Model/NameAddr.vio: Model/NameAddr.v Model/Driver.vio Model/Consts.vio
Model/NameAddr.vos Model/NameAddr.vok Model/NameAddr.required_vos: Model/NameAddr.v Model/Driver.vos Model/Consts.vos
Model/Contacts.vo Model/Contacts.glob Model/Contacts.v.beautified Model/Contacts.required_vo: Model/Contacts.v Model/NameAddr.vo
Model/Contacts.vio: Model/Contacts.v Model/NameAddr.vio
Model/Contacts.vos Model/Contacts.vok Model/Contacts.required_vos: Model/Contacts.v Model/NameAddr.vos
Model/URILists.vo Model/URILists.glob Model/URILists.v.beautified Model/URILists.required_vo: Model/URILists.v Model/TokParam.vo Model/Contacts.vo
Model/URILists.vio: Model/URILists.v Model/TokParam.vio Model/Contacts.vio
Model/URILists.vos Model/URILists.vok Model/URILists.required_vos: Model/URILists.v Model/TokParam.vos Model/Contacts.vos
Model/Headers.vo Model/Headers.glob Model/Headers.v.beautified Model/Headers.required_vo: Model/Headers.v Model/Lookup.vo Model/CallID.vo Model/UInt.vo Model/CSeq.vo Model/NameAddr.vo Model/Contacts.vo
Model/Headers.vio: Model/Headers.v Model/Lookup.vio Model/CallID.vio Model/UInt.vio Model/CSeq.vio Model/NameAddr.vio Model/Contacts.vio
Model/Headers.vos Model/Headers.vok Model/Headers.required_vos: Model/Headers.v Model/Lookup.vos Model/CallID.vos Model/UInt.vos Model/CSeq.vos Model/NameAddr.vos Model/Contacts.vos
