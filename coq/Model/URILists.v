(* parse_uri_params.go, parse_uri_hdrs.go *)
From Sipsp Require Export TokParam Contacts.

Definition lit (s : list N) : list byte := s.
Definition str_transport : list byte := [116;114;97;110;115;112;111;114;116].
Definition str_maddr : list byte := [109;97;100;100;114].
Definition str_user : list byte := [117;115;101;114].
Definition str_method : list byte := [109;101;116;104;111;100].
Definition str_ttl : list byte := [116;116;108].

(* URIParamResolve *)
Definition uri_param_resolve (n : list byte) : N :=
  if eqb_nocase n str_transport then URIParamTransportF
  else if eqb_nocase n str_lr then URIParamLRF
  else if eqb_nocase n str_maddr then URIParamMaddrF
  else if eqb_nocase n str_user then URIParamUserF
  else if eqb_nocase n str_method then URIParamMethodF
  else if eqb_nocase n str_ttl then URIParamTTLF
  else URIParamOtherF.

Record uriparam := mkuriparam { up_param : tokparam; up_t : N }.
#[export] Instance eta_uriparam : Settable _ := settable! mkuriparam <up_param; up_t>.
Definition uriparam0 : uriparam := mkuriparam tokparam0 URIParamNone.

Record uparams := mkuparams { ul_params : list uriparam; ul_n : N; ul_types : N; ul_tmp : uriparam;
                               ul_vno : N (* values parsed by the current call (a result, not a field) *) }.
#[export] Instance eta_uparams : Settable _ := settable! mkuparams <ul_params; ul_n; ul_types; ul_tmp; ul_vno>.
Definition uparams_init (ps : list uriparam) : uparams := mkuparams ps 0 0 uriparam0 0.
Definition uparams_reset (l : uparams) : uparams := uparams_init (map (fun _ => uriparam0) (ul_params l)).
Definition ul_cap (l : uparams) : N := nnat (length (ul_params l)).
Definition ul_pno (l : uparams) : N := N.min (ul_n l) (ul_cap l).
Definition ul_more (l : uparams) : bool := ul_cap l <? ul_n l.
Definition ul_is_tmp (l : uparams) : bool := ul_cap l <=? ul_n l.
Definition ul_slot (l : uparams) : uriparam :=
  if ul_is_tmp l then ul_tmp l else nth (N.to_nat (ul_n l)) (ul_params l) uriparam0.
Definition ul_store (l : uparams) (v : uriparam) : uparams :=
  if ul_is_tmp l then l <| ul_tmp := v |>
  else l <| ul_params := set_nth (N.to_nat (ul_n l)) v (ul_params l) |>.

Definition ul_iter1 (flags0 : N) (pre rest : list byte) (i : N) (l : uparams) : ires uparams :=
  let flags := N.lor flags0 (2 ^ bPOptParamSemiSep) in
  let p := ul_slot l in
  match run (tp_iter flags) pre rest i 0 (up_param p) with
  | Done next e tp =>
    match e with
    | EOk | EMoreValues | EEOH =>
      match zget pre rest i (tp_name tp) with
      | None => IPanic
      | Some name =>
        let t := uri_param_resolve name in
        let l1 := ul_store l (mkuriparam tp t) in
        let l2 := l1 <| ul_types := N.lor (ul_types l1) t |> <| ul_vno := ul_vno l1 + 1 |> in
        let l3 := if ul_is_tmp l then l2 <| ul_tmp := uriparam0 |> else l2 in
        let l4 := l3 <| ul_n := ul_n l3 + 1 |> in
        match e with
        | EMoreValues => Next (N.to_nat (next - i)) l4
        | _ => Ret next e l4
        end
      end
    | EMore => Ret next EMore (ul_store l (p <| up_param := tp |>))
    | _ => Ret next e (ul_store l uriparam0)
    end
  | _ => IPanic
  end.
(* ParseTokenParam can return more-values without advancing (a resumed call
   that finds the next parameter's first byte): the Go loop then calls it
   again at the same offset, now in the next-value state *)
Definition ul_iter (flags0 : N) (pre rest : list byte) (i : N) (l : uparams) : ires uparams :=
  match ul_iter1 flags0 pre rest i l with
  | Next O l' => ul_iter1 flags0 pre rest i l'
  | r => r
  end.
Definition parse_all_uri_params (flags : N) (buf : list byte) (offs : N) (l : uparams) : res uparams :=
  parse (ul_iter flags) buf offs (l <| ul_vno := 0 |>).

Definition obs_uriparam (p : uriparam) : list Z := obs_tokparam (up_param p) ++ [n2z (up_t p)].
Definition obs_uparams (l : uparams) : list Z :=
  [n2z (ul_n l); n2z (ul_types l); n2z (ul_pno l); b2z (ul_more l)]
  ++ flat_map obs_uriparam (firstn (N.to_nat (ul_pno l)) (ul_params l)).

(* ---- URI headers list ------------------------------------------------- *)
Record uhdrs := mkuhdrs { uh_hdrs : list tokparam; uh_n : N; uh_tmp : tokparam; uh_vno : N }.
#[export] Instance eta_uhdrs : Settable _ := settable! mkuhdrs <uh_hdrs; uh_n; uh_tmp; uh_vno>.
Definition uhdrs_init (hs : list tokparam) : uhdrs := mkuhdrs hs 0 tokparam0 0.
Definition uhdrs_reset (l : uhdrs) : uhdrs := uhdrs_init (map (fun _ => tokparam0) (uh_hdrs l)).
Definition uh_cap (l : uhdrs) : N := nnat (length (uh_hdrs l)).
Definition uh_hno (l : uhdrs) : N := N.min (uh_n l) (uh_cap l).
Definition uh_more (l : uhdrs) : bool := uh_cap l <? uh_n l.
Definition uh_is_tmp (l : uhdrs) : bool := uh_cap l <=? uh_n l.
Definition uh_slot (l : uhdrs) : tokparam :=
  if uh_is_tmp l then uh_tmp l else nth (N.to_nat (uh_n l)) (uh_hdrs l) tokparam0.
Definition uh_store (l : uhdrs) (v : tokparam) : uhdrs :=
  if uh_is_tmp l then l <| uh_tmp := v |>
  else l <| uh_hdrs := set_nth (N.to_nat (uh_n l)) v (uh_hdrs l) |>.

Definition uh_iter1 (flags0 : N) (pre rest : list byte) (i : N) (l : uhdrs) : ires uhdrs :=
  let flags := N.lor flags0 (N.lor (2 ^ bPOptParamAmpSep) (2 ^ bPOptTokURIHdr)) in
  match run (tp_iter flags) pre rest i 0 (uh_slot l) with
  | Done next e tp =>
    match e with
    | EOk | EMoreValues | EEOH =>
      let l1 := uh_store l tp in
      let l2 := l1 <| uh_vno := uh_vno l1 + 1 |> in
      let l3 := if uh_is_tmp l then l2 <| uh_tmp := tokparam0 |> else l2 in
      let l4 := l3 <| uh_n := uh_n l3 + 1 |> in
      match e with
      | EMoreValues => Next (N.to_nat (next - i)) l4
      | _ => Ret next e l4
      end
    | EMore => Ret next EMore (uh_store l tp)
    | _ => Ret next e (uh_store l tokparam0)
    end
  | _ => IPanic
  end.
Definition uh_iter (flags0 : N) (pre rest : list byte) (i : N) (l : uhdrs) : ires uhdrs :=
  match uh_iter1 flags0 pre rest i l with
  | Next O l' => uh_iter1 flags0 pre rest i l'
  | r => r
  end.
Definition parse_all_uri_hdrs (flags : N) (buf : list byte) (offs : N) (l : uhdrs) : res uhdrs :=
  parse (uh_iter flags) buf offs (l <| uh_vno := 0 |>).
Definition obs_uhdrs (l : uhdrs) : list Z :=
  [n2z (uh_n l); n2z (uh_hno l); b2z (uh_more l)]
  ++ flat_map obs_tokparam (firstn (N.to_nat (uh_hno l)) (uh_hdrs l)).

(* ---- comparisons ------------------------------------------------------ *)
(* Get on a whole buffer *)
Definition bget (buf : list byte) (f : pf) : option (list byte) := zget [] buf 0 f.
Definition bget_d (buf : list byte) (f : pf) : list byte :=
  match bget buf f with Some x => x | None => [] end.

(* a parsed list entry with its text: (type, name, value) *)
Definition ul_entries (l : uparams) (buf : list byte) : list (N * list byte * list byte) :=
  map (fun p => (up_t p, bget_d buf (tp_name (up_param p)), bget_d buf (tp_val (up_param p))))
      (firstn (N.to_nat (ul_pno l)) (ul_params l)).

(* inner loop of URIParamsLstEq for one entry of the first list: None = no
   matching name, Some b = values equal? of the first match *)
Fixpoint up_find (t : N) (name : list byte) (l2 : list (N * list byte * list byte)) : option (list byte) :=
  match l2 with
  | [] => None
  | (t2, n2, v2) :: l2' =>
    if (t =? t2) && (negb (t =? URIParamOtherF) || eqb_nocase name n2) then Some v2
    else up_find t name l2'
  end.
Definition up_bmask : N := N.lor (N.lor URIParamUserF URIParamTTLF) (N.lor URIParamMethodF URIParamMaddrF).
Definition uparams_entries_eq (ty1 ty2 : N) (e1 e2 : list (N * list byte * list byte)) : bool :=
  (N.land ty1 up_bmask =? N.land ty2 up_bmask)
  && forallb (fun '(t, n, v) => match up_find t n e2 with Some v2 => eqb_nocase v v2 | None => true end) e1.
Definition uparams_lst_eq (l1 : uparams) (b1 : list byte) (l2 : uparams) (b2 : list byte) : bool :=
  uparams_entries_eq (ul_types l1) (ul_types l2) (ul_entries l1 b1) (ul_entries l2 b2).

Definition cmp_flags_params : N := N.lor (2 ^ bPOptTokURIParam) (2 ^ bPOptInputEnd).
Definition cmp_flags_hdrs : N := N.lor (2 ^ bPOptTokURIHdr) (2 ^ bPOptInputEnd).
Definition cmp_cap : nat := 100.

(* URIParamsEq: (result, error) ; None = panic *)
Definition uri_params_eq (b1 : list byte) (o1 : N) (b2 : list byte) (o2 : N) : option (bool * err) :=
  match parse_all_uri_params cmp_flags_params b1 o1 (uparams_init (repeat uriparam0 cmp_cap)) with
  | Done _ e1 l1 =>
    if negb (err_eqb e1 EOk || err_eqb e1 EEOH) then Some (false, e1)
    else
      match parse_all_uri_params cmp_flags_params b2 o2 (uparams_init (repeat uriparam0 cmp_cap)) with
      | Done _ e2 l2 =>
        if negb (err_eqb e2 EOk || err_eqb e2 EEOH) then Some (false, e2)
        else Some (uparams_lst_eq l1 b1 l2 b2, EOk)
      | _ => None
      end
  | _ => None
  end.

Definition uh_entries (l : uhdrs) (buf : list byte) : list (list byte * list byte) :=
  map (fun p => (bget_d buf (tp_name p), bget_d buf (tp_val p)))
      (firstn (N.to_nat (uh_hno l)) (uh_hdrs l)).
(* inner loop of URIHdrsLstEq: the first entry with the same name decides *)
Fixpoint uh_find (name v : list byte) (l2 : list (list byte * list byte)) : bool :=
  match l2 with
  | [] => false
  | (n2, v2) :: l2' => if eqb_nocase name n2 then eqb_nocase v v2 else uh_find name v l2'
  end.
Definition uhdrs_entries_eq (e1 e2 : list (list byte * list byte)) : bool :=
  (length e1 =? length e2)%nat && forallb (fun '(n, v) => uh_find n v e2) e1.
Definition uhdrs_lst_eq (l1 : uhdrs) (b1 : list byte) (l2 : uhdrs) (b2 : list byte) : bool :=
  uhdrs_entries_eq (uh_entries l1 b1) (uh_entries l2 b2).
Definition uri_hdrs_eq (b1 : list byte) (o1 : N) (b2 : list byte) (o2 : N) : option (bool * err) :=
  match parse_all_uri_hdrs cmp_flags_hdrs b1 o1 (uhdrs_init (repeat tokparam0 cmp_cap)) with
  | Done _ e1 l1 =>
    if negb (err_eqb e1 EOk || err_eqb e1 EEOH) then Some (false, e1)
    else
      match parse_all_uri_hdrs cmp_flags_hdrs b2 o2 (uhdrs_init (repeat tokparam0 cmp_cap)) with
      | Done _ e2 l2 =>
        if negb (err_eqb e2 EOk || err_eqb e2 EEOH) then Some (false, e2)
        else Some (uhdrs_lst_eq l1 b1 l2 b2, EOk)
      | _ => None
      end
  | _ => None
  end.
