(* Numeric constants of the Go package as the model uses them.
   Proofs/ConstsTie.v proves each equal to the value generated from /repo. *)
From Sipsp Require Export Base.

(* HdrT *)
Definition HdrNone : N := 0.   Definition HdrFrom : N := 1.
Definition HdrTo : N := 2.     Definition HdrCallID : N := 3.
Definition HdrCSeq : N := 4.   Definition HdrVia : N := 5.
Definition HdrMaxFwd : N := 6. Definition HdrCLen : N := 7.
Definition HdrContact : N := 8. Definition HdrExpires : N := 9.
Definition HdrUA : N := 10.    Definition HdrRecordRoute : N := 11.
Definition HdrRoute : N := 12. Definition HdrPAI : N := 13.
Definition HdrOther : N := 14.
(* SIPMethod *)
Definition MUndef : N := 0.    Definition MRegister : N := 1.
Definition MInvite : N := 2.   Definition MAck : N := 3.
Definition MBye : N := 4.      Definition MPrack : N := 5.
Definition MCancel : N := 6.   Definition MOptions : N := 7.
Definition MSubscribe : N := 8. Definition MNotify : N := 9.
Definition MUpdate : N := 10.  Definition MInfo : N := 11.
Definition MRefer : N := 12.   Definition MPublish : N := 13.
Definition MMessage : N := 14. Definition MOther : N := 15.
(* POptFlags: bit numbers *)
Definition bPOptTokCommaTerm : N := 0. Definition bPOptTokQmTerm : N := 1.
Definition bPOptTokSpTerm : N := 2.    Definition bPOptInputEnd : N := 3.
Definition bPOptParamSemiSep : N := 4. Definition bPOptParamAmpSep : N := 5.
Definition bPOptTokURIParam : N := 6.  Definition bPOptTokURIHdr : N := 7.
(* ParseSIPMsg flags: bit numbers *)
Definition bSIPMsgSkipBody : N := 0. Definition bSIPMsgCLenReq : N := 1.
Definition bSIPMsgNoMoreData : N := 2.
(* numeric limits *)
Definition MaxCSeqNValueSize : N := 10.
Definition MaxCSeqNValue : N := 4294967295.
Definition MaxCLenValueSize : N := 9.
Definition MaxClenValue : N := 16777216.
Definition MaxU32 : N := 4294967295.
Definition MaxU64 : N := 18446744073709551615.
(* ErrorURI *)
Definition NoURIErr : N := 0.      Definition ErrURIBadChar : N := 1.
Definition ErrURIScheme : N := 2.  Definition ErrURIHost : N := 3.
Definition ErrURIPort : N := 4.    Definition ErrURIHeaders : N := 5.
Definition ErrURITooShort : N := 6. Definition ErrURIBad : N := 7.
Definition ErrURIBug : N := 8.
(* URIScheme *)
Definition INVALIDuri : N := 0. Definition SIPuri : N := 1.
Definition SIPSuri : N := 2.    Definition TELuri : N := 3.
(* URICmpFlags: bit numbers *)
Definition bURICmpSkipPort : N := 0.   Definition bURICmpSkipScheme : N := 1.
Definition bURICmpSkipUser : N := 2.   Definition bURICmpSkipPass : N := 3.
Definition bURICmpSkipParams : N := 4. Definition bURICmpSkipHeaders : N := 5.
(* URIParamF values *)
Definition URIParamNone : N := 0.
Definition URIParamTransportF : N := 1. Definition URIParamUserF : N := 2.
Definition URIParamMethodF : N := 4.    Definition URIParamTTLF : N := 8.
Definition URIParamMaddrF : N := 16.    Definition URIParamLRF : N := 32.
Definition URIParamOtherF : N := 64.
(* StrSigId flags: values *)
Definition SigIPStartF : N := 1.   Definition SigIPEndF : N := 2.
Definition SigIPMiddleF : N := 4.  Definition SigHasAtF : N := 8.
Definition SigHasDotF : N := 16.   Definition SigHasColonF : N := 32.
Definition SigHasDashF : N := 64.  Definition SigHasStarF : N := 128.
Definition SigHasDivF : N := 256.  Definition SigHasPlusF : N := 512.
Definition SigHasEqF : N := 1024.  Definition SigHasUnderF : N := 2048.
Definition SigHasPipeF : N := 4096. Definition SigHexEncF : N := 8192.
Definition SigB64EncF : N := 16384. Definition SigDigBlocksF : N := 32768.
Definition HdrSigIdCMask : N := 8.
Definition NoSigHdrs : N := 8.
(* built-in array sizes *)
Definition defaultHdrs : nat := 10.
Definition defaultContacts : nat := 10.
Definition paiVals : nat := 2.
