(* msg_sig.go: GetHdrSigId, GetMsgSig, MsgSig.String.
   The three string-signature functions (GetCallIDSig, getStrCharsSig,
   GetViaBrSig) are Section variables: GetMsgSig is modelled relative to them.
   For execution the harness supplies their values as computed by /repo. *)
From Sipsp Require Export Msg URILists.
From Sipsp Require Import Tables.

Record msgsig := mkmsgsig {
  sg_method : N; sg_cidslen : N; sg_cidsig : N; sg_fromsig : N; sg_viabsig : N;
  sg_hdrsig : list N (* HdrSig[0:HdrSigLen] *) }.
#[export] Instance eta_msgsig : Settable _ :=
  settable! mkmsgsig <sg_method; sg_cidslen; sg_cidsig; sg_fromsig; sg_viabsig; sg_hdrsig>.
Definition msgsig0 : msgsig := mkmsgsig 0 0 0 0 0 [].

(* HdrFlags is a uint16 *)
Definition hf_bit (t : N) : N := (2 ^ t) mod 65536.
Definition hf_test (f t : N) : bool := negb (N.land f (hf_bit t) =? 0).
Definition hf_set (f t : N) : N := N.lor f (hf_bit t).

Definition hdr_sig_id (h : hdr) : N * err :=
  if nnat (length go_hdr2SigId) <=? h_type h then (255, EBug)
  else
    let s := nth (N.to_nat (h_type h)) go_hdr2SigId 255 in
    if s =? 255 then (255, EBad)
    else if pl (h_name h) =? 1 then (N.lor go_HdrSigIdCMask s, EOk) else (s, EOk).

Section Sig.
  Variable callid_sig : list byte -> N * N.   (* GetCallIDSig: (sig, short len) *)
  Variable str_sig : list byte -> N.          (* getStrCharsSig(s, 0, 0), first result *)
  Variable viabr_sig : list byte -> N.        (* GetViaBrSig, first result *)

  (* the loop over msg.HL.Hdrs: Some (sig, true) = returned from inside the loop *)
  Fixpoint sig_walk (buf : list byte) (pflags : N) (hs : list hdr) (seen : N) (sig : msgsig)
    : option (msgsig * bool) :=
    match hs with
    | [] => Some (sig, false)
    | h :: hs' =>
      if hf_test seen (h_type h) then sig_walk buf pflags hs' seen sig
      else
        let seen := hf_set seen (h_type h) in
        match (if h_type h =? HdrVia then
                 match bget buf (h_val h) with
                 | Some v => Some (sig <| sg_viabsig := viabr_sig v |>)
                 | None => None
                 end
               else Some sig) with
        | None => None
        | Some sig =>
          let '(s, e) := hdr_sig_id h in
          let add := err_eqb e EOk && (negb (h_type h =? HdrContact) || (sg_method sig =? MInvite)) in
          let sig1 := if add then sig <| sg_hdrsig := sg_hdrsig sig ++ [s] |> else sig in
          if add && (go_NoSigHdrs <=? nnat (length (sg_hdrsig sig1))) then Some (sig1, true)
          else if N.land pflags go_sigHdrsFlags =? seen then Some (sig1, true)
          else sig_walk buf pflags hs' seen sig1
        end
    end.

  (* GetMsgSig(msg): buf = the bytes msg.Buf can reach.  None = panic *)
  Definition get_msg_sig (m : pmsg) (buf : list byte) : option (msgsig * err) :=
    if negb (msg_request m) then Some (msgsig0, EEmpty)
    else
      let v := msg_pv m in
      match bget buf (ci_callid (pv_callid v)), bget buf (fb_tag (pv_from v)) with
      | Some cid, Some tag =>
        let '(cs, cl) := callid_sig cid in
        let sig := mkmsgsig (fl_methodno (m_fl m)) cl cs (str_sig tag) 0 [] in
        let l := hs_l (m_hs m) in
        match sig_walk buf (hl_pflags l) (hl_hdrs l) 0 sig with
        | None => None
        | Some (sig, true) => Some (sig, EOk)
        | Some (sig, false) => if hl_cap l <? hl_n l then Some (sig, ETrunc) else Some (sig, EOk)
        end
      | _, _ => None
      end.
End Sig.

(* MsgSig.String() *)
Definition hexdig (d : N) : byte := if d <? 10 then 48 + d else 87 + d.
Definition hex4 (v : N) : list byte :=
  [hexdig (N.land (N.shiftr v 12) 15); hexdig (N.land (N.shiftr v 8) 15);
   hexdig (N.land (N.shiftr v 4) 15); hexdig (N.land v 15)].
Definition sig_string (s : msgsig) : list byte :=
  if (sg_method s =? MUndef) && (length (sg_hdrsig s) =? 0)%nat then []
  else
    (if 16 <=? sg_method s then [69] else []) ++ [hexdig (N.land (sg_method s) 15)]
    ++ flat_map (fun h => (if 16 <=? h then [69] else []) ++ [hexdig (N.land h 15)]) (sg_hdrsig s)
    ++ [73] ++ hex4 (sg_cidsig s)
    ++ [hexdig (N.land (N.shiftr (sg_cidslen s) 4) 15); hexdig (N.land (sg_cidslen s) 15)]
    ++ [70] ++ hex4 (sg_fromsig s) ++ [86] ++ hex4 (sg_viabsig s).

Definition obs_msgsig (r : option (msgsig * err)) : list Z :=
  match r with
  | None => [(-999)%Z]
  | Some (s, e) =>
    [n2z (err_code e); n2z (sg_method s); n2z (sg_cidslen s); n2z (sg_cidsig s); n2z (sg_fromsig s);
     n2z (sg_viabsig s); Z.of_nat (length (sg_hdrsig s))] ++ map n2z (sg_hdrsig s)
  end.
