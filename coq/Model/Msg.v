(* parse_msg.go: PSIPMsg, ParseSIPMsg *)
From Sipsp Require Export FLine Headers.

Inductive mst := MInit | MFLine | MHeaders | MBody | MErr | MNoCLen | MFIN.

(* Buf and RawMsg are slices of the caller's buffer: the model keeps their
   extents.  m_buf = (len, known): known=false is a Buf the model cannot know
   (whatever the object was Init-ed with) *)
Record pmsg := mkpmsg {
  m_fl : fline; m_hs : hdrs_st; m_body : pf;
  m_buflen : N; m_raw : option (N * N);
  m_state : mst; m_offs : N }.
#[export] Instance eta_pmsg : Settable _ :=
  settable! mkpmsg <m_fl; m_hs; m_body; m_buflen; m_raw; m_state; m_offs>.

(* Init(msg, hdrs, contacts) on any object: nil arrays = the built-in ones *)
Definition msg_init (buflen : N) (hdrs : list hdr) (cvals : list pfrom) : pmsg :=
  mkpmsg fline0 (mkhdrs_st (hdrlst_init hdrs) (Some (phvals_init cvals))) pf0 buflen None MInit 0.
(* Reset: keeps Buf, the header array and the contact array (all cleared) *)
Definition msg_reset (m : pmsg) : pmsg :=
  let l := hs_l (m_hs m) in
  let cv := match hs_pv (m_hs m) with Some v => ct_vals (pv_contacts v) | None => [] end in
  msg_init (m_buflen m) (map (fun _ => hdr0) (hl_hdrs l)) (map (fun _ => pfrom0) cv).

Definition msg_parsed (m : pmsg) : bool := match m_state m with MFIN => true | _ => false end.
Definition msg_err (m : pmsg) : bool := match m_state m with MErr => true | _ => false end.
Definition msg_request (m : pmsg) : bool := fl_request (m_fl m).
Definition msg_pv (m : pmsg) : phvals :=
  match hs_pv (m_hs m) with Some v => v | None => phvals_init [] end.
Definition msg_method (m : pmsg) : N :=
  if msg_request m then fl_methodno (m_fl m) else cs_methodno (pv_cseq (msg_pv m)).

(* labels errFL / errHL / errBUG *)
Definition msg_fail (flags : N) (o : N) (e : err) (m : pmsg) : res pmsg :=
  match e with
  | EMore =>
    if testbit flags bSIPMsgNoMoreData then Done o ETrunc (m <| m_state := MErr |>)
    else Done o EMore m
  | _ => Done o e (m <| m_state := MErr |>)
  end.

(* label end *)
Definition msg_end (buflen : N) (o : N) (m : pmsg) : res pmsg :=
  match pf_extend (m_body m) o with
  | None => Panic
  | Some b =>
    (* msg.Buf = buf[0:o]; msg.RawMsg = msg.Buf[msg.offs:o] *)
    if (buflen <? o) || (o <? m_offs m) then Panic
    else Done o EOk (m <| m_body := b |> <| m_buflen := o |> <| m_raw := Some (m_offs m, o - m_offs m) |>
                       <| m_state := MFIN |>)
  end.

Definition msg_body (flags : N) (buflen : N) (o : N) (m : pmsg) : res pmsg :=
  match pf_set o o with
  | None => Panic
  | Some b0 =>
    let m := m <| m_body := b0 |> in
    let clen := pv_clen (msg_pv m) in
    if testbit flags bSIPMsgSkipBody then
      if testbit flags bSIPMsgCLenReq && negb (ui_parsed clen) then
        if (buflen <? o) || (o <? m_offs m) then Panic
        else Done o ENoCLen (m <| m_state := MNoCLen |> <| m_buflen := o |>
                               <| m_raw := Some (m_offs m, o - m_offs m) |>)
      else msg_end buflen o (m <| m_state := MFIN |>)
    else if ui_parsed clen then
      if buflen <? o + ui_val clen then
        if testbit flags bSIPMsgNoMoreData then msg_end buflen buflen m
        else Done o EMore m
      else msg_end buflen (o + ui_val clen) m
    else if testbit flags bSIPMsgCLenReq then msg_end buflen o m
    else msg_end buflen buflen m
  end.

Definition msg_headers (flags : N) (buf : list byte) (o : N) (m : pmsg) : res pmsg :=
  match parse_headers buf o (m_hs m) with
  | Done o' e hs =>
    let m := m <| m_hs := hs |> in
    match e with
    | EOk => msg_body flags (nnat (length buf)) o' (m <| m_state := MBody |>)
    | _ => msg_fail flags o' e m
    end
  | Panic => Panic
  | Stuck => Stuck
  end.

Definition msg_fline (flags : N) (buf : list byte) (o : N) (m : pmsg) : res pmsg :=
  match parse_fline buf o (m_fl m) with
  | Done o' e fl =>
    let m := m <| m_fl := fl |> in
    match e with
    | EOk => msg_headers flags buf o' (m <| m_state := MHeaders |>)
    | _ => msg_fail flags o' e m
    end
  | Panic => Panic
  | Stuck => Stuck
  end.

Definition parse_sipmsg (flags : N) (buf : list byte) (offs : N) (m0 : pmsg) : res pmsg :=
  let m := m0 <| m_buflen := nnat (length buf) |> in
  match m_state m with
  | MInit => msg_fline flags buf offs (m <| m_offs := offs |> <| m_state := MFLine |>)
  | MFLine => msg_fline flags buf offs m
  | MHeaders => msg_headers flags buf offs m
  | MBody => msg_body flags (nnat (length buf)) offs m
  | _ => msg_fail flags offs EBug m
  end.

Definition obs_msg (m : pmsg) : list Z :=
  obs_fline (m_fl m) ++ obs_hdrlst (hs_l (m_hs m)) ++ obs_phvals (msg_pv m) ++ obs_pf (m_body m)
  ++ [n2z (m_buflen m)]
  ++ (match m_raw m with Some (a, l) => [n2z a; n2z l] | None => [(-1)%Z; 0%Z] end)
  ++ [b2z (msg_parsed m); b2z (msg_err m); b2z (msg_request m); n2z (msg_method m)].
