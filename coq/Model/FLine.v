(* parse_fline.go *)
From Sipsp Require Export Driver Consts Lookup.
From Sipsp Require Import Tables.

Inductive flst := FlInit | FlReqMethod | FlReqURI | FlReqVer | FlRplStatus | FlRplReason | FlCRLF | FlFIN.
Record fline := mkfline { fl_status : N; fl_methodno : N; fl_method : pf; fl_uri : pf;
                          fl_version : pf; fl_statuscode : pf; fl_reason : pf; fl_state : flst }.
#[export] Instance eta_fline : Settable _ :=
  settable! mkfline <fl_status; fl_methodno; fl_method; fl_uri; fl_version; fl_statuscode; fl_reason; fl_state>.
Definition fline0 : fline := mkfline 0 0 pf0 pf0 pf0 pf0 pf0 FlInit.
Definition fl_request (s : fline) : bool := (fl_status s =? 0) && pf_empty (fl_statuscode s).
Definition fl_parsed (s : fline) : bool := match fl_state s with FlFIN => true | _ => false end.
Definition fl_empty (s : fline) : bool := match fl_state s with FlInit => true | _ => false end.

Definition fl_crlf (rest : list byte) (i : N) (s : fline) : ires fline :=
  match skipCRLF rest with
  | COk crl => Ret (i + nnat crl) EOk (s <| fl_state := FlFIN |>)
  | CMore => Ret i EMore s
  | CNoCR => Ret i ENoCR s
  end.

Definition fl_ver (pre rest : list byte) (i : N) (s : fline) : ires fline :=
  let k := skipToken rest in
  let i' := i + nnat k in
  match skipn k rest with
  | [] => Ret i' EMore s
  | c :: _ =>
    if negb (is_crlf c) then Ret i' EBadChar s
    else
      let! v := pf_extend (fl_version s) i' in
      let s := s <| fl_version := v |> in
      if pf_empty v then Ret i' EBadChar s
      else fl_crlf (skipn k rest) i' (s <| fl_state := FlCRLF |>)
  end.

Definition fl_requri (pre rest : list byte) (i : N) (s : fline) : ires fline :=
  let k := skipToken rest in
  let i' := i + nnat k in
  match skipn k rest with
  | [] => Ret i' EMore s
  | c :: r' =>
    if negb (c =? SP) then Ret i' EBadChar s
    else
      let! u := pf_extend (fl_uri s) i' in
      let s := s <| fl_uri := u |> in
      if pf_empty u then Ret i' EBadChar s
      else
        let! v := pf_set (i' + 1) (i' + 1) in
        fl_ver (zpre (S k) pre rest) r' (i' + 1) (s <| fl_state := FlReqVer |> <| fl_version := v |>)
  end.

Definition fl_method_ph (pre rest : list byte) (i : N) (s : fline) : ires fline :=
  let k := skipToken rest in
  let i' := i + nnat k in
  match skipn k rest with
  | [] => Ret i' EMore s
  | c :: r' =>
    if negb (c =? SP) then Ret i' EBadChar s
    else
      let! m := pf_extend (fl_method s) i' in
      let s := s <| fl_method := m |> in
      if pf_empty m then Ret i' EBadChar s
      else
        match zget pre rest i m with
        | None => IPanic
        | Some name =>
          let! u := pf_set (i' + 1) (i' + 1) in
          fl_requri (zpre (S k) pre rest) r' (i' + 1)
            (s <| fl_methodno := get_method_no name |> <| fl_state := FlReqURI |> <| fl_uri := u |>)
        end
  end.

(* flRplReason: skipLine, then Reason.Extend *)
Definition fl_reason_ph (rest : list byte) (i : N) (s : fline) : ires fline :=
  let '(k, r) := skipLine rest in
  match r with
  | COk crl =>
    let! f := pf_extend (fl_reason s) (i + nnat k) in
    Ret (i + nnat k + nnat crl) EOk (s <| fl_reason := f |> <| fl_state := FlFIN |>)
  | CMore => Ret (i + nnat k) EMore s
  | CNoCR => Ret (i + nnat k) ENoCR s
  end.

Definition prefix_nocase (p s : list byte) : bool :=
  (length p <=? length s)%nat && eqb_nocase (firstn (length p) s) p.

Definition fl_init (pre rest : list byte) (i : N) (s : fline) : ires fline :=
  if (length rest <? length go_sipVerSP + 6)%nat then Ret i EMore s
  else if prefix_nocase go_sipVerSP rest then
    let l := length go_sipVerSP in
    let! v := pf_set i (i + nnat l - 1) in
    let s := s <| fl_version := v |> <| fl_state := FlRplStatus |> in
    let i1 := i + nnat l in
    match skipn l rest with
    | a :: b :: c :: d :: r' =>
      if negb (d =? SP) || negb (is_digit a && is_digit b && is_digit c) then Ret i1 EBadChar s
      else
        let! sc := pf_set i1 (i1 + 3) in
        let! rs := pf_set (i1 + 4) (i1 + 4) in
        fl_reason_ph r' (i1 + 4)
          (s <| fl_statuscode := sc |>
             <| fl_status := (digit_val a * 100 + digit_val b * 10 + digit_val c) mod 65536 |>
             <| fl_reason := rs |> <| fl_state := FlRplReason |>)
    | _ => IPanic   (* index out of range: excluded by the length test *)
    end
  else
    let! m := pf_set i i in
    fl_method_ph pre rest i (s <| fl_state := FlReqMethod |> <| fl_method := m |>).

Definition fl_iter (pre rest : list byte) (i : N) (s : fline) : ires fline :=
  match fl_state s with
  | FlInit => fl_init pre rest i s
  | FlReqMethod => fl_method_ph pre rest i s
  | FlReqURI => fl_requri pre rest i s
  | FlReqVer => fl_ver pre rest i s
  | FlCRLF => fl_crlf rest i s
  | FlRplReason => fl_reason_ph rest i s
  | FlRplStatus | FlFIN => Ret i EOk (s <| fl_state := FlFIN |>)
  end.

Definition parse_fline := parse fl_iter.
Definition obs_fline (s : fline) : list Z :=
  [n2z (fl_status s); n2z (fl_methodno s)] ++ obs_pf (fl_method s) ++ obs_pf (fl_uri s)
  ++ obs_pf (fl_version s) ++ obs_pf (fl_statuscode s) ++ obs_pf (fl_reason s)
  ++ [b2z (fl_request s); b2z (fl_parsed s); b2z (fl_empty s)].
