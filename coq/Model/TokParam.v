(* parse_params.go: ParseTokenParam *)
From Sipsp Require Export Driver Consts Quoted.

Inductive tpst := PInit | PName | PFEq | PFVal | PVal | PFSep | PFNxt | PInitNxtVal
                | PQuotedVal | PERR | PFIN.
Record tokparam := mktokparam { tp_all : pf; tp_name : pf; tp_val : pf; tp_state : tpst }.
#[export] Instance eta_tokparam : Settable _ := settable! mktokparam <tp_all; tp_name; tp_val; tp_state>.
Definition tokparam0 : tokparam := mktokparam pf0 pf0 pf0 PInit.
Definition tp_empty (s : tokparam) : bool := pf_empty (tp_all s).

(* decoded option flags *)
Record tpflags := mktpflags { tf_sep : byte; tf_term : byte; tf_spterm : bool; tf_ie : bool; tf_uriparam : bool }.
Definition tp_decode (flags : N) : tpflags :=
  let t := testbit flags in
  mktpflags
    (if t bPOptParamAmpSep || t bPOptTokURIHdr then 38 else 59)
    (if t bPOptTokQmTerm || t bPOptTokURIParam then 63 else if t bPOptTokCommaTerm then 44 else 0)
    (t bPOptTokSpTerm) (t bPOptInputEnd) (t bPOptTokURIParam).

Definition tp_endOfHdr (ret : N) (s : tokparam) : ires tokparam :=
  match tp_state s with
  | PInit | PInitNxtVal => Ret ret EEOH s
  | PFNxt | PName | PFEq | PFVal | PVal | PFSep => Ret ret EEOH (s <| tp_state := PFIN |>)
  | _ => Ret ret EBug (s <| tp_state := PERR |>)
  end.

(* label moreBytes, reached at offset j with len(buf) = bend *)
Definition tp_moreBytes (f : tpflags) (j bend : N) (s : tokparam) : ires tokparam :=
  if tf_ie f then
    match tp_state s with
    | PInit | PInitNxtVal | PFNxt | PFSep | PFVal | PFEq => tp_endOfHdr bend s
    | PName =>
      let! n := pf_extend (tp_name s) j in
      let! a := pf_extend (tp_all s) j in
      tp_endOfHdr bend (s <| tp_name := n |> <| tp_all := a |>)
    | PVal =>
      let! v := pf_extend (tp_val s) j in
      let! a := pf_extend (tp_all s) j in
      tp_endOfHdr bend (s <| tp_val := v |> <| tp_all := a |>)
    | PQuotedVal => Ret j EMore s
    | _ => Ret j EBug s
    end
  else Ret j EMore s.

(* white space met at i in state s; upd = what the state does to itself once
   the white space is known to be complete (nothing in most states) *)
Definition tp_ws (f : tpflags) (rest : list byte) (i : N) (s : tokparam)
  (upd : option tokparam) : ires tokparam :=
  match skipLWS (tf_ie f) rest with
  | LMore _ => tp_moreBytes f i (i + nnat (length rest)) s
  | LOk k => let! s1 := upd in Next k s1
  | LEOH k crl => let! s1 := upd in tp_endOfHdr (i + nnat k + nnat crl) s1
  end.

(* found a token after the parameter, with POptTokSpTermF: the separator
   offset is returned if there is one (buf[i-1] is white space) *)
Definition tp_spterm_ret (pre : list byte) (i : N) (s : tokparam) : ires tokparam :=
  let s := s <| tp_state := PFIN |> in
  match zprev pre with
  | Some p => if is_ws p then Ret (i - 1) EOk s else Ret i EOk s
  | None => Ret i EOk s
  end.

Definition tp_bad (i : N) (s : tokparam) : ires tokparam :=
  Ret i EBadChar (s <| tp_state := PERR |>).

Definition is_tp_fnxt (st : tpst) : bool := match st with PFNxt => true | _ => false end.
Definition ext2 (a b : pf) (e1 e2 : N) : option (pf * pf) :=
  match pf_extend a e1, pf_extend b e2 with
  | Some x, Some y => Some (x, y)
  | _, _ => None
  end.

Section TpStep.
  Variable f : tpflags.
  Variables pre rest : list byte.
  Variable i : N.
  Variable s : tokparam.
  Variable c : byte.
  Let is_term := (c =? tf_term f) && negb (tf_term f =? 0).
  Let is_sep := c =? tf_sep f.
  Let allowed := tok_allowed (tf_uriparam f) c.

  (* paramInit, paramInitNxtVal, paramFNxt *)
  Definition tp_sInit (st : tpst) : ires tokparam :=
    if is_ws c then tp_ws f rest i s (Some s)
    else if is_sep then Next 1 s
    else if negb allowed then tp_bad i s
    else if is_tp_fnxt st then Ret i EMoreValues (s <| tp_state := PInitNxtVal |>)
    else
      let! n := pf_set i i in
      Next 1 (s <| tp_state := PName |> <| tp_name := n |> <| tp_all := n |>).

  Definition tp_sName : ires tokparam :=
    if is_ws c then
      tp_ws f rest i s
        (match ext2 (tp_name s) (tp_all s) i i with
         | Some (n, a) => Some (s <| tp_state := PFEq |> <| tp_name := n |> <| tp_all := a |>)
         | None => None
         end)
    else if c =? 61 then
      let! (n, a) := ext2 (tp_name s) (tp_all s) i (i + 1) in
      Next 1 (s <| tp_name := n |> <| tp_all := a |> <| tp_state := PFVal |>)
    else if is_term then
      let! (n, a) := ext2 (tp_name s) (tp_all s) i i in
      Ret i EOk (s <| tp_name := n |> <| tp_all := a |> <| tp_state := PFIN |>)
    else if is_sep then
      let! (n, a) := ext2 (tp_name s) (tp_all s) i i in
      Next 1 (s <| tp_name := n |> <| tp_all := a |> <| tp_state := PFNxt |>)
    else if negb allowed then tp_bad i s
    else Next 1 s.

  Definition tp_sFEq : ires tokparam :=
    if is_ws c then tp_ws f rest i s (Some s)
    else if c =? 61 then Next 1 (s <| tp_state := PFVal |>)
    else if is_term then Ret i EOk (s <| tp_state := PFIN |>)
    else if is_sep then Next 1 (s <| tp_state := PFNxt |>)
    else if negb allowed then tp_bad i s
    else if tf_spterm f then tp_spterm_ret pre i s
    else tp_bad i s.

  Definition tp_sFVal : ires tokparam :=
    if is_ws c then tp_ws f rest i s (Some s)
    else if c =? 34 then
      let! v := pf_set i i in
      let! a := pf_extend (tp_all s) i in
      Next 1 (s <| tp_val := v |> <| tp_all := a |> <| tp_state := PQuotedVal |>)
    else if is_term then
      let! v := pf_set i i in
      Ret i EOk (s <| tp_val := v |> <| tp_state := PFIN |>)
    else if is_sep then
      let! v := pf_set i i in
      let! a := pf_extend (tp_all s) i in
      Next 1 (s <| tp_val := v |> <| tp_all := a |> <| tp_state := PFNxt |>)
    else if negb allowed then tp_bad i s
    else
      let! v := pf_set i i in
      let! a := pf_extend (tp_all s) i in
      Next 1 (s <| tp_state := PVal |> <| tp_val := v |> <| tp_all := a |>).

  Definition tp_sVal : ires tokparam :=
    if is_ws c then
      tp_ws f rest i s
        (match ext2 (tp_val s) (tp_all s) i i with
         | Some (v, a) => Some (s <| tp_state := PFSep |> <| tp_val := v |> <| tp_all := a |>)
         | None => None
         end)
    else if is_term then
      let! (v, a) := ext2 (tp_val s) (tp_all s) i i in
      Ret i EOk (s <| tp_val := v |> <| tp_all := a |> <| tp_state := PFIN |>)
    else if is_sep then
      let! (v, a) := ext2 (tp_val s) (tp_all s) i i in
      Next 1 (s <| tp_val := v |> <| tp_all := a |> <| tp_state := PFNxt |>)
    else if negb allowed then tp_bad i s
    else Next 1 s.

  Definition tp_sQuoted : ires tokparam :=
    match run sq_iter pre rest i 0 tt with
    | Done o EMore _ => tp_moreBytes f o (i + nnat (length rest)) s
    | Done o EOk _ =>
      let! (v, a) := ext2 (tp_val s) (tp_all s) o o in
      Next (N.to_nat (o - i)) (s <| tp_val := v |> <| tp_all := a |> <| tp_state := PFSep |>)
    | Done o e _ => Ret o e s
    | _ => IPanic
    end.

  Definition tp_sFSep : ires tokparam :=
    if is_ws c then tp_ws f rest i s (Some s)
    else if is_term then Ret i EOk (s <| tp_state := PFIN |>)
    else if is_sep then Next 1 (s <| tp_state := PFNxt |>)
    else if negb allowed then tp_bad i s
    else if tf_spterm f then tp_spterm_ret pre i s
    else tp_bad i s.

  Definition tp_step (st : tpst) : ires tokparam :=
    match st with
    | PInit | PInitNxtVal | PFNxt => tp_sInit st
    | PName => tp_sName
    | PFEq => tp_sFEq
    | PFVal => tp_sFVal
    | PVal => tp_sVal
    | PQuotedVal => tp_sQuoted
    | PFSep => tp_sFSep
    | PERR => Next 1 s
    | PFIN => Ret i EOk s
    end.
End TpStep.

Definition tp_iter (flags : N) (pre rest : list byte) (i : N) (s : tokparam) : ires tokparam :=
  let f := tp_decode flags in
  match tp_state s with
  | PFIN => Ret i EOk s
  | st =>
    match rest with
    | [] => tp_moreBytes f i i s
    | c :: _ => tp_step f pre rest i s c st
    end
  end.

Definition parse_tokparam (flags : N) := parse (tp_iter flags).
Definition obs_tokparam (s : tokparam) : list Z :=
  obs_pf (tp_all s) ++ obs_pf (tp_name s) ++ obs_pf (tp_val s) ++ [b2z (tp_empty s)].
