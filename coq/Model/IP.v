(* ip_prefix.go: IP4Prefix, ContainsIP4 *)
From Sipsp Require Export Base.

Definition DOT : byte := 46.

(* result of IP4Prefix: (found, offset, indication, the 4 address bytes when found) *)
Definition ip4res : Type := bool * N * err * list N.

(* done = completed groups, most recent first (pos = length done);
   cur = ip[pos]; digits = digits of the current group *)
Fixpoint ip4_loop (r : list byte) (o : N) (done : list N) (cur digits : N) : ip4res :=
  match r with
  | [] =>
    if (length done <? 3)%nat || (digits =? 0) then (false, o, EMore, [])
    else (true, o, EOk, rev (cur :: done))
  | c :: r' =>
    if is_digit c then
      if (3 <=? digits) || (255 <? cur * 10 + digit_val c) then
        if (length done <? 3)%nat then (false, o, EBad, [])
        else (true, o, EMoreValues, rev (cur :: done))
      else ip4_loop r' (o + 1) done (cur * 10 + digit_val c) (digits + 1)
    else if c =? DOT then
      if digits =? 0 then (false, o, EBad, [])
      else if (3 <=? length done)%nat then (true, o, EBadChar, rev (cur :: done))
      else ip4_loop r' (o + 1) (cur :: done) 0 0
    else
      if (length done <? 3)%nat || (digits =? 0) then (false, o, EBad, [])
      else (true, o, EBadChar, rev (cur :: done))
  end.
Definition ip4_prefix (buf : list byte) : ip4res := ip4_loop buf 0 [] 0 0.

(* the inner loop of ContainsIP4: try the start offsets o, o+1, .. (cnt of them) *)
Fixpoint ip4_try (buf : list byte) (o cnt : nat) : option (nat * N * list N) :=
  match cnt with
  | O => None
  | S cnt' =>
    match ip4_prefix (skipn o buf) with
    | (true, nxt, _, ip) => Some (o, nxt, ip)
    | _ => ip4_try buf (S o) cnt'
    end
  end.

(* the outer loop: r = buf[j:], i = start of the current search window
   (one past the previous dot) *)
Fixpoint cip4_loop (buf r : list byte) (j i : nat) : option (nat * N * list N) :=
  match r with
  | [] => None
  | c :: r' =>
    if c =? DOT then
      let offs := if (3 <=? j)%nat then (j - 3)%nat else i in
      match ip4_try buf offs (j - offs) with
      | Some x => Some x
      | None => cip4_loop buf r' (S j) (S j)
      end
    else cip4_loop buf r' (S j) i
  end.
(* ContainsIP4: (found, offset, length, address bytes) *)
Definition contains_ip4 (buf : list byte) : bool * N * N * list N :=
  match cip4_loop buf buf 0 0 with
  | Some (o, nxt, ip) => (true, N.of_nat o, nxt, ip)
  | None => (false, 0, 0, [])
  end.

Definition obs_ip4p (r : ip4res) : list Z :=
  let '(ok, o, e, ip) := r in [b2z ok; n2z o; n2z (err_code e)] ++ map n2z ip.
Definition obs_ip4c (r : bool * N * N * list N) : list Z :=
  let '(ok, o, l, ip) := r in [b2z ok; n2z o; n2z l] ++ map n2z ip.

(* the IP-position flag GetCallIDSig derives from ContainsIP4 (msg_sig.go) *)
Definition callid_ip4_flag (cid : list byte) : N :=
  match contains_ip4 cid with
  | (true, o, l, _) =>
    if o =? 0 then 1 else if o + l =? N.of_nat (length cid) then 2 else 4
  | _ => 0
  end.
