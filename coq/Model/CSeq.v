(* parse_cseq.go *)
From Sipsp Require Export Driver Consts Lookup UInt.

Inductive csst := CsInit | CsFoundDigit | CsEndDigit | CsFoundMethod | CsEnd | CsFIN.
Record cseq := mkcseq { cs_no : N; cs_methodno : N; cs_cseq : pf; cs_method : pf;
                        cs_v : pf; cs_state : csst; cs_soffs : N }.
#[export] Instance eta_cseq : Settable _ :=
  settable! mkcseq <cs_no; cs_methodno; cs_cseq; cs_method; cs_v; cs_state; cs_soffs>.
Definition cseq0 : cseq := mkcseq 0 0 pf0 pf0 pf0 CsInit 0.
Definition cs_parsed (s : cseq) : bool := match cs_state s with CsFIN => true | _ => false end.
Definition cs_empty (s : cseq) : bool := match cs_state s with CsInit => true | _ => false end.

(* the part of endOfHdr after the state switch *)
Definition cs_finish (pre rest : list byte) (i0 : N) (ret : N) (s : cseq) : ires cseq :=
  let s := s <| cs_state := CsFIN |> in
  if (MaxCSeqNValueSize <? pl (cs_cseq s)) || (MaxCSeqNValue <? cs_no s)
  then Ret (po (cs_cseq s)) ENumTooBig s
  else
    match zget pre rest i0 (cs_method s) with
    | Some m => Ret ret EOk (s <| cs_soffs := 0 |> <| cs_methodno := get_method_no m |>)
    | None => IPanic
    end.

Definition cs_endOfHdr (pre rest : list byte) (i0 : N) (i n : N) (crl : nat) (s : cseq) : ires cseq :=
  match cs_state s with
  | CsEnd => cs_finish pre rest i0 (n + nnat crl) s
  | CsFoundMethod =>
    let! m := pf_set (cs_soffs s) i in
    let! v := pf_extend (cs_v s) i in
    cs_finish pre rest i0 (n + nnat crl) (s <| cs_method := m |> <| cs_v := v |>)
  | CsInit | CsFoundDigit | CsEndDigit => Ret (n + nnat crl) EBad s
  | CsFIN => Ret (n + nnat crl) EBug s
  end.

Definition cs_lws (pre rest : list byte) (i : N) (s1 : cseq) : ires cseq :=
  match skipLWS false rest with
  | LOk k => Next k s1
  | LEOH k crl => cs_endOfHdr pre rest i i (i + nnat k) crl s1
  | LMore k => Ret (i + nnat k) EMore s1
  end.

Definition cs_iter (pre rest : list byte) (i : N) (s : cseq) : ires cseq :=
  match cs_state s with
  | CsFIN => Ret i EOk s
  | st =>
    match rest with
    | [] => Ret i EMore s
    | c :: _ =>
      if is_ws c then
        match st with
        | CsFoundDigit =>
          let! f := pf_set (cs_soffs s) i in
          cs_lws pre rest i (s <| cs_cseq := f |> <| cs_v := f |> <| cs_state := CsEndDigit |>)
        | CsFoundMethod =>
          let! m := pf_set (cs_soffs s) i in
          let! v := pf_extend (cs_v s) i in
          cs_lws pre rest i (s <| cs_method := m |> <| cs_v := v |> <| cs_state := CsEnd |>)
        | _ => cs_lws pre rest i s
        end
      else if is_digit c then
        match st with
        | CsInit => Next 1 (s <| cs_state := CsFoundDigit |> <| cs_soffs := i |> <| cs_no := digit_val c |>)
        | CsFoundDigit =>
          match acc32 (cs_no s) (digit_val c) with
          | None => Ret i ENumTooBig s
          | Some v => Next 1 (s <| cs_no := v |>)
          end
        | CsEndDigit => Next 1 (s <| cs_state := CsFoundMethod |> <| cs_soffs := i |>)
        | CsFoundMethod => Next 1 s
        | _ => Ret i EBadChar s
        end
      else
        match st with
        | CsInit | CsFoundDigit => Ret i EBadChar s
        | CsEndDigit => Next 1 (s <| cs_state := CsFoundMethod |> <| cs_soffs := i |>)
        | CsFoundMethod => Next 1 s
        | _ => Ret i EBadChar s
        end
    end
  end.

Definition parse_cseq := parse cs_iter.
Definition obs_cseq (s : cseq) : list Z :=
  [n2z (cs_no s); n2z (cs_methodno s)] ++ obs_pf (cs_cseq s) ++ obs_pf (cs_method s)
  ++ obs_pf (cs_v s) ++ [b2z (cs_parsed s); b2z (cs_empty s)].
