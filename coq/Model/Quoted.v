(* parse_params.go: SkipQuoted, tokAllowedChar *)
From Sipsp Require Export Driver Consts.

(* SkipQuoted keeps no state of its own *)
Definition sq_iter (pre rest : list byte) (i : N) (s : unit) : ires unit :=
  match rest with
  | [] => Ret i EMore s
  | c :: r1 =>
    if c =? 34 then Ret (i + 1) EOk s                      (* dquote *)
    else if c =? 92 then                                   (* backslash *)
      match r1 with
      | [] => Ret i EMore s
      | d :: _ => if is_crlf d then Ret (i + 1) EBadChar s else Next 2 s
      end
    else if is_crlf c || (c =? 127) then Ret i EBadChar s
    else if (c <? 33) && negb (is_sp c) then Ret i EBadChar s
    else Next 1 s
  end.
Definition skip_quoted (buf : list byte) (offs : N) : res unit := parse sq_iter buf offs tt.

Definition tok_allowed (uriparam : bool) (c : byte) : bool :=
  if (c <=? 32) || (127 <=? c) then false
  else if is_digit c || is_alpha c then true
  else if (c =? 45) || (c =? 95) || (c =? 46) || (c =? 33) || (c =? 126) || (c =? 42)
          || (c =? 39) || (c =? 40) || (c =? 41) || (c =? 37) then true   (* - _ . ! ~ star quote ( ) percent *)
  else if (c =? 91) || (c =? 93) || (c =? 47) || (c =? 58) || (c =? 43) || (c =? 36) then true (* [ ] / : + $ *)
  else if c =? 38 then uriparam            (* & *)
  else if c =? 63 then negb uriparam       (* ? *)
  else false.
