(* parse_headers.go: Hdr, HdrLst, PHdrVals, ParseHdrLine, ParseHeaders *)
From Sipsp Require Export Lookup CallID UInt CSeq NameAddr Contacts.

Inductive hst := HInit | HName | HNameEnd | HBodyStart | HVal | HValEnd
               | HFrom | HTo | HCallID | HCSeq | HCLen | HContact | HExpires | HPAI | HFIN.
Definition hst_eqb (a b : hst) : bool :=
  match a, b with
  | HInit, HInit | HName, HName | HNameEnd, HNameEnd | HBodyStart, HBodyStart | HVal, HVal
  | HValEnd, HValEnd | HFrom, HFrom | HTo, HTo | HCallID, HCallID | HCSeq, HCSeq | HCLen, HCLen
  | HContact, HContact | HExpires, HExpires | HPAI, HPAI | HFIN, HFIN => true
  | _, _ => false
  end.
Record hdr := mkhdr { h_type : N; h_name : pf; h_val : pf; h_state : hst }.
#[export] Instance eta_hdr : Settable _ := settable! mkhdr <h_type; h_name; h_val; h_state>.
Definition hdr0 : hdr := mkhdr HdrNone pf0 pf0 HInit.
Definition h_missing (h : hdr) : bool := h_type h =? HdrNone.

Record phvals := mkphvals {
  pv_from : pfrom; pv_to : pfrom; pv_callid : callid; pv_cseq : cseq; pv_clen : uintb;
  pv_contacts : contacts; pv_pais : pais; pv_expires : uintb }.
#[export] Instance eta_phvals : Settable _ :=
  settable! mkphvals <pv_from; pv_to; pv_callid; pv_cseq; pv_clen; pv_contacts; pv_pais; pv_expires>.
(* PHdrVals.Init on a new object *)
Definition phvals_init (cvals : list pfrom) : phvals :=
  mkphvals pfrom0 pfrom0 callid0 cseq0 uintb0 (contacts_init cvals) pais0 uintb0.
Definition phvals_reset (v : phvals) : phvals :=
  mkphvals pfrom0 pfrom0 callid0 cseq0 uintb0 (contacts_reset (pv_contacts v)) pais0 uintb0.
(* MaxExpires() *)
Definition pv_max_expires (v : phvals) : N * bool :=
  let '(m, ok) := if ct_parsed (pv_contacts v) then (ct_maxexp (pv_contacts v), true) else (0, false) in
  if ui_parsed (pv_expires v)
  then ((if m <? ui_val (pv_expires v) then ui_val (pv_expires v) else m), true) else (m, ok).

(* state of one ParseHdrLine: the header and the (optional) bodies *)
Record hline := mkhline { hx_h : hdr; hx_pv : option phvals }.
#[export] Instance eta_hline : Settable _ := settable! mkhline <hx_h; hx_pv>.

(* finishing a header-specific body parser call: Val fix-up and hFIN on success *)
Definition hb_finish {B} (r : res B) (st : hline) (valof : B -> pf) (put : B -> phvals)
  : ires hline :=
  match r with
  | Done n e b =>
    let h := hx_h st in
    let h := match e with EOk => h <| h_val := valof b |> <| h_state := HFIN |> | _ => h end in
    Ret n e (mkhline h (Some (put b)))
  | _ => IPanic
  end.

(* run the body parser selected by hstate at the zipper (pre,rest,o) *)
Definition hb_run (hs : hst) (pre rest : list byte) (o : N) (st : hline) (v : phvals) : ires hline :=
  let st := st <| hx_h := (hx_h st) <| h_state := hs |> |> in
  match hs with
  | HFrom => hb_finish (run (fb_iter HdrFrom) pre rest o 0 (pv_from v)) st fb_v (fun b => v <| pv_from := b |>)
  | HTo => hb_finish (run (fb_iter HdrTo) pre rest o 0 (pv_to v)) st fb_v (fun b => v <| pv_to := b |>)
  | HCallID => hb_finish (run ci_iter pre rest o 0 (pv_callid v)) st ci_callid (fun b => v <| pv_callid := b |>)
  | HCSeq => hb_finish (run cs_iter pre rest o 0 (pv_cseq v)) st cs_v (fun b => v <| pv_cseq := b |>)
  | HCLen =>
    (* ParseCLenVal *)
    let r := match run ui_iter pre rest o 0 (pv_clen v) with
             | Done n EOk b =>
               if (MaxCLenValueSize <? pl (ui_sval b)) || (MaxClenValue <? ui_val b)
               then Done (po (ui_sval b)) ENumTooBig b else Done n EOk b
             | r => r
             end in
    hb_finish r st ui_sval (fun b => v <| pv_clen := b |>)
  | HContact => hb_finish (run ct_iter pre rest o 0 (pv_contacts v)) st ct_lasthval (fun b => v <| pv_contacts := b |>)
  | HExpires => hb_finish (run ui_iter pre rest o 0 (pv_expires v)) st ui_sval (fun b => v <| pv_expires := b |>)
  | HPAI => hb_finish (run pa_iter pre rest o 0 (pv_pais v)) st pa_lasthval (fun b => v <| pv_pais := b |>)
  | _ => IPanic
  end.

(* parseBody + the test that follows it; called just after the colon.
   None = no specific parser took the value: go on with the generic one *)
Definition hb_parse_body (pre rest : list byte) (o : N) (st : hline) : option (ires hline) :=
  match hx_pv st with
  | None => None
  | Some v =>
    let t := h_type (hx_h st) in
    if t =? HdrFrom then (if fb_parsed (pv_from v) then None else Some (hb_run HFrom pre rest o st v))
    else if t =? HdrTo then (if fb_parsed (pv_to v) then None else Some (hb_run HTo pre rest o st v))
    else if t =? HdrCallID then (if ci_parsed (pv_callid v) then None else Some (hb_run HCallID pre rest o st v))
    else if t =? HdrCSeq then (if cs_parsed (pv_cseq v) then None else Some (hb_run HCSeq pre rest o st v))
    else if t =? HdrCLen then (if ui_parsed (pv_clen v) then None else Some (hb_run HCLen pre rest o st v))
    else if t =? HdrContact then
      let c := pv_contacts v in
      Some (hb_run HContact pre rest o st
              (v <| pv_contacts := c <| ct_hno := ct_hno c + 1 |> <| ct_lasthval := pf0 |> |>))
    else if t =? HdrExpires then (if ui_parsed (pv_expires v) then None else Some (hb_run HExpires pre rest o st v))
    else if t =? HdrPAI then
      let c := pv_pais v in
      Some (hb_run HPAI pre rest o st
              (v <| pv_pais := c <| pa_hno := pa_hno c + 1 |> <| pa_lasthval := pf0 |> |>))
    else None
  end.

(* the ':' has been found at offset ic = i + k (k bytes into rest) *)
Definition hl_colon (pre rest : list byte) (i : N) (k : nat) (st : hline) : ires hline :=
  let h := hx_h st in
  match zget pre rest i (h_name h) with
  | None => IPanic
  | Some name =>
    let h := h <| h_state := HBodyStart |> <| h_type := get_hdr_type name |> in
    let st := st <| hx_h := h |> in
    match hb_parse_body (zpre (S k) pre rest) (zrest (S k) rest) (i + nnat k + 1) st with
    | Some r => r
    | None => Next (S k) st
    end
  end.

Definition hl_name_ph (pre rest : list byte) (i : N) (st : hline) : ires hline :=
  let h := hx_h st in
  let k := skipTokenDelim 58 rest in
  let i' := i + nnat k in
  match skipn k rest with
  | [] => Ret i' EMore st
  | c :: _ =>
    if is_sp c then
      let! n := pf_extend (h_name h) i' in
      let st := st <| hx_h := h <| h_state := HNameEnd |> <| h_name := n |> |> in
      if pf_empty n then Ret i' EBadChar st else Next (S k) st
    else if c =? 58 then
      let! n := pf_extend (h_name h) i' in
      let st := st <| hx_h := h <| h_state := HBodyStart |> <| h_name := n |> |> in
      if pf_empty n then Ret i' EBadChar st else hl_colon pre rest i k st
    else Ret i' EBadChar st
  end.

Definition hl_iter (pre rest : list byte) (i : N) (st : hline) : ires hline :=
  let h := hx_h st in
  let seth (h : hdr) := st <| hx_h := h |> in
  match rest with
  | [] => Ret i EMore st
  | c :: r1 =>
    match h_state h with
    | HInit =>
      if is_cr c then
        match r1 with
        | [] => Ret i EMore st
        | d :: _ => Ret (if is_lf d then i + 2 else i + 1) EEmpty (seth (h <| h_state := HFIN |>))
        end
      else if is_lf c then Ret (i + 1) EEmpty (seth (h <| h_state := HFIN |>))
      else
        let! n := pf_set i i in
        hl_name_ph pre rest i (seth (h <| h_state := HName |> <| h_name := n |>))
    | HName => hl_name_ph pre rest i st
    | HNameEnd =>
      let k := skipWS rest in
      match skipn k rest with
      | [] => Ret (i + nnat k) EMore st
      | d :: _ => if d =? 58 then hl_colon pre rest i k st else Ret (i + nnat k) EBadChar st
      end
    | HBodyStart =>
      match skipLWS false rest with
      | LOk k =>
        let! v := pf_set (i + nnat k) (i + nnat k) in
        Next (S k) (seth (h <| h_state := HVal |> <| h_val := v |>))
      | LEOH k crl => Ret (i + nnat k + nnat crl) EOk (seth (h <| h_state := HFIN |>))
      | LMore k => Ret (i + nnat k) EMore st
      end
    | HVal | HValEnd =>
      (* hVal: skip the token, then (hValEnd) the white space after it *)
      let k := match h_state h with HVal => skipToken rest | _ => O end in
      match skipn k rest, h_state h with
      | [], HVal => Ret (i + nnat k) EMore st
      | r', _ =>
        match (match h_state h with
               | HVal => match pf_extend (h_val h) (i + nnat k) with
                         | Some v => Some (h <| h_val := v |> <| h_state := HValEnd |>)
                         | None => None end
               | _ => Some h end) with
        | None => IPanic
        | Some h1 =>
          match skipLWS false r' with
          | LOk k2 => Next (S (k + k2)) (seth (h1 <| h_state := HVal |>))
          | LEOH k2 crl => Ret (i + nnat k + nnat k2 + nnat crl) EOk (seth (h1 <| h_state := HFIN |>))
          | LMore k2 => Ret (i + nnat k + nnat k2) EMore (seth h1)
          end
        end
      end
    | HFIN => Ret i EBug st
    | hs =>
      match hx_pv st with
      | Some v => hb_run hs pre rest i st v
      | None => IPanic (* nil interface dereference *)
      end
    end
  end.
Definition parse_hdrline := parse hl_iter.

(* ---- HdrLst ---------------------------------------------------------- *)
Record hdrlst := mkhdrlst { hl_pflags : N; hl_n : N; hl_hdrs : list hdr; hl_first : list hdr; hl_tmp : hdr }.
#[export] Instance eta_hdrlst : Settable _ := settable! mkhdrlst <hl_pflags; hl_n; hl_hdrs; hl_first; hl_tmp>.
Definition n_first : nat := 13. (* int(HdrOther) - 1 *)
Definition hdrlst_init (hdrs : list hdr) : hdrlst := mkhdrlst 0 0 hdrs (repeat hdr0 n_first) hdr0.
Definition hdrlst_reset (l : hdrlst) : hdrlst := hdrlst_init (map (fun _ => hdr0) (hl_hdrs l)).
Definition hl_cap (l : hdrlst) : N := nnat (length (hl_hdrs l)).
Definition hl_is_tmp (l : hdrlst) : bool := hl_cap l <=? hl_n l.
Definition hl_slot (l : hdrlst) : hdr :=
  if hl_is_tmp l then hl_tmp l else nth (N.to_nat (hl_n l)) (hl_hdrs l) hdr0.
Definition hl_store (l : hdrlst) (h : hdr) : hdrlst :=
  if hl_is_tmp l then l <| hl_tmp := h |>
  else l <| hl_hdrs := set_nth (N.to_nat (hl_n l)) h (hl_hdrs l) |>.
(* GetHdr(t) *)
Definition hl_gethdr (l : hdrlst) (t : N) : option hdr :=
  if (HdrNone <? t) && (t <? HdrOther) then nth_error (hl_first l) (N.to_nat (t - 1)) else None.
(* SetHdr *)
Definition hl_sethdr (l : hdrlst) (h : hdr) : hdrlst :=
  if (1 <=? h_type h) && (h_type h - 1 <? nnat (length (hl_first l)))
     && h_missing (nth (N.to_nat (h_type h - 1)) (hl_first l) hdr0)
  then l <| hl_first := set_nth (N.to_nat (h_type h - 1)) h (hl_first l) |> else l.

Record hdrs_st := mkhdrs_st { hs_l : hdrlst; hs_pv : option phvals }.
#[export] Instance eta_hdrs_st : Settable _ := settable! mkhdrs_st <hs_l; hs_pv>.

Definition hs_iter (pre rest : list byte) (i : N) (st : hdrs_st) : ires hdrs_st :=
  match rest with
  | [] => Ret i EMore st
  | _ =>
    let l := hs_l st in
    match run hl_iter pre rest i 0 (mkhline (hl_slot l) (hs_pv st)) with
    | Done n e x =>
      let l1 := hl_store l (hx_h x) in
      let st1 := mkhdrs_st l1 (hx_pv x) in
      match e with
      | EOk =>
        let h := hx_h x in
        let l2 := hl_sethdr (l1 <| hl_pflags := N.lor (hl_pflags l1) (2 ^ h_type h) mod 65536 |>) h in
        let l3 := if hl_is_tmp l then l2 <| hl_tmp := hdr0 |> else l2 in
        Next (N.to_nat (n - i)) (mkhdrs_st (l3 <| hl_n := hl_n l3 + 1 |>) (hx_pv x))
      | EEmpty => if 0 <? hl_n l1 then Ret n EOk st1 else Ret n EEmpty st1
      | _ => Ret n e st1
      end
    | _ => IPanic
    end
  end.
Definition parse_headers := parse hs_iter.

Definition obs_hdr (h : hdr) : list Z := [n2z (h_type h)] ++ obs_pf (h_name h) ++ obs_pf (h_val h).
Definition obs_opt_hdr (o : option hdr) : list Z :=
  match o with None => [(-1)%Z] | Some h => 1%Z :: obs_hdr h end.
Definition all_hdr_types : list N := [0;1;2;3;4;5;6;7;8;9;10;11;12;13;14;15].
Definition obs_hdrlst (l : hdrlst) : list Z :=
  [n2z (hl_pflags l); n2z (hl_n l)]
  ++ flat_map obs_hdr (firstn (N.to_nat (N.min (hl_n l) (hl_cap l))) (hl_hdrs l))
  ++ flat_map (fun t => obs_opt_hdr (hl_gethdr l t)) all_hdr_types.
Definition obs_phvals (v : phvals) : list Z :=
  obs_pfrom (pv_from v) ++ obs_pfrom (pv_to v) ++ obs_callid (pv_callid v) ++ obs_cseq (pv_cseq v)
  ++ obs_uint (pv_clen v) ++ obs_contacts (pv_contacts v) ++ obs_pais (pv_pais v) ++ obs_uint (pv_expires v)
  ++ (let '(m, ok) := pv_max_expires v in [n2z m; b2z ok]).
Definition obs_opt_phvals (o : option phvals) : list Z :=
  match o with None => [] | Some v => obs_phvals v end.
