(* The executable interface of the model: objects (new / parse / reset / obs),
   operation histories, and the single entry point the correspondence driver
   calls.  The theorems in Properties/ are stated over these same functions. *)
From Sipsp Require Export IP URI Msg MsgSig StrSig.
From Sipsp Require Import Tables.

Record obj (S : Type) := mkobj {
  ob_parse : N -> list byte -> N -> S -> res S;   (* flags, buf, offs *)
  ob_reset : S -> S;
  ob_obs : S -> list Z }.
Arguments mkobj {S}. Arguments ob_parse {S}. Arguments ob_reset {S}. Arguments ob_obs {S}.

Inductive op :=
  | OpParse (flags : N) (buf : list byte) (offs : N) (cuts : list nat)
  | OpReset.

Definition zPANIC : Z := (-999)%Z.
Definition zSTUCK : Z := (-998)%Z.

(* a caller feeding growing prefixes; trace = (offset, verdict) of every call *)
Fixpoint calls {S} (P : list byte -> N -> S -> res S) (b : list byte) (cuts : list nat) (o : N) (s : S)
  : list Z * option S :=
  match cuts with
  | [] =>
    match P b o s with
    | Done o' e s' => ([n2z o'; n2z (err_code e)], Some s')
    | Panic => ([zPANIC], None)
    | Stuck => ([zSTUCK], None)
    end
  | c :: cs =>
    match P (firstn c b) o s with
    | Done o' EMore s' =>
      let '(t, r) := calls P b cs o' s' in (n2z o' :: n2z (err_code EMore) :: t, r)
    | Done o' e s' => ([n2z o'; n2z (err_code e)], Some s')
    | Panic => ([zPANIC], None)
    | Stuck => ([zSTUCK], None)
    end
  end.

(* run a history; the observation after every operation is appended *)
Fixpoint run_ops {S} (O : obj S) (ops : list op) (s : S) : list Z :=
  match ops with
  | [] => []
  | OpReset :: ops' => let s' := ob_reset O s in ob_obs O s' ++ run_ops O ops' s'
  | OpParse flags buf offs cuts :: ops' =>
    match calls (ob_parse O flags) buf cuts offs s with
    | (t, Some s') => t ++ ob_obs O s' ++ run_ops O ops' s'
    | (t, None) => t
    end
  end.

(* ---- the objects ---------------------------------------------------------- *)
Definition cap_of (dflt : nat) (c : Z) : nat := if (c <? 0)%Z then dflt else Z.to_nat c.
Definition nthz (l : list Z) (n : nat) : Z := nth n l 0%Z.

Definition obj_fline : obj fline := mkobj (fun _ => parse_fline) (fun _ => fline0) obs_fline.
Definition obj_callid : obj callid := mkobj (fun _ => parse_callid) (fun _ => callid0) obs_callid.
Definition obj_cseq : obj cseq := mkobj (fun _ => parse_cseq) (fun _ => cseq0) obs_cseq.
Definition obj_uint : obj uintb := mkobj (fun _ => parse_uint) (fun _ => uintb0) obs_uint.
Definition obj_clen : obj uintb := mkobj (fun _ => parse_clen) (fun _ => uintb0) obs_uint.
Definition obj_nameaddr (h : N) : obj pfrom := mkobj (fun _ => parse_nameaddr h) (fun _ => pfrom0) obs_pfrom.
Definition obj_onepai : obj pfrom := mkobj (fun _ => parse_one_pai) (fun _ => pfrom0) obs_pfrom.
Definition obj_contacts : obj contacts := mkobj (fun _ => parse_all_contacts) contacts_reset obs_contacts.
Definition pais_reset (c : pais) : pais := pais0.
Definition obj_pais : obj pais := mkobj (fun _ => parse_all_pais) pais_reset obs_pais.
Definition obj_tokparam : obj tokparam := mkobj parse_tokparam (fun _ => tokparam0) obs_tokparam.
Definition obj_uparams : obj uparams := mkobj parse_all_uri_params uparams_reset
  (fun l => n2z (ul_vno l) :: obs_uparams l).
Definition obj_uhdrs : obj uhdrs := mkobj parse_all_uri_hdrs uhdrs_reset
  (fun l => n2z (uh_vno l) :: obs_uhdrs l).
Definition obj_quoted : obj unit := mkobj (fun _ b o _ => skip_quoted b o) (fun _ => tt) (fun _ => []).
Definition hline_reset (x : hline) : hline :=
  mkhline hdr0 (match hx_pv x with Some v => Some (phvals_reset v) | None => None end).
Definition obj_hdrline : obj hline := mkobj (fun _ => parse_hdrline) hline_reset
  (fun x => obs_hdr (hx_h x) ++ obs_opt_phvals (hx_pv x)).
Definition hdrs_reset (x : hdrs_st) : hdrs_st :=
  mkhdrs_st (hdrlst_reset (hs_l x)) (match hs_pv x with Some v => Some (phvals_reset v) | None => None end).
Definition obj_headers : obj hdrs_st := mkobj (fun _ => parse_headers) hdrs_reset
  (fun x => obs_hdrlst (hs_l x) ++ obs_opt_phvals (hs_pv x)).
Definition obj_msg : obj pmsg := mkobj parse_sipmsg msg_reset obs_msg.

(* ---- decoding what the driver passes -------------------------------------- *)
Fixpoint take_cuts (n : nat) (nums : list Z) : list nat * list Z :=
  match n, nums with
  | S n', c :: r => let '(cs, r') := take_cuts n' r in (Z.to_nat c :: cs, r')
  | _, _ => ([], nums)
  end.
(* per op: 0 = reset | 1 flags offs ncuts cut*  (the buffer is the next string) *)
Fixpoint decode_ops (fuel : nat) (nums : list Z) (strs : list (list byte)) : list op :=
  match fuel with
  | O => []
  | S fuel' =>
    match nums with
    | 0%Z :: r => OpReset :: decode_ops fuel' r strs
    | 1%Z :: fl :: of :: nc :: r =>
      let '(cs, r') := take_cuts (Z.to_nat nc) r in
      match strs with
      | b :: strs' => OpParse (Z.to_N fl) b (Z.to_N of) cs :: decode_ops fuel' r' strs'
      | [] => []
      end
    | _ => []
    end
  end.

(* kinds of history objects *)
Definition run_hist (kind : N) (a b c : Z) (ops : list op) : list Z :=
  match kind with
  | 1 => run_ops obj_fline ops fline0
  | 2 => run_ops obj_callid ops callid0
  | 3 => run_ops obj_cseq ops cseq0
  | 4 => run_ops obj_uint ops uintb0
  | 5 => run_ops obj_clen ops uintb0
  | 6 => run_ops (obj_nameaddr (Z.to_N a)) ops pfrom0
  | 7 => run_ops obj_onepai ops pfrom0
  | 8 => run_ops obj_contacts ops (contacts_init (repeat pfrom0 (Z.to_nat a)))
  | 9 => run_ops obj_pais ops pais0
  | 10 => run_ops obj_tokparam ops tokparam0
  | 11 => run_ops obj_uparams ops (uparams_init (repeat uriparam0 (Z.to_nat a)))
  | 12 => run_ops obj_uhdrs ops (uhdrs_init (repeat tokparam0 (Z.to_nat a)))
  | 13 => run_ops obj_quoted ops tt
  | 14 => (* a = with PHdrVals?, b = contacts capacity *)
    run_ops obj_hdrline ops
      (mkhline hdr0 (if (a =? 0)%Z then None else Some (phvals_init (repeat pfrom0 (Z.to_nat b)))))
  | 15 => (* a = header capacity, b = with PHdrVals?, c = contacts capacity *)
    run_ops obj_headers ops
      (mkhdrs_st (hdrlst_init (repeat hdr0 (Z.to_nat a)))
                 (if (b =? 0)%Z then None else Some (phvals_init (repeat pfrom0 (Z.to_nat c)))))
  | 16 => (* a = header capacity, b = contacts capacity; negative = nil (built-in arrays) *)
    run_ops obj_msg ops
      (msg_init 0 (repeat hdr0 (cap_of defaultHdrs a)) (repeat pfrom0 (cap_of defaultContacts b)))
  | _ => []
  end.

Definition obs_uri_res (r : option (N * N * puri)) : list Z :=
  match r with
  | None => [zPANIC]
  | Some (e, o, u) => [n2z e; n2z o] ++ obs_puri u
  end.
Definition obs_opt_pf (r : option pf) : list Z :=
  match r with None => [zPANIC] | Some f => obs_pf f end.
Definition obs_opt_bool (r : option bool) : list Z :=
  match r with None => [zPANIC] | Some b => [b2z b] end.
Definition obs_eq_res (r : option (bool * err)) : list Z :=
  match r with None => [zPANIC] | Some (b, e) => [b2z b; n2z (err_code e)] end.
Definition obs_opt_puri (r : option puri) : list Z :=
  match r with None => [(-1)%Z] | Some u => 1%Z :: obs_puri u end.

(* GetCallIDSig: ContainsIP4 is the model's; what ContainsIP6 answered (when no IPv4 address is found) is supplied *)
Definition callid_sig_ip (has6 : bool) (o6 l6 : N) (cid : list byte) : N * N :=
  let '(h4, o4, l4, _) := contains_ip4 cid in
  if h4 then callid_sig_at true o4 l4 cid else callid_sig_at has6 o6 l6 cid.
(* parse a message (one call) and compute its signature with the three string
   signatures given as numbers *)
Definition run_msgsig (nums : list Z) (buf : list byte) : list Z :=
  let hcap := nthz nums 0 in let ccap := nthz nums 1 in
  let flags := Z.to_N (nthz nums 2) in let offs := Z.to_N (nthz nums 3) in
  let cidsig := Z.to_N (nthz nums 4) in let cidslen := Z.to_N (nthz nums 5) in
  let fromsig := Z.to_N (nthz nums 6) in let viasig := Z.to_N (nthz nums 7) in
  let m0 := msg_init 0 (repeat hdr0 (cap_of defaultHdrs hcap)) (repeat pfrom0 (cap_of defaultContacts ccap)) in
  match parse_sipmsg flags buf offs m0 with
  | Done o e m =>
    (* the string signatures are computed by the model (StrSig.v); only the place of an IPv6 address inside the
       Call-ID, found by ContainsIP6 when ContainsIP4 (modelled) finds nothing, is taken from nums 8..10 *)
    let has := negb (nthz nums 8 =? 0)%Z in let io := Z.to_N (nthz nums 9) in let il := Z.to_N (nthz nums 10) in
    let r := get_msg_sig (fun cid => callid_sig_ip has io il cid) str_sig0 viabr_sig0 m buf in
    [n2z o; n2z (err_code e)] ++ obs_msgsig r
    ++ (match r with Some (s, _) => map n2z (sig_string s) | None => [] end)
  | Panic => [zPANIC]
  | Stuck => [zSTUCK]
  end.

(* the entry point: kind, numbers, strings -> observation *)
Definition entry (kind : N) (nums : list Z) (strs : list (list byte)) : list Z :=
  let s0 := nth 0 strs [] in
  let s1 := nth 1 strs [] in
  if kind <? 100 then
    run_hist kind (nthz nums 0) (nthz nums 1) (nthz nums 2)
             (decode_ops (S (length nums)) (skipn 3 nums) strs)
  else
  match kind with
  | 100 => obs_ip4p (ip4_prefix s0)
  | 101 => obs_ip4c (contains_ip4 s0) ++ [n2z (callid_ip4_flag s0)]
  | 102 => [n2z (get_hdr_type s0)]
  | 103 => [n2z (get_method_no s0)]
  | 104 => map n2z (method_name (Z.to_N (nthz nums 0)))
  | 110 => obs_uri_res (parse_uri s0 puri0)
  | 111 => (* parse, then the views *)
    match parse_uri s0 puri0 with
    | Some (e, o, u) =>
      [n2z e] ++ obs_opt_pf (uri_long u) ++ obs_opt_pf (uri_short u) ++ obs_puri (uri_truncate u)
    | None => [zPANIC]
    end
  | 112 => (* parse, AdjustOffs({offs,len}) *)
    match parse_uri s0 puri0 with
    | Some (e, o, u) =>
      let '(ok, u') := uri_adjust u (mkpf (Z.to_N (nthz nums 0)) (Z.to_N (nthz nums 1))) in
      [n2z e; b2z ok] ++ obs_puri u'
    | None => [zPANIC]
    end
  | 113 => (* URIParseCmp(s0, s1, flags) *)
    match uri_parse_cmp s0 s1 (Z.to_N (nthz nums 0)) with
    | None => [zPANIC]
    | Some (r, e, w, r1, r2) => [b2z r; n2z e; n2z w] ++ obs_opt_puri r1 ++ obs_opt_puri r2
    end
  | 114 => obs_eq_res (uri_params_eq s0 (Z.to_N (nthz nums 0)) s1 (Z.to_N (nthz nums 1)))
  | 115 => obs_eq_res (uri_hdrs_eq s0 (Z.to_N (nthz nums 0)) s1 (Z.to_N (nthz nums 1)))
  | 116 => (* URICmpShort / URICmp on two parsed URIs *)
    match parse_uri s0 puri0, parse_uri s1 puri0 with
    | Some (e1, _, u1), Some (e2, _, u2) =>
      [n2z e1; n2z e2] ++ obs_opt_bool (uri_cmp_short u1 s0 u2 s1 (Z.to_N (nthz nums 0)))
      ++ obs_opt_bool (uri_cmp u1 s0 u2 s1 (Z.to_N (nthz nums 0)))
    | _, _ => [zPANIC]
    end
  | 117 => [n2z (uri_param_resolve s0)]
  | 120 => run_msgsig nums s0
  | 121 => [n2z (str_sig0 s0)]
  | 122 => match viabr_sig_len s0 with Some (sg, l) => [n2z sg; n2z l] | None => [zPANIC] end
  | 123 => let '(sg, l) := callid_sig_ip (negb (nthz nums 0 =? 0)%Z) (Z.to_N (nthz nums 1)) (Z.to_N (nthz nums 2)) s0 in [n2z sg; n2z l]
  | _ => []
  end.
