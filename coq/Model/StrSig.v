(* msg_sig.go: resCharSigFlag, getStrCharsSig, GetCallIDSig (relative to the place of the IP address found by
   ContainsIP4 / ContainsIP6), GetViaBrSig *)
From Sipsp Require Export TokParam URILists.

Definition SigIPStartF : N := 1.   Definition SigIPEndF : N := 2.     Definition SigIPMiddleF : N := 4.
Definition SigHexEncF : N := 8192. Definition SigB64EncF : N := 16384. Definition SigDigBlocksF : N := 32768.
(* resCharSigFlag: the flag of a reserved character, 0 for any other byte *)
Definition res_flag (c : byte) : N :=
  if c =? 64 then 8 else if c =? 46 then 16 else if c =? 58 then 32 else if c =? 45 then 64
  else if c =? 95 then 2048 else if c =? 42 then 128 else if c =? 43 then 512 else if c =? 47 then 256
  else if c =? 61 then 1024 else if c =? 124 then 4096 else 0.

Record scs := mkscs { c_sig : N; c_sep : N; c_sepno : N; c_hexm : N; c_hexc : N; c_hexb : N;
                      c_b64 : bool; c_hex : bool; c_dec : bool; c_lo : bool; c_up : bool; c_skip : N }.
#[export] Instance eta_scs : Settable _ :=
  settable! mkscs <c_sig; c_sep; c_sepno; c_hexm; c_hexc; c_hexb; c_b64; c_hex; c_dec; c_lo; c_up; c_skip>.
Definition scs0 : scs := mkscs 0 0 0 0 0 0 true true true false false 0.
(* a block of hex digits ends *)
Definition close_block (st : scs) : scs :=
  if 0 <? c_hexc st then st <| c_hexb := c_hexb st + 1 |> <| c_hexm := N.max (c_hexm st) (c_hexc st) |> <| c_hexc := 0 |> else st.
Definition is_hexl (c : byte) : bool := ((65 <=? c) && (c <=? 70)) || ((97 <=? c) && (c <=? 102)).
Definition b64r (c : byte) : bool := ((69 <=? c) && (c <=? 90)) || ((101 <=? c) && (c <=? 122)).

(* one iteration of the loop: n = len(s), i the index, c = s[i], nxeq = there is an s[i+1] and it is '=' *)
Definition scs_step (n so sl i : N) (c : byte) (nxeq : bool) (st : scs) : scs :=
  if (so <=? i) && (i <? so + sl) then st
  else
    let st := if i =? so + sl then close_block st else st in
    let f := res_flag c in
    if negb (f =? 0) then
      let st := st <| c_sig := N.lor (c_sig st) f |> in
      if (sl =? 0) || (negb (i =? so + sl) && negb ((0 <? so) && (i =? so - 1))) then
        let b64 :=
          if c_b64 st && negb ((c =? 43) || (c =? 47) || (c =? 61)) then false
          else if c_b64 st && (c =? 61) then
            (if (i =? n - 1) || ((2 <=? n) && (i =? n - 2) && nxeq) then true else false)
          else c_b64 st in
        let st := st <| c_b64 := b64 |> in
        let st := if c_sep st =? 0 then st <| c_sep := c |> <| c_sepno := c_sepno st + 1 |>
                  else if c_sep st =? c then st <| c_sepno := c_sepno st + 1 |> else st in
        let st := if (0 <? i) && negb (c_sep st =? c) then st <| c_dec := false |> <| c_hex := false |> else st in
        close_block st
      else
        let st := if i =? so + sl then close_block st else st in
        st <| c_skip := c_skip st + 1 |>
    else if negb (is_digit c) then
      let st := st <| c_dec := false |> in
      let st := if negb (is_hexl c) then
                  let st := st <| c_hex := false |> in
                  if negb (b64r c) then st <| c_b64 := false |> else st
                else st <| c_hexc := c_hexc st + 1 |> in
      if is_lower c then st <| c_lo := true |> else if is_upper c then st <| c_up := true |> else st
    else st <| c_hexc := c_hexc st + 1 |>.
Fixpoint scs_loop (n so sl i : N) (s : list byte) (st : scs) : scs :=
  match s with
  | [] => st
  | c :: s' => scs_loop n so sl (i + 1) s' (scs_step n so sl i c (match s' with d :: _ => d =? 61 | [] => false end) st)
  end.
(* getStrCharsSig(s, skipOffs, skipLen): (sig, extra characters skipped) *)
Definition str_chars_sig (s : list byte) (so sl : N) : N * N :=
  let n := nnat (length s) in
  let st := close_block (scs_loop n so sl 0 s scs0) in
  let l := n - sl - c_skip st - c_sepno st in
  let sig :=
    if 8 <=? l then
      if (c_dec st || c_hex st) && ((c_sep st =? 0) || (8 <=? c_hexm st) || ((0 <? c_hexm st) && (4 <=? c_hexb st))) && negb (c_lo st && c_up st)
      then N.lor (N.lor (c_sig st) SigHexEncF) (if c_sep st =? 0 then 0 else SigDigBlocksF)
      else if c_b64 st && (l mod 4 =? 0) then N.lor (c_sig st) SigB64EncF else c_sig st
    else c_sig st in
  (sig, c_skip st).
Definition str_sig0 (s : list byte) : N := fst (str_chars_sig s 0 0).

(* GetCallIDSig once the IP address was looked for: (found, offset, length) *)
Definition callid_sig_at (has : bool) (io il : N) (cid : list byte) : N * N :=
  let n := nnat (length cid) in
  let sig0 := if has then (if io =? 0 then SigIPStartF else if io + il =? n then SigIPEndF else SigIPMiddleF) else 0 in
  let '(s, sk) := str_chars_sig cid io il in
  let clen := (n - il - sk + 3) / 4 in
  (N.lor sig0 s, if 255 <? clen then 255 else clen).

(* GetViaBrSig *)
Definition str_branch : list byte := [98; 114; 97; 110; 99; 104].
Definition str_brprefix : list byte := [122; 57; 104; 71; 52; 98; 75].
Definition viabr_flags : N := 25. (* POptParamSemiSepF | POptTokCommaTermF | POptInputEndF *)
Fixpoint index_of (c : byte) (s : list byte) (i : N) : option N :=
  match s with [] => None | d :: s' => if d =? c then Some i else index_of c s' (i + 1) end.
Fixpoint viabr_loop (fuel : nat) (viab : list byte) (offs : N) : option (N * N) :=
  match fuel with
  | O => Some (0, 0)
  | S fuel' =>
    match parse_tokparam viabr_flags viab offs tokparam0 with
    | Done next e p =>
      match e with
      | EOk | EMoreValues | EEOH =>
        let isbr := (pl (tp_name p) =? 6) &&
                    (match bget viab (tp_name p) with Some nm => eqb_nocase nm str_branch | None => false end) in
        if (pl (tp_name p) =? 6) && (match bget viab (tp_name p) with Some _ => false | None => true end) then None
        else if isbr then
          if 0 <? pl (tp_val p) then
            match bget viab (tp_val p) with
            | Some val =>
              if (7 <? nnat (length val)) && eqb_nocase (firstn 7 val) str_brprefix
              then Some (str_sig0 (skipn 7 val), nnat (length val) - 7)
              else Some (str_sig0 val, nnat (length val))
            | None => None
            end
          else Some (0, 0)
        else match e with EMoreValues => viabr_loop fuel' viab next | _ => Some (0, 0) end
      | _ => Some (0, 0)
      end
    | _ => None
    end
  end.
(* (sig, length); None = the Go code would panic *)
Definition viabr_sig_len (viab : list byte) : option (N * N) :=
  match index_of 59 viab 0 with
  | None => Some (0, 0)
  | Some o => viabr_loop (S (length viab)) viab (o + 1)
  end.
Definition viabr_sig0 (viab : list byte) : N := match viabr_sig_len viab with Some (s, _) => s | None => 0 end.
