(* parse_from.go: ParseNameAddrPVal, setFromParamVal, pUInt64Val *)
From Sipsp Require Export Driver Consts.

Inductive fbst :=
  | FbInit | FbNameOrURI | FbNameOrURIEnd | FbName | FbQuoted | FbURI | FbURIFound
  | FbNewPossibleParam | FbPossibleParamName | FbPossibleParamNameEnd
  | FbNewParam | FbParamName | FbParamNameEnd | FbNewParamVal | FbParamVal | FbParamValEnd
  | FbNewPossibleVal | FbPossibleVal | FbPossibleValEnd | FbQuotedVal | FbQuotedPossibleVal
  | FbStar | FbFIN.

Record pfrom := mkpfrom {
  fb_name : pf; fb_uri : pf; fb_tag : pf;
  fb_star : bool; fb_lr : bool; fb_hasexp : bool;
  fb_type : N; fb_q : N; fb_expires : N;
  fb_params : pf; fb_v : pf; fb_perr : err; fb_erroffs : N;
  fb_state : fbst; fb_soffs : N; fb_pstart : N; fb_pend : N; fb_vstart : N; fb_vend : N }.
#[export] Instance eta_pfrom : Settable _ :=
  settable! mkpfrom <fb_name; fb_uri; fb_tag; fb_star; fb_lr; fb_hasexp; fb_type; fb_q;
                     fb_expires; fb_params; fb_v; fb_perr; fb_erroffs; fb_state; fb_soffs;
                     fb_pstart; fb_pend; fb_vstart; fb_vend>.
Definition pfrom0 : pfrom :=
  mkpfrom pf0 pf0 pf0 false false false 0 0 0 pf0 pf0 EOk 0 FbInit 0 0 0 0 0.
Definition fb_parsed (s : pfrom) : bool := match fb_state s with FbFIN => true | _ => false end.
Definition fb_empty (s : pfrom) : bool := match fb_state s with FbInit => true | _ => false end.

Definition multipleValsOk (h : N) : bool :=
  (h =? HdrContact) || (h =? HdrRecordRoute) || (h =? HdrRoute) || (h =? HdrPAI).

(* pUInt64Val: decimal value, saturating at 2^64-1 *)
Fixpoint pUInt64_go (b : list byte) (n : N) : N * err :=
  match b with
  | [] => (n, EOk)
  | c :: b' =>
    if negb (is_digit c) then (n, EValNotNumber)
    else if (MaxU64 - digit_val c) / 10 <? n then (MaxU64, ENumTooBig)
    else pUInt64_go b' (n * 10 + digit_val c)
  end.
Definition pUInt64Val (b : list byte) : N * err := pUInt64_go b 0.

Definition str_tag : list byte := [116; 97; 103].
Definition str_expires : list byte := [101; 120; 112; 105; 114; 101; 115].
Definition str_q : list byte := [113].
Definition str_lr : list byte := [108; 114].

Definition set_q (val : list byte) (s : pfrom) : pfrom :=
  let k := span (fun c => negb (c =? 46)) val in
  if (length val - k <=? 4)%nat then
    let '(u, e1) := pUInt64Val (firstn k val) in
    let '(d, e2) :=
      match e1 with
      | EOk => if (k <? length val)%nat then pUInt64Val (skipn (S k) val) else (0, EOk)
      | _ => (0, e1)
      end in
    match e2 with
    | EOk =>
      if (1 <? u) || (999 <? d) || ((u =? 1) && (0 <? d))
      then s <| fb_perr := EValBad |> <| fb_erroffs := fb_vstart s |>
      else
        let nd := (length val - S k)%nat in
        let d := if (k <? length val)%nat then
                   match nd with 1%nat => d * 100 | 2%nat => d * 10 | _ => d end
                 else d in
        s <| fb_q := u * 1000 + d |>
    | ENumTooBig => s <| fb_perr := ENumTooBig |> <| fb_erroffs := fb_vstart s |>
    | _ => s
    end
  else s <| fb_perr := EValTooLong |> <| fb_erroffs := fb_vend s |>.

(* setFromParamVal; None = slice out of range *)
Definition setFromParamVal (pre rest : list byte) (i : N) (s : pfrom) : option pfrom :=
  let clr (s : pfrom) := s <| fb_pstart := 0 |> <| fb_pend := 0 |> <| fb_vstart := 0 |> <| fb_vend := 0 |> in
  if (fb_pstart s <? fb_pend s) && (fb_vstart s <? fb_vend s) then
    match zslice pre rest i (fb_pstart s) (fb_pend s), zslice pre rest i (fb_vstart s) (fb_vend s) with
    | Some name, Some val =>
      if eqb_nocase name str_tag then
        match pf_set (fb_vstart s) (fb_vend s) with
        | Some t => Some (clr (s <| fb_tag := t |>))
        | None => None
        end
      else if eqb_nocase name str_expires then
        let '(e, _) := pUInt64Val val in
        Some (clr (s <| fb_hasexp := true |> <| fb_expires := if e <? MaxU32 then e else MaxU32 |>))
      else if eqb_nocase name str_q then Some (clr (set_q val s))
      else if eqb_nocase name str_lr then Some (clr (s <| fb_lr := true |>))
      else Some (clr s)
    | _, _ => None
    end
  else if (fb_pstart s <? fb_pend s) && (fb_vstart s =? fb_vend s) then
    match zslice pre rest i (fb_pstart s) (fb_pend s) with
    | Some name => if eqb_nocase name str_lr then Some (clr (s <| fb_lr := true |>)) else Some (clr s)
    | None => None
    end
  else Some (clr (s <| fb_perr := EValBad |> <| fb_erroffs := fb_vstart s |>)).

(* the state-specific part of label endOfHdr: Some (Some s) = go on,
   Some None = ErrHdrBad, None = panic *)
Definition fb_close (pre rest : list byte) (i0 i : N) (s : pfrom) : option (option pfrom) :=
  let ext_params_v (s : pfrom) (force : bool) : option (option pfrom) :=
    match (if force || negb (po (fb_params s) =? 0) then pf_extend (fb_params s) i else Some (fb_params s)),
          pf_extend (fb_v s) i with
    | Some p, Some v => Some (Some (s <| fb_params := p |> <| fb_v := v |>))
    | _, _ => None
    end in
  match fb_state s with
  | FbURIFound | FbNameOrURIEnd => Some (Some s)
  | FbNameOrURI =>
    match pf_set (fb_soffs s) i, pf_extend (fb_v s) i with
    | Some u, Some v => Some (Some (s <| fb_uri := u |> <| fb_v := v |>))
    | _, _ => None
    end
  | FbParamName | FbPossibleParamName =>
    match setFromParamVal pre rest i0 (s <| fb_pend := i |>) with
    | Some s => ext_params_v s false | None => None end
  | FbParamNameEnd | FbPossibleParamNameEnd =>
    match setFromParamVal pre rest i0 s with
    | Some s => ext_params_v s false | None => None end
  | FbNewParam | FbNewPossibleParam => ext_params_v s false
  | FbParamValEnd | FbPossibleValEnd =>
    match setFromParamVal pre rest i0 s with
    | Some s => ext_params_v s true | None => None end
  | FbNewParamVal | FbNewPossibleVal =>
    match setFromParamVal pre rest i0 (s <| fb_vstart := i |> <| fb_vend := i |>) with
    | Some s => ext_params_v s true | None => None end
  | FbParamVal | FbPossibleVal =>
    match setFromParamVal pre rest i0 (s <| fb_vend := i |>) with
    | Some s => ext_params_v s true | None => None end
  | FbStar => Some (Some (s <| fb_star := true |> <| fb_uri := fb_v s |>))
  | FbInit | FbName | FbURI | FbQuoted | FbQuotedVal | FbQuotedPossibleVal => Some None
  | FbFIN => Some None (* ErrHdrBug in Go; unreachable: FIN returns at entry *)
  end.

(* label endOfHdr: i0 = offset of this iteration (where the zipper is) *)
Definition fb_endOfHdr (h : N) (pre rest : list byte) (i0 i ret : N) (e : err) (s : pfrom) : ires pfrom :=
  match fb_close pre rest i0 i s with
  | None => IPanic
  | Some None => Ret ret (match fb_state s with FbFIN => EBug | _ => EBad end) s
  | Some (Some s1) => Ret ret e (s1 <| fb_state := FbFIN |> <| fb_soffs := 0 |> <| fb_type := h |>)
  end.

(* label moreValues, reached at the ',' at offset i *)
Definition fb_moreValues (h : N) (pre rest : list byte) (i : N) (s : pfrom) : ires pfrom :=
  let t := N.min (nnat (span is_ws pre)) (i - po (fb_v s)) in
  fb_endOfHdr h pre rest i (i - t) (i + 1) EMoreValues s.

(* white space at i, "close then skip" flavour: on more-bytes the skipped
   offset is returned *)
Definition fb_lws (h : N) (pre rest : list byte) (i : N) (s1 : pfrom) : ires pfrom :=
  match skipLWS false rest with
  | LOk k => Next k s1
  | LEOH k crl => fb_endOfHdr h pre rest i i (i + nnat k + nnat crl) EOk s1
  | LMore k => Ret (i + nnat k) EMore s1
  end.
(* "suspend before" flavour: on more-bytes nothing changes and i is returned;
   upd is applied once the white space is complete; n = offset after it *)
Definition fb_lws_b (h : N) (pre rest : list byte) (i : N) (s : pfrom)
  (upd : option N -> pfrom) : ires pfrom :=
  match skipLWS false rest with
  | LOk k => Next k (upd (Some (i + nnat k)))
  | LEOH k crl => fb_endOfHdr h pre rest i i (i + nnat k + nnat crl) EOk (upd None)
  | LMore _ => Ret i EMore s
  end.

Inductive ccls := KWs | KComma | KLt | KGt | KDq | KSemi | KStar | KEq | KBsl | KOther.
Definition ccls_of (c : byte) : ccls :=
  if is_ws c then KWs else if c =? 44 then KComma else if c =? 60 then KLt
  else if c =? 62 then KGt else if c =? 34 then KDq else if c =? 59 then KSemi
  else if c =? 42 then KStar else if c =? 61 then KEq else if c =? 92 then KBsl else KOther.

Definition fb_bad (i : N) (s : pfrom) : ires pfrom := Ret i EBadChar s.
Definition fb_reset3 (s : pfrom) : pfrom := s <| fb_uri := pf0 |> <| fb_params := pf0 |> <| fb_tag := pf0 |>.
Definition fb_comma (h : N) (pre rest : list byte) (i : N) (s : pfrom) : ires pfrom :=
  if multipleValsOk h then fb_moreValues h pre rest i s else Next 1 s.
Definition fb_comma_strict (h : N) (pre rest : list byte) (i : N) (s : pfrom) : ires pfrom :=
  if multipleValsOk h then fb_moreValues h pre rest i s else fb_bad i s.
Definition fb_setpv (pre rest : list byte) (i : N) (s : pfrom) : ires pfrom :=
  match setFromParamVal pre rest i s with Some s1 => Next 1 s1 | None => IPanic end.

Definition is_st_init (st : fbst) : bool := match st with FbInit => true | _ => false end.
Definition is_st_nameoruri (st : fbst) : bool := match st with FbNameOrURI => true | _ => false end.
Definition is_st_nameoruriend (st : fbst) : bool := match st with FbNameOrURIEnd => true | _ => false end.
(* the "possible" (bare URI) twin of a parameter state *)
Definition st_poss (st : fbst) : bool :=
  match st with
  | FbNewPossibleParam | FbPossibleParamName | FbPossibleParamNameEnd
  | FbNewPossibleVal | FbPossibleVal | FbPossibleValEnd | FbQuotedPossibleVal => true
  | _ => false
  end.
Definition st_newparam (p : bool) : fbst := if p then FbNewPossibleParam else FbNewParam.
Definition st_paramname (p : bool) : fbst := if p then FbPossibleParamName else FbParamName.
Definition st_paramnameend (p : bool) : fbst := if p then FbPossibleParamNameEnd else FbParamNameEnd.
Definition st_newval (p : bool) : fbst := if p then FbNewPossibleVal else FbNewParamVal.
Definition st_val (p : bool) : fbst := if p then FbPossibleVal else FbParamVal.
Definition st_valend (p : bool) : fbst := if p then FbPossibleValEnd else FbParamValEnd.
Definition st_quotedval (p : bool) : fbst := if p then FbQuotedPossibleVal else FbQuotedVal.
Definition is_st_name (st : fbst) : bool :=
  match st with FbParamName | FbPossibleParamName => true | _ => false end.
Definition is_st_new (st : fbst) : bool :=
  match st with FbNewParam | FbNewPossibleParam | FbNewParamVal | FbNewPossibleVal => true | _ => false end.

(* fbInit, fbName, fbNameOrURI, fbNameOrURIEnd *)
Definition fb_gA (h : N) (pre rest : list byte) (i : N) (s : pfrom) (st : fbst) (k : ccls) : ires pfrom :=
  match k with
  | KWs =>
    if is_st_nameoruri st then
      let! u := pf_set (fb_soffs s) i in
      let! v := pf_extend (fb_v s) i in
      fb_lws h pre rest i (s <| fb_uri := u |> <| fb_v := v |> <| fb_state := FbNameOrURIEnd |>)
    else fb_lws h pre rest i s
  | KComma => fb_comma h pre rest i s
  | KLt =>
    if is_st_init st then
      let! v := pf_set i i in
      Next 1 (s <| fb_v := v |> <| fb_soffs := i + 1 |> <| fb_state := FbURI |>)
    else
      let! n := pf_set (fb_soffs s) i in
      Next 1 (fb_reset3 (s <| fb_name := n |>) <| fb_soffs := i + 1 |> <| fb_state := FbURI |>)
  | KDq =>
    if is_st_init st then
      let! v := pf_set i i in
      Next 1 (s <| fb_soffs := i |> <| fb_v := v |> <| fb_state := FbQuoted |>)
    else Next 1 (fb_reset3 s <| fb_state := FbQuoted |>)
  | KSemi =>
    if is_st_nameoruri st then
      let! u := pf_set (fb_soffs s) i in
      let! v := pf_extend (fb_v s) (i + 1) in
      Next 1 (s <| fb_uri := u |> <| fb_v := v |> <| fb_soffs := i + 1 |> <| fb_state := FbNewPossibleParam |>)
    else if is_st_nameoruriend st then Next 1 (s <| fb_state := FbNewPossibleParam |>)
    else fb_bad i s
  | KGt => fb_bad i s
  | KStar =>
    if is_st_init st then
      let! v := pf_set i (i + 1) in
      Next 1 (s <| fb_state := FbStar |> <| fb_soffs := i |> <| fb_v := v |>)
    else Next 1 s
  | KEq | KBsl | KOther =>
    if is_st_init st then
      let! v := pf_set i i in
      Next 1 (s <| fb_soffs := i |> <| fb_v := v |> <| fb_state := FbNameOrURI |>)
    else if is_st_nameoruriend st then Next 1 (fb_reset3 (s <| fb_state := FbName |>))
    else Next 1 s
  end.

(* fbQuoted, fbQuotedVal, fbQuotedPossibleVal *)
Definition fb_gQ (h : N) (pre rest r1 : list byte) (i : N) (s : pfrom) (st : fbst) (k : ccls) : ires pfrom :=
  match k with
  | KDq =>
    Next 1 (s <| fb_state := match st with FbQuoted => FbName | FbQuotedVal => FbParamVal
                                       | _ => FbPossibleVal end |>)
  | KBsl =>
    match r1 with
    | [] => Ret i EMore s
    | d :: _ => if is_crlf d then Ret (i + 1) EBadChar s else Next 2 s
    end
  | KWs => fb_lws h pre rest i s
  | _ => Next 1 s
  end.

Definition fb_gURI (i : N) (s : pfrom) (k : ccls) : ires pfrom :=
  match k with
  | KGt =>
    let! u := pf_set (fb_soffs s) i in
    let! v := pf_extend (fb_v s) (i + 1) in
    Next 1 (s <| fb_uri := u |> <| fb_v := v |> <| fb_state := FbURIFound |>)
  | KLt | KWs => fb_bad i s
  | _ => Next 1 s
  end.

Definition fb_gURIFound (h : N) (pre rest : list byte) (i : N) (s : pfrom) (k : ccls) : ires pfrom :=
  match k with
  | KWs => fb_lws h pre rest i s
  | KComma => fb_comma h pre rest i s
  | KSemi => Next 1 (s <| fb_state := FbNewParam |> <| fb_soffs := 0 |>)
  | _ => Next 1 s
  end.

(* fbNewParam, fbNewPossibleParam, fbParamName, fbPossibleParamName *)
Definition fb_gP (h : N) (pre rest : list byte) (i : N) (s : pfrom) (st : fbst) (k : ccls) : ires pfrom :=
  let p := st_poss st in
  match k with
  | KWs =>
    fb_lws_b h pre rest i s (fun _ =>
      if is_st_name st then s <| fb_state := st_paramnameend p |> <| fb_pend := i |> else s)
  | KComma => fb_comma h pre rest i s
  | KEq =>
    if is_st_name st
    then Next 1 (s <| fb_state := st_newval p |> <| fb_pend := i |> <| fb_vstart := i + 1 |>)
    else fb_bad i s
  | KLt | KGt => fb_bad i s
  | KSemi =>
    if is_st_name st
    then fb_setpv pre rest i (s <| fb_state := st_newparam p |> <| fb_pend := i |>)
    else Next 1 s
  | _ =>
    let s1 := if is_st_name st then s else s <| fb_state := st_paramname p |> <| fb_pstart := i |> in
    Next 1 (if po (fb_params s1) =? 0 then s1 <| fb_params := mkpf i (pl (fb_params s1)) |> else s1)
  end.

(* fbParamNameEnd, fbPossibleParamNameEnd *)
Definition fb_gPE (h : N) (pre rest : list byte) (i : N) (s : pfrom) (st : fbst) (k : ccls) : ires pfrom :=
  let p := st_poss st in
  match k with
  | KEq => Next 1 (s <| fb_state := st_newval p |> <| fb_vstart := i + 1 |>)
  | KSemi => fb_setpv pre rest i (s <| fb_state := st_newparam p |>)
  | KComma => fb_comma_strict h pre rest i s
  | _ => fb_bad i s
  end.

(* fbNewParamVal, fbNewPossibleVal, fbParamVal, fbPossibleVal *)
Definition fb_gV (h : N) (pre rest : list byte) (i : N) (s : pfrom) (st : fbst) (k : ccls) : ires pfrom :=
  let p := st_poss st in
  match k with
  | KWs =>
    fb_lws_b h pre rest i s (fun n =>
      if is_st_new st then match n with Some n => s <| fb_vstart := n |> | None => s end
      else s <| fb_state := st_valend p |> <| fb_vend := i |>)
  | KComma => fb_comma h pre rest i s
  | KSemi => fb_setpv pre rest i (s <| fb_state := st_newparam p |> <| fb_vend := i |>)
  | KEq | KLt | KGt => fb_bad i s
  | KDq =>
    if is_st_new st then Next 1 (s <| fb_state := st_quotedval p |> <| fb_vstart := i |>)
    else Next 1 (s <| fb_state := st_quotedval p |>)
  | _ =>
    if is_st_new st then Next 1 (s <| fb_state := st_val p |> <| fb_vstart := i |>) else Next 1 s
  end.

(* fbParamValEnd, fbPossibleValEnd *)
Definition fb_gVE (h : N) (pre rest : list byte) (i : N) (s : pfrom) (st : fbst) (k : ccls) : ires pfrom :=
  match k with
  | KSemi => fb_setpv pre rest i (s <| fb_state := st_newparam (st_poss st) |>)
  | KComma => fb_comma_strict h pre rest i s
  | _ => fb_bad i s
  end.

Definition fb_gStar (h : N) (pre rest : list byte) (i : N) (s : pfrom) (k : ccls) : ires pfrom :=
  match k with
  | KWs => fb_lws h pre rest i s
  | _ => fb_bad i s
  end.

Definition fb_step (h : N) (pre rest r1 : list byte) (i : N) (s : pfrom) (st : fbst) (k : ccls) : ires pfrom :=
  match st with
  | FbInit | FbName | FbNameOrURI | FbNameOrURIEnd => fb_gA h pre rest i s st k
  | FbQuoted | FbQuotedVal | FbQuotedPossibleVal => fb_gQ h pre rest r1 i s st k
  | FbURI => fb_gURI i s k
  | FbURIFound => fb_gURIFound h pre rest i s k
  | FbNewParam | FbNewPossibleParam | FbParamName | FbPossibleParamName => fb_gP h pre rest i s st k
  | FbParamNameEnd | FbPossibleParamNameEnd => fb_gPE h pre rest i s st k
  | FbNewParamVal | FbNewPossibleVal | FbParamVal | FbPossibleVal => fb_gV h pre rest i s st k
  | FbParamValEnd | FbPossibleValEnd => fb_gVE h pre rest i s st k
  | FbStar => fb_gStar h pre rest i s k
  | FbFIN => Ret i EOk s
  end.

Definition fb_iter (h : N) (pre rest : list byte) (i : N) (s : pfrom) : ires pfrom :=
  match fb_state s with
  | FbFIN => Ret i EOk s
  | st =>
    match rest with
    | [] => Ret i EMore s
    | c :: r1 => fb_step h pre rest r1 i s st (ccls_of c)
    end
  end.

Definition parse_nameaddr (h : N) := parse (fb_iter h).
Definition parse_from := parse_nameaddr HdrFrom.
Definition parse_one_contact := parse_nameaddr HdrContact.
(* ParseOnePAI: a star is not a valid value *)
Definition parse_one_pai (buf : list byte) (offs : N) (s : pfrom) : res pfrom :=
  match parse_nameaddr HdrPAI buf offs s with
  | Done o e s' =>
    if (err_eqb e EOk || err_eqb e EMoreValues) && fb_star s' then Done o EValBad s' else Done o e s'
  | r => r
  end.

Definition obs_pfrom (s : pfrom) : list Z :=
  obs_pf (fb_name s) ++ obs_pf (fb_uri s) ++ obs_pf (fb_tag s)
  ++ [b2z (fb_star s); b2z (fb_lr s); b2z (fb_hasexp s); n2z (fb_type s); n2z (fb_q s); n2z (fb_expires s)]
  ++ obs_pf (fb_params s) ++ obs_pf (fb_v s) ++ [n2z (err_code (fb_perr s)); n2z (fb_erroffs s)]
  ++ [b2z (fb_parsed s); b2z (fb_empty s)].
