(* Base definitions of the sipsp model: bytes, errors, PField, the result
   types, the zipper, the whitespace/line utilities of parse_utils.go.
   Definitions only (no proofs), so the model still runs when a proof breaks. *)
From Coq Require Export List NArith ZArith Bool Arith Lia.
From RecordUpdate Require Export RecordUpdate.
Export ListNotations.
Open Scope N_scope.

Definition byte := N.

(* ---- character classes ------------------------------------------------ *)
Definition SP : byte := 32.  Definition HT : byte := 9.
Definition CR : byte := 13.  Definition LF : byte := 10.
Definition is_sp (c : byte) : bool := (c =? SP) || (c =? HT).
Definition is_cr (c : byte) : bool := c =? CR.
Definition is_lf (c : byte) : bool := c =? LF.
Definition is_crlf (c : byte) : bool := is_cr c || is_lf c.
Definition is_ws (c : byte) : bool := is_sp c || is_crlf c.
Definition is_digit (c : byte) : bool := (48 <=? c) && (c <=? 57).
Definition digit_val (c : byte) : N := c - 48.
Definition is_upper (c : byte) : bool := (65 <=? c) && (c <=? 90).
Definition is_lower (c : byte) : bool := (97 <=? c) && (c <=? 122).
Definition is_alpha (c : byte) : bool := is_upper c || is_lower c.
(* bytescase.ByteToLower: ASCII only *)
Definition to_lower (c : byte) : byte := if is_upper c then c + 32 else c.
Fixpoint eqb_bytes (a b : list byte) : bool :=
  match a, b with
  | [], [] => true
  | x :: a', y :: b' => (x =? y) && eqb_bytes a' b'
  | _, _ => false
  end.
(* bytescase.CmpEq *)
Definition eqb_nocase (a b : list byte) : bool :=
  eqb_bytes (map to_lower a) (map to_lower b).

(* ---- errors (parse_errors.go) ----------------------------------------- *)
Inductive err :=
  | EOk | EEOH | EEmpty | EMore | EMoreValues | ENoCR | EBadChar | EParams
  | EBad | EValNotNumber | EValTooLong | EValBad | ENumTooBig | ETrunc
  | ENoCLen | EBug | EConvBug | ETooManyVals.
Definition err_code (e : err) : N :=
  match e with
  | EOk => 0 | EEOH => 1 | EEmpty => 2 | EMore => 3 | EMoreValues => 4
  | ENoCR => 5 | EBadChar => 6 | EParams => 7 | EBad => 8
  | EValNotNumber => 9 | EValTooLong => 10 | EValBad => 11
  | ENumTooBig => 12 | ETrunc => 13 | ENoCLen => 14 | EBug => 15
  | EConvBug => 16 | ETooManyVals => 17
  end.
Definition err_eqb (a b : err) : bool := err_code a =? err_code b.
Definition all_errs : list err :=
  [EOk; EEOH; EEmpty; EMore; EMoreValues; ENoCR; EBadChar; EParams; EBad;
   EValNotNumber; EValTooLong; EValBad; ENumTooBig; ETrunc; ENoCLen; EBug;
   EConvBug; ETooManyVals].

(* ---- PField (parse_types.go), within the 65535 limit ------------------- *)
Record pf := mkpf { po : N; pl : N }.
#[export] Instance eta_pf : Settable _ := settable! mkpf <po; pl>.
Definition pf0 : pf := mkpf 0 0.
Definition pf_end (f : pf) : N := po f + pl f.
Definition pf_empty (f : pf) : bool := pl f =? 0.
Definition pf_eqb (a b : pf) : bool := (po a =? po b) && (pl a =? pl b).
(* Set(start,end): panics when end < start *)
Definition pf_set (s e : N) : option pf :=
  if e <? s then None else Some (mkpf s (e - s)).
(* Extend(newEnd): panics when newEnd < Offs *)
Definition pf_extend (f : pf) (e : N) : option pf :=
  if e <? po f then None else Some (mkpf (po f) (e - po f)).

(* the same two operations with Go's uint16 truncation written in; Proofs/U16.v
   shows they coincide with the ones above when every offset is <= 65535 *)
Definition to16 (x : N) : N := x mod 65536.
Definition pf_set16 (s e : N) : option pf :=
  if e <? s then None else Some (mkpf (to16 s) (to16 (e - s))).
Definition pf_extend16 (f : pf) (e : N) : option pf :=
  if e <? po f then None else Some (mkpf (po f) (to16 (to16 e + 65536 - po f))).

(* ---- results ------------------------------------------------------------ *)
(* what one exported call returns: offset, verdict, updated object; or the
   two ways the Go code can fail to return a value *)
Inductive res (S : Type) :=
  | Done (o : N) (e : err) (s : S)
  | Panic
  | Stuck.
Arguments Done {S}. Arguments Panic {S}. Arguments Stuck {S}.

(* what one loop iteration does *)
Inductive ires (S : Type) :=
  | Next (k : nat) (s : S)          (* continue k bytes further on *)
  | Ret (o : N) (e : err) (s : S)   (* return *)
  | IPanic.
Arguments Next {S}. Arguments Ret {S}. Arguments IPanic {S}.

Notation "'let!' x ':=' a 'in' b" :=
  (match a with Some x => b | None => IPanic end)
  (at level 200, x pattern, a at level 100, b at level 200).

(* ---- zipper ----------------------------------------------------------- *)
(* the buffer is (rev pre ++ rest); i = length pre is the current offset *)
Definition zpre (k : nat) (pre rest : list byte) : list byte :=
  rev (firstn k rest) ++ pre.
Definition zrest (k : nat) (rest : list byte) : list byte := skipn k rest.
Definition zinit (buf : list byte) (offs : N) : list byte * list byte :=
  (rev (firstn (N.to_nat offs) buf), skipn (N.to_nat offs) buf).

(* bytes [a,b) of the buffer (rev pre ++ rest), i = length pre; None = Go's
   "slice bounds out of range" (the harness gives every buffer cap = len) *)
Definition zslice (pre rest : list byte) (i a b : N) : option (list byte) :=
  if (a <=? b) && (b <=? i + N.of_nat (length rest)) then
    Some (rev (firstn (N.to_nat (N.min b i - a)) (skipn (N.to_nat (i - N.min b i)) pre))
          ++ firstn (N.to_nat (b - N.max a i)) (skipn (N.to_nat (N.max a i - i)) rest))
  else None.
Definition zget (pre rest : list byte) (i : N) (f : pf) : option (list byte) :=
  zslice pre rest i (po f) (pf_end f).
(* buf[i-1] *)
Definition zprev (pre : list byte) : option byte :=
  match pre with [] => None | c :: _ => Some c end.

(* ---- parse_utils.go --------------------------------------------------- *)
Inductive lws := LOk (k : nat) | LEOH (k crl : nat) | LMore (k : nat).

(* skipLWS on the suffix r; k = bytes already skipped; ie = POptInputEndF *)
Fixpoint skipLWS_at (ie : bool) (r : list byte) (k : nat) : lws :=
  match r with
  | [] => LMore k
  | c :: r1 =>
    if is_sp c then skipLWS_at ie r1 (S k)
    else if is_cr c then
      match r1 with
      | [] => LMore k
      | d :: r2 =>
        if is_lf d then
          match r2 with
          | [] => if ie then LEOH (k + 2) 0 else LMore k
          | e :: _ => if is_sp e then skipLWS_at ie r2 (k + 2) else LEOH k 2
          end
        else if is_sp d then skipLWS_at ie r1 (k + 1) else LEOH k 1
      end
    else if is_lf c then
      match r1 with
      | [] => LMore k
      | d :: _ => if is_sp d then skipLWS_at ie r1 (k + 1) else LEOH k 1
      end
    else LOk k
  end.
Definition skipLWS (ie : bool) (r : list byte) : lws := skipLWS_at ie r 0.

Inductive crlf := COk (crl : nat) | CMore | CNoCR.
Definition skipCRLF (r : list byte) : crlf :=
  match r with
  | [] => CMore
  | c :: [] => if is_crlf c then CMore else CNoCR
  | c :: d :: _ =>
    if is_cr c then (if is_lf d then COk 2 else COk 1)
    else if is_lf c then COk 1 else CNoCR
  end.

(* number of leading bytes satisfying p *)
Fixpoint span (p : byte -> bool) (r : list byte) : nat :=
  match r with
  | c :: r1 => if p c then S (span p r1) else 0
  | [] => 0
  end.
Definition skipWS (r : list byte) : nat := span is_sp r.
Definition skipToken (r : list byte) : nat := span (fun c => negb (is_ws c)) r.
Definition skipTokenDelim (d : byte) (r : list byte) : nat :=
  span (fun c => negb (is_ws c) && negb (c =? d)) r.
(* skipLine: (offset of the CR/LF, result of skipCRLF there) *)
Definition skipLine (r : list byte) : nat * crlf :=
  let k := span (fun c => negb (is_crlf c)) r in (k, skipCRLF (skipn k r)).

(* ---- small helpers ---------------------------------------------------- *)
Definition b2z (b : bool) : Z := if b then 1%Z else 0%Z.
Definition n2z (n : N) : Z := Z.of_N n.
Definition obs_pf (f : pf) : list Z := [n2z (po f); n2z (pl f)].
Definition nnat (n : nat) : N := N.of_nat n.
Definition testbit (flags : N) (bit : N) : bool := N.testbit flags bit.
