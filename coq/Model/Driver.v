(* The generic loop driver: every resumable sipsp parser is "run iter" for a
   one-iteration function iter.  run is structurally recursive on the unread
   suffix: no fuel.  Stuck = the Go loop would not advance. *)
From Sipsp Require Export Base.

Section Driver.
  Context {S : Type}.
  (* iter pre rest i s : one iteration of the Go loop at offset i, where
     rev pre are the bytes before i and rest the bytes from i on *)
  Variable iter : list byte -> list byte -> N -> S -> ires S.

  Fixpoint run (pre rest : list byte) (i : N) (skip : nat) (s : S)
    {struct rest} : res S :=
    match skip with
    | O =>
      match iter pre rest i s with
      | Next k s' =>
        match k, rest with
        | O, _ => Stuck
        | Datatypes.S k', c :: r' => run (c :: pre) r' (i + 1) k' s'
        | Datatypes.S _, [] => Stuck
        end
      | Ret o e s' => Done o e s'
      | IPanic => Panic
      end
    | Datatypes.S k' =>
      match rest with
      | c :: r' => run (c :: pre) r' (i + 1) k' s
      | [] => Stuck
      end
    end.

  (* an exported call: buffer, start offset, object *)
  Definition parse (buf : list byte) (offs : N) (s : S) : res S :=
    let '(pre, rest) := zinit buf offs in run pre rest offs 0 s.
End Driver.

(* a caller feeding growing prefixes of b: cuts are the prefix lengths of the
   calls before the last one, the last call sees all of b.  The caller stops
   at the first verdict other than "more bytes". *)
Fixpoint chunked {S} (P : list byte -> N -> S -> res S) (b : list byte)
  (cuts : list nat) (o : N) (s : S) : res S :=
  match cuts with
  | [] => P b o s
  | c :: cs =>
    match P (firstn c b) o s with
    | Done o' EMore s' => chunked P b cs o' s'
    | r => r
    end
  end.

(* the same, keeping every intermediate result (offset, verdict) *)
Fixpoint chunked_trace {S} (P : list byte -> N -> S -> res S) (b : list byte)
  (cuts : list nat) (o : N) (s : S) : list (res S) :=
  match cuts with
  | [] => [P b o s]
  | c :: cs =>
    match P (firstn c b) o s with
    | Done o' EMore s' => Done o' EMore s' :: chunked_trace P b cs o' s'
    | r => [r]
    end
  end.
