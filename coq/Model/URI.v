(* sipuri.go: ParseURI, views, AdjustOffs, comparisons *)
From Sipsp Require Export URILists.

Inductive ust :=
  | UInitSIP | UInitSIPS | UInitTEL | UUser | UPass0 | UPass1 | UHost0 | UHost1
  | UHost61 | UHost6E | UPort | UParam0 | UParam1 | UHeaders.

Record puri := mkpuri {
  u_type : N; u_scheme : pf; u_user : pf; u_pass : pf; u_host : pf; u_port : pf;
  u_params : pf; u_headers : pf; u_portno : N }.
#[export] Instance eta_puri : Settable _ :=
  settable! mkpuri <u_type; u_scheme; u_user; u_pass; u_host; u_port; u_params; u_headers; u_portno>.
Definition puri0 : puri := mkpuri 0 pf0 pf0 pf0 pf0 pf0 pf0 pf0 0.

(* the local variables of ParseURI *)
Record uloc := mkuloc {
  ul_state : ust; ul_s : N; ul_found : bool; ul_passoffs : N; ul_portno : N; ul_errh : bool }.
#[export] Instance eta_uloc : Settable _ :=
  settable! mkuloc <ul_state; ul_s; ul_found; ul_passoffs; ul_portno; ul_errh>.

(* one iteration: continue, return (err, offs), or panic *)
Inductive ustep := UGo (l : uloc) (u : puri) | URet (e : N) (o : N) (u : puri) | UPanic.

Notation "'let?' x ':=' a 'in' b" :=
  (match a with Some x => b | None => UPanic end)
  (at level 200, x pattern, a at level 100, b at level 200).

Definition ch (c : byte) (x : N) : bool := c =? x.
Definition c_at := 64. Definition c_colon := 58. Definition c_semi := 59.
Definition c_qm := 63. Definition c_lbr := 91. Definition c_rbr := 93. Definition c_amp := 38.

(* the '@' back-track shared by uParam0/1 and uHeaders *)
Definition u_backtrack (i : N) (l : uloc) (u : puri) : ustep :=
  if ul_found l then URet ErrURIBadChar i u
  else
    match (if negb (ul_passoffs l =? 0) then
             match pf_set (po (u_host u)) (ul_passoffs l), pf_set (ul_passoffs l + 1) i with
             | Some us, Some pw => Some (u <| u_user := us |> <| u_pass := pw |>)
             | _, _ => None
             end
           else
             match pf_set (po (u_host u)) i with
             | Some us => Some (u <| u_user := us |> <| u_pass := pf0 |>)
             | None => None
             end) with
    | None => UPanic
    | Some u1 =>
      UGo (l <| ul_found := true |> <| ul_errh := false |> <| ul_state := UHost0 |> <| ul_s := i + 1 |>
             <| ul_portno := 0 |>)
          (u1 <| u_host := pf0 |> <| u_port := pf0 |> <| u_portno := 0 |> <| u_params := pf0 |>
              <| u_headers := pf0 |>)
    end.

(* "port ends here": Port.Set, range check, PortNo *)
Definition u_endport (i : N) (l : uloc) (u : puri) (k : puri -> ustep) : ustep :=
  let? p := pf_set (ul_s l) i in
  let u := u <| u_port := p |> in
  if 65535 <? ul_portno l then URet ErrURIPort i u
  else k (u <| u_portno := ul_portno l |>).

Definition u_acc_port (c : byte) (l : uloc) : uloc :=
  if ul_portno l <=? 65535 then l <| ul_portno := ul_portno l * 10 + digit_val c |> else l.

Definition uri_step (c : byte) (i : N) (l : uloc) (u : puri) : ustep :=
  let goto (st : ust) (l : uloc) := l <| ul_state := st |> <| ul_s := i + 1 |> in
  match ul_state l with
  | UInitSIP | UInitSIPS | UInitTEL =>
    if ch c c_lbr then UGo (l <| ul_state := UHost61 |> <| ul_s := i |>) u
    else if ch c c_colon || ch c c_rbr then URet ErrURIBadChar i u
    else UGo (l <| ul_state := UUser |> <| ul_s := i |>) u
  | UUser =>
    if ch c c_at then
      let? f := pf_set (ul_s l) i in
      UGo (goto UHost0 l <| ul_found := true |>) (u <| u_user := f |>)
    else if ch c c_colon then
      let? f := pf_set (ul_s l) i in UGo (goto UPass0 l) (u <| u_user := f |>)
    else if ch c c_semi then
      let? f := pf_set (ul_s l) i in UGo (goto UParam0 l) (u <| u_host := f |>)
    else if ch c c_qm then
      let? f := pf_set (ul_s l) i in UGo (goto UHeaders l) (u <| u_host := f |>)
    else if ch c c_lbr || ch c c_rbr then URet ErrURIBadChar i u
    else UGo l u
  | UPass0 =>
    if ch c c_at then
      let? f := pf_set (ul_s l) i in
      UGo (goto UHost0 l <| ul_found := true |> <| ul_portno := 0 |>) (u <| u_pass := f |>)
    else if ch c c_semi || ch c c_qm then
      u_endport i l u (fun u =>
        UGo (goto (if ch c c_semi then UParam0 else UHeaders) l <| ul_found := true |>)
            (u <| u_host := u_user u |> <| u_user := pf0 |>))
    else if is_digit c then UGo (u_acc_port c l) u
    else if ch c c_lbr || ch c c_rbr || ch c c_colon then URet ErrURIBadChar i u
    else UGo (l <| ul_portno := 0 |> <| ul_state := UPass1 |>) u
  | UPass1 =>
    if ch c c_at then
      let? f := pf_set (ul_s l) i in
      UGo (goto UHost0 l <| ul_found := true |>) (u <| u_pass := f |>)
    else if ch c c_semi || ch c c_qm || ch c c_lbr || ch c c_rbr || ch c c_colon
    then URet ErrURIBadChar i u
    else UGo l u
  | UHost0 =>
    if ch c c_lbr then UGo (l <| ul_state := UHost61 |>) u
    else if ch c c_colon || ch c c_semi || ch c c_qm || ch c c_amp || ch c c_at
    then URet ErrURIHost i u
    else UGo (l <| ul_state := UHost1 |>) u
  | UHost1 =>
    if ch c c_colon then let? f := pf_set (ul_s l) i in UGo (goto UPort l) (u <| u_host := f |>)
    else if ch c c_semi then let? f := pf_set (ul_s l) i in UGo (goto UParam0 l) (u <| u_host := f |>)
    else if ch c c_qm then let? f := pf_set (ul_s l) i in UGo (goto UHeaders l) (u <| u_host := f |>)
    else if ch c c_amp || ch c c_at then URet ErrURIBadChar i u
    else UGo l u
  | UHost61 =>
    if ch c c_rbr then UGo (l <| ul_state := UHost6E |>) u
    else if ch c c_lbr || ch c c_at || ch c c_semi || ch c c_qm || ch c c_amp
    then URet ErrURIHost i u
    else UGo l u
  | UHost6E =>
    if ch c c_colon then let? f := pf_set (ul_s l) i in UGo (goto UPort l) (u <| u_host := f |>)
    else if ch c c_semi then let? f := pf_set (ul_s l) i in UGo (goto UParam0 l) (u <| u_host := f |>)
    else if ch c c_qm then let? f := pf_set (ul_s l) i in UGo (goto UHeaders l) (u <| u_host := f |>)
    else URet ErrURIHost i u
  | UPort =>
    if is_digit c then UGo (u_acc_port c l) u
    else if ch c c_semi then u_endport i l u (fun u => UGo (goto UParam0 l) u)
    else if ch c c_qm then u_endport i l u (fun u => UGo (goto UHeaders l) u)
    else URet ErrURIPort i u
  | UParam0 | UParam1 =>
    if ch c c_at then u_backtrack i l u
    else if ch c c_colon then
      let l1 := if ul_found l then l
                else if negb (ul_passoffs l =? 0) then l <| ul_found := true |> <| ul_passoffs := 0 |>
                else l <| ul_passoffs := i |> in
      UGo (l1 <| ul_state := UParam1 |>) u
    else if ch c c_semi then
      let l1 := if negb (ul_passoffs l =? 0) then l <| ul_passoffs := 0 |> <| ul_found := true |> else l in
      UGo (l1 <| ul_state := UParam0 |>) u
    else if ch c c_qm then
      let? f := pf_set (ul_s l) i in
      let l1 := goto UHeaders l in
      let l2 := if negb (ul_passoffs l =? 0) then l1 <| ul_passoffs := 0 |> <| ul_found := true |> else l1 in
      UGo l2 (u <| u_params := f |>)
    else UGo (l <| ul_state := UParam1 |>) u
  | UHeaders =>
    if ch c c_at then u_backtrack i l u
    else if ch c c_semi then
      if ul_found l || negb (ul_passoffs l =? 0) then URet ErrURIBadChar i u
      else UGo (l <| ul_errh := true |>) u
    else if ch c c_colon then
      UGo (if ul_found l then l
           else if negb (ul_passoffs l =? 0) then l <| ul_found := true |> <| ul_passoffs := 0 |>
           else l <| ul_passoffs := i |>) u
    else if ch c c_qm then
      UGo (if negb (ul_passoffs l =? 0) then l <| ul_found := true |> <| ul_passoffs := 0 |> else l) u
    else UGo l u
  end.

(* the switch after the loop; i = len(uri) *)
Definition uri_finish (i : N) (l : uloc) (u : puri) : ustep :=
  let fin (u : puri) :=
    URet NoURIErr i (if u_type u =? TELuri then u <| u_user := u_host u |> <| u_host := pf0 |> else u) in
  match ul_state l with
  | UInitSIP | UInitSIPS | UInitTEL => URet ErrURITooShort i u
  | UUser =>
    if ul_found l then URet ErrURIBad i u
    else let? f := pf_set (ul_s l) i in fin (u <| u_host := f |>)
  | UPass0 | UPass1 =>
    if ul_found l || (match ul_state l with UPass1 => true | _ => false end) then URet ErrURIPort i u
    else u_endport i l u (fun u => fin (u <| u_host := u_user u |> <| u_user := pf0 |>))
  | UHost1 | UHost6E => let? f := pf_set (ul_s l) i in fin (u <| u_host := f |>)
  | UHost0 | UHost61 => URet ErrURIHost i u
  | UPort => u_endport i l u fin
  | UParam0 | UParam1 => let? f := pf_set (ul_s l) i in fin (u <| u_params := f |>)
  | UHeaders =>
    let? f := pf_set (ul_s l) i in
    let u := u <| u_headers := f |> in
    if ul_errh l then URet ErrURIHeaders i u else fin u
  end.

Fixpoint uri_loop (r : list byte) (i : N) (l : uloc) (u : puri) : ustep :=
  match r with
  | [] => uri_finish i l u
  | c :: r' =>
    match uri_step c i l u with
    | UGo l' u' => uri_loop r' (i + 1) l' u'
    | x => x
    end
  end.

Definition lo20 (c : byte) : N := N.lor c 32.
(* ParseURI(uri, puri): None = panic, else (err, offs, puri) *)
Definition parse_uri (uri : list byte) (u : puri) : option (N * N * puri) :=
  match uri with
  | a :: b :: c :: d :: e :: _ =>
    let start (t : N) (st : ust) (schlen : nat) : option (N * N * puri) :=
      match pf_set 0 (nnat schlen + 1) with
      | None => None
      | Some sc =>
        match uri_loop (skipn (S schlen) uri) (nnat schlen + 1)
                (mkuloc st 0 false 0 0 false) (u <| u_type := t |> <| u_scheme := sc |>) with
        | URet e o u' => Some (e, o, u')
        | _ => None
        end
      end in
    let s4 := [lo20 a; lo20 b; lo20 c; lo20 d] in
    if eqb_bytes s4 [115; 105; 112; 58] then start SIPuri UInitSIP 3%nat
    else if eqb_bytes s4 [116; 101; 108; 58] then start TELuri UInitTEL 3%nat
    else if eqb_bytes s4 [115; 105; 112; 115] then
      if e =? c_colon then start SIPSuri UInitSIPS 4%nat
      else Some (ErrURIScheme, 4, u <| u_type := INVALIDuri |>)
    else Some (ErrURIScheme, 4, u <| u_type := INVALIDuri |>)
  | _ => Some (ErrURITooShort, nnat (length uri), u)
  end.

Definition obs_puri (u : puri) : list Z :=
  [n2z (u_type u)] ++ obs_pf (u_scheme u) ++ obs_pf (u_user u) ++ obs_pf (u_pass u) ++ obs_pf (u_host u)
  ++ obs_pf (u_port u) ++ obs_pf (u_params u) ++ obs_pf (u_headers u) ++ [n2z (u_portno u)].

(* ---- views (16-bit arithmetic written in) ----------------------------- *)
Definition end16 (f : pf) : N := to16 (po f + pl f).
(* r.Set(int(Scheme.Offs), int(X.Offs+X.Len)) *)
Definition view_to (u : puri) (f : pf) : option pf := pf_set16 (po (u_scheme u)) (end16 f).
Definition uri_long (u : puri) : option pf :=
  if 0 <? pl (u_headers u) then view_to u (u_headers u)
  else if 0 <? pl (u_params u) then view_to u (u_params u)
  else if 0 <? pl (u_port u) then view_to u (u_port u)
  else if 0 <? pl (u_host u) then view_to u (u_host u)
  else if 0 <? pl (u_pass u) then view_to u (u_pass u)
  else if 0 <? pl (u_user u) then view_to u (u_user u)
  else Some pf0.
Definition uri_short (u : puri) : option pf :=
  if 0 <? pl (u_port u) then view_to u (u_port u)
  else if 0 <? pl (u_host u) then view_to u (u_host u)
  else if 0 <? pl (u_user u) then view_to u (u_user u)
  else Some pf0.
Definition uri_truncate (u : puri) : puri := u <| u_params := pf0 |> <| u_headers := pf0 |>.

(* AdjustOffs(newpos): (ok, u') *)
Definition uri_adjust (u : puri) (np : pf) : bool * puri :=
  let offs := po np in
  let end_ := offs + pl np in
  let sum := to16 (pl (u_scheme u) + pl (u_user u) + pl (u_pass u) + pl (u_host u) + pl (u_port u)
                   + pl (u_params u) + pl (u_headers u)) in
  if pl np <? sum then (false, u)
  else
    let start := po (u_scheme u) in
    let mv (f : pf) (last : N) : pf * N :=
      if po f =? 0 then (f, last)
      else (mkpf (to16 (po f + 65536 - start + offs)) (pl f), N.max last (offs + to16 (po f + 65536 - start) + pl f)) in
    let '(us, l1) := mv (u_user u) offs in
    let '(pw, l2) := mv (u_pass u) l1 in
    let '(ho, l3) := mv (u_host u) l2 in
    let '(pt, l4) := mv (u_port u) l3 in
    let '(pa, l5) := mv (u_params u) l4 in
    let '(hd, l6) := mv (u_headers u) l5 in
    if end_ <? l6 then (false, u)
    else (true, mkpuri (u_type u) (mkpf offs (pl (u_scheme u))) us pw ho pt pa hd (u_portno u)).

(* ---- comparisons ------------------------------------------------------- *)
(* None = a Get went out of range (panic) *)
Definition uri_cmp_short (u1 : puri) (b1 : list byte) (u2 : puri) (b2 : list byte) (flags : N) : option bool :=
  let t := testbit flags in
  (* Go evaluates && left to right: a Get is only performed when reached *)
  if negb (t bURICmpSkipScheme || (u_type u1 =? u_type u2)) then Some false
  else if negb (t bURICmpSkipPort || (u_portno u1 =? u_portno u2)) then Some false
  else
    match (if t bURICmpSkipUser then Some true
           else match bget b1 (u_user u1), bget b2 (u_user u2) with
                | Some x, Some y => Some (eqb_bytes x y) | _, _ => None end) with
    | None => None
    | Some false => Some false
    | Some true =>
      match (if t bURICmpSkipPass then Some true
             else match bget b1 (u_pass u1), bget b2 (u_pass u2) with
                  | Some x, Some y => Some (eqb_bytes x y) | _, _ => None end) with
      | None => None
      | Some false => Some false
      | Some true =>
        match bget b1 (u_host u1), bget b2 (u_host u2) with
        | Some x, Some y => Some (eqb_nocase x y) | _, _ => None
        end
      end
    end.

Definition uri_cmp (u1 : puri) (b1 : list byte) (u2 : puri) (b2 : list byte) (flags : N) : option bool :=
  let t := testbit flags in
  match uri_cmp_short u1 b1 u2 b2 flags with
  | None => None
  | Some r0 =>
    match (if r0 && negb (t bURICmpSkipParams) then
             match bget b1 (u_params u1), bget b2 (u_params u2) with
             | Some p1, Some p2 =>
               match uri_params_eq p1 0 p2 0 with Some (ok, _) => Some ok | None => None end
             | _, _ => None
             end
           else Some r0) with
    | None => None
    | Some r1 =>
      if r1 && negb (t bURICmpSkipHeaders) then
        match bget b1 (u_headers u1), bget b2 (u_headers u2) with
        | Some h1, Some h2 =>
          match uri_hdrs_eq h1 0 h2 0 with Some (ok, _) => Some ok | None => None end
        | _, _ => None
        end
      else Some r1
    end
  end.

(* URIParseCmp: (result, err, which, r1, r2); r1/r2 = None when not written *)
Definition uri_parse_cmp (raw1 raw2 : list byte) (flags : N)
  : option (bool * N * N * option puri * option puri) :=
  match parse_uri raw1 puri0 with
  | None => None
  | Some (e1, _, u1) =>
    if negb (e1 =? NoURIErr) then Some (false, e1, 0, None, None)
    else
      match parse_uri raw2 puri0 with
      | None => None
      | Some (e2, _, u2) =>
        if negb (e2 =? NoURIErr) then Some (false, e2, 1, Some u1, None)
        else
          match uri_cmp u1 raw1 u2 raw2 flags with
          | None => None
          | Some r => Some (r, NoURIErr, 0, Some u1, Some u2)
          end
      end
  end.
