(* parse_contact.go, parse_pai.go: the multi-value list parsers *)
From Sipsp Require Export NameAddr.

(* replace element n of l (no-op when out of range) *)
Fixpoint set_nth {A} (n : nat) (x : A) (l : list A) : list A :=
  match l, n with
  | [], _ => []
  | _ :: l', O => x :: l'
  | y :: l', Datatypes.S n' => y :: set_nth n' x l'
  end.

Record contacts := mkcontacts {
  ct_vals : list pfrom; ct_n : N; ct_hno : N; ct_maxexp : N; ct_minexp : N;
  ct_lasthval : pf; ct_last : pfrom; ct_first : pfrom }.
#[export] Instance eta_contacts : Settable _ :=
  settable! mkcontacts <ct_vals; ct_n; ct_hno; ct_maxexp; ct_minexp; ct_lasthval; ct_last; ct_first>.
(* a new PContacts given the caller's array (Init) *)
Definition contacts_init (vals : list pfrom) : contacts :=
  mkcontacts vals 0 0 0 0 pf0 pfrom0 pfrom0.
(* Reset: clears the whole array *)
Definition contacts_reset (c : contacts) : contacts :=
  contacts_init (map (fun _ => pfrom0) (ct_vals c)).
Definition ct_cap (c : contacts) : N := nnat (length (ct_vals c)).
Definition ct_vno (c : contacts) : N := N.min (ct_n c) (ct_cap c).
Definition ct_more (c : contacts) : bool := ct_cap c <? ct_n c.
Definition ct_parsed (c : contacts) : bool := 0 <? ct_n c.
(* GetContact(n) *)
Definition ct_get (c : contacts) (n : N) : option pfrom :=
  if n <? ct_vno c then nth_error (ct_vals c) (N.to_nat n)
  else if ct_n c =? 0 then None
  else if ct_n c =? n + 1 then Some (ct_last c)
  else if n =? 0 then Some (ct_first c)
  else None.

Definition ct_slot_is_last (c : contacts) : bool := ct_cap c <=? ct_n c.
Definition ct_slot (c : contacts) : pfrom :=
  if ct_slot_is_last c then ct_last c else nth (N.to_nat (ct_n c)) (ct_vals c) pfrom0.
Definition ct_store (c : contacts) (v : pfrom) : contacts :=
  if ct_slot_is_last c then c <| ct_last := v |>
  else c <| ct_vals := set_nth (N.to_nat (ct_n c)) v (ct_vals c) |>.
Definition ct_reset_last_if (b : bool) (c : contacts) : contacts :=
  if b then c <| ct_last := pfrom0 |> else c.

Definition ct_iter (pre rest : list byte) (i : N) (c0 : contacts) : ires contacts :=
  let c := if ct_slot_is_last c0 && fb_parsed (ct_last c0) then c0 <| ct_last := pfrom0 |> else c0 in
  let is_last := ct_slot_is_last c in
  match run (fb_iter HdrContact) pre rest i 0 (ct_slot c) with
  | Done next e v =>
    let c1 := ct_store c v in
    match e with
    | EOk | EMoreValues =>
      let c2 := if ct_n c1 =? 0 then c1 <| ct_minexp := MaxU32 |> else c1 in
      match (if (ct_n c2 =? 0) || pf_empty (ct_lasthval c2) then Some (fb_v v)
             else pf_extend (ct_lasthval c2) (pf_end (fb_v v))) with
      | None => IPanic
      | Some lh =>
        let c3 := c2 <| ct_lasthval := lh |> <| ct_n := ct_n c2 + 1 |> in
        let c4 := if ct_maxexp c3 <? fb_expires v then c3 <| ct_maxexp := fb_expires v |> else c3 in
        let c5 := if fb_expires v <? ct_minexp c4 then c4 <| ct_minexp := fb_expires v |> else c4 in
        let c6 := if (ct_n c5 =? 1) && (ct_cap c5 =? 0) then c5 <| ct_first := v |> else c5 in
        match e with
        | EMoreValues => Next (N.to_nat (next - i)) (ct_reset_last_if is_last c6)
        | _ => Ret next EOk c6
        end
      end
    | EMore => Ret next EMore c1
    | _ => Ret next e (ct_reset_last_if is_last c1)
    end
  | _ => IPanic
  end.
Definition parse_all_contacts := parse ct_iter.

Definition obs_opt_pfrom (o : option pfrom) : list Z :=
  match o with None => [(-1)%Z] | Some v => 1%Z :: obs_pfrom v end.
Definition obs_contacts (c : contacts) : list Z :=
  [n2z (ct_n c); n2z (ct_hno c); n2z (ct_maxexp c); n2z (ct_minexp c)] ++ obs_pf (ct_lasthval c)
  ++ [n2z (ct_vno c); b2z (ct_more c); b2z (ct_parsed c)]
  ++ flat_map obs_pfrom (firstn (N.to_nat (ct_vno c)) (ct_vals c))
  ++ obs_opt_pfrom (ct_get c 0) ++ obs_opt_pfrom (ct_get c (ct_n c - 1)) ++ obs_opt_pfrom (ct_get c (ct_n c)).

(* ---- P-Asserted-Identity --------------------------------------------- *)
Record pais := mkpais { pa_vals : list pfrom; pa_n : N; pa_hno : N; pa_lasthval : pf; pa_last : pfrom }.
#[export] Instance eta_pais : Settable _ := settable! mkpais <pa_vals; pa_n; pa_hno; pa_lasthval; pa_last>.
Definition pais0 : pais := mkpais (repeat pfrom0 paiVals) 0 0 pf0 pfrom0.
Definition pa_cap (c : pais) : N := nnat (length (pa_vals c)).
Definition pa_vno (c : pais) : N := N.min (pa_n c) (pa_cap c).
Definition pa_more (c : pais) : bool := pa_cap c <? pa_n c.
Definition pa_parsed (c : pais) : bool := 0 <? pa_n c.
Definition pa_get (c : pais) (n : N) : option pfrom :=
  if n <? pa_vno c then nth_error (pa_vals c) (N.to_nat n) else None.
Definition pa_slot_is_last (c : pais) : bool := pa_cap c <=? pa_n c.
Definition pa_slot (c : pais) : pfrom :=
  if pa_slot_is_last c then pa_last c else nth (N.to_nat (pa_n c)) (pa_vals c) pfrom0.
Definition pa_store (c : pais) (v : pfrom) : pais :=
  if pa_slot_is_last c then c <| pa_last := v |>
  else c <| pa_vals := set_nth (N.to_nat (pa_n c)) v (pa_vals c) |>.
Definition pa_reset_last_if (b : bool) (c : pais) : pais :=
  if b then c <| pa_last := pfrom0 |> else c.

Definition pa_iter (pre rest : list byte) (i : N) (c0 : pais) : ires pais :=
  let c := if pa_slot_is_last c0 && fb_parsed (pa_last c0) then c0 <| pa_last := pfrom0 |> else c0 in
  let is_last := pa_slot_is_last c in
  match run (fb_iter HdrPAI) pre rest i 0 (pa_slot c) with
  | Done next e0 v =>
    let e := if (err_eqb e0 EOk || err_eqb e0 EMoreValues) && fb_star v then EValBad else e0 in
    let c1 := pa_store c v in
    match e with
    | EOk | EMoreValues =>
      match (if (pa_n c1 =? 0) || pf_empty (pa_lasthval c1) then Some (fb_v v)
             else pf_extend (pa_lasthval c1) (pf_end (fb_v v))) with
      | None => IPanic
      | Some lh =>
        let c3 := c1 <| pa_lasthval := lh |> <| pa_n := pa_n c1 + 1 |> in
        match e with
        | EMoreValues => Next (N.to_nat (next - i)) (pa_reset_last_if is_last c3)
        | _ => Ret next EOk c3
        end
      end
    | EMore => Ret next EMore c1
    | _ => Ret next e (pa_reset_last_if is_last c1)
    end
  | _ => IPanic
  end.
Definition parse_all_pais := parse pa_iter.
Definition obs_pais (c : pais) : list Z :=
  [n2z (pa_n c); n2z (pa_hno c)] ++ obs_pf (pa_lasthval c)
  ++ [n2z (pa_vno c); b2z (pa_more c); b2z (pa_parsed c)]
  ++ flat_map obs_pfrom (firstn (N.to_nat (pa_vno c)) (pa_vals c)).
