(* parse_callid.go *)
From Sipsp Require Export Driver.

Inductive cist := CiInit | CiFound | CiEnd | CiFIN.
Record callid := mkcallid { ci_callid : pf; ci_state : cist; ci_soffs : N }.
#[export] Instance eta_callid : Settable _ := settable! mkcallid <ci_callid; ci_state; ci_soffs>.
Definition callid0 : callid := mkcallid pf0 CiInit 0.
Definition ci_parsed (s : callid) : bool := match ci_state s with CiFIN => true | _ => false end.
Definition ci_empty (s : callid) : bool := match ci_state s with CiInit => true | _ => false end.

Definition ci_endOfHdr (i n : N) (crl : nat) (s : callid) : ires callid :=
  match ci_state s with
  | CiEnd => Ret (n + nnat crl) EOk (s <| ci_state := CiFIN |> <| ci_soffs := 0 |>)
  | CiFound =>
    let! f := pf_set (ci_soffs s) i in
    Ret (n + nnat crl) EOk (s <| ci_callid := f |> <| ci_state := CiFIN |> <| ci_soffs := 0 |>)
  | CiInit => Ret (n + nnat crl) EBad s
  | CiFIN => Ret (n + nnat crl) EBug s
  end.

Definition ci_lws (rest : list byte) (i : N) (s1 : callid) : ires callid :=
  match skipLWS false rest with
  | LOk k => Next k s1
  | LEOH k crl => ci_endOfHdr i (i + nnat k) crl s1
  | LMore k => Ret (i + nnat k) EMore s1
  end.

Definition ci_iter (pre rest : list byte) (i : N) (s : callid) : ires callid :=
  match ci_state s with
  | CiFIN => Ret i EOk s
  | st =>
    match rest with
    | [] => Ret i EMore s
    | c :: _ =>
      if is_ws c then
        match st with
        | CiFound =>
          let! f := pf_set (ci_soffs s) i in
          ci_lws rest i (s <| ci_callid := f |> <| ci_state := CiEnd |>)
        | _ => ci_lws rest i s
        end
      else
        match st with
        | CiInit => Next 1 (s <| ci_state := CiFound |> <| ci_soffs := i |>)
        | CiEnd => Ret i EBadChar s
        | _ => Next 1 s
        end
    end
  end.

Definition parse_callid := parse ci_iter.
Definition obs_callid (s : callid) : list Z :=
  obs_pf (ci_callid s) ++ [b2z (ci_parsed s); b2z (ci_empty s)].
