(* parse_method.go: GetMethodNo; parse_headers.go: GetHdrType.
   The bucket tables come from Gen/Tables.v, i.e. from the current /repo. *)
From Sipsp Require Export Consts.
From Sipsp Require Import Tables.

Definition hash_name (bits_len bits_fchar : N) (n : list byte) : N :=
  match n with
  | [] => 0
  | c :: _ =>
    N.lor (N.land (to_lower c) (2 ^ bits_fchar - 1))
          (N.shiftl (N.land (N.of_nat (length n)) (2 ^ bits_len - 1)) bits_fchar)
  end.

Fixpoint find_name (eq : list byte -> list byte -> bool) (name : list byte)
  (b : list (list byte * N)) : option N :=
  match b with
  | [] => None
  | (n, t) :: b' => if eq name n then Some t else find_name eq name b'
  end.

Definition get_hdr_type (name : list byte) : N :=
  match name with
  | [] => HdrOther
  | _ =>
    match find_name eqb_nocase name
            (nth (N.to_nat (hash_name go_hnBitsLen go_hnBitsFChar name)) go_hdr_buckets []) with
    | Some t => t
    | None => HdrOther
    end
  end.

Definition get_method_no (name : list byte) : N :=
  match name with
  | [] => MOther
  | _ =>
    match find_name eqb_bytes name
            (nth (N.to_nat (hash_name go_mthBitsLen go_mthBitsFChar name)) go_mth_buckets []) with
    | Some t => t
    | None => MOther
    end
  end.

(* SIPMethod.Name() *)
Definition method_name (m : N) : list byte :=
  if MOther <? m then nth 0 go_method2name [] else nth (N.to_nat m) go_method2name [].
