(* parse_clen.go, parse_expires.go *)
From Sipsp Require Export Driver Consts.

Inductive uist := ClInit | ClFound | ClEnd | ClFIN.
Record uintb := mkuintb { ui_val : N; ui_sval : pf; ui_state : uist; ui_soffs : N }.
#[export] Instance eta_uintb : Settable _ := settable! mkuintb <ui_val; ui_sval; ui_state; ui_soffs>.
Definition uintb0 : uintb := mkuintb 0 pf0 ClInit 0.
Definition ui_parsed (s : uintb) : bool := match ui_state s with ClFIN => true | _ => false end.
Definition ui_empty (s : uintb) : bool := match ui_state s with ClInit => true | _ => false end.

Definition ui_endOfHdr (i n : N) (crl : nat) (s : uintb) : ires uintb :=
  match ui_state s with
  | ClEnd => Ret (n + nnat crl) EOk (s <| ui_state := ClFIN |> <| ui_soffs := 0 |>)
  | ClFound =>
    let! f := pf_set (ui_soffs s) i in
    Ret (n + nnat crl) EOk (s <| ui_sval := f |> <| ui_state := ClFIN |> <| ui_soffs := 0 |>)
  | ClInit => Ret (n + nnat crl) EBad s
  | ClFIN => Ret (n + nnat crl) EBug s
  end.

Definition ui_lws (rest : list byte) (i : N) (s1 : uintb) : ires uintb :=
  match skipLWS false rest with
  | LOk k => Next k s1
  | LEOH k crl => ui_endOfHdr i (i + nnat k) crl s1
  | LMore k => Ret (i + nnat k) EMore s1
  end.

(* uint32 accumulation with the (fixed) overflow test: the next digit d fits
   iff v <= (2^32-1 - d) / 10 *)
Definition acc32 (v d : N) : option N :=
  if (MaxU32 - d) / 10 <? v then None else Some (v * 10 + d).

Definition ui_iter (pre rest : list byte) (i : N) (s : uintb) : ires uintb :=
  match ui_state s with
  | ClFIN => Ret i EOk s
  | st =>
    match rest with
    | [] => Ret i EMore s
    | c :: _ =>
      if is_ws c then
        match st with
        | ClFound =>
          let! f := pf_set (ui_soffs s) i in
          ui_lws rest i (s <| ui_sval := f |> <| ui_state := ClEnd |>)
        | _ => ui_lws rest i s
        end
      else if is_digit c then
        match st with
        | ClInit => Next 1 (s <| ui_state := ClFound |> <| ui_soffs := i |> <| ui_val := digit_val c |>)
        | ClFound =>
          match acc32 (ui_val s) (digit_val c) with
          | None => Ret i ENumTooBig s
          | Some v => Next 1 (s <| ui_val := v |>)
          end
        | _ => Ret i EBadChar s
        end
      else Ret i EBadChar s
    end
  end.

Definition parse_uint := parse ui_iter.
(* ParseExpiresVal = ParseUIntVal *)
Definition parse_expires := parse_uint.
(* ParseCLenVal *)
Definition parse_clen (buf : list byte) (offs : N) (s : uintb) : res uintb :=
  match parse_uint buf offs s with
  | Done o EOk s' =>
    if (MaxCLenValueSize <? pl (ui_sval s')) || (MaxClenValue <? ui_val s')
    then Done (po (ui_sval s')) ENumTooBig s' else Done o EOk s'
  | r => r
  end.
Definition obs_uint (s : uintb) : list Z :=
  [n2z (ui_val s)] ++ obs_pf (ui_sval s) ++ [b2z (ui_parsed s); b2z (ui_empty s)].
