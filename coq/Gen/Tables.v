(* GENERATED from the current build of /repo by `harness tables` - do not edit *)
From Coq Require Import List NArith.
Import ListNotations.
Open Scope N_scope.

Definition go_hdr_name2type : list (list N * N) := [
  ([102; 114; 111; 109], 1); (* from *)
  ([102], 1); (* f *)
  ([116; 111], 2); (* to *)
  ([116], 2); (* t *)
  ([99; 97; 108; 108; 45; 105; 100], 3); (* call-id *)
  ([105], 3); (* i *)
  ([99; 115; 101; 113], 4); (* cseq *)
  ([118; 105; 97], 5); (* via *)
  ([118], 5); (* v *)
  ([109; 97; 120; 45; 102; 111; 114; 119; 97; 114; 100; 115], 6); (* max-forwards *)
  ([99; 111; 110; 116; 101; 110; 116; 45; 108; 101; 110; 103; 116; 104], 7); (* content-length *)
  ([108], 7); (* l *)
  ([99; 111; 110; 116; 97; 99; 116], 8); (* contact *)
  ([109], 8); (* m *)
  ([101; 120; 112; 105; 114; 101; 115], 9); (* expires *)
  ([117; 115; 101; 114; 45; 97; 103; 101; 110; 116], 10); (* user-agent *)
  ([114; 101; 99; 111; 114; 100; 45; 114; 111; 117; 116; 101], 11); (* record-route *)
  ([114; 111; 117; 116; 101], 12); (* route *)
  ([112; 45; 97; 115; 115; 101; 114; 116; 101; 100; 45; 105; 100; 101; 110; 116; 105; 116; 121], 13) (* p-asserted-identity *)
].

Definition go_hdr_buckets : list (list (list N * N)) := [
  [];
  [];
  [([114; 101; 99; 111; 114; 100; 45; 114; 111; 117; 116; 101], 11)];
  [([99; 115; 101; 113], 4)];
  [];
  [];
  [([102; 114; 111; 109], 1)];
  [];
  [];
  [];
  [];
  [];
  [];
  [([109; 97; 120; 45; 102; 111; 114; 119; 97; 114; 100; 115], 6)];
  [];
  [];
  [];
  [];
  [([114; 111; 117; 116; 101], 12)];
  [];
  [([116], 2)];
  [];
  [([102], 1); ([118], 5)];
  [];
  [];
  [([105], 3)];
  [];
  [];
  [([108], 7)];
  [([109], 8)];
  [];
  [];
  [];
  [];
  [];
  [([99; 111; 110; 116; 101; 110; 116; 45; 108; 101; 110; 103; 116; 104], 7)];
  [([116; 111], 2)];
  [([117; 115; 101; 114; 45; 97; 103; 101; 110; 116], 10)];
  [];
  [];
  [];
  [];
  [];
  [];
  [];
  [];
  [];
  [];
  [([112; 45; 97; 115; 115; 101; 114; 116; 101; 100; 45; 105; 100; 101; 110; 116; 105; 116; 121], 13)];
  [];
  [];
  [([99; 97; 108; 108; 45; 105; 100], 3); ([99; 111; 110; 116; 97; 99; 116], 8)];
  [];
  [([101; 120; 112; 105; 114; 101; 115], 9)];
  [([118; 105; 97], 5)];
  [];
  [];
  [];
  [];
  [];
  [];
  [];
  [];
  []
].

Definition go_mth_buckets : list (list (list N * N)) := [
  [];
  [([73; 78; 70; 79], 11)];
  [([82; 69; 71; 73; 83; 84; 69; 82], 1)];
  [];
  [];
  [];
  [];
  [];
  [([80; 82; 65; 67; 75], 5)];
  [];
  [([82; 69; 70; 69; 82], 12)];
  [([83; 85; 66; 83; 67; 82; 73; 66; 69], 8)];
  [];
  [];
  [];
  [];
  [];
  [([73; 78; 86; 73; 84; 69], 2)];
  [];
  [([67; 65; 78; 67; 69; 76], 6)];
  [];
  [([85; 80; 68; 65; 84; 69], 10)];
  [([78; 79; 84; 73; 70; 89], 9)];
  [];
  [([80; 85; 66; 76; 73; 83; 72], 13)];
  [([65; 67; 75], 3)];
  [([66; 89; 69], 4)];
  [];
  [];
  [([77; 69; 83; 83; 65; 71; 69], 14)];
  [];
  [([79; 80; 84; 73; 79; 78; 83], 7)]
].

Definition go_method2name : list (list N) := [
  []; (* 0  *)
  [82; 69; 71; 73; 83; 84; 69; 82]; (* 1 REGISTER *)
  [73; 78; 86; 73; 84; 69]; (* 2 INVITE *)
  [65; 67; 75]; (* 3 ACK *)
  [66; 89; 69]; (* 4 BYE *)
  [80; 82; 65; 67; 75]; (* 5 PRACK *)
  [67; 65; 78; 67; 69; 76]; (* 6 CANCEL *)
  [79; 80; 84; 73; 79; 78; 83]; (* 7 OPTIONS *)
  [83; 85; 66; 83; 67; 82; 73; 66; 69]; (* 8 SUBSCRIBE *)
  [78; 79; 84; 73; 70; 89]; (* 9 NOTIFY *)
  [85; 80; 68; 65; 84; 69]; (* 10 UPDATE *)
  [73; 78; 70; 79]; (* 11 INFO *)
  [82; 69; 70; 69; 82]; (* 12 REFER *)
  [80; 85; 66; 76; 73; 83; 72]; (* 13 PUBLISH *)
  [77; 69; 83; 83; 65; 71; 69]; (* 14 MESSAGE *)
  [79; 84; 72; 69; 82] (* 15 OTHER *)
].

Definition go_hnBitsLen : N := 2.
Definition go_hnBitsFChar : N := 4.
Definition go_mthBitsLen : N := 2.
Definition go_mthBitsFChar : N := 3.
Definition go_sipVerSP : list N := [83; 73; 80; 47; 50; 46; 48; 32].
Definition go_sigHdrs : list N := [3; 8; 4; 1; 6; 2; 5; 10].
Definition go_hdr2SigId : list N := [255; 3; 5; 0; 2; 6; 4; 255; 1; 255; 7; 255; 255; 255; 255].
Definition go_sigHdrsFlags : N := 1406.
Definition go_HdrSigIdCMask : N := 8.
Definition go_NoSigHdrs : N := 8.

Definition go_err_codes : list N := [0; 1; 2; 3; 4; 5; 6; 7; 8; 9; 10; 11; 12; 13; 14; 15; 16; 17].
Definition go_HdrNone : N := 0.
Definition go_HdrFrom : N := 1.
Definition go_HdrTo : N := 2.
Definition go_HdrCallID : N := 3.
Definition go_HdrCSeq : N := 4.
Definition go_HdrVia : N := 5.
Definition go_HdrMaxFwd : N := 6.
Definition go_HdrCLen : N := 7.
Definition go_HdrContact : N := 8.
Definition go_HdrExpires : N := 9.
Definition go_HdrUA : N := 10.
Definition go_HdrRecordRoute : N := 11.
Definition go_HdrRoute : N := 12.
Definition go_HdrPAI : N := 13.
Definition go_HdrOther : N := 14.
Definition go_MUndef : N := 0.
Definition go_MRegister : N := 1.
Definition go_MInvite : N := 2.
Definition go_MAck : N := 3.
Definition go_MBye : N := 4.
Definition go_MPrack : N := 5.
Definition go_MCancel : N := 6.
Definition go_MOptions : N := 7.
Definition go_MSubscribe : N := 8.
Definition go_MNotify : N := 9.
Definition go_MUpdate : N := 10.
Definition go_MInfo : N := 11.
Definition go_MRefer : N := 12.
Definition go_MPublish : N := 13.
Definition go_MMessage : N := 14.
Definition go_MOther : N := 15.
Definition go_POptTokCommaTermF : N := 1.
Definition go_POptTokQmTermF : N := 2.
Definition go_POptTokSpTermF : N := 4.
Definition go_POptInputEndF : N := 8.
Definition go_POptParamSemiSepF : N := 16.
Definition go_POptParamAmpSepF : N := 32.
Definition go_POptTokURIParamF : N := 64.
Definition go_POptTokURIHdrF : N := 128.
Definition go_SIPMsgSkipBodyF : N := 1.
Definition go_SIPMsgCLenReqF : N := 2.
Definition go_SIPMsgNoMoreDataF : N := 4.
Definition go_MaxCSeqNValueSize : N := 10.
Definition go_MaxCSeqNValue : N := 4294967295.
Definition go_MaxCLenValueSize : N := 9.
Definition go_MaxClenValue : N := 16777216.
Definition go_NoURIErr : N := 0.
Definition go_ErrURIBadChar : N := 1.
Definition go_ErrURIScheme : N := 2.
Definition go_ErrURIHost : N := 3.
Definition go_ErrURIPort : N := 4.
Definition go_ErrURIHeaders : N := 5.
Definition go_ErrURITooShort : N := 6.
Definition go_ErrURIBad : N := 7.
Definition go_ErrURIBug : N := 8.
Definition go_INVALIDuri : N := 0.
Definition go_SIPuri : N := 1.
Definition go_SIPSuri : N := 2.
Definition go_TELuri : N := 3.
Definition go_URICmpSkipPort : N := 1.
Definition go_URICmpSkipScheme : N := 2.
Definition go_URICmpSkipUser : N := 4.
Definition go_URICmpSkipPass : N := 8.
Definition go_URICmpSkipParams : N := 16.
Definition go_URICmpSkipHeaders : N := 32.
Definition go_URIParamTransportF : N := 1.
Definition go_URIParamUserF : N := 2.
Definition go_URIParamMethodF : N := 4.
Definition go_URIParamTTLF : N := 8.
Definition go_URIParamMaddrF : N := 16.
Definition go_URIParamLRF : N := 32.
Definition go_URIParamOtherF : N := 64.
Definition go_SigIPStartF : N := 1.
Definition go_SigIPEndF : N := 2.
Definition go_SigIPMiddleF : N := 4.
Definition go_SigHasAtF : N := 8.
Definition go_SigHasDotF : N := 16.
Definition go_SigHasColonF : N := 32.
Definition go_SigHasDashF : N := 64.
Definition go_SigHasStarF : N := 128.
Definition go_SigHasDivF : N := 256.
Definition go_SigHasPlusF : N := 512.
Definition go_SigHasEqF : N := 1024.
Definition go_SigHasUnderF : N := 2048.
Definition go_SigHasPipeF : N := 4096.
Definition go_SigHexEncF : N := 8192.
Definition go_SigB64EncF : N := 16384.
Definition go_SigDigBlocksF : N := 32768.
Definition go_defaultHdrs : N := 10.
Definition go_defaultContacts : N := 10.
Definition go_paiVals : N := 2.
