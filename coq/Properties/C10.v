(* C10: numeric values are exact or rejected, never silently wrapped: the arithmetic of every
   numeric position, for digit strings of every length; and, at parser level for ParseUIntVal /
   ParseExpiresVal / ParseCLenVal, that the value reported is the decimal value of exactly the
   digits of the field reported (any offset, leading white space, digit strings of every length).
   PARTIAL in one respect: for the other numeric positions (CSeq number, status, port, contact
   expires / q) that the accumulator is fed exactly the digits of the reported field is checked by
   the correspondence run and the number-chunked oracle. *)
From Sipsp Require Import Harness IP4 Numbers FLineSpec UIntSpec.
Theorem C10_uint_header_value_is_its_digits : forall p sp ds d x,
  Forall (fun b => is_sp b = true) sp -> all_digits ds -> ds <> [] -> is_sp d = false ->
  let i := nnat (length p) in
  let text := sp ++ ds ++ CR :: LF :: d :: x in
  if dec ds <=? MaxU32 then
    parse_uint (p ++ text) i uintb0
    = Done (i + nnat (length sp) + nnat (length ds) + 2) EOk
        (mkuintb (dec ds) (mkpf (i + nnat (length sp)) (nnat (length ds))) ClFIN 0)
  else exists o s', parse_uint (p ++ text) i uintb0 = Done o ENumTooBig s'.
Proof. exact uint_value_spec. Qed.
Theorem C10_content_length_value_is_its_digits : forall p sp ds d x,
  Forall (fun b => is_sp b = true) sp -> all_digits ds -> ds <> [] -> is_sp d = false ->
  let i := nnat (length p) in
  let text := sp ++ ds ++ CR :: LF :: d :: x in
  if (dec ds <=? MaxClenValue) && (nnat (length ds) <=? MaxCLenValueSize) then
    parse_clen (p ++ text) i uintb0
    = Done (i + nnat (length sp) + nnat (length ds) + 2) EOk
        (mkuintb (dec ds) (mkpf (i + nnat (length sp)) (nnat (length ds))) ClFIN 0)
  else exists o s', parse_clen (p ++ text) i uintb0 = Done o ENumTooBig s'.
Proof. exact clen_value_spec. Qed.
Theorem C10_uint32_accumulation_exact_or_rejected : forall ds v, all_digits ds -> v <= MaxU32 ->
  acc32_all v ds = if dec_from v ds <=? MaxU32 then Some (dec_from v ds) else None.
Proof. exact acc32_all_exact. Qed.
Theorem C10_uint64_exact_or_saturated : forall ds v, all_digits ds -> v <= MaxU64 ->
  pUInt64_go ds v = if dec_from v ds <=? MaxU64 then (dec_from v ds, EOk) else (MaxU64, ENumTooBig).
Proof. exact pUInt64_exact. Qed.
Theorem C10_contact_expires_saturates : forall ds, all_digits ds -> expires_of ds = N.min (dec ds) MaxU32.
Proof. exact contact_expires_saturates. Qed.
Theorem C10_status_exact : forall a b c, is_digit a = true -> is_digit b = true -> is_digit c = true ->
  (digit_val a * 100 + digit_val b * 10 + digit_val c) mod 65536 = dec [a; b; c].
Proof. exact status_exact. Qed.
Theorem C10_port_exact_or_too_big : forall ds l, all_digits ds -> ul_portno l <= 65535 ->
  let p := ul_portno (port_all l ds) in
  (dec_from (ul_portno l) ds <= 65535 -> p = dec_from (ul_portno l) ds) /\
  (65535 < dec_from (ul_portno l) ds -> 65535 < p).
Proof. exact port_acc_exact. Qed.
