(* C10: numeric values are exact or rejected, never silently wrapped: the arithmetic of every
   numeric position, for digit strings of every length.  (PARTIAL in one respect: that the
   accumulator is fed exactly the digits of the reported field is checked by correspondence.) *)
From Sipsp Require Import Harness IP4 Numbers.
Theorem C10_uint32_accumulation_exact_or_rejected : forall ds v, all_digits ds -> v <= MaxU32 ->
  acc32_all v ds = if dec_from v ds <=? MaxU32 then Some (dec_from v ds) else None.
Proof. exact acc32_all_exact. Qed.
Theorem C10_uint64_exact_or_saturated : forall ds v, all_digits ds -> v <= MaxU64 ->
  pUInt64_go ds v = if dec_from v ds <=? MaxU64 then (dec_from v ds, EOk) else (MaxU64, ENumTooBig).
Proof. exact pUInt64_exact. Qed.
Theorem C10_contact_expires_saturates : forall ds, all_digits ds -> expires_of ds = N.min (dec ds) MaxU32.
Proof. exact contact_expires_saturates. Qed.
Theorem C10_status_exact : forall a b c, is_digit a = true -> is_digit b = true -> is_digit c = true ->
  (digit_val a * 100 + digit_val b * 10 + digit_val c) mod 65536 = dec [a; b; c].
Proof. exact status_exact. Qed.
Theorem C10_port_exact_or_too_big : forall ds l, all_digits ds -> ul_portno l <= 65535 ->
  let p := ul_portno (port_all l ds) in
  (dec_from (ul_portno l) ds <= 65535 -> p = dec_from (ul_portno l) ds) /\
  (65535 < dec_from (ul_portno l) ds -> 65535 < p).
Proof. exact port_acc_exact. Qed.
