(* C10: numeric values are exact or rejected, never silently wrapped: the arithmetic of every
   numeric position, for digit strings of every length; and, at parser level for ParseUIntVal /
   ParseExpiresVal / ParseCLenVal, that the value reported is the decimal value of exactly the
   digits of the field reported (any offset, leading white space, digit strings of every length).
   The Contact q parameter (QSpec.v): on a value written digits [ "." digits ] the number stored is
   exactly the value in thousandths when it lies between 0 and 1 with at most three decimals; otherwise
   q keeps its previous value and the parameter is flagged (too long / bad value / number too big).
   At parser level (NameAddrParam.v): in "<" uri ">;q=" value and "<" uri ">;expires=" digits the
   parameter dispatch receives exactly the value text, so q is the value in thousandths or flagged, and
   expires is the value of the digits saturated at 2^32-1 (C10_q_in_a_value, C10_expires_in_a_value).
   ParseCSeqVal (CSeqSpec.v, C10_cseq_value_is_its_digits): on *WSP digits 1*WSP method CRLF the
   number is the value of exactly the digits, rejected above 2^32-1 or with more than 10 digits; the
   method text and number, and all extents, are those of the text; any offset.
   The URI port (URIPortSpec.v, C10_uri_port_is_its_digits): on "sip:" host ":" digits ParseURI reports
   host and port with the extents of the text and PortNo = the value of exactly those digits, or
   rejects the URI when that exceeds 65535 (status: C08).  Every numeric position of the property is
   thereby proved at parser level for its basic textual shape. *)
From Sipsp Require Import Harness IP4 Numbers FLineSpec UIntSpec QSpec NameAddrSpec NameAddrParam HdrSpec CSeqSpec URIPortSpec NameAddrGen.
Theorem C10_uint_header_value_is_its_digits : forall p sp ds d x,
  Forall (fun b => is_sp b = true) sp -> all_digits ds -> ds <> [] -> is_sp d = false ->
  let i := nnat (length p) in
  let text := sp ++ ds ++ CR :: LF :: d :: x in
  if dec ds <=? MaxU32 then
    parse_uint (p ++ text) i uintb0
    = Done (i + nnat (length sp) + nnat (length ds) + 2) EOk
        (mkuintb (dec ds) (mkpf (i + nnat (length sp)) (nnat (length ds))) ClFIN 0)
  else exists o s', parse_uint (p ++ text) i uintb0 = Done o ENumTooBig s'.
Proof. exact uint_value_spec. Qed.
Theorem C10_content_length_value_is_its_digits : forall p sp ds d x,
  Forall (fun b => is_sp b = true) sp -> all_digits ds -> ds <> [] -> is_sp d = false ->
  let i := nnat (length p) in
  let text := sp ++ ds ++ CR :: LF :: d :: x in
  if (dec ds <=? MaxClenValue) && (nnat (length ds) <=? MaxCLenValueSize) then
    parse_clen (p ++ text) i uintb0
    = Done (i + nnat (length sp) + nnat (length ds) + 2) EOk
        (mkuintb (dec ds) (mkpf (i + nnat (length sp)) (nnat (length ds))) ClFIN 0)
  else exists o s', parse_clen (p ++ text) i uintb0 = Done o ENumTooBig s'.
Proof. exact clen_value_spec. Qed.
Theorem C10_cseq_value_is_its_digits : forall (p sp : list byte) d0 (r : list byte) b1 (sp1 : list byte) m0 (m : list byte) d x,
  spaces sp -> all_digits (d0 :: r) -> spaces (b1 :: sp1) -> tok (m0 :: m) -> is_sp d = false ->
  let ds := d0 :: r in let ws := b1 :: sp1 in let mt := m0 :: m in
  let i := nnat (length p) in
  let a := i + nnat (length sp) in
  let c := a + nnat (length ds) + nnat (length ws) in
  let e := c + nnat (length mt) in
  let text := sp ++ ds ++ ws ++ mt ++ CR :: LF :: d :: x in
  if (dec ds <=? MaxU32) && (nnat (length ds) <=? MaxCSeqNValueSize) then
    parse_cseq (p ++ text) i cseq0
    = Done (e + 2) EOk (mkcseq (dec ds) (get_method_no mt) (mkpf a (nnat (length ds))) (mkpf c (nnat (length mt))) (mkpf a (e - a)) CsFIN 0)
  else exists o s', parse_cseq (p ++ text) i cseq0 = Done o ENumTooBig s'.
Proof. exact cseq_value_spec. Qed.
(* "314159 INVITE" *)
Example C10_cseq_example :
  parse_cseq [51;49;52;49;53;57;32;73;78;86;73;84;69;13;10;88] 0 cseq0
  = Done 15 EOk (mkcseq 314159 (get_method_no [73;78;86;73;84;69]) (mkpf 0 6) (mkpf 7 6) (mkpf 0 13) CsFIN 0).
Proof. vm_compute. reflexivity. Qed.
Theorem C10_uri_port_is_its_digits : forall h0 (host ds : list byte), hostb h0 = true -> Forall (fun c => hostb c = true) host -> all_digits ds ->
  let hostt := h0 :: host in
  let raw := [115; 105; 112; 58] ++ hostt ++ 58 :: ds in
  let lh := nnat (length hostt) in
  parse_uri raw puri0 =
    if dec ds <=? 65535
    then Some (NoURIErr, nnat (length raw), mkpuri SIPuri (mkpf 0 4) pf0 pf0 (mkpf 4 lh) (mkpf (4 + lh + 1) (nnat (length ds))) pf0 pf0 (dec ds))
    else Some (ErrURIPort, nnat (length raw), mkpuri SIPuri (mkpf 0 4) (mkpf 4 lh) pf0 pf0 (mkpf (4 + lh + 1) (nnat (length ds))) pf0 pf0 0).
Proof. exact uri_port_spec. Qed.
(* "sip:h:5060" *)
Example C10_uri_port_example : parse_uri [115;105;112;58;104;58;53;48;54;48] puri0
  = Some (NoURIErr, 10, mkpuri SIPuri (mkpf 0 4) pf0 pf0 (mkpf 4 1) (mkpf 6 4) pf0 pf0 5060).
Proof. vm_compute. reflexivity. Qed.
Theorem C10_uint32_accumulation_exact_or_rejected : forall ds v, all_digits ds -> v <= MaxU32 ->
  acc32_all v ds = if dec_from v ds <=? MaxU32 then Some (dec_from v ds) else None.
Proof. exact acc32_all_exact. Qed.
Theorem C10_uint64_exact_or_saturated : forall ds v, all_digits ds -> v <= MaxU64 ->
  pUInt64_go ds v = if dec_from v ds <=? MaxU64 then (dec_from v ds, EOk) else (MaxU64, ENumTooBig).
Proof. exact pUInt64_exact. Qed.
Theorem C10_contact_expires_saturates : forall ds, all_digits ds -> expires_of ds = N.min (dec ds) MaxU32.
Proof. exact contact_expires_saturates. Qed.
Theorem C10_status_exact : forall a b c, is_digit a = true -> is_digit b = true -> is_digit c = true ->
  (digit_val a * 100 + digit_val b * 10 + digit_val c) mod 65536 = dec [a; b; c].
Proof. exact status_exact. Qed.
Theorem C10_port_exact_or_too_big : forall ds l, all_digits ds -> ul_portno l <= 65535 ->
  let p := ul_portno (port_all l ds) in
  (dec_from (ul_portno l) ds <= 65535 -> p = dec_from (ul_portno l) ds) /\
  (65535 < dec_from (ul_portno l) ds -> 65535 < p).
Proof. exact port_acc_exact. Qed.

(* ---- the q parameter ------------------------------------------------------------------------------------------------------------------- *)
Theorem C10_q_with_decimals : forall (us ds : list byte) s, all_digits us -> all_digits ds -> (length ds <= 3)%nat ->
  set_q (us ++ 46 :: ds) s =
    if MaxU64 <? dec us then q_flag ENumTooBig false s
    else if (1 <? dec us) || ((dec us =? 1) && (0 <? dec ds)) then q_flag EValBad false s
    else s <| fb_q := thousandths us ds |>.
Proof. exact set_q_dot. Qed.
Theorem C10_q_without_decimals : forall us s, all_digits us ->
  set_q us s = if MaxU64 <? dec us then q_flag ENumTooBig false s else if 1 <? dec us then q_flag EValBad false s else s <| fb_q := dec us * 1000 |>.
Proof. exact set_q_nodot. Qed.
Theorem C10_q_more_than_three_decimals_flagged : forall (us ds : list byte) s, all_digits us -> (4 <= length ds)%nat ->
  set_q (us ++ 46 :: ds) s = q_flag EValTooLong true s.
Proof. exact set_q_too_long. Qed.
Theorem C10_q_never_above_one : forall (us ds : list byte) s, all_digits us -> all_digits ds -> (length ds <= 3)%nat ->
  fb_q (set_q (us ++ 46 :: ds) s) = fb_q s \/ fb_q (set_q (us ++ 46 :: ds) s) <= 1000.
Proof. exact set_q_range. Qed.
Theorem C10_q_in_a_value : forall h (uri : list byte) u0 (us ds : list byte) x tail,
  Forall uchar uri -> all_digits (u0 :: us) -> all_digits ds -> (length ds <= 3)%nat -> is_sp x = false ->
  exists o s', parse_nameaddr h (60 :: uri ++ 62 :: 59 :: 113 :: 61 :: ((u0 :: us) ++ 46 :: ds) ++ CR :: LF :: x :: tail) 0 pfrom0 = Done o EOk s' /\
    fb_uri s' = mkpf 1 (nnat (length uri)) /\
    if (MaxU64 <? dec (u0 :: us)) || (1 <? dec (u0 :: us)) || ((dec (u0 :: us) =? 1) && (0 <? dec ds))
    then fb_q s' = 0 /\ fb_perr s' <> EOk
    else fb_q s' = thousandths (u0 :: us) ds /\ fb_perr s' = EOk.
Proof. exact spec_uri_q. Qed.
Theorem C10_expires_in_a_value : forall h (uri : list byte) d0 (ds : list byte) x tail,
  Forall uchar uri -> all_digits (d0 :: ds) -> is_sp x = false ->
  exists o s', parse_nameaddr h (60 :: uri ++ 62 :: 59 :: 101 :: 120 :: 112 :: 105 :: 114 :: 101 :: 115 :: 61 :: (d0 :: ds) ++ CR :: LF :: x :: tail) 0 pfrom0 = Done o EOk s' /\
    fb_hasexp s' = true /\ fb_expires s' = N.min (dec (d0 :: ds)) MaxU32 /\ fb_perr s' = EOk.
Proof. exact spec_uri_expires. Qed.
(* q=0.75 is 750 thousandths; q=1.5 is flagged and leaves q alone *)
Example C10_q_example : fb_q (set_q [48;46;55;53] pfrom0) = 750 /\ fb_q (set_q [49;46;53] pfrom0) = 0 /\ fb_perr (set_q [49;46;53] pfrom0) = EValBad.
Proof. vm_compute. repeat split; reflexivity. Qed.
(* through the general parameter part of a name-addr value (C09_bracketed_uri_and_parameters and the other general theorems): if the last
   parameter is expires = digits, the value reported is the decimal value saturated at 2^32-1; if no parameter is named expires, the
   value is the head's (0) *)
Theorem C10_expires_in_the_general_parameter_part : forall h p L t i b d g2 g3 V,
  t_val t = Some (g2, g3, V) -> eqb_nocase (t_name t) str_tag = false -> eqb_nocase (t_name t) str_expires = true -> all_digits V ->
  fb_expires (finW h d (t_apply p (i + nnat (length (its_bytes L))) t (its_state p i L b))) = N.min (dec V) MaxU32.
Proof.
  intros h p L t i b d g2 g3 V Hv H1 H2 Hd. rewrite (gen_expires_last h p L t i b d g2 g3 V Hv); [apply contact_expires_saturates; exact Hd|].
  unfold t_is_exp. rewrite Hv, H1, H2. reflexivity.
Qed.
Theorem C10_no_expires_parameter_no_value : forall h p L t i b d, Forall (fun t => t_is_exp t = false) (L ++ [t]) ->
  fb_expires (finW h d (t_apply p (i + nnat (length (its_bytes L))) t (its_state p i L b))) = fb_expires b.
Proof. exact gen_expires_none. Qed.
(* a parameter named q in the general parameter part hands exactly its value text to the q conversion described by C10_q_with_decimals,
   C10_q_without_decimals, C10_q_more_than_three_decimals_flagged *)
Theorem C10_q_in_the_general_parameter_part : forall p i t b g2 g3 V, t_val t = Some (g2, g3, V) ->
  eqb_nocase (t_name t) str_tag = false -> eqb_nocase (t_name t) str_expires = false -> eqb_nocase (t_name t) str_q = true ->
  t_apply p i t b = pclr (set_q V (W b (st_newparam p) (t_a i t) (t_e i t) (t_c i t) (t_d i t) (prm1 (fb_params b) (t_a i t)))).
Proof. exact t_apply_q. Qed.
Print Assumptions C10_expires_in_the_general_parameter_part.
Print Assumptions C10_q_with_decimals.
Print Assumptions C10_q_in_a_value.
