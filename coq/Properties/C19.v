(* C19: what the message signature depends on.  The three string signatures are parameters
   (Section variables of the model); everything else of GetMsgSig and String is modelled. *)
From Sipsp Require Import Harness Tables SigWalk.
Theorem C19_replies_yield_no_signature : forall cs ss vs m buf, msg_request m = false ->
  get_msg_sig cs ss vs m buf = Some (msgsig0, EEmpty).
Proof. exact reply_no_sig. Qed.
Theorem C19_at_most_eight_header_entries : forall cs ss vs m buf sig e, get_msg_sig cs ss vs m buf = Some (sig, e) ->
  nnat (length (sg_hdrsig sig)) <= go_NoSigHdrs.
Proof. exact sig_at_most_eight. Qed.
Theorem C19_small_header_array_same_signature_or_truncated : forall cs ss vs m buf hs1 hs2 sig e,
  hl_hdrs (hs_l (m_hs m)) = hs1 ++ hs2 ->
  forall m1, msg_request m1 = msg_request m -> msg_pv m1 = msg_pv m -> m_fl m1 = m_fl m ->
    hl_pflags (hs_l (m_hs m1)) = hl_pflags (hs_l (m_hs m)) -> hl_hdrs (hs_l (m_hs m1)) = hs1 ->
    hl_n (hs_l (m_hs m1)) = hl_n (hs_l (m_hs m)) -> nnat (length hs1) < hl_n (hs_l (m_hs m)) ->
    get_msg_sig cs ss vs m1 buf = Some (sig, e) ->
    e = ETrunc \/ get_msg_sig cs ss vs m buf = Some (sig, e).
Proof. exact small_array_same_or_truncated. Qed.
Theorem C19_text_rendering_shape : forall s, sg_method s < 16 -> Forall (fun h => h < 16) (sg_hdrsig s) ->
  ~ (sg_method s = MUndef /\ sg_hdrsig s = []) ->
  length (sig_string s) = (1 + length (sg_hdrsig s) + 17)%nat.
Proof. exact sig_string_shape. Qed.
