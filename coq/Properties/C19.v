(* C19: what the message signature depends on.  GetMsgSig and String are modelled relative to the three string
   signatures (Section variables, so that the theorems hold for any such functions); the functions themselves -
   getStrCharsSig, GetCallIDSig relative to the place of the IP address, GetViaBrSig - are modelled in StrSig.v and tied
   to the code by the correspondence run (also inside the message signature, which the model computes itself).
   PROVED: replies yield no signature; at most eight header entries; a header array too small for the
   message gives the same signature or the explicit truncated verdict; the text rendering has a fixed
   shape; the signature of a request is unchanged by inserting or removing a header of a type that
   is not fingerprinted - anywhere in the list, with any name and value (SigInv.v:
   C19_other_headers_do_not_matter) - and by repeating a header type after its first occurrence
   (C19_later_repetitions_do_not_matter).  Both are statements about the walk over any header list
   whose types are recorded in the parsed-header flags (`coherent`: the parser sets the flag of every
   header it stores; unused array slots are of the unfingerprinted type HdrNone) - which is proved
   for every message ParseSIPMsg produced, however it was fed (SigCoherent.v).
   What it is a function of (SigFun.v, C19_signature_is_a_function_of): request / method, the Call-ID
   text, the From tag text, the parsed-header flags, whether headers were dropped, and - per header, in
   order - its type, whether its name is one byte long (compact form) and, for Via, the branch signature
   of its value: two messages that agree on these get the same result (verdict included), whatever
   the buffers, offsets, other header values and names.  Chunking: C01 (chunked = one-shot objects).
   Character classes (StrSigClass.v, C19_string_signature_depends_only_on_character_classes): getStrCharsSig - for any
   skipped region - gives the same result on two texts whose bytes have the same classes position by position (digit,
   hex letter a-f, hex letter A-F, other lower case, other upper case, each reserved character as itself, anything else);
   so do the From-tag signature and the Call-ID signature for a given place of the IP address.
   The Via branch signature is that of the first parameter named branch (C19_via_branch_signature; with other name=value parameters in front:
   C19_via_branch_signature_after_other_parameters) and depends on the classes of its text after the RFC 3261 prefix.
   PARTIAL: where ContainsIP6 finds the address (supplied by the code in the correspondence run; ContainsIP4 is modelled:
   C20); other shapes of the Via text (valueless parameters in front, white space, quoted values): model + correspondence + oracle. *)
From Sipsp Require Import Harness Tables SigWalk SigInv SigCoherent SigFun StrSig StrSigClass TokSpec.
Theorem C19_replies_yield_no_signature : forall cs ss vs m buf, msg_request m = false ->
  get_msg_sig cs ss vs m buf = Some (msgsig0, EEmpty).
Proof. exact reply_no_sig. Qed.
Theorem C19_at_most_eight_header_entries : forall cs ss vs m buf sig e, get_msg_sig cs ss vs m buf = Some (sig, e) ->
  nnat (length (sg_hdrsig sig)) <= go_NoSigHdrs.
Proof. exact sig_at_most_eight. Qed.
Theorem C19_small_header_array_same_signature_or_truncated : forall cs ss vs m buf hs1 hs2 sig e,
  hl_hdrs (hs_l (m_hs m)) = hs1 ++ hs2 ->
  forall m1, msg_request m1 = msg_request m -> msg_pv m1 = msg_pv m -> m_fl m1 = m_fl m ->
    hl_pflags (hs_l (m_hs m1)) = hl_pflags (hs_l (m_hs m)) -> hl_hdrs (hs_l (m_hs m1)) = hs1 ->
    hl_n (hs_l (m_hs m1)) = hl_n (hs_l (m_hs m)) -> nnat (length hs1) < hl_n (hs_l (m_hs m)) ->
    get_msg_sig cs ss vs m1 buf = Some (sig, e) ->
    e = ETrunc \/ get_msg_sig cs ss vs m buf = Some (sig, e).
Proof. exact small_array_same_or_truncated. Qed.
Theorem C19_text_rendering_shape : forall s, sg_method s < 16 -> Forall (fun h => h < 16) (sg_hdrsig s) ->
  ~ (sg_method s = MUndef /\ sg_hdrsig s = []) ->
  length (sig_string s) = (1 + length (sg_hdrsig s) + 17)%nat.
Proof. exact sig_string_shape. Qed.

(* ---- invariances ------------------------------------------------------------------------------------------------------------------------------------------ *)
Theorem C19_other_headers_do_not_matter : forall cs ss vs m m' buf h hs1 hs2,
  same_fingerprint_sources m m' -> neutral (h_type h) ->
  hl_hdrs (hs_l (m_hs m)) = hs1 ++ hs2 -> hl_hdrs (hs_l (m_hs m')) = hs1 ++ h :: hs2 ->
  coherent (hl_pflags (hs_l (m_hs m))) (hs1 ++ hs2) ->
  gsig_sig (get_msg_sig cs ss vs m' buf) = gsig_sig (get_msg_sig cs ss vs m buf).
Proof. exact sig_ignores_other_headers. Qed.
Theorem C19_later_repetitions_do_not_matter : forall cs ss vs m m' buf h hs1 hs2,
  same_fingerprint_sources m m' -> In (h_type h) (map h_type hs1) -> h_type h < 16 ->
  hl_hdrs (hs_l (m_hs m)) = hs1 ++ hs2 -> hl_hdrs (hs_l (m_hs m')) = hs1 ++ h :: hs2 ->
  gsig_sig (get_msg_sig cs ss vs m' buf) = gsig_sig (get_msg_sig cs ss vs m buf).
Proof. exact sig_ignores_later_repetitions. Qed.
(* the coherence premise holds for every message the parser produced: fed in any number of calls on
   growing prefixes (feeds), from a fresh object of any header / contact capacity, once the header block
   is complete.  So for parsed messages the first invariance is unconditional. *)
Theorem C19_parsed_messages_are_coherent : forall flags B offs bl n cv o s o' e m,
  testbit flags bSIPMsgNoMoreData = false -> feeds flags B offs (msg_init bl (repeat hdr0 n) cv) o s ->
  parse_sipmsg flags B o s = Done o' e m -> m_state m = MFIN \/ m_state m = MNoCLen ->
  coherent (hl_pflags (hs_l (m_hs m))) (hl_hdrs (hs_l (m_hs m))).
Proof. exact message_coherent_fed. Qed.
Theorem C19_other_headers_do_not_matter_for_parsed_messages : forall cs ss vs flags B offs bl n cv o s o' e m m' sbuf h hs1 hs2,
  testbit flags bSIPMsgNoMoreData = false -> feeds flags B offs (msg_init bl (repeat hdr0 n) cv) o s ->
  parse_sipmsg flags B o s = Done o' e m -> m_state m = MFIN \/ m_state m = MNoCLen ->
  same_fingerprint_sources m m' -> neutral (h_type h) ->
  hl_hdrs (hs_l (m_hs m)) = hs1 ++ hs2 -> hl_hdrs (hs_l (m_hs m')) = hs1 ++ h :: hs2 ->
  gsig_sig (get_msg_sig cs ss vs m' sbuf) = gsig_sig (get_msg_sig cs ss vs m sbuf).
Proof. exact parsed_sig_ignores_other_headers. Qed.
(* the premises are satisfiable: the message of C05_example, fed in one call, ends in MFIN *)
Example C19_parsed_example :
  match parse_sipmsg 0 [73;78;86;73;84;69;32;115;105;112;58;97;32;83;73;80;47;50;46;48;13;10;86;105;97;58;32;120;13;10;70;114;111;109;58;32;60;115;105;112;58;98;62;59;116;97;103;61;49;13;10;67;97;108;108;45;73;68;58;32;99;13;10;13;10] 0 (msg_init 0 (repeat hdr0 5) (repeat pfrom0 2)) with
  | Done _ EOk m => m_state m = MFIN /\ map h_type (hl_hdrs (hs_l (m_hs m))) = [HdrVia; HdrFrom; HdrCallID; HdrNone; HdrNone]
  | _ => False
  end.
Proof. vm_compute. split; reflexivity. Qed.
(* ---- what the signature is a function of ------------------------------------------------------------------------------------------- *)
Theorem C19_signature_is_a_function_of : forall cs ss vs m buf m' buf',
  same_sig_inputs vs m buf m' buf' -> get_msg_sig cs ss vs m buf = get_msg_sig cs ss vs m' buf'.
Proof. exact sig_function_of_inputs. Qed.
Theorem C19_signature_inputs : forall vs m buf m' buf', same_sig_inputs vs m buf m' buf' <->
  msg_request m = msg_request m' /\ fl_methodno (m_fl m) = fl_methodno (m_fl m') /\
  bget buf (ci_callid (pv_callid (msg_pv m))) = bget buf' (ci_callid (pv_callid (msg_pv m'))) /\
  bget buf (fb_tag (pv_from (msg_pv m))) = bget buf' (fb_tag (pv_from (msg_pv m'))) /\
  hl_pflags (hs_l (m_hs m)) = hl_pflags (hs_l (m_hs m')) /\
  map (hkey vs buf) (hl_hdrs (hs_l (m_hs m))) = map (hkey vs buf') (hl_hdrs (hs_l (m_hs m'))) /\
  (hl_cap (hs_l (m_hs m)) <? hl_n (hs_l (m_hs m))) = (hl_cap (hs_l (m_hs m')) <? hl_n (hs_l (m_hs m'))).
Proof. intros. reflexivity. Qed.
Theorem C19_header_key : forall vs buf h, hkey vs buf h =
  (h_type h, pl (h_name h) =? 1, if h_type h =? HdrVia then Some (option_map vs (bget buf (h_val h))) else None).
Proof. intros. reflexivity. Qed.
(* which types are "other": exactly those without a signature id (every type, incl. out-of-table ones) *)
Theorem C19_unfingerprinted_types_have_no_signature_id : forall h, neutral (h_type h) -> snd (hdr_sig_id h) <> EOk.
Proof. exact neutral_id. Qed.
Example C19_neutral_examples : neutral HdrNone /\ neutral HdrOther /\ neutral HdrExpires /\ ~ neutral HdrVia /\ ~ neutral HdrFrom.
Proof. unfold neutral. repeat split; try (vm_compute; reflexivity); vm_compute; discriminate. Qed.
(* ---- the string signatures depend only on character classes --------------------------------------------------------------------------------- *)
Theorem C19_string_signature_depends_only_on_character_classes : forall s s' skip_offs skip_len,
  map bclass s = map bclass s' -> str_chars_sig s skip_offs skip_len = str_chars_sig s' skip_offs skip_len.
Proof. exact str_chars_sig_classes. Qed.
Theorem C19_from_tag_signature_classes : forall s s', map bclass s = map bclass s' -> str_sig0 s = str_sig0 s'.
Proof. exact from_tag_sig_classes. Qed.
Theorem C19_callid_signature_classes : forall has_ip ip_offs ip_len s s', map bclass s = map bclass s' ->
  callid_sig_at has_ip ip_offs ip_len s = callid_sig_at has_ip ip_offs ip_len s'.
Proof. exact callid_sig_classes. Qed.
Theorem C19_character_class_means : forall c,
  bclass c = (if negb (res_flag c =? 0) then KReserved c
              else if (48 <=? c) && (c <=? 57) then KDigit
              else if (97 <=? c) && (c <=? 102) then KHexLower
              else if (65 <=? c) && (c <=? 70) then KHexUpper
              else if (97 <=? c) && (c <=? 122) then KLower
              else if (65 <=? c) && (c <=? 90) then KUpper
              else KNone) /\
  (res_flag c <> 0 <-> In c [64; 46; 58; 45; 95; 42; 43; 47; 61; 124]).
Proof.
  intros c. split; [reflexivity|]. unfold res_flag. split.
  - intros H. repeat match type of H with context [if ?a =? ?b then _ else _] => let E := fresh "E" in destruct (a =? b) eqn:E; [apply N.eqb_eq in E; subst; cbn; tauto|] end. congruence.
  - intros H. cbn [In] in H. repeat destruct H as [<-|H]; try discriminate. contradiction.
Qed.
(* the Via branch signature is that of the first parameter named branch: the text after the RFC 3261 prefix if it has one, its
   classes decide (host-part without ";", the value made of plain parameter bytes, ending the Via text or followed by a parameter) *)
Theorem C19_via_branch_signature : forall (host : list byte) v0 value,
  Forall (fun d => (d =? 59) = false) host -> plain viabr_flags v0 -> Forall (plain viabr_flags) value ->
  viabr_sig_len (host ++ (59 : byte) :: str_branch ++ (61 : byte) :: v0 :: value) = Some (branch_res (v0 :: value)) /\
  forall c tail, plain viabr_flags c ->
    viabr_sig_len (host ++ (59 : byte) :: str_branch ++ (61 : byte) :: (v0 :: value) ++ (59 : byte) :: c :: tail) = Some (branch_res (v0 :: value)).
Proof. intros host v0 value Hh Hv0 Hval. split; [apply viabr_branch_last; assumption|intros c tail Hc; apply viabr_branch_then_more; assumption]. Qed.
(* with other parameters name=value in front of the branch: they are stepped over, the first parameter named branch decides *)
Theorem C19_via_branch_signature_after_other_parameters : forall (host : list byte) P v0 value rest,
  Forall (fun d => (d =? 59) = false) host -> Forall vp_ok P -> plain viabr_flags v0 -> Forall (plain viabr_flags) value ->
  (rest = [] \/ exists c tail, rest = (59 : byte) :: c :: tail /\ plain viabr_flags c) ->
  viabr_sig_len (host ++ (59 : byte) :: vps_text P ++ br_text v0 value ++ rest) = Some (branch_res (v0 :: value)).
Proof. exact viabr_branch_after_params. Qed.
Theorem C19_via_parameters_mean : forall q P v0 value,
  (vp_ok q <-> plain viabr_flags (vp_n0 q) /\ Forall (plain viabr_flags) (vp_name q) /\ plain viabr_flags (vp_v0 q) /\ Forall (plain viabr_flags) (vp_value q) /\
               eqb_nocase (vp_n0 q :: vp_name q) str_branch = false) /\
  vps_text (q :: P) = (vp_n0 q :: vp_name q) ++ (61 : byte) :: (vp_v0 q :: vp_value q) ++ [(59 : byte)] ++ vps_text P /\ vps_text [] = [] /\
  br_text v0 value = str_branch ++ (61 : byte) :: v0 :: value.
Proof. intros. split; [reflexivity|]. split; [cbn [vps_text flat_map]; fold (vps_text P); unfold vp_text; repeat (rewrite <- ?app_assoc; cbn [app]); reflexivity|]. split; reflexivity. Qed.
Example C19_via_example : (* "h;rport=1;branch=z9hG4bKa1b2c3d4;x" *)
  viabr_sig_len ([104] ++ (59 : byte) :: vps_text [mkvprm 114 [112;111;114;116] 49 []] ++ br_text 122 [57;104;71;52;98;75;97;49;98;50;99;51;100;52] ++ [59;120]) = Some (8192, 8) /\
  vp_ok (mkvprm 114 [112;111;114;116] 49 []).
Proof. split; [vm_compute; reflexivity|]. unfold vp_ok. cbn [vp_n0 vp_name vp_v0 vp_value]. repeat split; try (vm_compute; reflexivity); repeat constructor; vm_compute; repeat split; reflexivity. Qed.
Theorem C19_via_branch_result_means : forall val,
  branch_res val = (if (7 <? nnat (length val)) && eqb_nocase (firstn 7 val) str_brprefix then (str_sig0 (skipn 7 val), nnat (length val) - 7)
                    else (str_sig0 val, nnat (length val))) /\
  str_branch = [98; 114; 97; 110; 99; 104] /\ str_brprefix = [122; 57; 104; 71; 52; 98; 75].
Proof. intros. repeat split; reflexivity. Qed.
Theorem C19_via_branch_signature_classes : forall val val', firstn 7 val = firstn 7 val' ->
  map bclass (skipn 7 val) = map bclass (skipn 7 val') -> map bclass val = map bclass val' -> branch_res val = branch_res val'.
Proof. exact branch_res_classes. Qed.
(* satisfiable and evaluated: the hex / block guess of two texts with the same classes *)
Example C19_classes_example :
  map bclass [97;49;98;50;99;51;100;52;45;101;53] = map bclass [102;57;101;56;100;55;99;54;45;98;48] /\
  str_chars_sig [97;49;98;50;99;51;100;52;45;101;53] 0 0 = (8192 + 32768 + 64, 0) /\
  str_chars_sig [102;57;101;56;100;55;99;54;45;98;48] 0 0 = (8192 + 32768 + 64, 0) /\
  viabr_sig_len [83;59;98;114;97;110;99;104;61;122;57;104;71;52;98;75;97;49;98;50;99;51;100;52] = Some (8192, 8).
Proof. repeat split; vm_compute; reflexivity. Qed.
Print Assumptions C19_string_signature_depends_only_on_character_classes.
Print Assumptions C19_callid_signature_classes.
Print Assumptions C19_via_branch_signature.
Print Assumptions C19_via_branch_signature_after_other_parameters.
Print Assumptions C19_other_headers_do_not_matter.
Print Assumptions C19_other_headers_do_not_matter_for_parsed_messages.
