(* C19: what the message signature depends on.  The three string signatures (Call-ID, From tag, Via
   branch character classes) are parameters (Section variables of the model); everything else of
   GetMsgSig and String is modelled.
   PROVED: replies yield no signature; at most eight header entries; a header array too small for the
   message gives the same signature or the explicit truncated verdict; the text rendering has a fixed
   shape; the signature of a request is unchanged by inserting or removing a header of a type that
   is not fingerprinted - anywhere in the list, with any name and value (SigInv.v:
   C19_other_headers_do_not_matter) - and by repeating a header type after its first occurrence
   (C19_later_repetitions_do_not_matter).  Both are statements about the walk over any header list
   whose types are recorded in the parsed-header flags (`coherent`: the parser sets the flag of every
   header it stores; unused array slots are of the unfingerprinted type HdrNone) - which is proved
   for every message ParseSIPMsg produced, however it was fed (SigCoherent.v).
   What it is a function of (SigFun.v, C19_signature_is_a_function_of): request / method, the Call-ID
   text, the From tag text, the parsed-header flags, whether headers were dropped, and - per header, in
   order - its type, whether its name is one byte long (compact form) and, for Via, the branch signature
   of its value: two messages that agree on these get the same result (verdict included), whatever
   the buffers, offsets, other header values and names.  Chunking: C01 (chunked = one-shot objects).
   PARTIAL: the character-class strings themselves (parameters of the model): metamorphic oracle +
   a reference of the header part. *)
From Sipsp Require Import Harness Tables SigWalk SigInv SigCoherent SigFun.
Theorem C19_replies_yield_no_signature : forall cs ss vs m buf, msg_request m = false ->
  get_msg_sig cs ss vs m buf = Some (msgsig0, EEmpty).
Proof. exact reply_no_sig. Qed.
Theorem C19_at_most_eight_header_entries : forall cs ss vs m buf sig e, get_msg_sig cs ss vs m buf = Some (sig, e) ->
  nnat (length (sg_hdrsig sig)) <= go_NoSigHdrs.
Proof. exact sig_at_most_eight. Qed.
Theorem C19_small_header_array_same_signature_or_truncated : forall cs ss vs m buf hs1 hs2 sig e,
  hl_hdrs (hs_l (m_hs m)) = hs1 ++ hs2 ->
  forall m1, msg_request m1 = msg_request m -> msg_pv m1 = msg_pv m -> m_fl m1 = m_fl m ->
    hl_pflags (hs_l (m_hs m1)) = hl_pflags (hs_l (m_hs m)) -> hl_hdrs (hs_l (m_hs m1)) = hs1 ->
    hl_n (hs_l (m_hs m1)) = hl_n (hs_l (m_hs m)) -> nnat (length hs1) < hl_n (hs_l (m_hs m)) ->
    get_msg_sig cs ss vs m1 buf = Some (sig, e) ->
    e = ETrunc \/ get_msg_sig cs ss vs m buf = Some (sig, e).
Proof. exact small_array_same_or_truncated. Qed.
Theorem C19_text_rendering_shape : forall s, sg_method s < 16 -> Forall (fun h => h < 16) (sg_hdrsig s) ->
  ~ (sg_method s = MUndef /\ sg_hdrsig s = []) ->
  length (sig_string s) = (1 + length (sg_hdrsig s) + 17)%nat.
Proof. exact sig_string_shape. Qed.

(* ---- invariances ------------------------------------------------------------------------------------------------------------------------------------------ *)
Theorem C19_other_headers_do_not_matter : forall cs ss vs m m' buf h hs1 hs2,
  same_fingerprint_sources m m' -> neutral (h_type h) ->
  hl_hdrs (hs_l (m_hs m)) = hs1 ++ hs2 -> hl_hdrs (hs_l (m_hs m')) = hs1 ++ h :: hs2 ->
  coherent (hl_pflags (hs_l (m_hs m))) (hs1 ++ hs2) ->
  gsig_sig (get_msg_sig cs ss vs m' buf) = gsig_sig (get_msg_sig cs ss vs m buf).
Proof. exact sig_ignores_other_headers. Qed.
Theorem C19_later_repetitions_do_not_matter : forall cs ss vs m m' buf h hs1 hs2,
  same_fingerprint_sources m m' -> In (h_type h) (map h_type hs1) -> h_type h < 16 ->
  hl_hdrs (hs_l (m_hs m)) = hs1 ++ hs2 -> hl_hdrs (hs_l (m_hs m')) = hs1 ++ h :: hs2 ->
  gsig_sig (get_msg_sig cs ss vs m' buf) = gsig_sig (get_msg_sig cs ss vs m buf).
Proof. exact sig_ignores_later_repetitions. Qed.
(* the coherence premise holds for every message the parser produced: fed in any number of calls on
   growing prefixes (feeds), from a fresh object of any header / contact capacity, once the header block
   is complete.  So for parsed messages the first invariance is unconditional. *)
Theorem C19_parsed_messages_are_coherent : forall flags B offs bl n cv o s o' e m,
  testbit flags bSIPMsgNoMoreData = false -> feeds flags B offs (msg_init bl (repeat hdr0 n) cv) o s ->
  parse_sipmsg flags B o s = Done o' e m -> m_state m = MFIN \/ m_state m = MNoCLen ->
  coherent (hl_pflags (hs_l (m_hs m))) (hl_hdrs (hs_l (m_hs m))).
Proof. exact message_coherent_fed. Qed.
Theorem C19_other_headers_do_not_matter_for_parsed_messages : forall cs ss vs flags B offs bl n cv o s o' e m m' sbuf h hs1 hs2,
  testbit flags bSIPMsgNoMoreData = false -> feeds flags B offs (msg_init bl (repeat hdr0 n) cv) o s ->
  parse_sipmsg flags B o s = Done o' e m -> m_state m = MFIN \/ m_state m = MNoCLen ->
  same_fingerprint_sources m m' -> neutral (h_type h) ->
  hl_hdrs (hs_l (m_hs m)) = hs1 ++ hs2 -> hl_hdrs (hs_l (m_hs m')) = hs1 ++ h :: hs2 ->
  gsig_sig (get_msg_sig cs ss vs m' sbuf) = gsig_sig (get_msg_sig cs ss vs m sbuf).
Proof. exact parsed_sig_ignores_other_headers. Qed.
(* the premises are satisfiable: the message of C05_example, fed in one call, ends in MFIN *)
Example C19_parsed_example :
  match parse_sipmsg 0 [73;78;86;73;84;69;32;115;105;112;58;97;32;83;73;80;47;50;46;48;13;10;86;105;97;58;32;120;13;10;70;114;111;109;58;32;60;115;105;112;58;98;62;59;116;97;103;61;49;13;10;67;97;108;108;45;73;68;58;32;99;13;10;13;10] 0 (msg_init 0 (repeat hdr0 5) (repeat pfrom0 2)) with
  | Done _ EOk m => m_state m = MFIN /\ map h_type (hl_hdrs (hs_l (m_hs m))) = [HdrVia; HdrFrom; HdrCallID; HdrNone; HdrNone]
  | _ => False
  end.
Proof. vm_compute. split; reflexivity. Qed.
(* ---- what the signature is a function of ------------------------------------------------------------------------------------------- *)
Theorem C19_signature_is_a_function_of : forall cs ss vs m buf m' buf',
  same_sig_inputs vs m buf m' buf' -> get_msg_sig cs ss vs m buf = get_msg_sig cs ss vs m' buf'.
Proof. exact sig_function_of_inputs. Qed.
Theorem C19_signature_inputs : forall vs m buf m' buf', same_sig_inputs vs m buf m' buf' <->
  msg_request m = msg_request m' /\ fl_methodno (m_fl m) = fl_methodno (m_fl m') /\
  bget buf (ci_callid (pv_callid (msg_pv m))) = bget buf' (ci_callid (pv_callid (msg_pv m'))) /\
  bget buf (fb_tag (pv_from (msg_pv m))) = bget buf' (fb_tag (pv_from (msg_pv m'))) /\
  hl_pflags (hs_l (m_hs m)) = hl_pflags (hs_l (m_hs m')) /\
  map (hkey vs buf) (hl_hdrs (hs_l (m_hs m))) = map (hkey vs buf') (hl_hdrs (hs_l (m_hs m'))) /\
  (hl_cap (hs_l (m_hs m)) <? hl_n (hs_l (m_hs m))) = (hl_cap (hs_l (m_hs m')) <? hl_n (hs_l (m_hs m'))).
Proof. intros. reflexivity. Qed.
Theorem C19_header_key : forall vs buf h, hkey vs buf h =
  (h_type h, pl (h_name h) =? 1, if h_type h =? HdrVia then Some (option_map vs (bget buf (h_val h))) else None).
Proof. intros. reflexivity. Qed.
(* which types are "other": exactly those without a signature id (every type, incl. out-of-table ones) *)
Theorem C19_unfingerprinted_types_have_no_signature_id : forall h, neutral (h_type h) -> snd (hdr_sig_id h) <> EOk.
Proof. exact neutral_id. Qed.
Example C19_neutral_examples : neutral HdrNone /\ neutral HdrOther /\ neutral HdrExpires /\ ~ neutral HdrVia /\ ~ neutral HdrFrom.
Proof. unfold neutral. repeat split; try (vm_compute; reflexivity); vm_compute; discriminate. Qed.
Print Assumptions C19_other_headers_do_not_matter.
Print Assumptions C19_other_headers_do_not_matter_for_parsed_messages.
