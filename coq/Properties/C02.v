(* C02: every exported incremental sub-parser resumes transparently.
   The schedule theorem is parser independent (first theorem); per parser it needs the one-step
   property ExtOK, proved here for: SkipQuoted, ParseCallIDVal, ParseUIntVal / ParseExpiresVal,
   ParseCLenVal, ParseCSeqVal, ParseNameAddrPVal for every header kind (= ParseFromVal,
   ParseOneContact), ParseOnePAI, ParseAllContactValues, ParseAllPAIValues, ParseFLine, ParseHdrLine (any header, with all eight
   header specific value parsers under it), ParseHeaders, ParseTokenParam for
   every flag set without POptInputEndF (with that flag every prefix is by definition the whole
   input).  For each: every buffer, start offset, object state (so also resumed states) and chunk
   schedule.  PARTIAL: not yet discharged for
   ParseAllURIParams, ParseAllURIHdrs (correspondence run + resume oracle only). *)
From Sipsp Require Import Harness Resume Ext ExtLeaf ExtCSeq ExtTok ExtNameAddr ExtNested ExtLists ExtFLine ExtHdrLine ExtHeaders ExtMsg.
Theorem C02_every_schedule_from_one_step :
  forall (S : Type) (P : list byte -> N -> S -> res S) (obs : S -> list Z) (Inv : N -> S -> Prop),
  ExtOK P obs Inv ->
  forall b k s0 cuts, Inv k s0 -> k <= nnat (length b) -> sorted_from (N.to_nat k) cuts ->
    agrees P obs b cuts (chunked_trace P b cuts k s0) k s0.
Proof. exact (fun S P obs Inv => resume_schedule P obs Inv). Qed.

Theorem C02_skip_quoted : forall b k cuts, k <= nnat (length b) -> sorted_from (N.to_nat k) cuts ->
  agrees (fun b o (_ : unit) => skip_quoted b o) (fun _ : unit => []) b cuts (chunked_trace (fun b o (_ : unit) => skip_quoted b o) b cuts k tt) k tt.
Proof. exact (fun b k cuts => resume_schedule _ _ _ quoted_ExtOK b k tt cuts I). Qed.

Theorem C02_callid : forall b k s0 cuts, k <= nnat (length b) -> sorted_from (N.to_nat k) cuts ->
  agrees parse_callid obs_callid b cuts (chunked_trace parse_callid b cuts k s0) k s0.
Proof. exact (fun b k s0 cuts => resume_schedule _ _ _ callid_ExtOK b k s0 cuts I). Qed.

Theorem C02_uint_expires : forall b k s0 cuts, k <= nnat (length b) -> sorted_from (N.to_nat k) cuts ->
  agrees parse_uint obs_uint b cuts (chunked_trace parse_uint b cuts k s0) k s0.
Proof. exact (fun b k s0 cuts => resume_schedule _ _ _ uint_ExtOK b k s0 cuts I). Qed.

Theorem C02_content_length : forall b k s0 cuts, k <= nnat (length b) -> sorted_from (N.to_nat k) cuts ->
  agrees parse_clen obs_uint b cuts (chunked_trace parse_clen b cuts k s0) k s0.
Proof. exact (fun b k s0 cuts => resume_schedule _ _ _ clen_ExtOK b k s0 cuts I). Qed.

Theorem C02_cseq : forall b k s0 cuts, k <= nnat (length b) -> sorted_from (N.to_nat k) cuts ->
  agrees parse_cseq obs_cseq b cuts (chunked_trace parse_cseq b cuts k s0) k s0.
Proof. exact (fun b k s0 cuts => resume_schedule _ _ _ cseq_ExtOK b k s0 cuts I). Qed.

Theorem C02_nameaddr : forall h, forall b k s0 cuts, k <= nnat (length b) -> sorted_from (N.to_nat k) cuts ->
  agrees (parse_nameaddr h) obs_pfrom b cuts (chunked_trace (parse_nameaddr h) b cuts k s0) k s0.
Proof. exact (fun h b k s0 cuts => resume_schedule _ _ _ (nameaddr_ExtOK h) b k s0 cuts I). Qed.

Theorem C02_one_pai : forall b k s0 cuts, k <= nnat (length b) -> sorted_from (N.to_nat k) cuts ->
  agrees parse_one_pai obs_pfrom b cuts (chunked_trace parse_one_pai b cuts k s0) k s0.
Proof. exact (fun b k s0 cuts => resume_schedule _ _ _ onepai_ExtOK b k s0 cuts I). Qed.

Theorem C02_all_contacts : forall b k s0 cuts, k <= nnat (length b) -> sorted_from (N.to_nat k) cuts ->
  agrees parse_all_contacts obs_contacts b cuts (chunked_trace parse_all_contacts b cuts k s0) k s0.
Proof. exact (fun b k s0 cuts => resume_schedule _ _ _ contacts_ExtOK b k s0 cuts I). Qed.

Theorem C02_all_pais : forall b k s0 cuts, k <= nnat (length b) -> sorted_from (N.to_nat k) cuts ->
  agrees parse_all_pais obs_pais b cuts (chunked_trace parse_all_pais b cuts k s0) k s0.
Proof. exact (fun b k s0 cuts => resume_schedule _ _ _ pais_ExtOK b k s0 cuts I). Qed.

Theorem C02_token_param : forall flags (Hie : tf_ie (tp_decode flags) = false), forall b k s0 cuts, k <= nnat (length b) -> sorted_from (N.to_nat k) cuts ->
  agrees (parse_tokparam flags) obs_tokparam b cuts (chunked_trace (parse_tokparam flags) b cuts k s0) k s0.
Proof. exact (fun flags Hie b k s0 cuts => resume_schedule _ _ _ (tokparam_ExtOK flags Hie) b k s0 cuts I). Qed.

Theorem C02_first_line : forall b k s0 cuts, k <= nnat (length b) -> sorted_from (N.to_nat k) cuts ->
  agrees parse_fline obs_fline b cuts (chunked_trace parse_fline b cuts k s0) k s0.
Proof. exact (fun b k s0 cuts => resume_schedule _ _ _ fline_ExtOK b k s0 cuts I). Qed.

Theorem C02_header_line : forall b k s0 cuts, k <= nnat (length b) -> sorted_from (N.to_nat k) cuts ->
  agrees parse_hdrline (fun x => obs_hdr (hx_h x) ++ obs_opt_phvals (hx_pv x)) b cuts (chunked_trace parse_hdrline b cuts k s0) k s0.
Proof. exact (fun b k s0 cuts => resume_schedule _ _ _ hdrline_ExtOK b k s0 cuts I). Qed.

Theorem C02_header_block : forall b k s0 cuts, k <= nnat (length b) -> sorted_from (N.to_nat k) cuts ->
  agrees parse_headers (fun x => obs_hdrlst (hs_l x) ++ obs_opt_phvals (hs_pv x)) b cuts (chunked_trace parse_headers b cuts k s0) k s0.
Proof. exact (fun b k s0 cuts => resume_schedule _ _ _ headers_ExtOK b k s0 cuts I). Qed.
