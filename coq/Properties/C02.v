(* C02: every exported incremental sub-parser resumes transparently.
   The schedule theorem is parser independent; per parser it needs the one-step
   property ExtOK (Proofs/Resume.v).  PARTIAL: see the instances below. *)
From Sipsp Require Import Harness Resume.
Theorem C02_every_schedule_from_one_step :
  forall (S : Type) (P : list byte -> N -> S -> res S) (obs : S -> list Z) (Inv : N -> S -> Prop),
  ExtOK P obs Inv ->
  forall b k s0 cuts, Inv k s0 -> k <= nnat (length b) -> sorted_from (N.to_nat k) cuts ->
    agrees P obs b cuts (chunked_trace P b cuts k s0) k s0.
Proof. exact (fun S P obs Inv => resume_schedule P obs Inv). Qed.
