(* C02: every exported incremental sub-parser resumes transparently.
   The schedule theorem is parser independent (first theorem); per parser it needs the
   one-step property ExtOK.  PARTIAL: ExtOK is proved for SkipQuoted, ParseCallIDVal and
   ParseUIntVal / ParseExpiresVal (theorems 2-4: every buffer, start offset, object state and
   chunk schedule); for the other twelve entry points the schedule theorem is conditional and
   the correspondence run + the resume oracle carry the property. *)
From Sipsp Require Import Harness Resume Ext ExtLeaf.
Theorem C02_every_schedule_from_one_step :
  forall (S : Type) (P : list byte -> N -> S -> res S) (obs : S -> list Z) (Inv : N -> S -> Prop),
  ExtOK P obs Inv ->
  forall b k s0 cuts, Inv k s0 -> k <= nnat (length b) -> sorted_from (N.to_nat k) cuts ->
    agrees P obs b cuts (chunked_trace P b cuts k s0) k s0.
Proof. exact (fun S P obs Inv => resume_schedule P obs Inv). Qed.

Theorem C02_skip_quoted : forall b k cuts, k <= nnat (length b) -> sorted_from (N.to_nat k) cuts ->
  agrees (fun b o (_ : unit) => skip_quoted b o) (fun _ => []) b cuts
         (chunked_trace (fun b o (_ : unit) => skip_quoted b o) b cuts k tt) k tt.
Proof. exact (fun b k cuts => resume_schedule _ _ _ quoted_ExtOK b k tt cuts I). Qed.

Theorem C02_callid : forall b k s0 cuts, k <= nnat (length b) -> sorted_from (N.to_nat k) cuts ->
  agrees parse_callid obs_callid b cuts (chunked_trace parse_callid b cuts k s0) k s0.
Proof. exact (fun b k s0 cuts => resume_schedule _ _ _ callid_ExtOK b k s0 cuts I). Qed.

Theorem C02_uint_expires : forall b k s0 cuts, k <= nnat (length b) -> sorted_from (N.to_nat k) cuts ->
  agrees parse_uint obs_uint b cuts (chunked_trace parse_uint b cuts k s0) k s0.
Proof. exact (fun b k s0 cuts => resume_schedule _ _ _ uint_ExtOK b k s0 cuts I). Qed.
