(* C02: every exported incremental sub-parser resumes transparently.
   The schedule theorem is parser independent (first theorem); per parser it needs the one-step
   property ExtOK, proved here for: SkipQuoted, ParseCallIDVal, ParseUIntVal / ParseExpiresVal,
   ParseCLenVal, ParseCSeqVal, ParseNameAddrPVal for every header kind (= ParseFromVal,
   ParseOneContact), ParseOnePAI, ParseAllContactValues, ParseAllPAIValues, ParseFLine, ParseHdrLine (any header, with all eight
   header specific value parsers under it), ParseHeaders, ParseTokenParam for
   every flag set without POptInputEndF (with that flag every prefix is by definition the whole
   input), ParseAllURIParams and ParseAllURIHdrs (same flag condition).  For each: every buffer, start
   offset, object state (so also resumed states) and chunk schedule; for the two URI lists the object
   is any list whose unused slots are clean (ul_wf / uh_wf: what Init and Reset make, and what the
   parsers keep - part of the theorem), of any capacity incl. zero; the count of values parsed by the
   current call (a return value, reset on entry) is not compared, it differs between a resumed and a
   one-shot call by definition. *)
From Sipsp Require Import Harness Resume Ext ExtLeaf ExtCSeq ExtTok ExtNameAddr ExtNested ExtLists ExtFLine ExtHdrLine ExtHeaders ExtMsg CapURI ExtURI.
Theorem C02_every_schedule_from_one_step :
  forall (S : Type) (P : list byte -> N -> S -> res S) (obs : S -> list Z) (Inv : N -> S -> Prop),
  ExtOK P obs Inv ->
  forall b k s0 cuts, Inv k s0 -> k <= nnat (length b) -> sorted_from (N.to_nat k) cuts ->
    agrees P obs b cuts (chunked_trace P b cuts k s0) k s0.
Proof. exact (fun S P obs Inv => resume_schedule P obs Inv). Qed.

Theorem C02_skip_quoted : forall b k cuts, k <= nnat (length b) -> sorted_from (N.to_nat k) cuts ->
  agrees (fun b o (_ : unit) => skip_quoted b o) (fun _ : unit => []) b cuts (chunked_trace (fun b o (_ : unit) => skip_quoted b o) b cuts k tt) k tt.
Proof. exact (fun b k cuts => resume_schedule _ _ _ quoted_ExtOK b k tt cuts I). Qed.

Theorem C02_callid : forall b k s0 cuts, k <= nnat (length b) -> sorted_from (N.to_nat k) cuts ->
  agrees parse_callid obs_callid b cuts (chunked_trace parse_callid b cuts k s0) k s0.
Proof. exact (fun b k s0 cuts => resume_schedule _ _ _ callid_ExtOK b k s0 cuts I). Qed.

Theorem C02_uint_expires : forall b k s0 cuts, k <= nnat (length b) -> sorted_from (N.to_nat k) cuts ->
  agrees parse_uint obs_uint b cuts (chunked_trace parse_uint b cuts k s0) k s0.
Proof. exact (fun b k s0 cuts => resume_schedule _ _ _ uint_ExtOK b k s0 cuts I). Qed.

Theorem C02_content_length : forall b k s0 cuts, k <= nnat (length b) -> sorted_from (N.to_nat k) cuts ->
  agrees parse_clen obs_uint b cuts (chunked_trace parse_clen b cuts k s0) k s0.
Proof. exact (fun b k s0 cuts => resume_schedule _ _ _ clen_ExtOK b k s0 cuts I). Qed.

Theorem C02_cseq : forall b k s0 cuts, k <= nnat (length b) -> sorted_from (N.to_nat k) cuts ->
  agrees parse_cseq obs_cseq b cuts (chunked_trace parse_cseq b cuts k s0) k s0.
Proof. exact (fun b k s0 cuts => resume_schedule _ _ _ cseq_ExtOK b k s0 cuts I). Qed.

Theorem C02_nameaddr : forall h, forall b k s0 cuts, k <= nnat (length b) -> sorted_from (N.to_nat k) cuts ->
  agrees (parse_nameaddr h) obs_pfrom b cuts (chunked_trace (parse_nameaddr h) b cuts k s0) k s0.
Proof. exact (fun h b k s0 cuts => resume_schedule _ _ _ (nameaddr_ExtOK h) b k s0 cuts I). Qed.

Theorem C02_one_pai : forall b k s0 cuts, k <= nnat (length b) -> sorted_from (N.to_nat k) cuts ->
  agrees parse_one_pai obs_pfrom b cuts (chunked_trace parse_one_pai b cuts k s0) k s0.
Proof. exact (fun b k s0 cuts => resume_schedule _ _ _ onepai_ExtOK b k s0 cuts I). Qed.

Theorem C02_all_contacts : forall b k s0 cuts, k <= nnat (length b) -> sorted_from (N.to_nat k) cuts ->
  agrees parse_all_contacts obs_contacts b cuts (chunked_trace parse_all_contacts b cuts k s0) k s0.
Proof. exact (fun b k s0 cuts => resume_schedule _ _ _ contacts_ExtOK b k s0 cuts I). Qed.

Theorem C02_all_pais : forall b k s0 cuts, k <= nnat (length b) -> sorted_from (N.to_nat k) cuts ->
  agrees parse_all_pais obs_pais b cuts (chunked_trace parse_all_pais b cuts k s0) k s0.
Proof. exact (fun b k s0 cuts => resume_schedule _ _ _ pais_ExtOK b k s0 cuts I). Qed.

Theorem C02_token_param : forall flags (Hie : tf_ie (tp_decode flags) = false), forall b k s0 cuts, k <= nnat (length b) -> sorted_from (N.to_nat k) cuts ->
  agrees (parse_tokparam flags) obs_tokparam b cuts (chunked_trace (parse_tokparam flags) b cuts k s0) k s0.
Proof. exact (fun flags Hie b k s0 cuts => resume_schedule _ _ _ (tokparam_ExtOK flags Hie) b k s0 cuts I). Qed.

Theorem C02_first_line : forall b k s0 cuts, k <= nnat (length b) -> sorted_from (N.to_nat k) cuts ->
  agrees parse_fline obs_fline b cuts (chunked_trace parse_fline b cuts k s0) k s0.
Proof. exact (fun b k s0 cuts => resume_schedule _ _ _ fline_ExtOK b k s0 cuts I). Qed.

Theorem C02_header_line : forall b k s0 cuts, k <= nnat (length b) -> sorted_from (N.to_nat k) cuts ->
  agrees parse_hdrline (fun x => obs_hdr (hx_h x) ++ obs_opt_phvals (hx_pv x)) b cuts (chunked_trace parse_hdrline b cuts k s0) k s0.
Proof. exact (fun b k s0 cuts => resume_schedule _ _ _ hdrline_ExtOK b k s0 cuts I). Qed.

Theorem C02_header_block : forall b k s0 cuts, k <= nnat (length b) -> sorted_from (N.to_nat k) cuts ->
  agrees parse_headers (fun x => obs_hdrlst (hs_l x) ++ obs_opt_phvals (hs_pv x)) b cuts (chunked_trace parse_headers b cuts k s0) k s0.
Proof. exact (fun b k s0 cuts => resume_schedule _ _ _ headers_ExtOK b k s0 cuts I). Qed.

Theorem C02_all_uri_params : forall flags, testbit flags bPOptInputEnd = false ->
  forall b k s0 cuts, ul_wf s0 -> k <= nnat (length b) -> sorted_from (N.to_nat k) cuts ->
  agrees (parse_all_uri_params flags) obs_uparams b cuts (chunked_trace (parse_all_uri_params flags) b cuts k s0) k s0.
Proof. exact (fun flags Hie b k s0 cuts => resume_schedule _ _ _ (uparams_ExtOK flags (ul_flags_ie flags Hie)) b k s0 cuts). Qed.

Theorem C02_all_uri_hdrs : forall flags, testbit flags bPOptInputEnd = false ->
  forall b k s0 cuts, uh_wf s0 -> k <= nnat (length b) -> sorted_from (N.to_nat k) cuts ->
  agrees (parse_all_uri_hdrs flags) obs_uhdrs b cuts (chunked_trace (parse_all_uri_hdrs flags) b cuts k s0) k s0.
Proof. exact (fun flags Hie b k s0 cuts => resume_schedule _ _ _ (uhdrs_ExtOK flags (uh_flags_ie flags Hie)) b k s0 cuts). Qed.

(* the objects the theorems speak about exist: fresh lists of every capacity *)
Theorem C02_fresh_uri_lists_are_clean : forall n, ul_wf (uparams_init (repeat uriparam0 n)) /\ uh_wf (uhdrs_init (repeat tokparam0 n)).
Proof. exact (fun n => conj (ul_wf_init n) (uh_wf_init n)). Qed.
(* a schedule that exercises the re-iteration at the same offset: "a=1;" then "a=1;b=2?x" into a list of capacity 1 *)
Example C02_uri_params_example :
  let f := 2 ^ bPOptTokQmTerm in let l0 := uparams_init (repeat uriparam0 1) in
  match parse_all_uri_params f [97;61;49;59] 0 l0 with
  | Done o EMore s => o = 4 /\ req obs_uparams (parse_all_uri_params f [97;61;49;59;98;61;50;63;120] o s)
                                              (parse_all_uri_params f [97;61;49;59;98;61;50;63;120] 0 l0)
                            /\ match parse_all_uri_params f [97;61;49;59;98;61;50;63;120] 0 l0 with Done 7 EOk s' => ul_n s' = 2 | _ => False end
  | _ => False
  end.
Proof. vm_compute. repeat split; reflexivity || discriminate. Qed.
Print Assumptions C02_all_uri_params.
Print Assumptions C02_all_uri_hdrs.
