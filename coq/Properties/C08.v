(* C08: the first line is decomposed exactly.
   PROVED for the model (completeness direction): every text of the form
       method SP uri SP version EOL          (tokens without white space, not starting like a reply)
       "SIP/2.0" (any letter case) SP 3DIGIT SP reason EOL   (reason without CR / LF, possibly empty)
   wherever it starts in a buffer and whatever precedes or follows it, with any of the three line
   terminators (CRLF, CR + non-LF, LF + any byte), is accepted at the end of the line and reported
   with exactly the extents of its components, the method number being the exact-case table look-up
   of the method text and the status the value of the three digits.  Near misses (TAB / CR / LF
   instead of the single SP, two SPs, a code that is not three digits followed by SP) are rejected
   with "bad character" at the offending position.
   The converse (FLineConv.v, C08_accepted_first_line_has_the_shape): whatever one call of ParseFLine on
   a fresh object accepts is a line of one of the two shapes, split exactly there - three non-empty
   tokens without white space separated by single SPs and a line end; or the version prefix, three
   digits, SP, a reason without CR / LF, a line end - with exactly those extents, method number and
   status.  So lines violating the single-space grammar are rejected rather than mis-split.  (A call
   sequence over chunks yields the same object: C02.) *)
From Sipsp Require Import Harness Classify IP4 Numbers FLineSpec FLineConv.
From Sipsp Require Import Tables.

Theorem C08_request_line : forall p m u v c y crl, is_crlf c = true -> skipCRLF (c :: y) = COk crl ->
  tok m -> m <> [] -> tok u -> u <> [] -> tok v -> v <> [] ->
  let line := m ++ SP :: u ++ SP :: v ++ c :: y in
  (14 <= length line)%nat -> prefix_nocase go_sipVerSP line = false ->
  let i := nnat (length p) in
  parse_fline (p ++ line) i fline0
  = Done (i + nnat (length m) + 1 + nnat (length u) + 1 + nnat (length v) + nnat crl) EOk
      (mkfline 0 (get_method_no m) (mkpf i (nnat (length m))) (mkpf (i + nnat (length m) + 1) (nnat (length u)))
               (mkpf (i + nnat (length m) + 1 + nnat (length u) + 1) (nnat (length v))) pf0 pf0 FlFIN).
Proof. exact request_line_spec. Qed.

Theorem C08_status_line : forall p ver a b c reason t y crl, is_crlf t = true -> skipCRLF (t :: y) = COk crl ->
  length ver = 8%nat -> eqb_nocase ver go_sipVerSP = true ->
  is_digit a = true -> is_digit b = true -> is_digit c = true -> nocrlf reason ->
  let line := ver ++ a :: b :: c :: SP :: reason ++ t :: y in
  let i := nnat (length p) in
  parse_fline (p ++ line) i fline0
  = Done (i + 12 + nnat (length reason) + nnat crl) EOk
      (mkfline ((digit_val a * 100 + digit_val b * 10 + digit_val c) mod 65536) 0 pf0 pf0
               (mkpf i 7) (mkpf (i + 8) 3) (mkpf (i + 12) (nnat (length reason))) FlFIN).
Proof. exact status_line_spec. Qed.

Theorem C08_the_three_line_terminators :
  (forall x, is_crlf CR = true /\ skipCRLF (CR :: LF :: x) = COk 2) /\
  (forall d x, is_lf d = false -> is_crlf CR = true /\ skipCRLF (CR :: d :: x) = COk 1) /\
  (forall d x, is_crlf LF = true /\ skipCRLF (LF :: d :: x) = COk 1).
Proof. exact (conj eol_crlf (conj eol_cr eol_lf)). Qed.

Theorem C08_request_bad_separator_rejected : forall p m c r, tok m -> m <> [] -> is_ws c = true -> c <> SP ->
  let line := m ++ c :: r in (14 <= length line)%nat -> prefix_nocase go_sipVerSP line = false ->
  exists s, parse_fline (p ++ line) (nnat (length p)) fline0 = Done (nnat (length p) + nnat (length m)) EBadChar s.
Proof. exact request_bad_separator. Qed.
Theorem C08_request_double_space_rejected : forall p m r, tok m -> m <> [] ->
  let line := m ++ SP :: SP :: r in (14 <= length line)%nat -> prefix_nocase go_sipVerSP line = false ->
  exists s, parse_fline (p ++ line) (nnat (length p)) fline0 = Done (nnat (length p) + nnat (length m) + 1) EBadChar s.
Proof. exact request_double_space. Qed.
Theorem C08_status_bad_code_rejected : forall p ver a b c d r, length ver = 8%nat -> eqb_nocase ver go_sipVerSP = true ->
  (d =? SP) && (is_digit a && is_digit b && is_digit c) = false ->
  let line := ver ++ a :: b :: c :: d :: r in (14 <= length line)%nat ->
  exists s, parse_fline (p ++ line) (nnat (length p)) fline0 = Done (nnat (length p) + 8) EBadChar s.
Proof. exact status_bad_code. Qed.

Theorem C08_status_is_the_three_digits : forall a b c,
  is_digit a = true -> is_digit b = true -> is_digit c = true ->
  (digit_val a * 100 + digit_val b * 10 + digit_val c) mod 65536 = dec [a; b; c].
Proof. exact status_exact. Qed.
Theorem C08_method_number_is_exact_case_table_lookup : forall name t, name <> [] ->
  (get_method_no name = t /\ t <> MOther) <-> In (name, t) spec_methods.
Proof. exact method_no_spec. Qed.

(* the hypotheses are satisfiable: "INVITE sip:a@b SIP/2.0" CRLF and "SIP/2.0 200 OK" CRLF *)
Example C08_request_example :
  parse_fline ([73;78;86;73;84;69;32;115;105;112;58;97;64;98;32;83;73;80;47;50;46;48;13;10]) 0 fline0
  = Done 24 EOk (mkfline 0 (get_method_no [73;78;86;73;84;69]) (mkpf 0 6) (mkpf 7 7) (mkpf 15 7) pf0 pf0 FlFIN).
Proof. vm_compute. reflexivity. Qed.
Example C08_status_example :
  parse_fline ([83;73;80;47;50;46;48;32;50;48;48;32;79;75;13;10]) 0 fline0
  = Done 16 EOk (mkfline 200 0 pf0 pf0 (mkpf 0 7) (mkpf 8 3) (mkpf 12 2) FlFIN).
Proof. vm_compute. reflexivity. Qed.

(* ---- the converse ------------------------------------------------------------------------------------------------------------------------ *)
Theorem C08_accepted_first_line_has_the_shape : forall (p rest : list byte) o s',
  parse_fline (p ++ rest) (nnat (length p)) fline0 = Done o EOk s' ->
  if prefix_nocase go_sipVerSP rest then rpl_shape rest (nnat (length p)) o s' else req_shape rest (nnat (length p)) o s'.
Proof. exact first_line_converse. Qed.
(* the two shapes, spelled out *)
Theorem C08_request_shape : forall rest i o s, req_shape rest i o s <->
  exists (m u v : list byte) (crl : nat) (tail : list byte),
    rest = m ++ SP :: u ++ SP :: v ++ tail /\
    (tok m /\ m <> [] /\ tok u /\ u <> [] /\ tok v /\ v <> []) /\
    skipCRLF tail = COk crl /\
    fl_method s = mkpf i (nnat (length m)) /\
    fl_uri s = mkpf (i + nnat (length m) + 1) (nnat (length u)) /\
    fl_version s = mkpf (i + nnat (length m) + 1 + nnat (length u) + 1) (nnat (length v)) /\
    fl_methodno s = get_method_no m /\
    o = i + nnat (length m) + 1 + nnat (length u) + 1 + nnat (length v) + nnat crl /\
    (fl_status s = 0 /\ fl_statuscode s = pf0 /\ fl_state s = FlFIN).
Proof. intros. reflexivity. Qed.
Theorem C08_reply_shape : forall rest i o s, rpl_shape rest i o s <->
  exists (ver : list byte) (a b c : byte) (reason : list byte) (crl : nat) (tail : list byte),
    rest = ver ++ a :: b :: c :: SP :: reason ++ tail /\
    length ver = length go_sipVerSP /\ eqb_nocase ver go_sipVerSP = true /\
    (is_digit a = true /\ is_digit b = true /\ is_digit c = true) /\
    Forall (fun x => is_crlf x = false) reason /\ skipCRLF tail = COk crl /\
    fl_version s = mkpf i (nnat (length go_sipVerSP) - 1) /\
    fl_statuscode s = mkpf (i + nnat (length go_sipVerSP)) 3 /\
    fl_status s = (digit_val a * 100 + digit_val b * 10 + digit_val c) mod 65536 /\
    fl_reason s = mkpf (i + nnat (length go_sipVerSP) + 4) (nnat (length reason)) /\
    o = i + nnat (length go_sipVerSP) + 4 + nnat (length reason) + nnat crl /\
    fl_state s = FlFIN.
Proof. intros. reflexivity. Qed.
Print Assumptions C08_accepted_first_line_has_the_shape.
