(* C08 (PARTIAL): the numeric parts of the first line: reply status = the three digits;
   method number = exact-case table look-up.  The splitting clauses are checked by the
   correspondence run and the 'legal reading' oracle only. *)
From Sipsp Require Import Harness Classify IP4 Numbers.
Theorem C08_status_is_the_three_digits_partial : forall a b c,
  is_digit a = true -> is_digit b = true -> is_digit c = true ->
  (digit_val a * 100 + digit_val b * 10 + digit_val c) mod 65536 = dec [a; b; c].
Proof. exact status_exact. Qed.
Theorem C08_method_number_is_exact_case_table_lookup : forall name t, name <> [] ->
  (get_method_no name = t /\ t <> MOther) <-> In (name, t) spec_methods.
Proof. exact method_no_spec. Qed.
