(* C08: the first line is decomposed exactly.
   PROVED for the model (completeness direction): every text of the form
       method SP uri SP version EOL          (tokens without white space, not starting like a reply)
       "SIP/2.0" (any letter case) SP 3DIGIT SP reason EOL   (reason without CR / LF, possibly empty)
   wherever it starts in a buffer and whatever precedes or follows it, with any of the three line
   terminators (CRLF, CR + non-LF, LF + any byte), is accepted at the end of the line and reported
   with exactly the extents of its components, the method number being the exact-case table look-up
   of the method text and the status the value of the three digits.  Near misses (TAB / CR / LF
   instead of the single SP, two SPs, a code that is not three digits followed by SP) are rejected
   with "bad character" at the offending position.
   Not proved: the converse (every accepted first line has one of the two shapes) - carried by the
   'legal reading' oracle and the correspondence run. *)
From Sipsp Require Import Harness Classify IP4 Numbers FLineSpec.
From Sipsp Require Import Tables.

Theorem C08_request_line : forall p m u v c y crl, is_crlf c = true -> skipCRLF (c :: y) = COk crl ->
  tok m -> m <> [] -> tok u -> u <> [] -> tok v -> v <> [] ->
  let line := m ++ SP :: u ++ SP :: v ++ c :: y in
  (14 <= length line)%nat -> prefix_nocase go_sipVerSP line = false ->
  let i := nnat (length p) in
  parse_fline (p ++ line) i fline0
  = Done (i + nnat (length m) + 1 + nnat (length u) + 1 + nnat (length v) + nnat crl) EOk
      (mkfline 0 (get_method_no m) (mkpf i (nnat (length m))) (mkpf (i + nnat (length m) + 1) (nnat (length u)))
               (mkpf (i + nnat (length m) + 1 + nnat (length u) + 1) (nnat (length v))) pf0 pf0 FlFIN).
Proof. exact request_line_spec. Qed.

Theorem C08_status_line : forall p ver a b c reason t y crl, is_crlf t = true -> skipCRLF (t :: y) = COk crl ->
  length ver = 8%nat -> eqb_nocase ver go_sipVerSP = true ->
  is_digit a = true -> is_digit b = true -> is_digit c = true -> nocrlf reason ->
  let line := ver ++ a :: b :: c :: SP :: reason ++ t :: y in
  let i := nnat (length p) in
  parse_fline (p ++ line) i fline0
  = Done (i + 12 + nnat (length reason) + nnat crl) EOk
      (mkfline ((digit_val a * 100 + digit_val b * 10 + digit_val c) mod 65536) 0 pf0 pf0
               (mkpf i 7) (mkpf (i + 8) 3) (mkpf (i + 12) (nnat (length reason))) FlFIN).
Proof. exact status_line_spec. Qed.

Theorem C08_the_three_line_terminators :
  (forall x, is_crlf CR = true /\ skipCRLF (CR :: LF :: x) = COk 2) /\
  (forall d x, is_lf d = false -> is_crlf CR = true /\ skipCRLF (CR :: d :: x) = COk 1) /\
  (forall d x, is_crlf LF = true /\ skipCRLF (LF :: d :: x) = COk 1).
Proof. exact (conj eol_crlf (conj eol_cr eol_lf)). Qed.

Theorem C08_request_bad_separator_rejected : forall p m c r, tok m -> m <> [] -> is_ws c = true -> c <> SP ->
  let line := m ++ c :: r in (14 <= length line)%nat -> prefix_nocase go_sipVerSP line = false ->
  exists s, parse_fline (p ++ line) (nnat (length p)) fline0 = Done (nnat (length p) + nnat (length m)) EBadChar s.
Proof. exact request_bad_separator. Qed.
Theorem C08_request_double_space_rejected : forall p m r, tok m -> m <> [] ->
  let line := m ++ SP :: SP :: r in (14 <= length line)%nat -> prefix_nocase go_sipVerSP line = false ->
  exists s, parse_fline (p ++ line) (nnat (length p)) fline0 = Done (nnat (length p) + nnat (length m) + 1) EBadChar s.
Proof. exact request_double_space. Qed.
Theorem C08_status_bad_code_rejected : forall p ver a b c d r, length ver = 8%nat -> eqb_nocase ver go_sipVerSP = true ->
  (d =? SP) && (is_digit a && is_digit b && is_digit c) = false ->
  let line := ver ++ a :: b :: c :: d :: r in (14 <= length line)%nat ->
  exists s, parse_fline (p ++ line) (nnat (length p)) fline0 = Done (nnat (length p) + 8) EBadChar s.
Proof. exact status_bad_code. Qed.

Theorem C08_status_is_the_three_digits : forall a b c,
  is_digit a = true -> is_digit b = true -> is_digit c = true ->
  (digit_val a * 100 + digit_val b * 10 + digit_val c) mod 65536 = dec [a; b; c].
Proof. exact status_exact. Qed.
Theorem C08_method_number_is_exact_case_table_lookup : forall name t, name <> [] ->
  (get_method_no name = t /\ t <> MOther) <-> In (name, t) spec_methods.
Proof. exact method_no_spec. Qed.

(* the hypotheses are satisfiable: "INVITE sip:a@b SIP/2.0" CRLF and "SIP/2.0 200 OK" CRLF *)
Example C08_request_example :
  parse_fline ([73;78;86;73;84;69;32;115;105;112;58;97;64;98;32;83;73;80;47;50;46;48;13;10]) 0 fline0
  = Done 24 EOk (mkfline 0 (get_method_no [73;78;86;73;84;69]) (mkpf 0 6) (mkpf 7 7) (mkpf 15 7) pf0 pf0 FlFIN).
Proof. vm_compute. reflexivity. Qed.
Example C08_status_example :
  parse_fline ([83;73;80;47;50;46;48;32;50;48;48;32;79;75;13;10]) 0 fline0
  = Done 16 EOk (mkfline 200 0 pf0 pf0 (mkpf 0 7) (mkpf 8 3) (mkpf 12 2) FlFIN).
Proof. vm_compute. reflexivity. Qed.
