(* C09 (PARTIAL): value-level facts of the name-addr parser: expires saturation, which header
   kinds accept several values, '*' is not a P-Asserted-Identity.  The decomposition clauses are
   checked by the correspondence run and the render/parse oracle only. *)
From Sipsp Require Import Harness IP4 Numbers Misc.
Theorem C09_contact_expires_value_partial : forall ds, all_digits ds -> expires_of ds = N.min (dec ds) MaxU32.
Proof. exact contact_expires_saturates. Qed.
Theorem C09_multi_value_header_kinds : forall h,
  multipleValsOk h = true <-> h = HdrContact \/ h = HdrRecordRoute \/ h = HdrRoute \/ h = HdrPAI.
Proof. exact multiple_values_kinds. Qed.
Theorem C09_star_is_not_an_identity : forall buf offs s o e s', parse_one_pai buf offs s = Done o e s' ->
  fb_star s' = true -> e <> EOk /\ e <> EMoreValues.
Proof. exact pai_star_rejected. Qed.
