(* C09: name-addr values (From / To / Contact / PAI) are decomposed as written.
   PROVED for the model, every header kind: ParseNameAddrPVal against the grammar, completeness
   (NameAddrSpec.v), for the common shapes of a value ended by the end of the header line -
   "<" uri ">", display-name SP "<" uri ">" (the name is reported from its first byte up to the "<",
   which is what the library's own test expects), "<" uri ">;tag=" value: exactly the URI without the
   brackets, the display name, the parameter span from the first parameter name to the end of the last
   value, the tag value, the whole-value span, ok at the offset after the line, kind of header as
   passed; the same at any offset after any bytes (C09_uri_and_tag_at_any_offset, from the C11 shift
   theorem).  Value-level facts: expires saturation, which header kinds accept several values, '*' is
   not a P-Asserted-Identity.  List level: capacity independence and first / last contact (C13), the
   counts under resumption (C01/C02).
   One parameter of any name after the bracketed URI (C09_uri_and_parameter, NameAddrParam.v): the
   dispatch tag / expires / q / lr / other receives exactly the name text and the value text; the
   parameter span and whole-value span close at the end of the value (q and expires numbers: C10).
   The list (ContactSpec.v, C09_contact_list): ParseAllContactValues on "<" uri ">" *( "," "<" uri ">" )
   end-of-line, at any offset, into a fresh list of any capacity: ok after the line, every value
   counted (also those that do not fit), value j = URI j at its own offset, the header-value span runs
   from the first "<" to the last ">".
   PARTIAL: quoted display names, bare URIs with parameters, several parameters,
   white space and folds around ';' '=' ',', commas inside quotes / brackets and the expires summary
   are not proved against the grammar: render/parse oracle on values, lists and messages (offsets
   != 0, chunked, reused objects) and correspondence. *)
From Sipsp Require Import Harness IP4 Numbers Misc NameAddrSpec NameAddrParam ContactSpec Capacity UpperBound NestMsg SigCoherent.
Theorem C09_contact_expires_value : forall ds, all_digits ds -> expires_of ds = N.min (dec ds) MaxU32.
Proof. exact contact_expires_saturates. Qed.
Theorem C09_multi_value_header_kinds : forall h,
  multipleValsOk h = true <-> h = HdrContact \/ h = HdrRecordRoute \/ h = HdrRoute \/ h = HdrPAI.
Proof. exact multiple_values_kinds. Qed.
Theorem C09_star_is_not_an_identity : forall buf offs s o e s', parse_one_pai buf offs s = Done o e s' ->
  fb_star s' = true -> e <> EOk /\ e <> EMoreValues.
Proof. exact pai_star_rejected. Qed.

(* ---- ParseNameAddrPVal against the grammar ----------------------------------------------------------------------------------------- *)
Theorem C09_uri_in_angle_brackets : forall h (uri : list byte) x tail, Forall uchar uri -> is_sp x = false ->
  let lu := nnat (length uri) in
  parse_nameaddr h (60 :: uri ++ 62 :: CR :: LF :: x :: tail) 0 pfrom0
  = Done (lu + 4) EOk (mkpfrom pf0 (mkpf 1 lu) pf0 false false false h 0 0 pf0 (mkpf 0 (lu + 2)) EOk 0 FbFIN 0 0 0 0 0).
Proof. exact spec_uri_only. Qed.
Theorem C09_display_name_and_uri : forall h n0 name (uri : list byte) x tail, nchar0 n0 -> Forall nchar name -> Forall uchar uri -> is_sp x = false ->
  let ln := nnat (length (n0 :: name)) in let lu := nnat (length uri) in
  parse_nameaddr h ((n0 :: name) ++ 32 :: 60 :: uri ++ 62 :: CR :: LF :: x :: tail) 0 pfrom0
  = Done (ln + 2 + lu + 3) EOk (mkpfrom (mkpf 0 (ln + 1)) (mkpf (ln + 2) lu) pf0 false false false h 0 0 pf0 (mkpf 0 (ln + 2 + lu + 1)) EOk 0 FbFIN 0 0 0 0 0).
Proof. exact spec_name_uri. Qed.
Theorem C09_uri_and_tag : forall h (uri : list byte) v0 value x tail, Forall uchar uri -> vchar v0 -> Forall vchar value -> is_sp x = false ->
  let lu := nnat (length uri) in let lv := nnat (length (v0 :: value)) in
  parse_nameaddr h (60 :: uri ++ 62 :: 59 :: 116 :: 97 :: 103 :: 61 :: (v0 :: value) ++ CR :: LF :: x :: tail) 0 pfrom0
  = Done (lu + 7 + lv + 2) EOk
      (mkpfrom pf0 (mkpf 1 lu) (mkpf (lu + 7) lv) false false false h 0 0 (mkpf (lu + 3) (4 + lv)) (mkpf 0 (lu + 7 + lv)) EOk 0 FbFIN 0 0 0 0 0).
Proof. exact spec_uri_tag. Qed.
Theorem C09_uri_and_tag_at_any_offset : forall h (junk uri : list byte) v0 value x tail, Forall uchar uri -> vchar v0 -> Forall vchar value -> is_sp x = false ->
  let k := nnat (length junk) in let lu := nnat (length uri) in let lv := nnat (length (v0 :: value)) in
  exists s', parse_nameaddr h (junk ++ 60 :: uri ++ 62 :: 59 :: 116 :: 97 :: 103 :: 61 :: (v0 :: value) ++ CR :: LF :: x :: tail) k pfrom0
             = Done (k + (lu + 7 + lv + 2)) EOk s' /\
    fb_state s' = FbFIN /\ fb_type s' = h /\ fb_star s' = false /\ pl (fb_name s') = 0 /\
    fb_uri s' = mkpf (k + 1) lu /\ fb_tag s' = mkpf (k + (lu + 7)) lv /\ fb_params s' = mkpf (k + (lu + 3)) (4 + lv) /\
    fb_v s' = mkpf k (lu + 7 + lv).
Proof. exact spec_uri_tag_at. Qed.
Theorem C09_uri_and_parameter : forall h (uri : list byte) n0 (name : list byte) v0 (value : list byte) x tail,
  Forall uchar uri -> pchar n0 -> Forall pchar name -> vchar v0 -> Forall vchar value -> is_sp x = false ->
  let lu := nnat (length uri) in let ln := nnat (length (n0 :: name)) in let lv := nnat (length (v0 :: value)) in
  let p0 := lu + 3 in let pe := p0 + ln in let q0 := pe + 1 in let e := q0 + lv in
  parse_nameaddr h (60 :: uri ++ 62 :: 59 :: (n0 :: name) ++ 61 :: (v0 :: value) ++ CR :: LF :: x :: tail) 0 pfrom0
  = Done (e + 2) EOk (pfin h p0 e (apply_param (n0 :: name) (v0 :: value) (pbase lu p0 pe q0 e))).
Proof. exact spec_uri_param. Qed.
(* what the result keeps of the dispatch: everything but the scratch offsets, the two spans, state, kind *)
Theorem C09_parameter_result_fields : forall h p0 e s,
  fb_q (pfin h p0 e s) = fb_q s /\ fb_perr (pfin h p0 e s) = fb_perr s /\ fb_expires (pfin h p0 e s) = fb_expires s /\
  fb_hasexp (pfin h p0 e s) = fb_hasexp s /\ fb_lr (pfin h p0 e s) = fb_lr s /\ fb_tag (pfin h p0 e s) = fb_tag s /\ fb_uri (pfin h p0 e s) = fb_uri s.
Proof. exact pfin_q. Qed.
(* ---- the Contact list ------------------------------------------------------------------------------------------------------------------- *)
Theorem C09_contact_list : forall us (junk : list byte) x tail n, us <> [] -> Forall (Forall uchar) us -> is_sp x = false ->
  let i := nnat (length junk) in
  let vs := cl_vals i us in
  exists C, parse_all_contacts (junk ++ cl_bytes us ++ CR :: LF :: x :: tail) i (contacts_init (repeat pfrom0 n))
            = Done (i + nnat (length (cl_bytes us)) + 2) EOk C /\
    ct_n C = nnat (length us) /\
    (forall j, (j < length us)%nat -> (j < n)%nat -> nth j (ct_vals C) pfrom0 = nth j vs pfrom0) /\
    ct_lasthval C = mkpf i (nnat (length (cl_bytes us))).
Proof. exact contact_list_spec. Qed.
(* value j: the URI between the brackets at its own offset, as a Contact value *)
Theorem C09_contact_list_values : forall i (u u2 : list byte) us,
  cl_vals i (u :: u2 :: us) = uval HdrContact i (nnat (length u)) :: cl_vals (i + nnat (length u) + 3) (u2 :: us) /\
  cl_vals i [u] = [uval HdrContact i (nnat (length u))] /\
  uval HdrContact i (nnat (length u)) = mkpfrom pf0 (mkpf (i + 1) (nnat (length u))) pf0 false false false HdrContact 0 0 pf0 (mkpf i (nnat (length u) + 2)) EOk 0 FbFIN 0 0 0 0 0.
Proof. intros. repeat split; reflexivity. Qed.
(* "<sip:a>,<sip:b>" CRLF "X": two values, one slot *)
Example C09_contact_list_example :
  Forall (Forall uchar) [[115;105;112;58;97]; [115;105;112;58;98]] /\
  match parse_all_contacts [60;115;105;112;58;97;62;44;60;115;105;112;58;98;62;13;10;88] 0 (contacts_init (repeat pfrom0 1)) with
  | Done 17 EOk C => ct_n C = 2 /\ ct_lasthval C = mkpf 0 15 /\ fb_uri (nth 0 (ct_vals C) pfrom0) = mkpf 1 5
  | _ => False
  end.
Proof. split; [repeat constructor|vm_compute; repeat split; reflexivity]. Qed.
(* the hypotheses are satisfiable: "Bob <sip:b>" and "<sip:b>;tag=x1" (evaluated) *)
Example C09_example :
  parse_nameaddr HdrFrom [66;111;98;32;60;115;105;112;58;98;62;13;10;13;10] 0 pfrom0
  = Done 13 EOk (mkpfrom (mkpf 0 4) (mkpf 5 5) pf0 false false false HdrFrom 0 0 pf0 (mkpf 0 11) EOk 0 FbFIN 0 0 0 0 0).
Proof. vm_compute. reflexivity. Qed.
(* ---- the expires summary of the Contact values, every input and schedule -------------------------------------------------------------- *)
(* after a finished value v is counted: the maximum and the minimum take it in (the minimum starts from 2^32-1 at the first value) *)
Theorem C09_expires_summary_step : forall c1 v c6, ct_count c1 v = Some c6 ->
  ct_maxexp c6 = N.max (ct_maxexp c1) (fb_expires v) /\
  ct_minexp c6 = N.min (if ct_n c1 =? 0 then MaxU32 else ct_minexp c1) (fb_expires v).
Proof. exact ct_count_exp. Qed.
(* in every parsed message, under any feeding schedule: every finished Contact value - stored in the caller's array, kept as the
   scratch value beyond it, or remembered as the first one - lies between the minimum and the maximum, and the count is not zero *)
Theorem C09_expires_summary_bounds_every_value : forall flags B offs bl n nc o s o' e m', testbit flags bSIPMsgNoMoreData = false -> offs <= nnat (length B) ->
  feeds flags B offs (msg_init bl (repeat hdr0 n) (repeat pfrom0 nc)) o s ->
  parse_sipmsg flags B o s = Done o' e m' -> m_state m' = MFIN \/ m_state m' = MNoCLen ->
  let c := pv_contacts (msg_pv m') in
  let ok (v : pfrom) := fb_parsed v = true -> ct_n c <> 0 /\ ct_minexp c <= fb_expires v /\ fb_expires v <= ct_maxexp c in
  Forall ok (ct_vals c) /\ ok (ct_last c) /\ ok (ct_first c).
Proof.
  intros flags B offs bl n nc o s o' e m' Hf Ho Hfd H Hs.
  destruct (message_np_fed flags B offs bl n nc o s o' e m' Hf Ho Hfd H Hs) as (_ & _ & _ & (_ & HX) & _). exact HX.
Qed.
Print Assumptions C09_uri_and_tag_at_any_offset.
Print Assumptions C09_expires_summary_bounds_every_value.
