(* C09: name-addr values (From / To / Contact / PAI) are decomposed as written.
   PROVED for the model, every header kind: ParseNameAddrPVal against the grammar, completeness
   (NameAddrSpec.v), for the common shapes of a value ended by the end of the header line -
   "<" uri ">", display-name SP "<" uri ">" (the name is reported from its first byte up to the "<",
   which is what the library's own test expects), "<" uri ">;tag=" value: exactly the URI without the
   brackets, the display name, the parameter span from the first parameter name to the end of the last
   value, the tag value, the whole-value span, ok at the offset after the line, kind of header as
   passed; the same at any offset after any bytes (C09_uri_and_tag_at_any_offset, from the C11 shift
   theorem).  Value-level facts: expires saturation, which header kinds accept several values, '*' is
   not a P-Asserted-Identity.  List level: capacity independence and first / last contact (C13), the
   counts under resumption (C01/C02).
   One parameter of any name after the bracketed URI (C09_uri_and_parameter, NameAddrParam.v): the
   dispatch tag / expires / q / lr / other receives exactly the name text and the value text; the
   parameter span and whole-value span close at the end of the value (q and expires numbers: C10).
   The list (ContactSpec.v, C09_contact_list): ParseAllContactValues on "<" uri ">" *( "," "<" uri ">" )
   end-of-line, at any offset, into a fresh list of any capacity: ok after the line, every value
   counted (also those that do not fit), value j = URI j at its own offset, the header-value span runs
   from the first "<" to the last ">".
   The parameter part in general (NameAddrGen.v; C09_bracketed_uri_and_parameters, C09_bare_uri_and_parameters and their
   _then_comma forms): after "<" uri ">" or after a bare URI, at any offset after any bytes, for every header kind,
        [LWS] ";" *( [LWS] name [ [LWS] "=" [LWS] ( token | quoted-string ) ] [LWS] ";" ) [LWS] name [ ... ]
   ended by blanks and the end of the header line (ok, offset after the line) or - for the kinds that take several values - by
   [LWS] "," (more values, offset after the comma): every parameter in order reaches the dispatch tag / expires / q / lr / other
   with exactly its name text and value text (a quoted value with its quotes, commas and semicolons inside it do not split), a
   parameter without value only sets lr; the display name, the URI (without the brackets) and the star flag are those of the
   head; the parameter span runs from the first byte of the first name to the last byte of the last name or value, the
   whole-value span from the first byte of the value to the same end, white space before the comma or the line end excluded
   (C09_general_result_fields); parameters of a bare URI are treated as header parameters (same statement, twin states).
   The expires summary (NestMsg.v): C09_expires_summary_bounds_every_value.
   Any display name in front (C09_display_name_uri, C09_display_name_uri_and_parameters and their _then_comma forms): nothing, token
   words separated by LWS, or a quoted string (escapes; commas inside do not split) followed by more words, then "<" uri ">",
   with or without the general parameter part: the name is reported from its first byte up to the "<", the URI without the
   brackets, the whole-value span from the first byte of the name.
   The Contact list with such values (ContactGen.v, C09_contact_list_general_values): [LWS] value *( [LWS] "," [LWS] value ) blanks end-of-line (bare URIs too),
   any offset, fresh list of any capacity: every value counted (also those that do not fit), value j = what the value parser
   reports for text j at its own offset, the header-value span runs from the first byte of the first value to the last byte
   of the last one; commas inside quoted strings do not split.
   The star value: C09_star_value.  The P-Asserted-Identity list with the same values (PaiGen.v): C09_pai_list_general_values.
   Quoted strings may contain white space (blanks, folds), commas and semicolons; bracketed URIs may contain commas.
   PARTIAL: a lone CR or LF inside quotes, header counts at the message level for the general shapes: render/parse oracle on values, lists and messages (offsets != 0, chunked, reused objects) and correspondence. *)
From Sipsp Require Import Harness IP4 Numbers Misc NameAddrSpec NameAddrParam ContactSpec Capacity UpperBound NestMsg SigCoherent HdrSpec TokItem NameAddrGen ContactGen PaiGen.
Theorem C09_contact_expires_value : forall ds, all_digits ds -> expires_of ds = N.min (dec ds) MaxU32.
Proof. exact contact_expires_saturates. Qed.
Theorem C09_multi_value_header_kinds : forall h,
  multipleValsOk h = true <-> h = HdrContact \/ h = HdrRecordRoute \/ h = HdrRoute \/ h = HdrPAI.
Proof. exact multiple_values_kinds. Qed.
Theorem C09_star_is_not_an_identity : forall buf offs s o e s', parse_one_pai buf offs s = Done o e s' ->
  fb_star s' = true -> e <> EOk /\ e <> EMoreValues.
Proof. exact pai_star_rejected. Qed.

(* ---- ParseNameAddrPVal against the grammar ----------------------------------------------------------------------------------------- *)
Theorem C09_uri_in_angle_brackets : forall h (uri : list byte) x tail, Forall uchar uri -> is_sp x = false ->
  let lu := nnat (length uri) in
  parse_nameaddr h (60 :: uri ++ 62 :: CR :: LF :: x :: tail) 0 pfrom0
  = Done (lu + 4) EOk (mkpfrom pf0 (mkpf 1 lu) pf0 false false false h 0 0 pf0 (mkpf 0 (lu + 2)) EOk 0 FbFIN 0 0 0 0 0).
Proof. exact spec_uri_only. Qed.
Theorem C09_display_name_and_uri : forall h n0 name (uri : list byte) x tail, nchar0 n0 -> Forall nchar name -> Forall uchar uri -> is_sp x = false ->
  let ln := nnat (length (n0 :: name)) in let lu := nnat (length uri) in
  parse_nameaddr h ((n0 :: name) ++ 32 :: 60 :: uri ++ 62 :: CR :: LF :: x :: tail) 0 pfrom0
  = Done (ln + 2 + lu + 3) EOk (mkpfrom (mkpf 0 (ln + 1)) (mkpf (ln + 2) lu) pf0 false false false h 0 0 pf0 (mkpf 0 (ln + 2 + lu + 1)) EOk 0 FbFIN 0 0 0 0 0).
Proof. exact spec_name_uri. Qed.
Theorem C09_uri_and_tag : forall h (uri : list byte) v0 value x tail, Forall uchar uri -> vchar v0 -> Forall vchar value -> is_sp x = false ->
  let lu := nnat (length uri) in let lv := nnat (length (v0 :: value)) in
  parse_nameaddr h (60 :: uri ++ 62 :: 59 :: 116 :: 97 :: 103 :: 61 :: (v0 :: value) ++ CR :: LF :: x :: tail) 0 pfrom0
  = Done (lu + 7 + lv + 2) EOk
      (mkpfrom pf0 (mkpf 1 lu) (mkpf (lu + 7) lv) false false false h 0 0 (mkpf (lu + 3) (4 + lv)) (mkpf 0 (lu + 7 + lv)) EOk 0 FbFIN 0 0 0 0 0).
Proof. exact spec_uri_tag. Qed.
Theorem C09_uri_and_tag_at_any_offset : forall h (junk uri : list byte) v0 value x tail, Forall uchar uri -> vchar v0 -> Forall vchar value -> is_sp x = false ->
  let k := nnat (length junk) in let lu := nnat (length uri) in let lv := nnat (length (v0 :: value)) in
  exists s', parse_nameaddr h (junk ++ 60 :: uri ++ 62 :: 59 :: 116 :: 97 :: 103 :: 61 :: (v0 :: value) ++ CR :: LF :: x :: tail) k pfrom0
             = Done (k + (lu + 7 + lv + 2)) EOk s' /\
    fb_state s' = FbFIN /\ fb_type s' = h /\ fb_star s' = false /\ pl (fb_name s') = 0 /\
    fb_uri s' = mkpf (k + 1) lu /\ fb_tag s' = mkpf (k + (lu + 7)) lv /\ fb_params s' = mkpf (k + (lu + 3)) (4 + lv) /\
    fb_v s' = mkpf k (lu + 7 + lv).
Proof. exact spec_uri_tag_at. Qed.
Theorem C09_uri_and_parameter : forall h (uri : list byte) n0 (name : list byte) v0 (value : list byte) x tail,
  Forall uchar uri -> pchar n0 -> Forall pchar name -> vchar v0 -> Forall vchar value -> is_sp x = false ->
  let lu := nnat (length uri) in let ln := nnat (length (n0 :: name)) in let lv := nnat (length (v0 :: value)) in
  let p0 := lu + 3 in let pe := p0 + ln in let q0 := pe + 1 in let e := q0 + lv in
  parse_nameaddr h (60 :: uri ++ 62 :: 59 :: (n0 :: name) ++ 61 :: (v0 :: value) ++ CR :: LF :: x :: tail) 0 pfrom0
  = Done (e + 2) EOk (pfin h p0 e (apply_param (n0 :: name) (v0 :: value) (pbase lu p0 pe q0 e))).
Proof. exact spec_uri_param. Qed.
(* what the result keeps of the dispatch: everything but the scratch offsets, the two spans, state, kind *)
Theorem C09_parameter_result_fields : forall h p0 e s,
  fb_q (pfin h p0 e s) = fb_q s /\ fb_perr (pfin h p0 e s) = fb_perr s /\ fb_expires (pfin h p0 e s) = fb_expires s /\
  fb_hasexp (pfin h p0 e s) = fb_hasexp s /\ fb_lr (pfin h p0 e s) = fb_lr s /\ fb_tag (pfin h p0 e s) = fb_tag s /\ fb_uri (pfin h p0 e s) = fb_uri s.
Proof. exact pfin_q. Qed.
(* ---- the Contact list ------------------------------------------------------------------------------------------------------------------- *)
Theorem C09_contact_list : forall us (junk : list byte) x tail n, us <> [] -> Forall (Forall uchar) us -> is_sp x = false ->
  let i := nnat (length junk) in
  let vs := cl_vals i us in
  exists C, parse_all_contacts (junk ++ cl_bytes us ++ CR :: LF :: x :: tail) i (contacts_init (repeat pfrom0 n))
            = Done (i + nnat (length (cl_bytes us)) + 2) EOk C /\
    ct_n C = nnat (length us) /\
    (forall j, (j < length us)%nat -> (j < n)%nat -> nth j (ct_vals C) pfrom0 = nth j vs pfrom0) /\
    ct_lasthval C = mkpf i (nnat (length (cl_bytes us))).
Proof. exact contact_list_spec. Qed.
(* value j: the URI between the brackets at its own offset, as a Contact value *)
Theorem C09_contact_list_values : forall i (u u2 : list byte) us,
  cl_vals i (u :: u2 :: us) = uval HdrContact i (nnat (length u)) :: cl_vals (i + nnat (length u) + 3) (u2 :: us) /\
  cl_vals i [u] = [uval HdrContact i (nnat (length u))] /\
  uval HdrContact i (nnat (length u)) = mkpfrom pf0 (mkpf (i + 1) (nnat (length u))) pf0 false false false HdrContact 0 0 pf0 (mkpf i (nnat (length u) + 2)) EOk 0 FbFIN 0 0 0 0 0.
Proof. intros. repeat split; reflexivity. Qed.
(* "<sip:a>,<sip:b>" CRLF "X": two values, one slot *)
Example C09_contact_list_example :
  Forall (Forall uchar) [[115;105;112;58;97]; [115;105;112;58;98]] /\
  match parse_all_contacts [60;115;105;112;58;97;62;44;60;115;105;112;58;98;62;13;10;88] 0 (contacts_init (repeat pfrom0 1)) with
  | Done 17 EOk C => ct_n C = 2 /\ ct_lasthval C = mkpf 0 15 /\ fb_uri (nth 0 (ct_vals C) pfrom0) = mkpf 1 5
  | _ => False
  end.
Proof. split; [repeat constructor|vm_compute; repeat split; reflexivity]. Qed.
(* the hypotheses are satisfiable: "Bob <sip:b>" and "<sip:b>;tag=x1" (evaluated) *)
Example C09_example :
  parse_nameaddr HdrFrom [66;111;98;32;60;115;105;112;58;98;62;13;10;13;10] 0 pfrom0
  = Done 13 EOk (mkpfrom (mkpf 0 4) (mkpf 5 5) pf0 false false false HdrFrom 0 0 pf0 (mkpf 0 11) EOk 0 FbFIN 0 0 0 0 0).
Proof. vm_compute. reflexivity. Qed.
(* ---- the expires summary of the Contact values, every input and schedule -------------------------------------------------------------- *)
(* after a finished value v is counted: the maximum and the minimum take it in (the minimum starts from 2^32-1 at the first value) *)
Theorem C09_expires_summary_step : forall c1 v c6, ct_count c1 v = Some c6 ->
  ct_maxexp c6 = N.max (ct_maxexp c1) (fb_expires v) /\
  ct_minexp c6 = N.min (if ct_n c1 =? 0 then MaxU32 else ct_minexp c1) (fb_expires v).
Proof. exact ct_count_exp. Qed.
(* in every parsed message, under any feeding schedule: every finished Contact value - stored in the caller's array, kept as the
   scratch value beyond it, or remembered as the first one - lies between the minimum and the maximum, and the count is not zero *)
Theorem C09_expires_summary_bounds_every_value : forall flags B offs bl n nc o s o' e m', testbit flags bSIPMsgNoMoreData = false -> offs <= nnat (length B) ->
  feeds flags B offs (msg_init bl (repeat hdr0 n) (repeat pfrom0 nc)) o s ->
  parse_sipmsg flags B o s = Done o' e m' -> m_state m' = MFIN \/ m_state m' = MNoCLen ->
  let c := pv_contacts (msg_pv m') in
  let ok (v : pfrom) := fb_parsed v = true -> ct_n c <> 0 /\ ct_minexp c <= fb_expires v /\ fb_expires v <= ct_maxexp c in
  Forall ok (ct_vals c) /\ ok (ct_last c) /\ ok (ct_first c).
Proof.
  intros flags B offs bl n nc o s o' e m' Hf Ho Hfd H Hs.
  destruct (message_np_fed flags B offs bl n nc o s o' e m' Hf Ho Hfd H Hs) as (_ & _ & _ & (_ & HX) & _). exact HX.
Qed.
(* ---- the parameter part in general ------------------------------------------------------------------------------------------------------------ *)
Theorem C09_bracketed_uri_and_parameters : forall h (junk uri g : list byte) L t (sp : list byte) x tail,
  Forall uchar uri -> gap 0 g -> Forall t_ok L -> t_ok t -> spaces sp -> is_sp x = false ->
  let i0 := nnat (length junk) in let i := i0 + nnat (length (headA uri g)) in let j := i + nnat (length (its_bytes L)) in
  parse_nameaddr h (junk ++ headA uri g ++ its_bytes L ++ t_body t ++ sp ++ CR :: LF :: x :: tail) i0 pfrom0
  = Done (t_d j t + nnat (length sp) + 2) EOk (finW h (t_d j t) (t_apply false j t (its_state false i L (bA i0 (nnat (length uri)))))).
Proof. exact nameaddr_bracket_params_eol. Qed.
Theorem C09_bracketed_uri_and_parameters_then_comma : forall h (junk uri g : list byte) L t (y : list byte),
  multipleValsOk h = true -> Forall uchar uri -> gap 0 g -> Forall t_ok L -> t_ok t ->
  let i0 := nnat (length junk) in let i := i0 + nnat (length (headA uri g)) in let j := i + nnat (length (its_bytes L)) in
  parse_nameaddr h (junk ++ headA uri g ++ its_bytes L ++ t_body t ++ t_g4 t ++ (44 : byte) :: y) i0 pfrom0
  = Done (t_d j t + nnat (length (t_g4 t)) + 1) EMoreValues (finW h (t_d j t) (t_apply false j t (its_state false i L (bA i0 (nnat (length uri)))))).
Proof. exact nameaddr_bracket_params_comma. Qed.
Theorem C09_bare_uri_and_parameters : forall h (junk : list byte) n0 (name g : list byte) L t (sp : list byte) x tail,
  nchar0 n0 -> Forall nchar name -> gap 0 g -> Forall t_ok L -> t_ok t -> spaces sp -> is_sp x = false ->
  let i0 := nnat (length junk) in let i := i0 + nnat (length (headB n0 name g)) in let j := i + nnat (length (its_bytes L)) in
  parse_nameaddr h (junk ++ headB n0 name g ++ its_bytes L ++ t_body t ++ sp ++ CR :: LF :: x :: tail) i0 pfrom0
  = Done (t_d j t + nnat (length sp) + 2) EOk (finW h (t_d j t) (t_apply true j t (its_state true i L (bB i0 (nnat (length (n0 :: name))) g)))).
Proof. exact nameaddr_bare_params_eol. Qed.
Theorem C09_bare_uri_and_parameters_then_comma : forall h (junk : list byte) n0 (name g : list byte) L t (y : list byte),
  multipleValsOk h = true -> nchar0 n0 -> Forall nchar name -> gap 0 g -> Forall t_ok L -> t_ok t ->
  let i0 := nnat (length junk) in let i := i0 + nnat (length (headB n0 name g)) in let j := i + nnat (length (its_bytes L)) in
  parse_nameaddr h (junk ++ headB n0 name g ++ its_bytes L ++ t_body t ++ t_g4 t ++ (44 : byte) :: y) i0 pfrom0
  = Done (t_d j t + nnat (length (t_g4 t)) + 1) EMoreValues (finW h (t_d j t) (t_apply true j t (its_state true i L (bB i0 (nnat (length (n0 :: name))) g)))).
Proof. exact nameaddr_bare_params_comma. Qed.
(* what the statements are made of *)
Theorem C09_heads_mean : forall uri g n0 name,
  headA uri g = (60 : byte) :: uri ++ (62 : byte) :: g ++ [(59 : byte)] /\ headB n0 name g = (n0 :: name) ++ g ++ [(59 : byte)].
Proof. intros. split; reflexivity. Qed.
Theorem C09_parameter_text_means : forall t,
  t_body t = t_g1 t ++ t_name t ++ (match t_val t with Some (g2, g3, V) => g2 ++ (61 : byte) :: g3 ++ V | None => [] end) /\
  t_bytes t = t_body t ++ t_g4 t ++ [(59 : byte)] /\
  (t_ok t <-> gap 0 (t_g1 t) /\ (exists n0 name, t_name t = n0 :: name /\ pchar n0 /\ Forall pchar name) /\
              match t_val t with Some (g2, g3, V) => gap 0 g2 /\ gap 0 g3 /\ valtxt V | None => True end /\ gap 0 (t_g4 t)).
Proof. intros t. split; [reflexivity|]. split; reflexivity. Qed.
Theorem C09_value_text_means : forall V, valtxt V <->
  (exists v0 value, V = v0 :: value /\ vchar v0 /\ Forall vchar value) \/ (exists q, V = (34 : byte) :: q ++ [(34 : byte)] /\ fqc q).
Proof.
  intros V. split.
  - intros [v0 value H1 H2|q Hq]; [left; eauto|right; eauto].
  - intros [(v0 & value & -> & H1 & H2)|(q & -> & Hq)]; [apply vt_tok; assumption|apply vt_quoted; exact Hq].
Qed.
Theorem C09_white_space_means : forall w, gap 0 w <->
  w = [] \/ ((exists c0 w', w = c0 :: w' /\ is_ws c0 = true) /\ forall c r, is_ws c = false -> skipLWS false (w ++ c :: r) = LOk (length w)).
Proof. intros w. reflexivity. Qed.
(* every parameter in order: the state after a parameter is the state before it with the parameter handed to the dispatch *)
Theorem C09_parameters_in_order_mean : forall p i t L b,
  its_state p i [] b = b /\ its_state p i (t :: L) b = its_state p (i + nnat (length (t_bytes t))) L (t_apply p i t b) /\
  t_apply p i t b =
    (let a := i + nnat (length (t_g1 t)) in let e := a + nnat (length (t_name t)) in let d := i + nnat (length (t_body t)) in
     let prm := if po (fb_params b) =? 0 then mkpf a (pl (fb_params b)) else fb_params b in
     match t_val t with
     | Some (g2, g3, V) => pclr (apply_param (t_name t) V (W b (st_newparam p) a e (e + nnat (length g2) + 1 + nnat (length g3)) d prm))
     | None => pclr (apply_flag (t_name t) (W b (st_newparam p) a e 0 0 prm))
     end).
Proof. intros p i t L b. split; [reflexivity|]. split; [reflexivity|]. unfold t_apply, t_c, t_e, t_a, t_d, prm1. destruct (t_val t) as [[[g2 g3] V]|]; reflexivity. Qed.
Theorem C09_dispatch_means : forall name val s,
  apply_param name val s =
    (if eqb_nocase name str_tag then s <| fb_tag := mkpf (fb_vstart s) (fb_vend s - fb_vstart s) |>
     else if eqb_nocase name str_expires then
       s <| fb_hasexp := true |> <| fb_expires := (let '(e, _) := pUInt64Val val in if e <? MaxU32 then e else MaxU32) |>
     else if eqb_nocase name str_q then set_q val s
     else if eqb_nocase name str_lr then s <| fb_lr := true |>
     else s) /\
  apply_flag name s = (if eqb_nocase name str_lr then s <| fb_lr := true |> else s).
Proof. intros. split; reflexivity. Qed.
Theorem C09_general_result_fields : forall h p L t i b d, 0 < i -> po (fb_params b) = 0 ->
  let j := i + nnat (length (its_bytes L)) in
  let s' := finW h d (t_apply p j t (its_state p i L b)) in
  fb_state s' = FbFIN /\ fb_type s' = h /\ fb_name s' = fb_name b /\ fb_uri s' = fb_uri b /\ fb_star s' = fb_star b /\
  fb_params s' = mkpf (first_a i L t) (d - first_a i L t) /\ fb_v s' = mkpf (po (fb_v b)) (d - po (fb_v b)).
Proof. exact gen_result_fields. Qed.
Theorem C09_head_states_mean : forall i0 lu g,
  bA i0 lu = mkpfrom pf0 (mkpf (i0 + 1) lu) pf0 false false false 0 0 0 pf0 (mkpf i0 (lu + 2)) EOk 0 FbNewParam 0 0 0 0 0 /\
  fb_uri (bB i0 lu g) = mkpf i0 lu /\ fb_name (bB i0 lu g) = pf0 /\ fb_star (bB i0 lu g) = false /\ po (fb_v (bB i0 lu g)) = i0 /\ po (fb_params (bB i0 lu g)) = 0.
Proof. intros. repeat split; reflexivity. Qed.
(* satisfiable, and the closed forms evaluated: " <a> ;tag=x1 ; expires = 30;lr;x=\"a,b\"" CR LF at offset 1 (Contact), and
   "s:a;lr ;tag=z ," - a bare URI, ended by a comma *)
Example C09_general_example :
  let L := [mkpit [] [116;97;103] (Some ([], [], [120;49])) [32]; mkpit [32] [101;120;112;105;114;101;115] (Some ([32], [32], [51;48])) []; mkpit [] [108;114] None []] in
  let t := mkpit [] [120] (Some ([], [], [34;97;44;98;34])) [] in
  Forall t_ok L /\ t_ok t /\ gap 0 [32] /\
  [32] ++ headA [97] [32] ++ its_bytes L ++ t_body t ++ [] ++ CR :: LF :: [65]
  = [32; 60;97;62; 32; 59; 116;97;103;61;120;49; 32; 59; 32; 101;120;112;105;114;101;115; 32; 61; 32; 51;48; 59; 108;114; 59; 120;61;34;97;44;98;34; 13;10; 65] /\
  finW HdrContact (t_d 31 t) (t_apply false 31 t (its_state false 6 L (bA 1 1)))
  = mkpfrom pf0 (mkpf 2 1) (mkpf 10 2) false true true HdrContact 0 30 (mkpf 6 32) (mkpf 1 37) EOk 0 FbFIN 0 0 0 0 0 /\
  let t2 := mkpit [] [116;97;103] (Some ([], [], [122])) [32] in
  t_ok t2 /\ t_ok (mkpit [] [108;114] None [32]) /\
  headB 115 [58;97] [] ++ its_bytes [mkpit [] [108;114] None [32]] ++ t_body t2 ++ t_g4 t2 ++ 44 :: [60] = [115;58;97;59; 108;114;32;59; 116;97;103;61;122; 32; 44; 60] /\
  finW HdrContact (t_d 8 t2) (t_apply true 8 t2 (its_state true 4 [mkpit [] [108;114] None [32]] (bB 0 3 [])))
  = mkpfrom pf0 (mkpf 0 3) (mkpf 12 1) false true false HdrContact 0 0 (mkpf 4 9) (mkpf 0 13) EOk 0 FbFIN 0 0 0 0 0.
Proof.
  assert (Gs : gap 0 [32]) by (right; apply wsrun_blanks; [discriminate|repeat constructor]).
  assert (G0 : gap 0 []) by (left; reflexivity).
  assert (P : forall c, ccls_of c = KOther -> pchar c) by (intros c H; exact H).
  cbv zeta. repeat split; try exact Gs; try exact G0; try (vm_compute; reflexivity).
  all: try (apply (vt_quoted [97;44;98]); repeat (apply fqc_plain; [discriminate|discriminate|discriminate|]); apply fqc_nil).
  all: try (apply vt_tok; [exact I|repeat constructor]).
  all: try (repeat constructor; fail).
  all: try (constructor; [|constructor; [|constructor; [|constructor]]]; unfold t_ok; cbn [t_g1 t_name t_val t_g4]; repeat split; try exact Gs; try exact G0).
  all: try (apply vt_tok; [exact I|repeat constructor]).
  all: try (eexists; eexists; split; [reflexivity|split; [reflexivity|repeat constructor]]).
  all: try (apply vt_tok; [exact I|repeat constructor]).
Qed.
(* LWS may be folds: "<a>" CRLF SP ";" CRLF SP "tag" SP "=" CRLF SP "x" SP CRLF - hypotheses satisfiable, closed form evaluated *)
Definition c09_ex_fold : list byte := [13;10;32].
Definition c09_ex_tf : pit := mkpit c09_ex_fold [116;97;103] (Some ([32], c09_ex_fold, [120])) [].
Example C09_folded_parameters_example :
  gap 0 c09_ex_fold /\ t_ok c09_ex_tf /\
  headA [97] c09_ex_fold ++ its_bytes [] ++ t_body c09_ex_tf ++ [32] ++ CR :: LF :: [65]
  = [60;97;62; 13;10;32; 59; 13;10;32; 116;97;103; 32; 61; 13;10;32; 120; 32; 13;10; 65] /\
  t_d 7 c09_ex_tf = 19 /\
  finW HdrFrom 19 (t_apply false 7 c09_ex_tf (its_state false 7 [] (bA 0 1)))
  = mkpfrom pf0 (mkpf 1 1) (mkpf 18 1) false false false HdrFrom 0 0 (mkpf 10 9) (mkpf 0 19) EOk 0 FbFIN 0 0 0 0 0.
Proof.
  assert (Wf : wsrun 0 c09_ex_fold) by (apply (wsrun_fold 0 [] [32]); [constructor|repeat constructor|discriminate]).
  assert (Ws : wsrun 0 [32]) by (apply wsrun_blanks; [discriminate|repeat constructor]).
  split; [right; exact Wf|]. split; [|split; [vm_compute; reflexivity|split; vm_compute; reflexivity]].
  unfold t_ok, c09_ex_tf. cbn [t_g1 t_name t_val t_g4]. split; [right; exact Wf|]. split; [exists 116, [97;103]; split; [reflexivity|split; [reflexivity|repeat constructor]]|].
  split; [split; [right; exact Ws|split; [right; exact Wf|apply vt_tok; [exact I|constructor]]]|left; reflexivity].
Qed.
(* ---- any display name in front of the bracketed URI: token words, or a quoted string, then more words ----------------------------------- *)
Theorem C09_display_name_uri : forall h (junk D uri sp : list byte) x tail, disp D -> Forall uchar uri -> spaces sp -> is_sp x = false ->
  let i0 := nnat (length junk) in let us := i0 + nnat (length D) + 1 in let lu := nnat (length uri) in
  parse_nameaddr h (junk ++ bhead D uri ++ sp ++ CR :: LF :: x :: tail) i0 pfrom0 = Done (us + lu + 1 + nnat (length sp) + 2) EOk (fD h (dname i0 D) i0 us lu).
Proof. exact nameaddr_display_uri_eol. Qed.
Theorem C09_display_name_uri_then_comma : forall h (junk D uri g y : list byte), multipleValsOk h = true -> disp D -> Forall uchar uri -> gap 0 g ->
  let i0 := nnat (length junk) in let us := i0 + nnat (length D) + 1 in let lu := nnat (length uri) in
  parse_nameaddr h (junk ++ bhead D uri ++ g ++ (44 : byte) :: y) i0 pfrom0 = Done (us + lu + 1 + nnat (length g) + 1) EMoreValues (fD h (dname i0 D) i0 us lu).
Proof. exact nameaddr_display_uri_comma. Qed.
Theorem C09_display_name_uri_and_parameters : forall h (junk D uri g : list byte) L t (sp : list byte) x tail,
  disp D -> Forall uchar uri -> gap 0 g -> Forall t_ok L -> t_ok t -> spaces sp -> is_sp x = false ->
  let i0 := nnat (length junk) in let us := i0 + nnat (length D) + 1 in let lu := nnat (length uri) in
  let i := us + lu + 1 + nnat (length g) + 1 in let j := i + nnat (length (its_bytes L)) in
  parse_nameaddr h (junk ++ bhead D uri ++ g ++ (59 : byte) :: its_bytes L ++ t_body t ++ sp ++ CR :: LF :: x :: tail) i0 pfrom0
  = Done (t_d j t + nnat (length sp) + 2) EOk (finW h (t_d j t) (t_apply false j t (its_state false i L (bD (dname i0 D) i0 us lu)))).
Proof. exact nameaddr_display_params_eol. Qed.
Theorem C09_display_name_uri_and_parameters_then_comma : forall h (junk D uri g : list byte) L t (y : list byte),
  multipleValsOk h = true -> disp D -> Forall uchar uri -> gap 0 g -> Forall t_ok L -> t_ok t ->
  let i0 := nnat (length junk) in let us := i0 + nnat (length D) + 1 in let lu := nnat (length uri) in
  let i := us + lu + 1 + nnat (length g) + 1 in let j := i + nnat (length (its_bytes L)) in
  parse_nameaddr h (junk ++ bhead D uri ++ g ++ (59 : byte) :: its_bytes L ++ t_body t ++ t_g4 t ++ (44 : byte) :: y) i0 pfrom0
  = Done (t_d j t + nnat (length (t_g4 t)) + 1) EMoreValues (finW h (t_d j t) (t_apply false j t (its_state false i L (bD (dname i0 D) i0 us lu)))).
Proof. exact nameaddr_display_params_comma. Qed.
(* the display part: nothing; a word; a word and white space; a word, white space, more words; a quoted string and more words.  The
   name reported runs from its first byte up to the "<" (what the library's own test expects); URI and whole-value span as written *)
Theorem C09_display_part_means : forall D, disp D <->
  D = [] \/
  (exists n0 name, D = n0 :: name /\ nchar0 n0 /\ Forall nchar name) \/
  (exists n0 name w, D = (n0 :: name) ++ w /\ nchar0 n0 /\ Forall nchar name /\ wsrun 0 w) \/
  (exists n0 name w c T, D = (n0 :: name) ++ w ++ c :: T /\ nchar0 n0 /\ Forall nchar name /\ wsrun 0 w /\ nchar0 c /\ ntail T) \/
  (exists q T, D = (34 : byte) :: q ++ (34 : byte) :: T /\ fqc q /\ ntail T).
Proof.
  intros D. split.
  - intros [|n0 name H1 H2|n0 name w H1 H2 H3|n0 name w c T H1 H2 H3 H4 H5|q T H1 H2].
    + left; reflexivity.
    + right; left. exists n0, name. auto.
    + right; right; left. exists n0, name, w. auto.
    + right; right; right; left. exists n0, name, w, c, T. auto 6.
    + right; right; right; right. exists q, T. auto.
  - intros [->|[(n0 & name & -> & H1 & H2)|[(n0 & name & w & -> & H1 & H2 & H3)|[(n0 & name & w & c & T & -> & H1 & H2 & H3 & H4 & H5)|(q & T & -> & H1 & H2)]]]].
    + constructor.
    + apply d_word; assumption.
    + apply d_word_ws; assumption.
    + apply d_words; assumption.
    + apply d_quoted; assumption.
Qed.
Theorem C09_display_result_means : forall h nm i0 us lu D uri,
  fD h nm i0 us lu = mkpfrom nm (mkpf us lu) pf0 false false false h 0 0 pf0 (mkpf i0 (us + lu + 1 - i0)) EOk 0 FbFIN 0 0 0 0 0 /\
  bD nm i0 us lu = mkpfrom nm (mkpf us lu) pf0 false false false 0 0 0 pf0 (mkpf i0 (us + lu + 1 - i0)) EOk 0 FbNewParam 0 0 0 0 0 /\
  dname i0 D = (match D with [] => pf0 | _ => mkpf i0 (nnat (length D)) end) /\ bhead D uri = D ++ (60 : byte) :: uri ++ [(62 : byte)].
Proof. intros. repeat split; try reflexivity. destruct D; reflexivity. Qed.
(* satisfiable and evaluated: X"B,b" <s:a>;tag=x CR LF at offset 1 (the comma inside the quotes does not split), and
   Al Bo<s> , - two words, then a comma after white space *)
Example C09_display_example :
  let D1 := (34 : byte) :: [66;44;98] ++ (34 : byte) :: [32] in let t := mkpit [] [116;97;103] (Some ([], [], [120])) [] in
  disp D1 /\ t_ok t /\
  [88] ++ bhead D1 [115;58;97] ++ [] ++ (59 : byte) :: its_bytes [] ++ t_body t ++ [] ++ CR :: LF :: [65]
  = [88; 34;66;44;98;34; 32; 60; 115;58;97; 62; 59; 116;97;103;61;120; 13;10; 65] /\
  finW HdrFrom (t_d 13 t) (t_apply false 13 t (its_state false 13 [] (bD (dname 1 D1) 1 8 3)))
  = mkpfrom (mkpf 1 6) (mkpf 8 3) (mkpf 17 1) false false false HdrFrom 0 0 (mkpf 13 5) (mkpf 1 17) EOk 0 FbFIN 0 0 0 0 0 /\
  let D2 := [65;108] ++ [32] ++ 66 :: [111] in
  disp D2 /\ bhead D2 [115] ++ [32] ++ 44 :: [60] = [65;108;32;66;111; 60;115;62; 32; 44; 60] /\
  fD HdrContact (dname 0 D2) 0 6 1 = mkpfrom (mkpf 0 5) (mkpf 6 1) pf0 false false false HdrContact 0 0 pf0 (mkpf 0 8) EOk 0 FbFIN 0 0 0 0 0.
Proof.
  assert (Ws : wsrun 0 [32]) by (apply wsrun_blanks; [discriminate|repeat constructor]).
  cbv zeta. split; [|split; [|split; [vm_compute; reflexivity|split; [vm_compute; reflexivity|split; [|split; vm_compute; reflexivity]]]]].
  - apply (d_quoted [66;44;98] [32]); [repeat (apply fqc_plain; [discriminate|discriminate|discriminate|]); apply fqc_nil|apply nt_w; exact Ws].
  - unfold t_ok. cbn [t_g1 t_name t_val t_g4]. repeat split; try (left; reflexivity).
    + exists 116, [97;103]. split; [reflexivity|split; [reflexivity|repeat constructor]].
    + apply vt_tok; [exact I|constructor].
  - apply (d_words 65 [108] [32] 66 [111]); [exact I|repeat constructor|exact Ws|exact I|apply nt_c; [exact I|constructor]].
Qed.
(* ---- a bare URI without parameters ------------------------------------------------------------------------------------------------------------ *)
Theorem C09_bare_uri : forall h (junk : list byte) n0 (name sp : list byte) x tail, nchar0 n0 -> Forall nchar name -> spaces sp -> is_sp x = false ->
  let i0 := nnat (length junk) in let lu := nnat (length (n0 :: name)) in
  parse_nameaddr h (junk ++ (n0 :: name) ++ sp ++ CR :: LF :: x :: tail) i0 pfrom0 = Done (i0 + lu + nnat (length sp) + 2) EOk (fB h i0 lu).
Proof. exact nameaddr_bare_eol. Qed.
Theorem C09_bare_uri_then_comma : forall h (junk : list byte) n0 (name g y : list byte), multipleValsOk h = true -> nchar0 n0 -> Forall nchar name -> gap 0 g ->
  let i0 := nnat (length junk) in let lu := nnat (length (n0 :: name)) in
  parse_nameaddr h (junk ++ (n0 :: name) ++ g ++ (44 : byte) :: y) i0 pfrom0 = Done (i0 + lu + nnat (length g) + 1) EMoreValues (fB h i0 lu).
Proof. exact nameaddr_bare_comma. Qed.
Theorem C09_bare_result_means : forall h i0 lu, fB h i0 lu = mkpfrom pf0 (mkpf i0 lu) pf0 false false false h 0 0 pf0 (mkpf i0 lu) EOk 0 FbFIN 0 0 0 0 0.
Proof. reflexivity. Qed.
(* the star value *)
Theorem C09_star_value : forall h (junk sp : list byte) x tail, spaces sp -> is_sp x = false ->
  let i0 := nnat (length junk) in
  parse_nameaddr h (junk ++ (42 : byte) :: sp ++ CR :: LF :: x :: tail) i0 pfrom0
  = Done (i0 + 1 + nnat (length sp) + 2) EOk (mkpfrom pf0 (mkpf i0 1) pf0 true false false h 0 0 pf0 (mkpf i0 1) EOk 0 FbFIN 0 0 0 0 0).
Proof. exact nameaddr_star_eol. Qed.
(* P-Asserted-Identity: ParseOnePAI is the same value parser (kind HdrPAI) and only turns a star into an error, so every value
   theorem above holds for it as it stands (the values they describe have no star) *)
Theorem C09_pai_value_same_as_nameaddr : forall buf offs s o e s', parse_nameaddr HdrPAI buf offs s = Done o e s' -> fb_star s' = false ->
  parse_one_pai buf offs s = Done o e s'.
Proof. exact pai_one_same. Qed.
Theorem C09_general_values_have_no_star : forall h p L t i d nm i0 us lu g (n0 : byte) (name : list byte),
  fb_star (finW h d (t_apply p (i + nnat (length (its_bytes L))) t (its_state p i L (bD nm i0 us lu)))) = false /\
  fb_star (finW h d (t_apply p (i + nnat (length (its_bytes L))) t (its_state p i L (bB i0 lu g)))) = false /\
  fb_star (fD h nm i0 us lu) = false /\ fb_star (fB h i0 (nnat (length (n0 :: name)))) = false.
Proof. intros. repeat split; try reflexivity; apply general_values_no_star; reflexivity. Qed.
(* quoted strings (display names and parameter values): plain bytes, backslash escapes, and white space that the LWS skipper crosses
   (blanks, folds); commas and semicolons inside do not matter.  URIs in brackets may contain commas too (uchar). *)
Theorem C09_quoted_content_means : forall q, fqc q <->
  q = [] \/
  (exists c q', q = c :: q' /\ ccls_of c <> KDq /\ ccls_of c <> KBsl /\ ccls_of c <> KWs /\ fqc q') \/
  (exists d q', q = (92 : byte) :: d :: q' /\ is_crlf d = false /\ fqc q') \/
  (exists w q', q = w ++ q' /\ wsrun 0 w /\ fqc q' /\ (q' = [] \/ exists c q'', q' = c :: q'' /\ is_ws c = false)).
Proof.
  intros q. split.
  - intros [|c q' H1 H2 H3 H4|d q' H1 H2|w q' H1 H2 H3]; [left; reflexivity|right; left; eauto 8|right; right; left; eauto|right; right; right; eauto 8].
  - intros [->|[(c & q' & -> & H1 & H2 & H3 & H4)|[(d & q' & -> & H1 & H2)|(w & q' & -> & H1 & H2 & H3)]]];
      [constructor|apply fqc_plain; assumption|apply fqc_esc; assumption|apply fqc_ws; assumption].
Qed.
Example C09_quoted_with_blank_and_comma : (* "A, B" - comma and blank inside the quotes *)
  fqc [65;44;32;66] /\ Forall uchar [115;58;97;44;98] /\
  parse_nameaddr HdrContact ((34 : byte) :: [65;44;32;66] ++ (34 : byte) :: [32] ++ (60 : byte) :: [115;58;97;44;98] ++ [62; 13; 10; 65]) 0 pfrom0
  = Done 16 EOk (mkpfrom (mkpf 0 7) (mkpf 8 5) pf0 false false false HdrContact 0 0 pf0 (mkpf 0 14) EOk 0 FbFIN 0 0 0 0 0).
Proof.
  split; [|split; [repeat (constructor; [exact I|]); constructor|vm_compute; reflexivity]].
  apply fqc_plain; [discriminate|discriminate|discriminate|]. apply fqc_plain; [discriminate|discriminate|discriminate|].
  apply (fqc_ws [32] [66]); [apply wsrun_blanks; [discriminate|repeat constructor]|apply fqc_plain; [discriminate|discriminate|discriminate|apply fqc_nil]|].
  right. exists 66, []. split; reflexivity.
Qed.
(* ---- the Contact list with general values ------------------------------------------------------------------------------------------------------ *)
Theorem C09_contact_list_general_values : forall gs (junk sp : list byte) x tail n, gs <> [] -> Forall gv_ok gs -> spaces sp -> is_sp x = false ->
  let i := nnat (length junk) in
  let vs := gl_vals i gs in
  exists C, parse_all_contacts (junk ++ gl_text gs sp ++ CR :: LF :: x :: tail) i (contacts_init (repeat pfrom0 n))
            = Done (gl_end i gs + nnat (length sp) + 2) EOk C /\
    ct_n C = nnat (length gs) /\
    (forall j, (j < length gs)%nat -> (j < n)%nat -> nth j (ct_vals C) pfrom0 = nth j vs pfrom0) /\
    ct_lasthval C = mkpf (gl_start i gs) (gl_end i gs - gl_start i gs).
Proof. exact contact_general_list_spec. Qed.
(* the values it covers: any display part + bracketed URI, with or without the general parameter part *)
Theorem C09_general_values_are_covered : forall l D uri g L t, gap 0 l -> disp D -> Forall uchar uri -> gap 0 g ->
  gv_ok (gv_plain l D uri g) /\ (Forall t_ok L -> t_ok t -> gv_ok (gv_params l D uri g L t)).
Proof. intros l D uri g L t Hl HD Hu Hg. split; [apply gv_plain_ok; assumption|intros HL Ht; apply gv_params_ok; assumption]. Qed.
Theorem C09_bare_values_are_covered : forall l n0 name g L t, gap 0 l -> nchar0 n0 -> Forall nchar name -> gap 0 g ->
  gv_ok (gv_bare l n0 name g) /\ (Forall t_ok L -> t_ok t -> gv_ok (gv_bare_params l n0 name g L t)).
Proof. intros l n0 name g L t Hl H0 H1 Hg. split; [apply gv_bare_ok; assumption|intros HL Ht; apply gv_bare_params_ok; assumption]. Qed.
(* a value: white space in front (skipped), the text, white space before the comma (given back); it is reported at the offset of its text *)
Theorem C09_general_list_means : forall g g2 gs sp i,
  gl_text [g] sp = gv_l g ++ gv_x g ++ sp /\ gl_text (g :: g2 :: gs) sp = gv_l g ++ gv_x g ++ gv_g g ++ [(44 : byte)] ++ gl_text (g2 :: gs) sp /\
  gl_vals i [g] = [gv_v g (i + nnat (length (gv_l g)))] /\
  gl_vals i (g :: g2 :: gs) = gv_v g (i + nnat (length (gv_l g))) :: gl_vals (i + nnat (length (gv_l g ++ gv_x g ++ gv_g g ++ [(44 : byte)]))) (g2 :: gs) /\
  gl_end i [g] = i + nnat (length (gv_l g)) + nnat (length (gv_x g)) /\
  gl_end i (g :: g2 :: gs) = gl_end (i + nnat (length (gv_l g ++ gv_x g ++ gv_g g ++ [(44 : byte)]))) (g2 :: gs) /\
  gl_start i (g :: gs) = i + nnat (length (gv_l g)).
Proof. intros. cbn [gl_text gl_vals gl_end gl_start]. unfold gv_step, gv_at. rewrite <- !app_assoc. repeat split; reflexivity. Qed.
Theorem C09_general_value_means : forall l D uri g L t i0,
  gv_l (gv_plain l D uri g) = l /\ gv_x (gv_plain l D uri g) = bhead D uri /\ gv_g (gv_plain l D uri g) = g /\
  gv_v (gv_plain l D uri g) i0 = fD HdrContact (dname i0 D) i0 (i0 + nnat (length D) + 1) (nnat (length uri)) /\
  gv_l (gv_params l D uri g L t) = l /\ gv_x (gv_params l D uri g L t) = bhead D uri ++ g ++ (59 : byte) :: its_bytes L ++ t_body t /\ gv_g (gv_params l D uri g L t) = t_g4 t /\
  gv_v (gv_params l D uri g L t) i0 =
    (let us := i0 + nnat (length D) + 1 in let lu := nnat (length uri) in
     let i := us + lu + 1 + nnat (length g) + 1 in let j := i + nnat (length (its_bytes L)) in
     finW HdrContact (t_d j t) (t_apply false j t (its_state false i L (bD (dname i0 D) i0 us lu)))).
Proof. intros. repeat split; reflexivity. Qed.
Theorem C09_bare_value_means : forall l n0 name g L t i0,
  gv_l (gv_bare l n0 name g) = l /\ gv_x (gv_bare l n0 name g) = n0 :: name /\ gv_g (gv_bare l n0 name g) = g /\ gv_v (gv_bare l n0 name g) i0 = fB HdrContact i0 (nnat (length (n0 :: name))) /\
  gv_l (gv_bare_params l n0 name g L t) = l /\ gv_x (gv_bare_params l n0 name g L t) = headB n0 name g ++ its_bytes L ++ t_body t /\ gv_g (gv_bare_params l n0 name g L t) = t_g4 t /\
  gv_v (gv_bare_params l n0 name g L t) i0 =
    (let i := i0 + nnat (length (headB n0 name g)) in let j := i + nnat (length (its_bytes L)) in
     finW HdrContact (t_d j t) (t_apply true j t (its_state true i L (bB i0 (nnat (length (n0 :: name))) g)))).
Proof. intros. repeat split; reflexivity. Qed.
(* satisfiable and evaluated: C:"A,B" <s:a>;q=1 , <s:b>,s:c CR LF at offset 2 into an array of one: three values counted, the first
   stored, the comma inside the quotes does not split, the white space after the comma is skipped, the header-value span runs from
   the first quote to the last byte of the bare URI *)
Definition c09_ex_D1 : list byte := (34 : byte) :: [65;44;66] ++ (34 : byte) :: [32].
Definition c09_ex_t : pit := mkpit [] [113] (Some ([], [], [49])) [32].
Definition c09_ex_gs : list gval := [gv_params [] c09_ex_D1 [115;58;97] [] [] c09_ex_t; gv_plain [32] [] [115;58;98] []; gv_bare [] 115 [58;99] []].
Example C09_general_list_example :
  Forall gv_ok c09_ex_gs /\
  [67;58] ++ gl_text c09_ex_gs [] ++ CR :: LF :: [65]
  = [67;58; 34;65;44;66;34; 32; 60;115;58;97;62; 59; 113;61;49; 32; 44; 32; 60;115;58;98;62; 44; 115;58;99; 13;10; 65] /\
  gl_start 2 c09_ex_gs = 2 /\ gl_end 2 c09_ex_gs = 29 /\
  gl_vals 2 c09_ex_gs = [mkpfrom (mkpf 2 6) (mkpf 9 3) pf0 false false false HdrContact 1000 0 (mkpf 14 3) (mkpf 2 15) EOk 0 FbFIN 0 0 0 0 0;
                         mkpfrom pf0 (mkpf 21 3) pf0 false false false HdrContact 0 0 pf0 (mkpf 20 5) EOk 0 FbFIN 0 0 0 0 0;
                         mkpfrom pf0 (mkpf 26 3) pf0 false false false HdrContact 0 0 pf0 (mkpf 26 3) EOk 0 FbFIN 0 0 0 0 0] /\
  match parse_all_contacts ([67;58] ++ gl_text c09_ex_gs [] ++ CR :: LF :: [65]) 2 (contacts_init (repeat pfrom0 1)) with
  | Done o e C => o = 31 /\ e = EOk /\ ct_n C = 3 /\ ct_lasthval C = mkpf 2 27
  | _ => False
  end.
Proof.
  assert (Ws : wsrun 0 [32]) by (apply wsrun_blanks; [discriminate|repeat constructor]).
  split; [|split; [vm_compute; reflexivity|split; [vm_compute; reflexivity|split; [vm_compute; reflexivity|split; [vm_compute; reflexivity|vm_compute; repeat split; reflexivity]]]]].
  unfold c09_ex_gs. constructor; [|constructor; [|constructor; [|constructor]]].
  - apply gv_params_ok; [left; reflexivity| |repeat constructor|left; reflexivity|constructor|].
    + apply (d_quoted [65;44;66] [32]); [repeat (apply fqc_plain; [discriminate|discriminate|discriminate|]); apply fqc_nil|apply nt_w; exact Ws].
    + unfold t_ok, c09_ex_t. cbn [t_g1 t_name t_val t_g4]. split; [left; reflexivity|]. split; [exists 113, []; split; [reflexivity|split; [reflexivity|constructor]]|].
      split; [split; [left; reflexivity|split; [left; reflexivity|apply vt_tok; [exact I|constructor]]]|right; exact Ws].
  - apply gv_plain_ok; [right; exact Ws|constructor|repeat constructor|left; reflexivity].
  - apply gv_bare_ok; [left; reflexivity|exact I|repeat constructor|left; reflexivity].
Qed.
(* ---- the P-Asserted-Identity list with general values ------------------------------------------------------------------------------------------- *)
Theorem C09_pai_list_general_values : forall gs (junk sp : list byte) x tail, gs <> [] -> Forall (gv_okh HdrPAI) gs -> spaces sp -> is_sp x = false ->
  let i := nnat (length junk) in
  let vs := gl_vals i gs in
  exists C, parse_all_pais (junk ++ gl_text gs sp ++ CR :: LF :: x :: tail) i pais0
            = Done (gl_end i gs + nnat (length sp) + 2) EOk C /\
    pa_n C = nnat (length gs) /\
    (forall j, (j < length gs)%nat -> (j < paiVals)%nat -> nth j (pa_vals C) pfrom0 = nth j vs pfrom0) /\
    pa_lasthval C = mkpf (gl_start i gs) (gl_end i gs - gl_start i gs).
Proof. exact pai_general_list_spec. Qed.
(* the same values, of kind HdrPAI (and in general of any kind that takes several values) *)
Theorem C09_values_of_any_multi_value_kind : forall h l D uri g n0 name L t, multipleValsOk h = true -> gap 0 l -> gap 0 g ->
  (disp D -> Forall uchar uri -> gv_okh h (gv_plainh h l D uri g) /\ (Forall t_ok L -> t_ok t -> gv_okh h (gv_paramsh h l D uri g L t))) /\
  (nchar0 n0 -> Forall nchar name -> gv_okh h (gv_bareh h l n0 name g) /\ (Forall t_ok L -> t_ok t -> gv_okh h (gv_bare_paramsh h l n0 name g L t))).
Proof.
  intros h l D uri g n0 name L t Hmv Hl Hg. split.
  - intros HD Hu. split; [apply gv_plain_okh; assumption|intros HL Ht; apply gv_params_okh; assumption].
  - intros H0 H1. split; [apply gv_bare_okh; assumption|intros HL Ht; apply gv_bare_params_okh; assumption].
Qed.
Theorem C09_value_requirements_mean : forall h g, gv_okh h g <->
  gap 0 (gv_l g) /\ (exists c X', gv_x g = c :: X' /\ is_ws c = false) /\ gap 0 (gv_g g) /\ gv_x g <> [] /\
  (forall (pre y : list byte) i, i = nnat (length pre) ->
     run (fb_iter h) pre (gv_x g ++ gv_g g ++ (44 : byte) :: y) i 0 pfrom0 = Done (i + nnat (length (gv_x g)) + nnat (length (gv_g g)) + 1) EMoreValues (gv_v g i)) /\
  (forall (pre sp : list byte) x tail i, i = nnat (length pre) -> spaces sp -> is_sp x = false ->
     run (fb_iter h) pre (gv_x g ++ sp ++ CR :: LF :: x :: tail) i 0 pfrom0 = Done (i + nnat (length (gv_x g)) + nnat (length sp) + 2) EOk (gv_v g i)) /\
  (forall i, fb_parsed (gv_v g i) = true /\ fb_v (gv_v g i) = mkpf i (nnat (length (gv_x g))) /\ fb_star (gv_v g i) = false).
Proof. intros. reflexivity. Qed.
(* satisfiable and evaluated: P:<s:a> , "B" <s:b>;x=1 CR LF at offset 2 *)
Definition c09_ex_pgs : list gval :=
  [gv_plainh HdrPAI [] [] [115;58;97] [32]; gv_paramsh HdrPAI [32] ((34 : byte) :: [66] ++ (34 : byte) :: [32]) [115;58;98] [] [] (mkpit [] [120] (Some ([], [], [49])) [])].
Example C09_pai_list_example :
  Forall (gv_okh HdrPAI) c09_ex_pgs /\
  [80;58] ++ gl_text c09_ex_pgs [] ++ CR :: LF :: [65] = [80;58; 60;115;58;97;62; 32; 44; 32; 34;66;34; 32; 60;115;58;98;62; 59; 120;61;49; 13;10; 65] /\
  match parse_all_pais ([80;58] ++ gl_text c09_ex_pgs [] ++ CR :: LF :: [65]) 2 pais0 with
  | Done o e C => o = 25 /\ e = EOk /\ pa_n C = 2 /\ pa_lasthval C = mkpf 2 21 /\ firstn 2 (pa_vals C) = gl_vals 2 c09_ex_pgs
  | _ => False
  end.
Proof.
  assert (Ws : wsrun 0 [32]) by (apply wsrun_blanks; [discriminate|repeat constructor]).
  split; [|split; [vm_compute; reflexivity|vm_compute; repeat split; reflexivity]].
  unfold c09_ex_pgs. constructor; [|constructor; [|constructor]].
  - apply gv_plain_okh; [reflexivity|left; reflexivity|constructor|repeat constructor|right; exact Ws].
  - apply gv_params_okh; [reflexivity|right; exact Ws| |repeat constructor|left; reflexivity|constructor|].
    + apply (d_quoted [66] [32]); [apply fqc_plain; [discriminate|discriminate|discriminate|apply fqc_nil]|apply nt_w; exact Ws].
    + unfold t_ok. cbn [t_g1 t_name t_val t_g4]. split; [left; reflexivity|]. split; [exists 120, []; split; [reflexivity|split; [reflexivity|constructor]]|].
      split; [split; [left; reflexivity|split; [left; reflexivity|apply vt_tok; [exact I|constructor]]]|left; reflexivity].
Qed.
Print Assumptions C09_pai_list_general_values.
Print Assumptions C09_values_of_any_multi_value_kind.
Print Assumptions C09_contact_list_general_values.
Print Assumptions C09_general_values_are_covered.
Print Assumptions C09_bare_values_are_covered.
Print Assumptions C09_bare_uri_then_comma.
Print Assumptions C09_display_name_uri.
Print Assumptions C09_display_name_uri_then_comma.
Print Assumptions C09_display_name_uri_and_parameters.
Print Assumptions C09_display_name_uri_and_parameters_then_comma.
Print Assumptions C09_bracketed_uri_and_parameters.
Print Assumptions C09_bracketed_uri_and_parameters_then_comma.
Print Assumptions C09_bare_uri_and_parameters.
Print Assumptions C09_bare_uri_and_parameters_then_comma.
Print Assumptions C09_general_result_fields.
Print Assumptions C09_uri_and_tag_at_any_offset.
Print Assumptions C09_expires_summary_bounds_every_value.
