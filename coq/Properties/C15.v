(* C15: laws of the URI comparison.
   PROVED for the model: the short compare is symmetric, reflexive, monotone in the skip flags, user
   case-sensitive; the header-list comparison of two lists without duplicate names is true exactly when
   they hold the same (name, value) pairs up to letter case in any order (C15_header_lists_equal_iff);
   the parameter-list comparison (duplicate-free keys) is true exactly when the user / ttl / method /
   maddr presence masks agree and every pair of parameters with the same key has the same value up to
   letter case (C15_parameter_lists_equal_iff); from these: symmetry, reflexivity, independence of
   order and letter case for both lists; the parse-and-compare list entry points and the whole
   comparison URICmp are symmetric for every flag set (URIs whose lists parse without duplicate names),
   and skipping more components only turns "different" into "equal" for the whole comparison; the
   parse-and-compare entry point hands back both URIs.
   The lists compared are the first 100 entries (known finding F13: the library's temporaries). *)
From Sipsp Require Import Harness CmpLaws CmpLists UListSpec UHListSpec CmpRender.
From Coq Require Import Permutation.
Theorem C15_short_compare_symmetric : forall u1 b1 u2 b2 f, uri_cmp_short u1 b1 u2 b2 f = uri_cmp_short u2 b2 u1 b1 f.
Proof. exact cmp_short_sym. Qed.
Theorem C15_short_compare_reflexive : forall u b f,
  bget b (u_user u) <> None -> bget b (u_pass u) <> None -> bget b (u_host u) <> None ->
  uri_cmp_short u b u b f = Some true.
Proof. exact cmp_short_refl. Qed.
Theorem C15_skipping_more_only_turns_different_into_equal : forall u1 b1 u2 b2 f f', flags_le f f' ->
  uri_cmp_short u1 b1 u2 b2 f = Some true -> uri_cmp_short u1 b1 u2 b2 f' = Some true.
Proof. exact cmp_short_monotone. Qed.
Theorem C15_user_compares_case_sensitively : forall u1 b1 u2 b2 f x y,
  testbit f bURICmpSkipUser = false -> bget b1 (u_user u1) = Some x -> bget b2 (u_user u2) = Some y -> x <> y ->
  uri_cmp_short u1 b1 u2 b2 f <> Some true.
Proof. exact cmp_short_user_case_sensitive. Qed.
Theorem C15_letter_case_is_ignored_where_case_insensitive : forall a b, eqb_nocase (map to_lower a) b = eqb_nocase a b.
Proof. exact eqb_nocase_lower. Qed.
Theorem C15_parse_and_compare_hands_back_both_uris : forall raw1 raw2 f r e w r1 r2,
  uri_parse_cmp raw1 raw2 f = Some (r, e, w, r1, r2) -> e = NoURIErr ->
  exists o1 o2 u1 u2, parse_uri raw1 puri0 = Some (NoURIErr, o1, u1) /\ parse_uri raw2 puri0 = Some (NoURIErr, o2, u2) /\
    r1 = Some u1 /\ r2 = Some u2 /\ uri_cmp u1 raw1 u2 raw2 f = Some r.
Proof. exact parse_cmp_agrees. Qed.
Theorem C15_header_list_equal_to_itself : forall e, names_nodup e -> uhdrs_entries_eq e e = true.
Proof. exact uhdrs_eq_refl. Qed.

(* ---- the two list comparisons against what they mean ------------------------------------------------------------------------------- *)
Theorem C15_header_lists_equal_iff : forall e1 e2, names_nodup e1 -> names_nodup e2 ->
  (uhdrs_entries_eq e1 e2 = true <-> Permutation (map lp e1) (map lp e2)).
Proof. exact uhdrs_eq_spec. Qed.
Theorem C15_header_lists_symmetric : forall e1 e2, names_nodup e1 -> names_nodup e2 -> uhdrs_entries_eq e1 e2 = uhdrs_entries_eq e2 e1.
Proof. exact uhdrs_eq_sym. Qed.
Theorem C15_header_lists_order_does_not_matter : forall e1 e1' e2 e2', names_nodup e1 -> names_nodup e2 ->
  Permutation e1 e1' -> Permutation e2 e2' -> uhdrs_entries_eq e1' e2' = uhdrs_entries_eq e1 e2.
Proof. exact uhdrs_eq_order. Qed.
Theorem C15_header_lists_letter_case_does_not_matter : forall e1 e1' e2 e2', names_nodup e1 -> names_nodup e2 ->
  map lp e1 = map lp e1' -> map lp e2 = map lp e2' -> uhdrs_entries_eq e1' e2' = uhdrs_entries_eq e1 e2.
Proof. exact uhdrs_eq_case. Qed.

Theorem C15_parameter_lists_equal_iff : forall ty1 ty2 e1 e2, keys_nodup e2 ->
  (uparams_entries_eq ty1 ty2 e1 e2 = true <-> N.land ty1 up_bmask = N.land ty2 up_bmask /\ pairs_agree e1 e2).
Proof. exact uparams_eq_spec. Qed.
Theorem C15_parameter_lists_symmetric : forall ty1 ty2 e1 e2, keys_nodup e1 -> keys_nodup e2 ->
  uparams_entries_eq ty1 ty2 e1 e2 = uparams_entries_eq ty2 ty1 e2 e1.
Proof. exact uparams_eq_sym. Qed.
Theorem C15_parameter_list_equal_to_itself : forall ty e, keys_nodup e -> uparams_entries_eq ty ty e e = true.
Proof. exact uparams_eq_refl. Qed.
Theorem C15_parameter_lists_order_does_not_matter : forall ty1 ty2 e1 e1' e2 e2', keys_nodup e2 ->
  Permutation e1 e1' -> Permutation e2 e2' -> uparams_entries_eq ty1 ty2 e1' e2' = uparams_entries_eq ty1 ty2 e1 e2.
Proof. exact uparams_eq_order. Qed.
Theorem C15_parameter_lists_letter_case_does_not_matter : forall ty1 ty2 e1 e1' e2 e2', keys_nodup e2 ->
  map pkv e1 = map pkv e1' -> map pkv e2 = map pkv e2' -> uparams_entries_eq ty1 ty2 e1' e2' = uparams_entries_eq ty1 ty2 e1 e2.
Proof. exact uparams_eq_case. Qed.
Theorem C15_user_ttl_method_maddr_in_both_or_neither : forall ty1 ty2 e1 e2,
  N.land ty1 up_bmask <> N.land ty2 up_bmask -> uparams_entries_eq ty1 ty2 e1 e2 = false.
Proof. exact uparams_mask_differs. Qed.

(* ---- the entry points -------------------------------------------------------------------------------------------------------------------- *)
Theorem C15_raw_parameter_compare_symmetric : forall b1 o1 b2 o2, o1 <= nnat (length b1) -> o2 <= nnat (length b2) ->
  params_ok b1 o1 -> params_ok b2 o2 -> verdict (uri_params_eq b1 o1 b2 o2) = verdict (uri_params_eq b2 o2 b1 o1).
Proof. exact uri_params_eq_sym. Qed.
Theorem C15_raw_header_compare_symmetric : forall b1 o1 b2 o2, o1 <= nnat (length b1) -> o2 <= nnat (length b2) ->
  hdrs_ok b1 o1 -> hdrs_ok b2 o2 -> verdict (uri_hdrs_eq b1 o1 b2 o2) = verdict (uri_hdrs_eq b2 o2 b1 o1).
Proof. exact uri_hdrs_eq_sym. Qed.
Theorem C15_comparison_symmetric : forall u1 b1 u2 b2 f, uri_lists_ok u1 b1 -> uri_lists_ok u2 b2 ->
  uri_cmp u1 b1 u2 b2 f = uri_cmp u2 b2 u1 b1 f.
Proof. exact uri_cmp_sym. Qed.
Theorem C15_comparison_skipping_more_only_turns_different_into_equal : forall u1 b1 u2 b2 f f', flags_le f f' ->
  uri_cmp u1 b1 u2 b2 f = Some true -> uri_cmp u1 b1 u2 b2 f' = Some true.
Proof. exact uri_cmp_monotone. Qed.

(* the hypotheses are satisfiable: sip:a@b;transport=udp;lr?x=1&y=2 *)
Definition C15_raw : list byte := [115;105;112;58;97;64;98;59;116;114;97;110;115;112;111;114;116;61;117;100;112;59;108;114;63;120;61;49;38;121;61;50].
Example C15_lists_ok_example : match parse_uri C15_raw puri0 with Some (_, _, u) => uri_lists_ok u C15_raw | None => False end.
Proof.
  destruct (parse_uri C15_raw puri0) as [[[e o] u]|] eqn:E; vm_compute in E; [|discriminate E]. injection E as <- <- <-.
  split; intros p H; vm_compute in H; injection H as <-.
  - unfold params_ok. vm_compute. intros _. repeat (constructor; [cbn; intuition discriminate|]). constructor.
  - unfold hdrs_ok. vm_compute. intros _. repeat (constructor; [cbn; intuition discriminate|]). constructor.
Qed.

(* ---- parser side of the laws: the comparison of two TEXTS name=value<sep>...<sep>name=value is the comparison of the pairs written ------- *)
Theorem C15_header_texts_compare_as_written : forall ps ps', hlist_ok ps -> hlist_ok ps' ->
  uri_hdrs_eq (hl_bytes cmp_flags_hdrs ps) 0 (hl_bytes cmp_flags_hdrs ps') 0 = Some (uhdrs_entries_eq ps ps', EOk).
Proof. exact uri_hdrs_eq_rendered. Qed.
(* ... so a rendering is equal to another one iff it holds the same pairs up to letter case, in any order *)
Theorem C15_header_texts_equal_iff_permuted_recased : forall ps ps', hlist_ok ps -> hlist_ok ps' -> names_nodup ps -> names_nodup ps' ->
  (uri_hdrs_eq (hl_bytes cmp_flags_hdrs ps) 0 (hl_bytes cmp_flags_hdrs ps') 0 = Some (true, EOk) <-> Permutation (map lp ps) (map lp ps')).
Proof. exact uri_hdrs_eq_rendered_iff. Qed.
Theorem C15_parameter_texts_compare_as_written : forall ps ps', plist_ok ps -> plist_ok ps' ->
  uri_params_eq (l_bytes cmp_flags_params ps) 0 (l_bytes cmp_flags_params ps') 0
  = Some (uparams_entries_eq (tyof ps) (tyof ps') (map pent_of ps) (map pent_of ps'), EOk).
Proof. exact uri_params_eq_rendered. Qed.
Theorem C15_parameter_texts_permuted_recased_are_equal : forall ps ps', plist_ok ps -> plist_ok ps' -> keys_nodup (map pent_of ps) ->
  Permutation (map lp ps) (map lp ps') -> uri_params_eq (l_bytes cmp_flags_params ps) 0 (l_bytes cmp_flags_params ps') 0 = Some (true, EOk).
Proof. exact uri_params_eq_rendered_perm. Qed.
Theorem C15_parameter_texts_with_another_value_differ : forall ps ps' x y, plist_ok ps -> plist_ok ps' -> keys_nodup (map pent_of ps') ->
  In x ps -> In y ps' -> pkey (pent_of x) = pkey (pent_of y) -> map to_lower (snd x) <> map to_lower (snd y) ->
  uri_params_eq (l_bytes cmp_flags_params ps) 0 (l_bytes cmp_flags_params ps') 0 = Some (false, EOk).
Proof. exact uri_params_eq_rendered_differs. Qed.
(* what the hypotheses say *)
Theorem C15_text_lists_ok_means : forall ps,
  (hlist_ok ps <-> ps <> [] /\ Forall (h_ok cmp_flags_hdrs) ps /\ (length ps <= cmp_cap)%nat) /\
  (plist_ok ps <-> ps <> [] /\ Forall (p_ok cmp_flags_params) ps /\ (length ps <= cmp_cap)%nat).
Proof. intros. split; reflexivity. Qed.
(* satisfiable: "transport=udp;x=1" against "X=1;Transport=UDP"; "x=1&yy=2" against "YY=2&x=1" *)
Example C15_texts_example :
  let ps := [([116;114;97;110;115;112;111;114;116], [117;100;112]); ([120], [49])] in
  let ps' := [([88], [49]); ([84;114;97;110;115;112;111;114;116], [85;68;80])] in
  let hs := [([120], [49]); ([121;121], [50])] in
  let hs' := [([89;89], [50]); ([120], [49])] in
  plist_ok ps /\ plist_ok ps' /\ keys_nodup (map pent_of ps) /\ Permutation (map lp ps) (map lp ps') /\
  hlist_ok hs /\ hlist_ok hs' /\ names_nodup hs /\ names_nodup hs' /\ Permutation (map lp hs) (map lp hs').
Proof.
  cbv zeta. repeat split; try discriminate; try (unfold cmp_cap; cbn [length]; repeat constructor).
  all: try (repeat constructor; try discriminate; try reflexivity).
  all: try (cbn; intuition discriminate).
  all: try (vm_compute; apply perm_swap).
Qed.
Print Assumptions C15_comparison_symmetric.
Print Assumptions C15_header_texts_equal_iff_permuted_recased.
Print Assumptions C15_parameter_texts_permuted_recased_are_equal.
Print Assumptions C15_header_lists_equal_iff.
Print Assumptions C15_parameter_lists_equal_iff.
