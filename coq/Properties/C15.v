(* C15: laws of the URI comparison (component level).  PARTIAL: symmetry / permutation
   invariance of the parameter list comparison is checked by the oracle over all 64 flag sets only. *)
From Sipsp Require Import Harness CmpLaws.
Theorem C15_short_compare_symmetric : forall u1 b1 u2 b2 f, uri_cmp_short u1 b1 u2 b2 f = uri_cmp_short u2 b2 u1 b1 f.
Proof. exact cmp_short_sym. Qed.
Theorem C15_short_compare_reflexive : forall u b f,
  bget b (u_user u) <> None -> bget b (u_pass u) <> None -> bget b (u_host u) <> None ->
  uri_cmp_short u b u b f = Some true.
Proof. exact cmp_short_refl. Qed.
Theorem C15_skipping_more_only_turns_different_into_equal : forall u1 b1 u2 b2 f f', flags_le f f' ->
  uri_cmp_short u1 b1 u2 b2 f = Some true -> uri_cmp_short u1 b1 u2 b2 f' = Some true.
Proof. exact cmp_short_monotone. Qed.
Theorem C15_user_compares_case_sensitively : forall u1 b1 u2 b2 f x y,
  testbit f bURICmpSkipUser = false -> bget b1 (u_user u1) = Some x -> bget b2 (u_user u2) = Some y -> x <> y ->
  uri_cmp_short u1 b1 u2 b2 f <> Some true.
Proof. exact cmp_short_user_case_sensitive. Qed.
Theorem C15_letter_case_is_ignored_where_case_insensitive : forall a b, eqb_nocase (map to_lower a) b = eqb_nocase a b.
Proof. exact eqb_nocase_lower. Qed.
Theorem C15_parse_and_compare_hands_back_both_uris : forall raw1 raw2 f r e w r1 r2,
  uri_parse_cmp raw1 raw2 f = Some (r, e, w, r1, r2) -> e = NoURIErr ->
  exists o1 o2 u1 u2, parse_uri raw1 puri0 = Some (NoURIErr, o1, u1) /\ parse_uri raw2 puri0 = Some (NoURIErr, o2, u2) /\
    r1 = Some u1 /\ r2 = Some u2 /\ uri_cmp u1 raw1 u2 raw2 f = Some r.
Proof. exact parse_cmp_agrees. Qed.
Theorem C15_header_list_equal_to_itself : forall e, names_nodup e -> uhdrs_entries_eq e e = true.
Proof. exact uhdrs_eq_refl. Qed.
