(* C14: URI parsing is a lossless, ordered decomposition.
   PROVED for the model of ParseURI (all byte strings, through every re-interpretation the parser
   makes when an '@' appears after ';' '?' or ':'): when a URI is accepted, the reported components
   tile the input - the scheme is [0,P) with P = 4 (sip: / tel:) or 5 (sips:), then, each optional
   part only if present, user [':' password] '@', host, ':' port, ';' parameters, '?' headers, each
   component starting exactly where the previous one (plus its one-byte delimiter, which is the
   stated character in the input) ends, the last one ending at the end of the input (HdrPart,
   unfolded below) - so the components are disjoint, ordered, and together with the delimiters
   cover every byte.  For tel: the same holds before the number is moved from host to user, and the
   reported host is empty.  Consumed length = input length; error positions lie inside the input. *)
From Sipsp Require Import Harness URIOffsets URILossless.

Theorem C14_accepted_uri_tiles_the_input : forall uri o u, parse_uri uri puri0 = Some (NoURIErr, o, u) ->
  exists P u0, (P = 4 \/ P = 5) /\ HdrPart uri P u0 (nnat (length uri)) /\ u = tel_swap u0 /\ u_scheme u0 = mkpf 0 P.
Proof. exact parse_uri_lossless. Qed.

Theorem C14_sip_uri : forall uri o u, parse_uri uri puri0 = Some (NoURIErr, o, u) -> u_type u <> TELuri ->
  exists P, (P = 4 \/ P = 5) /\ u_scheme u = mkpf 0 P /\ HdrPart uri P u (nnat (length uri)).
Proof. exact sip_uri_lossless. Qed.

Theorem C14_tel_uri : forall uri o u, parse_uri uri puri0 = Some (NoURIErr, o, u) -> u_type u = TELuri ->
  u_host u = pf0 /\
  exists P u0, (P = 4 \/ P = 5) /\ HdrPart uri P u0 (nnat (length uri)) /\ u_user u = u_host u0 /\
               u_pass u = u_pass u0 /\ u_port u = u_port u0 /\ u_params u = u_params u0 /\ u_headers u = u_headers u0.
Proof. exact tel_uri_lossless. Qed.

(* what the tiling says, spelled out *)
Theorem C14_tiling_unfolded : forall buf P u e,
  HdrPart buf P u e <->
  ((u_headers u = pf0 /\ ParamPart buf P u e) \/
   (exists e0, ParamPart buf P u e0 /\ B buf e0 = c_qm /\ po (u_headers u) = e0 + 1 /\ e = po (u_headers u) + pl (u_headers u))).
Proof. intros. reflexivity. Qed.

Theorem C14_consumed_and_error_position : forall uri u0 e o u, parse_uri uri u0 = Some (e, o, u) ->
  o <= nnat (length uri) /\ (e = NoURIErr -> o = nnat (length uri)).
Proof. exact parse_uri_offsets. Qed.

(* "sip:a;b:c@h:5060;p?x" : the ';' and the ':' before the '@' belong to user and password *)
Example C14_example :
  parse_uri [115;105;112;58;97;59;98;58;99;64;104;58;53;48;54;48;59;112;63;120] puri0
  = Some (NoURIErr, 20, mkpuri SIPuri (mkpf 0 4) (mkpf 4 3) (mkpf 8 1) (mkpf 10 1) (mkpf 12 4) (mkpf 17 1) (mkpf 19 1) 5060).
Proof. vm_compute. reflexivity. Qed.
