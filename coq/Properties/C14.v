(* C14 (PARTIAL): consumed length = input length on acceptance; error position inside the
   input.  The lossless ordered decomposition itself is checked exhaustively (to a length bound)
   by the reassembly oracle and tied to the model by correspondence. *)
From Sipsp Require Import Harness URIOffsets.
Theorem C14_consumed_and_error_position_partial : forall uri u0 e o u, parse_uri uri u0 = Some (e, o, u) ->
  o <= nnat (length uri) /\ (e = NoURIErr -> o = nnat (length uri)).
Proof. exact parse_uri_offsets. Qed.
