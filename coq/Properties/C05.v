(* C05 (PARTIAL): the clauses about Body, RawMsg and Buf of a finished message *)
From Sipsp Require Import Harness Framing.
Theorem C05_body_and_raw_message_partial : forall m h e,
  pf_end (m_body (finished m h e)) = h + (e - h) /\
  m_raw (finished m h e) = Some (m_offs m, e - m_offs m) /\ m_buflen (finished m h e) = e /\
  msg_parsed (finished m h e) = true.
Proof. exact finished_views. Qed.
