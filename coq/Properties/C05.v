(* C05: reported fields are contained, nested and ordered like the text they describe.
   PROVED for the model of ParseSIPMsg, ParseHeaders and ParseHdrLine (Layout.v, on top of the safety
   invariants of C04): for every flag set, every header / contact capacity, every buffer and start
   offset, fresh or Reset object, one call or any schedule of growing prefixes - whenever the parse
   succeeds:
   * the raw message is exactly [start offset, returned offset), Buf ends at the returned offset, the
     body ends at the returned offset and starts where the header block ended;
   * every first-line field ends at or before the first header;
   * the stored headers form a chain: each lies in a line [a, e) of its own with the name starting at
     a, not empty, ending before e; the value ends at or before e; the next stored header's line begins
     at or after e (message order, no overlap: C05_stored_headers_in_message_order), the first line
     begins at or after the end of the first line of the message, the last ends at or before the body;
   * for every header whose value is parsed generically, and for From / To, the value is empty or
     begins after the end of the name (inside the line, after the colon).
   * (LowerBound.v, LowerLists.v) also for Call-ID, CSeq, Content-Length, Expires, Contact and
     P-Asserted-Identity parsed into PHdrVals the value (for the two lists: the span from the first to the
     last value of the header) is empty or begins after the end of the name: lower-bound invariants of
     the leaf parsers and of the two list loops carried through header line, header block and message;
     with the previous item: for every stored header of every message (C05_values_after_names; any way
     of feeding the message: C05_values_after_names_fed, by C01).
   PARTIAL:
   the nesting of sub-fields (display name / URI / parameters / tag inside the value; CSeq number and
   method inside the CSeq value) is proved only for texts of the documented shapes (C07 / C09 / C10
   specs give the exact extents there), otherwise: the structural oracle of the C05 driver.
   White-space trimming (TrimSpec.v, every input): a value reported by ParseHdrLine / ParseHeaders
   without PHdrVals (the generic value path) is empty, or its first and its last byte are not white
   space (C05_header_value_trimmed, C05_stored_values_trimmed); with PHdrVals the values of the eight
   specially parsed kinds are the value parsers' own spans (exact for the documented shapes).
   The first-line fields among themselves (C05_first_line_fields_in_order, from the C08 converse):
   in every accepted first line method, URI and version (resp. version, status code, reason) are
   non-overlapping, in text order, one byte apart, the first starting at the start offset and the
   last ending one or two bytes (the line end) before the returned offset. *)
From Sipsp Require Import Harness Framing Resume SafeMore SafeMsg Layout FLineConv TrimSpec SigCoherent LowerBound.
From Sipsp Require Import Tables.
From Sipsp Require Import CSeqNest NameAddrNest NameAddrTag NameAddrTrim LeafTrim NameAddrPos ContactTrim UpperBound NestMsg TrimMsg.

Theorem C05_body_and_raw_message : forall m h e,
  pf_end (m_body (finished m h e)) = h + (e - h) /\
  m_raw (finished m h e) = Some (m_offs m, e - m_offs m) /\ m_buflen (finished m h e) = e /\
  msg_parsed (finished m h e) = true.
Proof. exact finished_views. Qed.

(* one header line: what the invariant gives when the line is complete *)
Theorem C05_header_line : forall a pre rest i st, i = nnat (length pre) -> HInv pre i st -> NI a pre i st ->
  match run hl_iter pre rest i 0 st with
  | Done o EOk st' =>
    let h := hx_h st' in
    po (h_name h) = a /\ 0 < pl (h_name h) /\ pf_end (h_name h) < o /\ pf_end (h_val h) <= o /\
    (weak6 (h_type h) = false \/ hx_pv st' = None -> pl (h_val h) = 0 \/ pf_end (h_name h) < po (h_val h))
  | Done _ _ _ => True
  | _ => False
  end.
Proof.
  intros a pre rest i st Hi Hinv Hni. pose proof (hdrline_layout a pre rest i st Hi (conj Hinv Hni)) as H.
  destruct (run hl_iter pre rest i 0 st) as [o e st'| |]; auto. destruct e; auto.
  destruct H as (_ & _ & _ & H4). destruct (H4 eq_refl) as [_ [((N1 & N2 & N3) & L2 & L3) _]]. auto.
Qed.

(* the header block *)
Theorem C05_header_block : forall a0 buf offs st, offs <= nnat (length buf) -> BInv a0 (rev (firstn (N.to_nat offs) buf)) offs st ->
  match parse_headers buf offs st with
  | Done o e st' => o <= nnat (length buf) /\
                    (e = EMore -> offs <= o /\ BInv a0 (rev (firstn (N.to_nat o) buf)) o st') /\
                    (e = EOk -> offs <= o /\ chain a0 (stored (hs_l st')) o)
  | _ => False
  end.
Proof. exact headers_layout. Qed.

(* what a chain says, header by header and pairwise *)
Theorem C05_every_stored_header_lies_in_its_line : forall lo s hi h, chain lo s hi -> In h s ->
  exists a e, lo <= a /\ e <= hi /\
    po (h_name h) = a /\ 0 < pl (h_name h) /\ pf_end (h_name h) < e /\ pf_end (h_val h) <= e /\
    (weak6 (h_type h) = false -> pl (h_val h) = 0 \/ pf_end (h_name h) < po (h_val h)).
Proof.
  intros lo s hi h Hc Hin. destruct (chain_all lo s hi h Hc Hin) as (a & e & A1 & A2 & ((N1 & N2 & N3) & L2 & L3)).
  exists a, e. auto 10.
Qed.
Theorem C05_stored_headers_in_message_order : forall lo s hi, chain lo s hi -> forall j j', (j < j')%nat -> (j' < length s)%nat ->
  pf_end (h_name (nth j s hdr0)) < po (h_name (nth j' s hdr0)) /\ pf_end (h_val (nth j s hdr0)) <= po (h_name (nth j' s hdr0)).
Proof. exact chain_order. Qed.

(* the message: one call on a fresh or Reset object ... *)
Theorem C05_message : forall flags buf offs m0, offs <= nnat (length buf) ->
  (exists L nh nc, m0 = msg_init L (repeat hdr0 nh) (repeat pfrom0 nc)) \/ (exists m, m0 = msg_reset m) ->
  match parse_sipmsg flags buf offs m0 with
  | Done o EOk m' =>
    offs <= o /\ o <= nnat (length buf) /\ m_offs m' = offs /\
    m_raw m' = Some (offs, o - offs) /\ m_buflen m' = o /\ pf_end (m_body m') = o /\
    exists a0, offs <= a0 /\ fl_inv a0 (m_fl m') /\ chain a0 (stored (hs_l (m_hs m'))) (po (m_body m'))
  | Done _ _ _ => True
  | _ => False
  end.
Proof. exact fresh_message_layout. Qed.
(* ... and every schedule of growing prefixes *)
Theorem C05_message_every_schedule : forall flags b cuts k m, sorted_from (N.to_nat k) cuts -> k <= nnat (length b) ->
  MInv (rev (firstn (N.to_nat k) b)) k m -> MLay (rev (firstn (N.to_nat k) b)) k m ->
  match chunked (parse_sipmsg flags) b cuts k m with
  | Done o EOk m' =>
    exists a0, m_offs m' <= a0 /\ fl_inv a0 (m_fl m') /\ chain a0 (stored (hs_l (m_hs m'))) (po (m_body m')) /\
               pf_end (m_body m') = o /\ m_raw m' = Some (m_offs m', o - m_offs m') /\ m_buflen m' = o
  | _ => True
  end.
Proof. exact message_layout_chunked. Qed.
Theorem C05_fresh_and_reset_objects_satisfy_the_invariants : forall pre o,
  (forall L nh nc, MInv pre o (msg_init L (repeat hdr0 nh) (repeat pfrom0 nc)) /\ MLay pre o (msg_init L (repeat hdr0 nh) (repeat pfrom0 nc))) /\
  (forall m, MInv pre o (msg_reset m) /\ MLay pre o (msg_reset m)).
Proof. intros pre o. split; [intros L nh nc; split; [apply MInv_init|apply MLay_init]|intros m; split; [apply MInv_reset|apply MLay_reset]]. Qed.

(* the hypotheses are satisfiable and the conclusion is not trivial: a request with three headers and no body *)
Example C05_example :
  match parse_sipmsg 0 [73;78;86;73;84;69;32;115;105;112;58;97;32;83;73;80;47;50;46;48;13;10;86;105;97;58;32;120;13;10;70;114;111;109;58;32;60;115;105;112;58;98;62;59;116;97;103;61;49;13;10;67;97;108;108;45;73;68;58;32;99;13;10;13;10] 0 (msg_init 0 (repeat hdr0 5) (repeat pfrom0 2)) with
  | Done o EOk m' => o = 65 /\ map (fun h => (h_name h, h_val h)) (stored (hs_l (m_hs m')))
                               = [(mkpf 22 3, mkpf 27 1); (mkpf 30 4, mkpf 36 13); (mkpf 51 7, mkpf 60 1)]
  | _ => False
  end.
Proof. vm_compute. split; reflexivity. Qed.
Theorem C05_first_line_fields_in_order : forall (p rest : list byte) o s,
  parse_fline (p ++ rest) (nnat (length p)) fline0 = Done o EOk s ->
  let i := nnat (length p) in
  if prefix_nocase go_sipVerSP rest
  then po (fl_version s) = i /\ pf_end (fl_version s) + 1 = po (fl_statuscode s) /\ pl (fl_statuscode s) = 3 /\
       pf_end (fl_statuscode s) + 1 = po (fl_reason s) /\ pf_end (fl_reason s) < o /\ o <= pf_end (fl_reason s) + 2
  else po (fl_method s) = i /\ 0 < pl (fl_method s) /\ pf_end (fl_method s) + 1 = po (fl_uri s) /\ 0 < pl (fl_uri s) /\
       pf_end (fl_uri s) + 1 = po (fl_version s) /\ 0 < pl (fl_version s) /\ pf_end (fl_version s) < o /\ o <= pf_end (fl_version s) + 2.
Proof. exact first_line_fields_in_order. Qed.
Theorem C05_header_value_trimmed : forall buf offs o st', offs <= nnat (length buf) ->
  parse_hdrline buf offs (mkhline hdr0 None) = Done o EOk st' -> trimmed buf (h_val (hx_h st')).
Proof. exact hdrline_value_trimmed. Qed.
Theorem C05_stored_values_trimmed : forall buf offs ncap o st', offs <= nnat (length buf) ->
  parse_headers buf offs (mkhdrs_st (hdrlst_init (repeat hdr0 ncap)) None) = Done o EOk st' ->
  forall j, (j < N.to_nat (hl_n (hs_l st')))%nat -> (j < length (hl_hdrs (hs_l st')))%nat ->
    trimmed buf (h_val (nth j (hl_hdrs (hs_l st')) hdr0)).
Proof. exact headers_values_trimmed. Qed.
Theorem C05_trimmed_means : forall buf v, trimmed buf v <->
  pl v = 0 \/ ((exists c, nth_error buf (N.to_nat (po v)) = Some c /\ is_ws c = false) /\
               (exists c, nth_error buf (N.to_nat (pf_end v - 1)) = Some c /\ is_ws c = false)).
Proof. intros. reflexivity. Qed.
Theorem C05_values_after_names : forall flags buf offs L nh nc o m', offs <= nnat (length buf) ->
  parse_sipmsg flags buf offs (msg_init L (repeat hdr0 nh) (repeat pfrom0 nc)) = Done o EOk m' ->
  Forall (fun h => pl (h_val h) = 0 \/ pf_end (h_name h) < po (h_val h)) (stored (hs_l (m_hs m'))).
Proof. exact message_values_after_names. Qed.
(* every kind but From / To (those: the layout invariant), for any way of feeding the message and also when Content-Length is missing *)
Theorem C05_values_after_names_fed : forall flags B offs bl n nc o s o' e m', testbit flags bSIPMsgNoMoreData = false -> offs <= nnat (length B) ->
  feeds flags B offs (msg_init bl (repeat hdr0 n) (repeat pfrom0 nc)) o s ->
  parse_sipmsg flags B o s = Done o' e m' -> m_state m' = MFIN \/ m_state m' = MNoCLen ->
  forall j, (j < N.to_nat (hl_n (hs_l (m_hs m'))))%nat -> (j < length (hl_hdrs (hs_l (m_hs m'))))%nat ->
    let h := nth j (hl_hdrs (hs_l (m_hs m'))) hdr0 in
    special (h_type h) = true \/ pl (h_val h) = 0 \/ pf_end (h_name h) < po (h_val h).
Proof. exact message_vbound_fed. Qed.
Theorem C05_special_kinds : forall t, special t = true <-> t = HdrFrom \/ t = HdrTo.
Proof. intros t. unfold special. rewrite !orb_true_iff, !N.eqb_eq. tauto. Qed.
(* ---- header-specific sub-fields nest: every input, every chunk schedule ------------------------------------------------------------------ *)
(* CSeq: the value starts with the number, the method comes after the number and ends the value *)
Theorem C05_cseq_fields_nest : forall i s buf o s', cs_fed i s -> parse_cseq buf i s = Done o EOk s' ->
  po (cs_v s') = po (cs_cseq s') /\ pf_end (cs_cseq s') <= po (cs_method s') /\ pf_end (cs_method s') = pf_end (cs_v s').
Proof. exact cseq_fields_nest. Qed.
(* the schedules: a fresh object, then calls that each answered "more bytes" *)
Theorem C05_cseq_schedules_mean : forall i s, cs_fed i s <->
  s = cseq0 \/ exists i0 s0 buf, cs_fed i0 s0 /\ parse_cseq buf i0 s0 = Done i EMore s.
Proof.
  intros i s. split.
  - intros H. destruct H as [i|i0 s0 buf o s' H0 H1]; [left; reflexivity|right; exists i0, s0, buf; auto].
  - intros [->|(i0 & s0 & buf & H0 & H1)]; [constructor|econstructor; eassumption].
Qed.
(* From / To / Contact / P-Asserted-Identity: display name, URI and parameter span lie inside the value V *)
Theorem C05_nameaddr_fields_nest : forall h buf offs s o e s', fb_fed h buf offs s -> parse_nameaddr h buf offs s = Done o e s' ->
  e = EOk \/ e = EMoreValues ->
  (pl (fb_name s') = 0 \/ (po (fb_v s') <= po (fb_name s') /\ pf_end (fb_name s') <= pf_end (fb_v s'))) /\
  (pl (fb_uri s') = 0 \/ (po (fb_v s') <= po (fb_uri s') /\ pf_end (fb_uri s') <= pf_end (fb_v s'))) /\
  (pl (fb_params s') = 0 \/ (po (fb_v s') <= po (fb_params s') /\ pf_end (fb_params s') <= pf_end (fb_v s'))).
Proof. exact nameaddr_fields_nest. Qed.
(* ... and the tag lies inside the parameter span *)
Theorem C05_nameaddr_tag_inside_params : forall h buf offs s o e s', fb_fed h buf offs s -> parse_nameaddr h buf offs s = Done o e s' ->
  e = EOk \/ e = EMoreValues ->
  pl (fb_tag s') = 0 \/ (po (fb_params s') <= po (fb_tag s') /\ pf_end (fb_tag s') <= pf_end (fb_params s')).
Proof. exact nameaddr_tag_nest. Qed.
(* ---- ... and at message level: From, To, CSeq, every Contact value and every P-Asserted-Identity value kept in PHdrVals ------------------- *)
Theorem C05_message_subfields_nest : forall flags buf offs bl n nc o e m', offs <= nnat (length buf) ->
  parse_sipmsg flags buf offs (msg_init bl (repeat hdr0 n) (repeat pfrom0 nc)) = Done o e m' -> m_state m' = MFIN \/ m_state m' = MNoCLen ->
  NSv (msg_pv m').
Proof. exact message_np. Qed.
Theorem C05_message_subfields_nest_fed : forall flags B offs bl n nc o s o' e m', testbit flags bSIPMsgNoMoreData = false -> offs <= nnat (length B) ->
  feeds flags B offs (msg_init bl (repeat hdr0 n) (repeat pfrom0 nc)) o s ->
  parse_sipmsg flags B o s = Done o' e m' -> m_state m' = MFIN \/ m_state m' = MNoCLen -> NSv (msg_pv m').
Proof. exact message_np_fed. Qed.
Theorem C05_subfields_nest_means : forall v, NSv v <->
  let inside (s : pfrom) :=
    ((pl (fb_name s) = 0 \/ (po (fb_v s) <= po (fb_name s) /\ pf_end (fb_name s) <= pf_end (fb_v s))) /\
     (pl (fb_uri s) = 0 \/ (po (fb_v s) <= po (fb_uri s) /\ pf_end (fb_uri s) <= pf_end (fb_v s))) /\
     (pl (fb_params s) = 0 \/ (po (fb_v s) <= po (fb_params s) /\ pf_end (fb_params s) <= pf_end (fb_v s)))) /\
    (pl (fb_tag s) = 0 \/ (po (fb_params s) <= po (fb_tag s) /\ pf_end (fb_tag s) <= pf_end (fb_params s))) in
  inside (pv_from v) /\ inside (pv_to v) /\
  (po (cs_v (pv_cseq v)) = po (cs_cseq (pv_cseq v)) /\ pf_end (cs_cseq (pv_cseq v)) <= po (cs_method (pv_cseq v)) /\
   pf_end (cs_method (pv_cseq v)) = pf_end (cs_v (pv_cseq v))) /\
  ((Forall inside (ct_vals (pv_contacts v)) /\ inside (ct_last (pv_contacts v)) /\ inside (ct_first (pv_contacts v))) /\
   EXct (pv_contacts v)) /\
  (Forall inside (pa_vals (pv_pais v)) /\ inside (pa_last (pv_pais v))).
Proof. intros. reflexivity. Qed.
(* ... and V itself - the Val of a From / To header - is trimmed *)
Theorem C05_nameaddr_value_trimmed : forall h buf offs s o e s', fb_fed h buf offs s -> parse_nameaddr h buf offs s = Done o e s' ->
  e = EOk \/ e = EMoreValues -> trimmed buf (fb_v s').
Proof. exact nameaddr_value_trimmed. Qed.
(* ... and so are the values of Call-ID, Content-Length, Expires and CSeq (the Val of those headers) *)
Theorem C05_callid_value_trimmed : forall buf offs s o s', ci_fed buf offs s -> parse_callid buf offs s = Done o EOk s' -> trimmed buf (ci_callid s').
Proof. exact callid_value_trimmed. Qed.
Theorem C05_uint_value_trimmed : forall buf offs s o s', ui_fed buf offs s ->
  (parse_uint buf offs s = Done o EOk s' \/ parse_clen buf offs s = Done o EOk s') -> trimmed buf (ui_sval s').
Proof. intros buf offs s o s' Hf [H|H]; [exact (uint_value_trimmed buf offs s o s' Hf H)|exact (clen_value_trimmed buf offs s o s' Hf H)]. Qed.
Theorem C05_cseq_value_trimmed : forall buf offs s o s', cs_fedb buf offs s -> parse_cseq buf offs s = Done o EOk s' -> trimmed buf (cs_v s').
Proof. exact cseq_value_trimmed. Qed.
(* the schedules of these three: a fresh object, then calls that answered "more bytes", on buffers that agree on what was read *)
(* ... and the header-value span of a Contact / P-Asserted-Identity header (first value's start to last value's end), one call on a fresh list *)
Theorem C05_contact_span_trimmed : forall buf offs n o C, offs <= nnat (length buf) ->
  parse_all_contacts buf offs (contacts_init (repeat pfrom0 n)) = Done o EOk C -> trimmed buf (ct_lasthval C).
Proof. exact contacts_span_trimmed. Qed.
Theorem C05_pai_span_trimmed : forall buf offs o C, offs <= nnat (length buf) ->
  parse_all_pais buf offs pais0 = Done o EOk C -> trimmed buf (pa_lasthval C).
Proof. exact pais_span_trimmed. Qed.
(* a successfully parsed name-addr value is not empty *)
Theorem C05_nameaddr_value_not_empty : forall h pre rest i o e v, i = nnat (length pre) -> run (fb_iter h) pre rest i 0 pfrom0 = Done o e v ->
  e = EOk \/ e = EMoreValues -> pl (fb_v v) <> 0.
Proof. exact (fun h pre rest i o e v Hi H He => proj2 (fb_fresh_vtb h pre rest i o e v Hi H He)). Qed.
(* ---- at message level: the value of EVERY stored header - generic or one of the eight specially parsed kinds - is trimmed ---------------------- *)
Theorem C05_message_stored_values_trimmed : forall flags B offs bl n nc o s o' e m', testbit flags bSIPMsgNoMoreData = false -> offs <= nnat (length B) ->
  feeds flags B offs (msg_init bl (repeat hdr0 n) (repeat pfrom0 nc)) o s ->
  parse_sipmsg flags B o s = Done o' e m' -> m_state m' = MFIN \/ m_state m' = MNoCLen ->
  forall j, (j < N.to_nat (hl_n (hs_l (m_hs m'))))%nat -> (j < length (hl_hdrs (hs_l (m_hs m'))))%nat ->
    trimmed B (h_val (nth j (hl_hdrs (hs_l (m_hs m'))) hdr0)).
Proof. exact message_values_trimmed_fed. Qed.
Theorem C05_leaf_schedules_mean : forall buf' o,
  (forall s', ci_fed buf' o s' <-> (s' = callid0 /\ o <= nnat (length buf')) \/
     exists buf offs s, ci_fed buf offs s /\ parse_callid buf offs s = Done o EMore s' /\ firstn (N.to_nat o) buf' = firstn (N.to_nat o) buf /\ o <= nnat (length buf')) /\
  (forall s', ui_fed buf' o s' <-> (s' = uintb0 /\ o <= nnat (length buf')) \/
     exists buf offs s, ui_fed buf offs s /\ parse_uint buf offs s = Done o EMore s' /\ firstn (N.to_nat o) buf' = firstn (N.to_nat o) buf /\ o <= nnat (length buf')) /\
  (forall s', cs_fedb buf' o s' <-> (s' = cseq0 /\ o <= nnat (length buf')) \/
     exists buf offs s, cs_fedb buf offs s /\ parse_cseq buf offs s = Done o EMore s' /\ firstn (N.to_nat o) buf' = firstn (N.to_nat o) buf /\ o <= nnat (length buf')).
Proof.
  intros buf' o. repeat split.
  - intros H. destruct H as [buf offs Ho|buf offs s o s' buf' H0 H1 H2 H3]; [left; auto|right; exists buf, offs, s; auto].
  - intros [[-> Ho]|(buf & offs & s & H0 & H1 & H2 & H3)]; [constructor; exact Ho|econstructor; eassumption].
  - intros H. destruct H as [buf offs Ho|buf offs s o s' buf' H0 H1 H2 H3]; [left; auto|right; exists buf, offs, s; auto].
  - intros [[-> Ho]|(buf & offs & s & H0 & H1 & H2 & H3)]; [constructor; exact Ho|econstructor; eassumption].
  - intros H. destruct H as [buf offs Ho|buf offs s o s' buf' H0 H1 H2 H3]; [left; auto|right; exists buf, offs, s; auto].
  - intros [[-> Ho]|(buf & offs & s & H0 & H1 & H2 & H3)]; [constructor; exact Ho|econstructor; eassumption].
Qed.
Theorem C05_nameaddr_schedules_mean : forall h buf' o s', fb_fed h buf' o s' <->
  (s' = pfrom0 /\ o <= nnat (length buf')) \/
  exists buf offs s, fb_fed h buf offs s /\ parse_nameaddr h buf offs s = Done o EMore s' /\
                     firstn (N.to_nat o) buf' = firstn (N.to_nat o) buf /\ o <= nnat (length buf').
Proof.
  intros h buf' o s'. split.
  - intros H. destruct H as [buf offs Ho|buf offs s o s' buf' H0 H1 H2 H3]; [left; auto|right; exists buf, offs, s; auto].
  - intros [[-> Ho]|(buf & offs & s & H0 & H1 & H2 & H3)]; [constructor; exact Ho|econstructor; eassumption].
Qed.
(* satisfiable: "Bob <sip:b>;tag=x" fed in two pieces; "12 INVITE" fed in two pieces *)
Example C05_nest_example :
  let b1 := [66;111;98;32;60;115;105] in
  let b2 := [66;111;98;32;60;115;105;112;58;98;62;59;116;97;103;61;120;13;10;120] in
  (exists o1 s1, parse_nameaddr HdrFrom b1 0 pfrom0 = Done o1 EMore s1 /\ fb_fed HdrFrom b2 o1 s1 /\
     exists o2 s2, parse_nameaddr HdrFrom b2 o1 s1 = Done o2 EOk s2 /\ fb_name s2 = mkpf 0 4 /\ fb_uri s2 = mkpf 5 5 /\ fb_v s2 = mkpf 0 17 /\ fb_params s2 = mkpf 12 5 /\ fb_tag s2 = mkpf 16 1) /\
  (exists o1 s1, parse_cseq [49;50;32;73] 0 cseq0 = Done o1 EMore s1 /\ cs_fed o1 s1 /\
     exists o2 s2, parse_cseq [49;50;32;73;78;86;73;84;69;13;10;120] o1 s1 = Done o2 EOk s2 /\ cs_cseq s2 = mkpf 0 2 /\ cs_method s2 = mkpf 3 6).
Proof.
  cbv zeta. split.
  - eexists. eexists. split; [vm_compute; reflexivity|]. split.
    + eapply (fb_fed1 HdrFrom [66;111;98;32;60;115;105] 0 pfrom0); [constructor; vm_compute; discriminate|vm_compute; reflexivity|reflexivity|vm_compute; discriminate].
    + eexists. eexists. split; [vm_compute; reflexivity|]. repeat split.
  - eexists. eexists. split; [vm_compute; reflexivity|]. split.
    + eapply (cs_fed1 0 cseq0 [49;50;32;73]); [constructor|vm_compute; reflexivity].
    + eexists. eexists. split; [vm_compute; reflexivity|]. repeat split.
Qed.
Print Assumptions C05_message.
Print Assumptions C05_cseq_fields_nest.
Print Assumptions C05_nameaddr_fields_nest.
Print Assumptions C05_nameaddr_tag_inside_params.
Print Assumptions C05_nameaddr_value_trimmed.
Print Assumptions C05_callid_value_trimmed.
Print Assumptions C05_uint_value_trimmed.
Print Assumptions C05_cseq_value_trimmed.
Print Assumptions C05_contact_span_trimmed.
Print Assumptions C05_message_stored_values_trimmed.
Print Assumptions C05_pai_span_trimmed.
Print Assumptions C05_message_subfields_nest.
Print Assumptions C05_message_subfields_nest_fed.
Print Assumptions C05_message_every_schedule.
Print Assumptions C05_stored_values_trimmed.
Print Assumptions C05_values_after_names.
Print Assumptions C05_values_after_names_fed.
