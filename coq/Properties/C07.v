(* C07 (PARTIAL): the classification the header parser assigns is the table classification
   of the name text (C16); the tokenisation clauses (name/value extents, counts, flags,
   first-of-type) are checked by the correspondence run and the render/parse oracle only. *)
From Sipsp Require Import Harness Classify HdrLine.
Theorem C07_type_is_classification_of_name_partial : forall pre rest i k st name,
  zget pre rest i (h_name (hx_h st)) = Some name ->
  match hl_colon pre rest i k st with
  | Next _ st' => h_type (hx_h st') = get_hdr_type name
  | Ret _ _ st' => h_type (hx_h st') = get_hdr_type name
  | IPanic => True
  end.
Proof. exact hl_colon_type. Qed.
Theorem C07_classification_is_the_table : forall name t, name <> [] ->
  (get_hdr_type name = t /\ t <> HdrOther) <-> In (map to_lower name, t) spec_hdrs.
Proof. exact hdr_type_spec. Qed.
