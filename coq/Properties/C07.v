(* C07: header tokenisation is faithful to the text.
   PROVED for the model, one header line (ParseHdrLine, generic value: no header specific value
   parser attached), completeness direction: every text
        name *WSP ":" *WSP [ token *( LWS token ) ] CRLF <byte that does not continue the line>
   at any offset of any buffer is accepted at the end of the line; the name reported is exactly the
   name text (no surrounding white space), the value runs from the first byte of the first token to
   the last byte of the last token - across any separators the LWS skipper crosses: runs of SP/HT and
   folded continuation lines (C07_separators) - an empty value is allowed, and the type is the table
   classification of the name (C16).
   PROVED for the model, the header block (ParseHeaders, BlockSpec.v): every block of such lines
   followed by the blank line, at any offset of any buffer, into a fresh list of any capacity, is
   accepted at the end of the blank line with exactly one header per line in order: the count is the
   number of lines (also when they did not fit the array), slot j holds line j (type, name, value as
   for the single line, offsets of that line) for every j that fits, the type-flag set is exactly the set
   of types seen, and the first-of-type look-up returns the first line of each known type
   (C07_header_block).
   The converse direction, for every input (TrimSpec.v; ParseHdrLine / ParseHeaders on the generic value
   path, i.e. without PHdrVals): whatever is accepted has a name that starts at the start offset, is a
   non-empty run of bytes that are neither white space nor ':', and is followed by SP / HT only up to the
   colon; everything between the colon and the value, and between the value and the returned offset, is
   white space (SP / HT / CR / LF); an empty value means white space only from the colon to the returned
   offset (C07_accepted_name_and_colon); a non-empty value begins and ends with a byte that is not white
   space (C07_accepted_value_is_trimmed).  Together: accepted => name *WSP ":" LWS [value LWS] with
   the name and value extents exactly those of the text.
   Any line terminator (EolSpec.v): CR LF, lone CR or lone LF per line, for the line and for the block
   (C07_header_line_any_terminator, C07_header_block_any_terminators); an accepted line ends at a line end that is not
   followed by a blank, for every input (EolConv.v, C07_accepted_line_ends_at_a_line_end).
   PARTIAL: on the converse side the internal structure of the white space inside the value (which CR / LF sequences
   count as folds): render/parse oracle and the correspondence run. *)
From Sipsp Require Import Harness Classify HdrLine FLineSpec HdrSpec BlockSpec TrimSpec EolSpec EolConv.

Theorem C07_header_line : forall p name wsb lead t1 tl d x,
  nametok name -> name <> [] -> spaces wsb -> spaces lead -> tok t1 -> t1 <> [] -> good_tail tl -> is_sp d = false ->
  let i := nnat (length p) in
  let vstart := i + nnat (length name) + nnat (length wsb) + 1 + nnat (length lead) in
  let value := t1 ++ flat tl in
  parse_hdrline (p ++ name ++ wsb ++ (58 : byte) :: lead ++ value ++ CR :: LF :: d :: x) i (mkhline hdr0 None)
  = Done (vstart + nnat (length value) + 2) EOk
      (mkhline (mkhdr (get_hdr_type name) (mkpf i (nnat (length name))) (mkpf vstart (nnat (length value))) HFIN) None).
Proof. exact header_line_spec. Qed.

Theorem C07_header_line_empty_value : forall p name wsb lead d x,
  nametok name -> name <> [] -> spaces wsb -> spaces lead -> is_sp d = false ->
  let i := nnat (length p) in
  parse_hdrline (p ++ name ++ wsb ++ (58 : byte) :: lead ++ CR :: LF :: d :: x) i (mkhline hdr0 None)
  = Done (i + nnat (length name) + nnat (length wsb) + 1 + nnat (length lead) + 2) EOk
      (mkhline (mkhdr (get_hdr_type name) (mkpf i (nnat (length name))) pf0 HFIN) None).
Proof. exact header_line_empty_value_spec. Qed.

Theorem C07_separators :
  (forall sp, sp <> [] -> spaces sp -> lws_run sp) /\
  (forall sp sp', spaces sp -> spaces sp' -> sp' <> [] -> lws_run (sp ++ CR :: LF :: sp')).
Proof. exact (conj lws_run_spaces lws_run_fold). Qed.

(* "Subject :  a b" CRLF SP "c" CRLF "X": name "Subject", value "a b\r\n c" *)
Example C07_example :
  parse_hdrline [83;117;98;106;101;99;116;32;58;32;32;97;32;98;13;10;32;99;13;10;88] 0 (mkhline hdr0 None)
  = Done 20 EOk (mkhline (mkhdr (get_hdr_type [83;117;98;106;101;99;116]) (mkpf 0 7) (mkpf 11 7) HFIN) None).
Proof. vm_compute. reflexivity. Qed.

Theorem C07_type_is_classification_of_name : forall pre rest i k st name,
  zget pre rest i (h_name (hx_h st)) = Some name ->
  match hl_colon pre rest i k st with
  | Next _ st' => h_type (hx_h st') = get_hdr_type name
  | Ret _ _ st' => h_type (hx_h st') = get_hdr_type name
  | IPanic => True
  end.
Proof. exact hl_colon_type. Qed.
Theorem C07_classification_is_the_table : forall name t, name <> [] ->
  (get_hdr_type name = t /\ t <> HdrOther) <-> In (map to_lower name, t) spec_hdrs.
Proof. exact hdr_type_spec. Qed.

(* ---- the header block ------------------------------------------------------------------------------------------------------------------ *)
Theorem C07_header_block : forall ls p x n, Forall line_ok ls -> ls <> [] ->
  let i := nnat (length p) in
  let hs := hdrs_at i ls in
  exists L, parse_headers (p ++ block_bytes ls ++ CR :: LF :: x) i (mkhdrs_st (hdrlst_init (repeat hdr0 n)) None)
            = Done (i + nnat (length (block_bytes ls)) + 2) EOk (mkhdrs_st L None) /\
    hl_n L = nnat (length ls) /\
    (forall j, (j < length ls)%nat -> (j < n)%nat -> nth j (hl_hdrs L) hdr0 = nth j hs hdr0) /\
    (forall t, t < 16 -> N.testbit (hl_pflags L) t = existsb (fun h => h_type h =? t) hs) /\
    (forall t, HdrNone < t -> t < HdrOther -> hl_gethdr L t = Some (match first_of t hs with Some h => h | None => hdr0 end)).
Proof. exact header_block_spec. Qed.
(* what line j is reported as: the single-line result at the line's own offset *)
Theorem C07_header_block_lines : forall l ls i,
  hdrs_at i (l :: ls) = hdr_of l i :: hdrs_at (i + nnat (length (line_bytes l))) ls.
Proof. reflexivity. Qed.
(* the hypotheses are satisfiable: "Via: x" CRLF "X:" CRLF "v : y z" CRLF (three lines, two Via) *)
Example C07_block_example :
  Forall line_ok [LVal [86;105;97] [] [32] [120] []; LEmpty [88] [] []; LVal [118] [32] [32] [121] [([32], [122])]].
Proof.
  assert (G : good_tail [([32], [122])]).
  { constructor; [|constructor]. split; [apply lws_run_spaces; [discriminate|repeat constructor]|split; [repeat constructor|discriminate]]. }
  repeat (constructor; [cbn; repeat split; try discriminate; try exact G; repeat constructor; discriminate|]). constructor.
Qed.
Print Assumptions C07_header_block.
(* ---- every line terminator: CR LF, a lone CR, a lone LF, in any mix ------------------------------------------------------------------- *)
Theorem C07_terminators_mean : forall e d b x ls,
  eol_bytes e = match e with ECRLF => [CR; LF] | ECR => [CR] | ELF => [LF] end /\
  (eol_ok e d <-> is_sp d = false /\ (e = ECR -> is_lf d = false)) /\
  (blank_ok b x <-> (b = ECR -> exists d y, x = d :: y /\ is_lf d = false)) /\
  (chain_ok ls b <-> match ls with [] => True | le :: ls' => (match ls' with [] => snd le = ECR -> b <> ELF | _ => True end) /\ chain_ok ls' b end).
Proof. intros. split; [destruct e; reflexivity|]. split; [reflexivity|]. split; [reflexivity|]. destruct ls; reflexivity. Qed.
Theorem C07_header_line_any_terminator : forall p name wsb lead t1 tl e d x,
  nametok name -> name <> [] -> spaces wsb -> spaces lead -> tok t1 -> t1 <> [] -> good_tail tl -> eol_ok e d ->
  let i := nnat (length p) in
  let vstart := i + nnat (length name) + nnat (length wsb) + 1 + nnat (length lead) in
  let value := t1 ++ flat tl in
  parse_hdrline (p ++ name ++ wsb ++ (58 : byte) :: lead ++ value ++ eol_bytes e ++ d :: x) i (mkhline hdr0 None)
  = Done (vstart + nnat (length value) + nnat (length (eol_bytes e))) EOk
      (mkhline (mkhdr (get_hdr_type name) (mkpf i (nnat (length name))) (mkpf vstart (nnat (length value))) HFIN) None).
Proof. exact header_line_spec_e. Qed.
Theorem C07_header_line_empty_value_any_terminator : forall p name wsb lead e d x,
  nametok name -> name <> [] -> spaces wsb -> spaces lead -> eol_ok e d ->
  let i := nnat (length p) in
  parse_hdrline (p ++ name ++ wsb ++ (58 : byte) :: lead ++ eol_bytes e ++ d :: x) i (mkhline hdr0 None)
  = Done (i + nnat (length name) + nnat (length wsb) + 1 + nnat (length lead) + nnat (length (eol_bytes e))) EOk
      (mkhline (mkhdr (get_hdr_type name) (mkpf i (nnat (length name))) pf0 HFIN) None).
Proof. exact header_line_empty_value_spec_e. Qed.
Theorem C07_header_block_any_terminators : forall ls b p x n, Forall (fun le => line_ok (fst le)) ls -> ls <> [] -> chain_ok ls b -> blank_ok b x ->
  let i := nnat (length p) in
  let hs := ehdrs_at i ls in
  exists L, parse_headers (p ++ eblock_bytes ls ++ eol_bytes b ++ x) i (mkhdrs_st (hdrlst_init (repeat hdr0 n)) None)
            = Done (i + nnat (length (eblock_bytes ls)) + nnat (length (eol_bytes b))) EOk (mkhdrs_st L None) /\
    hl_n L = nnat (length ls) /\
    (forall j, (j < length ls)%nat -> (j < n)%nat -> nth j (hl_hdrs L) hdr0 = nth j hs hdr0) /\
    (forall t, t < 16 -> N.testbit (hl_pflags L) t = existsb (fun h => h_type h =? t) hs) /\
    (forall t, HdrNone < t -> t < HdrOther -> hl_gethdr L t = Some (match first_of t hs with Some h => h | None => hdr0 end)).
Proof. exact header_block_spec_e. Qed.
Theorem C07_header_block_any_terminators_lines : forall l e ls i,
  ehdrs_at i ((l, e) :: ls) = hdr_of l i :: ehdrs_at (i + nnat (length (line_body l ++ eol_bytes e))) ls /\
  eblock_bytes ((l, e) :: ls) = (line_body l ++ eol_bytes e) ++ eblock_bytes ls /\
  line_bytes l = line_body l ++ [CR; LF].
Proof. intros. split; [reflexivity|]. split; [reflexivity|]. destruct l; cbn [line_bytes line_body]; repeat (rewrite <- ?app_assoc; cbn [app]); reflexivity. Qed.
(* satisfiable: "Via: x" CR "X:" LF "v : y z" CR LF, then a lone-LF blank line *)
Example C07_block_terminators_example :
  let ls := [(LVal [86;105;97] [] [32] [120] [], ECR); (LEmpty [88] [] [], ELF); (LVal [118] [32] [32] [121] [([32], [122])], ECRLF)] in
  Forall (fun le => line_ok (fst le)) ls /\ chain_ok ls ELF /\ blank_ok ELF [] /\
  match parse_headers (eblock_bytes ls ++ eol_bytes ELF ++ []) 0 (mkhdrs_st (hdrlst_init (repeat hdr0 2)) None) with
  | Done o e st => o = 20 /\ e = EOk /\ hl_n (hs_l st) = 3 /\ hl_pflags (hs_l st) = N.lor (2 ^ HdrVia) (2 ^ HdrOther) /\
                   hl_hdrs (hs_l st) = [mkhdr HdrVia (mkpf 0 3) (mkpf 5 1) HFIN; mkhdr HdrOther (mkpf 7 1) pf0 HFIN]
  | _ => False
  end.
Proof.
  cbv zeta. split.
  - assert (G : good_tail [([32], [122])]).
    { constructor; [|constructor]. split; [apply lws_run_spaces; [discriminate|repeat constructor]|split; [repeat constructor|discriminate]]. }
    repeat (constructor; [cbn; repeat split; try discriminate; try exact G; repeat constructor; discriminate|]). constructor.
  - split; [cbn; repeat split; discriminate|]. split; [intros H; discriminate H|]. vm_compute. repeat split.
Qed.
Print Assumptions C07_header_block_any_terminators.

(* ---- the converse direction, every input -------------------------------------------------------------------------------------------- *)
Theorem C07_accepted_name_and_colon : forall buf offs o st', offs <= nnat (length buf) ->
  parse_hdrline buf offs (mkhline hdr0 None) = Done o EOk st' -> name_colon offs o buf (hx_h st').
Proof. exact hdrline_name_colon. Qed.
Theorem C07_name_and_colon_means : forall a o buf h, name_colon a o buf h <->
  po (h_name h) = a /\ 0 < pl (h_name h) /\ brange buf a (pf_end (h_name h)) nmb /\
  exists cpos, pf_end (h_name h) <= cpos /\ brange buf (pf_end (h_name h)) cpos is_sp /\ nth_error buf (N.to_nat cpos) = Some 58 /\
    ((pl (h_val h) = 0 /\ brange buf (cpos + 1) o is_ws) \/
     (cpos < po (h_val h) /\ brange buf (cpos + 1) (po (h_val h)) is_ws /\ brange buf (pf_end (h_val h)) o is_ws)).
Proof. intros. reflexivity. Qed.
Theorem C07_accepted_value_is_trimmed : forall buf offs o st', offs <= nnat (length buf) ->
  parse_hdrline buf offs (mkhline hdr0 None) = Done o EOk st' -> trimmed buf (h_val (hx_h st')).
Proof. exact hdrline_value_trimmed. Qed.
Print Assumptions C07_accepted_name_and_colon.

(* ---- converse side of the line end, every input: an accepted header line ends at a line end that is not followed by a blank ------------ *)
Theorem C07_accepted_line_ends_at_a_line_end : forall buf offs o st', offs <= nnat (length buf) ->
  parse_hdrline buf offs (mkhline hdr0 None) = Done o EOk st' -> ends_at_eol buf o.
Proof. exact hdrline_ends_at_eol. Qed.
Theorem C07_line_end_means : forall B o, ends_at_eol B o <->
  exists crl, nnat crl <= o /\
    let m := N.to_nat (o - nnat crl) in
    ((crl = 2%nat /\ exists c d e, nth_error B m = Some c /\ is_cr c = true /\ nth_error B (S m) = Some d /\ is_lf d = true /\
                                  nth_error B (S (S m)) = Some e /\ is_sp e = false) \/
     (crl = 1%nat /\ exists c d, nth_error B m = Some c /\ is_crlf c = true /\ nth_error B (S m) = Some d /\ is_sp d = false /\
                                (is_cr c = true -> is_lf d = false))).
Proof. intros. reflexivity. Qed.
Print Assumptions C07_accepted_line_ends_at_a_line_end.
