(* C17: parameter-list parsing is faithful.
   PROVED for the model: the parameter character set is exactly the documented one; a byte outside it
   inside a name is rejected at that byte; known URI parameters are classified case-insensitively;
   ParseTokenParam against the grammar, completeness (TokSpec.v): for every flag set, a parameter
   written name "=" value (name and value non-empty runs of plain parameter bytes) is reported with
   exactly the name, value and whole-parameter extents, and the verdict and offset say what ended it -
   the separator followed by the next parameter (more values, offset of the next parameter's first
   byte), the configured terminator (ok, offset of the terminator), or the end of the header line after
   optional blanks (end of header, offset after the line); a parameter without value is allowed
   (empty value).  Any offset / any preceding bytes: C17_param_then_next_param_at_any_offset, from
   the C11 shift theorem.  The list level (UListSpec.v, C17_uri_parameter_list): ParseAllURIParams on
   name=value;...;name=value <terminator>, at any offset, into a fresh list of any capacity: ok at the
   terminator, every parameter counted (also those that do not fit), entry j = parameter j (extents,
   known-parameter kind of its name), kind mask = union of the kinds.  Capacity independence: C13;
   crash freedom: C04; resumption: C02.
   The general item (TokItem.v, UListGen.v, TokLead.v): quoted values with escapes, white space and folds around "=" and
   the separators, every way an item can end, empty list items.  The converse for the characters (TokConv.v,
   C17_reported_name_and_token_value_use_only_allowed_characters): for every input, flag set and feeding schedule, whatever an
   accepting call (ok, more values, end of header) reports as the name - and as the value unless the value starts with a double
   quote - consists of allowed parameter characters that are not white space.
   The same for every parameter ParseAllURIParams / ParseAllURIHdrs stores, after any verdict (ULConv.v,
   C17_stored_uri_parameters_use_only_allowed_characters, C17_stored_uri_headers_use_only_allowed_characters).
   PARTIAL: the full converse (accepted => the input has the shape of the grammar, including the interior of quoted values and the
   white space between the parts) is not proved: render/parse oracle + correspondence (chunked too). *)
From Sipsp Require Import Harness Misc HdrSpec TokSpec UListSpec UHListSpec TokEoi TokItem UListGen TokLead TokConv ULConv.
Theorem C17_character_set : forall up c, tok_allowed up c = true <-> In c (allowed_set up).
Proof. exact tok_allowed_spec. Qed.
Theorem C17_bad_byte_in_name_rejected_there : forall f (rest : list byte) i s c,
  is_ws c = false -> c <> 61 -> c <> tf_sep f -> (c <> tf_term f \/ tf_term f = 0) ->
  tok_allowed (tf_uriparam f) c = false ->
  tp_sName f rest i s c = Ret i EBadChar (s <| tp_state := PERR |>).
Proof. exact name_badchar. Qed.
Theorem C17_known_uri_parameters_case_insensitive : forall n, uri_param_resolve (map to_lower n) = uri_param_resolve n.
Proof. exact uri_param_resolve_nocase. Qed.

(* ---- ParseTokenParam against the grammar ----------------------------------------------------------------------------------------- *)
Theorem C17_param_then_next_param : forall flags n0 name v0 value c tail,
  plain flags n0 -> Forall (plain flags) name -> plain flags v0 -> Forall (plain flags) value -> plain flags c ->
  let ln := nnat (length (n0 :: name)) in let lv := nnat (length (v0 :: value)) in
  parse_tokparam flags ((n0 :: name) ++ 61 :: (v0 :: value) ++ tf_sep (tp_decode flags) :: c :: tail) 0 tokparam0
  = Done (ln + 1 + lv + 1) EMoreValues (mktokparam (mkpf 0 (ln + 1 + lv)) (mkpf 0 ln) (mkpf (ln + 1) lv) PInitNxtVal).
Proof. exact tp_spec_more. Qed.
Theorem C17_param_without_value : forall flags n0 name c tail, plain flags n0 -> Forall (plain flags) name -> plain flags c ->
  let ln := nnat (length (n0 :: name)) in
  parse_tokparam flags ((n0 :: name) ++ tf_sep (tp_decode flags) :: c :: tail) 0 tokparam0
  = Done (ln + 1) EMoreValues (mktokparam (mkpf 0 ln) (mkpf 0 ln) pf0 PInitNxtVal).
Proof. exact tp_spec_novalue. Qed.
Theorem C17_param_ended_by_terminator : forall flags n0 name v0 value t tail,
  plain flags n0 -> Forall (plain flags) name -> plain flags v0 -> Forall (plain flags) value -> is_term_c flags t = true ->
  let ln := nnat (length (n0 :: name)) in let lv := nnat (length (v0 :: value)) in
  parse_tokparam flags ((n0 :: name) ++ 61 :: (v0 :: value) ++ t :: tail) 0 tokparam0
  = Done (ln + 1 + lv) EOk (mktokparam (mkpf 0 (ln + 1 + lv)) (mkpf 0 ln) (mkpf (ln + 1) lv) PFIN).
Proof. exact tp_spec_term. Qed.
Theorem C17_param_ended_by_end_of_header : forall flags n0 name v0 value sp x tail,
  plain flags n0 -> Forall (plain flags) name -> plain flags v0 -> Forall (plain flags) value ->
  spaces sp -> is_sp x = false -> tf_ie (tp_decode flags) = false ->
  let ln := nnat (length (n0 :: name)) in let lv := nnat (length (v0 :: value)) in
  parse_tokparam flags ((n0 :: name) ++ 61 :: (v0 :: value) ++ sp ++ CR :: LF :: x :: tail) 0 tokparam0
  = Done (ln + 1 + lv + nnat (length sp) + 2) EEOH (mktokparam (mkpf 0 (ln + 1 + lv)) (mkpf 0 ln) (mkpf (ln + 1) lv) PFIN).
Proof. exact tp_spec_eoh. Qed.
Theorem C17_param_then_next_param_at_any_offset : forall flags junk n0 name v0 value c tail,
  plain flags n0 -> Forall (plain flags) name -> plain flags v0 -> Forall (plain flags) value -> plain flags c ->
  let k := nnat (length junk) in let ln := nnat (length (n0 :: name)) in let lv := nnat (length (v0 :: value)) in
  parse_tokparam flags (junk ++ (n0 :: name) ++ 61 :: (v0 :: value) ++ tf_sep (tp_decode flags) :: c :: tail) k tokparam0
  = Done (k + (ln + 1 + lv + 1)) EMoreValues (mktokparam (mkpf k (ln + 1 + lv)) (mkpf k ln) (mkpf (k + (ln + 1)) lv) PInitNxtVal).
Proof. exact tp_spec_more_at. Qed.
(* ---- the list ------------------------------------------------------------------------------------------------------------------------- *)
Theorem C17_uri_parameter_list : forall flags0 ps (junk : list byte) t r n, ps <> [] -> Forall (p_ok flags0) ps ->
  is_term_c (N.lor flags0 (2 ^ bPOptParamSemiSep)) t = true ->
  let i := nnat (length junk) in
  let es := l_entries i ps in
  exists L, parse_all_uri_params flags0 (junk ++ l_bytes flags0 ps ++ t :: r) i (uparams_init (repeat uriparam0 n))
            = Done (i + nnat (length (l_bytes flags0 ps))) EOk L /\
    ul_n L = nnat (length ps) /\ ul_vno L = nnat (length ps) /\
    ul_types L = fold_left (fun a p => N.lor a (up_t p)) es 0 /\
    (forall j, (j < length ps)%nat -> (j < n)%nat -> nth j (ul_params L) uriparam0 = nth j es uriparam0).
Proof. exact uri_params_list_spec. Qed.
(* satisfiable: "transport=udp;x=1?" with the '?' terminator *)
Example C17_list_example :
  let f := 2 ^ bPOptTokQmTerm in
  Forall (p_ok f) [([116;114;97;110;115;112;111;114;116], [117;100;112]); ([120], [49])] /\ is_term_c (N.lor f (2 ^ bPOptParamSemiSep)) 63 = true.
Proof. cbv zeta. split; [|reflexivity]. repeat constructor; try discriminate; try reflexivity. Qed.
(* the hypotheses are satisfiable: "tag=x7;lr" with the default flags *)
Example C17_example :
  parse_tokparam 0 [116;97;103;61;120;55;59;108;114] 0 tokparam0
  = Done 7 EMoreValues (mktokparam (mkpf 0 6) (mkpf 0 3) (mkpf 4 2) PInitNxtVal).
Proof. vm_compute. reflexivity. Qed.
(* ---- the URI header list, and both lists ended by the end of the input -------------------------------------------------------------- *)
Theorem C17_uri_header_list : forall flags0 ps (junk : list byte) t r n, ps <> [] -> Forall (h_ok flags0) ps ->
  is_term_c (N.lor flags0 (N.lor (2 ^ bPOptParamAmpSep) (2 ^ bPOptTokURIHdr))) t = true ->
  let i := nnat (length junk) in
  let es := hl_entries i ps in
  exists L, parse_all_uri_hdrs flags0 (junk ++ hl_bytes flags0 ps ++ t :: r) i (uhdrs_init (repeat tokparam0 n))
            = Done (i + nnat (length (hl_bytes flags0 ps))) EOk L /\
    uh_n L = nnat (length ps) /\ uh_vno L = nnat (length ps) /\
    (forall j, (j < length ps)%nat -> (j < n)%nat -> nth j (uh_hdrs L) tokparam0 = nth j es tokparam0).
Proof. exact uri_hdrs_list_spec. Qed.
Theorem C17_param_ended_by_end_of_input : forall flags (junk : list byte) n0 (name : list byte) v0 (value : list byte),
  plain flags n0 -> Forall (plain flags) name -> plain flags v0 -> Forall (plain flags) value -> tf_ie (tp_decode flags) = true ->
  let k := nnat (length junk) in let ln := nnat (length (n0 :: name)) in let lv := nnat (length (v0 :: value)) in
  parse_tokparam flags (junk ++ (n0 :: name) ++ 61 :: (v0 :: value)) k tokparam0
  = Done (k + (ln + 1 + lv)) EEOH (mktokparam (mkpf k (ln + 1 + lv)) (mkpf k ln) (mkpf (k + (ln + 1)) lv) PFIN).
Proof. exact tp_spec_eoi_at. Qed.
Theorem C17_uri_parameter_list_to_end_of_input : forall flags0, tf_ie (tp_decode (N.lor flags0 (2 ^ bPOptParamSemiSep))) = true ->
  forall ps (junk : list byte) n, ps <> [] -> Forall (p_ok flags0) ps ->
  let i := nnat (length junk) in
  let es := l_entries i ps in
  exists L, parse_all_uri_params flags0 (junk ++ l_bytes flags0 ps) i (uparams_init (repeat uriparam0 n))
            = Done (i + nnat (length (l_bytes flags0 ps))) EEOH L /\
    ul_n L = nnat (length ps) /\ ul_vno L = nnat (length ps) /\
    ul_types L = fold_left (fun a p => N.lor a (up_t p)) es 0 /\ length (ul_params L) = n /\
    (forall j, (j < length ps)%nat -> (j < n)%nat -> nth j (ul_params L) uriparam0 = nth j es uriparam0).
Proof. exact uri_params_list_spec_eoi. Qed.
Theorem C17_uri_header_list_to_end_of_input : forall flags0, tf_ie (tp_decode (N.lor flags0 (N.lor (2 ^ bPOptParamAmpSep) (2 ^ bPOptTokURIHdr)))) = true ->
  forall ps (junk : list byte) n, ps <> [] -> Forall (h_ok flags0) ps ->
  let i := nnat (length junk) in
  let es := hl_entries i ps in
  exists L, parse_all_uri_hdrs flags0 (junk ++ hl_bytes flags0 ps) i (uhdrs_init (repeat tokparam0 n))
            = Done (i + nnat (length (hl_bytes flags0 ps))) EEOH L /\
    uh_n L = nnat (length ps) /\ uh_vno L = nnat (length ps) /\ length (uh_hdrs L) = n /\
    (forall j, (j < length ps)%nat -> (j < n)%nat -> nth j (uh_hdrs L) tokparam0 = nth j es tokparam0).
Proof. exact uri_hdrs_list_spec_eoi. Qed.
(* satisfiable: "x=1&yy=2" as a URI header list to the end of the input *)
Example C17_hdr_list_example :
  let f := 2 ^ bPOptInputEnd in
  Forall (h_ok f) [([120], [49]); ([121;121], [50])] /\ tf_ie (tp_decode (N.lor f (N.lor (2 ^ bPOptParamAmpSep) (2 ^ bPOptTokURIHdr)))) = true.
Proof. cbv zeta. split; [|reflexivity]. repeat constructor; try discriminate; try reflexivity. Qed.
(* ---- one list item in general: name [LWS] [ "=" [LWS] [ token | quoted string ] ] [LWS] and what ends it ----------------------------- *)
(* the text after the name, the side conditions, and the fields reported (closed forms) *)
Theorem C17_item_shapes_mean : forall flags v,
  vbody v = match v with
            | VMissing => []
            | VEmpty w1 => w1 ++ [61]
            | VTok w1 w2 v0 value => (w1 ++ [61]) ++ (w2 ++ v0 :: value)
            | VQuoted w1 w2 q => (w1 ++ [61]) ++ (w2 ++ 34 :: q ++ [34])
            end /\
  (vok flags v <-> match v with
                   | VMissing => True
                   | VEmpty w1 => gap flags w1
                   | VTok w1 w2 v0 value => gap flags w1 /\ gap flags w2 /\ plain flags v0 /\ Forall (plain flags) value
                   | VQuoted w1 w2 q => gap flags w1 /\ gap flags w2 /\ qcontent q
                   end).
Proof. intros. split; destruct v; reflexivity. Qed.
Theorem C17_item_fields_mean : forall k a v en j st,
  exp_item k a v en j st
  = mktokparam
      match v with
      | VMissing => mkpf k (a - k)
      | VEmpty w1 => match en with ESep => mkpf k (j - k) | _ => match w1 with [] => mkpf k (a + 1 - k) | _ => mkpf k (a - k) end end
      | VTok w1 w2 v0 value => mkpf k (vstart a w1 w2 + nnat (length (v0 :: value)) - k)
      | VQuoted w1 w2 q => mkpf k (vstart a w1 w2 + nnat (length q) + 2 - k)
      end
      (mkpf k (a - k))
      match v with
      | VMissing => pf0
      | VEmpty _ => match en with EEoi => pf0 | _ => mkpf j 0 end
      | VTok w1 w2 v0 value => mkpf (vstart a w1 w2) (nnat (length (v0 :: value)))
      | VQuoted w1 w2 q => mkpf (vstart a w1 w2) (nnat (length q) + 2)
      end st /\
  (forall w1 w2, vstart a w1 w2 = a + nnat (length w1) + 1 + nnat (length w2)).
Proof. intros. split; [destruct v; reflexivity|reflexivity]. Qed.
(* white space: blanks, or blanks CR LF blanks (a fold), are crossed completely *)
Theorem C17_white_space_runs : forall flags,
  (forall sp, sp <> [] -> HdrSpec.spaces sp -> gap flags sp) /\
  (forall sp sp', HdrSpec.spaces sp -> HdrSpec.spaces sp' -> sp' <> [] -> gap flags (sp ++ CR :: LF :: sp')) /\ gap flags [].
Proof.
  intros flags. split; [intros sp H1 H2; right; apply wsrun_blanks; assumption|].
  split; [intros sp sp' H1 H2 H3; right; apply wsrun_fold; assumption|left; reflexivity].
Qed.
(* quoted-string content: any byte but DQUOTE, backslash, CR, LF, DEL and control characters; backslash + any byte but CR / LF *)
Theorem C17_quoted_content_means : forall q, qcontent q <->
  match q with
  | [] => True
  | c :: q' => (qchar c /\ qcontent q') \/ (c = 92 /\ match q' with d :: q'' => is_crlf d = false /\ qcontent q'' | [] => False end)
  end.
Proof.
  intros q. split.
  - intros H. destruct H as [|c q Hc Hq|d q Hd Hq]; [exact I|left; auto|right; auto].
  - destruct q as [|c q']; [constructor|]. intros [[Hc Hq]|[-> H]]; [constructor; assumption|].
    destruct q' as [|d q'']; [contradiction|]. destruct H. constructor; assumption.
Qed.
Theorem C17_item_ended_by_terminator : forall flags (junk : list byte) n0 (name : list byte) v,
  plain flags n0 -> Forall (plain flags) name -> vok flags v ->
  forall (w : list byte) t (r : list byte), gap flags w -> is_term_c flags t = true ->
  let k := nnat (length junk) in let a := k + nnat (length (n0 :: name)) in let e := a + nnat (length (vbody v)) + nnat (length w) in
  parse_tokparam flags (junk ++ ((n0 :: name) ++ vbody v) ++ w ++ t :: r) k tokparam0
  = Done e EOk (exp_item k a v ETerm e PFIN).
Proof. exact item_term. Qed.
Theorem C17_item_then_next_item : forall flags (junk : list byte) n0 (name : list byte) v,
  plain flags n0 -> Forall (plain flags) name -> vok flags v ->
  forall (w w4 : list byte) c (r : list byte), gap flags w -> gap flags w4 -> plain flags c ->
  let k := nnat (length junk) in let a := k + nnat (length (n0 :: name)) in let e := a + nnat (length (vbody v)) + nnat (length w) in
  parse_tokparam flags (junk ++ ((n0 :: name) ++ vbody v) ++ w ++ tf_sep (tp_decode flags) :: w4 ++ c :: r) k tokparam0
  = Done (e + 1 + nnat (length w4)) EMoreValues (exp_item k a v ESep e PInitNxtVal).
Proof. exact item_more. Qed.
Theorem C17_item_ended_by_end_of_input : forall flags (junk : list byte) n0 (name : list byte) v,
  plain flags n0 -> Forall (plain flags) name -> vok flags v ->
  forall sp : list byte, HdrSpec.spaces sp -> tf_ie (tp_decode flags) = true ->
  let k := nnat (length junk) in let a := k + nnat (length (n0 :: name)) in
  parse_tokparam flags (junk ++ ((n0 :: name) ++ vbody v) ++ sp) k tokparam0
  = Done (a + nnat (length (vbody v)) + nnat (length sp)) EEOH (exp_item k a v EEoi 0 PFIN).
Proof. exact item_eoi. Qed.
Theorem C17_item_ended_by_end_of_header : forall flags (junk : list byte) n0 (name : list byte) v,
  plain flags n0 -> Forall (plain flags) name -> vok flags v ->
  forall (sp : list byte) x (tail : list byte), HdrSpec.spaces sp -> is_sp x = false ->
  let k := nnat (length junk) in let a := k + nnat (length (n0 :: name)) in
  parse_tokparam flags (junk ++ ((n0 :: name) ++ vbody v) ++ sp ++ CR :: LF :: x :: tail) k tokparam0
  = Done (a + nnat (length (vbody v)) + nnat (length sp) + 2) EEOH (exp_item k a v EEoi 0 PFIN).
Proof. exact item_eoh. Qed.
Theorem C17_item_ended_by_white_space_then_token : forall flags (junk : list byte) n0 (name : list byte) v,
  plain flags n0 -> Forall (plain flags) name -> vok flags v ->
  forall (w : list byte) c (r : list byte), wsrun flags w -> plain flags c -> tf_spterm (tp_decode flags) = true -> (forall w1, v <> VEmpty w1) ->
  let k := nnat (length junk) in let a := k + nnat (length (n0 :: name)) in let e := a + nnat (length (vbody v)) in
  parse_tokparam flags (junk ++ ((n0 :: name) ++ vbody v) ++ w ++ c :: r) k tokparam0
  = Done (e + nnat (length w) - 1) EOk (close_sp (vstate k a v) e).
Proof. exact item_spterm. Qed.
(* the reported parameter: the fields of the other endings, complete *)
Theorem C17_white_space_then_token_fields : forall k a v, k <= a ->
  close_sp (vstate k a v) (a + nnat (length (vbody v))) = exp_item k a v EEoi 0 PFIN.
Proof. intros k a v H. rewrite <- (close_eoi_exp 0 k a v 0 H). destruct v; reflexivity. Qed.
(* satisfiable: ab, a fold, =, a blank, the quoted string x-backslash-dquote-y, a blank, the separator, a blank, c *)
Example C17_item_example :
  let v := VQuoted [32;13;10;32] [32] [120;92;34;121] in
  plain 0 97 /\ Forall (plain 0) [98] /\ vok 0 v /\ gap 0 [32] /\ plain 0 99 /\
  parse_tokparam 0 ([97;98] ++ vbody v ++ [32] ++ 59 :: [32] ++ [99]) 0 tokparam0
  = Done 17 EMoreValues (mktokparam (mkpf 0 14) (mkpf 0 2) (mkpf 8 6) PInitNxtVal).
Proof.
  cbv zeta. pose proof (C17_white_space_runs 0) as (G1 & G2 & G3).
  split; [repeat split; reflexivity|]. split; [repeat constructor; reflexivity|].
  split.
  - split; [apply (G2 [32] [32]); repeat constructor; discriminate|].
    split; [apply G1; [discriminate|repeat constructor]|].
    apply qc_char; [repeat split; reflexivity|]. apply qc_esc; [reflexivity|]. apply qc_char; [repeat split; reflexivity|]. constructor.
  - split; [apply G1; [discriminate|repeat constructor]|]. split; [repeat split; reflexivity|]. vm_compute. reflexivity.
Qed.
(* ---- the URI parameter list with general items ---------------------------------------------------------------------------------------- *)
Theorem C17_general_list_means : forall flags0 (g : gitem) gs i,
  let flags := N.lor flags0 (2 ^ bPOptParamSemiSep) in
  (g_ok flags0 g <-> plain flags (g_n0 g) /\ Forall (plain flags) (g_name g) /\ vok flags (g_v g) /\ gap flags (g_w g) /\ gap flags (g_w4 g)) /\
  g_item g = (g_n0 g :: g_name g) ++ vbody (g_v g) /\
  g_more flags0 g = g_item g ++ g_w g ++ tf_sep (tp_decode flags) :: g_w4 g /\ g_last g = g_item g ++ g_w g /\
  gl_bytes flags0 (g :: gs) = match gs with [] => g_last g | _ => g_more flags0 g ++ gl_bytes flags0 gs end /\
  gl_entries flags0 i (g :: gs) = match gs with
                                  | [] => [g_entry g i ETerm PFIN]
                                  | _ => g_entry g i ESep PInitNxtVal :: gl_entries flags0 (i + nnat (length (g_more flags0 g))) gs
                                  end /\
  (forall en st, g_entry g i en st =
     let a := i + nnat (length (g_n0 g :: g_name g)) in
     mkuriparam (exp_item i a (g_v g) en (a + nnat (length (vbody (g_v g))) + nnat (length (g_w g))) st) (uri_param_resolve (g_n0 g :: g_name g))).
Proof.
  intros. split; [reflexivity|]. split; [reflexivity|]. split; [reflexivity|]. split; [reflexivity|].
  split; [destruct gs; reflexivity|]. split; [destruct gs; reflexivity|reflexivity].
Qed.
Theorem C17_uri_parameter_list_general_items : forall flags0 gs (junk : list byte) t r n, gs <> [] -> Forall (g_ok flags0) gs ->
  is_term_c (N.lor flags0 (2 ^ bPOptParamSemiSep)) t = true ->
  let i := nnat (length junk) in
  let es := gl_entries flags0 i gs in
  exists L, parse_all_uri_params flags0 (junk ++ gl_bytes flags0 gs ++ t :: r) i (uparams_init (repeat uriparam0 n))
            = Done (i + nnat (length (gl_bytes flags0 gs))) EOk L /\
    ul_n L = nnat (length gs) /\ ul_vno L = nnat (length gs) /\
    ul_types L = fold_left (fun a p => N.lor a (up_t p)) es 0 /\
    (forall j, (j < length gs)%nat -> (j < n)%nat -> nth j (ul_params L) uriparam0 = nth j es uriparam0).
Proof. exact uri_params_general_list_spec. Qed.
(* satisfiable: transport = udp ; lr;x=<quoted 1> then '?' *)
Example C17_general_list_example :
  let f := 2 ^ bPOptTokQmTerm in
  let gs := [mkgitem 116 [114;97;110;115;112;111;114;116] (VTok [32] [32] 117 [100;112]) [32] [32];
             mkgitem 108 [114] VMissing [] [];
             mkgitem 120 [] (VQuoted [] [] [49]) [] []] in
  Forall (g_ok f) gs /\
  match parse_all_uri_params f (gl_bytes f gs ++ [63]) 0 (uparams_init (repeat uriparam0 2)) with
  | Done o e L => o = 26 /\ e = EOk /\ ul_n L = 3 /\ map (fun p => (tp_name (up_param p), tp_val (up_param p), up_t p)) (ul_params L)
                  = [(mkpf 0 9, mkpf 12 3, URIParamTransportF); (mkpf 18 2, pf0, URIParamLRF)]
  | _ => False
  end.
Proof.
  cbv zeta. pose proof (C17_white_space_runs (N.lor (2 ^ bPOptTokQmTerm) (2 ^ bPOptParamSemiSep))) as (G1 & G2 & G3).
  assert (Gs : gap (N.lor (2 ^ bPOptTokQmTerm) (2 ^ bPOptParamSemiSep)) [32]) by (apply G1; [discriminate|repeat constructor]).
  split.
  - repeat (constructor; [unfold g_ok; cbn [g_n0 g_name g_v g_w g_w4 vok]; repeat split; try exact Gs; try exact G3; try reflexivity; repeat constructor; try reflexivity|]).
    constructor.
  - vm_compute. repeat split.
Qed.
(* ---- empty list items and white space before the name are skipped ------------------------------------------------------------------------ *)
Theorem C17_empty_items_and_leading_white_space_skipped : forall flags L (junk : list byte) c r, lead flags L -> is_ws c = false ->
  (c =? tf_sep (tp_decode flags)) = false ->
  parse_tokparam flags (junk ++ L ++ c :: r) (nnat (length junk)) tokparam0
  = parse_tokparam flags ((junk ++ L) ++ c :: r) (nnat (length (junk ++ L))) tokparam0.
Proof. exact lead_skipped. Qed.
(* the prefixes: separators (empty items) and white-space runs that are followed by a separator or end the prefix *)
Theorem C17_lead_means : forall flags L, lead flags L <->
  L = [] \/ (exists L', L = tf_sep (tp_decode flags) :: L' /\ lead flags L') \/
  (exists w L', L = w ++ tf_sep (tp_decode flags) :: L' /\ wsrun flags w /\ lead flags L') \/ wsrun flags L.
Proof.
  intros flags L. split.
  - intros H. destruct H as [|L' H|w L' Hw H|w Hw]; [left; reflexivity|right; left; eauto|right; right; left; eauto|right; right; right; exact Hw].
  - intros [->|[(L' & -> & H)|[(w & L' & -> & Hw & H)|Hw]]]; [constructor|constructor; exact H|apply lead_ws_sep; assumption|apply lead_ws_end; exact Hw].
Qed.
(* satisfiable: ";; ;a=1;" - two empty items, a blank, another empty item, then the parameter *)
Example C17_lead_example :
  lead 0 [59;59;32;59] /\
  parse_tokparam 0 ([59;59;32;59] ++ [97;61;49;59;98]) 0 tokparam0 = Done 8 EMoreValues (mktokparam (mkpf 4 3) (mkpf 4 1) (mkpf 6 1) PInitNxtVal).
Proof.
  split; [|vm_compute; reflexivity].
  apply lead_sep. apply lead_sep. apply (lead_ws_sep 0 [32] []); [|constructor].
  apply wsrun_blanks; [discriminate|repeat constructor].
Qed.
(* ---- the converse for the characters: every input, every flag set, every feeding schedule ------------------------------------------------ *)
Theorem C17_reported_name_and_token_value_use_only_allowed_characters : forall flags buf offs s o e s',
  tp_fed flags buf offs s -> parse_tokparam flags buf offs s = Done o e s' -> e = EOk \/ e = EMoreValues \/ e = EEOH ->
  reported_ok flags buf s'.
Proof. exact tokparam_reported_chars. Qed.
Theorem C17_reported_ok_means : forall flags buf s, reported_ok flags buf s <->
  (forall j, po (tp_name s) <= j -> j < po (tp_name s) + pl (tp_name s) ->
     exists c, nth_error buf (N.to_nat j) = Some c /\ tok_allowed (tf_uriparam (tp_decode flags)) c = true /\ is_ws c = false) /\
  (pl (tp_val s) = 0 \/ nth_error buf (N.to_nat (po (tp_val s))) = Some 34 \/
   forall j, po (tp_val s) <= j -> j < po (tp_val s) + pl (tp_val s) ->
     exists c, nth_error buf (N.to_nat j) = Some c /\ tok_allowed (tf_uriparam (tp_decode flags)) c = true /\ is_ws c = false).
Proof. intros flags buf s. reflexivity. Qed.
(* a feeding schedule is a chain of calls that each asked for more bytes, on buffers that agree on the bytes already read *)
Theorem C17_tp_fed_means : forall flags buf offs s, tp_fed flags buf offs s <->
  (s = tokparam0 /\ offs <= nnat (length buf)) \/
  (exists buf0 offs0 s0, tp_fed flags buf0 offs0 s0 /\ parse_tokparam flags buf0 offs0 s0 = Done offs EMore s /\
     firstn (N.to_nat offs) buf = firstn (N.to_nat offs) buf0 /\ offs <= nnat (length buf)).
Proof.
  intros flags buf offs s. split.
  - intros H. destruct H as [buf offs Ho|buf0 offs0 s0 o s' buf' Hf Hp Hpre Ho]; [left; split; [reflexivity|exact Ho]|].
    right. exists buf0, offs0, s0. repeat split; assumption.
  - intros [[-> Ho]|(buf0 & offs0 & s0 & Hf & Hp & Hpre & Ho)]; [apply tp_fed0; exact Ho|]. exact (tp_fed1 flags buf0 offs0 s0 offs s buf Hf Hp Hpre Ho).
Qed.
(* satisfiable: "ab=c" then, on a longer buffer, "ab=cd;e" - fed in two pieces; the second call accepts *)
Example C17_reported_example :
  parse_tokparam 0 [97;98;61;99] 0 tokparam0 = Done 4 EMore (mktokparam (mkpf 0 3) (mkpf 0 2) (mkpf 3 0) PVal) /\
  tp_fed 0 [97;98;61;99;100;59;101] 4 (mktokparam (mkpf 0 3) (mkpf 0 2) (mkpf 3 0) PVal) /\
  parse_tokparam 0 [97;98;61;99;100;59;101] 4 (mktokparam (mkpf 0 3) (mkpf 0 2) (mkpf 3 0) PVal)
  = Done 6 EMoreValues (mktokparam (mkpf 0 5) (mkpf 0 2) (mkpf 3 2) PInitNxtVal).
Proof.
  assert (H : parse_tokparam 0 [97;98;61;99] 0 tokparam0 = Done 4 EMore (mktokparam (mkpf 0 3) (mkpf 0 2) (mkpf 3 0) PVal)) by (vm_compute; reflexivity).
  split; [exact H|]. split; [|vm_compute; reflexivity].
  apply (tp_fed1 0 [97;98;61;99] 0 tokparam0 4 _ _ (tp_fed0 0 _ 0 ltac:(unfold nnat; cbn [length]; lia)) H); [reflexivity|unfold nnat; cbn [length]; lia].
Qed.
(* the list wrapper: a byte outside the set is never absorbed into a stored parameter - every input, flag set and capacity *)
Theorem C17_stored_uri_parameters_use_only_allowed_characters : forall flags0 buf offs n o e L, offs <= nnat (length buf) ->
  parse_all_uri_params flags0 buf offs (uparams_init (repeat uriparam0 n)) = Done o e L ->
  forall j, (j < N.to_nat (ul_pno L))%nat ->
    reported_ok (N.lor flags0 (2 ^ bPOptParamSemiSep)) buf (up_param (nth j (ul_params L) uriparam0)).
Proof. exact uparams_stored_chars. Qed.
Theorem C17_stored_uri_headers_use_only_allowed_characters : forall flags0 buf offs n o e L, offs <= nnat (length buf) ->
  parse_all_uri_hdrs flags0 buf offs (uhdrs_init (repeat tokparam0 n)) = Done o e L ->
  forall j, (j < N.to_nat (uh_hno L))%nat ->
    reported_ok (N.lor flags0 (N.lor (2 ^ bPOptParamAmpSep) (2 ^ bPOptTokURIHdr))) buf (nth j (uh_hdrs L) tokparam0).
Proof. exact uhdrs_stored_chars. Qed.
Example C17_stored_example : (* "a=1;b{=2" : the second parameter is rejected at the brace, the first one is stored *)
  match parse_all_uri_params 0 [97;61;49;59;98;123;61;50] 0 (uparams_init (repeat uriparam0 2)) with
  | Done o e L => o = 5 /\ e = EBadChar /\ ul_pno L = 1
  | _ => False
  end.
Proof. vm_compute. repeat split; reflexivity. Qed.
Print Assumptions C17_stored_uri_parameters_use_only_allowed_characters.
Print Assumptions C17_stored_uri_headers_use_only_allowed_characters.
Print Assumptions C17_reported_name_and_token_value_use_only_allowed_characters.
Print Assumptions C17_param_then_next_param_at_any_offset.
Print Assumptions C17_empty_items_and_leading_white_space_skipped.
Print Assumptions C17_uri_parameter_list_general_items.
Print Assumptions C17_item_ended_by_terminator.
Print Assumptions C17_item_then_next_item.
Print Assumptions C17_item_ended_by_end_of_input.
Print Assumptions C17_item_ended_by_end_of_header.
Print Assumptions C17_item_ended_by_white_space_then_token.
Print Assumptions C17_uri_header_list.
Print Assumptions C17_uri_parameter_list_to_end_of_input.
Print Assumptions C17_uri_header_list_to_end_of_input.
Print Assumptions C17_uri_parameter_list.
