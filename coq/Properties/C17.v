(* C17 (PARTIAL): the parameter character set is exactly the documented one, a byte outside it
   inside a name is rejected at that byte, known URI parameters are classified case-insensitively.
   The list splitting clauses are checked by the correspondence run and the render/parse oracle only. *)
From Sipsp Require Import Harness Misc.
Theorem C17_character_set : forall up c, tok_allowed up c = true <-> In c (allowed_set up).
Proof. exact tok_allowed_spec. Qed.
Theorem C17_bad_byte_in_name_rejected_there : forall f (rest : list byte) i s c,
  is_ws c = false -> c <> 61 -> c <> tf_sep f -> (c <> tf_term f \/ tf_term f = 0) ->
  tok_allowed (tf_uriparam f) c = false ->
  tp_sName f rest i s c = Ret i EBadChar (s <| tp_state := PERR |>).
Proof. exact name_badchar. Qed.
Theorem C17_known_uri_parameters_case_insensitive : forall n, uri_param_resolve (map to_lower n) = uri_param_resolve n.
Proof. exact uri_param_resolve_nocase. Qed.
