(* C03: no premature verdicts.  PARTIAL in the same way as C02: the statement is the
   "definitive" clause of the one-step property ExtOK. *)
From Sipsp Require Import Harness Resume.
Theorem C03_definitive_results_are_final :
  forall (S : Type) (P : list byte -> N -> S -> res S) (obs : S -> list Z) (Inv : N -> S -> Prop),
  ExtOK P obs Inv ->
  forall b x k s0 o e s, Inv k s0 -> k <= nnat (length b) -> P b k s0 = Done o e s -> e <> EMore ->
    req obs (P (b ++ x) k s0) (Done o e s).
Proof. exact (fun S P obs Inv H b x k s0 o e s => no_premature_verdict P obs Inv H b x k s0 o e s). Qed.
