(* C03: no premature verdicts.  The statement is the "definitive" clause of the one-step
   property ExtOK (first theorem), discharged for the same parsers as C02 (every buffer, suffix,
   offset and object state), for ParseHeaders, and for the message parser (C03_message, with the
   property's two exemptions spelled out).  ParseAllURIParams / ParseAllURIHdrs: on every list whose
   unused slots are clean (ExtURI.v; what Init / Reset make and the parsers keep). *)
From Sipsp Require Import Harness Resume Ext ExtLeaf ExtCSeq ExtTok ExtNameAddr ExtNested ExtLists ExtFLine ExtHdrLine ExtHeaders ExtMsg CapURI ExtURI.
Theorem C03_definitive_results_are_final :
  forall (S : Type) (P : list byte -> N -> S -> res S) (obs : S -> list Z) (Inv : N -> S -> Prop),
  ExtOK P obs Inv ->
  forall b x k s0 o e s, Inv k s0 -> k <= nnat (length b) -> P b k s0 = Done o e s -> e <> EMore ->
    req obs (P (b ++ x) k s0) (Done o e s).
Proof. exact (fun S P obs Inv H b x k s0 o e s => no_premature_verdict P obs Inv H b x k s0 o e s). Qed.

Theorem C03_skip_quoted : forall b x k o e s, k <= nnat (length b) ->
  (fun b o (_ : unit) => skip_quoted b o) b k tt = Done o e s -> e <> EMore -> req (fun _ : unit => []) ((fun b o (_ : unit) => skip_quoted b o) (b ++ x) k tt) (Done o e s).
Proof. exact (fun b x k o e s => no_premature_verdict _ _ _ quoted_ExtOK b x k tt o e s I). Qed.

Theorem C03_callid : forall b x k s0 o e s, k <= nnat (length b) ->
  parse_callid b k s0 = Done o e s -> e <> EMore -> req obs_callid (parse_callid (b ++ x) k s0) (Done o e s).
Proof. exact (fun b x k s0 o e s => no_premature_verdict _ _ _ callid_ExtOK b x k s0 o e s I). Qed.

Theorem C03_uint_expires : forall b x k s0 o e s, k <= nnat (length b) ->
  parse_uint b k s0 = Done o e s -> e <> EMore -> req obs_uint (parse_uint (b ++ x) k s0) (Done o e s).
Proof. exact (fun b x k s0 o e s => no_premature_verdict _ _ _ uint_ExtOK b x k s0 o e s I). Qed.

Theorem C03_content_length : forall b x k s0 o e s, k <= nnat (length b) ->
  parse_clen b k s0 = Done o e s -> e <> EMore -> req obs_uint (parse_clen (b ++ x) k s0) (Done o e s).
Proof. exact (fun b x k s0 o e s => no_premature_verdict _ _ _ clen_ExtOK b x k s0 o e s I). Qed.

Theorem C03_cseq : forall b x k s0 o e s, k <= nnat (length b) ->
  parse_cseq b k s0 = Done o e s -> e <> EMore -> req obs_cseq (parse_cseq (b ++ x) k s0) (Done o e s).
Proof. exact (fun b x k s0 o e s => no_premature_verdict _ _ _ cseq_ExtOK b x k s0 o e s I). Qed.

Theorem C03_nameaddr : forall h, forall b x k s0 o e s, k <= nnat (length b) ->
  (parse_nameaddr h) b k s0 = Done o e s -> e <> EMore -> req obs_pfrom ((parse_nameaddr h) (b ++ x) k s0) (Done o e s).
Proof. exact (fun h b x k s0 o e s => no_premature_verdict _ _ _ (nameaddr_ExtOK h) b x k s0 o e s I). Qed.

Theorem C03_one_pai : forall b x k s0 o e s, k <= nnat (length b) ->
  parse_one_pai b k s0 = Done o e s -> e <> EMore -> req obs_pfrom (parse_one_pai (b ++ x) k s0) (Done o e s).
Proof. exact (fun b x k s0 o e s => no_premature_verdict _ _ _ onepai_ExtOK b x k s0 o e s I). Qed.

Theorem C03_all_contacts : forall b x k s0 o e s, k <= nnat (length b) ->
  parse_all_contacts b k s0 = Done o e s -> e <> EMore -> req obs_contacts (parse_all_contacts (b ++ x) k s0) (Done o e s).
Proof. exact (fun b x k s0 o e s => no_premature_verdict _ _ _ contacts_ExtOK b x k s0 o e s I). Qed.

Theorem C03_all_pais : forall b x k s0 o e s, k <= nnat (length b) ->
  parse_all_pais b k s0 = Done o e s -> e <> EMore -> req obs_pais (parse_all_pais (b ++ x) k s0) (Done o e s).
Proof. exact (fun b x k s0 o e s => no_premature_verdict _ _ _ pais_ExtOK b x k s0 o e s I). Qed.

Theorem C03_token_param : forall flags (Hie : tf_ie (tp_decode flags) = false), forall b x k s0 o e s, k <= nnat (length b) ->
  (parse_tokparam flags) b k s0 = Done o e s -> e <> EMore -> req obs_tokparam ((parse_tokparam flags) (b ++ x) k s0) (Done o e s).
Proof. exact (fun flags Hie b x k s0 o e s => no_premature_verdict _ _ _ (tokparam_ExtOK flags Hie) b x k s0 o e s I). Qed.

Theorem C03_first_line : forall b x k s0 o e s, k <= nnat (length b) ->
  parse_fline b k s0 = Done o e s -> e <> EMore -> req obs_fline (parse_fline (b ++ x) k s0) (Done o e s).
Proof. exact (fun b x k s0 o e s => no_premature_verdict _ _ _ fline_ExtOK b x k s0 o e s I). Qed.

Theorem C03_header_line : forall b x k s0 o e s, k <= nnat (length b) ->
  parse_hdrline b k s0 = Done o e s -> e <> EMore -> req (fun x => obs_hdr (hx_h x) ++ obs_opt_phvals (hx_pv x)) (parse_hdrline (b ++ x) k s0) (Done o e s).
Proof. exact (fun b x k s0 o e s => no_premature_verdict _ _ _ hdrline_ExtOK b x k s0 o e s I). Qed.

Theorem C03_header_block : forall b x k s0 o e s, k <= nnat (length b) ->
  parse_headers b k s0 = Done o e s -> e <> EMore -> req (fun x => obs_hdrlst (hs_l x) ++ obs_opt_phvals (hs_pv x)) (parse_headers (b ++ x) k s0) (Done o e s).
Proof. exact (fun b x k s0 o e s => no_premature_verdict _ _ _ headers_ExtOK b x k s0 o e s I). Qed.

Theorem C03_all_uri_params : forall flags, testbit flags bPOptInputEnd = false -> forall b x k s0 o e s, ul_wf s0 -> k <= nnat (length b) ->
  parse_all_uri_params flags b k s0 = Done o e s -> e <> EMore -> req obs_uparams (parse_all_uri_params flags (b ++ x) k s0) (Done o e s).
Proof. exact (fun flags Hie b x k s0 o e s => no_premature_verdict _ _ _ (uparams_ExtOK flags (ul_flags_ie flags Hie)) b x k s0 o e s). Qed.

Theorem C03_all_uri_hdrs : forall flags, testbit flags bPOptInputEnd = false -> forall b x k s0 o e s, uh_wf s0 -> k <= nnat (length b) ->
  parse_all_uri_hdrs flags b k s0 = Done o e s -> e <> EMore -> req obs_uhdrs (parse_all_uri_hdrs flags (b ++ x) k s0) (Done o e s).
Proof. exact (fun flags Hie b x k s0 o e s => no_premature_verdict _ _ _ (uhdrs_ExtOK flags (uh_flags_ie flags Hie)) b x k s0 o e s). Qed.

(* the message parser: unless the no-more-data flag is set, a definitive verdict is kept on every
   extension, with the same offset and the same object - except that (1) a message without
   Content-Length parsed with neither skip-body nor require-Content-Length has, by definition, the
   rest of the buffer as its body (the property's exemption), and (2) after an error Buf is the whole
   buffer the failing call was given (fin_rel: every other field is equal) *)
Theorem C03_message : forall flags b x k s0 o e s, testbit flags bSIPMsgNoMoreData = false -> k <= nnat (length b) ->
  parse_sipmsg flags b k s0 = Done o e s -> e <> EMore ->
  body_is_rest flags e s \/
  exists s'', parse_sipmsg flags (b ++ x) k s0 = Done o e s'' /\ fin_rel (nnat (length (b ++ x))) s s''.
Proof. exact (fun flags b x k s0 o e s => msg_final flags b x k s0 o e s). Qed.

Theorem C03_message_observations : forall L s s'', fin_rel L s s'' ->
  obs_msg_nobuf s'' = obs_msg_nobuf s /\ (msg_err s = false -> obs_msg s'' = obs_msg s).
Proof. exact fin_rel_obs. Qed.
