(* C03: no premature verdicts.  The statement is the "definitive" clause of the one-step
   property ExtOK (first theorem).  PARTIAL in the same way as C02: discharged for SkipQuoted,
   ParseCallIDVal, ParseUIntVal / ParseExpiresVal (every buffer, suffix, offset, object state). *)
From Sipsp Require Import Harness Resume Ext ExtLeaf.
Theorem C03_definitive_results_are_final :
  forall (S : Type) (P : list byte -> N -> S -> res S) (obs : S -> list Z) (Inv : N -> S -> Prop),
  ExtOK P obs Inv ->
  forall b x k s0 o e s, Inv k s0 -> k <= nnat (length b) -> P b k s0 = Done o e s -> e <> EMore ->
    req obs (P (b ++ x) k s0) (Done o e s).
Proof. exact (fun S P obs Inv H b x k s0 o e s => no_premature_verdict P obs Inv H b x k s0 o e s). Qed.

Theorem C03_skip_quoted : forall b x k o e s, k <= nnat (length b) ->
  skip_quoted b k = Done o e s -> e <> EMore -> req (fun _ : unit => []) (skip_quoted (b ++ x) k) (Done o e s).
Proof. exact (fun b x k o e s => no_premature_verdict _ _ _ quoted_ExtOK b x k tt o e s I). Qed.

Theorem C03_callid : forall b x k s0 o e s, k <= nnat (length b) ->
  parse_callid b k s0 = Done o e s -> e <> EMore -> req obs_callid (parse_callid (b ++ x) k s0) (Done o e s).
Proof. exact (fun b x k s0 o e s => no_premature_verdict _ _ _ callid_ExtOK b x k s0 o e s I). Qed.

Theorem C03_uint_expires : forall b x k s0 o e s, k <= nnat (length b) ->
  parse_uint b k s0 = Done o e s -> e <> EMore -> req obs_uint (parse_uint (b ++ x) k s0) (Done o e s).
Proof. exact (fun b x k s0 o e s => no_premature_verdict _ _ _ uint_ExtOK b x k s0 o e s I). Qed.
