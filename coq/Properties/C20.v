(* C20: IPv4 detection is sound and complete; decoded address bytes are exact.
   ip4_text t ip: t is four dot separated groups of one to three digits, each at
   most 255, and ip are the four values (Proofs/IP4.v). *)
From Sipsp Require Import IP IP4.
Theorem C20_prefix_sound : forall s o e ip, ip4_prefix s = (true, o, e, ip) ->
  exists t rest cf df, s = t ++ rest /\ o = nnat (length t) /\ ip4_text t ip /\
    (exists g4, group g4 cf /\ df = nnat (length g4) /\ exists t0, t = t0 ++ g4) /\
    stops cf df rest /\ e = indication rest.
Proof. exact ip4_prefix_sound. Qed.
Theorem C20_prefix_complete : forall t ip rest, ip4_text t ip ->
  exists o e ip', ip4_prefix (t ++ rest) = (true, o, e, ip').
Proof. exact ip4_prefix_complete. Qed.
Theorem C20_contains_sound : forall buf o l ip, contains_ip4 buf = (true, o, l, ip) ->
  exists t rest, skipn (N.to_nat o) buf = t ++ rest /\ l = nnat (length t) /\ ip4_text t ip /\
                 (N.to_nat o <= length buf)%nat.
Proof. exact contains_ip4_sound. Qed.
Theorem C20_contains_complete : forall buf p t r ip, buf = p ++ t ++ r -> ip4_text t ip ->
  exists o l ip', contains_ip4 buf = (true, o, l, ip').
Proof. exact contains_ip4_complete. Qed.
Theorem C20_callid_position_flag : forall cid o l ip, contains_ip4 cid = (true, o, l, ip) ->
  callid_ip4_flag cid = if o =? 0 then 1 else if o + l =? N.of_nat (length cid) then 2 else 4.
Proof. exact callid_flag_spec. Qed.
