(* C18: relocating a parsed URI and its derived views *)
From Sipsp Require Import Harness URIViews.
Theorem C18_refused_relocation_leaves_structure : forall u np, fst (uri_adjust u np) = false -> snd (uri_adjust u np) = u.
Proof. exact adjust_refused_unchanged. Qed.
Theorem C18_short_span_refused : forall u np,
  pl np < to16 (pl (u_scheme u) + pl (u_user u) + pl (u_pass u) + pl (u_host u) + pl (u_port u)
                + pl (u_params u) + pl (u_headers u)) -> uri_adjust u np = (false, u).
Proof. exact adjust_short_refused. Qed.
Theorem C18_accepted_relocation_moves_every_component : forall u np u', uri_adjust u np = (true, u') ->
  u_type u' = u_type u /\ u_portno u' = u_portno u /\
  u_scheme u' = mkpf (po np) (pl (u_scheme u)) /\
  Forall2 (moved (po (u_scheme u)) (po np)) (uri_fields u) (uri_fields u').
Proof. exact adjust_ok_moves. Qed.
Theorem C18_move_exact_inside_16_bits : forall start offs f f',
  moved start offs f f' -> po f <> 0 -> start <= po f -> po f - start + offs <= 65535 ->
  po f' = po f - start + offs /\ pl f' = pl f.
Proof. exact adjust_exact. Qed.
Theorem C18_long_view : forall u,
  uri_long u = match last_nonempty (uri_fields u) with Some f => view_to u f | None => Some pf0 end.
Proof. exact long_is_last_nonempty. Qed.
Theorem C18_short_view : forall u,
  uri_short u = match last_nonempty [u_user u; u_host u; u_port u] with Some f => view_to u f | None => Some pf0 end.
Proof. exact short_is_last_of_user_host_port. Qed.
Theorem C18_truncate_removes_exactly_params_and_headers : forall u,
  uri_truncate u = mkpuri (u_type u) (u_scheme u) (u_user u) (u_pass u) (u_host u) (u_port u) pf0 pf0 (u_portno u).
Proof. exact truncate_exact. Qed.
(* a span too short to hold the URI is refused: the bound is over every present component,
   wherever it lies in the text (before fix 6ff1ed6 the last component in struct order decided) *)
Theorem C18_accepted_relocation_fits_the_span : forall u np u', uri_adjust u np = (true, u') ->
  Forall (fun f => po f <> 0 -> to16 (po f + 65536 - po (u_scheme u)) + pl f <= pl np) (uri_fields u).
Proof. exact adjust_ok_fits. Qed.
Theorem C18_span_too_short_for_a_component_refused : forall u np f, In f (uri_fields u) -> po f <> 0 ->
  pl np < to16 (po f + 65536 - po (u_scheme u)) + pl f -> uri_adjust u np = (false, u).
Proof. exact adjust_too_short_refused. Qed.
