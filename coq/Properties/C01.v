(* C01: resumed whole-message parsing equals parsing the same bytes from scratch.
   PARTIAL.  Full statement: for every flags, capacities, buffer b, start k and schedule cuts,
   every call of the chunked run of parse_sipmsg agrees (verdict, offset, and obs_msg once
   definitive) with a fresh one-shot call on the same prefix.  Proved here: that statement
   follows, for every schedule, from the one-step extension property ExtOK of the message
   parser (induction over the schedule); ExtOK itself is proved only for the leaf parsers
   listed in C02, not yet for the composed message parser. *)
From Sipsp Require Import Harness Resume.
Theorem C01_every_schedule_from_one_step_partial :
  forall flags (Inv : N -> pmsg -> Prop), ExtOK (parse_sipmsg flags) obs_msg Inv ->
  forall b k s0 cuts, Inv k s0 -> k <= nnat (length b) -> sorted_from (N.to_nat k) cuts ->
    agrees (parse_sipmsg flags) obs_msg b cuts (chunked_trace (parse_sipmsg flags) b cuts k s0) k s0.
Proof. exact (fun flags Inv => resume_schedule (parse_sipmsg flags) obs_msg Inv). Qed.
