(* C01: resumed whole-message parsing equals parsing the same bytes from scratch.
   PROVED for the model of ParseSIPMsg: for every flag combination, every object the run starts from
   (so every header / contact capacity, fresh or not), every buffer b, start offset k and schedule
   of growing prefixes, every call of the chunked run - each resuming at the offset and with the
   object the previous call returned - has the same verdict and offset as one call on the same
   prefix starting from the initial object, and once the verdict is definitive the same value of
   everything obs_msg reads back (first line, header list and shortcuts, From/To/Call-ID/CSeq/
   Content-Length/Expires/Contact/PAI values, body, Buf, RawMsg, Parsed/Err/Request/Method).
   Route: IterExt for every automaton under the message parser (Ext*.v), composed through the
   header line, the header block and the three sections of the message (ExtHdrLine, ExtHeaders,
   ExtMsg: msg_resume is an equality of results, not only of observations), then the parser
   independent induction over the schedule (Resume.v).
   The 65,535-byte limit of the Go code is not part of this statement: the model computes offsets
   in N; C13 and the correspondence run cover the limit. *)
From Sipsp Require Import Harness Resume ExtMsg.

Theorem C01_every_schedule_from_one_step :
  forall flags (Inv : N -> pmsg -> Prop), ResOK (parse_sipmsg flags) obs_msg Inv ->
  forall b k s0 cuts, Inv k s0 -> k <= nnat (length b) -> sorted_from (N.to_nat k) cuts ->
    agrees (parse_sipmsg flags) obs_msg b cuts (chunked_trace (parse_sipmsg flags) b cuts k s0) k s0.
Proof. exact (fun flags Inv => resume_schedule_res (parse_sipmsg flags) obs_msg Inv). Qed.

Theorem C01_message_every_schedule :
  forall flags b k s0 cuts, k <= nnat (length b) -> sorted_from (N.to_nat k) cuts ->
    agrees (parse_sipmsg flags) obs_msg b cuts (chunked_trace (parse_sipmsg flags) b cuts k s0) k s0.
Proof. exact (fun flags b k s0 cuts => resume_schedule_res _ _ _ (msg_ResOK flags) b k s0 cuts I). Qed.

(* the one-step form, as equalities of whole results *)
Theorem C01_message_resumes_transparently :
  forall flags p x i s, testbit flags bSIPMsgNoMoreData = false -> i <= nnat (length p) ->
  match parse_sipmsg flags p i s with
  | Done o EMore s' => o <= nnat (length p) /\ parse_sipmsg flags (p ++ x) o s' = parse_sipmsg flags (p ++ x) i s
  | _ => True
  end.
Proof. exact msg_resume. Qed.

(* with the no-more-data flag a call never asks for more: every chunked run is a single call *)
Theorem C01_no_more_data_never_suspends :
  forall flags p i s o s', testbit flags bSIPMsgNoMoreData = true -> parse_sipmsg flags p i s <> Done o EMore s'.
Proof. exact msg_nomore. Qed.
