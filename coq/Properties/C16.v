(* C16: header-name and method classification is total and exactly the table *)
From Sipsp Require Import Lookup Classify.
Theorem C16_header_classification : forall name t, name <> [] ->
  (get_hdr_type name = t /\ t <> HdrOther) <-> In (map to_lower name, t) spec_hdrs.
Proof. exact hdr_type_spec. Qed.
Theorem C16_method_classification : forall name t, name <> [] ->
  (get_method_no name = t /\ t <> MOther) <-> In (name, t) spec_methods.
Proof. exact method_no_spec. Qed.
Theorem C16_empty_name_is_other : get_hdr_type [] = HdrOther /\ get_method_no [] = MOther.
Proof. exact (conj hdr_type_empty method_no_empty). Qed.
Theorem C16_method_name_roundtrip : forall m, In m [1;2;3;4;5;6;7;8;9;10;11;12;13;14]%N -> get_method_no (method_name m) = m.
Proof. exact method_roundtrip. Qed.
Theorem C16_method_name_is_table_name : forall n t, In (n, t) spec_methods -> method_name t = n.
Proof. exact method_name_spec. Qed.
