(* C12: Reset/Init make a used parser object behave like a new one.
   exec_ops runs an arbitrary history of (parse on any input, flags, chunk schedule | reset)
   operations; None = a call panicked (excluded by C04). *)
From Sipsp Require Import Harness Reset.
Theorem C12_contacts : forall cap ops,
  match exec_ops obj_contacts ops (contacts_init (repeat pfrom0 cap)) with
  | Some c => ob_reset obj_contacts c = contacts_init (repeat pfrom0 cap)
  | None => True
  end.
Proof. exact contacts_history_reset. Qed.
Theorem C12_uri_params : forall cap ops,
  match exec_ops obj_uparams ops (uparams_init (repeat uriparam0 cap)) with
  | Some l => ob_reset obj_uparams l = uparams_init (repeat uriparam0 cap)
  | None => True
  end.
Proof. exact uparams_history_reset. Qed.
Theorem C12_uri_hdrs : forall cap ops,
  match exec_ops obj_uhdrs ops (uhdrs_init (repeat tokparam0 cap)) with
  | Some l => ob_reset obj_uhdrs l = uhdrs_init (repeat tokparam0 cap)
  | None => True
  end.
Proof. exact uhdrs_history_reset. Qed.
Theorem C12_header_block : forall hcap ccap withpv ops,
  let new := mkhdrs_st (hdrlst_init (repeat hdr0 hcap))
                       (if withpv : bool then Some (phvals_init (repeat pfrom0 ccap)) else None) in
  match exec_ops obj_headers ops new with
  | Some x => ob_reset obj_headers x = new
  | None => True
  end.
Proof. exact headers_history_reset. Qed.
Theorem C12_header_line : forall ccap withpv ops,
  let new := mkhline hdr0 (if withpv : bool then Some (phvals_init (repeat pfrom0 ccap)) else None) in
  match exec_ops obj_hdrline ops new with
  | Some x => ob_reset obj_hdrline x = new
  | None => True
  end.
Proof. exact hdrline_history_reset. Qed.
(* the message: Reset keeps Buf (its length is observable), every later parse is that of a new object *)
Theorem C12_message : forall hcap ccap ops,
  match exec_ops obj_msg ops (msg_init 0 (repeat hdr0 hcap) (repeat pfrom0 ccap)) with
  | Some m =>
    msg_reset m = msg_init (m_buflen m) (repeat hdr0 hcap) (repeat pfrom0 ccap) /\
    forall flags buf o, parse_sipmsg flags buf o (msg_reset m)
                        = parse_sipmsg flags buf o (msg_init 0 (repeat hdr0 hcap) (repeat pfrom0 ccap))
  | None => True
  end.
Proof. exact msg_history_reset. Qed.
(* objects without caller arrays: reset is the constant new object *)
Theorem C12_plain_objects :
  const_reset obj_fline fline0 /\ const_reset obj_callid callid0 /\ const_reset obj_cseq cseq0
  /\ const_reset obj_uint uintb0 /\ const_reset obj_clen uintb0 /\ (forall h, const_reset (obj_nameaddr h) pfrom0)
  /\ const_reset obj_onepai pfrom0 /\ const_reset obj_pais pais0 /\ const_reset obj_tokparam tokparam0.
Proof. exact plain_resets. Qed.
