(* C11 (PARTIAL): relocation of a parsed URI shifts every present component by exactly the
   same amount (and is exact inside the 16-bit range).  Offset invariance of the parsers is
   checked by the correspondence run and the shift oracle only. *)
From Sipsp Require Import Harness URIViews.
Theorem C11_relocation_shifts_every_component_partial : forall u np u', uri_adjust u np = (true, u') ->
  u_type u' = u_type u /\ u_portno u' = u_portno u /\
  u_scheme u' = mkpf (po np) (pl (u_scheme u)) /\
  Forall2 (moved (po (u_scheme u)) (po np)) (uri_fields u) (uri_fields u').
Proof. exact adjust_ok_moves. Qed.
Theorem C11_shift_is_exact_inside_16_bits : forall start offs f f',
  moved start offs f f' -> po f <> 0 -> start <= po f -> po f - start + offs <= 65535 ->
  po f' = po f - start + offs /\ pl f' = pl f.
Proof. exact adjust_exact. Qed.
