(* C11: results are invariant under where in the buffer the text starts.
   PROVED, for the model, for ParseSIPMsg (every flag set, every header / contact capacity, fresh
   object) and for every stand-alone streaming parser: ParseCallIDVal, ParseUIntVal /
   ParseExpiresVal, ParseCLenVal, ParseCSeqVal, ParseFLine (Shift.v), ParseNameAddrPVal for every
   header kind and ParseOnePAI (ShiftFb.v), ParseAllContactValues for every capacity, the
   P-Asserted-Identity list, ParseHdrLine, ParseHeaders (ShiftMsg.v), SkipQuoted, ParseTokenParam
   for every flag set, ParseAllURIParams and ParseAllURIHdrs for every capacity (ShiftTok.v).
   For every buffer, every start offset inside it, every sequence of junk bytes put in front, valid
   input or not: the call on the longer buffer, started |junk| further on, returns the same verdict,
   the returned offset moved by |junk|, every numeric / type / flag value unchanged, every reported
   field moved by exactly |junk| and every field that was not set still unset.  The relations (Rci,
   Rui, Rcs, Rfl, R0, Rct0, Rpa0, Rtp0, Rul0, Ruh0, Rhdr, Rhs0, Rmsg) say, state by state, which
   fields are live; reading a field back (zget) is shift invariant.  The rules behind it,
   `C11_shift_rule` and its position-indexed variant, are parser independent.
   Two places where the Go code looks at position 0 / the byte before the text are where the
   position index matters: the parameters span of a name-addr value uses offset 0 as "not started",
   and the white-space-terminated token parameter looks at buf[i-1] - both only in states that
   cannot be reached before the first byte has been consumed.
   Offsets are in N: the point where the text ends at the 65,535-byte addressing limit is not part
   of the statement (oracle and correspondence cover it).
   Relocation of a parsed URI: every present component moves by the same amount, exact inside 16 bits. *)
From Sipsp Require Import Harness URIViews Shift ShiftFb ShiftMsg ShiftTok.

Theorem C11_shift_rule : forall (S : Type) (iter : list byte -> list byte -> N -> S -> ires S) (J : list byte) (R : S -> S -> Prop),
  (forall pre rest i s s', i = nnat (length pre) -> R s s' ->
     ires_shift J R (iter pre rest i s) (iter (pre ++ J) rest (i + nnat (length J)) s')) ->
  forall junk buf offs s s', J = rev junk -> offs <= nnat (length buf) -> R s s' ->
    res_shift J R (parse iter buf offs s) (parse iter (junk ++ buf) (offs + nnat (length J)) s').
Proof. exact (fun S iter J R H junk buf offs s s' => parse_shift iter J R H junk buf offs s s'). Qed.

Theorem C11_callid : forall junk buf offs, offs <= nnat (length buf) ->
  res_shift (rev junk) (Rci (nnat (length junk))) (parse_callid buf offs callid0) (parse_callid (junk ++ buf) (offs + nnat (length junk)) callid0).
Proof. exact callid_shift. Qed.
Theorem C11_uint_expires : forall junk buf offs, offs <= nnat (length buf) ->
  res_shift (rev junk) (Rui (nnat (length junk))) (parse_uint buf offs uintb0) (parse_uint (junk ++ buf) (offs + nnat (length junk)) uintb0).
Proof. exact uint_shift. Qed.
Theorem C11_content_length : forall junk buf offs, offs <= nnat (length buf) ->
  res_shift (rev junk) (Rui (nnat (length junk))) (parse_clen buf offs uintb0) (parse_clen (junk ++ buf) (offs + nnat (length junk)) uintb0).
Proof. exact clen_shift. Qed.
Theorem C11_cseq : forall junk buf offs, offs <= nnat (length buf) ->
  res_shift (rev junk) (Rcs (nnat (length junk))) (parse_cseq buf offs cseq0) (parse_cseq (junk ++ buf) (offs + nnat (length junk)) cseq0).
Proof. exact cseq_shift. Qed.
Theorem C11_first_line : forall junk buf offs, offs <= nnat (length buf) ->
  res_shift (rev junk) (Rfl (nnat (length junk))) (parse_fline buf offs fline0) (parse_fline (junk ++ buf) (offs + nnat (length junk)) fline0).
Proof. exact fline_shift. Qed.

(* the 23-state name-addr automaton.  R0 (ShiftFb.v): same state and verdict-independent values (star, lr,
   expires, q, type, parameter error); name / uri / tag moved or unset in both runs; the parameters span
   moved, or not started (offset 0) in both; the value span moved unless the parser is still in its initial
   state; the error offset moved or zero in both; the private offsets related according to the state *)
Theorem C11_name_addr : forall h junk buf offs, offs <= nnat (length buf) ->
  res_shiftI (rev junk) (R0 (nnat (length junk))) (parse_nameaddr h buf offs pfrom0) (parse_nameaddr h (junk ++ buf) (offs + nnat (length junk)) pfrom0).
Proof. exact nameaddr_shift. Qed.

(* the multi-value lists, any capacity *)
Theorem C11_contacts : forall n junk buf offs, offs <= nnat (length buf) ->
  res_shiftI (rev junk) (Rct0 (nnat (length junk)))
    (parse_all_contacts buf offs (contacts_init (repeat pfrom0 n)))
    (parse_all_contacts (junk ++ buf) (offs + nnat (length junk)) (contacts_init (repeat pfrom0 n))).
Proof. exact contacts_shift. Qed.

(* SkipQuoted, ParseTokenParam, the two URI lists *)
Theorem C11_quoted : forall junk buf offs, offs <= nnat (length buf) ->
  res_shift (rev junk) (fun _ _ : unit => True) (skip_quoted buf offs) (skip_quoted (junk ++ buf) (offs + nnat (length junk))).
Proof. exact quoted_shift. Qed.
Theorem C11_token_param : forall flags junk buf offs, offs <= nnat (length buf) ->
  res_shiftI (rev junk) (Rtp0 (nnat (length junk))) (parse_tokparam flags buf offs tokparam0) (parse_tokparam flags (junk ++ buf) (offs + nnat (length junk)) tokparam0).
Proof. exact tokparam_shift. Qed.
Theorem C11_uri_params : forall flags n junk buf offs, offs <= nnat (length buf) ->
  res_shiftI (rev junk) (Rul0 (nnat (length junk)))
    (parse_all_uri_params flags buf offs (uparams_init (repeat uriparam0 n)))
    (parse_all_uri_params flags (junk ++ buf) (offs + nnat (length junk)) (uparams_init (repeat uriparam0 n))).
Proof. exact uparams_shift. Qed.
Theorem C11_uri_hdrs : forall flags n junk buf offs, offs <= nnat (length buf) ->
  res_shiftI (rev junk) (Ruh0 (nnat (length junk)))
    (parse_all_uri_hdrs flags buf offs (uhdrs_init (repeat tokparam0 n)))
    (parse_all_uri_hdrs flags (junk ++ buf) (offs + nnat (length junk)) (uhdrs_init (repeat tokparam0 n))).
Proof. exact uhdrs_shift. Qed.
Theorem C11_one_pai : forall junk buf offs, offs <= nnat (length buf) ->
  res_shiftI (rev junk) (R0 (nnat (length junk))) (parse_one_pai buf offs pfrom0) (parse_one_pai (junk ++ buf) (offs + nnat (length junk)) pfrom0).
Proof.
  intros junk buf offs Ho. pose proof (nameaddr_shift HdrPAI junk buf offs Ho) as H. unfold parse_one_pai.
  destruct (parse_nameaddr HdrPAI buf offs pfrom0) as [o e s| |], (parse_nameaddr HdrPAI (junk ++ buf) _ pfrom0) as [o' e' s'| |]; try contradiction; auto.
  destruct H as (-> & <- & HR). pose proof HR as (_ & (B1 & _) & _). rewrite B1.
  destruct (_ && _); (split; [reflexivity|]); (split; [reflexivity|exact HR]).
Qed.

(* the whole message: mrel = same kind of result, offset + |junk|, same verdict, objects related by Rmsg
   (first line by Rfl, header list and parsed values by Rhs0, body / raw message / buffer length / start
   offset moved by |junk|) *)
Theorem C11_message : forall flags junk buf offs L nh nc, offs <= nnat (length buf) ->
  mrel (nnat (length junk)) (parse_sipmsg flags buf offs (msg_init L (repeat hdr0 nh) (repeat pfrom0 nc)))
                            (parse_sipmsg flags (junk ++ buf) (offs + nnat (length junk)) (msg_init L (repeat hdr0 nh) (repeat pfrom0 nc))).
Proof. exact fresh_message_shift. Qed.
(* any two not-yet-started objects that are related (this covers Reset objects and different Buf lengths) *)
Theorem C11_message_related_objects : forall flags junk buf offs m m', offs <= nnat (length buf) ->
  m_state m = MInit -> m_state m' = MInit -> Rfl (nnat (length junk)) (m_fl m) (m_fl m') -> Rhs0 (nnat (length junk)) (m_hs m) (m_hs m') ->
  h_state (hl_slot (hs_l (m_hs m))) = HInit -> m_body m' = m_body m -> Rraw (nnat (length junk)) (m_raw m) (m_raw m') ->
  mrel (nnat (length junk)) (parse_sipmsg flags buf offs m) (parse_sipmsg flags (junk ++ buf) (offs + nnat (length junk)) m').
Proof. exact message_shift. Qed.

(* spelled out for a successfully parsed Call-ID and CSeq: what "related" means at the end *)
Theorem C11_callid_success : forall junk buf offs o s, offs <= nnat (length buf) ->
  parse_callid buf offs callid0 = Done o EOk s -> ci_state s = CiFIN ->
  exists s', parse_callid (junk ++ buf) (offs + nnat (length junk)) callid0 = Done (o + nnat (length junk)) EOk s' /\
             ci_state s' = CiFIN /\ ci_callid s' = shf (nnat (length junk)) (ci_callid s).
Proof.
  intros junk buf offs o s Ho E Hs. pose proof (callid_shift junk buf offs Ho) as H. rewrite E in H.
  destruct (parse_callid (junk ++ buf) _ callid0) as [o' e' s'| |]; try contradiction.
  destruct H as (Eo & <- & Est & HR). rewrite rev_length in Eo. subst o'. rewrite Hs in HR. destruct HR as [Hc _].
  exists s'. split; [reflexivity|]. split; [congruence|exact Hc].
Qed.
Theorem C11_cseq_success : forall junk buf offs o s, offs <= nnat (length buf) ->
  parse_cseq buf offs cseq0 = Done o EOk s -> cs_state s = CsFIN ->
  exists s', parse_cseq (junk ++ buf) (offs + nnat (length junk)) cseq0 = Done (o + nnat (length junk)) EOk s' /\
             cs_no s' = cs_no s /\ cs_methodno s' = cs_methodno s /\
             cs_cseq s' = shf (nnat (length junk)) (cs_cseq s) /\ cs_method s' = shf (nnat (length junk)) (cs_method s) /\
             cs_v s' = shf (nnat (length junk)) (cs_v s).
Proof.
  intros junk buf offs o s Ho E Hs. pose proof (cseq_shift junk buf offs Ho) as H. rewrite E in H.
  destruct (parse_cseq (junk ++ buf) _ cseq0) as [o' e' s'| |]; try contradiction.
  destruct H as (Eo & <- & Est & Hn & Hm & HR). rewrite rev_length in Eo. subst o'. rewrite Hs in HR. destruct HR as (Hc & Hme & Hv).
  exists s'. auto 10.
Qed.

(* non-vacuity: "CSeq: 42 INVITE" after two junk bytes *)
Example C11_example :
  parse_cseq [32;52;50;32;73;78;86;73;84;69;13;10;13;10] 0 cseq0 = Done 12 EOk (mkcseq 42 (get_method_no [73;78;86;73;84;69]) (mkpf 1 2) (mkpf 4 6) (mkpf 1 9) CsFIN 0) /\
  parse_cseq ([120;121] ++ [32;52;50;32;73;78;86;73;84;69;13;10;13;10]) 2 cseq0 = Done 14 EOk (mkcseq 42 (get_method_no [73;78;86;73;84;69]) (mkpf 3 2) (mkpf 6 6) (mkpf 3 9) CsFIN 0).
Proof. split; vm_compute; reflexivity. Qed.

(* relocation of a parsed URI *)
Theorem C11_relocation_shifts_every_component : forall u np u', uri_adjust u np = (true, u') ->
  u_type u' = u_type u /\ u_portno u' = u_portno u /\
  u_scheme u' = mkpf (po np) (pl (u_scheme u)) /\
  Forall2 (moved (po (u_scheme u)) (po np)) (uri_fields u) (uri_fields u').
Proof. exact adjust_ok_moves. Qed.
Theorem C11_shift_is_exact_inside_16_bits : forall start offs f f',
  moved start offs f f' -> po f <> 0 -> start <= po f -> po f - start + offs <= 65535 ->
  po f' = po f - start + offs /\ pl f' = pl f.
Proof. exact adjust_exact. Qed.
Print Assumptions C11_first_line.
Print Assumptions C11_name_addr.
Print Assumptions C11_message.
Print Assumptions C11_cseq.
