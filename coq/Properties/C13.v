(* C13: caller-chosen capacities only truncate what is stored, never change the parse.
   PROVED for the model, for the header array and the contact array of the message parser (and for
   ParseHeaders and ParseAllContactValues on their own): two objects that differ only in these
   capacities (fresh, reset, or suspended in the middle of any message) step in lock-step - same
   verdict, same offset, and the same value of everything that is not an array element
   (obs_cap_indep: first line, header count and type flags, first-of-type shortcuts, From / To /
   Call-ID / CSeq / Content-Length / Expires / PAI values, contact count and expires summary, body,
   raw message); the elements that are stored agree on the common stored prefix; the 'more'
   indicators tell exactly when something was dropped; after a successful parse the first and the
   last contact are the same whatever the capacity.  One-shot and every chunk schedule.
   The same for the URI parameter and URI header lists (CapURI.v): objects differing only in the
   capacity of the array give the same verdict, offset, counts, type flags; the stored entries agree
   on the common prefix (every flag set; the token-parameter parser runs on the same value in both).
   Not claimed: the P-Asserted-Identity array (its capacity is a package constant, not caller-chosen). *)
From Sipsp Require Import Harness Misc SigWalk Sim Capacity CapHeaders CapURI.

Theorem C13_message_capacity_independent : forall flags buf k m m', Rmsg m m' ->
  res_rel Qmsg (parse_sipmsg flags buf k m) (parse_sipmsg flags buf k m').
Proof. exact message_capacity. Qed.

Theorem C13_message_capacity_independent_chunked : forall flags b cuts k m m', Rmsg m m' ->
  res_rel Qmsg (chunked (parse_sipmsg flags) b cuts k m) (chunked (parse_sipmsg flags) b cuts k m').
Proof. exact chunked_capacity. Qed.

(* the relation holds between fresh objects of any capacities, and again after Reset *)
Theorem C13_fresh_objects_related : forall L nh nh' nc nc',
  Rmsg (msg_init L (repeat hdr0 nh) (repeat pfrom0 nc)) (msg_init L (repeat hdr0 nh') (repeat pfrom0 nc')).
Proof. exact Rmsg_init. Qed.
Theorem C13_reset_objects_related : forall m m', Rmsg_w m m' -> Rmsg (msg_reset m) (msg_reset m').
Proof. exact Rmsg_reset. Qed.

(* what the relation means for a caller (the weak form holds after every verdict) *)
Theorem C13_same_values : forall m m', Rmsg_w m m' -> obs_cap_indep m = obs_cap_indep m'.
Proof. exact Rmsg_w_obs. Qed.
Theorem C13_strong_implies_weak : forall m m', Rmsg m m' -> Rmsg_w m m'.
Proof. exact Rmsg_weaken. Qed.
Theorem C13_stored_elements_agree : forall m m', Rmsg_w m m' ->
  (forall j, (j < N.to_nat (hl_n (hs_l (m_hs m))))%nat -> (j < length (hl_hdrs (hs_l (m_hs m))))%nat ->
             (j < length (hl_hdrs (hs_l (m_hs m'))))%nat ->
             nth j (hl_hdrs (hs_l (m_hs m))) hdr0 = nth j (hl_hdrs (hs_l (m_hs m'))) hdr0) /\
  (forall v v', hs_pv (m_hs m) = Some v -> hs_pv (m_hs m') = Some v' ->
     forall j, (j < N.to_nat (ct_n (pv_contacts v)))%nat -> (j < length (ct_vals (pv_contacts v)))%nat ->
               (j < length (ct_vals (pv_contacts v')))%nat ->
               nth j (ct_vals (pv_contacts v)) pfrom0 = nth j (ct_vals (pv_contacts v')) pfrom0).
Proof. exact Rmsg_w_prefix. Qed.

(* the stand-alone parsers *)
Theorem C13_headers_capacity_independent : forall buf k st st', Rhs st st' ->
  res_rel Qhs (parse_headers buf k st) (parse_headers buf k st').
Proof. exact headers_capacity. Qed.
Theorem C13_contacts_capacity_independent : forall buf k c c', Rct c c' ->
  res_rel Qct (parse_all_contacts buf k c) (parse_all_contacts buf k c').
Proof. exact contacts_capacity. Qed.
Theorem C13_fresh_contacts_related : forall n m, Rct (contacts_init (repeat pfrom0 n)) (contacts_init (repeat pfrom0 m)).
Proof. exact Rct_init. Qed.
Theorem C13_first_and_last_contact_same : forall c c', Qct 0 EOk c c' ->
  ct_get c 0 = ct_get c' 0 /\ ct_get c (ct_n c - 1) = ct_get c' (ct_n c' - 1).
Proof. exact Qct_ok_gets. Qed.

Theorem C13_more_iff_dropped : 
  (forall c, ct_more c = true <-> ct_vno c < ct_n c) /\ (forall l, ul_more l = true <-> ul_pno l < ul_n l)
  /\ (forall l, uh_more l = true <-> uh_hno l < uh_n l).
Proof. exact (conj more_iff_dropped_contacts (conj more_iff_dropped_uparams more_iff_dropped_uhdrs)). Qed.
Theorem C13_first_and_last_contact_retrievable : forall c, 0 < ct_n c ->
  (ct_n c <= ct_cap c -> length (ct_vals c) = N.to_nat (ct_cap c)) ->
  ct_get c 0 <> None /\ ct_get c (ct_n c - 1) <> None.
Proof. exact first_last_contact_retrievable. Qed.

(* the URI parameter and URI header lists *)
Theorem C13_uri_params_capacity_independent : forall flags buf offs l l', Rulc l l' ->
  res_rel (fun _ _ => Rulc) (parse_all_uri_params flags buf offs l) (parse_all_uri_params flags buf offs l').
Proof. exact uparams_capacity. Qed.
Theorem C13_uri_hdrs_capacity_independent : forall flags buf offs l l', Ruhc l l' ->
  res_rel (fun _ _ => Ruhc) (parse_all_uri_hdrs flags buf offs l) (parse_all_uri_hdrs flags buf offs l').
Proof. exact uhdrs_capacity. Qed.
Theorem C13_fresh_uri_lists_related : forall n n',
  Rulc (uparams_init (repeat uriparam0 n)) (uparams_init (repeat uriparam0 n')) /\
  Ruhc (uhdrs_init (repeat tokparam0 n)) (uhdrs_init (repeat tokparam0 n')).
Proof. exact (fun n n' => conj (Rulc_init n n') (Ruhc_init n n')). Qed.
Theorem C13_uri_lists_what_related_means : forall l l', Rulc l l' ->
  ul_n l = ul_n l' /\ ul_types l = ul_types l' /\ ul_vno l = ul_vno l' /\
  forall j, (j < N.to_nat (ul_n l))%nat -> (j < length (ul_params l))%nat -> (j < length (ul_params l'))%nat ->
    nth j (ul_params l) uriparam0 = nth j (ul_params l') uriparam0.
Proof. exact Rulc_reads. Qed.
Theorem C13_uri_hdrs_what_related_means : forall l l', Ruhc l l' ->
  uh_n l = uh_n l' /\ uh_vno l = uh_vno l' /\
  forall j, (j < N.to_nat (uh_n l))%nat -> (j < length (uh_hdrs l))%nat -> (j < length (uh_hdrs l'))%nat ->
    nth j (uh_hdrs l) tokparam0 = nth j (uh_hdrs l') tokparam0.
Proof. exact Ruhc_reads. Qed.
