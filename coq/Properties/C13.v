(* C13 (PARTIAL): the 'more' indicators tell exactly when something was dropped; first and last
   contact stay retrievable; a header array holding a prefix yields the same signature or the
   truncated indication.  Independence of verdict/offset/counts from the capacities is checked by
   the correspondence run and the capacity oracle only. *)
From Sipsp Require Import Harness Misc SigWalk.
Theorem C13_more_iff_dropped : 
  (forall c, ct_more c = true <-> ct_vno c < ct_n c) /\ (forall l, ul_more l = true <-> ul_pno l < ul_n l)
  /\ (forall l, uh_more l = true <-> uh_hno l < uh_n l).
Proof. exact (conj more_iff_dropped_contacts (conj more_iff_dropped_uparams more_iff_dropped_uhdrs)). Qed.
Theorem C13_first_and_last_contact_retrievable_partial : forall c, 0 < ct_n c ->
  (ct_n c <= ct_cap c -> length (ct_vals c) = N.to_nat (ct_cap c)) ->
  ct_get c 0 <> None /\ ct_get c (ct_n c - 1) <> None.
Proof. exact first_last_contact_retrievable. Qed.
