(* C04: crash-free, terminating, offset-sane.
   PARTIAL.  Proved: the safety rule for the loop driver (any parser whose iteration keeps its
   invariant never panics, never loops without progress, and returns offsets in range), its
   instances for Call-ID, unsigned-integer (Expires) and Content-Length values on every buffer,
   offset and resumed state; totality of the look-ups incl. the empty name; error positions of
   ParseURI; relocation never corrupts.  Not proved: the instances for the remaining automata
   (name-addr, token parameter, header line, message), which the correspondence + crash oracle cover.
   Concurrency: model functions are pure; data races are runtime behaviour outside the model. *)
From Sipsp Require Import Harness RunLemmas Safe SafeLeaf Classify URIOffsets URIViews.
Theorem C04_safety_rule : forall (St : Type) (iter : list byte -> list byte -> N -> St -> ires St)
  (P : list byte -> list byte -> N -> St -> Prop) (Q : list byte -> list byte -> N -> N -> err -> St -> Prop),
  (forall pre rest i s, P pre rest i s ->
    match iter pre rest i s with
    | Next k s' => (0 < k <= length rest)%nat /\ P (zpre k pre rest) (zrest k rest) (i + nnat k) s'
    | Ret o e s' => Q pre rest i o e s'
    | IPanic => False
    end) ->
  forall rest pre i s, P pre rest i s ->
    match run iter pre rest i 0 s with
    | Done o e s' => exists pre' rest' i', Q pre' rest' i' o e s' /\ rev pre' ++ rest' = rev pre ++ rest
    | _ => False
    end.
Proof. exact (fun St iter P Q => run_safe iter P Q). Qed.
Theorem C04_callid_partial : forall buf offs s, offs <= nnat (length buf) -> ci_inv offs s ->
  match parse_callid buf offs s with
  | Done o e s' => offs <= o /\ o <= nnat (length buf) /\ ci_inv o s' /\ pf_end (ci_callid s') <= nnat (length buf)
  | _ => False
  end.
Proof. exact callid_safe. Qed.
Theorem C04_uint_partial : forall buf offs s, offs <= nnat (length buf) -> ui_inv offs s ->
  match parse_uint buf offs s with
  | Done o e s' => offs <= o /\ o <= nnat (length buf) /\ ui_inv o s' /\ pf_end (ui_sval s') <= nnat (length buf)
  | _ => False
  end.
Proof. exact uint_safe. Qed.
Theorem C04_clen_partial : forall buf offs s, offs <= nnat (length buf) -> ui_inv offs s ->
  match parse_clen buf offs s with
  | Done o e s' => o <= nnat (length buf) /\ (e = EOk \/ e = EMore -> offs <= o) /\ pf_end (ui_sval s') <= nnat (length buf)
  | _ => False
  end.
Proof. exact clen_safe. Qed.
Theorem C04_lookups_total_on_empty_name : get_hdr_type [] = HdrOther /\ get_method_no [] = MOther.
Proof. exact (conj hdr_type_empty method_no_empty). Qed.
Theorem C04_uri_offsets : forall uri u0 e o u, parse_uri uri u0 = Some (e, o, u) ->
  o <= nnat (length uri) /\ (e = NoURIErr -> o = nnat (length uri)).
Proof. exact parse_uri_offsets. Qed.
Theorem C04_refused_relocation_keeps_structure : forall u np, fst (uri_adjust u np) = false -> snd (uri_adjust u np) = u.
Proof. exact adjust_refused_unchanged. Qed.
