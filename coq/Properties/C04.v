(* C04: crash-free, terminating, offset-sane.
   PROVED for the model of every resumable parser up to ParseSIPMsg; PARTIAL for the rest (below).
   Route: the safety rule for the loop driver (any parser whose iteration keeps its invariant never
   panics, never loops without progress, and returns offsets in range), then its instances - on
   every buffer, every start offset inside it, every object state satisfying the stated invariant
   (fresh and Reset objects do; every suspended object does again, so every chunk schedule is
   covered: C04_message_every_schedule) - for Call-ID, unsigned-integer (Expires), Content-Length,
   CSeq, the first line, token parameters (every flag set), SkipQuoted, the 23-state name-addr
   automaton (From / To / Contact / PAI values, every header kind), the Contact and PAI multi-value
   lists (every capacity), the header line with its eight value parsers, the header block (every
   header capacity) and the whole message (every flag set): no panic (no slice or index out of
   range, no BUG panic), no stuck loop, returned offset inside the buffer and not before the start
   offset on EOk / EMore.  The invariants are "every saved offset lies at or before the current
   position" plus, for name-addr, three content facts the back-tracking arithmetic needs.
   ParseURI never panics on any byte string (and its error positions lie inside the input);
   totality of the look-ups incl. the empty name; relocation never corrupts.
   Also the URI parameter / URI header lists (SafeURI.v).
   Every field of a successfully parsed message can be dereferenced (UpperBound.v, SigTotal.v): first
   line, stored header names and values, body and every PHdrVals field - Call-ID, CSeq number / method /
   value, Content-Length and Expires digits, all fields of From / To and of every Contact and P-Asserted-
   Identity value incl. the scratch ones - end at or before the returned offset, which lies inside the buffer
   (C04_parsed_message_fields_in_buffer; any feeding schedule: C04_parsed_values_in_buffer_fed, by C01);
   GetMsgSig never panics on a parsed message (C04_signature_total).
   Not proved: the other stateless helpers (compare, lookup other than the empty name) and accessors, and
   field dereferenceability of a message after an error or a suspension beyond the parser invariants:
   these the correspondence + crash oracle cover.
   Concurrency: model functions are pure; data races are runtime behaviour outside the model. *)
From Sipsp Require Import Harness RunLemmas Safe SafeLeaf SafeMore SafeMsg Again SafeURI CapURI Resume Classify URIOffsets URIViews URILossless
  Layout SigCoherent LowerBound UpperBound SigTotal CmpLaws CmpLists CmpTotal AllVerdicts.
Theorem C04_safety_rule : forall (St : Type) (iter : list byte -> list byte -> N -> St -> ires St)
  (P : list byte -> list byte -> N -> St -> Prop) (Q : list byte -> list byte -> N -> N -> err -> St -> Prop),
  (forall pre rest i s, P pre rest i s ->
    match iter pre rest i s with
    | Next k s' => (0 < k <= length rest)%nat /\ P (zpre k pre rest) (zrest k rest) (i + nnat k) s'
    | Ret o e s' => Q pre rest i o e s'
    | IPanic => False
    end) ->
  forall rest pre i s, P pre rest i s ->
    match run iter pre rest i 0 s with
    | Done o e s' => exists pre' rest' i', Q pre' rest' i' o e s' /\ rev pre' ++ rest' = rev pre ++ rest
    | _ => False
    end.
Proof. exact (fun St iter P Q => run_safe iter P Q). Qed.
Theorem C04_callid_partial : forall buf offs s, offs <= nnat (length buf) -> ci_inv offs s ->
  match parse_callid buf offs s with
  | Done o e s' => offs <= o /\ o <= nnat (length buf) /\ ci_inv o s' /\ pf_end (ci_callid s') <= nnat (length buf)
  | _ => False
  end.
Proof. exact callid_safe. Qed.
Theorem C04_uint_partial : forall buf offs s, offs <= nnat (length buf) -> ui_inv offs s ->
  match parse_uint buf offs s with
  | Done o e s' => offs <= o /\ o <= nnat (length buf) /\ ui_inv o s' /\ pf_end (ui_sval s') <= nnat (length buf)
  | _ => False
  end.
Proof. exact uint_safe. Qed.
Theorem C04_clen_partial : forall buf offs s, offs <= nnat (length buf) -> ui_inv offs s ->
  match parse_clen buf offs s with
  | Done o e s' => o <= nnat (length buf) /\ (e = EOk \/ e = EMore -> offs <= o) /\ pf_end (ui_sval s') <= nnat (length buf)
  | _ => False
  end.
Proof. exact clen_safe. Qed.
Theorem C04_lookups_total_on_empty_name : get_hdr_type [] = HdrOther /\ get_method_no [] = MOther.
Proof. exact (conj hdr_type_empty method_no_empty). Qed.
Theorem C04_uri_offsets : forall uri u0 e o u, parse_uri uri u0 = Some (e, o, u) ->
  o <= nnat (length uri) /\ (e = NoURIErr -> o = nnat (length uri)).
Proof. exact parse_uri_offsets. Qed.
Theorem C04_refused_relocation_keeps_structure : forall u np, fst (uri_adjust u np) = false -> snd (uri_adjust u np) = u.
Proof. exact adjust_refused_unchanged. Qed.

Theorem C04_cseq : forall buf offs s, offs <= nnat (length buf) -> cs_inv offs s ->
  match parse_cseq buf offs s with
  | Done o e s' => o <= nnat (length buf) /\ cs_inv (nnat (length buf)) s' /\ (e = EMore -> offs <= o /\ cs_inv o s') /\ (e = EOk -> offs <= o /\ cs_inv o s')
  | _ => False
  end.
Proof. exact cseq_safe. Qed.
Theorem C04_first_line : forall buf offs s, offs <= nnat (length buf) -> fl_inv offs s ->
  match parse_fline buf offs s with
  | Done o e s' => o <= nnat (length buf) /\ fl_inv (nnat (length buf)) s' /\ (e = EMore -> offs <= o /\ fl_inv o s') /\ (e = EOk -> offs <= o /\ fl_inv o s')
  | _ => False
  end.
Proof. exact fline_safe. Qed.
Theorem C04_token_param : forall flags buf offs s, offs <= nnat (length buf) -> tp_inv offs s ->
  match parse_tokparam flags buf offs s with
  | Done o e s' => o <= nnat (length buf) /\ tp_inv (nnat (length buf)) s' /\ (e = EMore -> offs <= o /\ tp_inv o s')
  | _ => False
  end.
Proof. exact tokparam_safe. Qed.
Theorem C04_fresh_objects_satisfy_the_invariants : forall o,
  ci_inv o callid0 /\ ui_inv o uintb0 /\ cs_inv o cseq0 /\ fl_inv o fline0 /\ tp_inv o tokparam0.
Proof. exact (fun o => conj (callid0_inv o) (conj (uintb0_inv o) (conj (cseq0_inv o) (conj (fline0_inv o) (tokparam0_inv o))))). Qed.
Theorem C04_parse_uri_never_panics : forall uri, parse_uri uri puri0 <> None.
Proof. exact parse_uri_total. Qed.

(* the name-addr automaton: L is any lower bound of the start of the value that the caller wants kept *)
Theorem C04_name_addr : forall L h buf offs s, offs <= nnat (length buf) ->
  fb_inv L (rev (firstn (N.to_nat offs) buf)) offs s ->
  match parse_nameaddr h buf offs s with
  | Done o e s' => o <= nnat (length buf) /\ fb_bnd L (nnat (length buf)) s' /\
                   (e = EMore -> offs <= o /\ fb_inv L (rev (firstn (N.to_nat o) buf)) o s') /\
                   (e = EOk \/ e = EMoreValues -> offs <= o /\ fb_bnd L o s')
  | _ => False
  end.
Proof. exact nameaddr_safe. Qed.
Theorem C04_fresh_name_addr_satisfies_the_invariant : forall L pre o, L <= o -> fb_inv L pre o pfrom0.
Proof. exact pfrom0_inv. Qed.

(* the multi-value lists: any capacity (ct_wf / pa_wf only say the unused slots are untouched) *)
Theorem C04_contacts : forall buf offs c, offs <= nnat (length buf) -> ct_inv (rev (firstn (N.to_nat offs) buf)) offs c ->
  match parse_all_contacts buf offs c with
  | Done o e c' => o <= nnat (length buf) /\ pf_end (ct_lasthval c') <= nnat (length buf) /\
                   (e = EMore -> offs <= o /\ ct_inv (rev (firstn (N.to_nat o) buf)) o c') /\
                   (e = EOk -> offs <= o /\ forall pre', ct_inv pre' o c')
  | _ => False
  end.
Proof. exact contacts_safe. Qed.
Theorem C04_pais : forall buf offs c, offs <= nnat (length buf) -> pa_inv (rev (firstn (N.to_nat offs) buf)) offs c ->
  match parse_all_pais buf offs c with
  | Done o e c' => o <= nnat (length buf) /\ pf_end (pa_lasthval c') <= nnat (length buf) /\
                   (e = EMore -> offs <= o /\ pa_inv (rev (firstn (N.to_nat o) buf)) o c') /\
                   (e = EOk -> offs <= o /\ forall pre', pa_inv pre' o c')
  | _ => False
  end.
Proof. exact pais_safe. Qed.

(* one header line, with or without the parsed-values object *)
Theorem C04_header_line : forall buf offs st, offs <= nnat (length buf) -> HInv (rev (firstn (N.to_nat offs) buf)) offs st ->
  match parse_hdrline buf offs st with
  | Done o e st' => o <= nnat (length buf) /\
                    (e = EMore -> offs <= o /\ HInv (rev (firstn (N.to_nat o) buf)) o st') /\
                    (e = EOk -> offs <= o /\ match hx_pv st' with None => True | Some v' => PVq o v' end)
  | _ => False
  end.
Proof. exact hdrline_safe. Qed.
Theorem C04_header_block : forall buf offs st, offs <= nnat (length buf) -> HSInv (rev (firstn (N.to_nat offs) buf)) offs st ->
  match parse_headers buf offs st with
  | Done o e st' => o <= nnat (length buf) /\
                    (e = EMore -> offs <= o /\ HSInv (rev (firstn (N.to_nat o) buf)) o st') /\ (e = EOk -> offs <= o)
  | _ => False
  end.
Proof. exact headers_safe. Qed.

(* the whole message: one call ... *)
Theorem C04_message : forall flags buf offs m, offs <= nnat (length buf) -> MInv (rev (firstn (N.to_nat offs) buf)) offs m ->
  match parse_sipmsg flags buf offs m with
  | Done o e m' => o <= nnat (length buf) /\
                   (e = EMore -> offs <= o /\ MInv (rev (firstn (N.to_nat o) buf)) o m') /\ (e = EOk -> offs <= o)
  | _ => False
  end.
Proof. exact message_safe. Qed.
(* ... every fresh object (any header / contact capacity) and every Reset object may start one ... *)
Theorem C04_fresh_message_satisfies_the_invariant : forall L nh nc pre o,
  MInv pre o (msg_init L (repeat hdr0 nh) (repeat pfrom0 nc)).
Proof. exact MInv_init. Qed.
Theorem C04_reset_message_satisfies_the_invariant : forall m pre o, MInv pre o (msg_reset m).
Proof. exact MInv_reset. Qed.
(* ... and every schedule of growing prefixes, each call resuming where the previous one suspended *)
Theorem C04_message_every_schedule : forall flags b cuts k m, sorted_from (N.to_nat k) cuts -> k <= nnat (length b) ->
  MInv (rev (firstn (N.to_nat k) b)) k m ->
  match chunked (parse_sipmsg flags) b cuts k m with
  | Done o e m' => o <= nnat (length b) /\ (e = EOk -> k <= o)
  | _ => False
  end.
Proof. exact message_safe_chunked. Qed.
(* an object already finished, called again without Reset: every value parser answers (offs, ok)
   and leaves the object alone; the message parser reports a caller bug at offs *)
Theorem C04_finished_value_called_again :
  (forall buf offs s, ci_parsed s = true -> parse_callid buf offs s = Done offs EOk s) /\
  (forall buf offs s, cs_parsed s = true -> parse_cseq buf offs s = Done offs EOk s) /\
  (forall buf offs s, ui_parsed s = true -> parse_uint buf offs s = Done offs EOk s) /\
  (forall h buf offs s, fb_parsed s = true -> parse_nameaddr h buf offs s = Done offs EOk s) /\
  (forall flags buf offs s, tp_state s = PFIN -> parse_tokparam flags buf offs s = Done offs EOk s).
Proof. exact (conj callid_again (conj cseq_again (conj uint_again (conj nameaddr_again tokparam_again)))). Qed.
Theorem C04_finished_message_called_again : forall flags buf offs m, msg_parsed m = true ->
  parse_sipmsg flags buf offs m = Done offs EBug (m <| m_buflen := nnat (length buf) |> <| m_state := MErr |>).
Proof. exact message_again. Qed.
(* the URI parameter and URI header lists (any flag set, any capacity): no panic, no stuck loop - the
   re-iteration after a zero-length "more values" step always consumes a byte, because the next slot is
   fresh (ul_wf / uh_wf: true after Init / Reset, kept by every call) - offsets in range, every stored
   field inside the buffer *)
Theorem C04_uri_params : forall flags buf offs l, offs <= nnat (length buf) -> ul_inv offs l ->
  match parse_all_uri_params flags buf offs l with
  | Done o e l' => o <= nnat (length buf) /\ ul_bnd (nnat (length buf)) l' /\ (e = EMore -> offs <= o /\ ul_inv o l')
  | _ => False
  end.
Proof. exact uparams_safe. Qed.
Theorem C04_uri_hdrs : forall flags buf offs l, offs <= nnat (length buf) -> uh_inv offs l ->
  match parse_all_uri_hdrs flags buf offs l with
  | Done o e l' => o <= nnat (length buf) /\ uh_bnd (nnat (length buf)) l' /\ (e = EMore -> offs <= o /\ uh_inv o l')
  | _ => False
  end.
Proof. exact uhdrs_safe. Qed.
Theorem C04_fresh_uri_lists_satisfy_the_invariants : forall n o,
  ul_inv o (uparams_init (repeat uriparam0 n)) /\ uh_inv o (uhdrs_init (repeat tokparam0 n)).
Proof. exact (fun n o => conj (ul_inv_init n o) (uh_inv_init n o)). Qed.
Print Assumptions C04_message.
Print Assumptions C04_message_every_schedule.

(* ---- every field of a parsed message lies inside the buffer; the signature function is total --------------------------------- *)
Theorem C04_parsed_message_fields_in_buffer : forall flags buf offs L nh nc o m', offs <= nnat (length buf) ->
  parse_sipmsg flags buf offs (msg_init L (repeat hdr0 nh) (repeat pfrom0 nc)) = Done o EOk m' ->
  o <= nnat (length buf) /\ fl_inv o (m_fl m') /\ pf_end (m_body m') = o /\
  Forall (fun h => pf_end (h_name h) <= o /\ pf_end (h_val h) <= o) (stored (hs_l (m_hs m'))) /\
  UBv o (msg_pv m').
Proof. exact message_fields_in_buffer. Qed.
Theorem C04_parsed_values_in_buffer_fed : forall flags B offs bl n nc o s o' e m', testbit flags bSIPMsgNoMoreData = false -> offs <= nnat (length B) ->
  feeds flags B offs (msg_init bl (repeat hdr0 n) (repeat pfrom0 nc)) o s ->
  parse_sipmsg flags B o s = Done o' e m' -> m_state m' = MFIN \/ m_state m' = MNoCLen -> UBv (po (m_body m')) (msg_pv m').
Proof. exact message_ub_fed. Qed.
(* what UBv says: every PHdrVals field ends at or before i *)
Theorem C04_values_bound_means : forall i v, UBv i v <->
  fb_bnd 0 i (pv_from v) /\ fb_bnd 0 i (pv_to v) /\ pf_end (ci_callid (pv_callid v)) <= i /\ cs_inv i (pv_cseq v) /\
  pf_end (ui_sval (pv_clen v)) <= i /\ pf_end (ui_sval (pv_expires v)) <= i /\
  (Forall (fb_bnd 0 i) (ct_vals (pv_contacts v)) /\ fb_bnd 0 i (ct_last (pv_contacts v)) /\ fb_bnd 0 i (ct_first (pv_contacts v)) /\ pf_end (ct_lasthval (pv_contacts v)) <= i) /\
  (Forall (fb_bnd 0 i) (pa_vals (pv_pais v)) /\ fb_bnd 0 i (pa_last (pv_pais v)) /\ pf_end (pa_lasthval (pv_pais v)) <= i).
Proof. intros. reflexivity. Qed.
Theorem C04_signature_total : forall cs ss vs flags buf offs L nh nc o m', offs <= nnat (length buf) ->
  parse_sipmsg flags buf offs (msg_init L (repeat hdr0 nh) (repeat pfrom0 nc)) = Done o EOk m' ->
  get_msg_sig cs ss vs m' buf <> None.
Proof. exact gsig_total. Qed.
Print Assumptions C04_parsed_message_fields_in_buffer.
Print Assumptions C04_signature_total.

(* ---- the comparison entry points never panic ----------------------------------------------------------------------------------- *)
Theorem C04_uri_parse_cmp_total : forall raw1 raw2 f, uri_parse_cmp raw1 raw2 f <> None.
Proof. exact uri_parse_cmp_total. Qed.
Theorem C04_uri_cmp_total : forall raw1 raw2 o1 o2 u1 u2 f,
  parse_uri raw1 puri0 = Some (NoURIErr, o1, u1) -> parse_uri raw2 puri0 = Some (NoURIErr, o2, u2) ->
  uri_cmp u1 raw1 u2 raw2 f <> None.
Proof. exact (fun raw1 raw2 o1 o2 u1 u2 f H1 H2 => uri_cmp_total u1 raw1 u2 raw2 f (accepted_uri_in _ _ _ H1) (accepted_uri_in _ _ _ H2)). Qed.
Theorem C04_uri_list_eq_total : forall b1 o1 b2 o2, o1 <= nnat (length b1) -> o2 <= nnat (length b2) ->
  uri_params_eq b1 o1 b2 o2 <> None /\ uri_hdrs_eq b1 o1 b2 o2 <> None.
Proof. exact (fun b1 o1 b2 o2 H1 H2 => conj (params_eq_total b1 o1 b2 o2 H1 H2) (hdrs_eq_total b1 o1 b2 o2 H1 H2)). Qed.
Print Assumptions C04_uri_parse_cmp_total.
Print Assumptions C04_uri_cmp_total.

(* ---- after an error or a suspension too: whatever ParseSIPMsg answers, every field of the values kept in PHdrVals ends inside the buffer ---- *)
Theorem C04_values_in_buffer_whatever_the_verdict : forall flags buf offs bl n nc o e m', offs <= nnat (length buf) ->
  parse_sipmsg flags buf offs (msg_init bl (repeat hdr0 n) (repeat pfrom0 nc)) = Done o e m' ->
  UBv (nnat (length buf)) (msg_pv m').
Proof. exact message_wb. Qed.
Theorem C04_values_in_buffer_whatever_the_verdict_fed : forall flags B offs bl n nc o s o' e m', testbit flags bSIPMsgNoMoreData = false -> offs <= nnat (length B) ->
  feeds flags B offs (msg_init bl (repeat hdr0 n) (repeat pfrom0 nc)) o s ->
  parse_sipmsg flags B o s = Done o' e m' -> UBv (nnat (length B)) (msg_pv m').
Proof. exact message_wb_fed. Qed.
(* satisfiable with an error verdict: a bad CSeq after a good From *)
Example C04_error_verdict_example :
  let buf := [73;78;86;73;84;69;32;115;58;97;32;83;73;80;47;50;46;48;13;10; 70;114;111;109;58;32;60;115;58;97;62;59;116;97;103;61;120;13;10; 67;83;101;113;58;32;120;13;10;13;10] in
  match parse_sipmsg 0 buf 0 (msg_init 0 (repeat hdr0 4) (repeat pfrom0 2)) with
  | Done o e m' => e <> EOk /\ e <> EMore /\ fb_uri (pv_from (msg_pv m')) = mkpf 27 3
  | _ => False
  end.
Proof. vm_compute. repeat split; discriminate. Qed.
(* the same for the first-line fields and for every stored header (array, overflow slot, first-of-type table) *)
Theorem C04_first_line_in_buffer_whatever_the_verdict : forall flags B offs bl n nc o s o' e m', testbit flags bSIPMsgNoMoreData = false -> offs <= nnat (length B) ->
  feeds flags B offs (msg_init bl (repeat hdr0 n) (repeat pfrom0 nc)) o s ->
  parse_sipmsg flags B o s = Done o' e m' -> fl_inv (nnat (length B)) (m_fl m').
Proof. exact message_fl_wb_fed. Qed.
Theorem C04_stored_headers_in_buffer_whatever_the_verdict : forall flags B offs bl n nc o s o' e m', testbit flags bSIPMsgNoMoreData = false -> offs <= nnat (length B) ->
  feeds flags B offs (msg_init bl (repeat hdr0 n) (repeat pfrom0 nc)) o s ->
  parse_sipmsg flags B o s = Done o' e m' ->
  let inb (h : hdr) := pf_end (h_name h) <= nnat (length B) /\ pf_end (h_val h) <= nnat (length B) in
  Forall inb (hl_hdrs (hs_l (m_hs m'))) /\ inb (hl_tmp (hs_l (m_hs m'))) /\ Forall inb (hl_first (hs_l (m_hs m'))).
Proof. exact message_hwb_fed. Qed.
Theorem C04_body_and_raw_span_in_buffer_whatever_the_verdict : forall flags B offs bl n nc o s o' e m', testbit flags bSIPMsgNoMoreData = false -> offs <= nnat (length B) ->
  feeds flags B offs (msg_init bl (repeat hdr0 n) (repeat pfrom0 nc)) o s ->
  parse_sipmsg flags B o s = Done o' e m' ->
  pf_end (m_body m') <= nnat (length B) /\ match m_raw m' with Some (a, l) => a + l <= nnat (length B) | None => True end.
Proof. exact message_body_wb_fed. Qed.
Print Assumptions C04_values_in_buffer_whatever_the_verdict.
Print Assumptions C04_body_and_raw_span_in_buffer_whatever_the_verdict.
Print Assumptions C04_first_line_in_buffer_whatever_the_verdict.
Print Assumptions C04_stored_headers_in_buffer_whatever_the_verdict.
Print Assumptions C04_values_in_buffer_whatever_the_verdict_fed.
