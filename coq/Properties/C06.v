(* C06: message framing.  h = offset where the header block ended, n = Content-Length *)
From Sipsp Require Import Harness Framing.
Theorem C06_skip_body : forall flags buflen h m, m_offs m <= h -> h <= buflen -> fl_skip flags = true ->
  msg_body flags buflen h m =
    if fl_req flags && negb (ui_parsed (pv_clen (msg_pv m)))
    then Done h ENoCLen (m <| m_body := mkpf h 0 |> <| m_state := MNoCLen |> <| m_buflen := h |>
                           <| m_raw := Some (m_offs m, h - m_offs m) |>)
    else Done h EOk (finished (m <| m_body := mkpf h 0 |>) h h).
Proof. exact body_skip. Qed.
Theorem C06_content_length : forall flags buflen h m, m_offs m <= h -> h <= buflen ->
  fl_skip flags = false -> ui_parsed (pv_clen (msg_pv m)) = true ->
  msg_body flags buflen h m =
    if buflen <? h + ui_val (pv_clen (msg_pv m)) then
      (if fl_nomore flags then Done buflen EOk (finished (m <| m_body := mkpf h 0 |>) h buflen)
       else Done h EMore (m <| m_body := mkpf h 0 |>))
    else Done (h + ui_val (pv_clen (msg_pv m))) EOk
              (finished (m <| m_body := mkpf h 0 |>) h (h + ui_val (pv_clen (msg_pv m)))).
Proof. exact body_clen. Qed.
Theorem C06_no_content_length : forall flags buflen h m, m_offs m <= h -> h <= buflen ->
  fl_skip flags = false -> ui_parsed (pv_clen (msg_pv m)) = false ->
  msg_body flags buflen h m =
    if fl_req flags then Done h EOk (finished (m <| m_body := mkpf h 0 |>) h h)
    else Done buflen EOk (finished (m <| m_body := mkpf h 0 |>) h buflen).
Proof. exact body_noclen. Qed.
Theorem C06_message_reaches_body_section : forall flags buf offs m fl o1 hs h,
  m_state m = MInit ->
  parse_fline buf offs (m_fl m) = Done o1 EOk fl ->
  parse_headers buf o1 (m_hs m) = Done h EOk hs ->
  parse_sipmsg flags buf offs m =
    msg_body flags (nnat (length buf)) h
      (m <| m_buflen := nnat (length buf) |> <| m_offs := offs |> <| m_state := MFLine |> <| m_fl := fl |>
         <| m_state := MHeaders |> <| m_hs := hs |> <| m_state := MBody |>).
Proof. exact parse_sipmsg_sections. Qed.

(* ---- messages laid back to back in one buffer ------------------------------------------------------------------------------------
   A message parsed from the offset the previous one ended at, with a fresh (or Reset) object, gives the
   result of parsing the same bytes alone at offset 0, moved by that offset: this is C11 with the earlier
   messages as the junk prefix.  That what *follows* a complete message cannot change its result is C03
   (C03_message; the only exemption is the mode in which the body is by definition the rest of the buffer:
   no Content-Length and neither skip-body nor require-Content-Length). *)
From Sipsp Require Import Shift ShiftMsg ExtMsg.
Theorem C06_pipelined_message_is_the_message_alone_moved : forall flags before rest_of_buffer L nh nc,
  mrel (nnat (length before))
    (parse_sipmsg flags rest_of_buffer 0 (msg_init L (repeat hdr0 nh) (repeat pfrom0 nc)))
    (parse_sipmsg flags (before ++ rest_of_buffer) (nnat (length before)) (msg_init L (repeat hdr0 nh) (repeat pfrom0 nc))).
Proof.
  intros flags before r L nh nc.
  pose proof (fresh_message_shift flags before r 0 L nh nc ltac:(unfold nnat; lia)) as H.
  replace (0 + nnat (length before)) with (nnat (length before)) in H by lia. exact H.
Qed.
Theorem C06_what_follows_a_complete_message_does_not_matter : forall flags b x k s0 o e s,
  testbit flags bSIPMsgNoMoreData = false -> k <= nnat (length b) ->
  parse_sipmsg flags b k s0 = Done o e s -> e <> EMore ->
  body_is_rest flags e s \/
  exists s'', parse_sipmsg flags (b ++ x) k s0 = Done o e s'' /\ fin_rel (nnat (length (b ++ x))) s s''.
Proof. exact (fun flags b x k s0 o e s => msg_final flags b x k s0 o e s). Qed.
Print Assumptions C06_pipelined_message_is_the_message_alone_moved.
