(* C06: message framing.  h = offset where the header block ended, n = Content-Length *)
From Sipsp Require Import Harness Framing.
Theorem C06_skip_body : forall flags buflen h m, m_offs m <= h -> h <= buflen -> fl_skip flags = true ->
  msg_body flags buflen h m =
    if fl_req flags && negb (ui_parsed (pv_clen (msg_pv m)))
    then Done h ENoCLen (m <| m_body := mkpf h 0 |> <| m_state := MNoCLen |> <| m_buflen := h |>
                           <| m_raw := Some (m_offs m, h - m_offs m) |>)
    else Done h EOk (finished (m <| m_body := mkpf h 0 |>) h h).
Proof. exact body_skip. Qed.
Theorem C06_content_length : forall flags buflen h m, m_offs m <= h -> h <= buflen ->
  fl_skip flags = false -> ui_parsed (pv_clen (msg_pv m)) = true ->
  msg_body flags buflen h m =
    if buflen <? h + ui_val (pv_clen (msg_pv m)) then
      (if fl_nomore flags then Done buflen EOk (finished (m <| m_body := mkpf h 0 |>) h buflen)
       else Done h EMore (m <| m_body := mkpf h 0 |>))
    else Done (h + ui_val (pv_clen (msg_pv m))) EOk
              (finished (m <| m_body := mkpf h 0 |>) h (h + ui_val (pv_clen (msg_pv m)))).
Proof. exact body_clen. Qed.
Theorem C06_no_content_length : forall flags buflen h m, m_offs m <= h -> h <= buflen ->
  fl_skip flags = false -> ui_parsed (pv_clen (msg_pv m)) = false ->
  msg_body flags buflen h m =
    if fl_req flags then Done h EOk (finished (m <| m_body := mkpf h 0 |>) h h)
    else Done buflen EOk (finished (m <| m_body := mkpf h 0 |>) h buflen).
Proof. exact body_noclen. Qed.
Theorem C06_message_reaches_body_section : forall flags buf offs m fl o1 hs h,
  m_state m = MInit ->
  parse_fline buf offs (m_fl m) = Done o1 EOk fl ->
  parse_headers buf o1 (m_hs m) = Done h EOk hs ->
  parse_sipmsg flags buf offs m =
    msg_body flags (nnat (length buf)) h
      (m <| m_buflen := nnat (length buf) |> <| m_offs := offs |> <| m_state := MFLine |> <| m_fl := fl |>
         <| m_state := MHeaders |> <| m_hs := hs |> <| m_state := MBody |>).
Proof. exact parse_sipmsg_sections. Qed.
