(* C09, list level: ParseAllContactValues on "<" uri ">" *( "," "<" uri ">" ) end-of-line - every value is
   counted (also those that do not fit the array), value j is URI j at its own offset, the header-value
   span runs from the first "<" to the last ">", verdict ok after the line. *)
From Sipsp Require Import Driver Harness RunLemmas Ext ExtLeaf ZSlice HdrSpec UIntSpec TokSpec NameAddrSpec ExtLists Capacity.
From Coq Require Import ZifyN ZifyNat ZifyBool.
From RecordUpdate Require Import RecordUpdate.

(* the value "<" uri ">" found at offset i *)
Definition uval (h i lu : N) : pfrom :=
  mkpfrom pf0 (mkpf (i + 1) lu) pf0 false false false h 0 0 pf0 (mkpf i (lu + 2)) EOk 0 FbFIN 0 0 0 0 0.

Section Val.
  Variable h : N.
  Let it := fb_iter h.

  Lemma run_to_urifound pre i (uri : list byte) y : Forall uchar uri ->
    run it pre (60 :: uri ++ 62 :: y) i 0 pfrom0
    = run it (62 :: rev uri ++ 60 :: pre) y (i + 1 + nnat (length uri) + 1) 0
        (mkpfrom pf0 (mkpf (i + 1) (nnat (length uri))) pf0 false false false 0 0 0 pf0 (mkpf i (nnat (length uri) + 2)) EOk 0 FbURIFound (i + 1) 0 0 0 0).
  Proof.
    intros Hu. fold it.
    set (s1 := mkpfrom pf0 pf0 pf0 false false false 0 0 0 pf0 (mkpf i 0) EOk 0 FbURI (i + 1) 0 0 0 0).
    rewrite (run_one it pre 60 _ i pfrom0 s1).
    2:{ unfold it, fb_iter. cbn [fb_state pfrom0]. unfold fb_step, fb_gA. replace (ccls_of 60) with KLt by reflexivity. cbn [is_st_init].
        unfold pf_set. rewrite N.ltb_irrefl, N.sub_diag. reflexivity. }
    rewrite (run_selfloop it uchar s1 ltac:(intros p c r j Hc; apply uri_loop; [reflexivity|exact Hc]) uri _ _ (i + 1) Hu). subst s1.
    remember (i + 1 + nnat (length uri)) as i1 eqn:Ei1.
    rewrite (run_one it _ 62 _ i1 _ (mkpfrom pf0 (mkpf (i + 1) (i1 - (i + 1))) pf0 false false false 0 0 0 pf0 (mkpf i (i1 + 1 - i)) EOk 0 FbURIFound (i + 1) 0 0 0 0)).
    2:{ unfold it, fb_iter. cbn [fb_state]. unfold fb_step, fb_gURI. replace (ccls_of 62) with KGt by reflexivity. unfold pf_set, pf_extend. cbn [fb_soffs fb_v po pl].
        replace (i1 <? i + 1) with false by lia. replace (i1 + 1 <? i) with false by lia. reflexivity. }
    replace (i1 - (i + 1)) with (nnat (length uri)) by lia. replace (i1 + 1 - i) with (nnat (length uri) + 2) by lia. reflexivity.
  Qed.

  (* ended by a comma: more values, the next one starts after the comma *)
  Lemma run_uri_comma pre i (uri : list byte) y : Forall uchar uri -> multipleValsOk h = true ->
    run it pre (60 :: uri ++ 62 :: 44 :: y) i 0 pfrom0 = Done (i + nnat (length uri) + 3) EMoreValues (uval h i (nnat (length uri))).
  Proof.
    intros Hu Hm. rewrite (run_to_urifound pre i uri (44 :: y) Hu). rewrite run_after.
    unfold it, fb_iter. cbn [fb_state]. unfold fb_step, fb_gURIFound. replace (ccls_of 44) with KComma by reflexivity.
    unfold fb_comma. rewrite Hm. unfold fb_moreValues. cbn [span rev]. replace (is_ws 62) with false by reflexivity. cbn [nnat N.of_nat].
    replace (N.min (nnat 0) _) with 0 by (unfold nnat; lia). unfold fb_endOfHdr, fb_close. cbn [fb_state after]. unfold uval.
    f_equal. lia.
  Qed.

  (* ended by the end of the line *)
  Lemma run_uri_eol pre i (uri : list byte) x tail : Forall uchar uri -> is_sp x = false ->
    run it pre (60 :: uri ++ 62 :: CR :: LF :: x :: tail) i 0 pfrom0 = Done (i + nnat (length uri) + 4) EOk (uval h i (nnat (length uri))).
  Proof.
    intros Hu Hx. rewrite (run_to_urifound pre i uri _ Hu). rewrite run_after.
    unfold it, fb_iter. cbn [fb_state]. unfold fb_step, fb_gURIFound. rewrite cr_class. unfold fb_lws. rewrite (eol_lws x tail Hx).
    unfold fb_endOfHdr, fb_close. cbn [fb_state after]. unfold uval. f_equal. unfold nnat. lia.
  Qed.
End Val.

(* ---- the list --------------------------------------------------------------------------------------------------------------------------- *)
Definition ct_addv (l : contacts) (v : pfrom) (more : bool) : contacts :=
  match ct_count (ct_store l v) v with
  | Some c6 => if more then ct_reset_last_if (ct_slot_is_last l) c6 else c6
  | None => l
  end.

(* what the list loop needs between values: clean unused slots, a fresh current slot, the header-value
   span so far ends before the current position *)
Definition CtI (i : N) (l : contacts) : Prop := ct_wf l /\ ct_sel l = pfrom0 /\ pf_end (ct_lasthval l) <= i.

Lemma ct_count_lh c1 v c6 : ct_count c1 v = Some c6 ->
  Some (ct_lasthval c6) = (if (ct_n c1 =? 0) || pf_empty (ct_lasthval c1) then Some (fb_v v)
                           else pf_extend (ct_lasthval c1) (pf_end (fb_v v))).
Proof.
  destruct c1 as [vals n hno mx mn lh last first]. unfold ct_count, ct_cap. cbn.
  destruct (n =? 0) eqn:En; cbn; rewrite ?En; cbn.
  all: try match goal with |- context [match ?x with Some _ => _ | None => _ end] => destruct x eqn:EX end; try discriminate.
  all: cbn; destruct (mx <? fb_expires v); cbn.
  all: match goal with |- context [fb_expires ?vv <? ?m] => destruct (fb_expires vv <? m) end; cbn.
  all: destruct ((n + 1 =? 1) && (nnat (length vals) =? 0)); cbn; intros H; injection H as <-; cbn; first [reflexivity|symmetry; exact EX].
Qed.
Lemma ct_count_none c1 v : ct_count c1 v = None ->
  (if (ct_n c1 =? 0) || pf_empty (ct_lasthval c1) then Some (fb_v v) else pf_extend (ct_lasthval c1) (pf_end (fb_v v))) = None.
Proof.
  destruct c1 as [vals n hno mx mn lh last first]. unfold ct_count, ct_cap. cbn.
  destruct (n =? 0) eqn:En; cbn; rewrite ?En; cbn.
  all: try match goal with |- context [match ?x with Some _ => _ | None => _ end] => destruct x eqn:EX end; try reflexivity.
  all: cbn; intros H; discriminate H.
Qed.
Lemma ct_count_some c1 v : pf_end (ct_lasthval c1) <= pf_end (fb_v v) -> exists c6, ct_count c1 v = Some c6 /\
  ct_lasthval c6 = (if (ct_n c1 =? 0) || pf_empty (ct_lasthval c1) then fb_v v
                    else mkpf (po (ct_lasthval c1)) (pf_end (fb_v v) - po (ct_lasthval c1))).
Proof.
  intros Hb.
  assert (Hx : (if (ct_n c1 =? 0) || pf_empty (ct_lasthval c1) then Some (fb_v v) else pf_extend (ct_lasthval c1) (pf_end (fb_v v)))
               = Some (if (ct_n c1 =? 0) || pf_empty (ct_lasthval c1) then fb_v v
                       else mkpf (po (ct_lasthval c1)) (pf_end (fb_v v) - po (ct_lasthval c1)))).
  { destruct ((ct_n c1 =? 0) || pf_empty (ct_lasthval c1)); [reflexivity|]. unfold pf_extend, pf_end in *.
    replace (po (fb_v v) + pl (fb_v v) <? po (ct_lasthval c1)) with false by lia. reflexivity. }
  destruct (ct_count c1 v) as [c6|] eqn:E.
  - exists c6. split; [reflexivity|]. pose proof (ct_count_lh c1 v c6 E) as L. rewrite Hx in L. injection L as ->. reflexivity.
  - exfalso. apply ct_count_none in E. rewrite Hx in E. discriminate E.
Qed.

Lemma ct_addv_facts i l v more : CtI i l -> pf_end (ct_lasthval l) <= pf_end (fb_v v) -> fb_parsed v = true ->
  ct_n (ct_addv l v more) = ct_n l + 1 /\ length (ct_vals (ct_addv l v more)) = length (ct_vals l) /\
  ct_wf (ct_addv l v more) /\ (more = true -> ct_sel (ct_addv l v more) = pfrom0) /\
  ct_lasthval (ct_addv l v more) = (if (ct_n l =? 0) || pf_empty (ct_lasthval l) then fb_v v
                                    else mkpf (po (ct_lasthval l)) (pf_end (fb_v v) - po (ct_lasthval l))) /\
  (forall j, (j <= N.to_nat (ct_n l))%nat -> (j < length (ct_vals l))%nat ->
     nth j (ct_vals (ct_addv l v more)) pfrom0 = if (j =? N.to_nat (ct_n l))%nat then v else nth j (ct_vals l) pfrom0).
Proof.
  intros (Hwf & Hsel & Hlh) Hb Hp. unfold ct_addv.
  destruct (ct_store_proj l v) as (S1 & S2 & S3 & S4 & S5 & S6 & S7 & S8).
  destruct (ct_count_some (ct_store l v) v ltac:(rewrite S5; exact Hb)) as (c6 & E6 & Hlh6). rewrite E6.
  destruct (ct_count_proj _ _ _ E6) as (P1 & P2 & P3 & P4 & P5).
  set (X := if more then ct_reset_last_if (ct_slot_is_last l) c6 else c6).
  assert (Xp : ct_vals X = ct_vals c6 /\ ct_n X = ct_n c6 /\ ct_first X = ct_first c6 /\ ct_lasthval X = ct_lasthval c6 /\
               ct_last X = (if more && ct_slot_is_last l then pfrom0 else ct_last c6)).
  { subst X. unfold ct_reset_last_if. destruct more, (ct_slot_is_last l); destruct c6; cbn; repeat split; reflexivity. }
  destruct Xp as (X1 & X2 & X3 & X4 & X5).
  assert (Hn : ct_n X = ct_n l + 1) by (rewrite X2, P2, S1; reflexivity).
  assert (Hvals : ct_vals X = (if ct_cap l <=? ct_n l then ct_vals l else set_nth (N.to_nat (ct_n l)) v (ct_vals l)))
    by (rewrite X1, P1, S7; reflexivity).
  set (w := if more then pfrom0 else v).
  assert (Hlast : ct_last X = (if ct_cap l <=? ct_n l then w else ct_last l)).
  { rewrite X5, P4, S8. unfold ct_slot_is_last. subst w. destruct more, (ct_cap l <=? ct_n l); reflexivity. }
  assert (Hfirst : ct_first X = (if (ct_n l + 1 =? 1) && (ct_cap l =? 0) then v else ct_first l)).
  { rewrite X3, P5, S1, S6. unfold ct_cap. rewrite S7. destruct (ct_slot_is_last l); [reflexivity|]. rewrite set_nth_len. reflexivity. }
  split; [exact Hn|]. split; [exact (next_len l X v w Hvals Hlast)|]. split; [exact (next_wf l X v w Hwf Hn Hvals Hlast)|].
  split.
  - intros ->. apply (next_sel l X v w Hwf Hn Hvals Hlast). subst w. cbn. reflexivity.
  - split; [rewrite X4, Hlh6, S1, S5; reflexivity|]. intros j Hj Hlen. exact (next_nth l X v Hn Hvals j Hj Hlen).
Qed.

Ltac lenfix := repeat match goal with |- context [@length N ?l] => change (@length N l) with (@length byte l) end.

Section List.
  Notation it := (fb_iter HdrContact).

  Lemma ct_iter_comma pre i (uri : list byte) y l : i = nnat (length pre) -> Forall uchar uri -> CtI i l ->
    ct_iter pre (60 :: uri ++ 62 :: 44 :: y) i l
    = Next (length uri + 3) (ct_addv l (uval HdrContact i (nnat (length uri))) true).
  Proof.
    intros Hi Hu (Hwf & Hsel & Hlh). rewrite ct_iter_def, Hsel, (run_uri_comma HdrContact pre i uri y Hu eq_refl), ct_post_eq. cbv zeta.
    unfold ct_addv. destruct (ct_store_proj l (uval HdrContact i (nnat (length uri)))) as (_ & _ & _ & _ & S5 & _).
    destruct (ct_count_some (ct_store l (uval HdrContact i (nnat (length uri)))) (uval HdrContact i (nnat (length uri)))
                ltac:(rewrite S5; unfold uval, pf_end in *; cbn [fb_v po pl]; lia)) as (c6 & E6 & _).
    rewrite E6. f_equal. unfold nnat. lia.
  Qed.
  Lemma ct_iter_eol pre i (uri : list byte) x tail l : i = nnat (length pre) -> Forall uchar uri -> is_sp x = false -> CtI i l ->
    ct_iter pre (60 :: uri ++ 62 :: CR :: LF :: x :: tail) i l
    = Ret (i + nnat (length uri) + 4) EOk (ct_addv l (uval HdrContact i (nnat (length uri))) false).
  Proof.
    intros Hi Hu Hx (Hwf & Hsel & Hlh). rewrite ct_iter_def, Hsel, (run_uri_eol HdrContact pre i uri x tail Hu Hx), ct_post_eq. cbv zeta.
    unfold ct_addv. destruct (ct_store_proj l (uval HdrContact i (nnat (length uri)))) as (_ & _ & _ & _ & S5 & _).
    destruct (ct_count_some (ct_store l (uval HdrContact i (nnat (length uri)))) (uval HdrContact i (nnat (length uri)))
                ltac:(rewrite S5; unfold uval, pf_end in *; cbn [fb_v po pl]; lia)) as (c6 & E6 & _).
    rewrite E6. reflexivity.
  Qed.

  (* "<u1>,<u2>,...,<uk>": bytes, and the values with their offsets *)
  Fixpoint cl_bytes (us : list (list byte)) : list byte :=
    match us with
    | [] => []
    | [u] => 60 :: u ++ [62]
    | u :: us' => 60 :: u ++ 62 :: 44 :: cl_bytes us'
    end.
  Fixpoint cl_vals (i : N) (us : list (list byte)) : list pfrom :=
    match us with
    | [] => []
    | [u] => [uval HdrContact i (nnat (length u))]
    | u :: us' => uval HdrContact i (nnat (length u)) :: cl_vals (i + nnat (length u) + 3) us'
    end.
  (* the list after the values: all but the last were followed by a comma *)
  Fixpoint ct_addvs (l : contacts) (vs : list pfrom) : contacts :=
    match vs with
    | [] => l
    | [v] => ct_addv l v false
    | v :: vs' => ct_addvs (ct_addv l v true) vs'
    end.

  Lemma cl_bytes_cons2 (u u2 : list byte) us : cl_bytes (u :: u2 :: us) = 60 :: u ++ 62 :: 44 :: cl_bytes (u2 :: us).
  Proof. reflexivity. Qed.
  Lemma cl_vals_cons2 i (u u2 : list byte) us :
    cl_vals i (u :: u2 :: us) = uval HdrContact i (nnat (length u)) :: cl_vals (i + nnat (length u) + 3) (u2 :: us).
  Proof. reflexivity. Qed.
  Lemma cl_vals_cons i u us : exists v vs, cl_vals i (u :: us) = v :: vs.
  Proof. destruct us; cbn [cl_vals]; eexists; eexists; reflexivity. Qed.

  Lemma clist_run us : forall pre i l x tail, us <> [] -> Forall (Forall uchar) us -> is_sp x = false -> i = nnat (length pre) -> CtI i l ->
    run ct_iter pre (cl_bytes us ++ CR :: LF :: x :: tail) i 0 l
    = Done (i + nnat (length (cl_bytes us)) + 2) EOk (ct_addvs l (cl_vals i us)).
  Proof.
    induction us as [|u us IH]; intros pre i l x tail Hne Hall Hx Hi Hl; [congruence|].
    apply Forall_cons_iff in Hall. destruct Hall as [Hu Hall].
    destruct us as [|u2 us].
    - cbn [cl_bytes cl_vals ct_addvs]. cbn [app]. rewrite <- app_assoc. cbn [app]. rewrite run_after.
      match goal with |- context [ct_iter ?a ?b ?c ?d] => replace (ct_iter a b c d) with (Ret (i + nnat (length u) + 4) EOk (ct_addv l (uval HdrContact i (nnat (length u))) false))
        by (symmetry; exact (ct_iter_eol pre i u x tail l Hi Hu Hx Hl)) end. cbn [after]. f_equal. repeat (rewrite ?app_length; cbn [length]). unfold nnat. lia.
    - rewrite cl_bytes_cons2, cl_vals_cons2.
      assert (Eadd : ct_addvs l (uval HdrContact i (nnat (length u)) :: cl_vals (i + nnat (length u) + 3) (u2 :: us))
                     = ct_addvs (ct_addv l (uval HdrContact i (nnat (length u))) true) (cl_vals (i + nnat (length u) + 3) (u2 :: us))).
      { destruct (cl_vals_cons (i + nnat (length u) + 3) u2 us) as (v2 & vs2 & Ev). rewrite Ev. reflexivity. }
      rewrite Eadd. clear Eadd.
      cbn [app]. rewrite <- app_assoc. cbn [app]. rewrite run_after.
      match goal with |- context [ct_iter ?a ?b ?c ?d] => replace (ct_iter a b c d) with (Next (length u + 3) (ct_addv l (uval HdrContact i (nnat (length u))) true))
        by (symmetry; exact (ct_iter_comma pre i u _ l Hi Hu Hl)) end.
      set (k := (length u + 3)%nat).
      rewrite after_next by (try (cbn [length]; rewrite app_length; cbn [length]); lia).
      match goal with |- context [run ct_iter (zpre k pre ?L0) _ _ _ _] => set (L := L0) end.
      assert (EL : L = (60 :: u ++ [62; 44]) ++ (cl_bytes (u2 :: us) ++ CR :: LF :: x :: tail))
        by (subst L; cbn [app]; rewrite <- app_assoc; reflexivity).
      clearbody L. subst L.
      assert (Ek : k = length (60 :: u ++ [62; 44])) by (unfold k; cbn [length]; rewrite app_length; cbn [length]; lia).
      rewrite Ek. unfold zpre, zrest.
      rewrite firstn_app, Nat.sub_diag, firstn_all, skipn_app, Nat.sub_diag, skipn_all. cbn [firstn skipn app]. rewrite app_nil_r.
      replace (rev (60 :: u ++ [62; 44])) with (44 :: 62 :: rev u ++ [60]) by (cbn [rev]; rewrite rev_app_distr; reflexivity).
      rewrite <- Ek.
      assert (Hl' : CtI (i + nnat k) (ct_addv l (uval HdrContact i (nnat (length u))) true)).
      { destruct Hl as (W & Sl & Lh).
        destruct (ct_addv_facts i l (uval HdrContact i (nnat (length u))) true (conj W (conj Sl Lh))
                    ltac:(unfold uval, pf_end in *; cbn [fb_v po pl]; lia) eq_refl) as (F1 & F2 & F3 & F4 & F5 & F6).
        split; [exact F3|]. split; [apply F4; reflexivity|]. rewrite F5.
        destruct ((ct_n l =? 0) || pf_empty (ct_lasthval l)); unfold uval, pf_end in *; cbn [fb_v po pl]; unfold k, nnat in *; lia. }
      match goal with |- context [run ct_iter ?P _ (i + nnat k) _ _] =>
        assert (Hlen' : i + nnat k = nnat (length P))
          by (repeat (rewrite ?app_length, ?rev_length; cbn [length]); unfold k, nnat in *; change (@length N pre) with (@length byte pre); lia);
        rewrite (IH P (i + nnat k) _ x tail ltac:(discriminate) Hall Hx Hlen' Hl') end.
      f_equal; [|unfold k; f_equal; f_equal; unfold nnat; lenfix; lia].
      repeat (rewrite ?app_length; cbn [length]). fold (cl_bytes (u2 :: us)). unfold k, nnat. lenfix. lia.
  Qed.
End List.

(* ---- the list theorem ---------------------------------------------------------------------------------------------------------------------- *)
Lemma cl_vals_length us : forall i, length (cl_vals i us) = length us.
Proof.
  induction us as [|u us IH]; intros i; [reflexivity|]. destruct us as [|u2 us]; [reflexivity|].
  rewrite cl_vals_cons2. cbn [length]. rewrite IH. reflexivity.
Qed.

(* facts about the list after a run of values whose spans follow one another *)
Lemma ct_addvs_facts us : forall i l, us <> [] -> CtI i l -> ct_lasthval l = pf0 \/ pf_end (ct_lasthval l) <= i ->
  let C := ct_addvs l (cl_vals i us) in
  ct_n C = ct_n l + nnat (length us) /\ length (ct_vals C) = length (ct_vals l) /\
  (forall j, (j < N.to_nat (ct_n l))%nat -> nth j (ct_vals C) pfrom0 = nth j (ct_vals l) pfrom0) /\
  (forall j, (j < length us)%nat -> (N.to_nat (ct_n l) + j < length (ct_vals l))%nat ->
     nth (N.to_nat (ct_n l) + j) (ct_vals C) pfrom0 = nth j (cl_vals i us) pfrom0) /\
  ct_lasthval C = (if (ct_n l =? 0) || pf_empty (ct_lasthval l) then mkpf i (nnat (length (cl_bytes us)))
                   else mkpf (po (ct_lasthval l)) (i + nnat (length (cl_bytes us)) - po (ct_lasthval l))).
Proof.
  induction us as [|u us IH]; intros i l Hne Hl Hlh0; [congruence|].
  assert (Hb : pf_end (ct_lasthval l) <= pf_end (fb_v (uval HdrContact i (nnat (length u)))))
    by (destruct Hl as (_ & _ & Hx); unfold uval, pf_end in *; cbn [fb_v po pl]; lia).
  destruct us as [|u2 us].
  - cbn [cl_vals ct_addvs cl_bytes length]. cbv zeta.
    destruct (ct_addv_facts i l (uval HdrContact i (nnat (length u))) false Hl Hb eq_refl) as (F1 & F2 & F3 & F4 & F5 & F6).
    split; [rewrite F1; unfold nnat; lia|]. split; [exact F2|]. split.
    + intros j Hj. destruct (le_lt_dec (length (ct_vals l)) j) as [Hge|Hlt]; [rewrite !nth_overflow by (try rewrite F2; lia); reflexivity|].
      rewrite (F6 j ltac:(lia) Hlt). replace (j =? N.to_nat (ct_n l))%nat with false by lia. reflexivity.
    + split.
      * intros j Hj Hc. cbn [length] in Hj. apply Nat.lt_1_r in Hj. subst j. rewrite Nat.add_0_r in *. rewrite (F6 (N.to_nat (ct_n l)) ltac:(lia) Hc), Nat.eqb_refl. reflexivity.
      * rewrite F5. unfold uval, pf_end. cbn [fb_v po pl]. rewrite app_length. cbn [length].
        destruct ((ct_n l =? 0) || pf_empty (ct_lasthval l)); f_equal; unfold nnat; lia.
  - rewrite cl_vals_cons2, cl_bytes_cons2.
    assert (Eadd : ct_addvs l (uval HdrContact i (nnat (length u)) :: cl_vals (i + nnat (length u) + 3) (u2 :: us))
                   = ct_addvs (ct_addv l (uval HdrContact i (nnat (length u))) true) (cl_vals (i + nnat (length u) + 3) (u2 :: us))).
    { destruct (cl_vals_cons (i + nnat (length u) + 3) u2 us) as (v2 & vs2 & Ev). rewrite Ev. reflexivity. }
    cbv zeta. rewrite Eadd. clear Eadd.
    destruct (ct_addv_facts i l (uval HdrContact i (nnat (length u))) true Hl Hb eq_refl) as (F1 & F2 & F3 & F4 & F5 & F6).
    set (l1 := ct_addv l (uval HdrContact i (nnat (length u))) true) in *.
    assert (Hl1 : CtI (i + nnat (length u) + 3) l1).
    { split; [exact F3|]. split; [apply F4; reflexivity|]. rewrite F5.
      destruct ((ct_n l =? 0) || pf_empty (ct_lasthval l)); unfold uval, pf_end in *; cbn [fb_v po pl]; destruct Hl as (_ & _ & Hx); unfold pf_end in Hx; lia. }
    destruct (IH (i + nnat (length u) + 3) l1 ltac:(discriminate) Hl1 ltac:(right; apply Hl1)) as (G1 & G2 & G3 & G4 & G5).
    split; [rewrite G1, F1; cbn [length]; unfold nnat; lia|]. split; [rewrite G2, F2; reflexivity|]. split; [|split].
    + intros j Hj. rewrite G3 by (rewrite F1; lia).
      destruct (le_lt_dec (length (ct_vals l)) j) as [Hge|Hlt]; [rewrite !nth_overflow by (try rewrite F2; lia); reflexivity|].
      rewrite (F6 j ltac:(lia) Hlt). replace (j =? N.to_nat (ct_n l))%nat with false by lia. reflexivity.
    + intros j Hj Hc. destruct j as [|j].
      * rewrite Nat.add_0_r in *. cbn [nth]. rewrite G3 by (rewrite F1; lia). rewrite (F6 (N.to_nat (ct_n l)) ltac:(lia) Hc), Nat.eqb_refl. reflexivity.
      * cbn [nth]. replace (N.to_nat (ct_n l) + S j)%nat with (N.to_nat (ct_n l1) + j)%nat by (rewrite F1; lia).
        apply G4; [cbn [length] in *; lia|rewrite F1, F2; lia].
    + rewrite G5, F1, F5.
      replace (ct_n l + 1 =? 0) with false by lia. cbn [orb].
      assert (Hne1 : pf_empty (if (ct_n l =? 0) || pf_empty (ct_lasthval l) then fb_v (uval HdrContact i (nnat (length u)))
                               else mkpf (po (ct_lasthval l)) (pf_end (fb_v (uval HdrContact i (nnat (length u)))) - po (ct_lasthval l))) = false).
      { destruct Hl as (_ & _ & Hx). destruct ((ct_n l =? 0) || pf_empty (ct_lasthval l));
          unfold pf_empty, uval, pf_end in *; cbn [fb_v po pl]; lia. }
      rewrite Hne1. cbn [length]. rewrite app_length. cbn [length]. fold (cl_bytes (u2 :: us)).
      destruct ((ct_n l =? 0) || pf_empty (ct_lasthval l)); unfold uval, pf_end; cbn [fb_v po pl]; f_equal; unfold nnat; lia.
Qed.

Theorem contact_list_spec us (junk : list byte) x tail n : us <> [] -> Forall (Forall uchar) us -> is_sp x = false ->
  let i := nnat (length junk) in
  let vs := cl_vals i us in
  exists C, parse_all_contacts (junk ++ cl_bytes us ++ CR :: LF :: x :: tail) i (contacts_init (repeat pfrom0 n))
            = Done (i + nnat (length (cl_bytes us)) + 2) EOk C /\
    ct_n C = nnat (length us) /\
    (forall j, (j < length us)%nat -> (j < n)%nat -> nth j (ct_vals C) pfrom0 = nth j vs pfrom0) /\
    ct_lasthval C = mkpf i (nnat (length (cl_bytes us))).
Proof.
  intros Hne Hall Hx i vs. set (l0 := contacts_init (repeat pfrom0 n)).
  assert (Hl0 : CtI i l0).
  { unfold CtI, l0, contacts_init. split; [split; [intros j _; apply nth_repeat|reflexivity]|]. split.
    - rewrite ct_sel_eq. destruct (_ <=? 0); [reflexivity|apply nth_repeat].
    - unfold pf_end. cbn. lia. }
  exists (ct_addvs l0 vs). unfold parse_all_contacts. subst i. rewrite FLineSpec.parse_at.
  rewrite (clist_run us (rev junk) (nnat (length junk)) l0 x tail Hne Hall Hx ltac:(now rewrite rev_length) Hl0).
  split; [reflexivity|].
  destruct (ct_addvs_facts us (nnat (length junk)) l0 Hne Hl0 (or_introl eq_refl)) as (G1 & G2 & G3 & G4 & G5). fold vs in G1, G2, G3, G4, G5.
  split; [rewrite G1; reflexivity|]. split.
  - intros j Hj Hjn. pose proof (G4 j Hj) as A. change (ct_n l0) with 0 in A. cbn [N.to_nat Nat.add] in A. apply A.
    unfold l0, contacts_init. cbn [ct_vals]. rewrite repeat_length. exact Hjn.
  - rewrite G5. reflexivity.
Qed.
