(* C13: the capacity of the caller's arrays only truncates what is stored.
   Two runs of the same list parser on objects that differ only in the capacity of their arrays
   step in lock-step (Sim.v): same verdict, offset, counts and summaries, equal elements on the
   common stored prefix, first and last contact equal. *)
From Sipsp Require Import RunLemmas Safe Resume Ext ExtLeaf ZSlice Harness ExtNameAddr ExtNested ExtLists ExtAdv OkBounds Sim.
From Coq Require Import ZifyN ZifyNat ZifyBool.

Lemma nth_set_nth_ne {A} (l : list A) : forall n j x d, j <> n -> nth j (set_nth n x l) d = nth j l d.
Proof. induction l as [|y l IH]; intros [|n] [|j] x d H; cbn; auto; try congruence. Qed.

(* ---- a successful name-addr value is complete ------------------------------------------------------------ *)
Lemma fb_iter_ok_parsed h pre rest i s :
  match fb_iter h pre rest i s with
  | Ret _ EOk s' => fb_parsed s' = true | Ret _ EMoreValues s' => fb_parsed s' = true | _ => True end.
Proof.
  unfold fb_iter. destruct (fb_state s) eqn:Est; try exact I; try (unfold fb_parsed; now rewrite Est).
  all: destruct rest as [|c r1]; [exact I|].
  all: assert (Heoh : forall i0 i1 ret e0 (s0 : pfrom),
         match fb_endOfHdr h pre (c :: r1) i0 i1 ret e0 s0 with
         | Ret _ EOk s' => fb_parsed s' = true | Ret _ EMoreValues s' => fb_parsed s' = true | _ => True end)
       by (intros i0 i1 ret e0 s0; unfold fb_endOfHdr; destruct (fb_close _ _ _ _ _) as [[s1|]|]; [| |exact I];
           [destruct e0; try exact I; destruct s1; reflexivity|destruct (fb_state s0); exact I]).
  all: unfold fb_step, fb_gA, fb_gQ, fb_gURI, fb_gURIFound, fb_gP, fb_gPE, fb_gV, fb_gVE, fb_gStar,
         fb_comma, fb_comma_strict, fb_bad, fb_setpv, fb_lws, fb_lws_b, fb_moreValues.
  all: destruct (ccls_of c); cbn [st_poss is_st_init is_st_nameoruri is_st_nameoruriend is_st_name is_st_new].
  all: try destruct (multipleValsOk h); try apply Heoh.
  all: repeat match goal with
              | |- context [match pf_set ?a ?b with _ => _ end] => destruct (pf_set a b)
              | |- context [match pf_extend ?a ?b with _ => _ end] => destruct (pf_extend a b)
              | |- context [match setFromParamVal ?a ?b ?c0 ?d with _ => _ end] => destruct (setFromParamVal a b c0 d)
              end; try exact I.
  all: try (destruct (skipLWS false (c :: r1)) as [k|k crl|k]; [exact I|apply Heoh|exact I]).
  all: try (destruct r1 as [|d r2]; [exact I|destruct (is_crlf d); exact I]).
Qed.
Lemma fb_run_ok_parsed h pre rest i v next e v' : run (fb_iter h) pre rest i 0 v = Done next e v' ->
  e = EOk \/ e = EMoreValues -> fb_parsed v' = true.
Proof.
  intros H He.
  pose proof (run_inv (fb_iter h) (fun _ _ _ => True) (fun _ e s' => e = EOk \/ e = EMoreValues -> fb_parsed s' = true)) as R.
  specialize (R ltac:(intros p r j s _; pose proof (fb_iter_ok_parsed h p r j s) as X;
                      destruct (fb_iter h p r j s) as [| ? [] ?|]; auto; intros [Y|Y]; discriminate) rest pre i v I).
  rewrite H in R. auto.
Qed.

(* ---- Contact values ------------------------------------------------------------------------------------------ *)
Definition ct_firstval (c : contacts) : pfrom := if 0 <? ct_cap c then nth 0 (ct_vals c) pfrom0 else ct_first c.
(* array entries after the current one are unused, and so is the overflow slot while the array has room *)
Definition ct_wf (c : contacts) : Prop :=
  (forall j, (N.to_nat (ct_n c) < j)%nat -> nth j (ct_vals c) pfrom0 = pfrom0) /\ (ct_n c < ct_cap c -> ct_last c = pfrom0).
Definition ct_prefix (c c' : contacts) : Prop :=
  forall j, (j < N.to_nat (ct_n c))%nat -> (j < length (ct_vals c))%nat -> (j < length (ct_vals c'))%nat ->
    nth j (ct_vals c) pfrom0 = nth j (ct_vals c') pfrom0.
Definition ct_scal (c c' : contacts) : Prop :=
  ct_n c = ct_n c' /\ ct_hno c = ct_hno c' /\ ct_maxexp c = ct_maxexp c' /\ ct_minexp c = ct_minexp c' /\
  ct_lasthval c = ct_lasthval c'.
Definition Rct (c c' : contacts) : Prop :=
  ct_scal c c' /\ ct_sel c = ct_sel c' /\ (0 < ct_n c -> ct_firstval c = ct_firstval c') /\ ct_prefix c c' /\
  ct_wf c /\ ct_wf c'.
Definition Rct_w (c c' : contacts) : Prop := ct_scal c c' /\ ct_prefix c c'.
Definition Qct (o : N) (e : err) (c c' : contacts) : Prop :=
  match e with
  | EOk => Rct c c' /\ ct_get c 0 = ct_get c' 0 /\ ct_get c (ct_n c - 1) = ct_get c' (ct_n c' - 1)
  | EMore => Rct c c'
  | _ => Rct_w c c'
  end.

Lemma ct_sel_eq vals n hno mx mn lh last first :
  ct_sel (mkcontacts vals n hno mx mn lh last first) =
  if nnat (length vals) <=? n then (if fb_parsed last then pfrom0 else last) else nth (N.to_nat n) vals pfrom0.
Proof.
  unfold ct_sel, ct_prep, ct_slot, ct_slot_is_last, ct_cap. cbn.
  destruct (nnat (length vals) <=? n) eqn:E; cbn; [|rewrite E; reflexivity].
  destruct (fb_parsed last); cbn; rewrite E; reflexivity.
Qed.

(* ct_post, step by step *)
Lemma ct_store_prep l v : ct_store (ct_prep l) v = ct_store l v.
Proof.
  destruct l as [vals n hno mx mn lh last first]. unfold ct_prep, ct_store, ct_slot_is_last, ct_cap. cbn.
  destruct (nnat (length vals) <=? n) eqn:El; cbn; [|rewrite El; reflexivity].
  destruct (fb_parsed last); cbn; rewrite El; reflexivity.
Qed.
Lemma ct_is_last_prep l : ct_slot_is_last (ct_prep l) = ct_slot_is_last l.
Proof.
  destruct l as [vals n hno mx mn lh last first]. unfold ct_prep, ct_slot_is_last, ct_cap. cbn.
  destruct (nnat (length vals) <=? n) eqn:El; cbn; [|exact El]. destruct (fb_parsed last); cbn; exact El.
Qed.

(* the bookkeeping after a finished value *)
Definition ct_count (c1 : contacts) (v : pfrom) : option contacts :=
  let c2 := if ct_n c1 =? 0 then c1 <| ct_minexp := MaxU32 |> else c1 in
  match (if (ct_n c2 =? 0) || pf_empty (ct_lasthval c2) then Some (fb_v v)
         else pf_extend (ct_lasthval c2) (pf_end (fb_v v))) with
  | None => None
  | Some lh =>
    let c3 := c2 <| ct_lasthval := lh |> <| ct_n := ct_n c2 + 1 |> in
    let c4 := if ct_maxexp c3 <? fb_expires v then c3 <| ct_maxexp := fb_expires v |> else c3 in
    let c5 := if fb_expires v <? ct_minexp c4 then c4 <| ct_minexp := fb_expires v |> else c4 in
    Some (if (ct_n c5 =? 1) && (ct_cap c5 =? 0) then c5 <| ct_first := v |> else c5)
  end.
Lemma ct_post_eq pre rest i l next e v :
  ct_post pre rest i l next e v =
  let c1 := ct_store l v in
  match e with
  | EOk => match ct_count c1 v with Some c6 => Ret next EOk c6 | None => IPanic end
  | EMoreValues => match ct_count c1 v with
                   | Some c6 => Next (N.to_nat (next - i)) (ct_reset_last_if (ct_slot_is_last l) c6)
                   | None => IPanic end
  | EMore => Ret next EMore c1
  | _ => Ret next e (ct_reset_last_if (ct_slot_is_last l) c1)
  end.
Proof.
  unfold ct_post, ct_count. cbv zeta. rewrite ct_store_prep, ct_is_last_prep.
  destruct e; try reflexivity; destruct (if (ct_n _ =? 0) || _ then _ else _); reflexivity.
Qed.

Lemma ct_store_proj l v :
  ct_n (ct_store l v) = ct_n l /\ ct_hno (ct_store l v) = ct_hno l /\ ct_maxexp (ct_store l v) = ct_maxexp l /\
  ct_minexp (ct_store l v) = ct_minexp l /\ ct_lasthval (ct_store l v) = ct_lasthval l /\
  ct_first (ct_store l v) = ct_first l /\
  ct_vals (ct_store l v) = (if ct_slot_is_last l then ct_vals l else set_nth (N.to_nat (ct_n l)) v (ct_vals l)) /\
  ct_last (ct_store l v) = (if ct_slot_is_last l then v else ct_last l).
Proof. unfold ct_store. destruct (ct_slot_is_last l); destruct l; cbn; repeat split; reflexivity. Qed.

Lemma ct_count_proj c1 v c6 : ct_count c1 v = Some c6 ->
  ct_vals c6 = ct_vals c1 /\ ct_n c6 = ct_n c1 + 1 /\ ct_hno c6 = ct_hno c1 /\ ct_last c6 = ct_last c1 /\
  ct_first c6 = (if (ct_n c1 + 1 =? 1) && (ct_cap c1 =? 0) then v else ct_first c1).
Proof.
  destruct c1 as [vals n hno mx mn lh last first]. unfold ct_count, ct_cap. cbn.
  destruct (n =? 0); cbn.
  all: match goal with |- context [match ?x with Some _ => _ | None => _ end] => destruct x end; [|discriminate].
  all: cbn; destruct (mx <? fb_expires v); cbn.
  all: match goal with |- context [fb_expires ?vv <? ?m] => destruct (fb_expires vv <? m) end; cbn.
  all: destruct ((n + 1 =? 1) && (nnat (length vals) =? 0)); cbn; intros H; injection H as <-; cbn; repeat split; reflexivity.
Qed.

Lemma ct_count_scal c1 c1' v : ct_scal c1 c1' ->
  match ct_count c1 v, ct_count c1' v with
  | Some c6, Some c6' => ct_scal c6 c6'
  | None, None => True
  | _, _ => False
  end.
Proof.
  destruct c1 as [vals n hno mx mn lh last first], c1' as [vals' n' hno' mx' mn' lh' last' first'].
  unfold ct_scal. cbn. intros (-> & -> & -> & -> & ->). unfold ct_count, ct_cap. cbn.
  destruct (n' =? 0) eqn:En; cbn; rewrite ?En; cbn.
  all: try (destruct (pf_empty lh'); cbn).
  all: try (destruct (pf_extend lh' _); cbn; [|exact I]).
  all: destruct (mx' <? fb_expires v); cbn.
  all: match goal with |- context [fb_expires ?vv <? ?m] => destruct (fb_expires vv <? m) end; cbn.
  all: destruct ((n' + 1 =? 1) && (nnat (length vals) =? 0)); destruct ((n' + 1 =? 1) && (nnat (length vals') =? 0)); cbn;
       repeat split; reflexivity.
Qed.

Lemma ct_sel_proj c : ct_sel c =
  if ct_cap c <=? ct_n c then (if fb_parsed (ct_last c) then pfrom0 else ct_last c)
  else nth (N.to_nat (ct_n c)) (ct_vals c) pfrom0.
Proof. destruct c. apply ct_sel_eq. Qed.

(* X: the object after the value v was stored in slot n of l and counted *)
Section CtNext.
  Variables (l X : contacts) (v w : pfrom).
  Hypothesis Hwf : ct_wf l.
  Hypothesis Hn : ct_n X = ct_n l + 1.
  Hypothesis Hvals : ct_vals X = (if ct_cap l <=? ct_n l then ct_vals l else set_nth (N.to_nat (ct_n l)) v (ct_vals l)).
  Hypothesis Hlast : ct_last X = (if ct_cap l <=? ct_n l then w else ct_last l).
  Hypothesis Hfirst : ct_first X = (if (ct_n l + 1 =? 1) && (ct_cap l =? 0) then v else ct_first l).

  Lemma next_cap : ct_cap X = ct_cap l.
  Proof. unfold ct_cap. rewrite Hvals. destruct (_ <=? _); [reflexivity|]. now rewrite set_nth_len. Qed.

  Lemma next_sel : (if fb_parsed w then pfrom0 else w) = pfrom0 -> ct_sel X = pfrom0.
  Proof.
    intros Hw. rewrite ct_sel_proj, next_cap, Hn, Hlast, Hvals. destruct Hwf as [W1 W2]. unfold ct_cap in *.
    destruct (nnat (length (ct_vals l)) <=? ct_n l) eqn:E.
    - replace (nnat (length (ct_vals l)) <=? ct_n l + 1) with true by lia. exact Hw.
    - destruct (nnat (length (ct_vals l)) <=? ct_n l + 1) eqn:E2.
      + rewrite W2 by lia. destruct (fb_parsed pfrom0); reflexivity.
      + rewrite nth_set_nth_ne by lia. apply W1. lia.
  Qed.

  Lemma next_firstval : ct_firstval X = if ct_n l =? 0 then v else ct_firstval l.
  Proof.
    unfold ct_firstval. rewrite next_cap, Hvals, Hfirst. unfold ct_cap.
    destruct (0 <? nnat (length (ct_vals l))) eqn:Ec.
    - destruct (nnat (length (ct_vals l)) <=? ct_n l) eqn:E.
      + replace (ct_n l =? 0) with false by lia. reflexivity.
      + destruct (ct_n l =? 0) eqn:E0.
        * replace (N.to_nat (ct_n l)) with 0%nat by lia. apply nth_set_nth. unfold nnat in *. lia.
        * apply nth_set_nth_ne. lia.
    - replace (nnat (length (ct_vals l)) =? 0) with true by lia. rewrite andb_true_r.
      replace (ct_n l + 1 =? 1) with (ct_n l =? 0) by lia. reflexivity.
  Qed.

  Lemma next_nth j : (j <= N.to_nat (ct_n l))%nat -> (j < length (ct_vals l))%nat ->
    nth j (ct_vals X) pfrom0 = if (j =? N.to_nat (ct_n l))%nat then v else nth j (ct_vals l) pfrom0.
  Proof.
    intros Hj Hlen. rewrite Hvals. unfold ct_cap. destruct (nnat (length (ct_vals l)) <=? ct_n l) eqn:E.
    - replace (j =? N.to_nat (ct_n l))%nat with false by (unfold nnat in *; lia). reflexivity.
    - destruct (j =? N.to_nat (ct_n l))%nat eqn:Ej.
      + apply Nat.eqb_eq in Ej. subst j. apply nth_set_nth. exact Hlen.
      + apply nth_set_nth_ne. lia.
  Qed.

  Lemma next_wf : ct_wf X.
  Proof.
    destruct Hwf as [W1 W2]. split.
    - intros j Hj. rewrite Hn in Hj. rewrite Hvals. destruct (_ <=? _); [apply W1; lia|].
      rewrite nth_set_nth_ne by lia. apply W1. lia.
    - rewrite next_cap, Hn, Hlast. intros H. unfold ct_cap in *. replace (nnat (length (ct_vals l)) <=? ct_n l) with false by lia.
      apply W2. lia.
  Qed.

  Lemma next_len : length (ct_vals X) = length (ct_vals l).
  Proof. rewrite Hvals. destruct (_ <=? _); [reflexivity|apply set_nth_len]. Qed.

  (* with the value still in the overflow slot: first and last are retrievable *)
  Lemma next_get0 : w = v -> ct_get X 0 = Some (ct_firstval X).
  Proof.
    intros Hw. rewrite next_firstval. unfold ct_get, ct_vno, ct_firstval. rewrite next_cap, Hn, Hlast, Hfirst, Hw. unfold ct_cap in *.
    destruct (0 <? N.min (ct_n l + 1) (nnat (length (ct_vals l)))) eqn:E.
    - replace (0 <? nnat (length (ct_vals l))) with true by lia.
      assert (Hl : (0 < length (ct_vals X))%nat) by (rewrite next_len; unfold nnat in *; lia).
      change (N.to_nat 0) with 0%nat. rewrite (nth_error_nth' _ pfrom0 Hl). f_equal.
      rewrite (next_nth 0) by (unfold nnat in *; lia). 
      destruct (ct_n l =? 0) eqn:E0; [replace (0 =? N.to_nat (ct_n l))%nat with true by lia; reflexivity|].
      replace (0 =? N.to_nat (ct_n l))%nat with false by lia. reflexivity.
    - replace (0 <? nnat (length (ct_vals l))) with false by lia.
      replace (nnat (length (ct_vals l)) <=? ct_n l) with true by lia.
      replace (nnat (length (ct_vals l)) =? 0) with true by lia. rewrite andb_true_r.
      replace (ct_n l + 1 =? 0) with false by lia. cbn [N.add].
      replace (ct_n l + 1 =? 0 + 1) with (ct_n l =? 0) by lia.
      replace (ct_n l + 1 =? 1) with (ct_n l =? 0) by lia.
      destruct (ct_n l =? 0); reflexivity.
  Qed.
  Lemma next_getlast : w = v -> ct_get X (ct_n X - 1) = Some v.
  Proof.
    intros Hw. unfold ct_get, ct_vno. rewrite next_cap, Hn, Hlast, Hw. unfold ct_cap in *.
    replace (ct_n l + 1 - 1) with (ct_n l) by lia.
    destruct (ct_n l <? N.min (ct_n l + 1) (nnat (length (ct_vals l)))) eqn:E.
    - assert (Hl : (N.to_nat (ct_n l) < length (ct_vals X))%nat) by (rewrite next_len; unfold nnat in *; lia).
      rewrite (nth_error_nth' _ pfrom0 Hl). f_equal.
      rewrite next_nth by (unfold nnat in *; lia). now rewrite Nat.eqb_refl.
    - replace (ct_n l + 1 =? 0) with false by lia. rewrite N.eqb_refl.
      replace (nnat (length (ct_vals l)) <=? ct_n l) with true by lia. reflexivity.
  Qed.
End CtNext.

Lemma Rct_next l l' v w w' X X' : Rct l l' ->
  (if fb_parsed w then pfrom0 else w) = pfrom0 -> (if fb_parsed w' then pfrom0 else w') = pfrom0 ->
  ct_scal X X' -> ct_n X = ct_n l + 1 -> ct_n X' = ct_n l' + 1 ->
  ct_vals X = (if ct_cap l <=? ct_n l then ct_vals l else set_nth (N.to_nat (ct_n l)) v (ct_vals l)) ->
  ct_vals X' = (if ct_cap l' <=? ct_n l' then ct_vals l' else set_nth (N.to_nat (ct_n l')) v (ct_vals l')) ->
  ct_last X = (if ct_cap l <=? ct_n l then w else ct_last l) ->
  ct_last X' = (if ct_cap l' <=? ct_n l' then w' else ct_last l') ->
  ct_first X = (if (ct_n l + 1 =? 1) && (ct_cap l =? 0) then v else ct_first l) ->
  ct_first X' = (if (ct_n l' + 1 =? 1) && (ct_cap l' =? 0) then v else ct_first l') ->
  Rct X X'.
Proof.
  intros (Hsc & Hsel & Hfirst & Hpre & Hwf & Hwf') Hw Hw' HscX Hn Hn' Hv Hv' Hl Hl' Hf Hf'.
  destruct Hsc as (A1 & A2 & A3 & A4 & A5).
  split; [exact HscX|]. split.
  { rewrite (next_sel l X v w Hwf Hn Hv Hl Hw), (next_sel l' X' v w' Hwf' Hn' Hv' Hl' Hw'). reflexivity. }
  split.
  { intros _. rewrite (next_firstval l X v w Hn Hv Hl Hf), (next_firstval l' X' v w' Hn' Hv' Hl' Hf'). rewrite <- A1.
    destruct (ct_n l =? 0) eqn:E0; [reflexivity|]. apply Hfirst. lia. }
  split.
  { intros j Hj Hlen Hlen'. rewrite Hn in Hj. rewrite (next_len l X v w Hv Hl) in Hlen. rewrite (next_len l' X' v w' Hv' Hl') in Hlen'.
    rewrite (next_nth l X v Hn Hv j) by lia. rewrite (next_nth l' X' v Hn' Hv' j) by lia. rewrite <- A1.
    destruct (j =? N.to_nat (ct_n l))%nat eqn:Ej; [reflexivity|]. apply Hpre; lia. }
  split; [exact (next_wf l X v w Hwf Hn Hv Hl)|exact (next_wf l' X' v w' Hwf' Hn' Hv' Hl')].
Qed.

Lemma ct_wf_store l v : ct_wf l -> ct_wf (ct_store l v).
Proof.
  intros [W1 W2]. destruct (ct_store_proj l v) as (S1 & _ & _ & _ & _ & _ & S7 & S8). unfold ct_slot_is_last in *. split.
  - intros j Hj. rewrite S1 in Hj. rewrite S7. destruct (ct_cap l <=? ct_n l); [apply W1; exact Hj|].
    rewrite nth_set_nth_ne by lia. apply W1. exact Hj.
  - rewrite S1, S8. unfold ct_cap. rewrite S7. unfold ct_cap in *. intros H.
    destruct (nnat (length (ct_vals l)) <=? ct_n l) eqn:E; [lia|]. rewrite set_nth_len in H. apply W2. exact H.
Qed.

Lemma Rct_store l l' v : Rct l l' -> fb_parsed v = false -> Rct (ct_store l v) (ct_store l' v).
Proof.
  intros (Hsc & Hsel & Hfirst & Hpre & (W1 & W2) & (W1' & W2')) Hv.
  pose proof (ct_store_proj l v) as (S1 & S2 & S3 & S4 & S5 & S6 & S7 & S8).
  pose proof (ct_store_proj l' v) as (S1' & S2' & S3' & S4' & S5' & S6' & S7' & S8').
  destruct Hsc as (A1 & A2 & A3 & A4 & A5). unfold ct_slot_is_last in *.
  split. { unfold ct_scal. rewrite S1, S2, S3, S4, S5, S1', S2', S3', S4', S5'. auto. }
  split. { rewrite <- (ct_store_prep l v), <- (ct_store_prep l' v). change (ct_sel (ct_st l v) = ct_sel (ct_st l' v)). now rewrite !ct_sel_store. }
  split.
  { rewrite S1. intros Hn. specialize (Hfirst Hn). unfold ct_firstval, ct_cap in *. rewrite S6, S6', S7, S7'.
    assert (E : forall c : contacts, 0 < ct_n c ->
              nnat (length (if nnat (length (ct_vals c)) <=? ct_n c then ct_vals c else set_nth (N.to_nat (ct_n c)) v (ct_vals c))) = nnat (length (ct_vals c))
              /\ nth 0 (if nnat (length (ct_vals c)) <=? ct_n c then ct_vals c else set_nth (N.to_nat (ct_n c)) v (ct_vals c)) pfrom0 = nth 0 (ct_vals c) pfrom0).
    { intros c Hc. destruct (nnat (length (ct_vals c)) <=? ct_n c); [auto|]. rewrite set_nth_len. split; [reflexivity|]. apply nth_set_nth_ne. lia. }
    destruct (E l Hn) as [E1 E2]. destruct (E l' ltac:(lia)) as [E1' E2']. rewrite E1, E2, E1', E2'. exact Hfirst. }
  split.
  { intros j Hj Hlen Hlen'. rewrite S1 in Hj. rewrite S7 in *. rewrite S7' in *. unfold ct_cap in *.
    assert (E : forall c : contacts, (j < N.to_nat (ct_n c))%nat ->
              nth j (if nnat (length (ct_vals c)) <=? ct_n c then ct_vals c else set_nth (N.to_nat (ct_n c)) v (ct_vals c)) pfrom0 = nth j (ct_vals c) pfrom0
              /\ length (if nnat (length (ct_vals c)) <=? ct_n c then ct_vals c else set_nth (N.to_nat (ct_n c)) v (ct_vals c)) = length (ct_vals c)).
    { intros c Hc. destruct (nnat (length (ct_vals c)) <=? ct_n c); [auto|]. rewrite set_nth_len. split; [|reflexivity]. apply nth_set_nth_ne. lia. }
    destruct (E l Hj) as [E1 E2]. destruct (E l' ltac:(lia)) as [E1' E2']. rewrite E1, E1'. rewrite E2 in Hlen. rewrite E2' in Hlen'.
    apply Hpre; assumption. }
  split; apply ct_wf_store; split; assumption.
Qed.

Lemma Rct_w_store l l' v (b b' : bool) : Rct l l' ->
  Rct_w (ct_reset_last_if b (ct_store l v)) (ct_reset_last_if b' (ct_store l' v)).
Proof.
  intros (Hsc & Hsel & Hfirst & Hpre & _ & _).
  assert (P : forall (bb : bool) c, ct_n (ct_reset_last_if bb c) = ct_n c /\ ct_hno (ct_reset_last_if bb c) = ct_hno c /\
            ct_maxexp (ct_reset_last_if bb c) = ct_maxexp c /\ ct_minexp (ct_reset_last_if bb c) = ct_minexp c /\
            ct_lasthval (ct_reset_last_if bb c) = ct_lasthval c /\ ct_vals (ct_reset_last_if bb c) = ct_vals c).
  { intros bb c. destruct bb, c; cbn; repeat split; reflexivity. }
  pose proof (ct_store_proj l v) as (S1 & S2 & S3 & S4 & S5 & S6 & S7 & S8).
  pose proof (ct_store_proj l' v) as (S1' & S2' & S3' & S4' & S5' & S6' & S7' & S8').
  destruct (P b (ct_store l v)) as (Q1 & Q2 & Q3 & Q4 & Q5 & Q6). destruct (P b' (ct_store l' v)) as (Q1' & Q2' & Q3' & Q4' & Q5' & Q6').
  destruct Hsc as (A1 & A2 & A3 & A4 & A5). unfold ct_slot_is_last in *. split.
  - unfold ct_scal. rewrite Q1, Q2, Q3, Q4, Q5, Q1', Q2', Q3', Q4', Q5', S1, S2, S3, S4, S5, S1', S2', S3', S4', S5'. auto.
  - intros j Hj Hlen Hlen'. rewrite Q1, S1 in Hj. rewrite Q6, S7 in *. rewrite Q6', S7' in *. unfold ct_cap in *.
    assert (E : forall c : contacts, (j < N.to_nat (ct_n c))%nat ->
              nth j (if nnat (length (ct_vals c)) <=? ct_n c then ct_vals c else set_nth (N.to_nat (ct_n c)) v (ct_vals c)) pfrom0 = nth j (ct_vals c) pfrom0
              /\ length (if nnat (length (ct_vals c)) <=? ct_n c then ct_vals c else set_nth (N.to_nat (ct_n c)) v (ct_vals c)) = length (ct_vals c)).
    { intros c Hc. destruct (nnat (length (ct_vals c)) <=? ct_n c); [auto|]. rewrite set_nth_len. split; [|reflexivity]. apply nth_set_nth_ne. lia. }
    destruct (E l Hj) as [E1 E2]. destruct (E l' ltac:(lia)) as [E1' E2']. rewrite E1, E1'. rewrite E2 in Hlen. rewrite E2' in Hlen'.
    apply Hpre; assumption.
Qed.

Lemma reset_last_proj b c :
  ct_n (ct_reset_last_if b c) = ct_n c /\ ct_hno (ct_reset_last_if b c) = ct_hno c /\
  ct_maxexp (ct_reset_last_if b c) = ct_maxexp c /\ ct_minexp (ct_reset_last_if b c) = ct_minexp c /\
  ct_lasthval (ct_reset_last_if b c) = ct_lasthval c /\ ct_vals (ct_reset_last_if b c) = ct_vals c /\
  ct_first (ct_reset_last_if b c) = ct_first c /\ ct_last (ct_reset_last_if b c) = (if b then pfrom0 else ct_last c).
Proof. destruct b, c; cbn; repeat split; reflexivity. Qed.

Lemma ct_post_sim pre rest i l l' next e v : Rct l l' -> (e = EMore -> fb_parsed v = false) ->
  (e = EOk \/ e = EMoreValues -> fb_parsed v = true) ->
  ires_rel Rct Qct (ct_post pre rest i l next e v) (ct_post pre rest i l' next e v).
Proof.
  intros HR Hmore Hok. rewrite !ct_post_eq. cbv zeta.
  pose proof (ct_store_proj l v) as (S1 & S2 & S3 & S4 & S5 & S6 & S7 & S8).
  pose proof (ct_store_proj l' v) as (S1' & S2' & S3' & S4' & S5' & S6' & S7' & S8').
  assert (Hsc1 : ct_scal (ct_store l v) (ct_store l' v)).
  { destruct HR as ((A1 & A2 & A3 & A4 & A5) & _). unfold ct_scal. rewrite S1, S2, S3, S4, S5, S1', S2', S3', S4', S5'. auto. }
  assert (Hcap : forall c : contacts, ct_cap (ct_store c v) = ct_cap c).
  { intros c. unfold ct_cap. destruct (ct_store_proj c v) as (_ & _ & _ & _ & _ & _ & E & _). rewrite E.
    destruct (ct_slot_is_last c); [reflexivity|now rewrite set_nth_len]. }
  unfold ct_slot_is_last in *.
  assert (Hcount : fb_parsed v = true -> forall c6 c6', ct_count (ct_store l v) v = Some c6 -> ct_count (ct_store l' v) v = Some c6' -> ct_scal c6 c6' ->
            forall (b b' : bool) w w', w = (if b then pfrom0 else v) -> w' = (if b' then pfrom0 else v) ->
            b = false \/ b = (ct_cap l <=? ct_n l) -> b' = false \/ b' = (ct_cap l' <=? ct_n l') ->
            Rct (ct_reset_last_if b c6) (ct_reset_last_if b' c6')).
  { intros Hv c6 c6' E6 E6' Hc b b' w w' Ew Ew' Hb Hb'.
    apply ct_count_proj in E6 as (P1 & P2 & P3 & P4 & P5). apply ct_count_proj in E6' as (P1' & P2' & P3' & P4' & P5').
    destruct (reset_last_proj b c6) as (Q1 & Q2 & Q3 & Q4 & Q5 & Q6 & Q7 & Q8).
    destruct (reset_last_proj b' c6') as (Q1' & Q2' & Q3' & Q4' & Q5' & Q6' & Q7' & Q8').
    apply (Rct_next l l' v w w' _ _ HR).
    - subst w. destruct b; [destruct (fb_parsed pfrom0); reflexivity|now rewrite Hv].
    - subst w'. destruct b'; [destruct (fb_parsed pfrom0); reflexivity|now rewrite Hv].
    - destruct Hc as (C1 & C2 & C3 & C4 & C5). unfold ct_scal. rewrite Q1, Q2, Q3, Q4, Q5, Q1', Q2', Q3', Q4', Q5'. auto.
    - rewrite Q1, P2, S1. reflexivity.
    - rewrite Q1', P2', S1'. reflexivity.
    - rewrite Q6, P1, S7. reflexivity.
    - rewrite Q6', P1', S7'. reflexivity.
    - rewrite Q8, P4, S8. subst w. destruct Hb as [->| ->]; [reflexivity|]. destruct (ct_cap l <=? ct_n l); reflexivity.
    - rewrite Q8', P4', S8'. subst w'. destruct Hb' as [->| ->]; [reflexivity|]. destruct (ct_cap l' <=? ct_n l'); reflexivity.
    - rewrite Q7, P5, S1, S6, Hcap. reflexivity.
    - rewrite Q7', P5', S1', S6', Hcap. reflexivity. }
  destruct e.
  - (* EOk *)
    pose proof (ct_count_scal _ _ v Hsc1) as Hc.
    destruct (ct_count (ct_store l v) v) as [c6|] eqn:E6, (ct_count (ct_store l' v) v) as [c6'|] eqn:E6'; try contradiction; [|exact I].
    cbn [ires_rel]. split; [reflexivity|]. split; [reflexivity|]. unfold Qct.
    pose proof (Hcount (Hok (or_introl eq_refl)) c6 c6' eq_refl eq_refl Hc false false v v eq_refl eq_refl (or_introl eq_refl) (or_introl eq_refl)) as HR6.
    cbn [ct_reset_last_if] in HR6. split; [exact HR6|].
    apply ct_count_proj in E6 as (P1 & P2 & P3 & P4 & P5). apply ct_count_proj in E6' as (P1' & P2' & P3' & P4' & P5').
    assert (G : forall (c X : contacts), ct_n X = ct_n c + 1 ->
              ct_vals X = (if ct_cap c <=? ct_n c then ct_vals c else set_nth (N.to_nat (ct_n c)) v (ct_vals c)) ->
              ct_last X = (if ct_cap c <=? ct_n c then v else ct_last c) ->
              ct_first X = (if (ct_n c + 1 =? 1) && (ct_cap c =? 0) then v else ct_first c) ->
              ct_get X 0 = Some (ct_firstval X) /\ ct_get X (ct_n X - 1) = Some v).
    { intros c X G1 G2 G3 G4. split; [exact (next_get0 c X v v G1 G2 G3 G4 eq_refl)|exact (next_getlast c X v v G1 G2 G3 eq_refl)]. }
    destruct (G l c6) as [G1 G2]; [rewrite P2, S1; reflexivity|rewrite P1, S7; reflexivity|rewrite P4, S8; reflexivity|rewrite P5, S1, S6, Hcap; reflexivity|].
    destruct (G l' c6') as [G1' G2']; [rewrite P2', S1'; reflexivity|rewrite P1', S7'; reflexivity|rewrite P4', S8'; reflexivity|rewrite P5', S1', S6', Hcap; reflexivity|].
    rewrite G1, G2, G1', G2'. split; [|reflexivity]. f_equal.
    destruct HR6 as (_ & _ & HF & _). apply HF. rewrite P2. lia.
  - unfold ires_rel, Qct. split; [reflexivity|]. split; [reflexivity|]. apply Rct_w_store. exact HR.
  - unfold ires_rel, Qct. split; [reflexivity|]. split; [reflexivity|]. apply Rct_w_store. exact HR.
  - (* EMore *) unfold ires_rel, Qct. split; [reflexivity|]. split; [reflexivity|]. apply Rct_store; [exact HR|]. apply Hmore. reflexivity.
  - (* EMoreValues *)
    pose proof (ct_count_scal _ _ v Hsc1) as Hc.
    destruct (ct_count (ct_store l v) v) as [c6|] eqn:E6, (ct_count (ct_store l' v) v) as [c6'|] eqn:E6'; try contradiction; [|exact I].
    cbn [ires_rel]. split; [reflexivity|].
    apply (Hcount (Hok (or_intror eq_refl)) c6 c6' eq_refl eq_refl Hc _ _ _ _ eq_refl eq_refl); right; reflexivity.
  - unfold ires_rel, Qct. split; [reflexivity|]. split; [reflexivity|]. apply Rct_w_store. exact HR.
  - unfold ires_rel, Qct. split; [reflexivity|]. split; [reflexivity|]. apply Rct_w_store. exact HR.
  - unfold ires_rel, Qct. split; [reflexivity|]. split; [reflexivity|]. apply Rct_w_store. exact HR.
  - unfold ires_rel, Qct. split; [reflexivity|]. split; [reflexivity|]. apply Rct_w_store. exact HR.
  - unfold ires_rel, Qct. split; [reflexivity|]. split; [reflexivity|]. apply Rct_w_store. exact HR.
  - unfold ires_rel, Qct. split; [reflexivity|]. split; [reflexivity|]. apply Rct_w_store. exact HR.
  - unfold ires_rel, Qct. split; [reflexivity|]. split; [reflexivity|]. apply Rct_w_store. exact HR.
  - unfold ires_rel, Qct. split; [reflexivity|]. split; [reflexivity|]. apply Rct_w_store. exact HR.
  - unfold ires_rel, Qct. split; [reflexivity|]. split; [reflexivity|]. apply Rct_w_store. exact HR.
  - unfold ires_rel, Qct. split; [reflexivity|]. split; [reflexivity|]. apply Rct_w_store. exact HR.
  - unfold ires_rel, Qct. split; [reflexivity|]. split; [reflexivity|]. apply Rct_w_store. exact HR.
  - unfold ires_rel, Qct. split; [reflexivity|]. split; [reflexivity|]. apply Rct_w_store. exact HR.
  - unfold ires_rel, Qct. split; [reflexivity|]. split; [reflexivity|]. apply Rct_w_store. exact HR.
Qed.

Lemma ct_iter_sim pre rest i l l' : Rct l l' -> ires_rel Rct Qct (ct_iter pre rest i l) (ct_iter pre rest i l').
Proof.
  intros HR. rewrite !ct_iter_def. destruct HR as (Hsc & Hsel & Hrest). rewrite <- Hsel.
  destruct (run (fb_iter HdrContact) pre rest i 0 (ct_sel l)) as [next e v| |] eqn:E; [|exact I|exact I].
  apply ct_post_sim.
  - exact (conj Hsc (conj Hsel Hrest)).
  - intros ->. exact (fb_more_not_parsed _ _ _ _ _ _ _ E).
  - intros He. exact (fb_run_ok_parsed _ _ _ _ _ _ _ _ E He).
Qed.

(* ParseAllContactValues on two objects that differ only in the capacity of the value array *)
Theorem contacts_capacity buf offs c c' : Rct c c' ->
  res_rel Qct (parse_all_contacts buf offs c) (parse_all_contacts buf offs c').
Proof. apply (parse_sim ct_iter ct_iter Rct Qct ct_iter_sim). Qed.

(* the relation holds between fresh objects of any two capacities *)
Lemma Rct_init n m : Rct (contacts_init (repeat pfrom0 n)) (contacts_init (repeat pfrom0 m)).
Proof.
  assert (Hnth : forall k j, nth j (repeat pfrom0 k) pfrom0 = pfrom0).
  { induction k as [|k IH]; intros [|j]; cbn; auto. }
  unfold Rct, ct_scal, ct_prefix, ct_wf, contacts_init. cbn [ct_n ct_hno ct_maxexp ct_minexp ct_lasthval ct_vals ct_last].
  split; [repeat split; reflexivity|]. split.
  { rewrite !ct_sel_eq. cbn [N.to_nat]. rewrite !Hnth. destruct (_ <=? 0), (_ <=? 0); try reflexivity; destruct (fb_parsed pfrom0); reflexivity. }
  split; [lia|]. split; [intros j Hj; cbn in Hj; lia|]. repeat split; auto.
Qed.
