(* C09 / C10: one parameter after the bracketed URI, "<" uri ">;" name "=" value end-of-line, for every
   parameter name: the parser hands exactly the name text and the value text to the parameter dispatch
   (tag / expires / q / lr / other), so the numbers stored are those of QSpec.v / Numbers.v applied to
   the value text. *)
From Sipsp Require Import Driver Harness RunLemmas Ext ExtLeaf ZSlice HdrSpec UIntSpec TokSpec NameAddrSpec IP4 Numbers QSpec.
From Coq Require Import ZifyN ZifyNat ZifyBool.
From RecordUpdate Require Import RecordUpdate.

Definition pchar (c : byte) : Prop := ccls_of c = KOther.

(* what a recognised parameter does to the value (fb_vstart / fb_vend still delimit the value text) *)
Definition apply_param (name val : list byte) (s : pfrom) : pfrom :=
  if eqb_nocase name str_tag then s <| fb_tag := mkpf (fb_vstart s) (fb_vend s - fb_vstart s) |>
  else if eqb_nocase name str_expires then
    s <| fb_hasexp := true |> <| fb_expires := (let '(e, _) := pUInt64Val val in if e <? MaxU32 then e else MaxU32) |>
  else if eqb_nocase name str_q then set_q val s
  else if eqb_nocase name str_lr then s <| fb_lr := true |>
  else s.
Definition pclr (s : pfrom) : pfrom := s <| fb_pstart := 0 |> <| fb_pend := 0 |> <| fb_vstart := 0 |> <| fb_vend := 0 |>.

Lemma setFromParamVal_some pre rest i s name val :
  fb_pstart s < fb_pend s -> fb_vstart s < fb_vend s ->
  zslice pre rest i (fb_pstart s) (fb_pend s) = Some name -> zslice pre rest i (fb_vstart s) (fb_vend s) = Some val ->
  setFromParamVal pre rest i s = Some (pclr (apply_param name val s)).
Proof.
  intros H1 H2 Z1 Z2. unfold setFromParamVal, apply_param, pclr. rewrite Z1, Z2.
  replace ((fb_pstart s <? fb_pend s) && (fb_vstart s <? fb_vend s)) with true by lia.
  destruct (eqb_nocase name str_tag).
  - unfold pf_set. replace (fb_vend s <? fb_vstart s) with false by lia. reflexivity.
  - destruct (eqb_nocase name str_expires); [destruct (pUInt64Val val); reflexivity|].
    destruct (eqb_nocase name str_q); [reflexivity|]. destruct (eqb_nocase name str_lr); reflexivity.
Qed.

Lemma apply_param_frame name val s :
  fb_params (apply_param name val s) = fb_params s /\ fb_v (apply_param name val s) = fb_v s /\ fb_state (apply_param name val s) = fb_state s.
Proof.
  unfold apply_param. destruct (eqb_nocase name str_tag); [destruct s; cbn; auto|].
  destruct (eqb_nocase name str_expires); [destruct s; cbn; auto|].
  destruct (eqb_nocase name str_q).
  - unfold set_q. cbv zeta. destruct (_ <=? 4)%nat; [|destruct s; cbn; auto].
    destruct (pUInt64Val _) as [u e1]. destruct (match e1 with EOk => _ | _ => _ end) as [d e2].
    destruct e2; try (destruct s; cbn; auto; fail). destruct (_ || _); destruct s; cbn; auto.
  - destruct (eqb_nocase name str_lr); destruct s; cbn; auto.
Qed.

(* the finished value: the parameter's scratch offsets cleared, parameter span and whole-value span closed *)
Definition pfin (h p0 e : N) (s : pfrom) : pfrom :=
  (pclr s) <| fb_params := mkpf p0 (e - p0) |> <| fb_v := mkpf 0 e |> <| fb_state := FbFIN |> <| fb_soffs := 0 |> <| fb_type := h |>.
Definition pbase (lu p0 pe q0 e : N) : pfrom :=
  mkpfrom pf0 (mkpf 1 lu) pf0 false false false 0 0 0 (mkpf p0 0) (mkpf 0 (lu + 2)) EOk 0 FbParamValEnd 0 p0 pe q0 e.

Section Param.
  Variable h : N.
  Let it := fb_iter h.

  Lemma pname_loop s pre c r i : fb_state s = FbParamName -> (po (fb_params s) =? 0) = false -> pchar c -> it pre (c :: r) i s = Next 1 s.
  Proof.
    intros Hs Hp Hc. unfold it, fb_iter. rewrite Hs. unfold fb_step, fb_gP, pchar in *. rewrite Hc. cbn [is_st_name]. rewrite Hp. reflexivity.
  Qed.

  Theorem spec_uri_param (uri : list byte) n0 (name : list byte) v0 (value : list byte) x tail :
    Forall uchar uri -> pchar n0 -> Forall pchar name -> vchar v0 -> Forall vchar value -> is_sp x = false ->
    let lu := nnat (length uri) in let ln := nnat (length (n0 :: name)) in let lv := nnat (length (v0 :: value)) in
    let p0 := lu + 3 in let pe := p0 + ln in let q0 := pe + 1 in let e := q0 + lv in
    parse_nameaddr h (60 :: uri ++ 62 :: 59 :: (n0 :: name) ++ 61 :: (v0 :: value) ++ CR :: LF :: x :: tail) 0 pfrom0
    = Done (e + 2) EOk (pfin h p0 e (apply_param (n0 :: name) (v0 :: value) (pbase lu p0 pe q0 e))).
  Proof.
    intros Hu Hn0 Hname Hv0 Hval Hx lu ln lv p0 pe q0 e. unfold parse_nameaddr, parse, zinit. cbn [N.to_nat firstn skipn rev app]. fold it.
    set (s1 := mkpfrom pf0 pf0 pf0 false false false 0 0 0 pf0 (mkpf 0 0) EOk 0 FbURI (0 + 1) 0 0 0 0).
    rewrite (run_one it [] 60 _ 0 pfrom0 s1) by reflexivity.
    rewrite (run_selfloop it uchar s1 ltac:(intros p c r j Hc; apply uri_loop; [reflexivity|exact Hc]) uri [60] _ (0 + 1) Hu). subst s1.
    remember (0 + 1 + nnat (length uri)) as i1 eqn:Ei1.
    (* '>' *)
    rewrite (run_one it _ 62 _ i1 _ (mkpfrom pf0 (mkpf 1 (i1 - 1)) pf0 false false false 0 0 0 pf0 (mkpf 0 (i1 + 1)) EOk 0 FbURIFound 1 0 0 0 0)).
    2:{ unfold it, fb_iter. cbn [fb_state]. unfold fb_step, fb_gURI. replace (ccls_of 62) with KGt by reflexivity. unfold pf_set, pf_extend. cbn [fb_soffs fb_v po pl].
        replace (i1 <? 0 + 1) with false by lia. replace (i1 + 1 <? 0) with false by lia. rewrite ?N.sub_0_r. replace (0 + 1) with 1 by reflexivity. reflexivity. }
    (* ';' *)
    rewrite (run_one it _ 59 _ (i1 + 1) _ (mkpfrom pf0 (mkpf 1 (i1 - 1)) pf0 false false false 0 0 0 pf0 (mkpf 0 (i1 + 1)) EOk 0 FbNewParam 0 0 0 0 0)) by reflexivity.
    (* first byte of the name *)
    remember (i1 + 1 + 1) as a0 eqn:Ea0.
    set (s2 := mkpfrom pf0 (mkpf 1 (i1 - 1)) pf0 false false false 0 0 0 (mkpf a0 0) (mkpf 0 (i1 + 1)) EOk 0 FbParamName 0 a0 0 0 0).
    rewrite (run_one it _ n0 _ a0 _ s2).
    2:{ unfold it, fb_iter. cbn [fb_state]. unfold fb_step, fb_gP. unfold pchar in Hn0. rewrite Hn0. cbn [is_st_name st_poss st_paramname]. reflexivity. }
    assert (Ha0 : (a0 =? 0) = false) by lia.
    rewrite (run_selfloop it pchar s2 ltac:(intros p c r j Hc; apply pname_loop; [reflexivity|exact Ha0|exact Hc]) name _ _ (a0 + 1) Hname).
    remember (a0 + 1 + nnat (length name)) as b0 eqn:Eb0.
    (* '=' *)
    rewrite (run_one it _ 61 _ b0 s2 (mkpfrom pf0 (mkpf 1 (i1 - 1)) pf0 false false false 0 0 0 (mkpf a0 0) (mkpf 0 (i1 + 1)) EOk 0 FbNewParamVal 0 a0 b0 (b0 + 1) 0)) by reflexivity.
    (* the value *)
    remember (b0 + 1) as c0 eqn:Ec0.
    set (s3 := mkpfrom pf0 (mkpf 1 (i1 - 1)) pf0 false false false 0 0 0 (mkpf a0 0) (mkpf 0 (i1 + 1)) EOk 0 FbParamVal 0 a0 b0 c0 0).
    rewrite (run_one it _ v0 _ c0 _ s3).
    2:{ unfold it, fb_iter. cbn [fb_state]. unfold fb_step, fb_gV, vchar in *. cbn [is_st_new st_poss st_val]. destruct (ccls_of v0); try contradiction; reflexivity. }
    rewrite (run_selfloop it vchar s3 ltac:(intros p c r j Hc; apply val_loop; [reflexivity|exact Hc]) value _ _ (c0 + 1) Hval).
    remember (c0 + 1 + nnat (length value)) as e0 eqn:Ee0.
    (* the offsets of the statement *)
    assert (Ep0 : a0 = p0) by (subst p0 lu; unfold nnat in *; lia).
    assert (Epe : b0 = pe) by (subst pe ln; cbn [length]; unfold nnat in *; lia).
    assert (Eq0 : c0 = q0) by (subst q0; lia).
    assert (Ee : e0 = e) by (subst e lv; cbn [length]; unfold nnat in *; lia).
    assert (Elu : i1 - 1 = lu) by (subst lu; lia).
    (* end of line: the parameter is closed and recognised *)
    rewrite run_after.
    match goal with |- context [it ?p (CR :: LF :: x :: tail) e0 s3] => set (pre := p) end.
    assert (HB : rev pre ++ CR :: LF :: x :: tail = (60 :: uri ++ [62; 59]) ++ (n0 :: name) ++ (61 :: (v0 :: value) ++ CR :: LF :: x :: tail)).
    { subst pre. repeat (rewrite ?rev_app_distr, ?rev_involutive; cbn [rev app]). repeat (rewrite <- ?app_assoc; cbn [app]). reflexivity. }
    assert (HB2 : rev pre ++ CR :: LF :: x :: tail = (60 :: uri ++ [62; 59] ++ (n0 :: name) ++ [61]) ++ (v0 :: value) ++ (CR :: LF :: x :: tail)).
    { rewrite HB. cbn [app]. repeat (rewrite <- ?app_assoc; cbn [app]). reflexivity. }
    assert (Hlen : e0 = nnat (length pre)).
    { subst pre. repeat (rewrite ?app_length, ?rev_length; cbn [length]). unfold nnat in *. lia. }
    assert (Z1 : zslice pre (CR :: LF :: x :: tail) e0 a0 b0 = Some (n0 :: name)).
    { pose proof (zslice_mid pre (CR :: LF :: x :: tail) e0 _ _ _ HB Hlen) as Z. cbn [length] in Z. rewrite app_length in Z. cbn [length] in Z.
      match type of Z with zslice _ _ _ ?a _ = _ => replace a with a0 in Z by (unfold nnat in *; lia) end.
      replace (a0 + nnat (S (length name))) with b0 in Z by (unfold nnat in *; lia). exact Z. }
    assert (Z2 : zslice pre (CR :: LF :: x :: tail) e0 c0 e0 = Some (v0 :: value)).
    { pose proof (zslice_mid pre (CR :: LF :: x :: tail) e0 _ _ _ HB2 Hlen) as Z. cbn [length] in Z. repeat (rewrite app_length in Z; cbn [length] in Z).
      match type of Z with zslice _ _ _ ?a _ = _ => replace a with c0 in Z by (unfold nnat in *; lia) end.
      replace (c0 + nnat (S (length value))) with e0 in Z by (unfold nnat in *; lia). exact Z. }
    set (sb := pbase lu p0 pe q0 e).
    replace (it pre (CR :: LF :: x :: tail) e0 s3) with (Ret (e0 + nnat 0 + nnat 2) EOk (pfin h p0 e (apply_param (n0 :: name) (v0 :: value) sb)) : ires pfrom).
    2:{ unfold it, fb_iter. cbn [fb_state s3]. unfold fb_step, fb_gV. rewrite cr_class. unfold fb_lws_b. rewrite (eol_lws x tail Hx). cbn [is_st_new st_poss st_valend].
        change (s3 <| fb_state := FbParamValEnd |> <| fb_vend := e0 |>)
          with (mkpfrom pf0 (mkpf 1 (i1 - 1)) pf0 false false false 0 0 0 (mkpf a0 0) (mkpf 0 (i1 + 1)) EOk 0 FbParamValEnd 0 a0 b0 c0 e0).
        replace (mkpfrom pf0 (mkpf 1 (i1 - 1)) pf0 false false false 0 0 0 (mkpf a0 0) (mkpf 0 (i1 + 1)) EOk 0 FbParamValEnd 0 a0 b0 c0 e0) with sb
          by (subst sb; unfold pbase; rewrite Ep0, Epe, Eq0, Ee, Elu; f_equal; f_equal; subst lu; lia).
        unfold fb_endOfHdr, fb_close. replace (fb_state sb) with FbParamValEnd by reflexivity.
        rewrite (setFromParamVal_some pre _ e0 sb (n0 :: name) (v0 :: value)); cbn [sb pbase fb_pstart fb_pend fb_vstart fb_vend];
          [|subst pe ln; cbn [length]; unfold nnat; lia|subst e lv; cbn [length]; unfold nnat; lia
           |rewrite <- Ep0, <- Epe; exact Z1|rewrite <- Eq0, <- Ee; exact Z2].
        destruct (apply_param_frame (n0 :: name) (v0 :: value) sb) as (F1 & F2 & F3).
        set (X := apply_param (n0 :: name) (v0 :: value) sb) in *.
        assert (G1 : fb_params (pclr X) = mkpf p0 0) by (destruct X; cbn in *; exact F1).
        assert (G2 : fb_v (pclr X) = mkpf 0 (lu + 2)) by (destruct X; cbn in *; exact F2).
        fold (pclr X). rewrite G1, G2. cbn [orb]. unfold pf_extend. cbn [po pl].
        replace (e0 <? p0) with false by (subst p0 e0 c0 b0 a0; unfold nnat in *; lia). replace (e0 <? 0) with false by lia.
        rewrite N.sub_0_r, Ee. reflexivity. }
    cbn [after]. f_equal. unfold nnat. lia.
  Qed.
End Param.

(* ---- the numeric parameters ------------------------------------------------------------------------------------------------------------ *)
Lemma digit_vchar c : is_digit c = true -> vchar c.
Proof.
  intros H. unfold vchar, ccls_of, is_ws, is_sp, is_crlf, is_cr, is_lf, is_digit, SP, HT, CR, LF in *.
  repeat match goal with |- context [if ?b then _ else _] => let E := fresh in destruct b eqn:E; try lia end; exact I.
Qed.
Lemma digits_vchar ds : all_digits ds -> Forall vchar ds.
Proof. unfold all_digits. intros H. rewrite forallb_forall in H. apply Forall_forall. intros c Hc. apply digit_vchar, H, Hc. Qed.
Lemma dot_vchar : vchar 46. Proof. exact I. Qed.

Lemma pfin_q h p0 e s : fb_q (pfin h p0 e s) = fb_q s /\ fb_perr (pfin h p0 e s) = fb_perr s /\ fb_expires (pfin h p0 e s) = fb_expires s /\
  fb_hasexp (pfin h p0 e s) = fb_hasexp s /\ fb_lr (pfin h p0 e s) = fb_lr s /\ fb_tag (pfin h p0 e s) = fb_tag s /\ fb_uri (pfin h p0 e s) = fb_uri s.
Proof. destruct s; cbn; repeat split; reflexivity. Qed.

(* "<" uri ">;q=" digits "." digits: q is the value in thousandths, or the value is flagged and q stays 0 *)
Theorem spec_uri_q h (uri : list byte) u0 (us ds : list byte) x tail :
  Forall uchar uri -> all_digits (u0 :: us) -> all_digits ds -> (length ds <= 3)%nat -> is_sp x = false ->
  exists o s', parse_nameaddr h (60 :: uri ++ 62 :: 59 :: 113 :: 61 :: ((u0 :: us) ++ 46 :: ds) ++ CR :: LF :: x :: tail) 0 pfrom0 = Done o EOk s' /\
    fb_uri s' = mkpf 1 (nnat (length uri)) /\
    if (MaxU64 <? dec (u0 :: us)) || (1 <? dec (u0 :: us)) || ((dec (u0 :: us) =? 1) && (0 <? dec ds))
    then fb_q s' = 0 /\ fb_perr s' <> EOk
    else fb_q s' = thousandths (u0 :: us) ds /\ fb_perr s' = EOk.
Proof.
  intros Hu Hus Hds Hl Hx.
  assert (Hv0 : vchar u0) by (apply digit_vchar; unfold all_digits in Hus; cbn in Hus; apply andb_true_iff in Hus; apply Hus).
  assert (Hval : Forall vchar (us ++ 46 :: ds)).
  { apply Forall_app. split; [apply digits_vchar; unfold all_digits in *; cbn in Hus; apply andb_true_iff in Hus; apply Hus|].
    constructor; [exact dot_vchar|apply digits_vchar; exact Hds]. }
  pose proof (spec_uri_param h uri 113 [] u0 (us ++ 46 :: ds) x tail Hu eq_refl (Forall_nil _) Hv0 Hval Hx) as H. cbv zeta in H.
  cbn [app] in H. eexists. eexists. split; [exact H|].
  match goal with |- context [pfin h ?a ?b ?X] => destruct (pfin_q h a b X) as (Q1 & Q2 & _ & _ & _ & _ & Q7); rewrite Q1, Q2, Q7 end.
  unfold apply_param. replace (eqb_nocase [113] str_tag) with false by reflexivity. replace (eqb_nocase [113] str_expires) with false by reflexivity.
  replace (eqb_nocase [113] str_q) with true by reflexivity.
  change (u0 :: us ++ 46 :: ds) with ((u0 :: us) ++ 46 :: ds). rewrite (set_q_dot (u0 :: us) ds _ Hus Hds Hl).
  split; [destruct (MaxU64 <? _); [|destruct (_ || _)]; reflexivity|].
  destruct (MaxU64 <? dec (u0 :: us)); [cbn; split; [reflexivity|discriminate]|]. cbn [orb].
  destruct ((1 <? dec (u0 :: us)) || ((dec (u0 :: us) =? 1) && (0 <? dec ds))); cbn; split; try reflexivity; discriminate.
Qed.

(* "<" uri ">;expires=" digits: the value of the digits, saturated at 2^32 - 1 *)
Theorem spec_uri_expires h (uri : list byte) d0 (ds : list byte) x tail :
  Forall uchar uri -> all_digits (d0 :: ds) -> is_sp x = false ->
  exists o s', parse_nameaddr h (60 :: uri ++ 62 :: 59 :: 101 :: 120 :: 112 :: 105 :: 114 :: 101 :: 115 :: 61 :: (d0 :: ds) ++ CR :: LF :: x :: tail) 0 pfrom0 = Done o EOk s' /\
    fb_hasexp s' = true /\ fb_expires s' = N.min (dec (d0 :: ds)) MaxU32 /\ fb_perr s' = EOk.
Proof.
  intros Hu Hds Hx.
  assert (Hv0 : vchar d0) by (apply digit_vchar; unfold all_digits in Hds; cbn in Hds; apply andb_true_iff in Hds; apply Hds).
  assert (Hval : Forall vchar ds) by (apply digits_vchar; unfold all_digits in *; cbn in Hds; apply andb_true_iff in Hds; apply Hds).
  pose proof (spec_uri_param h uri 101 [120; 112; 105; 114; 101; 115] d0 ds x tail Hu eq_refl ltac:(repeat constructor) Hv0 Hval Hx) as H. cbv zeta in H.
  cbn [app] in H. eexists. eexists. split; [exact H|].
  match goal with |- context [pfin h ?a ?b ?X] => destruct (pfin_q h a b X) as (_ & Q2 & Q3 & Q4 & _) ; rewrite Q2, Q3, Q4 end.
  unfold apply_param. replace (eqb_nocase [101; 120; 112; 105; 114; 101; 115] str_tag) with false by reflexivity.
  replace (eqb_nocase [101; 120; 112; 105; 114; 101; 115] str_expires) with true by reflexivity.
  pose proof (contact_expires_saturates (d0 :: ds) Hds) as He. unfold expires_of in He.
  destruct (pUInt64Val (d0 :: ds)) as [ev ee]. cbn. split; [reflexivity|]. split; [exact He|reflexivity].
Qed.
