(* C05 / C07, for every input: a header value reported by ParseHdrLine (generic value) is trimmed - it is
   empty, or its first and its last byte are not white space (SP, HT, CR, LF).  An invariant of the
   header-line loop carried by a position-aware variant of the invariant rule. *)
From Sipsp Require Import RunLemmas Safe Resume Ext ExtLeaf ZSlice Harness ExtFLine ExtAdv ExtHdrLine FLineSpec HdrSpec FLineConv.
From Coq Require Import ZifyN ZifyNat ZifyBool.
From RecordUpdate Require Import RecordUpdate.

(* ---- the invariant rule with the zipper visible at the return ------------------------------------------------------------------- *)
Section RunQ.
  Context {St : Type}.
  Variable iter : list byte -> list byte -> N -> St -> ires St.
  Variable P : list byte -> N -> St -> Prop.
  Variable Q : list byte -> list byte -> N -> N -> err -> St -> Prop.
  Hypothesis step : forall pre rest i s, i = nnat (length pre) -> P pre i s ->
    match iter pre rest i s with
    | Next k s' => (0 < k)%nat -> (k <= length rest)%nat -> P (zpre k pre rest) (i + nnat k) s'
    | Ret o e s' => Q pre rest i o e s'
    | IPanic => True
    end.
  Lemma run_invQ : forall rest pre i s, i = nnat (length pre) -> P pre i s ->
    match run iter pre rest i 0 s with
    | Done o e s' => exists pre' rest' i', i' = nnat (length pre') /\ rev pre' ++ rest' = rev pre ++ rest /\ Q pre' rest' i' o e s'
    | _ => True
    end.
  Proof.
    intros rest. remember (length rest) as n eqn:Hn. revert rest Hn.
    induction n as [n IH] using lt_wf_ind. intros rest Hn pre i s Hi HP.
    rewrite run_after. pose proof (step pre rest i s Hi HP) as H.
    destruct (iter pre rest i s) as [k s'|o e s'|]; [| |exact I].
    - unfold after. destruct k as [|k]; [exact I|]. destruct (S k <=? length rest)%nat eqn:Ek; [|exact I]. apply Nat.leb_le in Ek.
      specialize (H ltac:(lia) Ek).
      assert (Hi' : i + nnat (S k) = nnat (length (zpre (S k) pre rest))).
      { unfold zpre. rewrite app_length, rev_length, firstn_length. unfold nnat in *. lia. }
      specialize (IH (length (zrest (S k) rest)) ltac:(rewrite zrest_length; lia) (zrest (S k) rest) eq_refl _ _ s' Hi' H).
      destruct (run iter (zpre (S k) pre rest) (zrest (S k) rest) (i + nnat (S k)) 0 s') as [o e s''| |]; auto.
      destruct IH as (p' & r' & i' & A & B & C). exists p', r', i'. split; [exact A|]. split; [|exact C].
      rewrite B. unfold zpre, zrest. rewrite rev_app_distr, rev_involutive, <- app_assoc, firstn_skipn. reflexivity.
    - cbn [after]. exists pre, rest, i. auto.
  Qed.
End RunQ.

(* ---- bytes already read ------------------------------------------------------------------------------------------------------------------ *)
Definition bpre (pre : list byte) (j : N) : option byte := nth_error (rev pre) (N.to_nat j).
Lemma bpre_buf pre rest j : j < nnat (length pre) -> nth_error (rev pre ++ rest) (N.to_nat j) = bpre pre j.
Proof. intros H. unfold bpre. apply nth_error_app1. rewrite rev_length. unfold nnat in *. lia. Qed.
Lemma bpre_zpre k pre rest j : j < nnat (length pre) -> bpre (zpre k pre rest) j = bpre pre j.
Proof.
  intros H. unfold bpre, zpre. rewrite rev_app_distr, rev_involutive. apply nth_error_app1. rewrite rev_length. unfold nnat in *. lia.
Qed.
Lemma bpre_new k pre rest k' : (k' < k)%nat -> (k <= length rest)%nat ->
  bpre (zpre k pre rest) (nnat (length pre) + nnat k') = nth_error rest k'.
Proof.
  intros H1 H2. unfold bpre, zpre. rewrite rev_app_distr, rev_involutive, nth_error_app2 by (rewrite rev_length; unfold nnat; lia).
  rewrite rev_length. replace (N.to_nat (nnat (length pre) + nnat k') - length pre)%nat with k' by (unfold nnat; lia).
  clear H2. revert k k' H1. induction rest as [|c r IH]; intros [|k] [|k'] H; cbn; try lia; auto. apply IH. lia.
Qed.
Lemma bpre_last pre c : bpre (c :: pre) (nnat (length pre)) = Some c.
Proof.
  unfold bpre. cbn [rev]. rewrite nth_error_app2 by (rewrite rev_length; unfold nnat; lia).
  rewrite rev_length. replace (N.to_nat (nnat (length pre)) - length pre)%nat with 0%nat by (unfold nnat; lia). reflexivity.
Qed.

(* ---- what the skippers leave behind ----------------------------------------------------------------------------------------------------- *)
Lemma skipLWS_at_ok_nonws ie : forall r k n, skipLWS_at ie r k = LOk n ->
  (k <= n)%nat /\ exists c, nth_error r (n - k) = Some c /\ is_ws c = false.
Proof.
  intros r. remember (length r) as m eqn:Hm. revert r Hm.
  induction m as [m IH] using lt_wf_ind. intros r Hm k n. destruct r as [|c r1]; cbn [skipLWS_at]; [discriminate|].
  cbn [length] in Hm.
  assert (Step : forall r' k', (length r' < m)%nat -> (k < k')%nat -> (exists a, c :: r1 = a ++ r' /\ length a = (k' - k)%nat) ->
            skipLWS_at ie r' k' = LOk n -> (k <= n)%nat /\ exists c0, nth_error (c :: r1) (n - k) = Some c0 /\ is_ws c0 = false).
  { intros r' k' Hl Hk (a & Ea & La) H. destruct (IH (length r') Hl r' eq_refl k' n H) as (Hn & c0 & Hc & Hw).
    split; [lia|]. exists c0. split; [|exact Hw]. rewrite Ea, nth_error_app2 by lia. replace (n - k - length a)%nat with (n - k')%nat by lia. exact Hc. }
  destruct (is_sp c) eqn:Esp.
  { apply (Step r1 (S k)); [lia|lia|]. exists [c]. split; [reflexivity|cbn [length]; lia]. }
  destruct (is_cr c) eqn:Ecr.
  { destruct r1 as [|d r2]; [discriminate|]. cbn [length] in *.
    destruct (is_lf d).
    { destruct r2 as [|e r3]; [destruct ie; discriminate|]. cbn [length] in *.
      destruct (is_sp e); [|discriminate].
      apply (Step (e :: r3) (k + 2)%nat); [cbn [length]; lia|lia|]. exists [c; d]. split; [reflexivity|cbn [length]; lia]. }
    destruct (is_sp d); [|discriminate].
    apply (Step (d :: r2) (k + 1)%nat); [cbn [length]; lia|lia|]. exists [c]. split; [reflexivity|cbn [length]; lia]. }
  destruct (is_lf c) eqn:Elf.
  { destruct r1 as [|d r2]; [discriminate|]. cbn [length] in *. destruct (is_sp d); [|discriminate].
    apply (Step (d :: r2) (k + 1)%nat); [cbn [length]; lia|lia|]. exists [c]. split; [reflexivity|cbn [length]; lia]. }
  intros H. injection H as <-. split; [lia|]. exists c. rewrite Nat.sub_diag. split; [reflexivity|].
  unfold is_ws, is_crlf. rewrite Esp, Ecr, Elf. reflexivity.
Qed.
Lemma skipLWS_ok_nonws r n : skipLWS false r = LOk n -> exists c, nth_error r n = Some c /\ is_ws c = false.
Proof. intros H. destruct (skipLWS_at_ok_nonws false r 0 n H) as (_ & c & Hc & Hw). rewrite Nat.sub_0_r in Hc. eauto. Qed.

Lemma tok_nth (t : list byte) j c : tok t -> nth_error t j = Some c -> is_ws c = false.
Proof. intros Ht Hn. unfold tok in Ht. rewrite Forall_forall in Ht. apply Ht. eapply nth_error_In. exact Hn. Qed.

(* ---- the invariant of the header-line loop (generic value) ------------------------------------------------------------------------- *)
Definition nonws_pre (pre : list byte) (j : N) : Prop := exists c, bpre pre j = Some c /\ is_ws c = false.
Definition prevalue (s : hst) : bool := match s with HInit | HName | HNameEnd | HBodyStart => true | _ => false end.
Definition T (pre : list byte) (i : N) (st : hline) : Prop :=
  hx_pv st = None /\
  match h_state (hx_h st) with
  | HInit | HName | HNameEnd | HBodyStart => pl (h_val (hx_h st)) = 0
  | HVal => po (h_val (hx_h st)) < i /\ nonws_pre pre (po (h_val (hx_h st))) /\ nonws_pre pre (i - 1)
  | HValEnd => po (h_val (hx_h st)) < pf_end (h_val (hx_h st)) /\ pf_end (h_val (hx_h st)) <= i /\
               nonws_pre pre (po (h_val (hx_h st))) /\ nonws_pre pre (pf_end (h_val (hx_h st)) - 1)
  | _ => True
  end.
Definition trimmed (buf : list byte) (v : pf) : Prop :=
  pl v = 0 \/ ((exists c, nth_error buf (N.to_nat (po v)) = Some c /\ is_ws c = false) /\
               (exists c, nth_error buf (N.to_nat (pf_end v - 1)) = Some c /\ is_ws c = false)).
Definition TQ (pre rest : list byte) (i o : N) (e : err) (st : hline) : Prop :=
  e = EOk -> trimmed (rev pre ++ rest) (h_val (hx_h st)) /\ (pl (h_val (hx_h st)) = 0 \/ pf_end (h_val (hx_h st)) <= o) /\ hx_pv st = None.

(* the phases before the value leave it unset *)
Definition pre_res (r : ires hline) : Prop :=
  match r with
  | Next _ st' => hx_pv st' = None /\ pl (h_val (hx_h st')) = 0 /\ prevalue (h_state (hx_h st')) = true
  | Ret _ e _ => e <> EOk
  | IPanic => True
  end.
Lemma colon_pre pre rest i k st : hx_pv st = None -> pl (h_val (hx_h st)) = 0 -> pre_res (hl_colon pre rest i k st).
Proof.
  intros Hp Hv. rewrite (colon_none pre rest i k st Hp). destruct (zget _ _ _ _); [|exact I].
  destruct st as [h pv]. destruct h. cbn in *. auto.
Qed.
Lemma name_ph_pre pre rest i st : hx_pv st = None -> pl (h_val (hx_h st)) = 0 -> pre_res (hl_name_ph pre rest i st).
Proof.
  intros Hp Hv. unfold hl_name_ph. cbv zeta. destruct (skipn _ rest) as [|c r]; [cbn; discriminate|].
  destruct (is_sp c).
  - destruct (pf_extend _ _) as [n|]; [|exact I]. destruct (pf_empty n); [cbn; discriminate|].
    destruct st as [h pv]. destruct h. cbn in *. auto.
  - destruct (c =? 58); [|cbn; discriminate]. destruct (pf_extend _ _) as [n|]; [|exact I]. destruct (pf_empty n); [cbn; discriminate|].
    apply colon_pre; destruct st as [h pv]; destruct h; cbn in *; auto.
Qed.
Lemma pre_res_T pre rest i r : pre_res r ->
  match r with
  | Next k st' => (0 < k)%nat -> (k <= length rest)%nat -> T (zpre k pre rest) (i + nnat k) st'
  | Ret o e st' => TQ pre rest i o e st'
  | IPanic => True
  end.
Proof.
  destruct r as [k st'|o e st'|]; cbn; [|intros He E; congruence|auto].
  intros (H1 & H2 & H3) _ _. split; [exact H1|]. destruct (h_state (hx_h st')); try discriminate; exact H2.
Qed.

Lemma T_step pre rest i st : i = nnat (length pre) -> T pre i st ->
  match hl_iter pre rest i st with
  | Next k st' => (0 < k)%nat -> (k <= length rest)%nat -> T (zpre k pre rest) (i + nnat k) st'
  | Ret o e st' => TQ pre rest i o e st'
  | IPanic => True
  end.
Proof.
  intros Hi [Hp Hs]. destruct rest as [|c r].
  { unfold hl_iter. intros E; discriminate E. }
  destruct (h_state (hx_h st)) eqn:Est;
    try (rewrite (hit_nopv pre c r i st) by (try rewrite Est; try reflexivity; try assumption); exact I).
  - (* HInit *)
    rewrite (hit_init pre c r i st Est).
    destruct (is_cr c); [destruct r; intros E; discriminate E|]. destruct (is_lf c); [intros E; discriminate E|].
    destruct (pf_set i i) as [n|]; [|exact I]. cbv beta iota.
    apply pre_res_T. apply name_ph_pre; destruct st as [h pv]; destruct h; cbn in *; auto.
  - rewrite (hit_name pre _ i st Est). apply pre_res_T. apply name_ph_pre; assumption.
  - rewrite (hit_nameend pre _ i st Est). unfold hl_nameend. cbv zeta. destruct (skipn _ (c :: r)) as [|d r']; [intros E; discriminate E|].
    destruct (d =? 58); [|intros E; discriminate E]. apply pre_res_T. apply colon_pre; assumption.
  - (* HBodyStart: the value starts at the first byte after the white space, or is empty *)
    rewrite (hit_bstart pre _ i st Est). unfold hl_bstart.
    destruct (skipLWS false (c :: r)) as [k|k crl|k] eqn:El; [| |intros E; discriminate E].
    + destruct (skipLWS_ok_nonws _ _ El) as (c0 & Hc0 & Hw0).
      unfold pf_set. rewrite N.ltb_irrefl, N.sub_diag. cbv beta iota. intros _ Hk.
      split; [destruct st as [h pv]; exact Hp|].
      replace (h_state (hx_h (st <| hx_h := (hx_h st) <| h_state := HVal |> <| h_val := mkpf (i + nnat k) 0 |> |>))) with HVal by (destruct st as [h pv]; destruct h; reflexivity).
      replace (h_val (hx_h (st <| hx_h := (hx_h st) <| h_state := HVal |> <| h_val := mkpf (i + nnat k) 0 |> |>))) with (mkpf (i + nnat k) 0) by (destruct st as [h pv]; destruct h; reflexivity).
      cbn [po]. split; [unfold nnat; lia|]. rewrite Hi.
      assert (Hb : bpre (zpre (S k) pre (c :: r)) (nnat (length pre) + nnat k) = Some c0) by (rewrite bpre_new by lia; exact Hc0).
      split; [exists c0; auto|]. exists c0. split; [|exact Hw0].
      replace (nnat (length pre) + nnat (S k) - 1) with (nnat (length pre) + nnat k) by (unfold nnat; lia). exact Hb.
    + intros _. assert (Hz : pl (h_val (hx_h (st <| hx_h := (hx_h st) <| h_state := HFIN |> |>))) = 0) by (destruct st as [h pv]; destruct h; cbn in *; exact Hs).
      split; [left; exact Hz|]. split; [left; exact Hz|destruct st as [h pv]; exact Hp].
  - (* HVal: the token, then the white space after it *)
    rewrite (hit_val pre _ i st Est). unfold hl_val. cbv zeta.
    destruct Hs as (Hlt & (c1 & Hc1 & Hw1) & (c2 & Hc2 & Hw2)).
    destruct (skipToken_split (c :: r)) as (E1 & T1 & _). set (k := skipToken (c :: r)) in *.
    destruct (skipn k (c :: r)) as [|d r'] eqn:Sk; [intros E; discriminate E|].
    unfold pf_extend. replace (i + nnat k <? po (h_val (hx_h st))) with false by lia. cbv beta iota.
    set (v1 := mkpf (po (h_val (hx_h st))) (i + nnat k - po (h_val (hx_h st)))).
    assert (Lk : length (firstn k (c :: r)) = k) by (apply firstn_length_span).
    (* the last byte of the token: the one before i + k *)
    assert (Hend : forall rest', exists ce, nth_error (rev pre ++ firstn k (c :: r) ++ rest') (N.to_nat (i + nnat k - 1)) = Some ce /\ is_ws ce = false).
    { intros rest'. destruct k as [|k'].
      - exists c2. split; [|exact Hw2]. replace (i + nnat 0 - 1) with (i - 1) by (unfold nnat; lia).
        unfold bpre in Hc2. rewrite nth_error_app1; [exact Hc2|]. rewrite rev_length. unfold nnat in *. lia.
      - destruct (nth_error (firstn (S k') (c :: r)) k') as [ce|] eqn:En; [|apply nth_error_None in En; lia].
        exists ce. split; [|exact (tok_nth _ _ _ T1 En)].
        rewrite nth_error_app2 by (rewrite rev_length; unfold nnat in *; lia). rewrite rev_length.
        replace (N.to_nat (i + nnat (S k') - 1) - length pre)%nat with k' by (unfold nnat in *; lia).
        rewrite nth_error_app1 by lia. exact En. }
    unfold hl_valend. destruct (skipLWS false (d :: r')) as [k2|k2 crl|k2] eqn:El; [| |intros E; discriminate E].
    + (* another token follows *)
      destruct (skipLWS_ok_nonws _ _ El) as (c0 & Hc0 & Hw0). intros _ Hk.
      split; [destruct st as [h pv]; exact Hp|].
      replace (h_state (hx_h (st <| hx_h := (hx_h st) <| h_val := v1 |> <| h_state := HValEnd |> <| h_state := HVal |> |>))) with HVal by (destruct st as [h pv]; destruct h; reflexivity).
      replace (h_val (hx_h (st <| hx_h := (hx_h st) <| h_val := v1 |> <| h_state := HValEnd |> <| h_state := HVal |> |>))) with v1 by (destruct st as [h pv]; destruct h; reflexivity).
      cbn [po v1]. split; [unfold nnat; lia|]. split.
      * exists c1. split; [|exact Hw1]. rewrite bpre_zpre by lia. exact Hc1.
      * exists c0. split; [|exact Hw0].
        replace (i + nnat (S (k + k2)) - 1) with (nnat (length pre) + nnat (k + k2)) by (unfold nnat in *; lia).
        rewrite bpre_new by lia. rewrite E1. rewrite nth_error_app2 by lia. rewrite Lk. replace (k + k2 - k)%nat with k2 by lia. exact Hc0.
    + (* the end of the line *)
      intros _.
      replace (h_val (hx_h (st <| hx_h := (hx_h st) <| h_val := v1 |> <| h_state := HValEnd |> <| h_state := HFIN |> |>))) with v1 by (destruct st as [h pv]; destruct h; reflexivity).
      split; [|split; [right; unfold pf_end; cbn [po pl v1]; unfold nnat; lia|destruct st as [h pv]; exact Hp]].
      right. unfold pf_end. cbn [po pl v1]. split.
      * exists c1. split; [|exact Hw1]. rewrite bpre_buf by lia. exact Hc1.
      * replace (po (h_val (hx_h st)) + (i + nnat k - po (h_val (hx_h st))) - 1) with (i + nnat k - 1) by lia.
        assert (Eb : rev pre ++ c :: r = rev pre ++ firstn k (c :: r) ++ d :: r') by (f_equal; exact E1).
        rewrite Eb. apply Hend.
  - (* HValEnd: a resumed line, after the last token *)
    rewrite (hit_valend pre _ i st Est). unfold hl_valend.
    destruct Hs as (Hlt & Hle & (c1 & Hc1 & Hw1) & (c2 & Hc2 & Hw2)).
    destruct (skipLWS false (c :: r)) as [k2|k2 crl|k2] eqn:El; [| |intros E; discriminate E].
    + destruct (skipLWS_ok_nonws _ _ El) as (c0 & Hc0 & Hw0). intros _ Hk.
      split; [destruct st as [h pv]; exact Hp|].
      replace (h_state (hx_h (st <| hx_h := (hx_h st) <| h_state := HVal |> |>))) with HVal by (destruct st as [h pv]; destruct h; reflexivity).
      replace (h_val (hx_h (st <| hx_h := (hx_h st) <| h_state := HVal |> |>))) with (h_val (hx_h st)) by (destruct st as [h pv]; destruct h; reflexivity).
      unfold pf_end in *. split; [unfold nnat; lia|]. split.
      * exists c1. split; [|exact Hw1]. rewrite bpre_zpre by lia. exact Hc1.
      * exists c0. split; [|exact Hw0].
        replace (i + nnat (S (0 + k2)) - 1) with (nnat (length pre) + nnat k2) by (unfold nnat in *; lia).
        rewrite bpre_new by lia. exact Hc0.
    + intros _.
      replace (h_val (hx_h (st <| hx_h := (hx_h st) <| h_state := HFIN |> |>))) with (h_val (hx_h st)) by (destruct st as [h pv]; destruct h; reflexivity).
      split; [|split; [right; unfold nnat; lia|destruct st as [h pv]; exact Hp]].
      right. unfold pf_end in *. split.
      * exists c1. split; [|exact Hw1]. rewrite bpre_buf by lia. exact Hc1.
      * exists c2. split; [|exact Hw2]. rewrite bpre_buf by lia. exact Hc2.
  - rewrite (hit_fin pre c r i st Est). intros E; discriminate E.
Qed.

(* ---- the theorem --------------------------------------------------------------------------------------------------------------------------- *)
Theorem hdrline_value_trimmed buf offs o st' : offs <= nnat (length buf) ->
  parse_hdrline buf offs (mkhline hdr0 None) = Done o EOk st' -> trimmed buf (h_val (hx_h st')).
Proof.
  intros Ho H. unfold parse_hdrline, parse in H. unfold zinit in H.
  assert (Hi : offs = nnat (length (rev (firstn (N.to_nat offs) buf)))) by (rewrite rev_length, firstn_length; unfold nnat in *; lia).
  pose proof (run_invQ hl_iter T TQ T_step (skipn (N.to_nat offs) buf) (rev (firstn (N.to_nat offs) buf)) offs (mkhline hdr0 None) Hi
                ltac:(split; reflexivity)) as R.
  rewrite H in R. destruct R as (p' & r' & i' & _ & Eb & HQ). rewrite rev_involutive, firstn_skipn in Eb.
  specialize (HQ eq_refl). rewrite Eb in HQ. apply HQ.
Qed.


(* ---- the header block (ParseHeaders without PHdrVals): every stored value is trimmed ---------------------------------------- *)
From Sipsp Require Import ExtHeaders ExtLists Capacity CapHeaders BlockSpec.

Definition trimmed_pre (pre : list byte) (v : pf) : Prop :=
  pl v = 0 \/ (pf_end v <= nnat (length pre) /\ nonws_pre pre (po v) /\ nonws_pre pre (pf_end v - 1)).
Lemma trimmed_pre_zpre k pre rest v : trimmed_pre pre v -> trimmed_pre (zpre k pre rest) v.
Proof.
  intros [H|(H1 & (c1 & A1 & B1) & (c2 & A2 & B2))]; [left; exact H|].
  destruct (N.eq_dec (pl v) 0) as [E|E]; [left; exact E|]. right. unfold pf_end in *.
  split; [unfold zpre; rewrite app_length, rev_length; unfold nnat in *; lia|].
  split; [exists c1|exists c2]; (split; [|assumption]); rewrite bpre_zpre by lia; assumption.
Qed.
Lemma trimmed_pre_buf pre rest v : trimmed_pre pre v -> trimmed (rev pre ++ rest) v.
Proof.
  intros [H|(H1 & (c1 & A1 & B1) & (c2 & A2 & B2))]; [left; exact H|].
  destruct (N.eq_dec (pl v) 0) as [E|E]; [left; exact E|]. right. unfold pf_end in *.
  split; [exists c1|exists c2]; (split; [|assumption]); rewrite bpre_buf by lia; assumption.
Qed.
Lemma trimmed_buf_pre pre rest k v : (k <= length rest)%nat -> trimmed (rev pre ++ rest) v ->
  pl v = 0 \/ pf_end v <= nnat (length pre) + nnat k -> trimmed_pre (zpre k pre rest) v.
Proof.
  intros Hk [H|((c1 & A1 & B1) & (c2 & A2 & B2))] Hb; [left; exact H|].
  destruct Hb as [E|Hb]; [left; exact E|]. destruct (N.eq_dec (pl v) 0) as [E|E]; [left; exact E|]. right.
  assert (Hz : rev (zpre k pre rest) = rev pre ++ firstn k rest) by (unfold zpre; rewrite rev_app_distr, rev_involutive; reflexivity).
  assert (Hl : length (zpre k pre rest) = (length pre + k)%nat) by (unfold zpre; rewrite app_length, rev_length, firstn_length; lia).
  unfold pf_end in *. split; [rewrite Hl; unfold nnat in *; lia|].
  assert (G : forall j c, j < nnat (length pre) + nnat k -> nth_error (rev pre ++ rest) (N.to_nat j) = Some c -> bpre (zpre k pre rest) j = Some c).
  { intros j c Hj Hn. unfold bpre. rewrite Hz. rewrite <- (firstn_skipn k rest), app_assoc in Hn.
    rewrite nth_error_app1 in Hn; [exact Hn|]. rewrite app_length, rev_length, firstn_length. unfold nnat in *. lia. }
  split; [exists c1|exists c2]; (split; [|assumption]); apply G; try assumption; lia.
Qed.

Definition BT (pre : list byte) (i : N) (st : hdrs_st) : Prop :=
  hs_pv st = None /\ LI (hs_l st) /\
  forall j, (j < N.to_nat (hl_n (hs_l st)))%nat -> (j < length (hl_hdrs (hs_l st)))%nat ->
    trimmed_pre pre (h_val (nth j (hl_hdrs (hs_l st)) hdr0)).
Definition BTQ (pre rest : list byte) (i o : N) (e : err) (st : hdrs_st) : Prop :=
  e = EOk -> forall j, (j < N.to_nat (hl_n (hs_l st)))%nat -> (j < length (hl_hdrs (hs_l st)))%nat ->
    trimmed (rev pre ++ rest) (h_val (nth j (hl_hdrs (hs_l st)) hdr0)).

Lemma BT_step pre rest i st : i = nnat (length pre) -> BT pre i st ->
  match hs_iter pre rest i st with
  | Next k st' => (0 < k)%nat -> (k <= length rest)%nat -> BT (zpre k pre rest) (i + nnat k) st'
  | Ret o e st' => BTQ pre rest i o e st'
  | IPanic => True
  end.
Proof.
  intros Hi (Hp & [Hwf Hslot] & Hst). destruct rest as [|c r]; [intros E; discriminate E|].
  rewrite hs_iter_def. unfold hs_sel. rewrite Hslot, Hp.
  pose proof (run_invQ hl_iter T TQ T_step (c :: r) pre i (mkhline hdr0 None) Hi ltac:(split; reflexivity)) as R.
  destruct (run hl_iter pre (c :: r) i 0 (mkhline hdr0 None)) as [n e x| |]; [|exact I|exact I].
  destruct R as (p' & r' & i' & _ & Eb & HQ). unfold TQ in HQ. rewrite Eb in HQ.
  destruct e; try (unfold hs_post; intros E; discriminate E).
  - (* a header is complete *)
    rewrite hs_post_ok. destruct (HQ eq_refl) as (Ht & Hbd & Hpv). intros Hk0 Hk. set (k := N.to_nat (n - i)) in *.
    assert (En : n = i + nnat k) by (unfold k, nnat in *; lia).
    split; [exact Hpv|]. split; [apply hl_add_LI; split; assumption|]. cbn [hs_l].
    destruct (hl_add_proj (hs_l st) (hx_h x)) as (X1 & X2 & X3 & _ & _).
    intros j Hj Hlen. rewrite X1 in Hj. rewrite (hnext_len (hs_l st) _ (hx_h x) X2 X3) in Hlen.
    rewrite (hnext_nth (hs_l st) _ (hx_h x) X1 X2 j) by lia.
    destruct (j =? N.to_nat (hl_n (hs_l st)))%nat eqn:Ej.
    + apply trimmed_buf_pre; [exact Hk|exact Ht|]. destruct Hbd as [Hz|Hb]; [left; exact Hz|right; lia].
    + apply Nat.eqb_neq in Ej. apply trimmed_pre_zpre. apply Hst; lia.
  - (* the blank line *)
    unfold hs_post. cbv zeta. destruct (0 <? _); [|intros E; discriminate E]. intros _ j Hj Hlen. cbn [hs_l] in *.
    destruct (hl_store_proj (hs_l st) (hx_h x)) as (_ & S2 & _ & S4 & _). rewrite S2 in Hj. rewrite S4 in *.
    assert (Hlen' : (j < length (hl_hdrs (hs_l st)))%nat) by (destruct (hl_is_tmp (hs_l st)); [exact Hlen|rewrite set_nth_len in Hlen; exact Hlen]).
    replace (nth j (if hl_is_tmp (hs_l st) then hl_hdrs (hs_l st) else set_nth (N.to_nat (hl_n (hs_l st))) (hx_h x) (hl_hdrs (hs_l st))) hdr0)
      with (nth j (hl_hdrs (hs_l st)) hdr0) by (destruct (hl_is_tmp (hs_l st)); [reflexivity|symmetry; apply nth_set_nth_ne; lia]).
    apply trimmed_pre_buf. apply Hst; assumption.
Qed.

Theorem headers_values_trimmed buf offs ncap o st' : offs <= nnat (length buf) ->
  parse_headers buf offs (mkhdrs_st (hdrlst_init (repeat hdr0 ncap)) None) = Done o EOk st' ->
  forall j, (j < N.to_nat (hl_n (hs_l st')))%nat -> (j < length (hl_hdrs (hs_l st')))%nat ->
    trimmed buf (h_val (nth j (hl_hdrs (hs_l st')) hdr0)).
Proof.
  intros Ho H. unfold parse_headers, parse in H. unfold zinit in H.
  assert (Hi : offs = nnat (length (rev (firstn (N.to_nat offs) buf)))) by (rewrite rev_length, firstn_length; unfold nnat in *; lia).
  assert (H0 : BT (rev (firstn (N.to_nat offs) buf)) offs (mkhdrs_st (hdrlst_init (repeat hdr0 ncap)) None)).
  { split; [reflexivity|]. split.
    - unfold LI, hdrlst_init. cbn. split; [split; [intros j _; apply nth_repeat|reflexivity]|].
      unfold hl_slot, hl_is_tmp, hl_cap. cbn. destruct (_ <=? 0); [reflexivity|apply nth_repeat].
    - cbn. intros j Hj. lia. }
  pose proof (run_invQ hs_iter BT BTQ BT_step (skipn (N.to_nat offs) buf) (rev (firstn (N.to_nat offs) buf)) offs _ Hi H0) as R.
  rewrite H in R. destruct R as (p' & r' & i' & _ & Eb & HQ). rewrite rev_involutive, firstn_skipn in Eb.
  specialize (HQ eq_refl). rewrite Eb in HQ. exact HQ.
Qed.

(* ---- what the white-space skipper skips is white space ------------------------------------------------------------------------------ *)
Lemma skipLWS_at_skipped_ws ie : forall r k,
  match skipLWS_at ie r k with
  | LOk n => forall j, (j < n - k)%nat -> exists c, nth_error r j = Some c /\ is_ws c = true
  | LEOH n crl => forall j, (j < n - k + crl)%nat -> exists c, nth_error r j = Some c /\ is_ws c = true
  | LMore _ => True
  end.
Proof.
  intros r. remember (length r) as m eqn:Hm. revert r Hm.
  induction m as [m IH] using lt_wf_ind. intros r Hm k. destruct r as [|c r1]; cbn [skipLWS_at]; [exact I|].
  cbn [length] in Hm.
  (* the recursive call on a suffix r' reached after a prefix a of white space, counter k' = k + |a| *)
  assert (Step : forall a r' k', c :: r1 = a ++ r' -> (length r' < m)%nat -> k' = (k + length a)%nat -> Forall (fun x => is_ws x = true) a ->
            match skipLWS_at ie r' k' with
            | LOk n => forall j, (j < n - k)%nat -> exists c0, nth_error (c :: r1) j = Some c0 /\ is_ws c0 = true
            | LEOH n crl => forall j, (j < n - k + crl)%nat -> exists c0, nth_error (c :: r1) j = Some c0 /\ is_ws c0 = true
            | LMore _ => True
            end).
  { intros a r' k' Ea Hl Ek Ha. pose proof (IH (length r') Hl r' eq_refl k') as H. pose proof (skipLWS_at_bounds ie r' k') as Hb.
    assert (G : forall j, (j < length a)%nat -> exists c0, nth_error (c :: r1) j = Some c0 /\ is_ws c0 = true).
    { intros j Hj. rewrite Ea, nth_error_app1 by exact Hj. destruct (nth_error a j) as [x|] eqn:En; [|apply nth_error_None in En; lia].
      exists x. split; [reflexivity|]. rewrite Forall_forall in Ha. apply Ha. eapply nth_error_In. exact En. }
    destruct (skipLWS_at ie r' k') as [n|n crl|n]; [| |exact I].
    - intros j Hj. destruct (lt_dec j (length a)) as [Hlt|Hge]; [apply G; exact Hlt|].
      destruct (H (j - length a)%nat ltac:(lia)) as (c0 & Hc & Hw). exists c0. split; [|exact Hw].
      rewrite Ea, nth_error_app2 by lia. exact Hc.
    - intros j Hj. destruct (lt_dec j (length a)) as [Hlt|Hge]; [apply G; exact Hlt|].
      destruct (H (j - length a)%nat ltac:(lia)) as (c0 & Hc & Hw). exists c0. split; [|exact Hw].
      rewrite Ea, nth_error_app2 by lia. exact Hc. }
  assert (Wsp : forall x, is_sp x = true -> is_ws x = true) by (intros x H; unfold is_ws; rewrite H; reflexivity).
  assert (Wcr : forall x, is_cr x = true -> is_ws x = true) by (intros x H; unfold is_ws, is_crlf; rewrite H; apply orb_true_r).
  assert (Wlf : forall x, is_lf x = true -> is_ws x = true) by (intros x H; unfold is_ws, is_crlf; rewrite H; rewrite !orb_true_r; reflexivity).
  destruct (is_sp c) eqn:Esp.
  { apply (Step [c] r1 (S k)); [reflexivity|lia|cbn; lia|repeat constructor; auto]. }
  destruct (is_cr c) eqn:Ecr.
  { destruct r1 as [|d r2]; [exact I|]. cbn [length] in *.
    destruct (is_lf d) eqn:Elf.
    { destruct r2 as [|e r3].
      - destruct ie; [|exact I]. intros j Hj. destruct j as [|[|j]]; [exists c; auto|exists d; auto|lia].
      - cbn [length] in *. destruct (is_sp e) eqn:Ee.
        + apply (Step [c; d] (e :: r3) (k + 2)%nat); [reflexivity|cbn [length]; lia|cbn; lia|repeat constructor; auto].
        + intros j Hj. destruct j as [|[|j]]; [exists c; auto|exists d; auto|lia]. }
    destruct (is_sp d) eqn:Ed.
    - apply (Step [c] (d :: r2) (k + 1)%nat); [reflexivity|cbn [length]; lia|cbn; lia|repeat constructor; auto].
    - intros j Hj. destruct j as [|j]; [exists c; auto|lia]. }
  destruct (is_lf c) eqn:Elf.
  { destruct r1 as [|d r2]; [exact I|]. cbn [length] in *. destruct (is_sp d) eqn:Ed.
    - apply (Step [c] (d :: r2) (k + 1)%nat); [reflexivity|cbn [length]; lia|cbn; lia|repeat constructor; auto].
    - intros j Hj. destruct j as [|j]; [exists c; auto|lia]. }
  intros j Hj. lia.
Qed.
Lemma skipLWS_ok_ws r n : skipLWS false r = LOk n -> forall j, (j < n)%nat -> exists c, nth_error r j = Some c /\ is_ws c = true.
Proof. intros H j Hj. pose proof (skipLWS_at_skipped_ws false r 0) as X. unfold skipLWS in H. rewrite H in X. apply X. lia. Qed.
Lemma skipLWS_eoh_ws r n crl : skipLWS false r = LEOH n crl -> forall j, (j < n + crl)%nat -> exists c, nth_error r j = Some c /\ is_ws c = true.
Proof. intros H j Hj. pose proof (skipLWS_at_skipped_ws false r 0) as X. unfold skipLWS in H. rewrite H in X. apply X. lia. Qed.

(* ---- the name and the colon (converse direction of C07, every input) ------------------------------------------------------------- *)
Definition range_pre (pre : list byte) (a b : N) (p : byte -> bool) : Prop :=
  forall j, a <= j -> j < b -> exists c, bpre pre j = Some c /\ p c = true.
Definition nmb (c : byte) : bool := negb (is_ws c) && negb (c =? 58).

Lemma range_zpre k pre rest a b p : b <= nnat (length pre) -> range_pre pre a b p -> range_pre (zpre k pre rest) a b p.
Proof. intros Hb H j Ha Hj. destruct (H j Ha Hj) as (c & A & B). exists c. split; [|exact B]. rewrite bpre_zpre by lia. exact A. Qed.
Lemma range_join pre a b c p : range_pre pre a b p -> range_pre pre b c p -> range_pre pre a c p.
Proof. intros H1 H2 j Ha Hc. destruct (N.lt_ge_cases j b) as [H|H]; [apply H1|apply H2]; assumption. Qed.
Lemma range_empty pre a p : range_pre pre a a p.
Proof. intros j H1 H2. lia. Qed.
Lemma nth_firstn_lt {A} (m : nat) : forall (l : list A) j, (j < m)%nat -> nth_error (firstn m l) j = nth_error l j.
Proof. induction m as [|m IH]; intros [|x l] [|j] H; cbn; try lia; auto. apply IH. lia. Qed.
(* the bytes just read *)
Lemma range_new k m pre rest p : (m <= k)%nat -> (k <= length rest)%nat -> Forall (fun c => p c = true) (firstn m rest) ->
  range_pre (zpre k pre rest) (nnat (length pre)) (nnat (length pre) + nnat m) p.
Proof.
  intros Hm Hk Hall j Ha Hb. set (j' := N.to_nat (j - nnat (length pre))).
  assert (Hj' : (j' < m)%nat) by (unfold j', nnat in *; lia).
  destruct (nth_error (firstn m rest) j') as [c|] eqn:En; [|apply nth_error_None in En; rewrite firstn_length in En; lia].
  exists c. split.
  - replace j with (nnat (length pre) + nnat j') by (unfold j', nnat in *; lia). rewrite bpre_new by lia.
    rewrite <- En. symmetry. apply nth_firstn_lt. exact Hj'.
  - rewrite Forall_forall in Hall. apply Hall. eapply nth_error_In. exact En.
Qed.

Definition brange (buf : list byte) (a b : N) (p : byte -> bool) : Prop :=
  forall j, a <= j -> j < b -> exists c, nth_error buf (N.to_nat j) = Some c /\ p c = true.
Lemma nth_forall_firstn (p : byte -> bool) : forall k (r : list byte),
  (forall j, (j < k)%nat -> exists c, nth_error r j = Some c /\ p c = true) -> Forall (fun c => p c = true) (firstn k r).
Proof.
  induction k as [|k IH]; intros r H; [constructor|]. destruct r as [|x r].
  - destruct (H 0%nat ltac:(lia)) as (c & Hc & _). discriminate Hc.
  - cbn [firstn]. constructor.
    + destruct (H 0%nat ltac:(lia)) as (c & Hc & Hp). cbn in Hc. injection Hc as ->. exact Hp.
    + apply IH. intros j Hj. exact (H (S j) ltac:(lia)).
Qed.
(* bytes of the unread part, on the whole buffer *)
Lemma brange_rest pre rest m0 m p : (forall j, (m0 <= j)%nat -> (j < m)%nat -> exists c, nth_error rest j = Some c /\ p c = true) ->
  brange (rev pre ++ rest) (nnat (length pre) + nnat m0) (nnat (length pre) + nnat m) p.
Proof.
  intros H j Ha Hb. set (j' := N.to_nat (j - nnat (length pre))).
  destruct (H j' ltac:(unfold j', nnat in *; lia) ltac:(unfold j', nnat in *; lia)) as (c & Hc & Hp). exists c. split; [|exact Hp].
  rewrite nth_error_app2 by (rewrite rev_length; unfold nnat in *; lia). rewrite rev_length.
  replace (N.to_nat j - length pre)%nat with j' by (unfold j', nnat in *; lia). exact Hc.
Qed.
Lemma brange_join buf a b c p : brange buf a b p -> brange buf b c p -> brange buf a c p.
Proof. intros H1 H2 j Ha Hc. destruct (N.lt_ge_cases j b) as [H|H]; [apply H1|apply H2]; assumption. Qed.

(* name, blanks, colon: cpos is the offset of the colon *)
Definition colon_ok (pre : list byte) (i : N) (h : hdr) (cpos : N) : Prop :=
  0 < pl (h_name h) /\ range_pre pre (po (h_name h)) (pf_end (h_name h)) nmb /\
  pf_end (h_name h) <= cpos /\ cpos < i /\ range_pre pre (pf_end (h_name h)) cpos is_sp /\ bpre pre cpos = Some 58.
Lemma colon_ok_zpre k pre rest i h cpos : i = nnat (length pre) -> colon_ok pre i h cpos -> colon_ok (zpre k pre rest) (i + nnat k) h cpos.
Proof.
  intros Hi (H1 & H2 & H3 & H4 & H5 & H6). split; [exact H1|]. split; [apply range_zpre; [lia|exact H2]|]. split; [exact H3|].
  split; [lia|]. split; [apply range_zpre; [lia|exact H5]|]. rewrite bpre_zpre by lia. exact H6.
Qed.

Lemma colon_ok_name pre i h h' cpos : h_name h' = h_name h -> colon_ok pre i h cpos -> colon_ok pre i h' cpos.
Proof. intros E H. unfold colon_ok in *. rewrite E. exact H. Qed.

Definition NT (a : N) (pre : list byte) (i : N) (st : hline) : Prop :=
  hx_pv st = None /\
  let h := hx_h st in
  match h_state h with
  | HInit => i = a /\ pl (h_val h) = 0
  | HName => po (h_name h) = a /\ pl (h_name h) = 0 /\ a <= i /\ range_pre pre a i nmb /\ pl (h_val h) = 0
  | HNameEnd => po (h_name h) = a /\ 0 < pl (h_name h) /\ range_pre pre a (pf_end (h_name h)) nmb /\ pf_end (h_name h) <= i /\
                range_pre pre (pf_end (h_name h)) i is_sp /\ pl (h_val h) = 0
  | HBodyStart => po (h_name h) = a /\ pl (h_val h) = 0 /\ exists cpos, colon_ok pre i h cpos /\ range_pre pre (cpos + 1) i is_ws
  | HVal => po (h_name h) = a /\ exists cpos, colon_ok pre i h cpos /\ cpos < po (h_val h) /\ po (h_val h) <= i /\ range_pre pre (cpos + 1) (po (h_val h)) is_ws
  | HValEnd => po (h_name h) = a /\ exists cpos, colon_ok pre i h cpos /\ cpos < po (h_val h) /\ po (h_val h) <= i /\ range_pre pre (cpos + 1) (po (h_val h)) is_ws /\
               pf_end (h_val h) <= i /\ range_pre pre (pf_end (h_val h)) i is_ws
  | _ => True
  end.
(* on the whole buffer, at the return *)
Definition name_colon (a o : N) (buf : list byte) (h : hdr) : Prop :=
  po (h_name h) = a /\ 0 < pl (h_name h) /\ brange buf a (pf_end (h_name h)) nmb /\
  exists cpos, pf_end (h_name h) <= cpos /\ brange buf (pf_end (h_name h)) cpos is_sp /\ nth_error buf (N.to_nat cpos) = Some 58 /\
    ((pl (h_val h) = 0 /\ brange buf (cpos + 1) o is_ws) \/
     (cpos < po (h_val h) /\ brange buf (cpos + 1) (po (h_val h)) is_ws /\ brange buf (pf_end (h_val h)) o is_ws)).
Definition NQ (a : N) (pre rest : list byte) (i o : N) (e : err) (st : hline) : Prop :=
  e = EOk -> name_colon a o (rev pre ++ rest) (hx_h st).

Lemma range_buf pre rest a b p : b <= nnat (length pre) -> range_pre pre a b p -> brange (rev pre ++ rest) a b p.
Proof. intros Hb H j Ha Hj. destruct (H j Ha Hj) as (c & A & B). exists c. split; [|exact B]. rewrite bpre_buf by lia. exact A. Qed.
Lemma colon_buf a o pre rest i h cpos : i = nnat (length pre) -> po (h_name h) = a -> colon_ok pre i h cpos ->
  ((pl (h_val h) = 0 /\ brange (rev pre ++ rest) (cpos + 1) o is_ws) \/
   (cpos < po (h_val h) /\ brange (rev pre ++ rest) (cpos + 1) (po (h_val h)) is_ws /\ brange (rev pre ++ rest) (pf_end (h_val h)) o is_ws)) ->
  name_colon a o (rev pre ++ rest) h.
Proof.
  intros Hi Ha (H1 & H2 & H3 & H4 & H5 & H6) Hv. split; [exact Ha|]. split; [exact H1|]. rewrite <- Ha.
  split; [apply range_buf; [lia|exact H2]|]. exists cpos. split; [exact H3|]. split; [apply range_buf; [lia|exact H5]|].
  split; [rewrite bpre_buf by lia; exact H6|exact Hv].
Qed.

Definition NT_res (a : N) (pre rest : list byte) (i : N) (r : ires hline) : Prop :=
  match r with
  | Next k st' => (0 < k)%nat -> (k <= length rest)%nat -> NT a (zpre k pre rest) (i + nnat k) st'
  | Ret o e st' => NQ a pre rest i o e st'
  | IPanic => True
  end.

(* the colon found k bytes further on, after a complete name and blanks *)
Lemma colon_NT a pre rest i k st : i = nnat (length pre) -> hx_pv st = None -> po (h_name (hx_h st)) = a -> 0 < pl (h_name (hx_h st)) ->
  pl (h_val (hx_h st)) = 0 -> pf_end (h_name (hx_h st)) <= i + nnat k ->
  range_pre (zpre (S k) pre rest) a (pf_end (h_name (hx_h st))) nmb ->
  range_pre (zpre (S k) pre rest) (pf_end (h_name (hx_h st))) (i + nnat k) is_sp ->
  nth_error rest k = Some 58 ->
  NT_res a pre rest i (hl_colon pre rest i k st).
Proof.
  intros Hi Hp Ha Hpl Hv Hle Hr1 Hr2 Hc. rewrite (colon_none pre rest i k st Hp). destruct (zget _ _ _ _) as [name|]; [|exact I].
  unfold NT_res. intros _ Hk.
  assert (Hb : bpre (zpre (S k) pre rest) (i + nnat k) = Some 58) by (rewrite Hi, bpre_new by lia; exact Hc).
  assert (Hlt : i + nnat k < i + nnat (S k)) by (unfold nnat; lia).
  rewrite <- Ha in Hr1. destruct st as [h pv]. destruct h as [ty nm vl hs]. cbn in *.
  split; [exact Hp|]. split; [exact Ha|]. split; [exact Hv|]. exists (i + N.of_nat k).
  split; [|intros j Hj1 Hj2; unfold nnat in *; lia].
  unfold colon_ok. cbn. split; [exact Hpl|]. split; [exact Hr1|]. split; [exact Hle|].
  split; [exact Hlt|]. split; [exact Hr2|exact Hb].
Qed.

Lemma name_ph_NT a pre rest i st : i = nnat (length pre) -> hx_pv st = None ->
  po (h_name (hx_h st)) = a -> pl (h_name (hx_h st)) = 0 -> a <= i -> range_pre pre a i nmb -> pl (h_val (hx_h st)) = 0 ->
  NT_res a pre rest i (hl_name_ph pre rest i st).
Proof.
  intros Hi Hp Ha Hn0 Hai Hr Hv. unfold hl_name_ph. cbv zeta.
  destruct (span_split nmb rest) as (E1 & T1 & _). change (span nmb rest) with (skipTokenDelim 58 rest) in *.
  set (k := skipTokenDelim 58 rest) in *.
  assert (Lk : length (firstn k rest) = k) by (apply firstn_length_span).
  destruct (skipn k rest) as [|c r] eqn:Sk; [intros E; discriminate E|].
  assert (Hck : nth_error rest k = Some c).
  { rewrite E1, nth_error_app2 by lia. rewrite Lk, Nat.sub_diag. reflexivity. }
  assert (Hkl : (S k <= length rest)%nat).
  { rewrite E1, app_length, Lk. cbn [length]. lia. }
  assert (Hrange : range_pre (zpre (S k) pre rest) a (i + nnat k) nmb).
  { apply (range_join _ a i); [apply range_zpre; [lia|exact Hr]|]. rewrite Hi. apply range_new; [lia|exact Hkl|exact T1]. }
  unfold pf_extend. rewrite Ha. replace (i + nnat k <? a) with false by lia. cbv beta iota.
  destruct (is_sp c) eqn:Esp.
  - unfold pf_empty. cbn [pl]. destruct (i + nnat k - a =? 0) eqn:Ez; [intros E; discriminate E|].
    unfold NT_res. intros _ _.
    match goal with |- NT _ _ _ ?S => set (st' := S) end.
    assert (F1 : hx_pv st' = None) by (subst st'; destruct st as [h pv]; exact Hp).
    assert (F2 : h_state (hx_h st') = HNameEnd) by (subst st'; destruct st as [h pv]; destruct h; reflexivity).
    assert (F3 : h_name (hx_h st') = mkpf a (i + nnat k - a)) by (subst st'; destruct st as [h pv]; destruct h; reflexivity).
    assert (F4 : h_val (hx_h st') = h_val (hx_h st)) by (subst st'; destruct st as [h pv]; destruct h; reflexivity).
    clearbody st'. unfold NT. split; [exact F1|]. cbv zeta. rewrite F2, F3, F4. unfold pf_end. cbn [po pl].
    replace (a + (i + nnat k - a)) with (i + nnat k) by lia.
    split; [reflexivity|]. split; [lia|]. split; [exact Hrange|]. split; [unfold nnat; lia|]. split; [|exact Hv].
    intros j Hj1 Hj2. assert (j = nnat (length pre) + nnat k) by (unfold nnat in *; lia). subst j. exists c. split; [|exact Esp].
    rewrite bpre_new by lia. exact Hck.
  - destruct (c =? 58) eqn:Ec; [|intros E; discriminate E]. apply N.eqb_eq in Ec. subst c.
    unfold pf_empty. cbn [pl]. destruct (i + nnat k - a =? 0) eqn:Ez; [intros E; discriminate E|].
    match goal with |- NT_res _ _ _ _ (hl_colon _ _ _ _ ?S) => set (st' := S) end.
    assert (F1 : hx_pv st' = None) by (subst st'; destruct st as [h pv]; exact Hp).
    assert (F3 : h_name (hx_h st') = mkpf a (i + nnat k - a)) by (subst st'; destruct st as [h pv]; destruct h; reflexivity).
    assert (F4 : h_val (hx_h st') = h_val (hx_h st)) by (subst st'; destruct st as [h pv]; destruct h; reflexivity).
    clearbody st'.
    assert (Epe : pf_end (h_name (hx_h st')) = i + nnat k) by (rewrite F3; unfold pf_end; cbn [po pl]; lia).
    refine (colon_NT a pre rest i k st' Hi F1 _ _ _ _ _ _ Hck).
    + rewrite F3. reflexivity.
    + rewrite F3. cbn [pl]. lia.
    + rewrite F4. exact Hv.
    + rewrite Epe. lia.
    + rewrite Epe. exact Hrange.
    + rewrite Epe. apply range_empty.
Qed.

Lemma NT_step a pre rest i st : i = nnat (length pre) -> NT a pre i st -> NT_res a pre rest i (hl_iter pre rest i st).
Proof.
  intros Hi [Hp Hs]. cbv zeta in Hs. destruct rest as [|c r].
  { unfold hl_iter, NT_res. intros E; discriminate E. }
  destruct (h_state (hx_h st)) eqn:Est;
    try (rewrite (hit_nopv pre c r i st) by (try rewrite Est; try reflexivity; try assumption); exact I).
  - (* HInit *)
    destruct Hs as [Hia Hv]. subst a. rewrite (hit_init pre c r i st Est).
    destruct (is_cr c); [destruct r; intros E; discriminate E|]. destruct (is_lf c); [intros E; discriminate E|].
    unfold pf_set. rewrite N.ltb_irrefl, N.sub_diag. cbv beta iota.
    apply name_ph_NT; try assumption; try (destruct st as [h pv]; destruct h; cbn in *; auto; fail); [lia|apply range_empty].
  - destruct Hs as (Ha & Hn0 & Hai & Hr & Hv). rewrite (hit_name pre _ i st Est). apply name_ph_NT; assumption.
  - (* HNameEnd *)
    destruct Hs as (Ha & Hpl & Hr & Hle & Hsp & Hv). rewrite (hit_nameend pre _ i st Est). unfold hl_nameend. cbv zeta.
    destruct (span_split is_sp (c :: r)) as (E1 & T1 & _). change (span is_sp (c :: r)) with (skipWS (c :: r)) in *.
    set (k := skipWS (c :: r)) in *. assert (Lk : length (firstn k (c :: r)) = k) by (apply firstn_length_span).
    destruct (skipn k (c :: r)) as [|d r'] eqn:Sk; [intros E; discriminate E|].
    destruct (d =? 58) eqn:Ed; [|intros E; discriminate E]. apply N.eqb_eq in Ed. subst d.
    assert (Hkl : (S k <= length (c :: r))%nat) by (rewrite E1, app_length, Lk; cbn [length]; lia).
    apply colon_NT; try assumption; [lia|apply range_zpre; [lia|exact Hr]| |].
    + apply (range_join _ _ i); [apply range_zpre; [lia|exact Hsp]|]. rewrite Hi. apply range_new; [lia|exact Hkl|exact T1].
    + rewrite E1, nth_error_app2 by lia. rewrite Lk, Nat.sub_diag. reflexivity.
  - (* HBodyStart *)
    destruct Hs as (Ha & Hv & cpos & Hc & Hg). rewrite (hit_bstart pre _ i st Est). unfold hl_bstart.
    assert (Hci : cpos < i) by (destruct Hc as (_ & _ & _ & H4 & _); exact H4).
    destruct (skipLWS false (c :: r)) as [k|k crl|k] eqn:El; [| |intros E; discriminate E].
    + unfold pf_set. rewrite N.ltb_irrefl, N.sub_diag. cbv beta iota. unfold NT_res. intros _ Hk.
      pose proof (colon_ok_zpre (S k) pre (c :: r) i (hx_h st) cpos Hi Hc) as Hc'.
      assert (Hg' : range_pre (zpre (S k) pre (c :: r)) (cpos + 1) (i + nnat k) is_ws).
      { apply (range_join _ _ i); [apply range_zpre; [lia|exact Hg]|]. rewrite Hi. apply range_new; [lia|exact Hk|].
        apply nth_forall_firstn. exact (skipLWS_ok_ws _ _ El). }
      match goal with |- NT _ _ _ ?S => set (st' := S) end.
      assert (F1 : hx_pv st' = None) by (subst st'; destruct st as [h pv]; exact Hp).
      assert (F2 : h_state (hx_h st') = HVal) by (subst st'; destruct st as [h pv]; destruct h; reflexivity).
      assert (F3 : h_name (hx_h st') = h_name (hx_h st)) by (subst st'; destruct st as [h pv]; destruct h; reflexivity).
      assert (F5 : h_val (hx_h st') = mkpf (i + nnat k) 0) by (subst st'; destruct st as [h pv]; destruct h; reflexivity).
      clearbody st'. unfold NT. split; [exact F1|]. cbv zeta. rewrite F2, F3, F5. split; [exact Ha|].
      exists cpos. split; [exact (colon_ok_name _ _ _ _ _ F3 Hc')|]. cbn [po]. split; [lia|]. split; [unfold nnat; lia|exact Hg'].
    + intros _.
      assert (Hgb : brange (rev pre ++ c :: r) (cpos + 1) (i + nnat k + nnat crl) is_ws).
      { apply (brange_join _ _ i); [apply range_buf; [lia|exact Hg]|]. rewrite Hi.
        replace (nnat (length pre) + nnat k + nnat crl) with (nnat (length pre) + nnat (k + crl)) by (unfold nnat; lia).
        replace (nnat (length pre)) with (nnat (length pre) + nnat 0) at 1 by (unfold nnat; lia).
        apply brange_rest. intros j _ Hj. exact (skipLWS_eoh_ws _ _ _ El j Hj). }
      apply (colon_buf a _ pre _ i _ cpos Hi); [destruct st as [h pv]; destruct h; cbn in *; exact Ha| |].
      * destruct st as [h pv]; destruct h; cbn in *; exact Hc.
      * left. split; [destruct st as [h pv]; destruct h; cbn in *; exact Hv|exact Hgb].
  - (* HVal *)
    destruct Hs as (Ha & cpos & Hc & Hcv & Hvi & Hg). rewrite (hit_val pre _ i st Est). unfold hl_val. cbv zeta.
    set (k := skipToken (c :: r)) in *.
    destruct (skipn k (c :: r)) as [|d r'] eqn:Sk; [intros E; discriminate E|].
    unfold pf_extend. replace (i + nnat k <? po (h_val (hx_h st))) with false by lia. cbv beta iota.
    unfold hl_valend. destruct (skipLWS false (d :: r')) as [k2|k2 crl|k2] eqn:El; [| |intros E; discriminate E].
    + unfold NT_res. intros _ Hk. set (kk := S (k + k2)) in *.
      pose proof (colon_ok_zpre kk pre (c :: r) i (hx_h st) cpos Hi Hc) as Hc'.
      match goal with |- NT _ _ _ ?S => set (st' := S) end.
      assert (F1 : hx_pv st' = None) by (subst st'; destruct st as [h pv]; exact Hp).
      assert (F2 : h_state (hx_h st') = HVal) by (subst st'; destruct st as [h pv]; destruct h; reflexivity).
      assert (F3 : h_name (hx_h st') = h_name (hx_h st)) by (subst st'; destruct st as [h pv]; destruct h; reflexivity).
      assert (F5 : po (h_val (hx_h st')) = po (h_val (hx_h st))) by (subst st'; destruct st as [h pv]; destruct h; reflexivity).
      clearbody st'. unfold NT. split; [exact F1|]. cbv zeta. rewrite F2, F3, F5. split; [exact Ha|].
      exists cpos. split; [exact (colon_ok_name _ _ _ _ _ F3 Hc')|]. split; [exact Hcv|]. split; [lia|].
      apply range_zpre; [lia|exact Hg].
    + unfold NT_res, NQ. intros _.
      match goal with |- name_colon _ _ _ (hx_h ?S) => set (st' := S) end.
      assert (F3 : h_name (hx_h st') = h_name (hx_h st)) by (subst st'; destruct st as [h pv]; destruct h; reflexivity).
      assert (F5 : h_val (hx_h st') = mkpf (po (h_val (hx_h st))) (i + nnat k - po (h_val (hx_h st)))) by (subst st'; destruct st as [h pv]; destruct h; reflexivity).
      clearbody st'.
      assert (Hr : forall j, (k <= j)%nat -> (j < k + (k2 + crl))%nat -> exists c0, nth_error (c :: r) j = Some c0 /\ is_ws c0 = true).
      { intros j Hj1 Hj2. destruct (skipLWS_eoh_ws _ _ _ El (j - k)%nat ltac:(lia)) as (c0 & Hc0 & Hw0). exists c0. split; [|exact Hw0].
        assert (Lk : length (firstn k (c :: r)) = k) by (unfold k, skipToken; apply firstn_length_span).
        rewrite <- (firstn_skipn k (c :: r)), Sk. rewrite nth_error_app2 by lia.
        replace (j - length (firstn k (c :: r)))%nat with (j - k)%nat; [exact Hc0|]. f_equal. symmetry. unfold k, skipToken. apply firstn_length_span. }
      apply (colon_buf a _ pre _ i _ cpos Hi); [rewrite F3; exact Ha|exact (colon_ok_name _ _ _ _ _ F3 Hc)|].
      right. rewrite F5. unfold pf_end. cbn [po pl]. split; [exact Hcv|]. split; [apply range_buf; [lia|exact Hg]|].
      replace (po (h_val (hx_h st)) + (i + nnat k - po (h_val (hx_h st)))) with (nnat (length pre) + nnat k) by lia.
      replace (i + nnat k + nnat k2 + nnat crl) with (nnat (length pre) + nnat (k + (k2 + crl))) by (unfold nnat in *; lia).
      apply brange_rest. exact Hr.
  - (* HValEnd *)
    destruct Hs as (Ha & cpos & Hc & Hcv & Hvi & Hg & Hei & Hg2). rewrite (hit_valend pre _ i st Est). unfold hl_valend.
    destruct (skipLWS false (c :: r)) as [k2|k2 crl|k2] eqn:El; [| |intros E; discriminate E].
    + unfold NT_res. intros _ Hk. set (kk := S (0 + k2)) in *.
      pose proof (colon_ok_zpre kk pre (c :: r) i (hx_h st) cpos Hi Hc) as Hc'.
      match goal with |- NT _ _ _ ?S => set (st' := S) end.
      assert (F1 : hx_pv st' = None) by (subst st'; destruct st as [h pv]; exact Hp).
      assert (F2 : h_state (hx_h st') = HVal) by (subst st'; destruct st as [h pv]; destruct h; reflexivity).
      assert (F3 : h_name (hx_h st') = h_name (hx_h st)) by (subst st'; destruct st as [h pv]; destruct h; reflexivity).
      assert (F5 : po (h_val (hx_h st')) = po (h_val (hx_h st))) by (subst st'; destruct st as [h pv]; destruct h; reflexivity).
      clearbody st'. unfold NT. split; [exact F1|]. cbv zeta. rewrite F2, F3, F5. split; [exact Ha|].
      exists cpos. split; [exact (colon_ok_name _ _ _ _ _ F3 Hc')|]. split; [exact Hcv|]. split; [lia|].
      apply range_zpre; [lia|exact Hg].
    + intros _.
      match goal with |- name_colon _ _ _ (hx_h ?S) => set (st' := S) end.
      assert (F3 : h_name (hx_h st') = h_name (hx_h st)) by (subst st'; destruct st as [h pv]; destruct h; reflexivity).
      assert (F5 : h_val (hx_h st') = h_val (hx_h st)) by (subst st'; destruct st as [h pv]; destruct h; reflexivity).
      clearbody st'.
      apply (colon_buf a _ pre _ i _ cpos Hi); [rewrite F3; exact Ha|exact (colon_ok_name _ _ _ _ _ F3 Hc)|].
      right. rewrite F5. split; [exact Hcv|]. split; [apply range_buf; [lia|exact Hg]|].
      apply (brange_join _ _ i); [apply range_buf; [lia|exact Hg2]|]. rewrite Hi.
      replace (nnat (length pre) + nnat 0 + nnat k2 + nnat crl) with (nnat (length pre) + nnat (k2 + crl)) by (unfold nnat; lia).
      replace (nnat (length pre)) with (nnat (length pre) + nnat 0) at 1 by (unfold nnat; lia).
      apply brange_rest. intros j _ Hj. exact (skipLWS_eoh_ws _ _ _ El j Hj).
  - rewrite (hit_fin pre c r i st Est). intros E; discriminate E.
Qed.

(* whatever ParseHdrLine (generic value) accepts from a fresh header: the name starts at the start offset, is
   a non-empty run of bytes that are neither white space nor ':', is followed by SP / HT only up to the colon;
   the value is empty or starts after the colon *)
Theorem hdrline_name_colon buf offs o st' : offs <= nnat (length buf) ->
  parse_hdrline buf offs (mkhline hdr0 None) = Done o EOk st' -> name_colon offs o buf (hx_h st').
Proof.
  intros Ho H. unfold parse_hdrline, parse in H. unfold zinit in H.
  assert (Hi : offs = nnat (length (rev (firstn (N.to_nat offs) buf)))) by (rewrite rev_length, firstn_length; unfold nnat in *; lia).
  pose proof (run_invQ hl_iter (NT offs) (NQ offs) (fun pre rest i s Hi' HP => NT_step offs pre rest i s Hi' HP)
                (skipn (N.to_nat offs) buf) (rev (firstn (N.to_nat offs) buf)) offs (mkhline hdr0 None) Hi
                ltac:(split; [reflexivity|cbn; split; reflexivity])) as R.
  rewrite H in R. destruct R as (p' & r' & i' & _ & Eb & HQ). rewrite rev_involutive, firstn_skipn in Eb.
  specialize (HQ eq_refl). rewrite Eb in HQ. exact HQ.
Qed.

