(* Absolute reads through the zipper: zslice pre rest i a b is the slice [a,b) of the whole
   buffer rev pre ++ rest; hence it does not change when the zipper advances, and it is
   stable when bytes are appended. *)
From Sipsp Require Import RunLemmas Safe Ext.
From Coq Require Import ZifyN ZifyNat ZifyBool.

Definition bslice (buf : list byte) (a b : N) : option (list byte) :=
  if (a <=? b) && (b <=? nnat (length buf)) then Some (firstn (N.to_nat (b - a)) (skipn (N.to_nat a) buf)) else None.

Lemma firstn_rev {A} (l : list A) n : firstn n (rev l) = rev (skipn (length l - n) l).
Proof.
  destruct (le_lt_dec n (length l)) as [H|H].
  - rewrite <- (firstn_skipn (length l - n) l) at 1. rewrite rev_app_distr.
    rewrite firstn_app, firstn_all2 by (rewrite rev_length, skipn_length; lia).
    rewrite rev_length, skipn_length. replace (n - (length l - (length l - n)))%nat with 0%nat by lia.
    cbn. now rewrite app_nil_r.
  - replace (length l - n)%nat with 0%nat by lia. cbn. apply firstn_all2. rewrite rev_length. lia.
Qed.
Lemma skipn_rev {A} (l : list A) n : skipn n (rev l) = rev (firstn (length l - n) l).
Proof.
  destruct (le_lt_dec n (length l)) as [H|H].
  - rewrite <- (firstn_skipn (length l - n) l) at 1. rewrite rev_app_distr.
    rewrite skipn_app. rewrite rev_length, skipn_length.
    replace (n - (length l - (length l - n)))%nat with 0%nat by lia.
    rewrite skipn_all2 by (rewrite rev_length, skipn_length; lia). reflexivity.
  - replace (length l - n)%nat with 0%nat by lia. cbn. apply skipn_all2. rewrite rev_length. lia.
Qed.

Lemma zslice_bslice pre rest i a b : i = nnat (length pre) ->
  zslice pre rest i a b = bslice (rev pre ++ rest) a b.
Proof.
  intros Hi. unfold zslice, bslice, nnat in *. rewrite app_length, rev_length.
  replace (b <=? N.of_nat (length pre + length rest)) with (b <=? i + N.of_nat (length rest)) by lia.
  destruct ((a <=? b) && (b <=? i + N.of_nat (length rest))) eqn:E; [|reflexivity]. f_equal.
  set (P := rev pre). assert (HP : length P = length pre) by (subst P; apply rev_length).
  assert (Hpre : pre = rev P) by (subst P; now rewrite rev_involutive).
  rewrite Hpre. rewrite skipn_rev, firstn_rev, rev_involutive.
  (* the part inside P *)
  set (m := N.min b i).
  replace (length P - N.to_nat (i - m))%nat with (N.to_nat m) by lia.
  rewrite firstn_length.
  replace (Nat.min (N.to_nat m) (length P) - N.to_nat (m - a))%nat with (Nat.min (N.to_nat a) (N.to_nat m)) by lia.
  (* now compare with firstn (b-a) (skipn a (P ++ rest)) *)
  rewrite skipn_app, firstn_app. rewrite skipn_length. f_equal.
  - (* in P *)
    destruct (N.le_gt_cases a i) as [Hai|Hai].
    + replace (Nat.min (N.to_nat a) (N.to_nat m)) with (N.to_nat a) by lia.
      (* skipn a (firstn m P) = firstn (b - a) (skipn a P) *)
      rewrite <- (firstn_skipn (N.to_nat a) P) at 1.
      rewrite firstn_app, skipn_app.
      rewrite firstn_length, firstn_firstn.
      rewrite skipn_all2 by (rewrite firstn_length; lia). cbn [app].
      rewrite firstn_length.
      replace (N.to_nat a - Nat.min (N.to_nat m) (Nat.min (N.to_nat a) (length P)))%nat with 0%nat by lia.
      cbn [skipn]. replace (Nat.min (N.to_nat a) (length P)) with (N.to_nat a) by lia.
      destruct (N.le_gt_cases b i) as [Hbi|Hbi].
      * f_equal. lia.
      * rewrite !firstn_all2 by (rewrite skipn_length; lia). reflexivity.
    + rewrite skipn_all2 by (rewrite firstn_length; lia).
      rewrite (skipn_all2 P) by lia. now rewrite firstn_nil.
  - (* in rest *)
    f_equal; [lia|]. f_equal. lia.
Qed.

Lemma zget_bslice pre rest i f : i = nnat (length pre) -> zget pre rest i f = bslice (rev pre ++ rest) (po f) (pf_end f).
Proof. intros. unfold zget. now apply zslice_bslice. Qed.

(* reads are stable when bytes are appended *)
Lemma bslice_app buf x a b : b <= nnat (length buf) -> bslice (buf ++ x) a b = bslice buf a b.
Proof.
  intros Hb. unfold bslice. rewrite app_length.
  replace (b <=? nnat (length buf + length x)) with true by (unfold nnat in *; lia).
  replace (b <=? nnat (length buf)) with true by lia.
  destruct (a <=? b) eqn:E; [|reflexivity]. cbn [andb]. f_equal.
  rewrite skipn_app, firstn_app, skipn_length. unfold nnat in *.
  replace (N.to_nat (b - a) - (length buf - N.to_nat a))%nat with 0%nat by lia. cbn. now rewrite app_nil_r.
Qed.
Lemma bslice_some_bound buf a b l : bslice buf a b = Some l -> a <= b /\ b <= nnat (length buf).
Proof. unfold bslice. destruct (_ && _) eqn:E; [lia|discriminate]. Qed.
