(* C05: the value of a Call-ID / CSeq / Content-Length / Expires header parsed into PHdrVals starts after
   the header name (it is the value parser's own span): lower-bound invariants of the three leaf
   parsers, threaded through the header line, the header block and the message (one call; any chunk
   schedule by C01). *)
From Sipsp Require Import RunLemmas Safe Resume Ext ExtLeaf ZSlice Harness ExtFLine ExtAdv ExtHdrLine ExtHeaders ExtLists
  SafeMsg Capacity CapHeaders Layout BlockSpec TrimSpec LowerLists.
From Coq Require Import ZifyN ZifyNat ZifyBool.
From RecordUpdate Require Import RecordUpdate.

Lemma pf_set_some a b f : pf_set a b = Some f -> po f = a.
Proof. unfold pf_set. destruct (b <? a); [discriminate|]. intros H. injection H as <-. reflexivity. Qed.
Lemma pf_extend_some_po f e f' : pf_extend f e = Some f' -> po f' = po f.
Proof. unfold pf_extend. destruct (e <? po f); [discriminate|]. intros H. injection H as <-. reflexivity. Qed.


(* ---- Call-ID --------------------------------------------------------------------------------------------------------------------------- *)
Definition LBci (lb : N) (s : callid) : Prop := (ci_state s = CiFound -> lb <= ci_soffs s) /\ lbv lb (ci_callid s).
Lemma ci_iter_lb lb pre rest i s : lb <= i -> LBci lb s ->
  match ci_iter pre rest i s with Next _ s' => LBci lb s' | Ret _ _ s' => LBci lb s' | IPanic => True end.
Proof.
  intros Hi [H1 H2]. unfold ci_iter, ci_lws, ci_endOfHdr. destruct s as [cid st so]. unfold LBci, lbv in *. cbn in *.
  destruct st; cbn -[skipLWS pf_set pf_extend].
  all: destruct rest as [|c r]; cbn -[skipLWS pf_set pf_extend].
  all: try destruct (is_ws c); cbn -[skipLWS pf_set pf_extend].
  all: repeat match goal with |- context [pf_set ?a ?b] => destruct (pf_set a b) eqn:? end; cbn -[skipLWS pf_set pf_extend].
  all: try destruct (skipLWS false (c :: r)); cbn -[skipLWS pf_set pf_extend].
  all: repeat match goal with |- context [pf_set ?a ?b] => destruct (pf_set a b) eqn:? end; cbn -[skipLWS pf_set pf_extend].
  all: repeat match goal with H : pf_set _ _ = Some _ |- _ => apply pf_set_some in H end.
  all: try exact I; try (split; [intros E; try discriminate E; try lia; auto|]; auto; try (right; try specialize (H1 eq_refl); lia)).
Qed.
Lemma ci_run_lb lb pre rest o s n e s' : lb <= o -> LBci lb s -> run ci_iter pre rest o 0 s = Done n e s' -> LBci lb s'.
Proof.
  intros Ho Hs H.
  pose proof (run_inv ci_iter (fun _ j t => lb <= j /\ LBci lb t) (fun _ _ t => LBci lb t)) as R.
  specialize (R ltac:(intros p r j t [P1 P2]; pose proof (ci_iter_lb lb p r j t P1 P2) as X;
                      destruct (ci_iter p r j t); auto; intros _ _; split; [unfold nnat; lia|exact X]) rest pre o s (conj Ho Hs)).
  rewrite H in R. exact R.
Qed.

(* ---- unsigned numbers (Content-Length, Expires) ---------------------------------------------------------------------------------- *)
Definition LBui (lb : N) (s : uintb) : Prop := (ui_state s = ClFound -> lb <= ui_soffs s) /\ lbv lb (ui_sval s).
Lemma ui_iter_lb lb pre rest i s : lb <= i -> LBui lb s ->
  match ui_iter pre rest i s with Next _ s' => LBui lb s' | Ret _ _ s' => LBui lb s' | IPanic => True end.
Proof.
  intros Hi [H1 H2]. unfold ui_iter, ui_lws, ui_endOfHdr. destruct s as [vl sv st so]. unfold LBui, lbv in *. cbn in *.
  destruct st; cbn -[skipLWS pf_set pf_extend acc32].
  all: destruct rest as [|c r]; cbn -[skipLWS pf_set pf_extend acc32].
  all: try destruct (is_ws c); cbn -[skipLWS pf_set pf_extend acc32].
  all: try destruct (is_digit c); cbn -[skipLWS pf_set pf_extend acc32].
  all: try match goal with |- context [acc32 ?a ?b] => destruct (acc32 a b) end; cbn -[skipLWS pf_set pf_extend acc32].
  all: repeat match goal with |- context [pf_set ?a ?b] => destruct (pf_set a b) eqn:? end; cbn -[skipLWS pf_set pf_extend].
  all: try destruct (skipLWS false (c :: r)); cbn -[skipLWS pf_set pf_extend].
  all: repeat match goal with |- context [pf_set ?a ?b] => destruct (pf_set a b) eqn:? end; cbn -[skipLWS pf_set pf_extend].
  all: repeat match goal with H : pf_set _ _ = Some _ |- _ => apply pf_set_some in H end.
  all: try exact I; try (split; [intros E; try discriminate E; try lia; auto|]; auto; try (right; try specialize (H1 eq_refl); lia)).
Qed.
Lemma ui_run_lb lb pre rest o s n e s' : lb <= o -> LBui lb s -> run ui_iter pre rest o 0 s = Done n e s' -> LBui lb s'.
Proof.
  intros Ho Hs H.
  pose proof (run_inv ui_iter (fun _ j t => lb <= j /\ LBui lb t) (fun _ _ t => LBui lb t)) as R.
  specialize (R ltac:(intros p r j t [P1 P2]; pose proof (ui_iter_lb lb p r j t P1 P2) as X;
                      destruct (ui_iter p r j t); auto; intros _ _; split; [unfold nnat; lia|exact X]) rest pre o s (conj Ho Hs)).
  rewrite H in R. exact R.
Qed.
Lemma clen_run_lb lb pre rest o s n e s' : lb <= o -> LBui lb s -> clen_R pre rest o s = Done n e s' -> LBui lb s'.
Proof.
  intros Ho Hs. unfold clen_R. destruct (run ui_iter pre rest o 0 s) as [n1 e1 b| |] eqn:E; try discriminate.
  pose proof (ui_run_lb lb pre rest o s n1 e1 b Ho Hs E) as Hb.
  destruct e1; try (intros H; injection H as <- <- <-; exact Hb).
  destruct (_ || _); intros H; injection H as <- <- <-; exact Hb.
Qed.

(* ---- CSeq ------------------------------------------------------------------------------------------------------------------------------ *)
Definition LBcs (lb : N) (s : cseq) : Prop :=
  match cs_state s with CsInit => True | CsFoundDigit => lb <= cs_soffs s | _ => lb <= po (cs_v s) end.
Lemma cs_iter_lb lb pre rest i s : lb <= i -> LBcs lb s ->
  match cs_iter pre rest i s with Next _ s' => LBcs lb s' | Ret _ _ s' => LBcs lb s' | IPanic => True end.
Proof.
  intros Hi H1. unfold cs_iter, cs_lws, cs_endOfHdr, cs_finish. destruct s as [no mno cq mt vv st so]. unfold LBcs in *. cbn in *.
  destruct st; cbn -[skipLWS pf_set pf_extend acc32 zget].
  all: destruct rest as [|c r]; cbn -[skipLWS pf_set pf_extend acc32 zget].
  all: try destruct (is_ws c); cbn -[skipLWS pf_set pf_extend acc32 zget].
  all: try destruct (is_digit c); cbn -[skipLWS pf_set pf_extend acc32 zget].
  all: try match goal with |- context [acc32 ?a ?b] => destruct (acc32 a b) end; cbn -[skipLWS pf_set pf_extend acc32 zget].
  all: repeat match goal with
              | |- context [pf_set ?a ?b] => destruct (pf_set a b) eqn:?
              | |- context [pf_extend ?a ?b] => destruct (pf_extend a b) eqn:?
              end; cbn -[skipLWS pf_set pf_extend zget].
  all: try destruct (skipLWS false (c :: r)); cbn -[skipLWS pf_set pf_extend zget].
  all: repeat match goal with
              | |- context [pf_set ?a ?b] => destruct (pf_set a b) eqn:?
              | |- context [pf_extend ?a ?b] => destruct (pf_extend a b) eqn:?
              end; cbn -[skipLWS pf_set pf_extend zget].
  all: repeat match goal with |- context [if ?b then _ else _] => destruct b end; cbn -[zget].
  all: repeat match goal with |- context [zget ?a ?b ?c ?d] => destruct (zget a b c d) end; cbn.
  all: repeat match goal with
              | H : pf_set _ _ = Some _ |- _ => apply pf_set_some in H
              | H : pf_extend _ _ = Some _ |- _ => apply pf_extend_some_po in H
              end; cbn in *.
  all: try exact I; try lia.
Qed.
Lemma cs_run_lb lb pre rest o s n e s' : lb <= o -> LBcs lb s -> run cs_iter pre rest o 0 s = Done n e s' -> LBcs lb s'.
Proof.
  intros Ho Hs H.
  pose proof (run_inv cs_iter (fun _ j t => lb <= j /\ LBcs lb t) (fun _ _ t => LBcs lb t)) as R.
  specialize (R ltac:(intros p r j t [P1 P2]; pose proof (cs_iter_lb lb p r j t P1 P2) as X;
                      destruct (cs_iter p r j t); auto; intros _ _; split; [unfold nnat; lia|exact X]) rest pre o s (conj Ho Hs)).
  rewrite H in R. exact R.
Qed.

(* ---- parsed or not started ------------------------------------------------------------------------------------------------------------- *)
Definition PRci (s : callid) : Prop := ci_parsed s = true \/ (ci_state s = CiInit /\ pl (ci_callid s) = 0).
Definition PRcs (s : cseq) : Prop := cs_parsed s = true \/ cs_state s = CsInit.
Definition PRui (s : uintb) : Prop := ui_parsed s = true \/ (ui_state s = ClInit /\ pl (ui_sval s) = 0).
Definition PRct (c : contacts) : Prop := ct_wf c /\ ct_sel c = pfrom0.
Definition PRpa (c : pais) : Prop := pa_wf c /\ pa_sel c = pfrom0.
Definition PRv (v : phvals) : Prop :=
  PRci (pv_callid v) /\ PRcs (pv_cseq v) /\ PRui (pv_clen v) /\ PRui (pv_expires v) /\ PRct (pv_contacts v) /\ PRpa (pv_pais v).
Definition PRo (o : option phvals) : Prop := match o with Some v => PRv v | None => True end.

Lemma PRci_LB lb s : PRci s -> ci_parsed s = false -> LBci lb s.
Proof. intros [H|[H1 H2]] Hp; [congruence|]. split; [intros E; congruence|left; exact H2]. Qed.
Lemma PRcs_LB lb s : PRcs s -> cs_parsed s = false -> LBcs lb s.
Proof. intros [H|H] Hp; [congruence|]. unfold LBcs. rewrite H. exact I. Qed.
Lemma PRui_LB lb s : PRui s -> ui_parsed s = false -> LBui lb s.
Proof. intros [H|[H1 H2]] Hp; [congruence|]. split; [intros E; congruence|left; exact H2]. Qed.
Lemma LBcs_fin lb s : cs_parsed s = true -> LBcs lb s -> lbv lb (cs_v s).
Proof. unfold cs_parsed, LBcs, lbv. destruct (cs_state s); try discriminate. intros _ H. right. exact H. Qed.

Lemma PRv_from v b : PRv v -> PRv (v <| pv_from := b |>). Proof. destruct v; unfold PRv; cbn; auto. Qed.
Lemma PRv_to v b : PRv v -> PRv (v <| pv_to := b |>). Proof. destruct v; unfold PRv; cbn; auto. Qed.
Lemma PRv_contacts v b : PRv v -> PRct b -> PRv (v <| pv_contacts := b |>). Proof. destruct v; unfold PRv; cbn; intuition. Qed.
Lemma PRv_pais v b : PRv v -> PRpa b -> PRv (v <| pv_pais := b |>). Proof. destruct v; unfold PRv; cbn; intuition. Qed.
Lemma PRv_callid v b : PRv v -> PRci b -> PRv (v <| pv_callid := b |>). Proof. destruct v; unfold PRv; cbn; intuition. Qed.
Lemma PRv_cseq v b : PRv v -> PRcs b -> PRv (v <| pv_cseq := b |>). Proof. destruct v; unfold PRv; cbn; intuition. Qed.
Lemma PRv_clen v b : PRv v -> PRui b -> PRv (v <| pv_clen := b |>). Proof. destruct v; unfold PRv; cbn; intuition. Qed.
Lemma PRv_expires v b : PRv v -> PRui b -> PRv (v <| pv_expires := b |>). Proof. destruct v; unfold PRv; cbn; intuition. Qed.

Lemma ct_newhdr_LB o c : PRct c -> LBct o (c <| ct_hno := ct_hno c + 1 |> <| ct_lasthval := pf0 |>).
Proof.
  intros [W Sl]. destruct c as [vals n hno mx mn lh last first].
  change ((mkcontacts vals n hno mx mn lh last first) <| ct_hno := ct_hno (mkcontacts vals n hno mx mn lh last first) + 1 |> <| ct_lasthval := pf0 |>)
    with (mkcontacts vals n (hno + 1) mx mn pf0 last first).
  unfold LBct, ct_wf, lbv, ct_cap in *. rewrite ct_sel_eq in *. cbn in *. split; [exact W|]. split; [exact Sl|left; reflexivity].
Qed.
Lemma pa_newhdr_LB o c : PRpa c -> LBpa o (c <| pa_hno := pa_hno c + 1 |> <| pa_lasthval := pf0 |>).
Proof.
  intros [W Sl]. destruct c as [vals n hno lh last].
  change ((mkpais vals n hno lh last) <| pa_hno := pa_hno (mkpais vals n hno lh last) + 1 |> <| pa_lasthval := pf0 |>)
    with (mkpais vals n (hno + 1) pf0 last).
  unfold LBpa, pa_wf, lbv in *. rewrite pa_sel_proj in *. unfold pa_cap in *. cbn in *. split; [exact W|]. split; [exact Sl|left; reflexivity].
Qed.

Definition special (t : N) : bool := (t =? HdrFrom) || (t =? HdrTo).
(* the value of a finished header: From / To (handled by the layout theorem), or empty, or after the name *)
Definition vbound (h : hdr) : Prop := special (h_type h) = true \/ pl (h_val h) = 0 \/ pf_end (h_name h) < po (h_val h).

(* the header-specific value parser started at o, just after the colon *)
Lemma hb_run_VL hs v' pre rest o st : o = nnat (length pre) -> hb_pick st = Some (hs, v') -> PRo (hx_pv st) -> pf_end (h_name (hx_h st)) < o ->
  match hb_run hs pre rest o st v' with
  | Ret n e st' => e = EOk -> vbound (hx_h st') /\ PRo (hx_pv st')
  | _ => True
  end.
Proof.
  intros Ho. unfold hb_pick. destruct (hx_pv st) as [v|] eqn:Epv; [|discriminate]. cbv zeta. intros Hpick HPR Hn. pose proof HPR as (P1 & P2 & P3 & P4 & P5 & P6).
  set (t := h_type (hx_h st)) in *.
  assert (Fin : forall {B} (R : list byte -> list byte -> N -> B -> res B) sel put valof hs0 (vv : phvals),
            (forall pre rest o st v, hb_run hs0 pre rest o st v
               = hb_finish (R pre rest o (sel v)) (st <| hx_h := (hx_h st) <| h_state := hs0 |> |>) valof (put v)) ->
            (forall n e b', R pre rest o (sel vv) = Done n e b' -> e = EOk ->
               (special t = true \/ lbv o (valof b')) /\ PRv (put vv b')) ->
            match hb_run hs0 pre rest o st vv with
            | Ret n e st' => e = EOk -> vbound (hx_h st') /\ PRo (hx_pv st')
            | _ => True
            end).
  { intros B R sel put valof hs0 vv Hdef HR. pose proof (hb_lay R sel put valof hs0 Hdef pre rest o st vv) as H.
    destruct (hb_run hs0 pre rest o st vv) as [|n e st'|]; [exact I| |exact I].
    destruct H as (b' & ER & Epv' & En & Et & Hok & _). intros He. destruct (Hok He) as [Ev _]. destruct (HR n e b' ER He) as [Hb Hpr].
    split; [|rewrite Epv'; exact Hpr]. unfold vbound. rewrite Et, Ev, En. fold t.
    destruct Hb as [Hs|[Hz|Hl]]; [left; exact Hs|right; left; exact Hz|right; right; lia]. }
  destruct (t =? HdrFrom) eqn:E1.
  { destruct (fb_parsed (pv_from v)); [discriminate|]. injection Hpick as <- <-.
    apply (Fin _ (fun pre rest o b => run (fb_iter HdrFrom) pre rest o 0 b) pv_from (fun v b => v <| pv_from := b |>) fb_v HFrom v); [reflexivity|].
    intros n e b' _ _. split; [left; unfold special; rewrite E1; reflexivity|apply PRv_from; exact HPR]. }
  destruct (t =? HdrTo) eqn:E2.
  { destruct (fb_parsed (pv_to v)); [discriminate|]. injection Hpick as <- <-.
    apply (Fin _ (fun pre rest o b => run (fb_iter HdrTo) pre rest o 0 b) pv_to (fun v b => v <| pv_to := b |>) fb_v HTo v); [reflexivity|].
    intros n e b' _ _. split; [left; unfold special; rewrite E2; rewrite ?orb_true_r; reflexivity|apply PRv_to; exact HPR]. }
  destruct (t =? HdrCallID) eqn:E3.
  { destruct (ci_parsed (pv_callid v)) eqn:Ep; [discriminate|]. injection Hpick as <- <-.
    apply (Fin _ (fun pre rest o b => run ci_iter pre rest o 0 b) pv_callid (fun v b => v <| pv_callid := b |>) ci_callid HCallID v); [reflexivity|].
    intros n e b' ER He. subst e. pose proof (ci_run_lb o pre rest o _ n EOk b' (N.le_refl o) (PRci_LB o _ P1 Ep) ER) as [_ Hb].
    split; [right; exact Hb|]. pose proof (run_ok_state ci_iter _ ci_iter_ok_parsed _ _ _ _ _ _ ER) as Hpar.
    apply PRv_callid; [exact HPR|left; exact Hpar]. }
  destruct (t =? HdrCSeq) eqn:E4.
  { destruct (cs_parsed (pv_cseq v)) eqn:Ep; [discriminate|]. injection Hpick as <- <-.
    apply (Fin _ (fun pre rest o b => run cs_iter pre rest o 0 b) pv_cseq (fun v b => v <| pv_cseq := b |>) cs_v HCSeq v); [reflexivity|].
    intros n e b' ER He. subst e. pose proof (cs_run_lb o pre rest o _ n EOk b' (N.le_refl o) (PRcs_LB o _ P2 Ep) ER) as Hb.
    pose proof (run_ok_state cs_iter _ cs_iter_ok_parsed _ _ _ _ _ _ ER) as Hpar.
    split; [right; exact (LBcs_fin o b' Hpar Hb)|]. apply PRv_cseq; [exact HPR|left; exact Hpar]. }
  destruct (t =? HdrCLen) eqn:E5.
  { destruct (ui_parsed (pv_clen v)) eqn:Ep; [discriminate|]. injection Hpick as <- <-.
    apply (Fin _ clen_R pv_clen (fun v b => v <| pv_clen := b |>) ui_sval HCLen v); [reflexivity|].
    intros n e b' ER He. subst e. pose proof (clen_run_lb o pre rest o _ n EOk b' (N.le_refl o) (PRui_LB o _ P3 Ep) ER) as [_ Hb].
    split; [right; exact Hb|].
    assert (Hpar : ui_parsed b' = true).
    { unfold clen_R in ER. destruct (run ui_iter pre rest o 0 (pv_clen v)) as [n1 e1 b1| |] eqn:E; try discriminate.
      destruct e1; try discriminate. destruct (_ || _); [discriminate|]. injection ER as <- <-.
      exact (run_ok_state ui_iter _ ui_iter_ok_parsed _ _ _ _ _ _ E). }
    apply PRv_clen; [exact HPR|left; exact Hpar]. }
  destruct (t =? HdrContact) eqn:E6.
  { injection Hpick as <- <-.
    set (c1 := (pv_contacts v) <| ct_hno := ct_hno (pv_contacts v) + 1 |> <| ct_lasthval := pf0 |>).
    assert (Hc1 : LBct o c1) by (subst c1; apply ct_newhdr_LB; exact P5).
    apply (Fin _ (fun pre rest o b => run ct_iter pre rest o 0 b) pv_contacts (fun v b => v <| pv_contacts := b |>) ct_lasthval HContact); [reflexivity|].
    intros n e b' ER He. subst e.
    replace (pv_contacts (v <| pv_contacts := c1 |>)) with c1 in ER by (destruct v; reflexivity).
    destruct (ct_run_lb o pre rest o c1 n b' Ho (N.le_refl o) Hc1 ER) as (W' & S' & L').
    split; [right; exact L'|]. apply PRv_contacts; [apply PRv_contacts; [exact HPR|destruct Hc1 as (A & B & _); split; assumption]|split; assumption]. }
  destruct (t =? HdrExpires) eqn:E7.
  { destruct (ui_parsed (pv_expires v)) eqn:Ep; [discriminate|]. injection Hpick as <- <-.
    apply (Fin _ (fun pre rest o b => run ui_iter pre rest o 0 b) pv_expires (fun v b => v <| pv_expires := b |>) ui_sval HExpires v); [reflexivity|].
    intros n e b' ER He. subst e. pose proof (ui_run_lb o pre rest o _ n EOk b' (N.le_refl o) (PRui_LB o _ P4 Ep) ER) as [_ Hb].
    split; [right; exact Hb|]. pose proof (run_ok_state ui_iter _ ui_iter_ok_parsed _ _ _ _ _ _ ER) as Hpar.
    apply PRv_expires; [exact HPR|left; exact Hpar]. }
  destruct (t =? HdrPAI) eqn:E8; [|discriminate].
  injection Hpick as <- <-.
  set (c1 := (pv_pais v) <| pa_hno := pa_hno (pv_pais v) + 1 |> <| pa_lasthval := pf0 |>).
  assert (Hc1 : LBpa o c1) by (subst c1; apply pa_newhdr_LB; exact P6).
  apply (Fin _ (fun pre rest o b => run pa_iter pre rest o 0 b) pv_pais (fun v b => v <| pv_pais := b |>) pa_lasthval HPAI); [reflexivity|].
  intros n e b' ER He. subst e.
  replace (pv_pais (v <| pv_pais := c1 |>)) with c1 in ER by (destruct v; reflexivity).
  destruct (pa_run_lb o pre rest o c1 n b' Ho (N.le_refl o) Hc1 ER) as (W' & S' & L').
  split; [right; exact L'|]. apply PRv_pais; [apply PRv_pais; [exact HPR|destruct Hc1 as (A & B & _); split; assumption]|split; assumption].
Qed.

(* ---- the header line (one call from a fresh header) ---------------------------------------------------------------------------------- *)
Definition VL (pre : list byte) (i : N) (st : hline) : Prop :=
  PRo (hx_pv st) /\
  let h := hx_h st in
  match h_state h with
  | HInit | HName => pl (h_val h) = 0
  | HNameEnd => pl (h_val h) = 0 /\ pf_end (h_name h) <= i
  | HBodyStart => pl (h_val h) = 0 /\ pf_end (h_name h) < i
  | HVal | HValEnd => pf_end (h_name h) < po (h_val h)
  | HFIN => True
  | _ => False      (* a value parser in progress: only after a suspension *)
  end.
Definition VQ (pre rest : list byte) (i o : N) (e : err) (st : hline) : Prop :=
  e = EOk -> vbound (hx_h st) /\ PRo (hx_pv st).
Definition VL_res (pre rest : list byte) (i : N) (r : ires hline) : Prop :=
  match r with
  | Next k st' => (0 < k)%nat -> (k <= length rest)%nat -> VL (zpre k pre rest) (i + nnat k) st'
  | Ret o e st' => VQ pre rest i o e st'
  | IPanic => True
  end.

Lemma colon_VL pre rest i k st : i = nnat (length pre) -> (S k <= length rest)%nat ->
  PRo (hx_pv st) -> pl (h_val (hx_h st)) = 0 -> pf_end (h_name (hx_h st)) <= i + nnat k ->
  VL_res pre rest i (hl_colon pre rest i k st).
Proof.
  intros Hi Hk Hpr Hv Hn.
  assert (Ho : i + nnat k + 1 = nnat (length (zpre (S k) pre rest))).
  { unfold zpre. rewrite app_length, rev_length, firstn_length. unfold nnat in *. lia. } rewrite hl_colon_eq. unfold hl_colon'. destruct (zget _ _ _ _) as [name|]; [|exact I]. cbv zeta.
  set (st1 := st <| hx_h := (hx_h st) <| h_state := HBodyStart |> <| h_type := get_hdr_type name |> |>).
  assert (F1 : hx_pv st1 = hx_pv st) by (subst st1; destruct st as [h pv]; reflexivity).
  assert (F2 : h_state (hx_h st1) = HBodyStart) by (subst st1; destruct st as [h pv]; destruct h; reflexivity).
  assert (F3 : h_name (hx_h st1) = h_name (hx_h st)) by (subst st1; destruct st as [h pv]; destruct h; reflexivity).
  assert (F4 : h_val (hx_h st1) = h_val (hx_h st)) by (subst st1; destruct st as [h pv]; destruct h; reflexivity).
  clearbody st1.
  destruct (hb_pick st1) as [[hs v']|] eqn:Ep.
  - pose proof (hb_run_VL hs v' (zpre (S k) pre rest) (zrest (S k) rest) (i + nnat k + 1) st1 Ho Ep ltac:(rewrite F1; exact Hpr) ltac:(rewrite F3; lia)) as H.
    pose proof (hb_run_noNext hs (zpre (S k) pre rest) (zrest (S k) rest) (i + nnat k + 1) st1 v') as Hnn.
    destruct (hb_run hs _ _ _ st1 v') as [|n e st'|]; [destruct Hnn| |exact I]. exact H.
  - unfold VL_res. intros _ _. unfold VL. rewrite F1. split; [exact Hpr|]. cbv zeta. rewrite F2, F3, F4. split; [exact Hv|unfold nnat in *; lia].
Qed.

Lemma skipn_cons_len {A} k (l : list A) c r : skipn k l = c :: r -> (S k <= length l)%nat.
Proof. intros H. assert (L : length (skipn k l) = length (c :: r)) by (rewrite H; reflexivity). rewrite skipn_length in L. cbn in L. lia. Qed.
Lemma name_ph_VL pre rest i st : i = nnat (length pre) -> PRo (hx_pv st) -> pl (h_val (hx_h st)) = 0 -> VL_res pre rest i (hl_name_ph pre rest i st).
Proof.
  intros Hi Hpr Hv. unfold hl_name_ph. cbv zeta. set (k := skipTokenDelim 58 rest).
  destruct (skipn k rest) as [|c r] eqn:Sk; [intros E; discriminate E|]. pose proof (skipn_cons_len _ _ _ _ Sk) as Hk.
  destruct (is_sp c).
  - destruct (pf_extend (h_name (hx_h st)) (i + nnat k)) as [n|] eqn:En; [|exact I]. destruct (pf_empty n); [intros E; discriminate E|].
    unfold VL_res. intros _ _.
    match goal with |- VL _ _ ?S => set (st' := S) end.
    assert (F1 : hx_pv st' = hx_pv st) by (subst st'; destruct st as [h pv]; reflexivity).
    assert (F2 : h_state (hx_h st') = HNameEnd) by (subst st'; destruct st as [h pv]; destruct h; reflexivity).
    assert (F3 : h_name (hx_h st') = n) by (subst st'; destruct st as [h pv]; destruct h; reflexivity).
    assert (F4 : h_val (hx_h st') = h_val (hx_h st)) by (subst st'; destruct st as [h pv]; destruct h; reflexivity).
    clearbody st'. unfold VL. rewrite F1. split; [exact Hpr|]. cbv zeta. rewrite F2, F3, F4. split; [exact Hv|].
    unfold pf_extend in En. destruct (i + nnat k <? po (h_name (hx_h st))) eqn:El; [discriminate|]. injection En as <-.
    unfold pf_end. cbn [po pl]. unfold nnat in *. lia.
  - destruct (c =? 58); [|intros E; discriminate E].
    destruct (pf_extend (h_name (hx_h st)) (i + nnat k)) as [n|] eqn:En; [|exact I]. destruct (pf_empty n); [intros E; discriminate E|].
    match goal with |- VL_res _ _ _ (hl_colon _ _ _ _ ?S) => set (st' := S) end.
    assert (F1 : hx_pv st' = hx_pv st) by (subst st'; destruct st as [h pv]; reflexivity).
    assert (F3 : h_name (hx_h st') = n) by (subst st'; destruct st as [h pv]; destruct h; reflexivity).
    assert (F4 : h_val (hx_h st') = h_val (hx_h st)) by (subst st'; destruct st as [h pv]; destruct h; reflexivity).
    clearbody st'. apply colon_VL; [exact Hi|exact Hk|rewrite F1; exact Hpr|rewrite F4; exact Hv|].
    rewrite F3. unfold pf_extend in En. destruct (i + nnat k <? po (h_name (hx_h st))) eqn:El; [discriminate|]. injection En as <-.
    unfold pf_end. cbn [po pl]. unfold nnat in *. lia.
Qed.

Lemma VL_step pre rest i st : i = nnat (length pre) -> VL pre i st -> VL_res pre rest i (hl_iter pre rest i st).
Proof.
  intros Hi [Hpr Hs]. cbv zeta in Hs. destruct rest as [|c r].
  { unfold hl_iter, VL_res. intros E; discriminate E. }
  destruct (h_state (hx_h st)) eqn:Est; try contradiction.
  - (* HInit *)
    rewrite (hit_init pre c r i st Est).
    destruct (is_cr c); [destruct r; intros E; discriminate E|]. destruct (is_lf c); [intros E; discriminate E|].
    destruct (pf_set i i) as [n|]; [|exact I]. cbv beta iota.
    apply name_ph_VL; [exact Hi| |]; destruct st as [h pv]; destruct h; cbn in *; assumption.
  - rewrite (hit_name pre _ i st Est). apply name_ph_VL; assumption.
  - (* HNameEnd *)
    destruct Hs as [Hv Hn]. rewrite (hit_nameend pre _ i st Est). unfold hl_nameend. cbv zeta.
    destruct (skipn _ (c :: r)) as [|d r'] eqn:Sk; [intros E; discriminate E|]. destruct (d =? 58); [|intros E; discriminate E].
    apply colon_VL; [exact Hi|exact (skipn_cons_len _ _ _ _ Sk)|exact Hpr|exact Hv|lia].
  - (* HBodyStart *)
    destruct Hs as [Hv Hn]. rewrite (hit_bstart pre _ i st Est). unfold hl_bstart.
    destruct (skipLWS false (c :: r)) as [k|k crl|k]; [| |intros E; discriminate E].
    + unfold pf_set. rewrite N.ltb_irrefl, N.sub_diag. cbv beta iota. unfold VL_res. intros _ _.
      match goal with |- VL _ _ ?S => set (st' := S) end.
      assert (F1 : hx_pv st' = hx_pv st) by (subst st'; destruct st as [h pv]; reflexivity).
      assert (F2 : h_state (hx_h st') = HVal) by (subst st'; destruct st as [h pv]; destruct h; reflexivity).
      assert (F3 : h_name (hx_h st') = h_name (hx_h st)) by (subst st'; destruct st as [h pv]; destruct h; reflexivity).
      assert (F5 : h_val (hx_h st') = mkpf (i + nnat k) 0) by (subst st'; destruct st as [h pv]; destruct h; reflexivity).
      clearbody st'. unfold VL. rewrite F1. split; [exact Hpr|]. cbv zeta. rewrite F2, F3, F5. cbn [po]. lia.
    + unfold VL_res, VQ. intros _.
      match goal with |- vbound (hx_h ?S) /\ _ => set (st' := S) end.
      assert (F1 : hx_pv st' = hx_pv st) by (subst st'; destruct st as [h pv]; reflexivity).
      assert (F4 : h_val (hx_h st') = h_val (hx_h st)) by (subst st'; destruct st as [h pv]; destruct h; reflexivity).
      clearbody st'. rewrite F1. split; [|exact Hpr]. unfold vbound. rewrite F4. right. left. exact Hv.
  - (* HVal *)
    rewrite (hit_val pre _ i st Est). unfold hl_val. cbv zeta.
    destruct (skipn (skipToken (c :: r)) (c :: r)) as [|d r']; [intros E; discriminate E|].
    destruct (pf_extend (h_val (hx_h st)) (i + nnat (skipToken (c :: r)))) as [v1|] eqn:Ev; [|exact I].
    apply pf_extend_some_po in Ev. unfold hl_valend.
    destruct (skipLWS false (d :: r')) as [k2|k2 crl|k2]; [| |intros E; discriminate E].
    + unfold VL_res. intros _ _.
      match goal with |- VL _ _ ?S => set (st' := S) end.
      assert (F1 : hx_pv st' = hx_pv st) by (subst st'; destruct st as [h pv]; reflexivity).
      assert (F2 : h_state (hx_h st') = HVal) by (subst st'; destruct st as [h pv]; destruct h; reflexivity).
      assert (F3 : h_name (hx_h st') = h_name (hx_h st)) by (subst st'; destruct st as [h pv]; destruct h; reflexivity).
      assert (F5 : h_val (hx_h st') = v1) by (subst st'; destruct st as [h pv]; destruct h; reflexivity).
      clearbody st'. unfold VL. rewrite F1. split; [exact Hpr|]. cbv zeta. rewrite F2, F3, F5, Ev. exact Hs.
    + unfold VL_res, VQ. intros _.
      match goal with |- vbound (hx_h ?S) /\ _ => set (st' := S) end.
      assert (F1 : hx_pv st' = hx_pv st) by (subst st'; destruct st as [h pv]; reflexivity).
      assert (F3 : h_name (hx_h st') = h_name (hx_h st)) by (subst st'; destruct st as [h pv]; destruct h; reflexivity).
      assert (F5 : h_val (hx_h st') = v1) by (subst st'; destruct st as [h pv]; destruct h; reflexivity).
      clearbody st'. rewrite F1. split; [|exact Hpr]. unfold vbound. rewrite F3, F5, Ev. right. right. exact Hs.
  - (* HValEnd *)
    rewrite (hit_valend pre _ i st Est). unfold hl_valend.
    destruct (skipLWS false (c :: r)) as [k2|k2 crl|k2]; [| |intros E; discriminate E].
    + unfold VL_res. intros _ _.
      match goal with |- VL _ _ ?S => set (st' := S) end.
      assert (F1 : hx_pv st' = hx_pv st) by (subst st'; destruct st as [h pv]; reflexivity).
      assert (F2 : h_state (hx_h st') = HVal) by (subst st'; destruct st as [h pv]; destruct h; reflexivity).
      assert (F3 : h_name (hx_h st') = h_name (hx_h st)) by (subst st'; destruct st as [h pv]; destruct h; reflexivity).
      assert (F5 : h_val (hx_h st') = h_val (hx_h st)) by (subst st'; destruct st as [h pv]; destruct h; reflexivity).
      clearbody st'. unfold VL. rewrite F1. split; [exact Hpr|]. cbv zeta. rewrite F2, F3, F5. exact Hs.
    + unfold VL_res, VQ. intros _.
      match goal with |- vbound (hx_h ?S) /\ _ => set (st' := S) end.
      assert (F1 : hx_pv st' = hx_pv st) by (subst st'; destruct st as [h pv]; reflexivity).
      assert (F3 : h_name (hx_h st') = h_name (hx_h st)) by (subst st'; destruct st as [h pv]; destruct h; reflexivity).
      assert (F5 : h_val (hx_h st') = h_val (hx_h st)) by (subst st'; destruct st as [h pv]; destruct h; reflexivity).
      clearbody st'. rewrite F1. split; [|exact Hpr]. unfold vbound. rewrite F3, F5. right. right. exact Hs.
  - rewrite (hit_fin pre c r i st Est). intros E; discriminate E.
Qed.

(* ---- the header block ---------------------------------------------------------------------------------------------------------------------- *)
Definition BL (pre : list byte) (i : N) (st : hdrs_st) : Prop :=
  PRo (hs_pv st) /\ LI (hs_l st) /\
  forall j, (j < N.to_nat (hl_n (hs_l st)))%nat -> (j < length (hl_hdrs (hs_l st)))%nat -> vbound (nth j (hl_hdrs (hs_l st)) hdr0).
Definition BLQ (pre rest : list byte) (i o : N) (e : err) (st : hdrs_st) : Prop :=
  e = EOk -> forall j, (j < N.to_nat (hl_n (hs_l st)))%nat -> (j < length (hl_hdrs (hs_l st)))%nat -> vbound (nth j (hl_hdrs (hs_l st)) hdr0).

Lemma BL_step pre rest i st : i = nnat (length pre) -> BL pre i st ->
  match hs_iter pre rest i st with
  | Next k st' => (0 < k)%nat -> (k <= length rest)%nat -> BL (zpre k pre rest) (i + nnat k) st'
  | Ret o e st' => BLQ pre rest i o e st'
  | IPanic => True
  end.
Proof.
  intros Hi (Hp & [Hwf Hslot] & Hst). destruct rest as [|c r]; [intros E; discriminate E|].
  rewrite hs_iter_def. unfold hs_sel. rewrite Hslot.
  pose proof (run_invQ hl_iter VL VQ (fun p r0 j s Hj HP => VL_step p r0 j s Hj HP) (c :: r) pre i (mkhline hdr0 (hs_pv st)) Hi
                ltac:(split; [exact Hp|reflexivity])) as R.
  destruct (run hl_iter pre (c :: r) i 0 (mkhline hdr0 (hs_pv st))) as [n e x| |]; [|exact I|exact I].
  destruct R as (p' & r' & i' & _ & _ & HQ). unfold VQ in HQ.
  destruct e; try (unfold hs_post; intros E; discriminate E).
  - rewrite hs_post_ok. destruct (HQ eq_refl) as (Hvb & Hpv). intros _ _.
    split; [exact Hpv|]. split; [apply hl_add_LI; split; assumption|]. cbn [hs_l].
    destruct (hl_add_proj (hs_l st) (hx_h x)) as (X1 & X2 & X3 & _ & _).
    intros j Hj Hlen. rewrite X1 in Hj. rewrite (hnext_len (hs_l st) _ (hx_h x) X2 X3) in Hlen.
    rewrite (hnext_nth (hs_l st) _ (hx_h x) X1 X2 j) by lia.
    destruct (j =? N.to_nat (hl_n (hs_l st)))%nat eqn:Ej; [exact Hvb|]. apply Nat.eqb_neq in Ej. apply Hst; lia.
  - unfold hs_post. cbv zeta. destruct (0 <? _); [|intros E; discriminate E]. intros _ j Hj Hlen. cbn [hs_l] in *.
    destruct (hl_store_proj (hs_l st) (hx_h x)) as (_ & S2 & _ & S4 & _). rewrite S2 in Hj. rewrite S4 in *.
    assert (Hlen' : (j < length (hl_hdrs (hs_l st)))%nat) by (destruct (hl_is_tmp (hs_l st)); [exact Hlen|rewrite set_nth_len in Hlen; exact Hlen]).
    replace (nth j (if hl_is_tmp (hs_l st) then hl_hdrs (hs_l st) else set_nth (N.to_nat (hl_n (hs_l st))) (hx_h x) (hl_hdrs (hs_l st))) hdr0)
      with (nth j (hl_hdrs (hs_l st)) hdr0) by (destruct (hl_is_tmp (hs_l st)); [reflexivity|symmetry; apply nth_set_nth_ne; lia]).
    apply Hst; assumption.
Qed.

Lemma PRv_init nc : PRv (phvals_init (repeat pfrom0 nc)).
Proof.
  unfold PRv, phvals_init. cbn [pv_callid pv_cseq pv_clen pv_expires pv_contacts pv_pais].
  split; [right; split; reflexivity|]. split; [right; reflexivity|]. split; [right; split; reflexivity|]. split; [right; split; reflexivity|].
  split.
  - unfold PRct, contacts_init. split; [split; [intros j _; apply nth_repeat|reflexivity]|].
    rewrite ct_sel_eq. destruct (_ <=? 0); [reflexivity|apply nth_repeat].
  - unfold PRpa, pais0. split; [split; [intros j _; apply nth_repeat|reflexivity]|].
    rewrite pa_sel_proj. unfold pa_cap. cbn [pa_vals pa_n pa_last]. destruct (_ <=? 0); [reflexivity|apply nth_repeat].
Qed.

Theorem headers_vbound buf offs ncap nc o st' : offs <= nnat (length buf) ->
  parse_headers buf offs (mkhdrs_st (hdrlst_init (repeat hdr0 ncap)) (Some (phvals_init (repeat pfrom0 nc)))) = Done o EOk st' ->
  forall j, (j < N.to_nat (hl_n (hs_l st')))%nat -> (j < length (hl_hdrs (hs_l st')))%nat -> vbound (nth j (hl_hdrs (hs_l st')) hdr0).
Proof.
  intros Ho H. unfold parse_headers, parse in H. unfold zinit in H.
  assert (Hi : offs = nnat (length (rev (firstn (N.to_nat offs) buf)))) by (rewrite rev_length, firstn_length; unfold nnat in *; lia).
  assert (H0 : BL (rev (firstn (N.to_nat offs) buf)) offs (mkhdrs_st (hdrlst_init (repeat hdr0 ncap)) (Some (phvals_init (repeat pfrom0 nc))))).
  { split; [apply PRv_init|]. split.
    - unfold LI, hdrlst_init. cbn. split; [split; [intros j _; apply nth_repeat|reflexivity]|].
      unfold hl_slot, hl_is_tmp, hl_cap. cbn. destruct (_ <=? 0); [reflexivity|apply nth_repeat].
    - cbn. intros j Hj. lia. }
  pose proof (run_invQ hs_iter BL BLQ BL_step (skipn (N.to_nat offs) buf) (rev (firstn (N.to_nat offs) buf)) offs _ Hi H0) as R.
  rewrite H in R. destruct R as (p' & r' & i' & _ & _ & HQ). exact (HQ eq_refl).
Qed.

(* ---- the message ------------------------------------------------------------------------------------------------------------------------------ *)
From Sipsp Require Import SafeMore MsgBounds ExtMsg SigCoherent.

Definition msg_vbound (m : pmsg) : Prop :=
  forall j, (j < N.to_nat (hl_n (hs_l (m_hs m))))%nat -> (j < length (hl_hdrs (hs_l (m_hs m))))%nat ->
    vbound (nth j (hl_hdrs (hs_l (m_hs m))) hdr0).

Theorem message_vbound flags buf offs bl n nc o e m' : offs <= nnat (length buf) ->
  parse_sipmsg flags buf offs (msg_init bl (repeat hdr0 n) (repeat pfrom0 nc)) = Done o e m' -> m_state m' = MFIN \/ m_state m' = MNoCLen -> msg_vbound m'.
Proof.
  intros Hoffs. unfold parse_sipmsg, msg_init. cbn -[msg_fline]. unfold msg_fline. cbn -[parse_fline msg_headers msg_fail].
  pose proof (fline_safe buf offs fline0 Hoffs) as Hfs.
  destruct (parse_fline buf offs fline0) as [o1 e1 fl| |] eqn:Efl; try discriminate.
  assert (Hf : forall oo ee m, (m_state m = MFLine \/ m_state m = MHeaders) -> msg_fail flags oo ee m = Done o e m' -> m_state m' = MFIN \/ m_state m' = MNoCLen -> msg_vbound m').
  { intros oo ee m Hm H Hs. pose proof (fail_ok flags oo ee m) as F. rewrite H in F. destruct F as [F|F]; rewrite F in Hs; destruct Hm as [Hm|Hm]; try rewrite Hm in Hs; destruct Hs; discriminate. }
  destruct e1; try (apply Hf; left; reflexivity).
  unfold msg_headers. cbn -[parse_headers msg_body msg_fail].
  assert (Ho1 : o1 <= nnat (length buf)).
  { assert (X : fl_inv offs fline0) by (unfold fl_inv, pf_end; cbn; repeat split; lia). specialize (Hfs X). apply Hfs. }
  pose proof (headers_vbound buf o1 n nc) as Hc.
  destruct (parse_headers buf o1 _) as [o2 e2 hs| |]; try discriminate.
  destruct e2; try (apply Hf; right; reflexivity).
  intros H _. match type of H with msg_body ?f ?L ?oo ?mm = _ => pose proof (body_hs f L oo mm) as B end. rewrite H in B.
  unfold msg_vbound. rewrite B. cbn. apply (Hc o2 hs Ho1 eq_refl).
Qed.

Theorem message_vbound_fed flags B offs bl n nc o s o' e m' : testbit flags bSIPMsgNoMoreData = false -> offs <= nnat (length B) ->
  feeds flags B offs (msg_init bl (repeat hdr0 n) (repeat pfrom0 nc)) o s ->
  parse_sipmsg flags B o s = Done o' e m' -> m_state m' = MFIN \/ m_state m' = MNoCLen -> msg_vbound m'.
Proof.
  intros Hf Hoffs Hfeed H. rewrite (feeds_same _ _ _ _ _ _ Hf Hfeed) in H. exact (message_vbound _ _ _ _ _ _ _ _ _ Hoffs H).
Qed.

(* ---- with the layout theorem: every stored value except Contact / P-Asserted-Identity ---------------------------------------- *)
Lemma body_ok_fin flags L o m : match msg_body flags L o m with Done _ EOk m' => m_state m' = MFIN | _ => True end.
Proof.
  unfold msg_body, msg_end. destruct (pf_set o o) as [b0|]; [|exact I]. destruct m as [fl hs body bl raw st offs].
  cbn -[testbit N.ltb N.add N.sub pf_extend].
  repeat match goal with
         | |- context [if ?b then _ else _] => destruct b
         | |- context [match pf_extend ?a ?b with _ => _ end] => destruct (pf_extend a b)
         end; try exact I; reflexivity.
Qed.
Lemma fail_not_ok flags o e m : e <> EOk -> match msg_fail flags o e m with Done _ e' _ => e' <> EOk | _ => True end.
Proof. intros He. unfold msg_fail. destruct e; try exact He; try discriminate. destruct (testbit flags bSIPMsgNoMoreData); discriminate. Qed.
Lemma msg_ok_fin flags buf offs m o m' : parse_sipmsg flags buf offs m = Done o EOk m' -> m_state m' = MFIN.
Proof.
  assert (Hb : forall L oo mm, msg_body flags L oo mm = Done o EOk m' -> m_state m' = MFIN).
  { intros L oo mm H. pose proof (body_ok_fin flags L oo mm) as X. rewrite H in X. exact X. }
  assert (Hf : forall oo ee mm, ee <> EOk -> msg_fail flags oo ee mm = Done o EOk m' -> m_state m' = MFIN).
  { intros oo ee mm He H. pose proof (fail_not_ok flags oo ee mm He) as X. rewrite H in X. congruence. }
  assert (Hh : forall oo mm, msg_headers flags buf oo mm = Done o EOk m' -> m_state m' = MFIN).
  { intros oo mm. unfold msg_headers. destruct (parse_headers buf oo (m_hs mm)) as [o2 e2 hs| |]; try discriminate.
    destruct e2; try (apply Hf; discriminate). apply Hb. }
  assert (Hl : forall oo mm, msg_fline flags buf oo mm = Done o EOk m' -> m_state m' = MFIN).
  { intros oo mm. unfold msg_fline. destruct (parse_fline buf oo (m_fl mm)) as [o1 e1 fl| |]; try discriminate.
    destruct e1; try (apply Hf; discriminate). apply Hh. }
  unfold parse_sipmsg. cbv zeta. destruct (m_state (m <| m_buflen := nnat (length buf) |>)); first [apply Hl|apply Hh|apply Hb|apply Hf; discriminate].
Qed.

Definition after_name (h : hdr) : Prop := pl (h_val h) = 0 \/ pf_end (h_name h) < po (h_val h).

Theorem message_values_after_names flags buf offs L nh nc o m' : offs <= nnat (length buf) ->
  parse_sipmsg flags buf offs (msg_init L (repeat hdr0 nh) (repeat pfrom0 nc)) = Done o EOk m' ->
  Forall after_name (stored (hs_l (m_hs m'))).
Proof.
  intros Hoffs H.
  pose proof (fresh_message_layout flags buf offs _ Hoffs (or_introl (ex_intro _ L (ex_intro _ nh (ex_intro _ nc eq_refl))))) as Lay.
  rewrite H in Lay. destruct Lay as (_ & _ & _ & _ & _ & _ & a0 & _ & _ & Hch).
  pose proof (message_vbound flags buf offs L nh nc o EOk m' Hoffs H (or_introl (msg_ok_fin _ _ _ _ _ _ H))) as Hvb.
  apply Forall_forall. intros h Hin.
  destruct (chain_all _ _ _ h Hch Hin) as (a & e & _ & _ & (_ & _ & Hw)).
  unfold stored in Hin. apply (In_nth _ _ hdr0) in Hin. destruct Hin as (j & Hj & <-). rewrite firstn_length in Hj.
  assert (Ej : nth j (firstn (N.to_nat (hl_n (hs_l (m_hs m')))) (hl_hdrs (hs_l (m_hs m')))) hdr0 = nth j (hl_hdrs (hs_l (m_hs m'))) hdr0).
  { rewrite <- (firstn_skipn (N.to_nat (hl_n (hs_l (m_hs m')))) (hl_hdrs (hs_l (m_hs m')))) at 2. rewrite app_nth1 by (rewrite firstn_length; lia). reflexivity. }
  rewrite Ej in *. set (hh := nth j (hl_hdrs (hs_l (m_hs m'))) hdr0) in *.
  destruct (Hvb j ltac:(lia) ltac:(lia)) as [Hs|Hb]; [|exact Hb].
  fold hh in Hs. unfold special in Hs. apply Hw. unfold weak6.
  destruct (h_type hh =? HdrFrom) eqn:E1; [apply N.eqb_eq in E1; rewrite E1; reflexivity|].
  destruct (h_type hh =? HdrTo) eqn:E2; [apply N.eqb_eq in E2; rewrite E2; reflexivity|]. discriminate Hs.
Qed.
