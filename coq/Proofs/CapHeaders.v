(* C13 for the header list and the whole message: capacities of the header array and of the contact
   array only truncate what is stored. *)
From Sipsp Require Import RunLemmas Safe Resume Ext ExtLeaf ZSlice Harness ExtNameAddr ExtNested ExtLists ExtAdv OkBounds
  ExtHdrLine HdrLineBounds ExtHeaders Sim Capacity.
From Coq Require Import ZifyN ZifyNat ZifyBool.

(* ---- the header array ---------------------------------------------------------------------------------------- *)
Definition hl_wf (l : hdrlst) : Prop :=
  (forall j, (N.to_nat (hl_n l) < j)%nat -> nth j (hl_hdrs l) hdr0 = hdr0) /\ (hl_n l < hl_cap l -> hl_tmp l = hdr0).
Definition hl_prefix (l l' : hdrlst) : Prop :=
  forall j, (j < N.to_nat (hl_n l))%nat -> (j < length (hl_hdrs l))%nat -> (j < length (hl_hdrs l'))%nat ->
    nth j (hl_hdrs l) hdr0 = nth j (hl_hdrs l') hdr0.
Definition hl_scal (l l' : hdrlst) : Prop :=
  hl_pflags l = hl_pflags l' /\ hl_n l = hl_n l' /\ hl_first l = hl_first l'.
Definition Rhl (l l' : hdrlst) : Prop := hl_scal l l' /\ hl_slot l = hl_slot l' /\ hl_prefix l l' /\ hl_wf l /\ hl_wf l'.
Definition Rhl_w (l l' : hdrlst) : Prop := hl_scal l l' /\ hl_prefix l l'.

Lemma hl_store_proj l h :
  hl_pflags (hl_store l h) = hl_pflags l /\ hl_n (hl_store l h) = hl_n l /\ hl_first (hl_store l h) = hl_first l /\
  hl_hdrs (hl_store l h) = (if hl_is_tmp l then hl_hdrs l else set_nth (N.to_nat (hl_n l)) h (hl_hdrs l)) /\
  hl_tmp (hl_store l h) = (if hl_is_tmp l then h else hl_tmp l).
Proof. unfold hl_store. destruct (hl_is_tmp l); destruct l; cbn; repeat split; reflexivity. Qed.

Lemma hl_prefix_store l l' h : hl_n l = hl_n l' -> hl_prefix l l' -> hl_prefix (hl_store l h) (hl_store l' h).
Proof.
  intros A Hpre j Hj Hlen Hlen'.
  destruct (hl_store_proj l h) as (_ & S2 & _ & S4 & _). destruct (hl_store_proj l' h) as (_ & S2' & _ & S4' & _).
  rewrite S2 in Hj. rewrite S4 in *. rewrite S4' in *.
  assert (E : forall c : hdrlst, (j < N.to_nat (hl_n c))%nat ->
            nth j (if hl_is_tmp c then hl_hdrs c else set_nth (N.to_nat (hl_n c)) h (hl_hdrs c)) hdr0 = nth j (hl_hdrs c) hdr0
            /\ length (if hl_is_tmp c then hl_hdrs c else set_nth (N.to_nat (hl_n c)) h (hl_hdrs c)) = length (hl_hdrs c)).
  { intros c Hc. destruct (hl_is_tmp c); [auto|]. rewrite set_nth_len. split; [|reflexivity]. apply nth_set_nth_ne. lia. }
  destruct (E l Hj) as [E1 E2]. destruct (E l' ltac:(lia)) as [E1' E2']. rewrite E1, E1'. rewrite E2 in Hlen. rewrite E2' in Hlen'.
  apply Hpre; assumption.
Qed.

Lemma hl_wf_store l h : hl_wf l -> hl_wf (hl_store l h).
Proof.
  intros [W1 W2]. destruct (hl_store_proj l h) as (_ & S2 & _ & S4 & S5). split.
  - intros j Hj. rewrite S2 in Hj. rewrite S4. destruct (hl_is_tmp l); [apply W1; exact Hj|].
    rewrite nth_set_nth_ne by lia. apply W1. exact Hj.
  - rewrite S2, S5. unfold hl_cap. rewrite S4. unfold hl_is_tmp, hl_cap in *. intros H.
    destruct (nnat (length (hl_hdrs l)) <=? hl_n l) eqn:E; [lia|]. rewrite set_nth_len in H. apply W2. exact H.
Qed.

Lemma Rhl_store l l' h : Rhl l l' -> Rhl (hl_store l h) (hl_store l' h).
Proof.
  intros ((A1 & A2 & A3) & Hslot & Hpre & Hwf & Hwf').
  destruct (hl_store_proj l h) as (S1 & S2 & S3 & S4 & S5). destruct (hl_store_proj l' h) as (S1' & S2' & S3' & S4' & S5').
  split; [unfold hl_scal; rewrite S1, S2, S3, S1', S2', S3'; auto|].
  split; [now rewrite !hl_slot_store|]. split; [apply hl_prefix_store; assumption|].
  split; apply hl_wf_store; assumption.
Qed.

(* X: the list after header h was stored in slot n of l and counted *)
Section HlNext.
  Variables (l X : hdrlst) (h : hdr).
  Hypothesis Hwf : hl_wf l.
  Hypothesis Hn : hl_n X = hl_n l + 1.
  Hypothesis Hhdrs : hl_hdrs X = (if hl_is_tmp l then hl_hdrs l else set_nth (N.to_nat (hl_n l)) h (hl_hdrs l)).
  Hypothesis Htmp : hl_tmp X = (if hl_is_tmp l then hdr0 else hl_tmp l).

  Lemma hnext_len : length (hl_hdrs X) = length (hl_hdrs l).
  Proof. rewrite Hhdrs. destruct (hl_is_tmp l); [reflexivity|apply set_nth_len]. Qed.
  Lemma hnext_slot : hl_slot X = hdr0.
  Proof.
    unfold hl_slot, hl_is_tmp, hl_cap. rewrite hnext_len, Hn, Htmp, Hhdrs. destruct Hwf as [W1 W2].
    unfold hl_is_tmp, hl_cap in *.
    destruct (nnat (length (hl_hdrs l)) <=? hl_n l) eqn:E.
    - replace (nnat (length (hl_hdrs l)) <=? hl_n l + 1) with true by lia. reflexivity.
    - destruct (nnat (length (hl_hdrs l)) <=? hl_n l + 1) eqn:E2; [apply W2; lia|].
      rewrite nth_set_nth_ne by lia. apply W1. lia.
  Qed.
  Lemma hnext_nth j : (j <= N.to_nat (hl_n l))%nat -> (j < length (hl_hdrs l))%nat ->
    nth j (hl_hdrs X) hdr0 = if (j =? N.to_nat (hl_n l))%nat then h else nth j (hl_hdrs l) hdr0.
  Proof.
    intros Hj Hlen. rewrite Hhdrs. unfold hl_is_tmp, hl_cap. destruct (nnat (length (hl_hdrs l)) <=? hl_n l) eqn:E.
    - replace (j =? N.to_nat (hl_n l))%nat with false by (unfold nnat in *; lia). reflexivity.
    - destruct (j =? N.to_nat (hl_n l))%nat eqn:Ej.
      + apply Nat.eqb_eq in Ej. subst j. apply nth_set_nth. exact Hlen.
      + apply nth_set_nth_ne. lia.
  Qed.
  Lemma hnext_wf : hl_wf X.
  Proof.
    destruct Hwf as [W1 W2]. split.
    - intros j Hj. rewrite Hn in Hj. rewrite Hhdrs. destruct (hl_is_tmp l); [apply W1; lia|].
      rewrite nth_set_nth_ne by lia. apply W1. lia.
    - unfold hl_cap. rewrite hnext_len, Hn, Htmp. unfold hl_is_tmp, hl_cap in *. intros H.
      replace (nnat (length (hl_hdrs l)) <=? hl_n l) with false by lia. apply W2. lia.
  Qed.
End HlNext.

Lemma Rhl_next l l' h X X' : Rhl l l' -> hl_scal X X' ->
  hl_n X = hl_n l + 1 -> hl_n X' = hl_n l' + 1 ->
  hl_hdrs X = (if hl_is_tmp l then hl_hdrs l else set_nth (N.to_nat (hl_n l)) h (hl_hdrs l)) ->
  hl_hdrs X' = (if hl_is_tmp l' then hl_hdrs l' else set_nth (N.to_nat (hl_n l')) h (hl_hdrs l')) ->
  hl_tmp X = (if hl_is_tmp l then hdr0 else hl_tmp l) -> hl_tmp X' = (if hl_is_tmp l' then hdr0 else hl_tmp l') ->
  Rhl X X'.
Proof.
  intros ((A1 & A2 & A3) & Hslot & Hpre & Hwf & Hwf') Hsc Hn Hn' Hh Hh' Ht Ht'.
  split; [exact Hsc|]. split.
  { rewrite (hnext_slot l X h Hwf Hn Hh Ht), (hnext_slot l' X' h Hwf' Hn' Hh' Ht'). reflexivity. }
  split.
  { intros j Hj Hlen Hlen'. rewrite Hn in Hj. rewrite (hnext_len l X h Hh Ht) in Hlen. rewrite (hnext_len l' X' h Hh' Ht') in Hlen'.
    rewrite (hnext_nth l X h Hn Hh j) by lia. rewrite (hnext_nth l' X' h Hn' Hh' j) by lia. rewrite <- A2.
    destruct (j =? N.to_nat (hl_n l))%nat eqn:Ej; [reflexivity|]. apply Hpre; lia. }
  split; [exact (hnext_wf l X h Hwf Hn Hh Ht)|exact (hnext_wf l' X' h Hwf' Hn' Hh' Ht')].
Qed.

(* ---- parsed header values: only the contact array may differ --------------------------------------------------- *)
Definition pv_same (v v' : phvals) : Prop :=
  pv_from v = pv_from v' /\ pv_to v = pv_to v' /\ pv_callid v = pv_callid v' /\ pv_cseq v = pv_cseq v' /\
  pv_clen v = pv_clen v' /\ pv_pais v = pv_pais v' /\ pv_expires v = pv_expires v'.
Definition Rpv (v v' : phvals) : Prop := pv_same v v' /\ Rct (pv_contacts v) (pv_contacts v').
Definition Rpv_w (v v' : phvals) : Prop := pv_same v v' /\ Rct_w (pv_contacts v) (pv_contacts v').
Definition Ropt {A} (R : A -> A -> Prop) (o o' : option A) : Prop :=
  match o, o' with None, None => True | Some v, Some v' => R v v' | _, _ => False end.

Lemma Rct_weaken c c' : Rct c c' -> Rct_w c c'.
Proof. intros (H1 & _ & _ & H2 & _). split; assumption. Qed.
Lemma Rpv_weaken v v' : Rpv v v' -> Rpv_w v v'.
Proof. intros [H1 H2]. split; [exact H1|apply Rct_weaken; exact H2]. Qed.
Lemma Ropt_weaken o o' : Ropt Rpv o o' -> Ropt Rpv_w o o'.
Proof. destruct o, o'; cbn; auto. apply Rpv_weaken. Qed.

Definition strong (e : err) : bool := match e with EOk | EMore | EEmpty => true | _ => false end.
Definition Rhline (st st' : hline) : Prop := hx_h st = hx_h st' /\ Ropt Rpv (hx_pv st) (hx_pv st').
Definition Qhline (o : N) (e : err) (st st' : hline) : Prop :=
  hx_h st = hx_h st' /\ Ropt (if strong e then Rpv else Rpv_w) (hx_pv st) (hx_pv st').

Lemma Qhline_of_R o e st st' : Rhline st st' -> Qhline o e st st'.
Proof. intros [H1 H2]. split; [exact H1|]. destruct (strong e); [exact H2|apply Ropt_weaken; exact H2]. Qed.

(* value parsers working on a component that is equal in both objects *)
Lemma hb_finish_same {B} (r : res B) st st' valof (put put' : B -> phvals) :
  hx_h st = hx_h st' -> (forall b, Rpv (put b) (put' b)) ->
  ires_rel Rhline Qhline (hb_finish r st valof put) (hb_finish r st' valof put').
Proof.
  intros Hh Hp. unfold hb_finish. destruct r as [n e b| |]; cbn; auto.
  split; [reflexivity|]. split; [reflexivity|]. apply Qhline_of_R. split; [cbn; now rewrite Hh|cbn; apply Hp].
Qed.

Lemma Rct_newhdr c c' : Rct c c' ->
  Rct (c <| ct_hno := ct_hno c + 1 |> <| ct_lasthval := pf0 |>) (c' <| ct_hno := ct_hno c' + 1 |> <| ct_lasthval := pf0 |>).
Proof.
  destruct c as [vals n hno mx mn lh last first], c' as [vals' n' hno' mx' mn' lh' last' first'].
  unfold Rct, ct_scal, ct_prefix, ct_wf, ct_firstval, ct_cap. rewrite !ct_sel_eq. cbn.
  intros ((-> & -> & -> & -> & ->) & H2 & H3 & H4 & H5 & H6). repeat split; auto; try apply H5; try apply H6.
  change (ct_sel (mkcontacts vals n' (hno' + 1) mx' mn' pf0 last first) = ct_sel (mkcontacts vals' n' (hno' + 1) mx' mn' pf0 last' first')).
  rewrite !ct_sel_eq. exact H2.
Qed.

Lemma hb_run_sim hs pre rest o st st' v v' : hx_h st = hx_h st' -> Rpv v v' ->
  ires_rel Rhline Qhline (hb_run hs pre rest o st v) (hb_run hs pre rest o st' v').
Proof.
  intros Hh ((F1 & F2 & F3 & F4 & F5 & F6 & F7) & Hc). unfold hb_run.
  assert (Hh2 : hx_h (st <| hx_h := (hx_h st) <| h_state := hs |> |>) = hx_h (st' <| hx_h := (hx_h st') <| h_state := hs |> |>))
    by (destruct st, st'; cbn in *; now rewrite Hh).
  destruct hs; try exact I.
  - rewrite <- F1. apply hb_finish_same; [exact Hh2|]. intros b. destruct v, v'; cbn in *. repeat split; auto; apply Hc.
  - rewrite <- F2. apply hb_finish_same; [exact Hh2|]. intros b. destruct v, v'; cbn in *. repeat split; auto; apply Hc.
  - rewrite <- F3. apply hb_finish_same; [exact Hh2|]. intros b. destruct v, v'; cbn in *. repeat split; auto; apply Hc.
  - rewrite <- F4. apply hb_finish_same; [exact Hh2|]. intros b. destruct v, v'; cbn in *. repeat split; auto; apply Hc.
  - rewrite <- F5. apply hb_finish_same; [exact Hh2|]. intros b. destruct v, v'; cbn in *. repeat split; auto; apply Hc.
  - (* Contact *)
    pose proof (run_sim ct_iter ct_iter Rct Qct ct_iter_sim rest pre o 0 _ _ Hc) as Hr.
    pose proof (fun n b => run_noE ct_iter ct_iter_noE rest pre o (pv_contacts v) n b) as HnE.
    unfold hb_finish. unfold res_rel in Hr.
    destruct (run ct_iter pre rest o 0 (pv_contacts v)) as [n e b| |], (run ct_iter pre rest o 0 (pv_contacts v')) as [n' e' b'| |]; try contradiction; auto.
    destruct Hr as (<- & <- & Hq). cbn [ires_rel]. split; [reflexivity|]. split; [reflexivity|].
    assert (Hlv : ct_lasthval b = ct_lasthval b').
    { unfold Qct in Hq. destruct e; try (destruct Hq as [(_ & _ & _ & _ & H) _]; exact H);
        try (destruct Hq as [[(_ & _ & _ & _ & H) _] _]; exact H). }
    split.
    + cbn [hx_h]. rewrite Hh2, Hlv. reflexivity.
    + cbn. assert (Hsame : pv_same (v <| pv_contacts := b |>) (v' <| pv_contacts := b' |>)) by (destruct v, v'; cbn in *; repeat split; auto).
      destruct e; cbn [strong]; try (split; [exact Hsame|destruct v, v'; exact Hq]).
      * split; [exact Hsame|]. destruct v, v'. exact (proj1 Hq).
      * exfalso. exact (HnE n b eq_refl).
  - rewrite <- F7. apply hb_finish_same; [exact Hh2|]. intros b. destruct v, v'; cbn in *. repeat split; auto; apply Hc.
  - rewrite <- F6. apply hb_finish_same; [exact Hh2|]. intros b. destruct v, v'; cbn in *. repeat split; auto; apply Hc.
Qed.

(* ---- the header line --------------------------------------------------------------------------------------------- *)
Lemma hb_pick_sim st st' : Rhline st st' ->
  match hb_pick st, hb_pick st' with
  | None, None => True
  | Some (hs, v), Some (hs', v') => hs = hs' /\ Rpv v v'
  | _, _ => False
  end.
Proof.
  intros [Hh Hp]. unfold hb_pick. rewrite <- Hh.
  destruct (hx_pv st) as [v|], (hx_pv st') as [v'|]; try contradiction; [|exact I]. cbv zeta.
  destruct Hp as ((F1 & F2 & F3 & F4 & F5 & F6 & F7) & Hc). rewrite <- F1, <- F2, <- F3, <- F4, <- F5, <- F7.
  assert (HR : Rpv v v') by (repeat split; auto; apply Hc).
  repeat match goal with |- context [if ?b then _ else _] => destruct b end; try exact I; try (split; [reflexivity|exact HR]).
  - split; [reflexivity|]. destruct v, v'; cbn in *. split; [repeat split; auto|]. apply Rct_newhdr. exact Hc.
  - split; [reflexivity|]. destruct v, v'; cbn in *. subst. split; [repeat split; auto|]. exact Hc.
Qed.

Lemma colon_sim pre rest i k st st' : Rhline st st' ->
  ires_rel Rhline Qhline (hl_colon pre rest i k st) (hl_colon pre rest i k st').
Proof.
  intros [Hh Hp]. rewrite !hl_colon_eq. unfold hl_colon'. rewrite <- Hh.
  destruct (zget pre rest i (h_name (hx_h st))) as [name|]; [|exact I]. cbv zeta.
  set (st1 := st <| hx_h := _ |>). set (st1' := st' <| hx_h := _ |>).
  assert (HR1 : Rhline st1 st1') by (subst st1 st1'; destruct st, st'; cbn in *; split; [now rewrite Hh|exact Hp]).
  pose proof (hb_pick_sim st1 st1' HR1) as Hk.
  destruct (hb_pick st1) as [[hs v]|], (hb_pick st1') as [[hs' v']|]; try contradiction.
  - destruct Hk as [<- Hv]. apply hb_run_sim; [apply HR1|exact Hv].
  - cbn. split; [reflexivity|exact HR1].
Qed.

Ltac hline_same :=
  match goal with
  | |- ires_rel Rhline Qhline (Next _ ?a) (Next _ ?b) => split; [reflexivity|]
  | |- ires_rel Rhline Qhline (Ret _ _ ?a) (Ret _ _ ?b) => split; [reflexivity|]; split; [reflexivity|]; apply Qhline_of_R
  | |- ires_rel Rhline Qhline IPanic IPanic => exact I
  end.

Lemma Rhline_seth st st' (f : hdr -> hdr) : Rhline st st' -> Rhline (st <| hx_h := f (hx_h st) |>) (st' <| hx_h := f (hx_h st') |>).
Proof. intros [Hh Hp]. destruct st, st'; cbn in *. split; [now rewrite Hh|exact Hp]. Qed.

Lemma name_sim pre rest i st st' : Rhline st st' ->
  ires_rel Rhline Qhline (hl_name_ph pre rest i st) (hl_name_ph pre rest i st').
Proof.
  intros HR. pose proof HR as [Hh Hp]. unfold hl_name_ph. rewrite <- Hh.
  destruct (skipn _ rest) as [|c r]; [hline_same; exact HR|].
  destruct (is_sp c).
  - destruct (pf_extend _ _) as [n|]; [|exact I].
    assert (HR2 := Rhline_seth st st' (fun h => h <| h_state := HNameEnd |> <| h_name := n |>) HR). cbn beta in HR2. rewrite <- Hh in HR2.
    destruct (pf_empty n); hline_same; exact HR2.
  - destruct (c =? 58); [|hline_same; exact HR]. destruct (pf_extend _ _) as [n|]; [|exact I].
    assert (HR2 := Rhline_seth st st' (fun h => h <| h_state := HBodyStart |> <| h_name := n |>) HR). cbn beta in HR2. rewrite <- Hh in HR2.
    destruct (pf_empty n); [hline_same; exact HR2|]. apply colon_sim. exact HR2.
Qed.

Lemma hl_iter_sim pre rest i st st' : Rhline st st' -> ires_rel Rhline Qhline (hit pre rest i st) (hit pre rest i st').
Proof.
  intros HR. pose proof HR as [Hh Hp]. destruct rest as [|c r1]; [cbn; split; [reflexivity|]; split; [reflexivity|]; apply Qhline_of_R; exact HR|].
  destruct (h_state (hx_h st)) eqn:Hs; assert (Hs' := Hs); rewrite Hh in Hs'.
  - rewrite !hit_init by assumption. rewrite <- Hh.
    pose proof (Rhline_seth st st' (fun h => h <| h_state := HFIN |>) HR) as HRf. cbn beta in HRf. rewrite <- Hh in HRf.
    destruct (is_cr c).
    { destruct r1 as [|d r2]; hline_same; [exact HR|exact HRf]. }
    destruct (is_lf c); [hline_same; exact HRf|]. destruct (pf_set i i) as [n|]; [|exact I].
    apply name_sim.
    assert (HR2 := Rhline_seth st st' (fun h => h <| h_state := HName |> <| h_name := n |>) HR). cbn beta in HR2. rewrite <- Hh in HR2. exact HR2.
  - rewrite !hit_name by assumption. apply name_sim. exact HR.
  - rewrite !hit_nameend by assumption. unfold hl_nameend.
    destruct (skipn _ (c :: r1)) as [|d r]; [hline_same; exact HR|].
    destruct (d =? 58); [apply colon_sim; exact HR|hline_same; exact HR].
  - rewrite !hit_bstart by assumption. unfold hl_bstart. rewrite <- Hh.
    destruct (skipLWS false (c :: r1)).
    + destruct (pf_set _ _) as [v|]; [|exact I]. hline_same.
      assert (HR2 := Rhline_seth st st' (fun h => h <| h_state := HVal |> <| h_val := v |>) HR). cbn beta in HR2. rewrite <- Hh in HR2. exact HR2.
    + hline_same. assert (HR2 := Rhline_seth st st' (fun h => h <| h_state := HFIN |>) HR). cbn beta in HR2. rewrite <- Hh in HR2. exact HR2.
    + hline_same. exact HR.
  - rewrite !hit_val by assumption. unfold hl_val. rewrite <- Hh.
    destruct (skipn _ (c :: r1)) as [|d r]; [hline_same; exact HR|]. destruct (pf_extend _ _) as [v|]; [|exact I].
    unfold hl_valend. destruct (skipLWS false (d :: r)); hline_same.
    + exact (Rhline_seth st st' (fun _ => _) HR).
    + exact (Rhline_seth st st' (fun _ => _) HR).
    + exact (Rhline_seth st st' (fun _ => _) HR).
  - rewrite !hit_valend by assumption. unfold hl_valend. rewrite <- Hh.
    destruct (skipLWS false (c :: r1)); hline_same.
    + exact (Rhline_seth st st' (fun _ => _) HR).
    + exact (Rhline_seth st st' (fun _ => _) HR).
    + exact (Rhline_seth st st' (fun _ => _) HR).
  - destruct (hx_pv st) as [v|] eqn:Hv, (hx_pv st') as [v'|] eqn:Hv'; try contradiction;
      [|rewrite !hit_nopv by (try rewrite Hs; try rewrite Hs'; auto); exact I].
    rewrite (hit_body HFrom _ _ _ _ _ v eq_refl Hs Hv), (hit_body HFrom _ _ _ _ _ v' eq_refl Hs' Hv'). apply hb_run_sim; assumption.
  - destruct (hx_pv st) as [v|] eqn:Hv, (hx_pv st') as [v'|] eqn:Hv'; try contradiction;
      [|rewrite !hit_nopv by (try rewrite Hs; try rewrite Hs'; auto); exact I].
    rewrite (hit_body HTo _ _ _ _ _ v eq_refl Hs Hv), (hit_body HTo _ _ _ _ _ v' eq_refl Hs' Hv'). apply hb_run_sim; assumption.
  - destruct (hx_pv st) as [v|] eqn:Hv, (hx_pv st') as [v'|] eqn:Hv'; try contradiction;
      [|rewrite !hit_nopv by (try rewrite Hs; try rewrite Hs'; auto); exact I].
    rewrite (hit_body HCallID _ _ _ _ _ v eq_refl Hs Hv), (hit_body HCallID _ _ _ _ _ v' eq_refl Hs' Hv'). apply hb_run_sim; assumption.
  - destruct (hx_pv st) as [v|] eqn:Hv, (hx_pv st') as [v'|] eqn:Hv'; try contradiction;
      [|rewrite !hit_nopv by (try rewrite Hs; try rewrite Hs'; auto); exact I].
    rewrite (hit_body HCSeq _ _ _ _ _ v eq_refl Hs Hv), (hit_body HCSeq _ _ _ _ _ v' eq_refl Hs' Hv'). apply hb_run_sim; assumption.
  - destruct (hx_pv st) as [v|] eqn:Hv, (hx_pv st') as [v'|] eqn:Hv'; try contradiction;
      [|rewrite !hit_nopv by (try rewrite Hs; try rewrite Hs'; auto); exact I].
    rewrite (hit_body HCLen _ _ _ _ _ v eq_refl Hs Hv), (hit_body HCLen _ _ _ _ _ v' eq_refl Hs' Hv'). apply hb_run_sim; assumption.
  - destruct (hx_pv st) as [v|] eqn:Hv, (hx_pv st') as [v'|] eqn:Hv'; try contradiction;
      [|rewrite !hit_nopv by (try rewrite Hs; try rewrite Hs'; auto); exact I].
    rewrite (hit_body HContact _ _ _ _ _ v eq_refl Hs Hv), (hit_body HContact _ _ _ _ _ v' eq_refl Hs' Hv'). apply hb_run_sim; assumption.
  - destruct (hx_pv st) as [v|] eqn:Hv, (hx_pv st') as [v'|] eqn:Hv'; try contradiction;
      [|rewrite !hit_nopv by (try rewrite Hs; try rewrite Hs'; auto); exact I].
    rewrite (hit_body HExpires _ _ _ _ _ v eq_refl Hs Hv), (hit_body HExpires _ _ _ _ _ v' eq_refl Hs' Hv'). apply hb_run_sim; assumption.
  - destruct (hx_pv st) as [v|] eqn:Hv, (hx_pv st') as [v'|] eqn:Hv'; try contradiction;
      [|rewrite !hit_nopv by (try rewrite Hs; try rewrite Hs'; auto); exact I].
    rewrite (hit_body HPAI _ _ _ _ _ v eq_refl Hs Hv), (hit_body HPAI _ _ _ _ _ v' eq_refl Hs' Hv'). apply hb_run_sim; assumption.
  - rewrite !hit_fin by assumption. hline_same. exact HR.
Qed.

(* ---- the header block --------------------------------------------------------------------------------------------- *)
Definition Rhs (st st' : hdrs_st) : Prop := Rhl (hs_l st) (hs_l st') /\ Ropt Rpv (hs_pv st) (hs_pv st').
Definition Rhs_w (st st' : hdrs_st) : Prop := Rhl_w (hs_l st) (hs_l st') /\ Ropt Rpv_w (hs_pv st) (hs_pv st').
Definition Qhs (o : N) (e : err) (st st' : hdrs_st) : Prop :=
  match e with EOk | EMore => Rhs st st' | _ => Rhs_w st st' end.

Lemma Rhl_weaken l l' : Rhl l l' -> Rhl_w l l'.
Proof. intros (H1 & _ & H2 & _). split; assumption. Qed.

Lemma hl_sethdr_proj l h :
  hl_pflags (hl_sethdr l h) = hl_pflags l /\ hl_n (hl_sethdr l h) = hl_n l /\ hl_hdrs (hl_sethdr l h) = hl_hdrs l /\
  hl_tmp (hl_sethdr l h) = hl_tmp l /\
  hl_first (hl_sethdr l h) =
    (if (1 <=? h_type h) && (h_type h - 1 <? nnat (length (hl_first l))) && h_missing (nth (N.to_nat (h_type h - 1)) (hl_first l) hdr0)
     then set_nth (N.to_nat (h_type h - 1)) h (hl_first l) else hl_first l).
Proof. unfold hl_sethdr. destruct (_ && _); destruct l; cbn; repeat split; reflexivity. Qed.

Lemma hs_post_sim pre rest i st st' n e x x' : Rhs st st' -> Qhline n e x x' ->
  ires_rel Rhs Qhs (hs_post pre rest i st n e x) (hs_post pre rest i st' n e x').
Proof.
  intros [HRl HRp] [Hxh Hxp]. unfold hs_post. cbv zeta. rewrite <- Hxh.
  set (h := hx_h x). pose proof (Rhl_store _ _ h HRl) as HR1.
  destruct e; cbn [strong] in Hxp.
  - (* EOk: the header is counted *)
    split; [reflexivity|]. split; [|exact Hxp]. cbn [hs_l].
    destruct HRl as ((A1 & A2 & A3) & Hslot & Hpre & Hwf & Hwf').
    destruct (hl_store_proj (hs_l st) h) as (S1 & S2 & S3 & S4 & S5). destruct (hl_store_proj (hs_l st') h) as (S1' & S2' & S3' & S4' & S5').
    set (l1 := hl_store (hs_l st) h) in *. set (l1' := hl_store (hs_l st') h) in *.
    set (p1 := l1 <| hl_pflags := _ |>). set (p1' := l1' <| hl_pflags := _ |>).
    assert (Pp : hl_pflags p1 = N.lor (hl_pflags l1) (2 ^ h_type h) mod 65536 /\ hl_n p1 = hl_n l1 /\ hl_hdrs p1 = hl_hdrs l1 /\ hl_tmp p1 = hl_tmp l1 /\ hl_first p1 = hl_first l1)
      by (subst p1; destruct l1; cbn; repeat split; reflexivity).
    assert (Pp' : hl_pflags p1' = N.lor (hl_pflags l1') (2 ^ h_type h) mod 65536 /\ hl_n p1' = hl_n l1' /\ hl_hdrs p1' = hl_hdrs l1' /\ hl_tmp p1' = hl_tmp l1' /\ hl_first p1' = hl_first l1')
      by (subst p1'; destruct l1'; cbn; repeat split; reflexivity).
    destruct Pp as (B1 & B2 & B3 & B4 & B5). destruct Pp' as (B1' & B2' & B3' & B4' & B5').
    destruct (hl_sethdr_proj p1 h) as (C1 & C2 & C3 & C4 & C5). destruct (hl_sethdr_proj p1' h) as (C1' & C2' & C3' & C4' & C5').
    set (l2 := hl_sethdr p1 h) in *. set (l2' := hl_sethdr p1' h) in *.
    set (l3 := if hl_is_tmp (hs_l st) then l2 <| hl_tmp := hdr0 |> else l2).
    set (l3' := if hl_is_tmp (hs_l st') then l2' <| hl_tmp := hdr0 |> else l2').
    assert (D : hl_pflags l3 = hl_pflags l2 /\ hl_n l3 = hl_n l2 /\ hl_hdrs l3 = hl_hdrs l2 /\ hl_first l3 = hl_first l2 /\
                hl_tmp l3 = (if hl_is_tmp (hs_l st) then hdr0 else hl_tmp l2))
      by (subst l3; destruct (hl_is_tmp (hs_l st)); destruct l2; cbn; repeat split; reflexivity).
    assert (D' : hl_pflags l3' = hl_pflags l2' /\ hl_n l3' = hl_n l2' /\ hl_hdrs l3' = hl_hdrs l2' /\ hl_first l3' = hl_first l2' /\
                hl_tmp l3' = (if hl_is_tmp (hs_l st') then hdr0 else hl_tmp l2'))
      by (subst l3'; destruct (hl_is_tmp (hs_l st')); destruct l2'; cbn; repeat split; reflexivity).
    destruct D as (D1 & D2 & D3 & D4 & D5). destruct D' as (D1' & D2' & D3' & D4' & D5').
    assert (F : forall q : hdrlst, hl_pflags (q <| hl_n := hl_n q + 1 |>) = hl_pflags q /\ hl_n (q <| hl_n := hl_n q + 1 |>) = hl_n q + 1 /\
               hl_hdrs (q <| hl_n := hl_n q + 1 |>) = hl_hdrs q /\ hl_first (q <| hl_n := hl_n q + 1 |>) = hl_first q /\
               hl_tmp (q <| hl_n := hl_n q + 1 |>) = hl_tmp q) by (intros q; destruct q; cbn; repeat split; reflexivity).
    destruct (F l3) as (G1 & G2 & G3 & G4 & G5). destruct (F l3') as (G1' & G2' & G3' & G4' & G5').
    apply (Rhl_next (hs_l st) (hs_l st') h).
    + exact (conj (conj A1 (conj A2 A3)) (conj Hslot (conj Hpre (conj Hwf Hwf')))).
    + unfold hl_scal. rewrite G1, G2, G4, G1', G2', G4', D1, D2, D4, D1', D2', D4', C1, C2, C5, C1', C2', C5', B1, B2, B5, B1', B2', B5', S1, S2, S3, S1', S2', S3', A1, A2, A3.
      repeat split; reflexivity.
    + rewrite G2, D2, C2, B2, S2. reflexivity.
    + rewrite G2', D2', C2', B2', S2'. reflexivity.
    + rewrite G3, D3, C3, B3, S4. reflexivity.
    + rewrite G3', D3', C3', B3', S4'. reflexivity.
    + rewrite G5, D5, C4, B4, S5. destruct (hl_is_tmp (hs_l st)); reflexivity.
    + rewrite G5', D5', C4', B4', S5'. destruct (hl_is_tmp (hs_l st')); reflexivity.
  - split; [reflexivity|]. split; [reflexivity|]. split; [apply Rhl_weaken; exact HR1|exact Hxp].
  - (* EEmpty: end of the block *)
    destruct HR1 as ((A1 & A2 & A3) & R2). rewrite <- A2.
    destruct (0 <? hl_n (hl_store (hs_l st) h)); (split; [reflexivity|]); (split; [reflexivity|]).
    + split; [split; [repeat split; assumption|exact R2]|exact Hxp].
    + split; [apply Rhl_weaken; split; [repeat split; assumption|exact R2]|apply Ropt_weaken; exact Hxp].
  - split; [reflexivity|]. split; [reflexivity|]. split; [exact HR1|exact Hxp].
  - split; [reflexivity|]. split; [reflexivity|]. split; [apply Rhl_weaken; exact HR1|exact Hxp].
  - split; [reflexivity|]. split; [reflexivity|]. split; [apply Rhl_weaken; exact HR1|exact Hxp].
  - split; [reflexivity|]. split; [reflexivity|]. split; [apply Rhl_weaken; exact HR1|exact Hxp].
  - split; [reflexivity|]. split; [reflexivity|]. split; [apply Rhl_weaken; exact HR1|exact Hxp].
  - split; [reflexivity|]. split; [reflexivity|]. split; [apply Rhl_weaken; exact HR1|exact Hxp].
  - split; [reflexivity|]. split; [reflexivity|]. split; [apply Rhl_weaken; exact HR1|exact Hxp].
  - split; [reflexivity|]. split; [reflexivity|]. split; [apply Rhl_weaken; exact HR1|exact Hxp].
  - split; [reflexivity|]. split; [reflexivity|]. split; [apply Rhl_weaken; exact HR1|exact Hxp].
  - split; [reflexivity|]. split; [reflexivity|]. split; [apply Rhl_weaken; exact HR1|exact Hxp].
  - split; [reflexivity|]. split; [reflexivity|]. split; [apply Rhl_weaken; exact HR1|exact Hxp].
  - split; [reflexivity|]. split; [reflexivity|]. split; [apply Rhl_weaken; exact HR1|exact Hxp].
  - split; [reflexivity|]. split; [reflexivity|]. split; [apply Rhl_weaken; exact HR1|exact Hxp].
  - split; [reflexivity|]. split; [reflexivity|]. split; [apply Rhl_weaken; exact HR1|exact Hxp].
  - split; [reflexivity|]. split; [reflexivity|]. split; [apply Rhl_weaken; exact HR1|exact Hxp].
Qed.

Lemma hs_iter_sim pre rest i st st' : Rhs st st' -> ires_rel Rhs Qhs (hs_iter pre rest i st) (hs_iter pre rest i st').
Proof.
  intros HR. destruct rest as [|c r]; [cbn; split; [reflexivity|]; split; [reflexivity|exact HR]|].
  rewrite !hs_iter_def. pose proof HR as [HRl HRp].
  assert (Hsel : Rhline (hs_sel st) (hs_sel st')) by (unfold hs_sel; split; [cbn; apply HRl|exact HRp]).
  pose proof (run_sim hl_iter hl_iter Rhline Qhline hl_iter_sim (c :: r) pre i 0 _ _ Hsel) as Hr. unfold res_rel in Hr.
  destruct (run hl_iter pre (c :: r) i 0 (hs_sel st)) as [n e x| |], (run hl_iter pre (c :: r) i 0 (hs_sel st')) as [n' e' x'| |]; try contradiction; auto.
  destruct Hr as (<- & <- & Hq). apply hs_post_sim; assumption.
Qed.

(* ParseHeaders on two objects that differ only in the capacities of the header and contact arrays *)
Theorem headers_capacity buf offs st st' : Rhs st st' ->
  res_rel Qhs (parse_headers buf offs st) (parse_headers buf offs st').
Proof. apply (parse_sim hs_iter hs_iter Rhs Qhs hs_iter_sim). Qed.

(* ---- the message ---------------------------------------------------------------------------------------------------- *)
Definition Rmsg_gen (Rh : hdrs_st -> hdrs_st -> Prop) (m m' : pmsg) : Prop :=
  m_fl m = m_fl m' /\ m_body m = m_body m' /\ m_buflen m = m_buflen m' /\ m_raw m = m_raw m' /\
  m_state m = m_state m' /\ m_offs m = m_offs m' /\ Rh (m_hs m) (m_hs m').
Definition Rmsg := Rmsg_gen Rhs.
Definition Rmsg_w := Rmsg_gen Rhs_w.
Definition Qmsg (o : N) (e : err) (m m' : pmsg) : Prop :=
  match e with EOk | EMore => Rmsg m m' | _ => Rmsg_w m m' end.

Lemma Rhs_weaken st st' : Rhs st st' -> Rhs_w st st'.
Proof. intros [H1 H2]. split; [apply Rhl_weaken; exact H1|apply Ropt_weaken; exact H2]. Qed.
Lemma Rmsg_weaken m m' : Rmsg m m' -> Rmsg_w m m'.
Proof. intros (H1 & H2 & H3 & H4 & H5 & H6 & H7). repeat split; auto; apply Rhs_weaken; exact H7. Qed.
Lemma Qmsg_of_R o e m m' : Rmsg m m' -> Qmsg o e m m'.
Proof. intros H. unfold Qmsg. destruct e; auto; apply Rmsg_weaken; exact H. Qed.

Lemma clen_same hs hs' : Rhs_w hs hs' ->
  pv_clen (match hs_pv hs with Some v => v | None => phvals_init [] end)
  = pv_clen (match hs_pv hs' with Some v => v | None => phvals_init [] end).
Proof.
  intros [_ Hp]. destruct (hs_pv hs) as [v|], (hs_pv hs') as [v'|]; try contradiction; [|reflexivity].
  destruct Hp as ((_ & _ & _ & _ & H & _) & _). exact H.
Qed.

Definition mres_rel := @res_rel pmsg pmsg Qmsg.
Ltac msg_fields := unfold Qmsg, Rmsg, Rmsg_w, Rmsg_gen; cbn; do 6 (split; [reflexivity|]).

Lemma body_sim flags L o m m' : Rmsg m m' -> mres_rel (msg_body flags L o m) (msg_body flags L o m').
Proof.
  destruct m as [fl hs body bl raw st offs], m' as [fl' hs' body' bl' raw' st' offs'].
  intros (H1 & H2 & H3 & H4 & H5 & H6 & H7). cbn in H1, H2, H3, H4, H5, H6, H7. subst fl' body' bl' raw' st' offs'.
  pose proof (clen_same hs hs' (Rhs_weaken _ _ H7)) as Hc.
  unfold msg_body, msg_end, msg_pv. destruct (pf_set o o) as [b0|]; [|exact I]. cbn. rewrite <- Hc.
  set (cl := pv_clen _).
  repeat match goal with
         | |- context [if ?b then _ else _] => destruct b
         | |- context [match pf_extend ?a ?b with _ => _ end] => destruct (pf_extend a b)
         end; try exact I; (split; [reflexivity|]); (split; [reflexivity|]); msg_fields; first [exact H7|apply Rhs_weaken; exact H7].
Qed.

Definition strongm (e : err) : bool := match e with EOk | EMore => true | _ => false end.
Lemma fail_sim flags o e m m' : (if strongm e then Rmsg m m' else Rmsg_w m m') -> mres_rel (msg_fail flags o e m) (msg_fail flags o e m').
Proof.
  destruct m as [fl hs body bl raw st offs], m' as [fl' hs' body' bl' raw' st' offs'].
  unfold msg_fail. destruct e; cbn [strongm]; intros (H1 & H2 & H3 & H4 & H5 & H6 & H7); cbn in H1, H2, H3, H4, H5, H6, H7;
    subst fl' body' bl' raw' st' offs'; try destruct (testbit flags bSIPMsgNoMoreData);
    (split; [reflexivity|]); (split; [reflexivity|]); msg_fields; first [exact H7|apply Rhs_weaken; exact H7].
Qed.

Lemma headers_sim flags buf o m m' : Rmsg m m' -> mres_rel (msg_headers flags buf o m) (msg_headers flags buf o m').
Proof.
  destruct m as [fl hs body bl raw st offs], m' as [fl' hs' body' bl' raw' st' offs'].
  intros (H1 & H2 & H3 & H4 & H5 & H6 & H7). cbn in H1, H2, H3, H4, H5, H6, H7. subst fl' body' bl' raw' st' offs'.
  unfold msg_headers. cbn [m_hs].
  pose proof (headers_capacity buf o _ _ H7) as Hr. unfold res_rel in Hr.
  destruct (parse_headers buf o hs) as [o1 e hs1| |], (parse_headers buf o hs') as [o1' e' hs1'| |]; try contradiction; try exact I.
  destruct Hr as (<- & <- & Hq).
  destruct e; try (apply fail_sim; cbn [strongm]; msg_fields; exact Hq).
  apply body_sim. msg_fields. exact Hq.
Qed.

Lemma fline_sim flags buf o m m' : Rmsg m m' -> mres_rel (msg_fline flags buf o m) (msg_fline flags buf o m').
Proof.
  destruct m as [fl hs body bl raw st offs], m' as [fl' hs' body' bl' raw' st' offs'].
  intros (H1 & H2 & H3 & H4 & H5 & H6 & H7). cbn in H1, H2, H3, H4, H5, H6, H7. subst fl' body' bl' raw' st' offs'.
  unfold msg_fline. cbn [m_fl].
  destruct (parse_fline buf o fl) as [o1 e fl1| |]; try exact I.
  destruct e; try (apply fail_sim; cbn [strongm]; msg_fields; first [exact H7|apply Rhs_weaken; exact H7]).
  apply headers_sim. msg_fields. exact H7.
Qed.

(* ParseSIPMsg on two message objects that differ only in the capacities of their header and contact arrays *)
Theorem message_capacity flags buf k m m' : Rmsg m m' ->
  mres_rel (parse_sipmsg flags buf k m) (parse_sipmsg flags buf k m').
Proof.
  destruct m as [fl hs body bl raw st offs], m' as [fl' hs' body' bl' raw' st' offs'].
  intros (H1 & H2 & H3 & H4 & H5 & H6 & H7). cbn in H1, H2, H3, H4, H5, H6, H7. subst fl' body' bl' raw' st' offs'.
  unfold parse_sipmsg. cbn -[msg_fline msg_headers msg_body msg_fail].
  destruct st.
  - apply fline_sim. msg_fields. exact H7.
  - apply fline_sim. msg_fields. exact H7.
  - apply headers_sim. msg_fields. exact H7.
  - apply body_sim. msg_fields. exact H7.
  - apply fail_sim. cbn [strongm]. msg_fields. apply Rhs_weaken. exact H7.
  - apply fail_sim. cbn [strongm]. msg_fields. apply Rhs_weaken. exact H7.
  - apply fail_sim. cbn [strongm]. msg_fields. apply Rhs_weaken. exact H7.
Qed.

(* ---- fresh objects of any capacities are related; so are reset ones ------------------------------------------------ *)
Lemma nth_repeat {A} (x : A) k j : nth j (repeat x k) x = x.
Proof. revert j; induction k as [|k IH]; intros [|j]; cbn; auto. Qed.

Lemma Rhl_init n m : Rhl (hdrlst_init (repeat hdr0 n)) (hdrlst_init (repeat hdr0 m)).
Proof.
  unfold Rhl, hl_scal, hl_prefix, hl_wf, hdrlst_init, hl_slot, hl_is_tmp, hl_cap. cbn.
  split; [auto|]. split; [rewrite !nth_repeat; destruct (_ <=? 0), (_ <=? 0); reflexivity|].
  split; [intros j Hj; lia|]. repeat split; intros; apply nth_repeat.
Qed.
Lemma Rpv_init n m : Rpv (phvals_init (repeat pfrom0 n)) (phvals_init (repeat pfrom0 m)).
Proof. split; [repeat split; reflexivity|apply Rct_init]. Qed.
Lemma Rmsg_init L nh nh' nc nc' :
  Rmsg (msg_init L (repeat hdr0 nh) (repeat pfrom0 nc)) (msg_init L (repeat hdr0 nh') (repeat pfrom0 nc')).
Proof. unfold Rmsg, Rmsg_gen, msg_init. cbn. do 6 (split; [reflexivity|]). split; [apply Rhl_init|apply Rpv_init]. Qed.

Lemma map_const_repeat {A B} (x : B) (l : list A) : map (fun _ => x) l = repeat x (length l).
Proof. induction l; cbn; congruence. Qed.
Lemma Rmsg_reset m m' : Rmsg_w m m' -> Rmsg (msg_reset m) (msg_reset m').
Proof.
  intros (_ & _ & Hb & _ & _ & _ & _). unfold msg_reset. rewrite Hb, !map_const_repeat. apply Rmsg_init.
Qed.

(* ---- chunked runs ------------------------------------------------------------------------------------------------------ *)
Lemma chunked_capacity flags b cuts : forall k m m', Rmsg m m' ->
  mres_rel (chunked (parse_sipmsg flags) b cuts k m) (chunked (parse_sipmsg flags) b cuts k m').
Proof.
  induction cuts as [|c cs IH]; intros k m m' HR; cbn [chunked]; [apply message_capacity; exact HR|].
  pose proof (message_capacity flags (firstn c b) k m m' HR) as H. unfold mres_rel, res_rel in H.
  destruct (parse_sipmsg flags (firstn c b) k m) as [o e s| |], (parse_sipmsg flags (firstn c b) k m') as [o' e' s'| |]; try contradiction; try exact I.
  destruct H as (<- & <- & Hq). destruct e; try (cbn; split; [reflexivity|]; split; [reflexivity|exact Hq]).
  apply IH. exact Hq.
Qed.

(* ---- what the relation says, in terms of what a caller reads back ------------------------------------------------------ *)
Definition obs_pv_nocontacts (v : phvals) : list Z :=
  obs_pfrom (pv_from v) ++ obs_pfrom (pv_to v) ++ obs_callid (pv_callid v) ++ obs_cseq (pv_cseq v)
  ++ obs_uint (pv_clen v) ++ obs_pais (pv_pais v) ++ obs_uint (pv_expires v).
Definition obs_ct_counts (c : contacts) : list Z :=
  [n2z (ct_n c); n2z (ct_hno c); n2z (ct_maxexp c); n2z (ct_minexp c)] ++ obs_pf (ct_lasthval c) ++ [b2z (ct_parsed c)].
(* everything that does not depend on a capacity *)
Definition obs_cap_indep (m : pmsg) : list Z :=
  obs_fline (m_fl m) ++ [n2z (hl_pflags (hs_l (m_hs m))); n2z (hl_n (hs_l (m_hs m)))]
  ++ flat_map (fun t => obs_opt_hdr (hl_gethdr (hs_l (m_hs m)) t)) all_hdr_types
  ++ obs_pv_nocontacts (msg_pv m) ++ obs_ct_counts (pv_contacts (msg_pv m))
  ++ (let '(x, ok) := pv_max_expires (msg_pv m) in [n2z x; b2z ok])
  ++ obs_pf (m_body m) ++ [n2z (m_buflen m)]
  ++ (match m_raw m with Some (a, l) => [n2z a; n2z l] | None => [(-1)%Z; 0%Z] end)
  ++ [b2z (msg_parsed m); b2z (msg_err m); b2z (msg_request m); n2z (msg_method m)].

Lemma Rmsg_w_obs m m' : Rmsg_w m m' -> obs_cap_indep m = obs_cap_indep m'.
Proof.
  destruct m as [fl hs body bl raw st offs], m' as [fl' hs' body' bl' raw' st' offs'].
  intros (H1 & H2 & H3 & H4 & H5 & H6 & ((A1 & A2 & A3) & _) & Hp). cbn in H1, H2, H3, H4, H5, H6, A1, A2, A3, Hp. subst fl' body' bl' raw' st' offs'.
  unfold obs_cap_indep, msg_parsed, msg_err, msg_request, msg_method, msg_pv, hl_gethdr. cbn [m_fl m_hs m_body m_buflen m_raw m_state].
  rewrite A1, A2, A3.
  assert (Hv : Rpv_w (match hs_pv hs with Some v => v | None => phvals_init [] end) (match hs_pv hs' with Some v => v | None => phvals_init [] end)).
  { destruct (hs_pv hs) as [v|], (hs_pv hs') as [v'|]; try contradiction; [exact Hp|]. split; [repeat split; reflexivity|].
    split; [repeat split; reflexivity|intros j Hj; cbn in Hj; lia]. }
  set (v := match hs_pv hs with Some v => v | None => phvals_init [] end) in *.
  set (v' := match hs_pv hs' with Some v => v | None => phvals_init [] end) in *.
  destruct Hv as ((F1 & F2 & F3 & F4 & F5 & F6 & F7) & (C1 & C2 & C3 & C4 & C5) & _).
  unfold obs_pv_nocontacts, obs_ct_counts, pv_max_expires, ct_parsed. rewrite F1, F2, F3, F4, F5, F6, F7, C1, C2, C3, C4, C5. reflexivity.
Qed.

(* stored elements: equal on the common stored prefix *)
Lemma Rmsg_w_prefix m m' : Rmsg_w m m' ->
  (forall j, (j < N.to_nat (hl_n (hs_l (m_hs m))))%nat -> (j < length (hl_hdrs (hs_l (m_hs m))))%nat ->
             (j < length (hl_hdrs (hs_l (m_hs m'))))%nat ->
             nth j (hl_hdrs (hs_l (m_hs m))) hdr0 = nth j (hl_hdrs (hs_l (m_hs m'))) hdr0) /\
  (forall v v', hs_pv (m_hs m) = Some v -> hs_pv (m_hs m') = Some v' ->
     forall j, (j < N.to_nat (ct_n (pv_contacts v)))%nat -> (j < length (ct_vals (pv_contacts v)))%nat ->
               (j < length (ct_vals (pv_contacts v')))%nat ->
               nth j (ct_vals (pv_contacts v)) pfrom0 = nth j (ct_vals (pv_contacts v')) pfrom0).
Proof.
  intros (_ & _ & _ & _ & _ & _ & (_ & Hpre) & Hp). split; [exact Hpre|].
  intros v v' Ev Ev'. rewrite Ev, Ev' in Hp. destruct Hp as (_ & _ & Hc). exact Hc.
Qed.

(* after a successful parse the first and the last contact are the same whatever the capacity *)
Lemma Qct_ok_gets c c' : Qct 0 EOk c c' -> ct_get c 0 = ct_get c' 0 /\ ct_get c (ct_n c - 1) = ct_get c' (ct_n c' - 1).
Proof. intros (_ & H). exact H. Qed.
