(* C11: where in the buffer the text starts does not matter.  A simulation between a run at a
   zipper position (pre, i) and a run over the same remaining bytes at (pre ++ J, i + k): the
   states are related by a per-parser relation that says which offsets are live (shifted by k)
   and which are not (equal).  Proved here for the leaf value parsers. *)
From Sipsp Require Import Driver Harness Tables.
From Coq Require Import ZifyN ZifyNat ZifyBool.

Section ShiftSim.
  Context {S : Type}.
  Variable iter : list byte -> list byte -> N -> S -> ires S.
  Variable J : list byte.                   (* what lies further back in the shifted run *)
  Local Notation k := (nnat (length J)).
  Variable R : S -> S -> Prop.

  Definition ires_shift (r r' : ires S) : Prop :=
    match r, r' with
    | Next n s, Next n' s' => n = n' /\ R s s'
    | Ret o e s, Ret o' e' s' => o' = o + k /\ e = e' /\ R s s'
    | IPanic, IPanic => True
    | _, _ => False
    end.
  Definition res_shift (r r' : res S) : Prop :=
    match r, r' with
    | Done o e s, Done o' e' s' => o' = o + k /\ e = e' /\ R s s'
    | Panic, Panic => True
    | Stuck, Stuck => True
    | _, _ => False
    end.

  Hypothesis step : forall pre rest i s s', i = nnat (length pre) -> R s s' ->
    ires_shift (iter pre rest i s) (iter (pre ++ J) rest (i + k) s').

  Lemma run_shift : forall rest pre i skip s s', i = nnat (length pre) -> R s s' ->
    res_shift (run iter pre rest i skip s) (run iter (pre ++ J) rest (i + k) skip s').
  Proof.
    induction rest as [|c r IH]; intros pre i skip s s' Hi HR.
    - destruct skip; cbn [run]; [|exact I].
      pose proof (step pre [] i s s' Hi HR) as H. unfold ires_shift in H.
      destruct (iter pre [] i s) as [k1 s1|o e s1|], (iter (pre ++ J) [] (i + k) s') as [k2 s2|o2 e2 s2|]; try contradiction; auto.
      destruct H as [<- _]. destruct k1; exact I.
    - destruct skip as [|skip]; cbn [run].
      + pose proof (step pre (c :: r) i s s' Hi HR) as H. unfold ires_shift in H.
        destruct (iter pre (c :: r) i s) as [k1 s1|o e s1|], (iter (pre ++ J) (c :: r) (i + k) s') as [k2 s2|o2 e2 s2|]; try contradiction; auto.
        destruct H as [<- H]. destruct k1; [exact I|].
        replace (i + k + 1) with (i + 1 + k) by lia. change (c :: pre ++ J) with ((c :: pre) ++ J).
        apply IH; [cbn [length]; unfold nnat in *; lia|exact H].
      + replace (i + k + 1) with (i + 1 + k) by lia. change (c :: pre ++ J) with ((c :: pre) ++ J).
        apply IH; [cbn [length]; unfold nnat in *; lia|exact HR].
  Qed.

  (* the exported call: the same buffer with junk in front, the start offset moved accordingly *)
  Lemma parse_shift junk buf offs s s' : J = rev junk -> offs <= nnat (length buf) -> R s s' ->
    res_shift (parse iter buf offs s) (parse iter (junk ++ buf) (offs + k) s').
  Proof.
    intros HJ Ho HR. unfold parse, zinit.
    assert (Hk : N.to_nat (offs + k) = (length junk + N.to_nat offs)%nat) by (rewrite HJ, rev_length; unfold nnat; lia).
    rewrite Hk. rewrite firstn_app_2, skipn_app. rewrite (skipn_all2 (n := length junk + N.to_nat offs) junk) by lia. replace (length junk + N.to_nat offs - length junk)%nat with (N.to_nat offs) by lia.
    cbn [app]. rewrite rev_app_distr, <- HJ.
    apply run_shift; [|exact HR]. rewrite rev_length, firstn_length. unfold nnat in *. lia.
  Qed.
End ShiftSim.

Definition shf (k : N) (f : pf) : pf := mkpf (po f + k) (pl f).

Lemma pf_set_shift s e k : pf_set (s + k) (e + k) = match pf_set s e with Some f => Some (shf k f) | None => None end.
Proof. unfold pf_set, shf. destruct (e <? s) eqn:E; [replace (e + k <? s + k) with true by lia|replace (e + k <? s + k) with false by lia]; [reflexivity|]. cbn. f_equal. f_equal. lia. Qed.

(* ---- Call-ID ------------------------------------------------------------------------------------------------------------------ *)
Definition Rci (k : N) (s s' : callid) : Prop :=
  ci_state s' = ci_state s /\
  match ci_state s with
  | CiInit => ci_callid s' = ci_callid s /\ ci_soffs s' = ci_soffs s
  | CiFound => ci_callid s' = ci_callid s /\ ci_soffs s' = ci_soffs s + k
  | CiEnd => ci_callid s' = shf k (ci_callid s) /\ ci_soffs s' = ci_soffs s + k
  | CiFIN => ci_callid s' = shf k (ci_callid s) /\ ci_soffs s' = ci_soffs s
  end.

Lemma ci_shift_step J pre rest i s s' : Rci (nnat (length J)) s s' ->
  ires_shift J (Rci (nnat (length J))) (ci_iter pre rest i s) (ci_iter (pre ++ J) rest (i + nnat (length J)) s').
Proof.
  set (k := nnat (length J)). intros [Hst HR]. destruct s as [cid st so], s' as [cid' st' so']. cbn in Hst, HR. subst st'.
  unfold ci_iter. cbn [ci_state].
  destruct st; cbn [ci_state] in *; destruct HR as [Hc Hs]; subst cid' so'.
  4: { cbn. repeat split; reflexivity. }
  all: destruct rest as [|c r]; [cbn; repeat split; auto|].
  all: destruct (is_ws c); [|cbn; repeat split; auto; try lia].
  all: cbn [ci_soffs ci_callid]; rewrite ?pf_set_shift; try destruct (pf_set so i) as [f|]; try exact I.
  all: unfold ci_lws, ci_endOfHdr; destruct (skipLWS false (c :: r)) as [n|n crl|n]; cbn; rewrite ?pf_set_shift; try destruct (pf_set so i) as [f2|];
       cbn; repeat split; auto; try lia.
Qed.

Theorem callid_shift junk buf offs : offs <= nnat (length buf) ->
  res_shift (rev junk) (Rci (nnat (length junk))) (parse_callid buf offs callid0) (parse_callid (junk ++ buf) (offs + nnat (length junk)) callid0).
Proof.
  intros Ho. unfold parse_callid. rewrite <- (rev_length junk).
  apply (parse_shift ci_iter (rev junk) (Rci (nnat (length (rev junk))))); auto.
  - intros pre rest i s s' _ HR. apply ci_shift_step. exact HR.
  - split; [reflexivity|]. cbn. auto.
Qed.

(* ---- unsigned numbers: ParseUIntVal, ParseExpiresVal, ParseCLenVal ------------------------------------------------------------------------ *)
Definition Rui (k : N) (s s' : uintb) : Prop :=
  ui_state s' = ui_state s /\ ui_val s' = ui_val s /\
  match ui_state s with
  | ClInit => ui_sval s' = ui_sval s /\ ui_soffs s' = ui_soffs s
  | ClFound => ui_sval s' = ui_sval s /\ ui_soffs s' = ui_soffs s + k
  | ClEnd => ui_sval s' = shf k (ui_sval s) /\ ui_soffs s' = ui_soffs s + k
  | ClFIN => ui_sval s' = shf k (ui_sval s) /\ ui_soffs s' = ui_soffs s
  end.

Lemma ui_shift_step J pre rest i s s' : Rui (nnat (length J)) s s' ->
  ires_shift J (Rui (nnat (length J))) (ui_iter pre rest i s) (ui_iter (pre ++ J) rest (i + nnat (length J)) s').
Proof.
  set (k := nnat (length J)). intros (Hst & Hv & HR). destruct s as [v sv st so], s' as [v' sv' st' so']. cbn in Hst, Hv, HR. subst st' v'.
  unfold ui_iter. cbn [ui_state].
  destruct st; cbn [ui_state] in *; destruct HR as [Hc Hs]; subst sv' so'.
  4: { cbn. repeat split; reflexivity. }
  all: destruct rest as [|c r]; [cbn; repeat split; auto|].
  all: destruct (is_ws c); [|destruct (is_digit c); cbn [ui_val]; try destruct (acc32 v (digit_val c)); cbn; repeat split; auto; try lia].
  all: cbn [ui_soffs ui_sval]; rewrite ?pf_set_shift; try destruct (pf_set so i) as [f|]; try exact I.
  all: unfold ui_lws, ui_endOfHdr; destruct (skipLWS false (c :: r)) as [n|n crl|n]; cbn; rewrite ?pf_set_shift; try destruct (pf_set so i) as [f2|];
       cbn; repeat split; auto; try lia.
Qed.

Theorem uint_shift junk buf offs : offs <= nnat (length buf) ->
  res_shift (rev junk) (Rui (nnat (length junk))) (parse_uint buf offs uintb0) (parse_uint (junk ++ buf) (offs + nnat (length junk)) uintb0).
Proof.
  intros Ho. unfold parse_uint. rewrite <- (rev_length junk).
  apply (parse_shift ui_iter (rev junk) (Rui (nnat (length (rev junk))))); auto.
  - intros pre rest i s s' _ HR. apply ui_shift_step. exact HR.
  - split; [reflexivity|]. cbn. auto.
Qed.

From Sipsp Require SafeMsg.
Lemma uint_ok_fin buf offs s o s' : parse_uint buf offs s = Done o EOk s' -> ui_state s' = ClFIN.
Proof.
  unfold parse_uint, parse. destruct (zinit buf offs) as [p r]. intros H.
  pose proof (SafeMsg.run_ok_state ui_iter (fun s => ui_parsed s = true) SafeMsg.ui_iter_ok_parsed r p offs s o s' H) as X.
  unfold ui_parsed in X. destruct (ui_state s'); try discriminate; reflexivity.
Qed.
Theorem clen_shift junk buf offs : offs <= nnat (length buf) ->
  res_shift (rev junk) (Rui (nnat (length junk))) (parse_clen buf offs uintb0) (parse_clen (junk ++ buf) (offs + nnat (length junk)) uintb0).
Proof.
  intros Ho. pose proof (uint_shift junk buf offs Ho) as H. unfold parse_clen.
  destruct (parse_uint buf offs uintb0) as [o e s| |] eqn:E1, (parse_uint (junk ++ buf) _ uintb0) as [o' e' s'| |]; try contradiction; auto.
  destruct H as (Ho' & <- & HR). destruct e; try (split; [exact Ho'|split; [reflexivity|exact HR]]).
  pose proof HR as (Hst & Hv & HR'). rewrite Hv. rewrite (uint_ok_fin _ _ _ _ _ E1) in HR'. destruct HR' as [Hsv _]. rewrite Hsv. cbn [shf pl po].
  destruct (_ || _); (split; [|split; [reflexivity|exact HR]]); [rewrite rev_length; reflexivity|exact Ho'].
Qed.

(* ---- reading back a field -------------------------------------------------------------------------------------------------------------------- *)
Lemma zslice_shift pre J rest i a b : i = nnat (length pre) ->
  zslice (pre ++ J) rest (i + nnat (length J)) (a + nnat (length J)) (b + nnat (length J)) = zslice pre rest i a b.
Proof.
  intros Hi. unfold zslice. set (k := nnat (length J)).
  replace ((a + k <=? b + k) && (b + k <=? i + k + N.of_nat (length rest))) with ((a <=? b) && (b <=? i + N.of_nat (length rest))) by lia.
  destruct ((a <=? b) && (b <=? i + N.of_nat (length rest))); [|reflexivity]. f_equal. f_equal.
  - f_equal. replace (N.min (b + k) (i + k)) with (N.min b i + k) by lia.
    replace (i + k - (N.min b i + k)) with (i - N.min b i) by lia. replace (N.min b i + k - (a + k)) with (N.min b i - a) by lia.
    rewrite skipn_app. rewrite firstn_app.
    replace (N.to_nat (N.min b i - a) - length (skipn (N.to_nat (i - N.min b i)) pre))%nat with 0%nat
      by (rewrite skipn_length; unfold nnat in *; lia).
    cbn [firstn]. now rewrite app_nil_r.
  - replace (N.max (a + k) (i + k)) with (N.max a i + k) by lia. replace (b + k - (N.max a i + k)) with (b - N.max a i) by lia.
    replace (N.max a i + k - (i + k)) with (N.max a i - i) by lia. reflexivity.
Qed.
Lemma zget_shift pre J rest i f : i = nnat (length pre) ->
  zget (pre ++ J) rest (i + nnat (length J)) (shf (nnat (length J)) f) = zget pre rest i f.
Proof. intros Hi. unfold zget, pf_end, shf. cbn [po pl]. replace (po f + nnat (length J) + pl f) with (po f + pl f + nnat (length J)) by lia. apply zslice_shift. exact Hi. Qed.
Lemma pf_extend_shift f e k : pf_extend (shf k f) (e + k) = match pf_extend f e with Some g => Some (shf k g) | None => None end.
Proof. unfold pf_extend, shf. cbn [po pl]. destruct (e <? po f) eqn:E; [replace (e + k <? po f + k) with true by lia|replace (e + k <? po f + k) with false by lia]; [reflexivity|]. cbn. f_equal. f_equal. lia. Qed.

(* ---- CSeq ------------------------------------------------------------------------------------------------------------------------------------------ *)
Definition Rcs (k : N) (s s' : cseq) : Prop :=
  cs_state s' = cs_state s /\ cs_no s' = cs_no s /\ cs_methodno s' = cs_methodno s /\
  match cs_state s with
  | CsInit => cs_cseq s' = cs_cseq s /\ cs_method s' = cs_method s /\ cs_v s' = cs_v s /\ cs_soffs s' = cs_soffs s
  | CsFoundDigit => cs_cseq s' = cs_cseq s /\ cs_method s' = cs_method s /\ cs_v s' = cs_v s /\ cs_soffs s' = cs_soffs s + k
  | CsEndDigit | CsFoundMethod =>
      cs_cseq s' = shf k (cs_cseq s) /\ cs_method s' = cs_method s /\ cs_v s' = shf k (cs_v s) /\ cs_soffs s' = cs_soffs s + k
  | CsEnd => cs_cseq s' = shf k (cs_cseq s) /\ cs_method s' = shf k (cs_method s) /\ cs_v s' = shf k (cs_v s) /\ cs_soffs s' = cs_soffs s + k
  | CsFIN => cs_cseq s' = shf k (cs_cseq s) /\ cs_method s' = shf k (cs_method s) /\ cs_v s' = shf k (cs_v s)
  end.

Lemma cs_finish_shift J pre rest i ret s s' : i = nnat (length pre) ->
  cs_no s' = cs_no s -> cs_methodno s' = cs_methodno s ->
  cs_cseq s' = shf (nnat (length J)) (cs_cseq s) -> cs_method s' = shf (nnat (length J)) (cs_method s) -> cs_v s' = shf (nnat (length J)) (cs_v s) ->
  ires_shift J (Rcs (nnat (length J))) (cs_finish pre rest i ret s) (cs_finish (pre ++ J) rest (i + nnat (length J)) (ret + nnat (length J)) s').
Proof.
  intros Hi Hn Hm Hc Hme Hv. unfold cs_finish. destruct s as [no mno cq me v st so], s' as [no' mno' cq' me' v' st' so']. cbn in Hn, Hm, Hc, Hme, Hv |- *. subst no' mno' cq' me' v'.
  destruct (_ || _); [cbn; repeat split; auto|].
  rewrite (zget_shift pre J rest i me Hi). destruct (zget pre rest i me); [|exact I]. cbn. repeat split; auto.
Qed.

Lemma cs_shift_step J pre rest i s s' : i = nnat (length pre) -> Rcs (nnat (length J)) s s' ->
  ires_shift J (Rcs (nnat (length J))) (cs_iter pre rest i s) (cs_iter (pre ++ J) rest (i + nnat (length J)) s').
Proof.
  set (k := nnat (length J)). intros Hi (Hst & Hn & Hm & HR). destruct s as [no mno cq me v st so], s' as [no' mno' cq' me' v' st' so']. cbn in Hst, Hn, Hm, HR. subst st' no' mno'.
  unfold cs_iter. cbn [cs_state].
  destruct st; cbn [cs_state] in *.
  6: { destruct HR as (-> & -> & ->). cbn. repeat split; reflexivity. }
  all: destruct HR as (Hc & Hme & Hv & Hs); subst cq' me' v' so'.
  all: destruct rest as [|c r]; [cbn; repeat split; auto|].
  all: destruct (is_ws c); [|destruct (is_digit c); cbn [cs_no]; try destruct (acc32 no (digit_val c)); cbn; repeat split; auto; try lia].
  all: cbn [cs_soffs cs_cseq cs_method cs_v]; rewrite ?pf_set_shift, ?pf_extend_shift;
       try destruct (pf_set so i) as [f|]; try exact I; try destruct (pf_extend v i) as [g|]; try exact I.
  all: unfold cs_lws, cs_endOfHdr; destruct (skipLWS false (c :: r)) as [n|n crl|n]; cbn [cs_state cs_soffs cs_v];
       rewrite ?pf_set_shift, ?pf_extend_shift; try destruct (pf_set so i) as [f2|]; try exact I; try destruct (pf_extend _ i) as [g2|]; try exact I;
       try (cbn; repeat split; auto; lia).
  all: replace (i + k + nnat n + nnat crl) with (i + nnat n + nnat crl + k) by lia; apply cs_finish_shift; auto.
Qed.

Theorem cseq_shift junk buf offs : offs <= nnat (length buf) ->
  res_shift (rev junk) (Rcs (nnat (length junk))) (parse_cseq buf offs cseq0) (parse_cseq (junk ++ buf) (offs + nnat (length junk)) cseq0).
Proof.
  intros Ho. unfold parse_cseq. rewrite <- (rev_length junk).
  apply (parse_shift cs_iter (rev junk) (Rcs (nnat (length (rev junk))))); auto.
  - intros pre rest i s s' Hi HR. apply cs_shift_step; assumption.
  - repeat split; reflexivity.
Qed.

(* ---- the first line ---------------------------------------------------------------------------------------------------------------------------- *)
Definition fr (k : N) (l : bool) (f f' : pf) : Prop := f' = if l then shf k f else f.
Definition flrel (k : N) (lm lu lv ls lr : bool) (s s' : fline) : Prop :=
  fl_state s' = fl_state s /\ fl_status s' = fl_status s /\ fl_methodno s' = fl_methodno s /\
  fr k lm (fl_method s) (fl_method s') /\ fr k lu (fl_uri s) (fl_uri s') /\ fr k lv (fl_version s) (fl_version s') /\
  fr k ls (fl_statuscode s) (fl_statuscode s') /\ fr k lr (fl_reason s) (fl_reason s').
Definition Rfl (k : N) (s s' : fline) : Prop :=
  match fl_state s with
  | FlInit => flrel k false false false false false s s'
  | FlReqMethod => flrel k true false false false false s s'
  | FlReqURI => flrel k true true false false false s s'
  | FlReqVer | FlCRLF => flrel k true true true false false s s'
  | FlRplStatus => flrel k false false true false false s s'
  | FlRplReason => flrel k false false true true true s s'
  | FlFIN => flrel k true true true false false s s' \/ flrel k false false true true true s s' \/ flrel k false false true false false s s'
  end.

Lemma zpre_app_r n pre J (rest : list byte) : zpre n (pre ++ J) rest = zpre n pre rest ++ J.
Proof. unfold zpre. now rewrite app_assoc. Qed.

Ltac fl_destr s s' :=
  destruct s as [stt mno me ur ve sc rs st], s' as [stt' mno' me' ur' ve' sc' rs' st'].

Lemma fl_crlf_shift J rest i s s' : flrel (nnat (length J)) true true true false false s s' -> fl_state s = FlCRLF ->
  ires_shift J (Rfl (nnat (length J))) (fl_crlf rest i s) (fl_crlf rest (i + nnat (length J)) s').
Proof.
  intros (H1 & H2 & H3 & H4 & H5 & H6 & H7 & H8) Hs. unfold fl_crlf. fl_destr s s'. unfold fr in *. cbn in *. subst.
  destruct (skipCRLF rest); cbn; (split; [lia|]); (split; [reflexivity|]); unfold Rfl, flrel, fr; cbn; auto 12.
Qed.

Lemma fl_ver_shift J pre rest i s s' : flrel (nnat (length J)) true true true false false s s' -> fl_state s = FlReqVer ->
  ires_shift J (Rfl (nnat (length J))) (fl_ver pre rest i s) (fl_ver (pre ++ J) rest (i + nnat (length J)) s').
Proof.
  intros HR Hs. pose proof HR as (H1 & H2 & H3 & H4 & H5 & H6 & H7 & H8). unfold fl_ver. cbv zeta.
  set (k := skipToken rest). destruct (skipn k rest) as [|c r'] eqn:Es.
  - cbn. split; [lia|]. split; [reflexivity|]. unfold Rfl. rewrite Hs. exact HR.
  - destruct (negb (is_crlf c)).
    + cbn. split; [lia|]. split; [reflexivity|]. unfold Rfl. rewrite Hs. exact HR.
    + unfold fr in H6. rewrite H6. replace (i + nnat (length J) + nnat k) with (i + nnat k + nnat (length J)) by lia. rewrite pf_extend_shift.
      destruct (pf_extend (fl_version s) (i + nnat k)) as [v|]; [|exact I].
      assert (Ee : pf_empty (shf (nnat (length J)) v) = pf_empty v) by reflexivity. rewrite Ee.
      destruct (pf_empty v).
      * cbn. split; [lia|]. split; [reflexivity|]. fl_destr s s'. unfold Rfl, flrel, fr in *. cbn in *. subst. auto 10.
      * apply fl_crlf_shift; [|fl_destr s s'; reflexivity]. fl_destr s s'. unfold flrel, fr in *. cbn in *. subst. auto 10.
Qed.

Lemma fl_requri_shift J pre rest i s s' : flrel (nnat (length J)) true true false false false s s' -> fl_state s = FlReqURI ->
  ires_shift J (Rfl (nnat (length J))) (fl_requri pre rest i s) (fl_requri (pre ++ J) rest (i + nnat (length J)) s').
Proof.
  intros HR Hs. pose proof HR as (H1 & H2 & H3 & H4 & H5 & H6 & H7 & H8). unfold fl_requri. cbv zeta.
  set (k := skipToken rest). destruct (skipn k rest) as [|c r'] eqn:Es.
  - cbn. split; [lia|]. split; [reflexivity|]. unfold Rfl. rewrite Hs. exact HR.
  - destruct (negb (c =? SP)).
    + cbn. split; [lia|]. split; [reflexivity|]. unfold Rfl. rewrite Hs. exact HR.
    + unfold fr in H5. rewrite H5. replace (i + nnat (length J) + nnat k) with (i + nnat k + nnat (length J)) by lia. rewrite pf_extend_shift.
      destruct (pf_extend (fl_uri s) (i + nnat k)) as [u|]; [|exact I].
      assert (Ee : pf_empty (shf (nnat (length J)) u) = pf_empty u) by reflexivity. rewrite Ee.
      destruct (pf_empty u).
      * cbn. split; [lia|]. split; [reflexivity|]. fl_destr s s'. unfold Rfl, flrel, fr in *. cbn in *. subst. auto 10.
      * replace (i + nnat k + nnat (length J) + 1) with (i + nnat k + 1 + nnat (length J)) by lia. rewrite (pf_set_shift (i + nnat k + 1) (i + nnat k + 1) (nnat (length J))).
        destruct (pf_set (i + nnat k + 1) (i + nnat k + 1)) as [v|]; [|exact I].
        rewrite zpre_app_r. apply fl_ver_shift; [|fl_destr s s'; reflexivity]. fl_destr s s'. unfold flrel, fr in *. cbn in *. subst. auto 10.
Qed.

Lemma fl_method_shift J pre rest i s s' : i = nnat (length pre) -> flrel (nnat (length J)) true false false false false s s' -> fl_state s = FlReqMethod ->
  ires_shift J (Rfl (nnat (length J))) (fl_method_ph pre rest i s) (fl_method_ph (pre ++ J) rest (i + nnat (length J)) s').
Proof.
  intros Hi HR Hs. pose proof HR as (H1 & H2 & H3 & H4 & H5 & H6 & H7 & H8). unfold fl_method_ph. cbv zeta.
  set (k := skipToken rest). destruct (skipn k rest) as [|c r'] eqn:Es.
  - cbn. split; [lia|]. split; [reflexivity|]. unfold Rfl. rewrite Hs. exact HR.
  - destruct (negb (c =? SP)).
    + cbn. split; [lia|]. split; [reflexivity|]. unfold Rfl. rewrite Hs. exact HR.
    + unfold fr in H4. rewrite H4. replace (i + nnat (length J) + nnat k) with (i + nnat k + nnat (length J)) by lia. rewrite pf_extend_shift.
      destruct (pf_extend (fl_method s) (i + nnat k)) as [m|]; [|exact I].
      assert (Ee : pf_empty (shf (nnat (length J)) m) = pf_empty m) by reflexivity. rewrite Ee.
      destruct (pf_empty m).
      * cbn. split; [lia|]. split; [reflexivity|]. fl_destr s s'. unfold Rfl, flrel, fr in *. cbn in *. subst. auto 10.
      * rewrite (zget_shift pre J rest i m Hi). destruct (zget pre rest i m) as [name|]; [|exact I].
        replace (i + nnat k + nnat (length J) + 1) with (i + nnat k + 1 + nnat (length J)) by lia. rewrite (pf_set_shift (i + nnat k + 1) (i + nnat k + 1) (nnat (length J))).
        destruct (pf_set (i + nnat k + 1) (i + nnat k + 1)) as [u|]; [|exact I].
        rewrite zpre_app_r. apply fl_requri_shift; [|fl_destr s s'; reflexivity]. fl_destr s s'. unfold flrel, fr in *. cbn in *. subst. auto 10.
Qed.

Lemma fl_reason_shift J rest i s s' : flrel (nnat (length J)) false false true true true s s' -> fl_state s = FlRplReason ->
  ires_shift J (Rfl (nnat (length J))) (fl_reason_ph rest i s) (fl_reason_ph rest (i + nnat (length J)) s').
Proof.
  intros HR Hs. pose proof HR as (H1 & H2 & H3 & H4 & H5 & H6 & H7 & H8). unfold fl_reason_ph.
  destruct (skipLine rest) as [k r]. destruct r as [crl| |].
  - unfold fr in H8. rewrite H8. replace (i + nnat (length J) + nnat k) with (i + nnat k + nnat (length J)) by lia. rewrite pf_extend_shift.
    destruct (pf_extend (fl_reason s) (i + nnat k)) as [f|]; [|exact I].
    cbn. split; [lia|]. split; [reflexivity|]. fl_destr s s'. unfold Rfl, flrel, fr in *. cbn in *. subst. right. left. auto 10.
  - cbn. split; [lia|]. split; [reflexivity|]. unfold Rfl. rewrite Hs. exact HR.
  - cbn. split; [lia|]. split; [reflexivity|]. unfold Rfl. rewrite Hs. exact HR.
Qed.

Lemma fl_init_shift J pre rest i s s' : i = nnat (length pre) -> flrel (nnat (length J)) false false false false false s s' -> fl_state s = FlInit ->
  ires_shift J (Rfl (nnat (length J))) (fl_init pre rest i s) (fl_init (pre ++ J) rest (i + nnat (length J)) s').
Proof.
  intros Hi HR Hs. pose proof HR as (H1 & H2 & H3 & H4 & H5 & H6 & H7 & H8). unfold fl_init.
  destruct (length rest <? length go_sipVerSP + 6)%nat.
  { cbn. split; [lia|]. split; [reflexivity|]. unfold Rfl. rewrite Hs. exact HR. }
  destruct (prefix_nocase go_sipVerSP rest).
  - cbv zeta. set (l := length go_sipVerSP).
    assert (Hl : 1 <= nnat l) by (subst l; vm_compute; discriminate).
    replace (i + nnat (length J) + nnat l - 1) with (i + nnat l - 1 + nnat (length J)) by lia. rewrite (pf_set_shift i (i + nnat l - 1) (nnat (length J))).
    destruct (pf_set i (i + nnat l - 1)) as [v|]; [|exact I].
    destruct (skipn l rest) as [|a [|b [|c [|d r']]]]; try exact I.
    destruct (negb (d =? SP) || negb (is_digit a && is_digit b && is_digit c)).
    + cbn. split; [lia|]. split; [reflexivity|]. fl_destr s s'. unfold Rfl, flrel, fr in *. cbn in *. subst. auto 10.
    + replace (i + nnat (length J) + nnat l) with (i + nnat l + nnat (length J)) by lia.
      replace (i + nnat l + nnat (length J) + 3) with (i + nnat l + 3 + nnat (length J)) by lia. rewrite (pf_set_shift (i + nnat l) (i + nnat l + 3) (nnat (length J))).
      destruct (pf_set (i + nnat l) (i + nnat l + 3)) as [scf|]; [|exact I].
      replace (i + nnat l + nnat (length J) + 4) with (i + nnat l + 4 + nnat (length J)) by lia. rewrite (pf_set_shift (i + nnat l + 4) (i + nnat l + 4) (nnat (length J))).
      destruct (pf_set (i + nnat l + 4) (i + nnat l + 4)) as [rsf|]; [|exact I].
      apply fl_reason_shift; [|fl_destr s s'; reflexivity]. fl_destr s s'. unfold flrel, fr in *. cbn in *. subst. auto 10.
  - rewrite (pf_set_shift i i (nnat (length J))). destruct (pf_set i i) as [m|]; [|exact I].
    apply fl_method_shift; [exact Hi| |fl_destr s s'; reflexivity]. fl_destr s s'. unfold flrel, fr in *. cbn in *. subst. auto 10.
Qed.

Lemma fl_shift_step J pre rest i s s' : i = nnat (length pre) -> Rfl (nnat (length J)) s s' ->
  ires_shift J (Rfl (nnat (length J))) (fl_iter pre rest i s) (fl_iter (pre ++ J) rest (i + nnat (length J)) s').
Proof.
  intros Hi HR. unfold fl_iter. unfold Rfl in HR.
  assert (Est : fl_state s' = fl_state s) by (revert HR; unfold flrel; destruct (fl_state s); intuition).
  rewrite Est. destruct (fl_state s) eqn:Hs.
  - apply fl_init_shift; auto.
  - apply fl_method_shift; auto.
  - apply fl_requri_shift; auto.
  - apply fl_ver_shift; auto.
  - cbn. split; [reflexivity|]. split; [reflexivity|]. fl_destr s s'. unfold Rfl, flrel, fr in *. cbn in *. destruct HR as (E1 & E2 & E3 & E4 & E5 & E6 & E7 & E8). subst. right. right. auto 10.
  - apply fl_reason_shift; auto.
  - apply fl_crlf_shift; auto.
  - cbn. split; [reflexivity|]. split; [reflexivity|]. fl_destr s s'. unfold Rfl, flrel, fr in *. cbn in *.
    destruct HR as [HR|[HR|HR]]; destruct HR as (E1 & E2 & E3 & E4 & E5 & E6 & E7 & E8); subst; [left|right; left|right; right]; auto 10.
Qed.

Theorem fline_shift junk buf offs : offs <= nnat (length buf) ->
  res_shift (rev junk) (Rfl (nnat (length junk))) (parse_fline buf offs fline0) (parse_fline (junk ++ buf) (offs + nnat (length junk)) fline0).
Proof.
  intros Ho. unfold parse_fline. rewrite <- (rev_length junk).
  apply (parse_shift fl_iter (rev junk) (Rfl (nnat (length (rev junk))))); auto.
  - intros pre rest i s s' Hi HR. apply fl_shift_step; assumption.
  - unfold Rfl, flrel, fr. cbn. auto 10.
Qed.
