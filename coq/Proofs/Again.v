(* "called again after finishing": what every parser answers when handed an object it has already
   finished with (the branch at the top of each Go function) *)
From Sipsp Require Import RunLemmas Harness Ext ExtLeaf.
From Coq Require Import ZifyN ZifyNat ZifyBool.

Lemma parse_ret {St} (iter : list byte -> list byte -> N -> St -> ires St) buf offs s o e s' :
  (forall pre rest, iter pre rest offs s = Ret o e s') -> parse iter buf offs s = Done o e s'.
Proof.
  intros H. unfold parse. destruct (zinit buf offs) as [pre rest]. rewrite run_after, H. reflexivity.
Qed.

Theorem callid_again buf offs s : ci_parsed s = true -> parse_callid buf offs s = Done offs EOk s.
Proof. intros H. apply parse_ret. intros pre rest. unfold ci_iter, ci_parsed in *. destruct (ci_state s); try discriminate. reflexivity. Qed.
Theorem cseq_again buf offs s : cs_parsed s = true -> parse_cseq buf offs s = Done offs EOk s.
Proof. intros H. apply parse_ret. intros pre rest. unfold cs_iter, cs_parsed in *. destruct (cs_state s); try discriminate. reflexivity. Qed.
Theorem uint_again buf offs s : ui_parsed s = true -> parse_uint buf offs s = Done offs EOk s.
Proof. intros H. apply parse_ret. intros pre rest. unfold ui_iter, ui_parsed in *. destruct (ui_state s); try discriminate. reflexivity. Qed.
Theorem nameaddr_again h buf offs s : fb_parsed s = true -> parse_nameaddr h buf offs s = Done offs EOk s.
Proof. intros H. apply parse_ret. intros pre rest. unfold fb_iter, fb_parsed in *. destruct (fb_state s); try discriminate. reflexivity. Qed.
Theorem tokparam_again flags buf offs s : tp_state s = PFIN -> parse_tokparam flags buf offs s = Done offs EOk s.
Proof. intros H. apply parse_ret. intros pre rest. unfold tp_iter. rewrite H. reflexivity. Qed.
(* the message parser treats it as a caller bug: error at the offset given, object marked failed *)
Theorem message_again flags buf offs m : msg_parsed m = true ->
  parse_sipmsg flags buf offs m = Done offs EBug (m <| m_buflen := nnat (length buf) |> <| m_state := MErr |>).
Proof.
  intros H. unfold parse_sipmsg, msg_parsed in *. destruct m as [fl hs body bl raw st mo]. cbn in *.
  destruct st; try discriminate. reflexivity.
Qed.
