(* C10 at parser level: the number ParseUIntVal / ParseExpiresVal / ParseCLenVal report is the
   decimal value of exactly the digits of the field they report; too large a value is rejected. *)
From Sipsp Require Import RunLemmas Safe Resume Ext ExtLeaf ZSlice Harness IP4 Numbers FLineSpec.
From Coq Require Import ZifyN ZifyNat ZifyBool.

Lemma digit_not_ws c : is_digit c = true -> is_ws c = false.
Proof.
  unfold is_digit, is_ws, is_sp, is_crlf, is_cr, is_lf, SP, HT, CR, LF. intros H.
  destruct (c =? 32) eqn:E1, (c =? 9) eqn:E2, (c =? 13) eqn:E3, (c =? 10) eqn:E4; try reflexivity; lia.
Qed.

Lemma ui_iter_digit pre d r i s : ui_state s = ClFound -> is_digit d = true ->
  ui_iter pre (d :: r) i s = match acc32 (ui_val s) (digit_val d) with
                             | Some v => Next 1 (s <| ui_val := v |>)
                             | None => Ret i ENumTooBig s end.
Proof. intros Hs Hd. unfold ui_iter. rewrite Hs, (digit_not_ws d Hd), Hd. reflexivity. Qed.

(* the run over a digit string is the uint32 accumulation *)
Lemma run_digits : forall ds pre y i s, all_digits ds -> ui_state s = ClFound ->
  match acc32_all (ui_val s) ds with
  | Some v => run ui_iter pre (ds ++ y) i 0 s = run ui_iter (rev ds ++ pre) y (i + nnat (length ds)) 0 (s <| ui_val := v |>)
  | None => exists o s', run ui_iter pre (ds ++ y) i 0 s = Done o ENumTooBig s'
  end.
Proof.
  induction ds as [|d r IH]; intros pre y i s Hd Hs; cbn [acc32_all].
  - cbn [app rev length]. replace (i + nnat 0) with i by (unfold nnat; lia). destruct s; reflexivity.
  - unfold all_digits in Hd. cbn in Hd. apply andb_true_iff in Hd as [Hc Hr].
    cbn [app]. rewrite run_after, (ui_iter_digit pre d (r ++ y) i s Hs Hc).
    destruct (acc32 (ui_val s) (digit_val d)) as [v1|] eqn:Ea.
    + specialize (IH (d :: pre) y (i + 1) (s <| ui_val := v1 |>) Hr ltac:(destruct s; exact Hs)).
      replace (ui_val (s <| ui_val := v1 |>)) with v1 in IH by (destruct s; reflexivity).
      cbn [after length Nat.leb]. unfold zpre, zrest. cbn [firstn skipn rev app]. replace (i + nnat 1) with (i + 1) by (unfold nnat; lia).
      destruct (acc32_all v1 r) as [v|].
      * rewrite IH. rewrite <- app_assoc. cbn [app].
        replace (i + 1 + nnat (length r)) with (i + nnat (S (length r))) by (unfold nnat; lia).
        destruct s; reflexivity.
      * exact IH.
    + cbn [after]. eexists. eexists. reflexivity.
Qed.

Lemma skipLWS_sp_prefix sp c r : Forall (fun b => is_sp b = true) sp -> is_ws c = false ->
  skipLWS false (sp ++ c :: r) = LOk (length sp).
Proof.
  intros Hsp Hc. unfold skipLWS.
  assert (G : forall k, skipLWS_at false (sp ++ c :: r) k = LOk (k + length sp)).
  { induction Hsp as [|b sp Hb _ IH]; intros k; cbn [app skipLWS_at length].
    - unfold is_ws, is_crlf in Hc. destruct (is_sp c), (is_cr c), (is_lf c); cbn in Hc; try discriminate. f_equal. lia.
    - rewrite Hb, IH. f_equal. lia. }
  apply G.
Qed.

(* value = digits, field = their extent; the header ends with CRLF followed by a byte that does not
   continue the line *)
Theorem uint_value_spec p sp ds d x :
  Forall (fun b => is_sp b = true) sp -> all_digits ds -> ds <> [] -> is_sp d = false ->
  let i := nnat (length p) in
  let text := sp ++ ds ++ CR :: LF :: d :: x in
  if dec ds <=? MaxU32 then
    parse_uint (p ++ text) i uintb0
    = Done (i + nnat (length sp) + nnat (length ds) + 2) EOk
        (mkuintb (dec ds) (mkpf (i + nnat (length sp)) (nnat (length ds))) ClFIN 0)
  else exists o s', parse_uint (p ++ text) i uintb0 = Done o ENumTooBig s'.
Proof.
  intros Hsp Hd Hne Hdn i text. unfold parse_uint. subst i. rewrite parse_at.
  destruct ds as [|d0 r]; [congruence|]. clear Hne.
  unfold all_digits in Hd. cbn in Hd. apply andb_true_iff in Hd as [Hc Hr].
  (* leading white space *)
  assert (Hstart : run ui_iter (rev p) text (nnat (length p)) 0 uintb0
                   = run ui_iter (d0 :: rev sp ++ rev p) (r ++ CR :: LF :: d :: x) (nnat (length p) + nnat (length sp) + 1) 0
                       (mkuintb (digit_val d0) pf0 ClFound (nnat (length p) + nnat (length sp)))).
  { subst text. destruct sp as [|b sp'].
    - cbn [app rev length run]. unfold ui_iter at 1. cbn [ui_state uintb0]. rewrite (digit_not_ws d0 Hc), Hc.
      cbn -[N.add nnat]. replace (nnat (length p) + nnat 0) with (nnat (length p)) by (unfold nnat; lia). reflexivity.
    - rewrite run_after. unfold ui_iter at 2. cbn [ui_state uintb0 app].
      assert (Hb : is_ws b = true) by (inversion Hsp; subst; unfold is_ws; match goal with H : is_sp b = true |- _ => rewrite H end; reflexivity).
      rewrite Hb. unfold ui_lws. change (b :: sp' ++ d0 :: r ++ CR :: LF :: d :: x) with ((b :: sp') ++ d0 :: (r ++ CR :: LF :: d :: x)).
      rewrite (skipLWS_sp_prefix (b :: sp') d0 _ Hsp (digit_not_ws d0 Hc)). cbn [after length].
      replace (S (length sp') <=? length ((b :: sp') ++ d0 :: r ++ CR :: LF :: d :: x))%nat with true
        by (symmetry; apply Nat.leb_le; rewrite app_length; cbn [length]; lia).
      unfold zrest, zpre. change (S (length sp')) with (length (b :: sp')).
      rewrite skipn_len_app, firstn_app, Nat.sub_diag, firstn_all. cbn [firstn]. rewrite app_nil_r.
      cbn [run]. unfold ui_iter at 1. cbn [ui_state uintb0]. rewrite (digit_not_ws d0 Hc), Hc.
      cbn -[N.add nnat rev]. reflexivity. }
  cbv zeta. rewrite Hstart.
  pose proof (run_digits r (d0 :: rev sp ++ rev p) (CR :: LF :: d :: x) (nnat (length p) + nnat (length sp) + 1)
                (mkuintb (digit_val d0) pf0 ClFound (nnat (length p) + nnat (length sp))) Hr eq_refl) as Hrun.
  cbn [ui_val] in Hrun.
  pose proof (acc32_all_exact r (digit_val d0) Hr ltac:(pose proof (digit_val_le d0 Hc); unfold MaxU32; lia)) as Hacc.
  assert (Hdec : dec (d0 :: r) = dec_from (digit_val d0) r) by reflexivity. rewrite Hdec.
  rewrite Hacc in Hrun. destruct (dec_from (digit_val d0) r <=? MaxU32); [|exact Hrun].
  rewrite Hrun. cbn -[N.add nnat rev run].
  (* the CR: close the number, then the end of the header *)
  cbn [run]. unfold ui_iter at 1. cbn -[N.add nnat rev ui_lws pf_set].
  unfold pf_set. replace (nnat (length p) + nnat (length sp) + 1 + nnat (length r) <? nnat (length p) + nnat (length sp)) with false by (unfold nnat; lia).
  unfold ui_lws. cbn [skipLWS skipLWS_at]. cbn -[N.add nnat rev]. rewrite Hdn.
  cbn -[N.add nnat rev N.sub].
  replace (nnat (length p) + nnat (length sp) + 1 + nnat (length r) + nnat 0 + nnat 2)
    with (nnat (length p) + nnat (length sp) + nnat (S (length r)) + 2) by (unfold nnat; lia).
  replace (nnat (length p) + nnat (length sp) + 1 + nnat (length r) - (nnat (length p) + nnat (length sp)))
    with (nnat (S (length r))) by (unfold nnat; lia).
  reflexivity.
Qed.

(* Content-Length: additionally at most 9 digits and at most MaxClenValue *)
Theorem clen_value_spec p sp ds d x :
  Forall (fun b => is_sp b = true) sp -> all_digits ds -> ds <> [] -> is_sp d = false ->
  let i := nnat (length p) in
  let text := sp ++ ds ++ CR :: LF :: d :: x in
  if (dec ds <=? MaxClenValue) && (nnat (length ds) <=? MaxCLenValueSize) then
    parse_clen (p ++ text) i uintb0
    = Done (i + nnat (length sp) + nnat (length ds) + 2) EOk
        (mkuintb (dec ds) (mkpf (i + nnat (length sp)) (nnat (length ds))) ClFIN 0)
  else exists o s', parse_clen (p ++ text) i uintb0 = Done o ENumTooBig s'.
Proof.
  intros Hsp Hd Hne Hdn i text. pose proof (uint_value_spec p sp ds d x Hsp Hd Hne Hdn) as H. cbv zeta in H.
  fold i in H. fold text in H. unfold parse_clen.
  destruct (dec ds <=? MaxU32) eqn:E32.
  - rewrite H. cbn [ui_sval ui_val pl po].
    destruct (dec ds <=? MaxClenValue) eqn:E1, (nnat (length ds) <=? MaxCLenValueSize) eqn:E2; cbn [andb].
    + replace ((MaxCLenValueSize <? nnat (length ds)) || (MaxClenValue <? dec ds)) with false by lia. reflexivity.
    + replace ((MaxCLenValueSize <? nnat (length ds)) || (MaxClenValue <? dec ds)) with true by lia. eexists. eexists. reflexivity.
    + replace ((MaxCLenValueSize <? nnat (length ds)) || (MaxClenValue <? dec ds)) with true by lia. eexists. eexists. reflexivity.
    + replace ((MaxCLenValueSize <? nnat (length ds)) || (MaxClenValue <? dec ds)) with true by lia. eexists. eexists. reflexivity.
  - replace (dec ds <=? MaxClenValue) with false by (unfold MaxClenValue, MaxU32 in *; lia). cbn [andb].
    destruct H as (o & s' & ->). eexists. eexists. reflexivity.
Qed.
