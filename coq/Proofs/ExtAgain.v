(* IterExtI for a list loop whose iteration runs an inner resumable parser on the current slot and,
   when the inner parser answers "more values" without having consumed anything (a resumed call that
   finds the next value's first byte), runs it once more at the same offset on the next slot. *)
From Sipsp Require Import RunLemmas Safe Resume Ext ExtLeaf ZSlice Harness ExtNameAddr ExtNested ExtI.
From Coq Require Import ZifyN ZifyNat ZifyBool.

Section Again.
  Context {L V : Type}.
  Variable inner : list byte -> list byte -> N -> V -> ires V.
  Variable outer1 outer : list byte -> list byte -> N -> L -> ires L.
  Variable sel : L -> V.
  Variable post : list byte -> list byte -> N -> L -> N -> err -> V -> ires L.
  Variable store : L -> V -> L.
  Variable Iv : L -> Prop.        (* the invariant of the list object *)
  Variable fresh : L -> Prop.     (* the current slot has not been started *)
  Variable mv : err -> Prop.      (* the inner verdicts after which the loop goes on *)

  Hypothesis inner_ext : IterExt inner.
  Hypothesis outer1_def : forall pre rest i l,
    outer1 pre rest i l = match run inner pre rest i 0 (sel l) with
                          | Done next e v => post pre rest i l next e v
                          | _ => IPanic end.
  Hypothesis outer_def : forall pre rest i l,
    outer pre rest i l = match outer1 pre rest i l with Next O l' => outer1 pre rest i l' | r => r end.
  Hypothesis post_more : forall pre rest i l next v, post pre rest i l next EMore v = Ret next EMore (store l v).
  Hypothesis sel_store : forall l v, sel (store l v) = v.
  Hypothesis store_store : forall l v v', store (store l v) v' = store l v'.
  Hypothesis store_I : forall l v, Iv l -> Iv (store l v).
  Hypothesis post_ext : forall pre R x i l next e v, i = nnat (length pre) -> e <> EMore ->
    run inner pre R i 0 (sel l) = Done next e v ->
    ires_same_or_panic (post pre R i l next e v) (post pre (R ++ x) i l next e v).
  Hypothesis post_shape : forall pre R i l next e v, e <> EMore ->
    match post pre R i l next e v with
    | Ret _ EMore _ => False
    | Next kk X => kk = N.to_nat (next - i) /\ mv e /\ (Iv l -> Iv X /\ fresh X)
    | _ => True
    end.
  Hypothesis post_resumed : forall pre B i k l v next e v', (k <= length B)%nat -> i = nnat (length pre) -> e <> EMore ->
    post (zpre k pre B) (zrest k B) (i + nnat k) (store l v) next e v' =
    match post pre B i l next e v' with
    | Next _ X => Next (N.to_nat (next - (i + nnat k))) X
    | r => r
    end.
  Hypothesis progress : forall pre rest i l, fresh l -> match outer1 pre rest i l with Next O _ => False | _ => True end.
  Hypothesis inner_offsets : forall pre rest i v o e v', run inner pre rest i 0 v = Done o e v' -> mv e ->
    i <= o /\ o <= i + nnat (length rest).

  Lemma outer_fresh pre rest i l : fresh l -> outer pre rest i l = outer1 pre rest i l.
  Proof.
    intros Hf. rewrite outer_def. pose proof (progress pre rest i l Hf) as P.
    destruct (outer1 pre rest i l) as [[|k] X| |]; [destruct P|reflexivity..].
  Qed.

  Lemma zpre_0 (pre B : list byte) : zpre 0 pre B = pre.
  Proof. unfold zpre. cbn. reflexivity. Qed.
  Lemma zrest_0 (B : list byte) : zrest 0 B = B.
  Proof. reflexivity. Qed.

  (* the object picked up k bytes further on does what the original object does from the start *)
  Lemma resumed pre B i k l v : Iv l -> (k <= length B)%nat -> i = nnat (length pre) ->
    run inner (zpre k pre B) (zrest k B) (i + nnat k) 0 v = run inner pre B i 0 (sel l) ->
    after outer (zpre k pre B) (zrest k B) (i + nnat k) (outer (zpre k pre B) (zrest k B) (i + nnat k) (store l v))
    = after outer pre B i (outer pre B i l).
  Proof.
    intros Hl Hk Hi Hrun. rewrite !outer_def, !outer1_def, sel_store, Hrun.
    destruct (run inner pre B i 0 (sel l)) as [n2 e2 v2| |] eqn:Er; [|reflexivity|reflexivity].
    assert (Hd : e2 <> EMore -> after outer (zpre k pre B) (zrest k B) (i + nnat k)
                   match post (zpre k pre B) (zrest k B) (i + nnat k) (store l v) n2 e2 v2 with
                   | Next 0 l' => outer1 (zpre k pre B) (zrest k B) (i + nnat k) l' | r => r end
                 = after outer pre B i match post pre B i l n2 e2 v2 with Next 0 l' => outer1 pre B i l' | r => r end).
    { intros He. rewrite (post_resumed pre B i k l v n2 e2 v2 Hk Hi He).
      pose proof (post_shape pre B i l n2 e2 v2 He) as Sh.
      destruct (post pre B i l n2 e2 v2) as [kk X|o e X|]; [|destruct (e); reflexivity|reflexivity].
      destruct Sh as (-> & Hmv & HX). destruct (HX Hl) as [IX FX].
      pose proof (inner_offsets _ _ _ _ _ _ _ Hrun Hmv) as [O1 O2]. rewrite zrest_length in O2.
      destruct (N.eq_dec n2 (i + nnat k)) as [En|En].
      - (* no advance in the resumed call *)
        subst n2. replace (N.to_nat (i + nnat k - (i + nnat k))) with 0%nat by lia.
        replace (N.to_nat (i + nnat k - i)) with k by (unfold nnat; lia).
        destruct k as [|k'].
        + rewrite zpre_0, zrest_0. replace (i + nnat 0) with i by (unfold nnat; lia). reflexivity.
        + unfold after at 2. replace (S k' <=? length B)%nat with true by (symmetry; apply Nat.leb_le; lia).
          rewrite run_after, outer_fresh by exact FX. reflexivity.
      - assert (Ea : N.to_nat (n2 - (i + nnat k)) = S (N.to_nat (n2 - (i + nnat k)) - 1)) by (unfold nnat in *; lia).
        assert (Eb : N.to_nat (n2 - i) = S (N.to_nat (n2 - i) - 1)) by (unfold nnat in *; lia).
        rewrite Ea, Eb, <- Ea, <- Eb.
        apply after_next_shift; [exact Hk|unfold nnat in *; lia|unfold nnat in *; lia]. }
    destruct e2; try (apply Hd; discriminate).
    rewrite !post_more, store_store. reflexivity.
  Qed.

  Lemma next_ext pre R x i l kk X : i = nnat (length pre) -> outer1 pre R i l = Next kk X ->
    outer1 pre (R ++ x) i l = Next kk X /\ (Iv l -> Iv X /\ fresh X).
  Proof.
    intros Hi. rewrite !outer1_def.
    pose proof (run_ext inner (fun _ => []) inner_ext R pre x i (sel l) Hi) as He.
    destruct (run inner pre R i 0 (sel l)) as [next e v| |] eqn:Er; try discriminate.
    assert (Hd : e <> EMore -> run inner pre (R ++ x) i 0 (sel l) = Done next e v -> post pre R i l next e v = Next kk X ->
                 match run inner pre (R ++ x) i 0 (sel l) with Done next e v => post pre (R ++ x) i l next e v | _ => IPanic end = Next kk X /\ (Iv l -> Iv X /\ fresh X)).
    { intros Hne He' Hp. rewrite He'. pose proof (post_shape pre R i l next e v Hne) as Sh. rewrite Hp in Sh.
      destruct (post_ext pre R x i l next e v Hi Hne Er) as [P|P]; [rewrite Hp in P; discriminate P|]. rewrite P. split; [exact Hp|apply (proj2 (proj2 Sh))]. }
    destruct e; try (apply Hd; [discriminate|exact He]).
    rewrite post_more. discriminate.
  Qed.

  Lemma clause1 pre R x i l : Iv l -> i = nnat (length pre) ->
    match outer1 pre R i l with Next O _ => False | _ => True end ->
    clauseI outer Iv pre R x i (outer1 pre R i l) (outer pre (R ++ x) i l).
  Proof.
    intros Hl Hi Hn0.
    destruct (outer1 pre R i l) as [kk X|o e X|] eqn:E1; [| |exact I].
    - destruct (next_ext pre R x i l kk X Hi E1) as [E2 HX]. unfold clauseI. intros _.
      rewrite outer_def, E2. destruct kk as [|kk]; [destruct Hn0|]. split; [reflexivity|]. intros _. apply HX. exact Hl.
    - rewrite outer1_def in E1.
      pose proof (run_ext inner (fun _ => []) inner_ext R pre x i (sel l) Hi) as He.
      destruct (run inner pre R i 0 (sel l)) as [next e1 v| |] eqn:Er; try discriminate.
      assert (Hd : e1 <> EMore -> run inner pre (R ++ x) i 0 (sel l) = Done next e1 v -> clauseI outer Iv pre R x i (Ret o e X) (outer pre (R ++ x) i l)).
      { intros Hne He'. pose proof (post_shape pre R i l next e1 v Hne) as Sh. rewrite E1 in Sh.
        destruct (post_ext pre R x i l next e1 v Hi Hne Er) as [P|P]; [rewrite E1 in P; discriminate P|].
        rewrite outer_def, outer1_def, He', P, E1. unfold clauseI. destruct e; try reflexivity. destruct Sh. }
      destruct e1; try (apply Hd; [discriminate|exact He]).
      rewrite post_more in E1. injection E1 as <- <- <-. destruct He as (k & Hk & Hn & Hrq).
      unfold clauseI. split; [apply store_I; exact Hl|]. exists k. split; [exact Hk|]. split; [exact Hn|].
      subst next. rewrite run_after. apply resumed; [exact Hl|rewrite app_length; lia|exact Hi|exact Hrq].
  Qed.

  Theorem again_IterExtI : IterExtI outer Iv.
  Proof.
    intros pre R x i l Hi Hl. rewrite (outer_def pre R).
    destruct (outer1 pre R i l) as [[|k] l'|o e l'|] eqn:E1.
    - destruct (next_ext pre R x i l 0%nat l' Hi E1) as [E2 HX]. destruct (HX Hl) as [Il Fl].
      rewrite (outer_def pre (R ++ x)), E2, <- (outer_fresh pre (R ++ x) i l' Fl).
      apply clause1; [exact Il|exact Hi|apply progress; exact Fl].
    - rewrite <- E1. apply clause1; [exact Hl|exact Hi|rewrite E1; exact I].
    - rewrite <- E1. apply clause1; [exact Hl|exact Hi|rewrite E1; exact I].
    - exact I.
  Qed.
End Again.
