(* ExtOK for ParseTokenParam (all flag sets without POptInputEndF: with that flag the
   parser is told "this is all there is", which C02/C03 exempt) *)
From Sipsp Require Import RunLemmas Safe Resume Ext ExtLeaf ZSlice Harness.
From Coq Require Import ZifyN ZifyNat ZifyBool.

(* ---- offsets of SkipQuoted ------------------------------------------------------------ *)
Lemma sq_offsets : forall rest pre j o e u, run sq_iter pre rest j 0 tt = Done o e u ->
  j <= o /\ o <= j + nnat (length rest) /\ (e = EOk -> j < o).
Proof.
  induction rest as [rest IH] using (well_founded_induction (Wf_nat.well_founded_ltof _ (@length byte))).
  intros pre j o e u H.
  assert (Hfin : forall (oo : N) (ee : err) (k : N), k <= nnat (length rest) -> (ee = EOk -> 0 < k) ->
            Done (j + k) ee tt = Done o e u -> j <= o /\ o <= j + nnat (length rest) /\ (e = EOk -> j < o)).
  { intros oo ee k Hk Hp Hd. injection Hd as <- <- <-. split; [lia|]. split; [lia|]. intros He. specialize (Hp He). lia. }
  destruct rest as [|c r].
  - cbn in H. apply (Hfin j EMore 0); [unfold nnat; lia|discriminate|now rewrite N.add_0_r].
  - cbn [run] in H. unfold sq_iter at 1 in H.
    destruct (c =? 34) eqn:Eq; [apply (Hfin j EOk 1); [unfold nnat; cbn [length]; lia|lia|exact H]|].
    destruct (c =? 92) eqn:Eb.
    + destruct r as [|d r']; [apply (Hfin j EMore 0); [unfold nnat; lia|discriminate|now rewrite N.add_0_r]|].
      destruct (is_crlf d); [apply (Hfin j EBadChar 1); [unfold nnat; cbn [length]; lia|discriminate|exact H]|].
      cbn [run] in H. apply IH in H; [|unfold ltof; cbn; lia]. clear IH Hfin.
      unfold nnat in *. cbn [length]. lia.
    + destruct (_ || _); [apply (Hfin j EBadChar 0); [unfold nnat; lia|discriminate|now rewrite N.add_0_r]|].
      destruct (_ && _); [apply (Hfin j EBadChar 0); [unfold nnat; lia|discriminate|now rewrite N.add_0_r]|].
      apply IH in H; [|unfold ltof; cbn; lia]. clear IH Hfin.
      unfold nnat in *. cbn [length]. lia.
Qed.

Section Tok.
  Variable flags : N.
  Let f := tp_decode flags.
  Hypothesis no_input_end : tf_ie f = false.
  Notation it := (tp_iter flags).

  Lemma tp_more j bend s : tp_moreBytes f j bend s = Ret j EMore s.
  Proof. unfold tp_moreBytes. now rewrite no_input_end. Qed.

  Lemma tp_endOfHdr_final ret s : match tp_endOfHdr ret s with Ret _ EMore _ => False | _ => True end.
  Proof. unfold tp_endOfHdr. destruct (tp_state s); exact I. Qed.

  (* white space: suspension before the white space, nothing changes *)
  Lemma tp_ws_clause pre (c : byte) r x i s upd :
    tp_ws f ((c :: r) ++ x) i s upd = it pre ((c :: r) ++ x) i s \/ True ->
    (tp_ws f (c :: r) i s upd = Ret i EMore s -> it pre ((c :: r) ++ x) i s = tp_ws f ((c :: r) ++ x) i s upd) ->
    clause it pre (c :: r) x i (tp_ws f (c :: r) i s upd) (tp_ws f ((c :: r) ++ x) i s upd).
  Proof.
    intros _ Hit. unfold tp_ws in *. rewrite no_input_end in *.
    pose proof (skipLWS_ext (c :: r) x) as He.
    destruct (skipLWS false (c :: r)) as [n|n crl|n] eqn:El.
    - rewrite He. apply clause_same. destruct upd; exact I.
    - rewrite He. apply clause_same. destruct upd as [s1|]; [|exact I].
      pose proof (tp_endOfHdr_final (i + nnat n + nnat crl) s1) as Hf.
      destruct (tp_endOfHdr _ s1) as [? ?|? [] ?|]; auto.
    - rewrite tp_more in *. rewrite <- (Hit eq_refl). apply clause_here.
  Qed.

  Lemma tp_step_ws pre i s c st : is_ws c = true -> st = tp_state s -> st <> PFIN ->
    st <> PQuotedVal -> st <> PERR ->
    exists upd, forall R, tp_step f pre (c :: R) i s c st = tp_ws f (c :: R) i s upd.
  Proof.
    intros Hws -> Hf Hq He. unfold tp_step, tp_sInit, tp_sName, tp_sFEq, tp_sFVal, tp_sVal, tp_sFSep.
    destruct (tp_state s); try congruence; rewrite ?Hws; eexists; intros R; reflexivity.
  Qed.

  (* every non-white-space, non-quoted step looks at the current byte only *)
  Lemma tp_step_nonws pre R R' i s c st : is_ws c = false -> st <> PQuotedVal ->
    tp_step f pre (c :: R) i s c st = tp_step f pre (c :: R') i s c st.
  Proof.
    intros Hws Hq. unfold tp_step, tp_sInit, tp_sName, tp_sFEq, tp_sFVal, tp_sVal, tp_sFSep.
    destruct st; try congruence; rewrite ?Hws; reflexivity.
  Qed.
  Lemma tp_step_nomore pre R i s c st : is_ws c = false -> st <> PQuotedVal ->
    match tp_step f pre (c :: R) i s c st with Ret _ EMore _ => False | _ => True end.
  Proof.
    intros Hws Hq. unfold tp_step, tp_sInit, tp_sName, tp_sFEq, tp_sFVal, tp_sVal, tp_sFSep, tp_bad, tp_spterm_ret.
    destruct st; try congruence; rewrite ?Hws;
    repeat match goal with
           | |- context [match ?o with Some _ => _ | None => _ end] => destruct o
           | |- context [if ?b then _ else _] => destruct b
           | |- context [let '(a, b) := ?p in _] => destruct p
           end; exact I.
  Qed.

  (* the quoted value: the nested SkipQuoted run is resumed where it suspended *)
  Lemma tp_quoted_clause pre c R x i s : i = nnat (length pre) -> tp_state s = PQuotedVal ->
    clause it pre (c :: R) x i (tp_sQuoted f pre (c :: R) i s) (tp_sQuoted f pre ((c :: R) ++ x) i s).
  Proof.
    intros Hi Hst. unfold tp_sQuoted.
    pose proof (run_ext sq_iter (fun _ : unit => []) sq_IterExt (c :: R) pre x i tt Hi) as He.
    destruct (run sq_iter pre (c :: R) i 0 tt) as [o e []| |] eqn:Eq; [|exact I|exact I].
    destruct e; try (rewrite He; apply clause_same; try exact I;
                     destruct (ext2 _ _ _ _) as [[? ?]|]; exact I).
    (* suspended inside the quoted string at o = i + k *)
    destruct He as (k & Hk & Ho & Hrq). rewrite tp_more.
    set (B := (c :: R) ++ x) in *.
    assert (HkB : (k <= length B)%nat) by (subst B; rewrite app_length; lia).
    exists k. split; [exact Hk|]. split; [exact Ho|].
    change ((c :: R) ++ x) with B. rewrite run_after.
    assert (Hit : it (zpre k pre B) (zrest k B) o s =
                  match zrest k B with
                  | [] => Ret o EMore s
                  | _ :: _ => tp_sQuoted f (zpre k pre B) (zrest k B) o s
                  end).
    { unfold tp_iter. fold f. rewrite Hst. destruct (zrest k B); [apply tp_more|reflexivity]. }
    rewrite Hit. clear Hit.
    destruct (zrest k B) as [|c' R'] eqn:ER.
    - (* nothing more: SkipQuoted on the whole also stops here *)
      rewrite <- Hrq. cbn [run sq_iter]. rewrite tp_more. reflexivity.
    - rewrite <- ER in *. unfold tp_sQuoted. rewrite Hrq.
      destruct (run sq_iter pre B i 0 tt) as [o2 e2 []| |] eqn:E2; try reflexivity.
      pose proof Hrq as Hoff. apply sq_offsets in Hoff.
      destruct e2; try (rewrite !tp_more; reflexivity); try reflexivity.
      (* closing quote found at o2 - 1 *)
      destruct (ext2 _ _ _ _) as [[v a]|]; [|reflexivity].
      destruct Hoff as (H1 & H2 & H3). specialize (H3 eq_refl).
      rewrite zrest_length in H2.
      cbn [after].
      assert (Ea : N.to_nat (o2 - o) = S (N.to_nat (o2 - o) - 1)) by lia.
      assert (Eb : N.to_nat (o2 - i) = S (N.to_nat (o2 - i) - 1)) by (unfold nnat in *; lia).
      rewrite Ea, Eb, <- Ea, <- Eb.
      replace (N.to_nat (o2 - o) <=? length (zrest k B))%nat with true
        by (symmetry; apply Nat.leb_le; rewrite zrest_length; unfold nnat in *; lia).
      replace (N.to_nat (o2 - i) <=? length B)%nat with true
        by (symmetry; apply Nat.leb_le; unfold nnat in *; lia).
      rewrite zpre_zpre by exact HkB. rewrite zrest_zrest.
      replace (k + N.to_nat (o2 - o))%nat with (N.to_nat (o2 - i)) by (unfold nnat in *; lia).
      f_equal. unfold nnat in *. lia.
  Qed.

  Lemma tp_ws_state pre c R x i s st : is_ws c = true -> tp_state s = st -> st <> PFIN -> st <> PQuotedVal -> st <> PERR ->
    clause it pre (c :: R) x i (tp_step f pre (c :: R) i s c st) (tp_step f pre (c :: R ++ x) i s c st).
  Proof.
    intros Hws Est H1 H2 H3.
    destruct (tp_step_ws pre i s c st Hws (eq_sym Est) H1 H2 H3) as [upd Hu].
    rewrite (Hu R), (Hu (R ++ x)).
    apply (tp_ws_clause pre c R x i s upd); [right; exact I|].
    intros _. unfold tp_iter. fold f. cbn [app]. rewrite Est.
    destruct st; try congruence; symmetry; apply Hu.
  Qed.

  Lemma tp_clause_cons pre c R x i s : i = nnat (length pre) -> tp_state s <> PFIN ->
    clause it pre (c :: R) x i (tp_step f pre (c :: R) i s c (tp_state s))
                               (tp_step f pre ((c :: R) ++ x) i s c (tp_state s)).
  Proof.
    intros Hi Hfin. cbn [app].
    destruct (is_ws c) eqn:Hws.
    - destruct (tp_state s) eqn:Est; try congruence;
        try (apply (tp_ws_state pre c R x i s _ Hws Est); congruence).
      + apply (tp_quoted_clause pre c R x i s Hi Est).
      + apply clause_same. exact I.
    - destruct (tp_state s) eqn:Est; try congruence;
        try (rewrite (tp_step_nonws pre R (R ++ x) i s c _ Hws) by congruence; apply clause_same;
             apply tp_step_nomore; [exact Hws|congruence]).
      + apply (tp_quoted_clause pre c R x i s Hi Est).
  Qed.

  Lemma tp_clause pre rest x i s : i = nnat (length pre) ->
    clause it pre rest x i (it pre rest i s) (it pre (rest ++ x) i s).
  Proof.
    intros Hi.
    destruct (tp_state s) eqn:Est.
    11:{ unfold tp_iter at 2 3. rewrite Est. apply clause_same. exact I. }
    all: destruct rest as [|c R];
      [replace (it pre [] i s) with (Ret i EMore s : ires tokparam)
         by (unfold tp_iter; fold f; rewrite Est; symmetry; apply tp_more); apply clause_here|].
    all: unfold tp_iter at 2 3; fold f; rewrite Est; rewrite <- Est; apply tp_clause_cons; [exact Hi|congruence].
  Qed.

  Theorem tokparam_IterExt : IterExt it.
  Proof. apply clause_IterExt. intros pre rest x j t Hj. apply tp_clause. exact Hj. Qed.
End Tok.

Theorem tokparam_ExtOK flags : tf_ie (tp_decode flags) = false ->
  ExtOK (parse_tokparam flags) obs_tokparam (fun _ _ => True).
Proof. intros H. exact (parse_ExtOK (tp_iter flags) obs_tokparam (tokparam_IterExt flags H)). Qed.
