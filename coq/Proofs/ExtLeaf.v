(* ExtOK (one-step resumption / no premature verdict) for the leaf parsers:
   SkipQuoted, Call-ID, unsigned integer values. *)
From Sipsp Require Import RunLemmas Safe Resume Ext Harness.
From Coq Require Import ZifyN ZifyNat ZifyBool.

(* ---- skipLWS on an extended buffer ------------------------------------------------ *)
Definition lshift (n : nat) (x : lws) : lws :=
  match x with LOk k => LOk (n + k) | LEOH k c => LEOH (n + k) c | LMore k => LMore (n + k) end.

Lemma skipLWS_at_shift ie : forall r k, skipLWS_at ie r k = lshift k (skipLWS_at ie r 0).
Proof.
  intros r. remember (length r) as m eqn:Hm. revert r Hm.
  induction m as [m IH] using lt_wf_ind. intros r Hm k.
  destruct r as [|c r1]; cbn [skipLWS_at]; [cbn; f_equal; lia|]. cbn [length] in Hm.
  destruct (is_sp c).
  { rewrite (IH (length r1) ltac:(lia) r1 eq_refl (S k)), (IH (length r1) ltac:(lia) r1 eq_refl 1%nat).
    destruct (skipLWS_at ie r1 0); cbn; f_equal; lia. }
  destruct (is_cr c).
  { destruct r1 as [|d r2]; [cbn; f_equal; lia|]. cbn [length] in *.
    destruct (is_lf d).
    { destruct r2 as [|e r3]; [destruct ie; cbn; f_equal; lia|]. cbn [length] in *.
      destruct (is_sp e); [|cbn; f_equal; lia].
      rewrite (IH (length (e :: r3)) ltac:(cbn; lia) (e :: r3) eq_refl (k + 2)%nat),
              (IH (length (e :: r3)) ltac:(cbn; lia) (e :: r3) eq_refl (0 + 2)%nat).
      destruct (skipLWS_at ie (e :: r3) 0); cbn; f_equal; lia. }
    destruct (is_sp d); [|cbn; f_equal; lia].
    rewrite (IH (length (d :: r2)) ltac:(cbn; lia) (d :: r2) eq_refl (k + 1)%nat),
            (IH (length (d :: r2)) ltac:(cbn; lia) (d :: r2) eq_refl (0 + 1)%nat).
    destruct (skipLWS_at ie (d :: r2) 0); cbn; f_equal; lia. }
  destruct (is_lf c); [|cbn; f_equal; lia].
  destruct r1 as [|d r2]; [cbn; f_equal; lia|]. cbn [length] in *.
  destruct (is_sp d); [|cbn; f_equal; lia].
  rewrite (IH (length (d :: r2)) ltac:(cbn; lia) (d :: r2) eq_refl (k + 1)%nat),
          (IH (length (d :: r2)) ltac:(cbn; lia) (d :: r2) eq_refl (0 + 1)%nat).
  destruct (skipLWS_at ie (d :: r2) 0); cbn; f_equal; lia.
Qed.

(* a verdict on a prefix is kept on every extension; a suspension at n means: on the
   extension the skip continues from n as if started there *)
Lemma skipLWS_ext_at : forall r k x,
  match skipLWS_at false r k with
  | LOk n => skipLWS_at false (r ++ x) k = LOk n
  | LEOH n c => skipLWS_at false (r ++ x) k = LEOH n c
  | LMore n => (k <= n)%nat /\ (n - k <= length r)%nat /\
               skipLWS_at false (r ++ x) k = skipLWS_at false (skipn (n - k) (r ++ x)) n
  end.
Proof.
  intros r. remember (length r) as m eqn:Hm. revert r Hm.
  induction m as [m IH] using lt_wf_ind. intros r Hm k x.
  destruct r as [|c r1].
  { cbn. replace (k - k)%nat with 0%nat by lia. cbn. auto with arith. }
  cbn [skipLWS_at app]. cbn [length] in Hm.
  destruct (is_sp c) eqn:Hsp.
  { specialize (IH (length r1) ltac:(lia) r1 eq_refl (S k) x).
    destruct (skipLWS_at false r1 (S k)) as [n|n crl|n]; auto.
    destruct IH as (H1 & H2 & H3). split; [lia|]. split; [cbn; lia|].
    rewrite H3. replace (n - k)%nat with (S (n - S k)) by lia. reflexivity. }
  destruct (is_cr c) eqn:Hcr.
  { destruct r1 as [|d r2].
    { cbn. replace (k - k)%nat with 0%nat by lia. cbn. rewrite Hsp, Hcr. auto with arith. }
    cbn [app]. cbn [length] in *. destruct (is_lf d) eqn:Hlf.
    { destruct r2 as [|e r3].
      { cbn. replace (k - k)%nat with 0%nat by lia. cbn. rewrite Hsp, Hcr, Hlf. split; [lia|split; [lia|reflexivity]]. }
      cbn [app]. cbn [length] in *. destruct (is_sp e) eqn:Hspe; auto.
      specialize (IH (length (e :: r3)) ltac:(cbn; lia) (e :: r3) eq_refl (k + 2)%nat x).
      destruct (skipLWS_at false (e :: r3) (k + 2)) as [n|n crl|n]; auto.
      destruct IH as (H1 & H2 & H3). split; [lia|]. split; [cbn in *; lia|].
      cbn [app] in H3. rewrite H3. replace (n - k)%nat with (S (S (n - (k + 2)))) by lia. reflexivity. }
    destruct (is_sp d) eqn:Hspd; auto.
    specialize (IH (length (d :: r2)) ltac:(cbn; lia) (d :: r2) eq_refl (k + 1)%nat x).
    destruct (skipLWS_at false (d :: r2) (k + 1)) as [n|n crl|n]; auto.
    destruct IH as (H1 & H2 & H3). split; [lia|]. split; [cbn in *; lia|].
    cbn [app] in H3. rewrite H3. replace (n - k)%nat with (S (n - (k + 1))) by lia. reflexivity. }
  destruct (is_lf c) eqn:Hlf; auto.
  destruct r1 as [|d r2].
  { cbn. replace (k - k)%nat with 0%nat by lia. cbn. rewrite Hsp, Hcr, Hlf. auto with arith. }
  cbn [app]. cbn [length] in *. destruct (is_sp d) eqn:Hspd; auto.
  specialize (IH (length (d :: r2)) ltac:(cbn; lia) (d :: r2) eq_refl (k + 1)%nat x).
  destruct (skipLWS_at false (d :: r2) (k + 1)) as [n|n crl|n]; auto.
  destruct IH as (H1 & H2 & H3). split; [lia|]. split; [cbn in *; lia|].
  cbn [app] in H3. rewrite H3. replace (n - k)%nat with (S (n - (k + 1))) by lia. reflexivity.
Qed.

Lemma skipLWS_ext r x :
  match skipLWS false r with
  | LOk n => skipLWS false (r ++ x) = LOk n
  | LEOH n c => skipLWS false (r ++ x) = LEOH n c
  | LMore n => (n <= length r)%nat /\ skipLWS false (r ++ x) = lshift n (skipLWS false (skipn n (r ++ x)))
  end.
Proof.
  unfold skipLWS. pose proof (skipLWS_ext_at r 0 x) as H.
  destruct (skipLWS_at false r 0); auto.
  destruct H as (_ & H2 & H3). rewrite Nat.sub_0_r in *. split; [exact H2|].
  rewrite H3. apply skipLWS_at_shift.
Qed.

Lemma skipLWS_nonws c r : is_ws c = false -> skipLWS false (c :: r) = LOk 0.
Proof.
  unfold is_ws, is_crlf, skipLWS. intros H. cbn.
  destruct (is_sp c), (is_cr c), (is_lf c); cbn in H; try discriminate; reflexivity.
Qed.
Lemma skipLWS_nil : skipLWS false [] = LMore 0. Proof. reflexivity. Qed.

(* ---- SkipQuoted ---------------------------------------------------------------------- *)
Lemma zpre0 (pre rest : list byte) : zpre 0 pre rest = pre. Proof. reflexivity. Qed.
Lemma zrest0 (rest : list byte) : zrest 0 rest = rest. Proof. reflexivity. Qed.

Lemma more_here {St} (iter : list byte -> list byte -> N -> St -> ires St) (obs : St -> list Z) pre rest x j t :
  exists k, (k <= length rest)%nat /\ j = j + nnat k /\
    run iter (zpre k pre (rest ++ x)) (zrest k (rest ++ x)) j 0 t = run iter pre (rest ++ x) j 0 t.
Proof. exists 0%nat. split; [lia|]. split; [unfold nnat; lia|]. rewrite zpre0, zrest0. reflexivity. Qed.

Lemma sq_IterExt : IterExt sq_iter.
Proof.
  intros pre rest x j t _. set (R := run sq_iter). unfold sq_iter.
  destruct rest as [|c [|d r]]; cbn [app].
  - subst R. exact (more_here sq_iter (fun _ => []) pre [] x j t).
  - destruct (c =? 34); [reflexivity|].
    destruct (c =? 92); [subst R; exact (more_here sq_iter (fun _ => []) pre [c] x j t)|].
    destruct (_ || _); [reflexivity|]. destruct (_ && _); [reflexivity|]. intros _. reflexivity.
  - destruct (c =? 34); [reflexivity|]. destruct (c =? 92).
    + destruct (is_crlf d); [reflexivity|intros _; reflexivity].
    + destruct (_ || _); [reflexivity|]. destruct (_ && _); [reflexivity|]. intros _. reflexivity.
Qed.

Theorem quoted_ExtOK : ExtOK (fun b o (_ : unit) => skip_quoted b o) (fun _ => []) (fun _ _ => True).
Proof.
  pose proof (parse_ExtOK sq_iter (fun _ : unit => []) sq_IterExt) as H.
  intros p x i s Hinv Hi. destruct s. pose proof (H p x i tt Hinv Hi) as H1. unfold skip_quoted.
  destruct (parse sq_iter p i tt) as [o e []| |]; auto.
Qed.

(* what run does after the first iteration returned x *)
  Definition after {St} (iter : list byte -> list byte -> N -> St -> ires St) (pre R : list byte) (i : N) (x : ires St) : res St :=
    match x with
    | Next k s' =>
      match k with
      | O => Stuck
      | S _ => if (k <=? length R)%nat then run iter (zpre k pre R) (zrest k R) (i + nnat k) 0 s' else Stuck
      end
    | Ret o e s' => Done o e s'
    | IPanic => Panic
    end.

  Lemma run_after {St} (iter : list byte -> list byte -> N -> St -> ires St) pre R i t :
    run iter pre R i 0 t = after iter pre R i (iter pre R i t).
  Proof.
    unfold after. destruct (iter pre R i t) as [k s'|o e s'|] eqn:E.
    - destruct R as [|c r]; cbn [run]; rewrite E; destruct k as [|k]; auto.
      destruct (S k <=? length (c :: r))%nat eqn:Ek.
      + apply Nat.leb_le in Ek. rewrite run_skip by (cbn in Ek; lia).
        unfold zpre, zrest. cbn [firstn skipn rev]. rewrite <- app_assoc. cbn [app]. rewrite nnat_S. f_equal. lia.
      + apply Nat.leb_gt in Ek.
        assert (Hs : forall (r0 : list byte) pre0 i0 k0 s0, (length r0 < k0)%nat -> run iter pre0 r0 i0 k0 s0 = Stuck).
        { induction r0 as [|c0 r0 IHr]; intros pre0 i0 k0 s0 Hlt; destruct k0; cbn in *; try lia; auto. apply IHr. lia. }
        apply Hs. cbn in Ek. lia.
    - now apply (run_ret iter).
    - destruct R; cbn [run]; rewrite E; reflexivity.
  Qed.


(* ---- the "close the token, then skip white space" idiom, once for all parsers ---------- *)
Section LwsIdiom.
  Context {St : Type}.
  Variable iter : list byte -> list byte -> N -> St -> ires St.
  Variable eoh : list byte -> list byte -> N -> N -> nat -> St -> ires St.   (* label endOfHdr: zipper, i, n, crl *)
  Variable closed : St -> Prop.                       (* states in which white space needs no update *)

  Definition lws (pre R : list byte) (i : N) (s : St) : ires St :=
    match skipLWS false R with
    | LOk k => Next k s
    | LEOH k crl => eoh pre R i (i + nnat k) crl s
    | LMore k => Ret (i + nnat k) EMore s
    end.

  Hypothesis iter_ws : forall pre c r i s, closed s -> is_ws c = true -> iter pre (c :: r) i s = lws pre (c :: r) i s.
  Hypothesis iter_nil : forall pre i s, closed s -> iter pre [] i s = Ret i EMore s.
  (* in a closed state the end-of-header action does not depend on where the zipper stands *)
  Hypothesis eoh_adv : forall pre B i k n crl s, closed s -> (k <= length B)%nat -> i = nnat (length pre) ->
    eoh (zpre k pre B) (zrest k B) (i + nnat k) n crl s = eoh pre B i n crl s.
  Hypothesis eoh_final : forall pre R i n crl s, match eoh pre R i n crl s with Next _ _ => False | _ => True end.

  Lemma lws_more_resume pre c r x i n s1 : closed s1 -> is_ws c = true -> i = nnat (length pre) ->
    skipLWS false (c :: r) = LMore n ->
    run iter (zpre n pre ((c :: r) ++ x)) (zrest n ((c :: r) ++ x)) (i + nnat n) 0 s1
    = after iter pre ((c :: r) ++ x) i (lws pre ((c :: r) ++ x) i s1).
  Proof.
    intros Hc Hws Hi Hl. set (B := (c :: r) ++ x).
    pose proof (skipLWS_ext (c :: r) x) as He. rewrite Hl in He. destruct He as [Hn He]. fold B in He.
    unfold lws at 1. rewrite He. set (R' := skipn n B) in *. change (zrest n B) with R'.
    assert (HnB : (n <= length B)%nat) by (subst B; rewrite app_length; lia).
    destruct R' as [|c' r'] eqn:ER.
    - (* nothing more yet *)
      cbn [skipLWS_nil lshift]. rewrite skipLWS_nil. cbn [lshift after]. rewrite Nat.add_0_r.
      rewrite (run_ret iter _ _ _ _ _ _ _ (iter_nil _ _ _ Hc)). reflexivity.
    - destruct (is_ws c') eqn:Hws'.
      + rewrite run_after, (iter_ws _ _ _ _ _ Hc Hws'). unfold lws.
        pose proof (skipLWS_bounds false (c' :: r')) as Hb.
        destruct (skipLWS false (c' :: r')) as [k'|k' crl|k'] eqn:El'; cbn [lshift after].
        * apply skipLWS_ws_progress in El'; [|exact Hws'].
          assert (Hlen : length (c' :: r') = (length B - n)%nat) by (rewrite <- ER; apply skipn_length).
          destruct k' as [|k']; [lia|]. replace (n + S k')%nat with (S (n + k')) by lia.
          replace (S k' <=? length (c' :: r'))%nat with true by (symmetry; apply Nat.leb_le; lia).
          replace (S (n + k') <=? length B)%nat with true by (symmetry; apply Nat.leb_le; lia).
          rewrite <- ER. unfold R'. change (skipn n B) with (zrest n B).
          rewrite zpre_zpre by exact HnB. rewrite zrest_zrest.
          replace (n + S k')%nat with (S (n + k')) by lia.
          replace (i + nnat n + nnat (S k')) with (i + nnat (S (n + k'))) by (unfold nnat; lia).
          reflexivity.
        * rewrite <- ER. unfold R'. change (skipn n B) with (zrest n B).
          rewrite (eoh_adv pre B i n _ crl s1 Hc HnB Hi).
          replace (i + nnat n + nnat k') with (i + nnat (n + k')) by (unfold nnat; lia).
          pose proof (eoh_final pre B i (i + nnat (n + k')) crl s1) as Hf.
          destruct (eoh pre B i (i + nnat (n + k')) crl s1); [destruct Hf| |]; reflexivity.
        * replace (i + nnat n + nnat k') with (i + nnat (n + k')) by (unfold nnat; lia). reflexivity.
      + (* the white space ended exactly at n *)
        rewrite (skipLWS_nonws _ _ Hws'). cbn [lshift after]. rewrite Nat.add_0_r.
        assert (Hn0 : (0 < n)%nat).
        { destruct n; [|lia]. exfalso. subst R' B. cbn in ER. injection ER as <- _. congruence. }
        destruct n as [|n']; [lia|].
        replace (S n' <=? length B)%nat with true by (symmetry; apply Nat.leb_le; lia).
        rewrite <- ER. unfold R'. reflexivity.
  Qed.
End LwsIdiom.

(* ---- Call-ID ------------------------------------------------------------------------------- *)
Definition ci_closed (s : callid) : Prop := ci_state s = CiInit \/ ci_state s = CiEnd.

Definition ci_eoh (_ _ : list byte) := ci_endOfHdr.
Lemma ci_lws_is_lws pre R i s : ci_lws R i s = lws ci_eoh pre R i s.
Proof. reflexivity. Qed.

Lemma ci_iter_ws pre c r i s : ci_closed s -> is_ws c = true -> ci_iter pre (c :: r) i s = lws ci_eoh pre (c :: r) i s.
Proof. intros [H|H] Hws; unfold ci_iter; rewrite H, Hws; reflexivity. Qed.
Lemma ci_iter_nil pre i s : ci_closed s -> ci_iter pre [] i s = Ret i EMore s.
Proof. intros [H|H]; unfold ci_iter; rewrite H; reflexivity. Qed.
Lemma ci_eoh_adv pre B i k n crl s : ci_closed s -> (k <= length B)%nat -> i = nnat (length pre) ->
  ci_eoh (zpre k pre B) (zrest k B) (i + nnat k) n crl s = ci_eoh pre B i n crl s.
Proof. intros [H|H] _ _; unfold ci_eoh, ci_endOfHdr; rewrite H; reflexivity. Qed.
Lemma ci_eoh_final (pre R : list byte) i n crl s : match ci_eoh pre R i n crl s with Next _ _ => False | _ => True end.
Proof. unfold ci_eoh, ci_endOfHdr. destruct (ci_state s); auto. destruct (pf_set _ _); exact I. Qed.

(* the IterExt clause, as a predicate on one iteration *)
Definition ext_clause {St} (iter : list byte -> list byte -> N -> St -> ires St) (obs : St -> list Z)
  (pre rest x : list byte) (j : N) (t : St) : Prop :=
  match iter pre rest j t with
  | Next k t' => (k <= length rest)%nat -> iter pre (rest ++ x) j t = Next k t'
  | Ret o EMore t' =>
    exists k, (k <= length rest)%nat /\ o = j + nnat k /\
      run iter (zpre k pre (rest ++ x)) (zrest k (rest ++ x)) o 0 t' = run iter pre (rest ++ x) j 0 t
  | Ret o e t' => iter pre (rest ++ x) j t = Ret o e t'
  | IPanic => True
  end.

(* white space met in state t; s1 = the state after closing the token *)
Lemma ci_ws_case pre c r x j t s1 : j = nnat (length pre) -> is_ws c = true -> ci_closed s1 ->
  (forall R, ci_iter pre (c :: R) j t = ci_lws (c :: R) j s1) ->
  ext_clause ci_iter obs_callid pre (c :: r) x j t.
Proof.
  intros Hj Hws Hcl Hit. unfold ext_clause. rewrite (Hit r). cbn [app]. rewrite (Hit (r ++ x)).
  unfold ci_lws. set (L2 := ci_endOfHdr). 
  pose proof (skipLWS_ext (c :: r) x) as He. cbn [app] in He.
  destruct (skipLWS false (c :: r)) as [n|n crl|n] eqn:El.
  - subst L2. rewrite He. intros _. reflexivity.
  - subst L2. rewrite He.
    assert (Hf : match ci_endOfHdr j (j + nnat n) crl s1 with Next _ _ => False | Ret _ EMore _ => False | _ => True end).
    { unfold ci_endOfHdr. destruct (ci_state s1); auto. destruct (pf_set _ _); exact I. }
    destruct (ci_endOfHdr j (j + nnat n) crl s1) as [? ?|? [] ?|]; try reflexivity; try exact I; destruct Hf.
  - destruct He as [Hn He]. exists n. split; [exact Hn|]. split; [reflexivity|].
    subst L2. rewrite (run_after ci_iter pre (c :: r ++ x) j t), (Hit (r ++ x)), (ci_lws_is_lws pre).
    apply (lws_more_resume ci_iter ci_eoh ci_closed ci_iter_ws ci_iter_nil ci_eoh_adv ci_eoh_final
             pre c r x j n s1 Hcl Hws Hj El).
Qed.

Lemma ci_IterExt : IterExt ci_iter.
Proof.
  intros pre rest x j t Hj. change (ext_clause ci_iter obs_callid pre rest x j t).
  destruct (ci_state t) eqn:Est.
  4:{ unfold ext_clause, ci_iter. rewrite Est. reflexivity. }
  all: destruct rest as [|c r];
    [unfold ext_clause; replace (ci_iter pre [] j t) with (Ret j EMore t : ires callid) by (unfold ci_iter; now rewrite Est);
     exact (more_here ci_iter obs_callid pre [] x j t)|].
  all: destruct (is_ws c) eqn:Hws;
    [|unfold ext_clause, ci_iter; cbn [app]; rewrite Est, Hws; cbn; intros; reflexivity].
  - (* Init *) apply (ci_ws_case pre c r x j t t Hj Hws); [left; exact Est|]. intros R. unfold ci_iter. now rewrite Est, Hws.
  - (* Found: the token is closed first *)
    destruct (pf_set (ci_soffs t) j) as [f|] eqn:Ef.
    + apply (ci_ws_case pre c r x j t (t <| ci_callid := f |> <| ci_state := CiEnd |>) Hj Hws).
      * right. destruct t; reflexivity.
      * intros R. unfold ci_iter. now rewrite Est, Hws, Ef.
    + unfold ext_clause, ci_iter. now rewrite Est, Hws, Ef.
  - (* End *) apply (ci_ws_case pre c r x j t t Hj Hws); [right; exact Est|]. intros R. unfold ci_iter. now rewrite Est, Hws.
Qed.

Theorem callid_ExtOK : ExtOK parse_callid obs_callid (fun _ _ => True).
Proof. exact (parse_ExtOK ci_iter obs_callid ci_IterExt). Qed.

(* ---- unsigned integer values (Expires; Content-Length adds a post-check) --------------------- *)
Definition ui_closed (s : uintb) : Prop := ui_state s = ClInit \/ ui_state s = ClEnd.
Definition ui_eoh (_ _ : list byte) := ui_endOfHdr.
Lemma ui_lws_is_lws pre R i s : ui_lws R i s = lws ui_eoh pre R i s. Proof. reflexivity. Qed.
Lemma ui_iter_ws pre c r i s : ui_closed s -> is_ws c = true -> ui_iter pre (c :: r) i s = lws ui_eoh pre (c :: r) i s.
Proof. intros [H|H] Hws; unfold ui_iter; rewrite H, Hws; reflexivity. Qed.
Lemma ui_iter_nil pre i s : ui_closed s -> ui_iter pre [] i s = Ret i EMore s.
Proof. intros [H|H]; unfold ui_iter; rewrite H; reflexivity. Qed.
Lemma ui_eoh_adv pre B i k n crl s : ui_closed s -> (k <= length B)%nat -> i = nnat (length pre) ->
  ui_eoh (zpre k pre B) (zrest k B) (i + nnat k) n crl s = ui_eoh pre B i n crl s.
Proof. intros [H|H] _ _; unfold ui_eoh, ui_endOfHdr; rewrite H; reflexivity. Qed.
Lemma ui_eoh_final (pre R : list byte) i n crl s : match ui_eoh pre R i n crl s with Next _ _ => False | _ => True end.
Proof. unfold ui_eoh, ui_endOfHdr. destruct (ui_state s); auto. destruct (pf_set _ _); exact I. Qed.

Lemma ui_ws_case pre c r x j t s1 : j = nnat (length pre) -> is_ws c = true -> ui_closed s1 ->
  (forall R, ui_iter pre (c :: R) j t = ui_lws (c :: R) j s1) ->
  ext_clause ui_iter obs_uint pre (c :: r) x j t.
Proof.
  intros Hj Hws Hcl Hit. unfold ext_clause. rewrite (Hit r). cbn [app]. rewrite (Hit (r ++ x)).
  unfold ui_lws.
  pose proof (skipLWS_ext (c :: r) x) as He. cbn [app] in He.
  destruct (skipLWS false (c :: r)) as [n|n crl|n] eqn:El.
  - rewrite He. intros _. reflexivity.
  - rewrite He.
    assert (Hf : match ui_endOfHdr j (j + nnat n) crl s1 with Next _ _ => False | Ret _ EMore _ => False | _ => True end).
    { unfold ui_endOfHdr. destruct (ui_state s1); auto. destruct (pf_set _ _); exact I. }
    destruct (ui_endOfHdr j (j + nnat n) crl s1) as [? ?|? [] ?|]; try reflexivity; try exact I; destruct Hf.
  - destruct He as [Hn He]. exists n. split; [exact Hn|]. split; [reflexivity|].
    rewrite (run_after ui_iter pre (c :: r ++ x) j t), (Hit (r ++ x)), (ui_lws_is_lws pre).
    apply (lws_more_resume ui_iter ui_eoh ui_closed ui_iter_ws ui_iter_nil ui_eoh_adv ui_eoh_final
             pre c r x j n s1 Hcl Hws Hj El).
Qed.

Lemma ui_IterExt : IterExt ui_iter.
Proof.
  intros pre rest x j t Hj. change (ext_clause ui_iter obs_uint pre rest x j t).
  destruct (ui_state t) eqn:Est.
  4:{ unfold ext_clause, ui_iter. rewrite Est. reflexivity. }
  all: destruct rest as [|c r];
    [unfold ext_clause; replace (ui_iter pre [] j t) with (Ret j EMore t : ires uintb) by (unfold ui_iter; now rewrite Est);
     exact (more_here ui_iter obs_uint pre [] x j t)|].
  all: destruct (is_ws c) eqn:Hws;
    [|unfold ext_clause, ui_iter; cbn [app]; rewrite Est, Hws; destruct (is_digit c); try destruct (acc32 _ _);
      cbn; intros; reflexivity].
  - apply (ui_ws_case pre c r x j t t Hj Hws); [left; exact Est|]. intros R. unfold ui_iter. now rewrite Est, Hws.
  - destruct (pf_set (ui_soffs t) j) as [f|] eqn:Ef.
    + apply (ui_ws_case pre c r x j t (t <| ui_sval := f |> <| ui_state := ClEnd |>) Hj Hws).
      * right. destruct t; reflexivity.
      * intros R. unfold ui_iter. now rewrite Est, Hws, Ef.
    + unfold ext_clause, ui_iter. now rewrite Est, Hws, Ef.
  - apply (ui_ws_case pre c r x j t t Hj Hws); [right; exact Est|]. intros R. unfold ui_iter. now rewrite Est, Hws.
Qed.

Theorem uint_ExtOK : ExtOK parse_uint obs_uint (fun _ _ => True).
Proof. exact (parse_ExtOK ui_iter obs_uint ui_IterExt). Qed.

(* ---- the IterExt clause as a relation between the two iteration results ------------------ *)
(* r: result of the iteration on the zipper (pre, rest, j); r': its result on (pre, rest ++ x, j) *)
Definition clause {St} (iter : list byte -> list byte -> N -> St -> ires St)
  (pre rest x : list byte) (j : N) (r r' : ires St) : Prop :=
  match r with
  | Next k t' => (k <= length rest)%nat -> r' = Next k t'
  | Ret o EMore t' =>
    exists k, (k <= length rest)%nat /\ o = j + nnat k /\
      run iter (zpre k pre (rest ++ x)) (zrest k (rest ++ x)) o 0 t' = after iter pre (rest ++ x) j r'
  | Ret o e t' => r' = Ret o e t'
  | IPanic => True
  end.

Lemma clause_IterExt {St} (iter : list byte -> list byte -> N -> St -> ires St) :
  (forall pre rest x j t, j = nnat (length pre) ->
     clause iter pre rest x j (iter pre rest j t) (iter pre (rest ++ x) j t)) -> IterExt iter.
Proof.
  intros H pre rest x j t Hj. specialize (H pre rest x j t Hj). unfold clause in H.
  destruct (iter pre rest j t) as [k t'|o e t'|]; auto.
  destruct e; auto. destruct H as (k & Hk & Ho & Hr). exists k. split; [exact Hk|]. split; [exact Ho|].
  rewrite Hr. symmetry. apply run_after.
Qed.

(* the same result on both sides, and it is not a suspension *)
Lemma clause_same {St} (iter : list byte -> list byte -> N -> St -> ires St) pre rest x j (r : ires St) :
  match r with Ret _ EMore _ => False | _ => True end -> clause iter pre rest x j r r.
Proof. unfold clause. destruct r as [k t'|o e t'|]; auto. destruct e; auto; intros []. Qed.

(* suspension right here with the state untouched *)
Lemma clause_here {St} (iter : list byte -> list byte -> N -> St -> ires St) pre rest x j (t : St) :
  clause iter pre rest x j (Ret j EMore t) (iter pre (rest ++ x) j t).
Proof.
  unfold clause. exists 0%nat. split; [lia|]. split; [unfold nnat; lia|]. rewrite zpre0, zrest0. apply run_after.
Qed.
