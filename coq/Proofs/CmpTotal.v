(* C04: the URI comparison entry points never panic: URIParseCmp on any two byte strings, URICmp on any two
   accepted URIs with their texts, URIParamsEq / URIHdrsEq on any texts (no slice goes out of range). *)
From Sipsp Require Import Harness RunLemmas Safe SafeLeaf SafeMore SafeURI URIOffsets URILossless CmpLaws CmpLists.
From Coq Require Import ZifyN ZifyNat ZifyBool.
From RecordUpdate Require Import RecordUpdate.

Lemma bget_in buf f : pf_end f <= nnat (length buf) -> exists l, bget buf f = Some l.
Proof. intros H. unfold bget. apply zget_some. cbn. lia. Qed.

(* every component of an accepted URI ends inside the text *)
Definition uri_in (e : N) (u : puri) : Prop :=
  pf_end (u_user u) <= e /\ pf_end (u_pass u) <= e /\ pf_end (u_host u) <= e /\ pf_end (u_port u) <= e /\
  pf_end (u_params u) <= e /\ pf_end (u_headers u) <= e.
Lemma HdrPart_in buf P u e : HdrPart buf P u e -> uri_in e u.
Proof.
  unfold HdrPart, ParamPart, PortPart, HostPart, UserPart, uri_in, pf_end.
  intros H.
  repeat match goal with
         | H : _ \/ _ |- _ => destruct H
         | H : _ /\ _ |- _ => destruct H
         | H : exists _, _ |- _ => destruct H
         end;
  repeat match goal with H : ?f u = pf0 |- _ => rewrite H in *; clear H end; cbn [po pl pf0] in *; repeat split; lia.
Qed.
Lemma accepted_uri_in uri o u : parse_uri uri puri0 = Some (NoURIErr, o, u) -> uri_in (nnat (length uri)) u.
Proof.
  intros H. destruct (parse_uri_lossless uri o u H) as (P & u0 & _ & HP & -> & _). apply HdrPart_in in HP.
  unfold tel_swap. destruct (u_type u0 =? TELuri); [|exact HP].
  destruct HP as (A & B1 & C & D & E & F). destruct u0; unfold uri_in, pf_end in *; cbn in *. repeat split; lia.
Qed.

Lemma params_eq_total b1 o1 b2 o2 : o1 <= nnat (length b1) -> o2 <= nnat (length b2) -> uri_params_eq b1 o1 b2 o2 <> None.
Proof.
  intros H1 H2. unfold uri_params_eq.
  pose proof (uparams_safe cmp_flags_params b1 o1 _ H1 (ul_inv_init cmp_cap o1)) as S1.
  pose proof (uparams_safe cmp_flags_params b2 o2 _ H2 (ul_inv_init cmp_cap o2)) as S2.
  destruct (parse_all_uri_params cmp_flags_params b1 o1 _) as [n1 e1 l1| |]; try contradiction.
  destruct (negb _); [discriminate|].
  destruct (parse_all_uri_params cmp_flags_params b2 o2 _) as [n2 e2 l2| |]; try contradiction.
  destruct (negb _); discriminate.
Qed.
Lemma hdrs_eq_total b1 o1 b2 o2 : o1 <= nnat (length b1) -> o2 <= nnat (length b2) -> uri_hdrs_eq b1 o1 b2 o2 <> None.
Proof.
  intros H1 H2. unfold uri_hdrs_eq.
  pose proof (uhdrs_safe cmp_flags_hdrs b1 o1 _ H1 (uh_inv_init cmp_cap o1)) as S1.
  pose proof (uhdrs_safe cmp_flags_hdrs b2 o2 _ H2 (uh_inv_init cmp_cap o2)) as S2.
  destruct (parse_all_uri_hdrs cmp_flags_hdrs b1 o1 _) as [n1 e1 l1| |]; try contradiction.
  destruct (negb _); [discriminate|].
  destruct (parse_all_uri_hdrs cmp_flags_hdrs b2 o2 _) as [n2 e2 l2| |]; try contradiction.
  destruct (negb _); discriminate.
Qed.

Theorem uri_cmp_total u1 b1 u2 b2 f : uri_in (nnat (length b1)) u1 -> uri_in (nnat (length b2)) u2 -> uri_cmp u1 b1 u2 b2 f <> None.
Proof.
  intros (A1 & A2 & A3 & A4 & A5 & A6) (B1 & B2 & B3 & B4 & B5 & B6). unfold uri_cmp, uri_cmp_short. cbv zeta.
  destruct (bget_in b1 _ A1) as (x1 & ->). destruct (bget_in b2 _ B1) as (y1 & ->).
  destruct (bget_in b1 _ A2) as (x2 & ->). destruct (bget_in b2 _ B2) as (y2 & ->).
  destruct (bget_in b1 _ A3) as (x3 & ->). destruct (bget_in b2 _ B3) as (y3 & ->).
  destruct (bget_in b1 _ A5) as (x5 & ->). destruct (bget_in b2 _ B5) as (y5 & ->).
  destruct (bget_in b1 _ A6) as (x6 & ->). destruct (bget_in b2 _ B6) as (y6 & ->).
  pose proof (params_eq_total x5 0 y5 0 (N.le_0_l _) (N.le_0_l _)) as Hp.
  pose proof (hdrs_eq_total x6 0 y6 0 (N.le_0_l _) (N.le_0_l _)) as Hh.
  destruct (uri_params_eq x5 0 y5 0) as [[okp ep]|]; [|congruence].
  destruct (uri_hdrs_eq x6 0 y6 0) as [[okh eh]|]; [|congruence].
  repeat match goal with |- context [if ?b then _ else _] => destruct b end; cbn; try discriminate.
Qed.

Theorem uri_parse_cmp_total raw1 raw2 f : uri_parse_cmp raw1 raw2 f <> None.
Proof.
  unfold uri_parse_cmp. pose proof (parse_uri_total raw1) as T1. pose proof (parse_uri_total raw2) as T2.
  destruct (parse_uri raw1 puri0) as [[[e1 o1] u1]|] eqn:E1; [|congruence].
  destruct (negb (e1 =? NoURIErr)) eqn:N1; [discriminate|].
  destruct (parse_uri raw2 puri0) as [[[e2 o2] u2]|] eqn:E2; [|congruence].
  destruct (negb (e2 =? NoURIErr)) eqn:N2; [discriminate|].
  apply negb_false_iff, N.eqb_eq in N1, N2. subst e1 e2.
  pose proof (uri_cmp_total u1 raw1 u2 raw2 f (accepted_uri_in _ _ _ E1) (accepted_uri_in _ _ _ E2)) as H.
  destruct (uri_cmp u1 raw1 u2 raw2 f); [discriminate|congruence].
Qed.
