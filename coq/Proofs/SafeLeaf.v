(* C04 for the leaf header-value parsers: Call-ID, unsigned integers (Expires,
   Content-Length): never Panic/Stuck, offsets in range, fields inside the
   buffer, and the state invariant that makes the same hold on every resumed call. *)
From Sipsp Require Import RunLemmas Safe Harness.
From Coq Require Import ZifyN ZifyNat ZifyBool.

Lemma zpre_length k (pre rest : list byte) : (k <= length rest)%nat -> length (zpre k pre rest) = (k + length pre)%nat.
Proof. intros H. unfold zpre. rewrite app_length, rev_length, firstn_length. lia. Qed.

Lemma zinit_whole (buf : list byte) offs :
  rev (rev (firstn (N.to_nat offs) buf)) ++ skipn (N.to_nat offs) buf = buf.
Proof. rewrite rev_involutive. apply firstn_skipn. Qed.

(* ---- Call-ID -------------------------------------------------------------------- *)
Definition ci_inv (o : N) (s : callid) : Prop :=
  (ci_state s = CiFound -> ci_soffs s <= o) /\ pf_end (ci_callid s) <= o.

Definition ci_P (offs : N) (pre rest : list byte) (i : N) (s : callid) : Prop :=
  i = nnat (length pre) /\ offs <= i /\ ci_inv i s.
Definition ci_Q (offs : N) (pre rest : list byte) (i o : N) (e : err) (s : callid) : Prop :=
  i = nnat (length pre) /\ offs <= o /\ o <= i + nnat (length rest) /\ ci_inv o s.

Ltac zlen :=
  repeat match goal with
         | |- context [length (zpre ?k ?p ?r)] => rewrite (zpre_length k p r) by (cbn [length] in *; lia)
         end.
Ltac fin := unfold nnat, pf_end in *; cbn [length po pl] in *; zlen; repeat split; auto; intros; try lia; try congruence.

Lemma ci_step_ok offs pre rest i s : ci_P offs pre rest i s ->
  match ci_iter pre rest i s with
  | Next k s' => (0 < k <= length rest)%nat /\ ci_P offs (zpre k pre rest) (zrest k rest) (i + nnat k) s'
  | Ret o e s' => ci_Q offs pre rest i o e s'
  | IPanic => False
  end.
Proof.
  destruct s as [cid st so]. intros (Hi & Ho & Hf & He). unfold ci_iter, ci_P, ci_Q, ci_inv in *.
  cbn [ci_state ci_soffs ci_callid] in *.
  destruct st.
  4:{ fin. }
  all: destruct rest as [|c r]; [fin|].
  all: destruct (is_ws c) eqn:Ews; [|cbn -[N.add nnat zpre zrest]; fin].
  all: unfold pf_set, ci_lws.
  all: try (specialize (Hf eq_refl); replace (i <? so) with false by lia).
  all: pose proof (skipLWS_bounds false (c :: r)) as Hb.
  all: destruct (skipLWS false (c :: r)) as [k|k crl|k] eqn:El.
  all: try (apply skipLWS_ws_progress in El; [|exact Ews]).
  all: unfold ci_endOfHdr, pf_set; cbn -[N.add N.sub N.ltb nnat zpre zrest].
  all: try replace (i <? so) with false by lia.
  all: cbn -[N.add N.sub N.ltb nnat zpre zrest]; fin.
Qed.

Theorem callid_safe buf offs s : offs <= nnat (length buf) -> ci_inv offs s ->
  match parse_callid buf offs s with
  | Done o e s' => offs <= o /\ o <= nnat (length buf) /\ ci_inv o s' /\ pf_end (ci_callid s') <= nnat (length buf)
  | _ => False
  end.
Proof.
  intros Hoffs Hinv. unfold parse_callid, parse, zinit.
  pose proof (run_safe ci_iter (ci_P offs) (ci_Q offs) (ci_step_ok offs)
                (skipn (N.to_nat offs) buf) (rev (firstn (N.to_nat offs) buf)) offs s) as H.
  assert (H0 : ci_P offs (rev (firstn (N.to_nat offs) buf)) (skipn (N.to_nat offs) buf) offs s).
  { split; [|split; [lia|exact Hinv]]. rewrite rev_length, firstn_length. unfold nnat in *. lia. }
  specialize (H H0).
  destruct (run ci_iter _ _ offs 0 s) as [o e s'| |]; auto.
  destruct H as (p' & r' & i' & (Hi & H1 & H2 & H3) & Hw).
  rewrite zinit_whole in Hw. apply (f_equal (@length _)) in Hw. rewrite app_length, rev_length in Hw.
  destruct H3 as [H3a H3b]. unfold ci_inv, nnat in *. repeat split; auto; lia.
Qed.

(* ---- unsigned integer values ------------------------------------------------------- *)
Definition ui_inv (o : N) (s : uintb) : Prop :=
  (ui_state s = ClFound -> ui_soffs s <= o) /\ pf_end (ui_sval s) <= o.
Definition ui_P (offs : N) (pre rest : list byte) (i : N) (s : uintb) : Prop :=
  i = nnat (length pre) /\ offs <= i /\ ui_inv i s.
Definition ui_Q (offs : N) (pre rest : list byte) (i o : N) (e : err) (s : uintb) : Prop :=
  i = nnat (length pre) /\ offs <= o /\ o <= i + nnat (length rest) /\ ui_inv o s.

Lemma ui_step_ok offs pre rest i s : ui_P offs pre rest i s ->
  match ui_iter pre rest i s with
  | Next k s' => (0 < k <= length rest)%nat /\ ui_P offs (zpre k pre rest) (zrest k rest) (i + nnat k) s'
  | Ret o e s' => ui_Q offs pre rest i o e s'
  | IPanic => False
  end.
Proof.
  destruct s as [val sv st so]. intros (Hi & Ho & Hf & He). unfold ui_iter, ui_P, ui_Q, ui_inv in *.
  cbn [ui_state ui_soffs ui_sval ui_val] in *.
  destruct st.
  4:{ fin. }
  all: destruct rest as [|c r]; [fin|].
  all: destruct (is_ws c) eqn:Ews;
    [|destruct (is_digit c); try destruct (acc32 _ _); cbn -[N.add N.mul nnat zpre zrest]; fin].
  all: unfold pf_set, ui_lws.
  all: try (specialize (Hf eq_refl); replace (i <? so) with false by lia).
  all: pose proof (skipLWS_bounds false (c :: r)) as Hb.
  all: destruct (skipLWS false (c :: r)) as [k|k crl|k] eqn:El.
  all: try (apply skipLWS_ws_progress in El; [|exact Ews]).
  all: unfold ui_endOfHdr, pf_set; cbn -[N.add N.sub N.ltb nnat zpre zrest].
  all: try replace (i <? so) with false by lia.
  all: cbn -[N.add N.sub N.ltb nnat zpre zrest]; fin.
Qed.

Theorem uint_safe buf offs s : offs <= nnat (length buf) -> ui_inv offs s ->
  match parse_uint buf offs s with
  | Done o e s' => offs <= o /\ o <= nnat (length buf) /\ ui_inv o s' /\ pf_end (ui_sval s') <= nnat (length buf)
  | _ => False
  end.
Proof.
  intros Hoffs Hinv. unfold parse_uint, parse, zinit.
  pose proof (run_safe ui_iter (ui_P offs) (ui_Q offs) (ui_step_ok offs)
                (skipn (N.to_nat offs) buf) (rev (firstn (N.to_nat offs) buf)) offs s) as H.
  assert (H0 : ui_P offs (rev (firstn (N.to_nat offs) buf)) (skipn (N.to_nat offs) buf) offs s).
  { split; [|split; [lia|exact Hinv]]. rewrite rev_length, firstn_length. unfold nnat in *. lia. }
  specialize (H H0).
  destruct (run ui_iter _ _ offs 0 s) as [o e s'| |]; auto.
  destruct H as (p' & r' & i' & (Hi & H1 & H2 & H3) & Hw).
  rewrite zinit_whole in Hw. apply (f_equal (@length _)) in Hw. rewrite app_length, rev_length in Hw.
  destruct H3 as [H3a H3b]. unfold ui_inv, nnat in *. repeat split; auto; lia.
Qed.

(* Content-Length: the post-check may move the offset back to the number, still inside *)
Theorem clen_safe buf offs s : offs <= nnat (length buf) -> ui_inv offs s ->
  match parse_clen buf offs s with
  | Done o e s' => o <= nnat (length buf) /\ (e = EOk \/ e = EMore -> offs <= o) /\ pf_end (ui_sval s') <= nnat (length buf)
  | _ => False
  end.
Proof.
  intros Hoffs Hinv. unfold parse_clen. pose proof (uint_safe buf offs s Hoffs Hinv) as H.
  destruct (parse_uint buf offs s) as [o e s'| |]; auto.
  destruct H as (H1 & H2 & H3 & H4). unfold pf_end in *.
  destruct e; try (repeat split; auto; lia).
  destruct (_ || _); repeat split; auto; try lia. intros [?|?]; discriminate.
Qed.

(* the initial objects satisfy the invariant at every offset *)
Lemma callid0_inv o : ci_inv o callid0. Proof. unfold ci_inv, pf_end. cbn. split; [discriminate|lia]. Qed.
Lemma uintb0_inv o : ui_inv o uintb0. Proof. unfold ui_inv, pf_end. cbn. split; [discriminate|lia]. Qed.
