(* C05: the header-value span of a Contact / P-Asserted-Identity header (from the start of its first value to the end of its last one,
   the Val of that header) is trimmed - one call on a fresh list, every input. *)
From Sipsp Require Import Harness RunLemmas Safe SafeLeaf SafeMore SafeMsg Capacity ExtLists ContactSpec LowerLists LowerBound UpperBound TrimSpec
  NameAddrNest NameAddrTag NameAddrTrim NameAddrPos LeafTrim.
From Coq Require Import ZifyN ZifyNat ZifyBool.
From RecordUpdate Require Import RecordUpdate.

(* a fresh name-addr run: the value is not empty and its first and last byte are not white space *)
Definition EPV (pre rest : list byte) (i : N) (s : pfrom) : Prop := EP pre rest i s /\ VP s.
Definition EQV (pre rest : list byte) (i o : N) (e : err) (s' : pfrom) : Prop :=
  EQ pre rest i o e s' /\ (e = EOk \/ e = EMoreValues -> pl (fb_v s') <> 0).
Lemma iter_trimpos h pre rest i s : EPV pre rest i s ->
  match fb_iter h pre rest i s with
  | Next k s' => (0 < k <= length rest)%nat /\ EPV (zpre k pre rest) (zrest k rest) (i + nnat k) s'
  | Ret o e s' => EQV pre rest i o e s'
  | IPanic => False
  end.
Proof.
  intros [HE HV]. pose proof (iter_trim h pre rest i s HE) as S1. destruct HE as ([Hi Hinv] & HN & _).
  assert (S2 : vp_res (fb_iter h pre rest i s)).
  { destruct rest as [|c r1]; [|exact (step_pos 0 h pre c r1 i Hi s Hinv HN HV)].
    unfold fb_iter. destruct (fb_state s) eqn:Est; try (cbn; split; [intros _; exact HV|intros [E|E]; discriminate]).
    cbn. split; [intros E; discriminate|]. intros _. unfold VP, VPb in HV. rewrite Est in HV. exact (HV eq_refl). }
  destruct (fb_iter h pre rest i s) as [k s'|o e s'|]; [| |exact S1].
  - destruct S1 as [Hk HE']. split; [exact Hk|]. split; [exact HE'|exact S2].
  - split; [exact S1|exact (proj2 S2)].
Qed.
Definition vtb (B : list byte) (f : pf) : Prop :=
  (exists c, nth_error B (N.to_nat (po f)) = Some c /\ is_ws c = false) /\ (exists c, nth_error B (N.to_nat (pf_end f - 1)) = Some c /\ is_ws c = false).
Lemma fb_fresh_vtb h pre rest i o e v : i = nnat (length pre) -> run (fb_iter h) pre rest i 0 pfrom0 = Done o e v ->
  e = EOk \/ e = EMoreValues -> vtb (rev pre ++ rest) (fb_v v) /\ pl (fb_v v) <> 0.
Proof.
  intros Hi H He.
  pose proof (run_safe (fb_iter h) EPV EQV (iter_trimpos h) rest pre i pfrom0) as R. rewrite H in R.
  specialize (R (conj (conj (conj Hi (pfrom0_inv 0 pre i ltac:(lia))) (conj (NNI_pfrom0 pre i Hi) (susp_EI _ _ _ (susp_pfrom0 pre)))) VP_pfrom0)).
  destruct R as (p' & r' & i' & ((_ & _ & Q2) & Q3) & Hw). destruct (Q2 He) as [_ T]. specialize (Q3 He). rewrite Hw in T.
  split; [|exact Q3]. destruct T as [T|T]; [congruence|exact T].
Qed.
(* bytes of the buffer that lie before the zipper position *)
Lemma vtb_zpre pre rest k f : (k <= length rest)%nat -> pf_end f <= nnat (length pre) + nnat k -> pl f <> 0 -> vtb (rev pre ++ rest) f -> vt (zpre k pre rest) f.
Proof.
  intros Hk He Hp [(c1 & H1 & W1) (c2 & H2 & W2)].
  assert (G : forall j c, j < nnat (length pre) + nnat k -> nth_error (rev pre ++ rest) (N.to_nat j) = Some c -> bpre (zpre k pre rest) j = Some c).
  { intros j c Hj Hn. unfold bpre, zpre. rewrite rev_app_distr, rev_involutive.
    rewrite <- (firstn_skipn k rest) in Hn. rewrite app_assoc in Hn. rewrite nth_error_app1 in Hn; [exact Hn|].
    rewrite app_length, rev_length, firstn_length. unfold nnat in *. lia. }
  unfold pf_end in *. split.
  - exists c1. split; [|exact W1]. apply G; [unfold pf_end in *; lia|exact H1].
  - exists c2. split; [|exact W2]. apply G; [unfold pf_end in *; lia|exact H2].
Qed.

(* ---- the Contact list ----------------------------------------------------------------------------------------------------------------------------------- *)
Definition LT (pre : list byte) (lh : pf) : Prop := pl lh = 0 \/ vt pre lh.
Lemma vt_vtb pre rest f : vt pre f -> vtb (rev pre ++ rest) f.
Proof. intros [A B]. split; apply nonws_buf; assumption. Qed.
(* the span after one more value *)
Lemma lh_next pre rest i next lh v lh6 : i = nnat (length pre) -> pf_end lh <= i -> LT pre lh ->
  vtb (rev pre ++ rest) (fb_v v) -> pl (fb_v v) <> 0 -> i <= po (fb_v v) -> pf_end (fb_v v) <= next ->
  forall (first : bool), Some lh6 = (if first || pf_empty lh then Some (fb_v v) else pf_extend lh (pf_end (fb_v v))) ->
  vtb (rev pre ++ rest) lh6 /\ pl lh6 <> 0 /\ pf_end lh6 <= next.
Proof.
  intros Hi Hlh HT HV Hp Hge Hle first E.
  destruct (first || pf_empty lh) eqn:Ef.
  - injection E as ->. auto.
  - apply orb_false_iff in Ef. destruct Ef as [_ Ee]. unfold pf_empty in Ee. apply N.eqb_neq in Ee.
    symmetry in E. apply pf_extend_inv in E. destruct E as [-> Hpo].
    destruct HT as [HT|HT]; [congruence|]. apply (vt_vtb pre rest) in HT. destruct HT as [A _]. destruct HV as [_ B].
    unfold vtb, pf_end in *. cbn [po pl] in *.
    split; [split; [exact A|]|split; lia].
    replace (po lh + (po (fb_v v) + pl (fb_v v) - po lh) - 1) with (po (fb_v v) + pl (fb_v v) - 1) by lia. exact B.
Qed.
Lemma ct_iter_lt pre rest i c : i = nnat (length pre) -> UBct i c -> LBct 0 c -> LT pre (ct_lasthval c) ->
  match ct_iter pre rest i c with
  | Next k c' => (0 < k)%nat -> (k <= length rest)%nat -> LT (zpre k pre rest) (ct_lasthval c')
  | Ret o e c' => e = EOk -> vtb (rev pre ++ rest) (ct_lasthval c') /\ pl (ct_lasthval c') <> 0
  | IPanic => True
  end.
Proof.
  intros Hi Hub Hlb HT. destruct Hub as (_ & _ & _ & Hlhi). destruct Hlb as (Hwf & Hsel & Hlh). rewrite ct_iter_def, Hsel.
  destruct (run (fb_iter HdrContact) pre rest i 0 pfrom0) as [next e v| |] eqn:Er; [|exact I|exact I].
  rewrite ct_post_eq. cbv zeta.
  destruct (ct_store_proj c v) as (S1 & _ & _ & _ & S5 & _).
  assert (Main : e = EOk \/ e = EMoreValues -> forall c6, ct_count (ct_store c v) v = Some c6 ->
            vtb (rev pre ++ rest) (ct_lasthval c6) /\ pl (ct_lasthval c6) <> 0 /\ pf_end (ct_lasthval c6) <= next /\ i <= next).
  { intros He c6 E6. destruct (fb_fresh_vtb HdrContact pre rest i next e v Hi Er He) as [HV Hp].
    destruct (fb_fresh_ub HdrContact pre rest i next e v Hi Er He) as (Hin & (_&_&_&_&H5&_) & _).
    destruct (fb_fresh_lb HdrContact i pre rest i next e v Hi (N.le_refl i) Er He) as [_ Hge].
    pose proof (ct_count_lh _ _ _ E6) as El. rewrite S1, S5 in El.
    destruct (lh_next pre rest i next (ct_lasthval c) v (ct_lasthval c6) Hi Hlhi HT HV Hp Hge H5 (ct_n c =? 0) El) as (A & B & C). auto. }
  destruct e; try (intros E; discriminate E).
  - destruct (ct_count (ct_store c v) v) as [c6|] eqn:E6; [|exact I]. intros _. destruct (Main (or_introl eq_refl) c6 eq_refl) as (A & B & _). auto.
  - destruct (ct_count (ct_store c v) v) as [c6|] eqn:E6; [|exact I]. intros Hk0 Hk. destruct (Main (or_intror eq_refl) c6 eq_refl) as (A & B & C & D).
    assert (El : ct_lasthval (ct_reset_last_if (ct_slot_is_last c) c6) = ct_lasthval c6) by (unfold ct_reset_last_if; destruct (ct_slot_is_last c); destruct c6; reflexivity).
    rewrite El. right. apply vtb_zpre; [exact Hk| |exact B|exact A]. unfold nnat in *. lia.
Qed.
Lemma ct_run_lt pre rest o c n c' : o = nnat (length pre) -> UBct o c -> LBct 0 c -> LT pre (ct_lasthval c) ->
  run ct_iter pre rest o 0 c = Done n EOk c' -> vtb (rev pre ++ rest) (ct_lasthval c') /\ pl (ct_lasthval c') <> 0.
Proof.
  intros Ho Hub Hlb HT H.
  pose proof (run_invQ ct_iter (fun p j t => UBct j t /\ LBct 0 t /\ LT p (ct_lasthval t))
                (fun p r _ _ e t => e = EOk -> vtb (rev p ++ r) (ct_lasthval t) /\ pl (ct_lasthval t) <> 0)) as R.
  specialize (R ltac:(intros p r j t Hj (P1 & P2 & P3); pose proof (ct_iter_ub p r j t Hj (conj P1 P2)) as X; pose proof (ct_iter_lt p r j t Hj P1 P2 P3) as Y;
                      destruct (ct_iter p r j t) as [k t'|n0 e0 t'|]; auto;
                      intros Hk0 Hk; destruct (X Hk0 Hk); split; [assumption|split; [assumption|exact (Y Hk0 Hk)]])
                rest pre o c Ho (conj Hub (conj Hlb HT))).
  rewrite H in R. destruct R as (p' & r' & i' & Hi' & Hw & HQ). rewrite <- Hw. exact (HQ eq_refl).
Qed.
(* ParseAllContactValues on a fresh list *)
Theorem contacts_span_trimmed buf offs n o C : offs <= nnat (length buf) ->
  parse_all_contacts buf offs (contacts_init (repeat pfrom0 n)) = Done o EOk C -> trimmed buf (ct_lasthval C).
Proof.
  intros Ho H. unfold parse_all_contacts, parse, zinit in H.
  assert (Hi : offs = nnat (length (rev (firstn (N.to_nat offs) buf)))) by (rewrite rev_length, firstn_length; unfold nnat in *; lia).
  pose proof (UBv_init offs n) as (_&_&_&_&_&_&U7&_). pose proof (PRv_init n) as (_&_&_&_&P5&_).
  unfold phvals_init in U7, P5. cbn [pv_contacts] in U7, P5.
  assert (Hlb : LBct 0 (contacts_init (repeat pfrom0 n))) by (destruct P5 as [A B]; split; [exact A|split; [exact B|left; reflexivity]]).
  destruct (ct_run_lt _ _ offs _ o C Hi U7 Hlb ltac:(left; reflexivity) H) as [[A B] _].
  rewrite rev_involutive, firstn_skipn in A, B. right. split; assumption.
Qed.

(* ---- the P-Asserted-Identity list -------------------------------------------------------------------------------------------------------------------- *)
Lemma pa_iter_lt pre rest i c : i = nnat (length pre) -> UBpa i c -> LBpa 0 c -> LT pre (pa_lasthval c) ->
  match pa_iter pre rest i c with
  | Next k c' => (0 < k)%nat -> (k <= length rest)%nat -> LT (zpre k pre rest) (pa_lasthval c')
  | Ret o e c' => e = EOk -> vtb (rev pre ++ rest) (pa_lasthval c') /\ pl (pa_lasthval c') <> 0
  | IPanic => True
  end.
Proof.
  intros Hi Hub Hlb HT. destruct Hub as (_ & _ & Hlhi). destruct Hlb as (Hwf & Hsel & Hlh). rewrite pa_iter_def, Hsel.
  destruct (run (fb_iter HdrPAI) pre rest i 0 pfrom0) as [next e0 v| |] eqn:Er; [|exact I|exact I].
  unfold pa_post. cbv zeta. rewrite pa_store_prep, pa_is_last_prep.
  destruct (pa_store_proj c v) as (S1 & S2 & S3 & S4 & S5).
  assert (Main : e0 = EOk \/ e0 = EMoreValues -> forall lh6,
            Some lh6 = (if (pa_n (pa_store c v) =? 0) || pf_empty (pa_lasthval (pa_store c v)) then Some (fb_v v)
                        else pf_extend (pa_lasthval (pa_store c v)) (pf_end (fb_v v))) ->
            vtb (rev pre ++ rest) lh6 /\ pl lh6 <> 0 /\ pf_end lh6 <= next /\ i <= next).
  { intros He lh6 El. destruct (fb_fresh_vtb HdrPAI pre rest i next e0 v Hi Er He) as [HV Hp].
    destruct (fb_fresh_ub HdrPAI pre rest i next e0 v Hi Er He) as (Hin & (_&_&_&_&H5&_) & _).
    destruct (fb_fresh_lb HdrPAI i pre rest i next e0 v Hi (N.le_refl i) Er He) as [_ Hge].
    rewrite S1, S3 in El.
    destruct (lh_next pre rest i next (pa_lasthval c) v lh6 Hi Hlhi HT HV Hp Hge H5 (pa_n c =? 0) El) as (A & B & C). auto. }
  destruct ((err_eqb e0 EOk || err_eqb e0 EMoreValues) && fb_star v) eqn:Estar; [intros E; discriminate E|].
  destruct e0; try (intros E; discriminate E).
  - destruct (if (pa_n (pa_store c v) =? 0) || _ then _ else _) as [lh|] eqn:El; [|exact I]. intros _.
    destruct (Main (or_introl eq_refl) lh eq_refl) as (A & B & _). destruct (pa_store c v); cbn. auto.
  - destruct (if (pa_n (pa_store c v) =? 0) || _ then _ else _) as [lh|] eqn:El; [|exact I]. intros Hk0 Hk.
    destruct (Main (or_intror eq_refl) lh eq_refl) as (A & B & C & D).
    match goal with |- LT _ (pa_lasthval ?X) => assert (E6 : pa_lasthval X = lh) by (unfold pa_reset_last_if; destruct (pa_slot_is_last c); destruct (pa_store c v); reflexivity) end.
    rewrite E6. right. apply vtb_zpre; [exact Hk| |exact B|exact A]. unfold nnat in *. lia.
Qed.
Lemma pa_run_lt pre rest o c n c' : o = nnat (length pre) -> UBpa o c -> LBpa 0 c -> LT pre (pa_lasthval c) ->
  run pa_iter pre rest o 0 c = Done n EOk c' -> vtb (rev pre ++ rest) (pa_lasthval c') /\ pl (pa_lasthval c') <> 0.
Proof.
  intros Ho Hub Hlb HT H.
  pose proof (run_invQ pa_iter (fun p j t => UBpa j t /\ LBpa 0 t /\ LT p (pa_lasthval t))
                (fun p r _ _ e t => e = EOk -> vtb (rev p ++ r) (pa_lasthval t) /\ pl (pa_lasthval t) <> 0)) as R.
  specialize (R ltac:(intros p r j t Hj (P1 & P2 & P3); pose proof (pa_iter_ub p r j t Hj (conj P1 P2)) as X; pose proof (pa_iter_lt p r j t Hj P1 P2 P3) as Y;
                      destruct (pa_iter p r j t) as [k t'|n0 e0 t'|]; auto;
                      intros Hk0 Hk; destruct (X Hk0 Hk); split; [assumption|split; [assumption|exact (Y Hk0 Hk)]])
                rest pre o c Ho (conj Hub (conj Hlb HT))).
  rewrite H in R. destruct R as (p' & r' & i' & Hi' & Hw & HQ). rewrite <- Hw. exact (HQ eq_refl).
Qed.
Theorem pais_span_trimmed buf offs o C : offs <= nnat (length buf) ->
  parse_all_pais buf offs pais0 = Done o EOk C -> trimmed buf (pa_lasthval C).
Proof.
  intros Ho H. unfold parse_all_pais, parse, zinit in H.
  assert (Hi : offs = nnat (length (rev (firstn (N.to_nat offs) buf)))) by (rewrite rev_length, firstn_length; unfold nnat in *; lia).
  pose proof (UBv_init offs 0) as (_&_&_&_&_&_&_&U8). pose proof (PRv_init 0) as (_&_&_&_&_&P6).
  unfold phvals_init in U8, P6. cbn [pv_pais] in U8, P6.
  assert (Hlb : LBpa 0 pais0) by (destruct P6 as [A B]; split; [exact A|split; [exact B|left; reflexivity]]).
  destruct (pa_run_lt _ _ offs _ o C Hi U8 Hlb ltac:(left; reflexivity) H) as [[A B] _].
  rewrite rev_involutive, firstn_skipn in A, B. right. split; assumption.
Qed.
