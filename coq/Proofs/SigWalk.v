(* C19: what the message signature depends on *)
From Sipsp Require Import Harness Tables.
From Coq Require Import ZifyN ZifyNat ZifyBool.

Section Sig.
  Variable callid_sig : list byte -> N * N.
  Variable str_sig : list byte -> N.
  Variable viabr_sig : list byte -> N.
  Notation walk := (sig_walk viabr_sig).
  Notation gsig := (get_msg_sig callid_sig str_sig viabr_sig).

  (* replies yield no signature *)
  Theorem reply_no_sig m buf : msg_request m = false -> gsig m buf = Some (msgsig0, EEmpty).
  Proof. intros H. unfold get_msg_sig. now rewrite H. Qed.

  (* at most NoSigHdrs (8) header entries are produced *)
  Lemma walk_len buf pf : forall hs seen sig sig' b,
    nnat (length (sg_hdrsig sig)) < go_NoSigHdrs ->
    walk buf pf hs seen sig = Some (sig', b) -> nnat (length (sg_hdrsig sig')) <= go_NoSigHdrs.
  Proof.
    induction hs as [|h hs IH]; intros seen sig sig' b Hl H; cbn [sig_walk] in H.
    - injection H as <- <-. lia.
    - destruct (hf_test seen (h_type h)); [eapply IH; eauto|].
      destruct (if h_type h =? HdrVia then _ else Some sig) as [sig1|] eqn:E1; [|discriminate].
      assert (Hl1 : sg_hdrsig sig1 = sg_hdrsig sig).
      { destruct (h_type h =? HdrVia); [|now injection E1 as <-].
        destruct (bget buf (h_val h)); [injection E1 as <-; reflexivity|discriminate]. }
      destruct (hdr_sig_id h) as [s e].
      set (add := err_eqb e EOk && _) in *.
      destruct add eqn:Eadd.
      + rewrite andb_true_l in H.
        destruct (go_NoSigHdrs <=? _) eqn:E8 in H.
        * injection H as <- <-. cbn. rewrite Hl1, app_length. cbn [length]. unfold nnat in *. lia.
        * cbn in E8. rewrite Hl1, app_length in E8. cbn [length] in E8.
          destruct (_ =? _) in H.
          -- injection H as <- <-. cbn. rewrite Hl1, app_length. cbn [length]. unfold nnat in *. lia.
          -- eapply IH; [|exact H]. cbn. rewrite Hl1, app_length. cbn [length]. unfold nnat in *. lia.
      + rewrite andb_false_l in H. destruct (_ =? _) in H.
        * injection H as <- <-. rewrite Hl1. lia.
        * eapply IH; [|exact H]. rewrite Hl1. exact Hl.
  Qed.

  Theorem sig_at_most_eight m buf sig e : gsig m buf = Some (sig, e) ->
    nnat (length (sg_hdrsig sig)) <= go_NoSigHdrs.
  Proof.
    unfold get_msg_sig. destruct (msg_request m); [|intros H; injection H as <- <-; unfold go_NoSigHdrs, nnat; cbn; lia].
    destruct (bget buf _) as [cid|]; [|discriminate]. destruct (bget buf _) as [tag|]; [|discriminate].
    destruct (callid_sig cid) as [cs cl].
    destruct (walk buf _ _ 0 _) as [[sig' b]|] eqn:E; [|discriminate].
    apply walk_len in E; [|unfold go_NoSigHdrs, nnat; cbn; lia].
    destruct b; [|destruct (_ <? _)]; intros H; injection H as <- <-; exact E.
  Qed.

  (* a header array that holds only a prefix of the headers: if the walk over the
     prefix already returned from inside the loop, more headers change nothing *)
  Lemma walk_prefix buf pf : forall hs1 hs2 seen sig sig',
    walk buf pf hs1 seen sig = Some (sig', true) -> walk buf pf (hs1 ++ hs2) seen sig = Some (sig', true).
  Proof.
    induction hs1 as [|h hs IH]; intros hs2 seen sig sig' H; cbn [sig_walk app] in *; [discriminate|].
    destruct (hf_test seen (h_type h)); [apply IH; exact H|].
    destruct (if h_type h =? HdrVia then _ else Some sig) as [sig1|]; [|discriminate].
    destruct (hdr_sig_id h) as [s e].
    destruct (_ && (go_NoSigHdrs <=? _)); [exact H|].
    destruct (_ =? _); [exact H|]. apply IH. exact H.
  Qed.

  (* headers of types that are not fingerprinted, inserted after the types seen so far
     are complete, are never reached: the signature of the message is that of its prefix *)
  Theorem small_array_same_or_truncated m buf hs1 hs2 sig e :
    hl_hdrs (hs_l (m_hs m)) = hs1 ++ hs2 ->
    (* the same message with only hs1 stored, N and flags as parsed *)
    forall m1, msg_request m1 = msg_request m -> msg_pv m1 = msg_pv m -> m_fl m1 = m_fl m ->
      hl_pflags (hs_l (m_hs m1)) = hl_pflags (hs_l (m_hs m)) -> hl_hdrs (hs_l (m_hs m1)) = hs1 ->
      hl_n (hs_l (m_hs m1)) = hl_n (hs_l (m_hs m)) -> nnat (length hs1) < hl_n (hs_l (m_hs m)) ->
      gsig m1 buf = Some (sig, e) ->
      e = ETrunc \/ gsig m buf = Some (sig, e).
  Proof.
    intros Hh m1 Hr Hpv Hfl Hpf Hh1 Hn Hsmall. unfold get_msg_sig. rewrite Hr, Hpv, Hfl, Hpf, Hh1, Hh.
    destruct (msg_request m); [|auto].
    destruct (bget buf _) as [cid|]; [|discriminate]. destruct (bget buf _) as [tag|]; [|discriminate].
    destruct (callid_sig cid) as [cs cl].
    destruct (walk buf _ hs1 0 _) as [[sig' b]|] eqn:E; [|discriminate].
    destruct b.
    - intros H. injection H as <- <-. right. now rewrite (walk_prefix _ _ _ hs2 _ _ _ E).
    - unfold hl_cap. rewrite Hh1, Hn. replace (nnat (length hs1) <? hl_n (hs_l (m_hs m))) with true by lia.
      intros H. injection H as <- <-. auto.
  Qed.
End Sig.

(* the text rendering has a fixed shape *)
Theorem sig_string_shape s : sg_method s < 16 -> Forall (fun h => h < 16) (sg_hdrsig s) ->
  ~ (sg_method s = MUndef /\ sg_hdrsig s = []) ->
  length (sig_string s) = (1 + length (sg_hdrsig s) + 17)%nat.
Proof.
  intros Hm Hh Hne. unfold sig_string.
  destruct ((sg_method s =? MUndef) && (length (sg_hdrsig s) =? 0)%nat) eqn:E.
  { exfalso. apply Hne. apply andb_true_iff in E as [E1 E2]. split; [lia|]. destruct (sg_hdrsig s); [reflexivity|discriminate]. }
  replace (16 <=? sg_method s) with false by lia. rewrite !app_length. cbn [length app].
  assert (Hf : length (flat_map (fun h => (if 16 <=? h then [69] else []) ++ [hexdig (N.land h 15)]) (sg_hdrsig s))
               = length (sg_hdrsig s)).
  { clear Hne E. induction Hh as [|h l Hlt _ IH]; cbn [flat_map length]; [reflexivity|].
    replace (16 <=? h) with false by lia. cbn [app length]. f_equal. exact IH. }
  rewrite Hf. unfold hex4. cbn [length]. lia.
Qed.
Theorem sig_string_empty s : sg_method s = MUndef -> sg_hdrsig s = [] -> sig_string s = [].
Proof. intros H1 H2. unfold sig_string. rewrite H1, H2. reflexivity. Qed.
