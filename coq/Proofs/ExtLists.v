(* ExtOK for the multi-value list parsers: ParseAllContactValues, ParseAllPAIValues *)
From Sipsp Require Import RunLemmas Safe Resume Ext ExtLeaf ZSlice Harness ExtNameAddr ExtNested.
From Coq Require Import ZifyN ZifyNat ZifyBool.

(* ---- offsets of the name-addr automaton --------------------------------------------------- *)
Lemma fb_endOfHdr_ret h pre R i0 i ret e s o e' s' : fb_endOfHdr h pre R i0 i ret e s = Ret o e' s' ->
  o = ret /\ (e' = e \/ e' = EBad \/ e' = EBug).
Proof.
  unfold fb_endOfHdr. destruct (fb_close _ _ _ _ _) as [[s1|]|]; [| |discriminate].
  - intros H. injection H as <- <- <-. auto.
  - intros H. injection H as <- <- <-. destruct (fb_state s); auto.
Qed.

Definition strictMV (e : err) : bool := match e with EMoreValues => true | _ => false end.

Lemma fb_iter_offsets h pre rest i s :
  match fb_iter h pre rest i s with
  | Ret o e _ => i <= o /\ o <= i + nnat (length rest) /\ (strictMV e = true -> i < o)
  | _ => True
  end.
Proof.
  assert (Hhere : forall (e : err) (s' : pfrom), strictMV e = false ->
            i <= i /\ i <= i + nnat (length rest) /\ (strictMV e = true -> i < i)).
  { intros e s' He. unfold nnat. split; [lia|]. split; [lia|]. congruence. }
  unfold fb_iter. destruct (fb_state s) eqn:Est; try (apply (Hhere EOk s); reflexivity).
  all: destruct rest as [|c r1]; [apply (Hhere EMore s); reflexivity|].
  all: clear Hhere.
  all: pose proof (skipLWS_bounds false (c :: r1)) as Hb.
  all: assert (Heoh : forall i0 i1 k crl e0 (s0 : pfrom), (k + crl <= length (c :: r1))%nat -> strictMV e0 = false ->
                match fb_endOfHdr h pre (c :: r1) i0 i1 (i + nnat k + nnat crl) e0 s0 with
                | Ret o e _ => i <= o /\ o <= i + nnat (length (c :: r1)) /\ (strictMV e = true -> i < o)
                | _ => True end).
  all: try (intros i0 i1 k crl e0 s0 Hk He0;
            destruct (fb_endOfHdr h pre (c :: r1) i0 i1 (i + nnat k + nnat crl) e0 s0) as [|o e' s'|] eqn:E; auto;
            apply fb_endOfHdr_ret in E as [-> He']; unfold nnat in *;
            split; [lia|]; split; [lia|]; destruct He' as [ -> | [ -> | -> ] ]; cbn; congruence).
  all: assert (Hmv : forall (s0 : pfrom), match fb_moreValues h pre (c :: r1) i s0 with
                | Ret o e _ => i <= o /\ o <= i + nnat (length (c :: r1)) /\ (strictMV e = true -> i < o)
                | _ => True end).
  all: try (intros s0; unfold fb_moreValues;
            destruct (fb_endOfHdr h pre (c :: r1) i _ (i + 1) EMoreValues s0) as [|o e' s'|] eqn:E; auto;
            apply fb_endOfHdr_ret in E as [-> He']; unfold nnat; cbn [length]; split; [lia|]; split; [lia|]; intros; lia).
  all: unfold fb_step, fb_gA, fb_gQ, fb_gURI, fb_gURIFound, fb_gP, fb_gPE, fb_gV, fb_gVE, fb_gStar,
         fb_comma, fb_comma_strict, fb_bad, fb_setpv, fb_lws, fb_lws_b.
  all: destruct (ccls_of c); cbn [st_poss is_st_init is_st_nameoruri is_st_nameoruriend is_st_name is_st_new].
  all: try destruct (multipleValsOk h); try apply Hmv.
  all: repeat match goal with
              | |- context [match pf_set ?a ?b with _ => _ end] => destruct (pf_set a b)
              | |- context [match pf_extend ?a ?b with _ => _ end] => destruct (pf_extend a b)
              | |- context [match setFromParamVal ?a ?b ?c0 ?d with _ => _ end] => destruct (setFromParamVal a b c0 d)
              end; try exact I.
  all: try (destruct (skipLWS false (c :: r1)) as [k|k crl|k];
            [exact I
            |replace (i + nnat k + nnat crl) with (i + nnat k + nnat crl) by reflexivity; apply Heoh; [exact Hb|reflexivity]
            |unfold nnat in *; cbn [strictMV]; split; [lia|]; split; [lia|]; congruence]).
  all: try (unfold nnat; cbn [length strictMV]; split; [lia|]; split; [lia|]; congruence).
  all: clear Heoh Hmv Hb.
  all: destruct r1 as [|d r2]; [|destruct (is_crlf d)]; try exact I; unfold nnat; cbn [length strictMV];
       (split; [lia|]; split; [lia|]; congruence).
Qed.

(* a suspended name-addr value is not finished *)
Lemma fb_iter_more_state h pre rest i s :
  match fb_iter h pre rest i s with
  | Ret _ EMore s' => fb_parsed s' = false
  | _ => True
  end.
Proof.
  unfold fb_iter. destruct (fb_state s) eqn:Est; try exact I.
  all: assert (Hs : fb_parsed s = false) by (unfold fb_parsed; now rewrite Est).
  all: destruct rest as [|c r1]; [exact Hs|].
  all: assert (Heoh : forall i0 i1 ret e0 (s0 : pfrom), e0 <> EMore ->
         match fb_endOfHdr h pre (c :: r1) i0 i1 ret e0 s0 with Ret _ EMore s' => fb_parsed s' = false | _ => True end)
       by (intros i0 i1 ret e0 s0 He0; pose proof (fb_endOfHdr_nomore' h pre (c :: r1) i0 i1 ret e0 s0 He0) as H;
           destruct (fb_endOfHdr _ _ _ _ _ _ _ _) as [|? [] ?|]; auto; destruct H).
  all: unfold fb_step, fb_gA, fb_gQ, fb_gURI, fb_gURIFound, fb_gP, fb_gPE, fb_gV, fb_gVE, fb_gStar,
         fb_comma, fb_comma_strict, fb_bad, fb_setpv, fb_lws, fb_lws_b, fb_moreValues.
  all: destruct (ccls_of c); cbn [st_poss is_st_init is_st_nameoruri is_st_nameoruriend is_st_name is_st_new].
  all: try destruct (multipleValsOk h); try (apply Heoh; discriminate).
  all: repeat match goal with
              | |- context [match pf_set ?a ?b with _ => _ end] => destruct (pf_set a b)
              | |- context [match pf_extend ?a ?b with _ => _ end] => destruct (pf_extend a b)
              | |- context [match setFromParamVal ?a ?b ?c0 ?d with _ => _ end] => destruct (setFromParamVal a b c0 d)
              end; try exact I.
  all: try (destruct (skipLWS false (c :: r1)) as [k|k crl|k];
            [exact I|apply Heoh; discriminate|try exact Hs; destruct s; cbn in *; reflexivity]).
  all: try (destruct r1 as [|d r2]; [exact Hs|destruct (is_crlf d); exact I]).
Qed.

Lemma fb_more_not_parsed h : forall rest pre i v next v',
  run (fb_iter h) pre rest i 0 v = Done next EMore v' -> fb_parsed v' = false.
Proof.
  intros rest pre i v next v' H.
  pose proof (run_inv (fb_iter h) (fun _ _ _ => True) (fun _ e s' => e = EMore -> fb_parsed s' = false)) as R.
  specialize (R ltac:(intros p r j s _; pose proof (fb_iter_more_state h p r j s) as X;
                      destruct (fb_iter h p r j s) as [| ? [] ?|]; auto; discriminate) rest pre i v I).
  rewrite H in R. auto.
Qed.

Lemma fb_run_offsets h pre rest i v o e v' : run (fb_iter h) pre rest i 0 v = Done o e v' ->
  i <= o /\ o <= i + nnat (length rest) /\ (strictMV e = true -> i < o).
Proof. apply (run_offsets_gen (fb_iter h) strictMV (fb_iter_offsets h)). Qed.

(* ---- ParseAllContactValues ------------------------------------------------------------------ *)
Definition ct_prep (c0 : contacts) : contacts :=
  if ct_slot_is_last c0 && fb_parsed (ct_last c0) then c0 <| ct_last := pfrom0 |> else c0.
Definition ct_sel (l : contacts) : pfrom := ct_slot (ct_prep l).
Definition ct_st (l : contacts) (v : pfrom) : contacts := ct_store (ct_prep l) v.
Definition ct_post (pre rest : list byte) (i : N) (l : contacts) (next : N) (e : err) (v : pfrom) : ires contacts :=
  let c := ct_prep l in
  let is_last := ct_slot_is_last c in
  let c1 := ct_store c v in
  match e with
  | EOk | EMoreValues =>
    let c2 := if ct_n c1 =? 0 then c1 <| ct_minexp := MaxU32 |> else c1 in
    match (if (ct_n c2 =? 0) || pf_empty (ct_lasthval c2) then Some (fb_v v)
           else pf_extend (ct_lasthval c2) (pf_end (fb_v v))) with
    | None => IPanic
    | Some lh =>
      let c3 := c2 <| ct_lasthval := lh |> <| ct_n := ct_n c2 + 1 |> in
      let c4 := if ct_maxexp c3 <? fb_expires v then c3 <| ct_maxexp := fb_expires v |> else c3 in
      let c5 := if fb_expires v <? ct_minexp c4 then c4 <| ct_minexp := fb_expires v |> else c4 in
      let c6 := if (ct_n c5 =? 1) && (ct_cap c5 =? 0) then c5 <| ct_first := v |> else c5 in
      match e with
      | EMoreValues => Next (N.to_nat (next - i)) (ct_reset_last_if is_last c6)
      | _ => Ret next EOk c6
      end
    end
  | EMore => Ret next EMore c1
  | _ => Ret next e (ct_reset_last_if is_last c1)
  end.

Lemma ct_iter_def pre rest i l :
  ct_iter pre rest i l = match run (fb_iter HdrContact) pre rest i 0 (ct_sel l) with
                         | Done next e v => ct_post pre rest i l next e v
                         | _ => IPanic end.
Proof. reflexivity. Qed.

Lemma nth_set_nth {A} (l : list A) : forall n x d, (n < length l)%nat -> nth n (set_nth n x l) d = x.
Proof. induction l as [|y l IH]; intros [|n] x d H; cbn in *; try lia; auto. apply IH. lia. Qed.
Lemma set_nth_set_nth {A} (l : list A) : forall n x y, set_nth n y (set_nth n x l) = set_nth n y l.
Proof. induction l as [|z l IH]; intros [|n] x y; cbn; auto. now rewrite IH. Qed.
Lemma set_nth_len {A} (l : list A) : forall n x, length (set_nth n x l) = length l.
Proof. induction l as [|z l IH]; intros [|n] x; cbn; auto. Qed.

Definition ct_clean (c : contacts) : Prop := ct_slot_is_last c && fb_parsed (ct_last c) = false.
Lemma ct_prep_clean l : ct_clean (ct_prep l).
Proof.
  unfold ct_clean, ct_prep. destruct (ct_slot_is_last l && fb_parsed (ct_last l)) eqn:E; [|exact E].
  destruct l. unfold ct_slot_is_last, ct_cap in *. cbn. apply andb_false_r.
Qed.

Lemma ct_prep_store_c c v : ct_clean c -> fb_parsed v = false -> ct_prep (ct_store c v) = ct_store c v.
Proof.
  intros Hc Hv. destruct c as [vals n hno mx mn lh last first].
  unfold ct_clean, ct_prep, ct_store, ct_slot_is_last, ct_cap in *. cbn in *.
  destruct (nnat (length vals) <=? n) eqn:El; cbn.
  - rewrite El, Hv. reflexivity.
  - rewrite set_nth_len, El. reflexivity.
Qed.
Lemma ct_slot_store_c c v : ct_slot (ct_store c v) = v.
Proof.
  destruct c as [vals n hno mx mn lh last first]. unfold ct_slot, ct_store, ct_slot_is_last, ct_cap. cbn.
  destruct (nnat (length vals) <=? n) eqn:El; cbn.
  - rewrite El. reflexivity.
  - rewrite set_nth_len, El. apply nth_set_nth. unfold nnat in *. lia.
Qed.
Lemma ct_store_store_c c v v' : ct_store (ct_store c v) v' = ct_store c v'.
Proof.
  destruct c as [vals n hno mx mn lh last first]. unfold ct_store, ct_slot_is_last, ct_cap. cbn.
  destruct (nnat (length vals) <=? n) eqn:El; cbn.
  - rewrite El. reflexivity.
  - rewrite set_nth_len, El, set_nth_set_nth. reflexivity.
Qed.
Lemma ct_is_last_store c v : ct_slot_is_last (ct_store c v) = ct_slot_is_last c.
Proof.
  destruct c as [vals n hno mx mn lh last first]. unfold ct_store, ct_slot_is_last, ct_cap. cbn.
  destruct (nnat (length vals) <=? n) eqn:El; cbn; rewrite ?set_nth_len; exact El.
Qed.

Lemma ct_prep_store l v : fb_parsed v = false -> ct_prep (ct_store (ct_prep l) v) = ct_store (ct_prep l) v.
Proof. intros Hv. apply ct_prep_store_c; [apply ct_prep_clean|exact Hv]. Qed.
Lemma ct_sel_store l v : fb_parsed v = false -> ct_sel (ct_st l v) = v.
Proof. intros Hv. unfold ct_sel, ct_st. rewrite ct_prep_store by exact Hv. apply ct_slot_store_c. Qed.
Lemma ct_store_store l v v' : fb_parsed v = false -> ct_st (ct_st l v) v' = ct_st l v'.
Proof. intros Hv. unfold ct_st. rewrite ct_prep_store by exact Hv. apply ct_store_store_c. Qed.

Lemma ct_post_resumed pre B i k l v next e v' :
  fb_parsed v = false ->
  ct_post (zpre k pre B) (zrest k B) (i + nnat k) (ct_st l v) next e v' =
  match ct_post pre B i l next e v' with
  | Next _ X => Next (N.to_nat (next - (i + nnat k))) X
  | r => r
  end.
Proof.
  intros Hv. unfold ct_post, ct_st. cbv zeta.
  rewrite (ct_prep_store l v Hv), ct_store_store_c, ct_is_last_store.
  destruct e; try reflexivity;
    destruct (if (ct_n _ =? 0) || _ then _ else _); reflexivity.
Qed.

Lemma ct_IterExt : IterExt ct_iter.
Proof.
  apply (nested_IterExt (fb_iter HdrContact) ct_iter ct_sel ct_post ct_st (fun v => fb_parsed v = false)).
  - apply nameaddr_IterExt.
  - apply ct_iter_def.
  - reflexivity.
  - intros pre rest i v next v'. apply fb_more_not_parsed.
  - apply ct_sel_store.
  - apply ct_store_store.
  - (* post_resume *)
    intros pre B i k l v next e v' Hk Hi Hv He Hrun Hres.
    rewrite (ct_post_resumed pre B i k l v next e v' Hv).
    pose proof (fb_run_offsets _ _ _ _ _ _ _ _ Hres) as (H1 & H2 & H3). rewrite zrest_length in H2.
    destruct (ct_post pre B i l next e v') as [kk X|o ee X|] eqn:Ep; try reflexivity.
    (* a Next comes from more-values only: the offset moved *)
    assert (e = EMoreValues /\ kk = N.to_nat (next - i)).
    { unfold ct_post in Ep. destruct e; try discriminate;
        destruct (if (ct_n _ =? 0) || _ then _ else _); try discriminate; injection Ep as <- _; auto. }
    destruct H as [-> ->]. specialize (H3 eq_refl).
    apply after_next_shift; [exact Hk|exact H3|unfold nnat in *; lia].
  - (* post_ext *)
    intros pre R x i l next e v Hi He Hrun. split; [right; reflexivity|].
    unfold ct_post. destruct e; try exact I; try congruence;
      destruct (if (ct_n _ =? 0) || _ then _ else _); exact I.
  - intros pre rest i v o e v' H. pose proof (fb_run_offsets _ _ _ _ _ _ _ _ H). tauto.
Qed.

Theorem contacts_ExtOK : ExtOK parse_all_contacts obs_contacts (fun _ _ => True).
Proof. exact (parse_ExtOK ct_iter obs_contacts ct_IterExt). Qed.

(* ---- ParseAllPAIValues -------------------------------------------------------------------------- *)
Definition pa_prep (c0 : pais) : pais :=
  if pa_slot_is_last c0 && fb_parsed (pa_last c0) then c0 <| pa_last := pfrom0 |> else c0.
Definition pa_sel (l : pais) : pfrom := pa_slot (pa_prep l).
Definition pa_st (l : pais) (v : pfrom) : pais := pa_store (pa_prep l) v.
Definition pa_post (pre rest : list byte) (i : N) (l : pais) (next : N) (e0 : err) (v : pfrom) : ires pais :=
  let c := pa_prep l in
  let is_last := pa_slot_is_last c in
  let e := if (err_eqb e0 EOk || err_eqb e0 EMoreValues) && fb_star v then EValBad else e0 in
  let c1 := pa_store c v in
  match e with
  | EOk | EMoreValues =>
    match (if (pa_n c1 =? 0) || pf_empty (pa_lasthval c1) then Some (fb_v v)
           else pf_extend (pa_lasthval c1) (pf_end (fb_v v))) with
    | None => IPanic
    | Some lh =>
      let c3 := c1 <| pa_lasthval := lh |> <| pa_n := pa_n c1 + 1 |> in
      match e with
      | EMoreValues => Next (N.to_nat (next - i)) (pa_reset_last_if is_last c3)
      | _ => Ret next EOk c3
      end
    end
  | EMore => Ret next EMore c1
  | _ => Ret next e (pa_reset_last_if is_last c1)
  end.

Lemma pa_iter_def pre rest i l :
  pa_iter pre rest i l = match run (fb_iter HdrPAI) pre rest i 0 (pa_sel l) with
                         | Done next e v => pa_post pre rest i l next e v
                         | _ => IPanic end.
Proof. reflexivity. Qed.

Definition pa_clean (c : pais) : Prop := pa_slot_is_last c && fb_parsed (pa_last c) = false.
Lemma pa_prep_clean l : pa_clean (pa_prep l).
Proof.
  unfold pa_clean, pa_prep. destruct (pa_slot_is_last l && fb_parsed (pa_last l)) eqn:E; [|exact E].
  destruct l. unfold pa_slot_is_last, pa_cap in *. cbn. apply andb_false_r.
Qed.
Lemma pa_prep_store_c c v : pa_clean c -> fb_parsed v = false -> pa_prep (pa_store c v) = pa_store c v.
Proof.
  intros Hc Hv. destruct c as [vals n hno lh last].
  unfold pa_clean, pa_prep, pa_store, pa_slot_is_last, pa_cap in *. cbn in *.
  destruct (nnat (length vals) <=? n) eqn:El; cbn.
  - rewrite El, Hv. reflexivity.
  - rewrite set_nth_len, El. reflexivity.
Qed.
Lemma pa_slot_store_c c v : pa_slot (pa_store c v) = v.
Proof.
  destruct c as [vals n hno lh last]. unfold pa_slot, pa_store, pa_slot_is_last, pa_cap. cbn.
  destruct (nnat (length vals) <=? n) eqn:El; cbn.
  - rewrite El. reflexivity.
  - rewrite set_nth_len, El. apply nth_set_nth. unfold nnat in *. lia.
Qed.
Lemma pa_store_store_c c v v' : pa_store (pa_store c v) v' = pa_store c v'.
Proof.
  destruct c as [vals n hno lh last]. unfold pa_store, pa_slot_is_last, pa_cap. cbn.
  destruct (nnat (length vals) <=? n) eqn:El; cbn.
  - rewrite El. reflexivity.
  - rewrite set_nth_len, El, set_nth_set_nth. reflexivity.
Qed.
Lemma pa_is_last_store c v : pa_slot_is_last (pa_store c v) = pa_slot_is_last c.
Proof.
  destruct c as [vals n hno lh last]. unfold pa_store, pa_slot_is_last, pa_cap. cbn.
  destruct (nnat (length vals) <=? n) eqn:El; cbn; rewrite ?set_nth_len; exact El.
Qed.
Lemma pa_prep_store l v : fb_parsed v = false -> pa_prep (pa_store (pa_prep l) v) = pa_store (pa_prep l) v.
Proof. intros Hv. apply pa_prep_store_c; [apply pa_prep_clean|exact Hv]. Qed.

Lemma pa_post_resumed pre B i k l v next e v' :
  fb_parsed v = false ->
  pa_post (zpre k pre B) (zrest k B) (i + nnat k) (pa_st l v) next e v' =
  match pa_post pre B i l next e v' with
  | Next _ X => Next (N.to_nat (next - (i + nnat k))) X
  | r => r
  end.
Proof.
  intros Hv. unfold pa_post, pa_st. cbv zeta.
  rewrite (pa_prep_store l v Hv), pa_store_store_c, pa_is_last_store.
  destruct (if (err_eqb e EOk || err_eqb e EMoreValues) && fb_star v' then EValBad else e); try reflexivity;
    destruct (if (pa_n _ =? 0) || _ then _ else _); reflexivity.
Qed.

Lemma pa_IterExt : IterExt pa_iter.
Proof.
  apply (nested_IterExt (fb_iter HdrPAI) pa_iter pa_sel pa_post pa_st (fun v => fb_parsed v = false)).
  - apply nameaddr_IterExt.
  - apply pa_iter_def.
  - reflexivity.
  - intros pre rest i v next v'. apply fb_more_not_parsed.
  - intros l v Hv. unfold pa_sel, pa_st. rewrite pa_prep_store by exact Hv. apply pa_slot_store_c.
  - intros l v v' Hv. unfold pa_st. rewrite pa_prep_store by exact Hv. apply pa_store_store_c.
  - intros pre B i k l v next e v' Hk Hi Hv He Hrun Hres.
    rewrite (pa_post_resumed pre B i k l v next e v' Hv).
    pose proof (fb_run_offsets _ _ _ _ _ _ _ _ Hres) as (H1 & H2 & H3). rewrite zrest_length in H2.
    destruct (pa_post pre B i l next e v') as [kk X|o ee X|] eqn:Ep; try reflexivity.
    assert (e = EMoreValues /\ kk = N.to_nat (next - i)).
    { unfold pa_post in Ep. cbv zeta in Ep.
      destruct e; cbn [err_eqb err_code N.eqb orb andb] in Ep; try discriminate;
        destruct (fb_star v'); cbn in Ep; try discriminate;
        destruct (if (pa_n _ =? 0) || _ then _ else _); try discriminate; injection Ep as <- _; auto. }
    destruct H as [-> ->]. specialize (H3 eq_refl).
    apply after_next_shift; [exact Hk|exact H3|unfold nnat in *; lia].
  - intros pre R x i l next e v Hi He Hrun. split; [right; reflexivity|].
    unfold pa_post. cbv zeta.
    destruct e; cbn [err_eqb err_code N.eqb orb andb]; try exact I; try congruence;
      destruct (fb_star v); cbn; try exact I;
      destruct (if (pa_n _ =? 0) || _ then _ else _); exact I.
  - intros pre rest i v o e v' H. pose proof (fb_run_offsets _ _ _ _ _ _ _ _ H). tauto.
Qed.

Theorem pais_ExtOK : ExtOK parse_all_pais obs_pais (fun _ _ => True).
Proof. exact (parse_ExtOK pa_iter obs_pais pa_IterExt). Qed.

(* ParseOnePAI: the name-addr parser plus a check of the finished value *)
Theorem onepai_ExtOK : ExtOK parse_one_pai obs_pfrom (fun _ _ => True).
Proof.
  intros p x i s _ Hi. unfold parse_one_pai, parse_nameaddr, parse.
  assert (Hlen : i = nnat (length (rev (firstn (N.to_nat i) p)))).
  { rewrite rev_length, firstn_length. unfold nnat in *. lia. }
  pose proof (run_ext (fb_iter HdrPAI) obs_pfrom (nameaddr_IterExt HdrPAI) (skipn (N.to_nat i) p)
                (rev (firstn (N.to_nat i) p)) x i s Hlen) as H.
  rewrite (zinit_app p x i Hi).
  replace (zinit p i) with (rev (firstn (N.to_nat i) p), skipn (N.to_nat i) p) by reflexivity.
  destruct (run (fb_iter HdrPAI) (rev (firstn (N.to_nat i) p)) (skipn (N.to_nat i) p) i 0 s) as [o e s'| |]; auto.
  destruct e; try (rewrite H; cbn [err_eqb err_code N.eqb orb andb]; try destruct (fb_star s'); apply req_refl).
  destruct H as (k & Hk & -> & Hrq). rewrite skipn_length in Hk.
  cbn [err_eqb err_code N.eqb orb andb].
  split; [exact I|]. split; [unfold nnat in *; lia|].
  assert (Hb : (N.to_nat i + k <= length (p ++ x))%nat) by (rewrite app_length; unfold nnat in *; lia).
  rewrite (zinit_advance (p ++ x) i k Hb).
  assert (E1 : firstn (N.to_nat i) (p ++ x) = firstn (N.to_nat i) p).
  { rewrite firstn_app. replace (N.to_nat i - length p)%nat with 0%nat by (unfold nnat in *; lia). cbn. now rewrite app_nil_r. }
  assert (E2 : skipn (N.to_nat i) (p ++ x) = skipn (N.to_nat i) p ++ x).
  { rewrite skipn_app. replace (N.to_nat i - length p)%nat with 0%nat by (unfold nnat in *; lia). reflexivity. }
  rewrite E1, E2, Hrq. apply req_refl.
Qed.
