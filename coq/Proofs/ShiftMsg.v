(* C11 above the value parsers: the Contact and P-Asserted-Identity lists, the header line, the header
   block and the message.  Each level runs the parsers below it at the current zipper: their run-level
   shift theorems are the instances of run_shift / run_shiftI. *)
From Sipsp Require Import Driver Harness Shift ShiftFb RunLemmas SafeLeaf ExtLists Capacity.
From Coq Require Import ZifyN ZifyNat ZifyBool.
From RecordUpdate Require Import RecordUpdate.

(* ---- run-level forms ------------------------------------------------------------------------------------------------------------------------------- *)
Lemma fb_run_shift J h pre rest i s s' : i = nnat (length pre) -> Rfb (nnat (length J)) i s s' ->
  res_shiftI J (R0 (nnat (length J))) (run (fb_iter h) pre rest i 0 s) (run (fb_iter h) (pre ++ J) rest (i + nnat (length J)) 0 s').
Proof.
  intros Hi HR. apply (run_shiftI (fb_iter h) J (Rfb (nnat (length J))) (R0 (nnat (length J)))); auto.
  - intros p r j t t' Hj Ht. apply fb_shift_step; assumption.
  - intros a b t t' H Hab. apply (Rfb_mono _ a); assumption.
Qed.
Lemma ci_run_shift J pre rest i s s' : i = nnat (length pre) -> Rci (nnat (length J)) s s' ->
  res_shift J (Rci (nnat (length J))) (run ci_iter pre rest i 0 s) (run ci_iter (pre ++ J) rest (i + nnat (length J)) 0 s').
Proof. intros Hi HR. apply (run_shift ci_iter J (Rci (nnat (length J)))); auto. intros p r j t t' _ Ht. apply ci_shift_step. exact Ht. Qed.
Lemma ui_run_shift J pre rest i s s' : i = nnat (length pre) -> Rui (nnat (length J)) s s' ->
  res_shift J (Rui (nnat (length J))) (run ui_iter pre rest i 0 s) (run ui_iter (pre ++ J) rest (i + nnat (length J)) 0 s').
Proof. intros Hi HR. apply (run_shift ui_iter J (Rui (nnat (length J)))); auto. intros p r j t t' _ Ht. apply ui_shift_step. exact Ht. Qed.
Lemma cs_run_shift J pre rest i s s' : i = nnat (length pre) -> Rcs (nnat (length J)) s s' ->
  res_shift J (Rcs (nnat (length J))) (run cs_iter pre rest i 0 s) (run cs_iter (pre ++ J) rest (i + nnat (length J)) 0 s').
Proof. intros Hi HR. apply (run_shift cs_iter J (Rcs (nnat (length J)))); auto. intros p r j t t' Hj Ht. apply cs_shift_step; assumption. Qed.

(* ---- lists of name-addr values ----------------------------------------------------------------------------------------------------------------- *)
Lemma Forall2_nth_R0 k : forall l l' n, Forall2 (R0 k) l l' -> R0 k (nth n l pfrom0) (nth n l' pfrom0).
Proof.
  intros l l' n H. revert n. induction H as [|x x' l l' Hx _ IH]; intros [|n]; cbn; try apply R0_pfrom0; auto.
Qed.
Lemma Forall2_set_nth {A} (R : A -> A -> Prop) : forall l l' n x x', Forall2 R l l' -> R x x' -> Forall2 R (set_nth n x l) (set_nth n x' l').
Proof.
  intros l l' n x x' H Hx. revert n. induction H as [|y y' l l' Hy Hl IH]; intros [|n]; cbn; try constructor; auto.
Qed.
Lemma Forall2_len {A B} (R : A -> B -> Prop) l l' : Forall2 R l l' -> length l = length l'.
Proof. induction 1; cbn; auto. Qed.
Lemma R0_parsed k s s' : R0 k s s' -> fb_parsed s' = fb_parsed s.
Proof. intros (H & _). unfold fb_parsed. now rewrite H. Qed.

Definition Rct0 (k : N) (c c' : contacts) : Prop :=
  Forall2 (R0 k) (ct_vals c) (ct_vals c') /\ ct_n c' = ct_n c /\ ct_hno c' = ct_hno c /\
  ct_maxexp c' = ct_maxexp c /\ ct_minexp c' = ct_minexp c /\ zp k (ct_lasthval c) (ct_lasthval c') /\
  R0 k (ct_last c) (ct_last c') /\ R0 k (ct_first c) (ct_first c').
Definition Rct (k i : N) (c c' : contacts) : Prop := Rct0 k c c' /\ (fb_state (ct_sel c) <> FbInit -> 1 <= i).

Lemma Rct0_len k c c' : Rct0 k c c' -> length (ct_vals c') = length (ct_vals c).
Proof. intros (H & _). symmetry. exact (Forall2_len _ _ _ H). Qed.

Lemma ct_sel_rel k c c' : Rct0 k c c' -> R0 k (ct_sel c) (ct_sel c').
Proof.
  intros H. pose proof (Rct0_len k c c' H) as Hl. destruct H as (Hv & Hn & _ & _ & _ & _ & Hla & _).
  destruct c as [vals n hno mx mn lh last first], c' as [vals' n' hno' mx' mn' lh' last' first']. cbn in *. subst n'.
  rewrite !ct_sel_eq, Hl. destruct (_ <=? n).
  - rewrite (R0_parsed k last last' Hla). destruct (fb_parsed last); [apply R0_pfrom0|exact Hla].
  - apply Forall2_nth_R0. exact Hv.
Qed.

Lemma ct_is_last_rel k c c' : Rct0 k c c' -> ct_slot_is_last c' = ct_slot_is_last c.
Proof. intros H. unfold ct_slot_is_last, ct_cap. rewrite (Rct0_len k c c' H). destruct H as (_ & -> & _). reflexivity. Qed.

Lemma ct_store_rel k c c' v v' : Rct0 k c c' -> R0 k v v' -> Rct0 k (ct_store c v) (ct_store c' v').
Proof.
  intros H Hv. pose proof (ct_is_last_rel k c c' H) as Hl. unfold ct_store. rewrite Hl.
  destruct H as (H1 & H2 & H3 & H4 & H5 & H6 & H7 & H8).
  destruct (ct_slot_is_last c); destruct c, c'; unfold Rct0; cbn in *; subst;
    (split; [|split; [|split; [|split; [|split; [|split; [|split]]]]]]); auto.
  apply Forall2_set_nth; assumption.
Qed.
Lemma ct_reset_rel k b c c' : Rct0 k c c' -> Rct0 k (ct_reset_last_if b c) (ct_reset_last_if b c').
Proof.
  intros (H1 & H2 & H3 & H4 & H5 & H6 & H7 & H8). unfold ct_reset_last_if. destruct b; [|unfold Rct0; auto 10].
  destruct c, c'; unfold Rct0; cbn in *; (split; [|split; [|split; [|split; [|split; [|split; [|split]]]]]]); auto. apply R0_pfrom0.
Qed.

Lemma zp_extend k f f' e : zp k f f' -> pf_empty f = false ->
  pf_extend f' (e + k) = match pf_extend f e with Some g => Some (shf k g) | None => None end.
Proof.
  intros [->|[-> ->]] He; [apply pf_extend_shift|]. discriminate He.
Qed.
Lemma zp_empty k f f' : zp k f f' -> pf_empty f' = pf_empty f.
Proof. intros [->|[-> ->]]; reflexivity. Qed.

Lemma ct_count_eq c1 v : ct_count c1 v =
  let mn0 := if ct_n c1 =? 0 then MaxU32 else ct_minexp c1 in
  match (if (ct_n c1 =? 0) || pf_empty (ct_lasthval c1) then Some (fb_v v) else pf_extend (ct_lasthval c1) (pf_end (fb_v v))) with
  | None => None
  | Some lh => Some (mkcontacts (ct_vals c1) (ct_n c1 + 1) (ct_hno c1)
       (if ct_maxexp c1 <? fb_expires v then fb_expires v else ct_maxexp c1)
       (if fb_expires v <? mn0 then fb_expires v else mn0) lh (ct_last c1)
       (if (ct_n c1 + 1 =? 1) && (ct_cap c1 =? 0) then v else ct_first c1))
  end.
Proof.
  destruct c1 as [vals n hno mx mn lh last first]. unfold ct_count, ct_cap. cbv zeta.
  cbn [ct_n ct_minexp ct_lasthval ct_vals ct_hno ct_maxexp ct_last ct_first].
  destruct (n =? 0) eqn:En; destruct (pf_empty lh) eqn:Ee; destruct (pf_extend lh (pf_end (fb_v v))) as [g|] eqn:Eg;
    destruct (mx <? fb_expires v) eqn:E1; destruct (fb_expires v <? MaxU32) eqn:E2; destruct (fb_expires v <? mn) eqn:E3;
    destruct ((n + 1 =? 1) && (nnat (length vals) =? 0)) eqn:E4;
    cbn; rewrite ?En, ?Ee, ?Eg, ?E1, ?E2, ?E3; cbn; rewrite ?En, ?Ee, ?Eg, ?E1, ?E2, ?E3, ?E4; cbn; rewrite ?E1, ?E2, ?E3, ?E4; cbn; rewrite ?E4; try reflexivity.
Qed.

Lemma ct_count_rel k c1 c1' v v' : Rct0 k c1 c1' -> R0 k v v' -> fb_state v <> FbInit ->
  match ct_count c1 v, ct_count c1' v' with
  | Some c6, Some c6' => Rct0 k c6 c6'
  | None, None => True
  | _, _ => False
  end.
Proof.
  intros H Hv Hni. pose proof (Rct0_len k c1 c1' H) as Hl. destruct H as (H1 & H2 & H3 & H4 & H5 & H6 & H7 & H8).
  pose proof Hv as (V1 & (B1&B2&B3&B4&B5&B6&B7&B8&B9&B10&B11&B12) & V3 & _).
  assert (Hfv : fb_v v' = shf k (fb_v v)) by (destruct (fb_state v); try (exfalso; apply Hni; reflexivity); exact V3).
  assert (Hend : pf_end (shf k (fb_v v)) = pf_end (fb_v v) + k) by (unfold pf_end, shf; cbn; lia).
  rewrite !ct_count_eq. cbv zeta. unfold ct_cap. rewrite H2, H3, H4, H5, B6, Hfv, Hl, (zp_empty k _ _ H6).
  destruct ((ct_n c1 =? 0) || pf_empty (ct_lasthval c1)) eqn:Et.
  - unfold Rct0, zp; cbn; (split; [|split; [|split; [|split; [|split; [|split; [|split]]]]]]); auto.
    destruct (_ && _); assumption.
  - apply Bool.orb_false_iff in Et as [_ Ee]. rewrite Hend, (zp_extend k _ _ _ H6 Ee).
    destruct (pf_extend (ct_lasthval c1) (pf_end (fb_v v))) as [g|]; [|exact I].
    unfold Rct0, zp; cbn; (split; [|split; [|split; [|split; [|split; [|split; [|split]]]]]]); auto.
    destruct (_ && _); assumption.
Qed.

Lemma parsed_not_init (v : pfrom) : fb_parsed v = true -> fb_state v <> FbInit.
Proof. unfold fb_parsed. destruct (fb_state v); congruence. Qed.

Lemma ct_shift_step J pre rest i c c' : i = nnat (length pre) -> Rct (nnat (length J)) i c c' ->
  ires_shiftI J (Rct (nnat (length J))) (Rct0 (nnat (length J))) i (ct_iter pre rest i c) (ct_iter (pre ++ J) rest (i + nnat (length J)) c').
Proof.
  set (k := nnat (length J)). intros Hi [HR Hi1]. rewrite !ct_iter_def.
  pose proof (fb_run_shift J HdrContact pre rest i (ct_sel c) (ct_sel c') Hi (conj (ct_sel_rel k c c' HR) Hi1)) as H. unfold res_shiftI in H. fold k in H.
  destruct (run (fb_iter HdrContact) pre rest i 0 (ct_sel c)) as [next e v| |] eqn:Er,
           (run (fb_iter HdrContact) (pre ++ J) rest (i + k) 0 (ct_sel c')) as [next' e' v'| |]; try contradiction; try exact I.
  destruct H as (Hn & <- & Hv). rewrite !ct_post_eq. cbv zeta. rewrite (ct_is_last_rel k c c' HR).
  pose proof (ct_store_rel k c c' v v' HR Hv) as Hst.
  destruct e; try (cbn; split; [exact Hn|]; split; [reflexivity|]; try apply ct_reset_rel; exact Hst).
  - (* EOk *)
    pose proof (ct_count_rel k _ _ v v' Hst Hv (parsed_not_init v (fb_run_ok_parsed _ _ _ _ _ _ _ _ Er (or_introl eq_refl)))) as Hc.
    destruct (ct_count (ct_store c v) v) as [c6|], (ct_count (ct_store c' v') v') as [c6'|]; try contradiction; [|exact I].
    cbn. split; [exact Hn|]. split; [reflexivity|exact Hc].
  - (* EMoreValues *)
    pose proof (ct_count_rel k _ _ v v' Hst Hv (parsed_not_init v (fb_run_ok_parsed _ _ _ _ _ _ _ _ Er (or_intror eq_refl)))) as Hc.
    destruct (ct_count (ct_store c v) v) as [c6|], (ct_count (ct_store c' v') v') as [c6'|]; try contradiction; [|exact I].
    cbn. split; [rewrite Hn; f_equal; lia|]. split; [apply ct_reset_rel; exact Hc|intros _; lia].
Qed.

Lemma Rct_mono k i j c c' : Rct k i c c' -> i <= j -> Rct k j c c'.
Proof. intros [H1 H2] Hij. split; [exact H1|]. intros E. specialize (H2 E). lia. Qed.

Lemma Forall2_repeat_R0 k n : Forall2 (R0 k) (repeat pfrom0 n) (repeat pfrom0 n).
Proof. induction n; cbn; constructor; auto using R0_pfrom0. Qed.
Lemma Rct0_init k n : Rct0 k (contacts_init (repeat pfrom0 n)) (contacts_init (repeat pfrom0 n)).
Proof.
  unfold Rct0, contacts_init, zp. cbn. split; [apply Forall2_repeat_R0|]. repeat (split; [reflexivity|]). split; [right; auto|]. split; apply R0_pfrom0.
Qed.
Lemma ct_sel_init n : ct_sel (contacts_init (repeat pfrom0 n)) = pfrom0.
Proof. unfold contacts_init. rewrite ct_sel_eq. destruct (_ <=? 0); [reflexivity|apply nth_repeat]. Qed.

(* ParseAllContactValues, every capacity *)
Theorem contacts_shift n junk buf offs : offs <= nnat (length buf) ->
  res_shiftI (rev junk) (Rct0 (nnat (length junk)))
    (parse_all_contacts buf offs (contacts_init (repeat pfrom0 n)))
    (parse_all_contacts (junk ++ buf) (offs + nnat (length junk)) (contacts_init (repeat pfrom0 n))).
Proof.
  intros Ho. unfold parse_all_contacts. rewrite <- (rev_length junk).
  apply (parse_shiftI ct_iter (rev junk) (Rct (nnat (length (rev junk)))) (Rct0 (nnat (length (rev junk))))); auto.
  - intros pre rest i s s' Hi HR. apply ct_shift_step; assumption.
  - intros i j s s' H Hij. apply (Rct_mono _ i); assumption.
  - split; [apply Rct0_init|]. rewrite ct_sel_init. intros E. exfalso. apply E. reflexivity.
Qed.

(* ---- P-Asserted-Identity ---------------------------------------------------------------------------------------------------------------------------- *)
From Sipsp Require SafeMsg.
Definition Rpa0 (k : N) (c c' : pais) : Prop :=
  Forall2 (R0 k) (pa_vals c) (pa_vals c') /\ pa_n c' = pa_n c /\ pa_hno c' = pa_hno c /\
  zp k (pa_lasthval c) (pa_lasthval c') /\ R0 k (pa_last c) (pa_last c').
Definition Rpa (k i : N) (c c' : pais) : Prop := Rpa0 k c c' /\ (fb_state (pa_sel c) <> FbInit -> 1 <= i).

Lemma Rpa0_len k c c' : Rpa0 k c c' -> length (pa_vals c') = length (pa_vals c).
Proof. intros (H & _). symmetry. exact (Forall2_len _ _ _ H). Qed.
Lemma pa_is_last_rel k c c' : Rpa0 k c c' -> pa_slot_is_last c' = pa_slot_is_last c.
Proof. intros H. unfold pa_slot_is_last, pa_cap. rewrite (Rpa0_len k c c' H). destruct H as (_ & -> & _). reflexivity. Qed.
Lemma pa_sel_rel k c c' : Rpa0 k c c' -> R0 k (pa_sel c) (pa_sel c').
Proof.
  intros H. pose proof (Rpa0_len k c c' H) as Hl. destruct H as (Hv & Hn & _ & _ & Hla).
  rewrite !SafeMsg.pa_sel_proj. unfold pa_cap. rewrite Hl, Hn. destruct (_ <=? pa_n c).
  - rewrite (R0_parsed k _ _ Hla). destruct (fb_parsed (pa_last c)); [apply R0_pfrom0|exact Hla].
  - apply Forall2_nth_R0. exact Hv.
Qed.
Lemma pa_store_rel k c c' v v' : Rpa0 k c c' -> R0 k v v' -> Rpa0 k (pa_store c v) (pa_store c' v').
Proof.
  intros H Hv. pose proof (pa_is_last_rel k c c' H) as Hl. unfold pa_store. rewrite Hl.
  destruct H as (H1 & H2 & H3 & H4 & H5).
  destruct (pa_slot_is_last c); destruct c, c'; unfold Rpa0; cbn in *; subst; (split; [|split; [|split; [|split]]]); auto.
  apply Forall2_set_nth; assumption.
Qed.
Lemma pa_reset_rel k b c c' : Rpa0 k c c' -> Rpa0 k (pa_reset_last_if b c) (pa_reset_last_if b c').
Proof.
  intros (H1 & H2 & H3 & H4 & H5). unfold pa_reset_last_if. destruct b; [|unfold Rpa0; auto 10].
  destruct c, c'; unfold Rpa0; cbn in *; (split; [|split; [|split; [|split]]]); auto. apply R0_pfrom0.
Qed.

Lemma pa_shift_step J pre rest i c c' : i = nnat (length pre) -> Rpa (nnat (length J)) i c c' ->
  ires_shiftI J (Rpa (nnat (length J))) (Rpa0 (nnat (length J))) i (pa_iter pre rest i c) (pa_iter (pre ++ J) rest (i + nnat (length J)) c').
Proof.
  set (k := nnat (length J)). intros Hi [HR Hi1]. rewrite !pa_iter_def.
  pose proof (fb_run_shift J HdrPAI pre rest i (pa_sel c) (pa_sel c') Hi (conj (pa_sel_rel k c c' HR) Hi1)) as H. unfold res_shiftI in H. fold k in H.
  destruct (run (fb_iter HdrPAI) pre rest i 0 (pa_sel c)) as [next e v| |] eqn:Er,
           (run (fb_iter HdrPAI) (pre ++ J) rest (i + k) 0 (pa_sel c')) as [next' e' v'| |]; try contradiction; try exact I.
  destruct H as (Hn & <- & Hv). unfold pa_post. cbv zeta. rewrite !SafeMsg.pa_store_prep, !SafeMsg.pa_is_last_prep. rewrite (pa_is_last_rel k c c' HR).
  pose proof (pa_store_rel k c c' v v' HR Hv) as Hst.
  pose proof Hv as (V1 & (B1&B2&B3&B4&B5&B6&B7&B8&B9&B10&B11&B12) & V3 & _). rewrite B1.
  assert (Hcount : e = EOk \/ e = EMoreValues ->
    match (if (pa_n (pa_store c v) =? 0) || pf_empty (pa_lasthval (pa_store c v)) then Some (fb_v v) else pf_extend (pa_lasthval (pa_store c v)) (pf_end (fb_v v))),
          (if (pa_n (pa_store c' v') =? 0) || pf_empty (pa_lasthval (pa_store c' v')) then Some (fb_v v') else pf_extend (pa_lasthval (pa_store c' v')) (pf_end (fb_v v')))
    with
    | Some lh, Some lh' => Rpa0 k ((pa_store c v) <| pa_lasthval := lh |> <| pa_n := pa_n (pa_store c v) + 1 |>)
                                   ((pa_store c' v') <| pa_lasthval := lh' |> <| pa_n := pa_n (pa_store c' v') + 1 |>)
    | None, None => True
    | _, _ => False
    end).
  { intros He. pose proof (parsed_not_init v (fb_run_ok_parsed _ _ _ _ _ _ _ _ Er He)) as Hni.
    assert (Hfv : fb_v v' = shf k (fb_v v)) by (destruct (fb_state v); try (exfalso; apply Hni; reflexivity); exact V3).
    assert (Hend : pf_end (shf k (fb_v v)) = pf_end (fb_v v) + k) by (unfold pf_end, shf; cbn; lia).
    destruct Hst as (S1 & S2 & S3 & S4 & S5). rewrite S2, Hfv, (zp_empty k _ _ S4).
    destruct ((pa_n (pa_store c v) =? 0) || pf_empty (pa_lasthval (pa_store c v))) eqn:Et.
    - destruct (pa_store c v), (pa_store c' v'); unfold Rpa0, zp in *; cbn in *; subst; (split; [|split; [|split; [|split]]]); auto.
    - apply Bool.orb_false_iff in Et as [_ Ee]. rewrite Hend, (zp_extend k _ _ _ S4 Ee).
      destruct (pf_extend (pa_lasthval (pa_store c v)) (pf_end (fb_v v))) as [g|]; [|exact I].
      destruct (pa_store c v), (pa_store c' v'); unfold Rpa0, zp in *; cbn in *; subst; (split; [|split; [|split; [|split]]]); auto. }
  destruct e; cbn [err_eqb err_code N.eqb orb andb]; try (cbn; split; [exact Hn|]; split; [reflexivity|]; try apply pa_reset_rel; exact Hst).
  - (* EOk *)
    destruct (fb_star v); cbn [andb]; [cbn; split; [exact Hn|]; split; [reflexivity|apply pa_reset_rel; exact Hst]|].
    specialize (Hcount (or_introl eq_refl)).
    destruct (if (pa_n (pa_store c v) =? 0) || _ then _ else _) as [lh|], (if (pa_n (pa_store c' v') =? 0) || _ then _ else _) as [lh'|]; try contradiction; [|exact I].
    cbn. split; [exact Hn|]. split; [reflexivity|exact Hcount].
  - (* EMoreValues *)
    destruct (fb_star v); cbn [andb]; [cbn; split; [exact Hn|]; split; [reflexivity|apply pa_reset_rel; exact Hst]|].
    specialize (Hcount (or_intror eq_refl)).
    destruct (if (pa_n (pa_store c v) =? 0) || _ then _ else _) as [lh|], (if (pa_n (pa_store c' v') =? 0) || _ then _ else _) as [lh'|]; try contradiction; [|exact I].
    cbn. split; [rewrite Hn; f_equal; lia|]. split; [apply pa_reset_rel; exact Hcount|intros _; lia].
Qed.

Lemma Rpa_mono k i j c c' : Rpa k i c c' -> i <= j -> Rpa k j c c'.
Proof. intros [H1 H2] Hij. split; [exact H1|]. intros E. specialize (H2 E). lia. Qed.

(* run-level forms of the two lists; the index fact is void once a byte has been consumed *)
Lemma ct_run_shift J pre rest i c c' : i = nnat (length pre) -> 1 <= i -> Rct0 (nnat (length J)) c c' ->
  res_shiftI J (Rct0 (nnat (length J))) (run ct_iter pre rest i 0 c) (run ct_iter (pre ++ J) rest (i + nnat (length J)) 0 c').
Proof.
  intros Hi H1 HR. apply (run_shiftI ct_iter J (Rct (nnat (length J))) (Rct0 (nnat (length J)))); auto.
  - intros p r j t t' Hj Ht. apply ct_shift_step; assumption.
  - intros a b t t' H Hab. apply (Rct_mono _ a); assumption.
  - split; [exact HR|intros _; exact H1].
Qed.
Lemma pa_run_shift J pre rest i c c' : i = nnat (length pre) -> 1 <= i -> Rpa0 (nnat (length J)) c c' ->
  res_shiftI J (Rpa0 (nnat (length J))) (run pa_iter pre rest i 0 c) (run pa_iter (pre ++ J) rest (i + nnat (length J)) 0 c').
Proof.
  intros Hi H1 HR. apply (run_shiftI pa_iter J (Rpa (nnat (length J))) (Rpa0 (nnat (length J)))); auto.
  - intros p r j t t' Hj Ht. apply pa_shift_step; assumption.
  - intros a b t t' H Hab. apply (Rpa_mono _ a); assumption.
  - split; [exact HR|intros _; exact H1].
Qed.

(* ---- the parsed header values --------------------------------------------------------------------------------------------------------------------- *)
Definition Rpv (k : N) (v v' : phvals) : Prop :=
  R0 k (pv_from v) (pv_from v') /\ R0 k (pv_to v) (pv_to v') /\ Rci k (pv_callid v) (pv_callid v') /\
  Rcs k (pv_cseq v) (pv_cseq v') /\ Rui k (pv_clen v) (pv_clen v') /\ Rct0 k (pv_contacts v) (pv_contacts v') /\
  Rpa0 k (pv_pais v) (pv_pais v') /\ Rui k (pv_expires v) (pv_expires v').
Definition Ropv (k : N) (o o' : option phvals) : Prop :=
  match o, o' with Some v, Some v' => Rpv k v v' | None, None => True | _, _ => False end.

(* ---- one header ----------------------------------------------------------------------------------------------------------------------------------------- *)
Definition Rhdr (k : N) (h h' : hdr) : Prop :=
  h_type h' = h_type h /\ h_state h' = h_state h /\
  match h_state h with
  | HInit => h_name h' = h_name h /\ h_val h = pf0 /\ h_val h' = pf0
  | HVal | HValEnd => h_name h' = shf k (h_name h) /\ h_val h' = shf k (h_val h)
  | HFIN => (h_name h' = shf k (h_name h) \/ h_name h' = h_name h) /\ zp k (h_val h) (h_val h')
  | _ => h_name h' = shf k (h_name h) /\ h_val h = pf0 /\ h_val h' = pf0
  end.
Definition Rhl0 (k : N) (st st' : hline) : Prop := Rhdr k (hx_h st) (hx_h st') /\ Ropv k (hx_pv st) (hx_pv st').
Definition Rhl (k i : N) (st st' : hline) : Prop := Rhl0 k st st' /\ (h_state (hx_h st) <> HInit -> 1 <= i).

Definition rrel {B} (k : N) (RB : B -> B -> Prop) (r r' : res B) : Prop :=
  match r, r' with
  | Done n e b, Done n' e' b' => n' = n + k /\ e = e' /\ RB b b'
  | Panic, Panic => True
  | Stuck, Stuck => True
  | _, _ => False
  end.

Lemma hb_finish_shift {B} J (RB : B -> B -> Prop) (r r' : res B) st st' valof (put put' : B -> phvals) hs i :
  rrel (nnat (length J)) RB r r' -> ExtHdrLine.is_body hs = true ->
  h_type (hx_h st') = h_type (hx_h st) -> h_state (hx_h st) = hs -> h_state (hx_h st') = hs ->
  h_name (hx_h st') = shf (nnat (length J)) (h_name (hx_h st)) -> h_val (hx_h st) = pf0 -> h_val (hx_h st') = pf0 ->
  (forall n b b', r = Done n EOk b -> RB b b' -> zp (nnat (length J)) (valof b) (valof b')) ->
  (forall b b', RB b b' -> Rpv (nnat (length J)) (put b) (put' b')) ->
  ires_shiftI J (Rhl (nnat (length J))) (Rhl0 (nnat (length J))) i (hb_finish r st valof put) (hb_finish r' st' valof put').
Proof.
  intros Hr Hb Ht Hs Hs' Hn Hv Hv' Hval Hput. unfold hb_finish.
  destruct r as [n e b| |], r' as [n' e' b'| |]; try contradiction; try exact I.
  destruct Hr as (-> & <- & HB). cbn. split; [reflexivity|]. split; [reflexivity|].
  unfold Rhl0. cbn [hx_h hx_pv]. split; [|apply Hput; exact HB].
  destruct st as [[t nm vl s0] pv], st' as [[t' nm' vl' s0'] pv']. cbn in *. subst t' s0 s0' nm' vl vl'.
  destruct e; unfold Rhdr; cbn; try (destruct hs; try discriminate; auto; fail).
  split; [reflexivity|]. split; [reflexivity|]. split; [left; reflexivity|]. apply (Hval n b b' eq_refl HB).
Qed.

Lemma rrel_of_shift {B} J (R : B -> B -> Prop) r r' : res_shift J R r r' -> rrel (nnat (length J)) R r r'.
Proof. destruct r, r'; cbn; auto. Qed.
Lemma rrel_of_shiftI {B} J (Q : B -> B -> Prop) r r' : res_shiftI J Q r r' -> rrel (nnat (length J)) Q r r'.
Proof. destruct r, r'; cbn; auto. Qed.

Lemma ui_run_ok_fin pre rest i s o s' : run ui_iter pre rest i 0 s = Done o EOk s' -> ui_state s' = ClFIN.
Proof.
  intros H. pose proof (SafeMsg.run_ok_state ui_iter (fun s => ui_parsed s = true) SafeMsg.ui_iter_ok_parsed rest pre i s o s' H) as X.
  unfold ui_parsed in X. destruct (ui_state s'); try discriminate; reflexivity.
Qed.
Lemma ci_run_ok_fin pre rest i s o s' : run ci_iter pre rest i 0 s = Done o EOk s' -> ci_state s' = CiFIN.
Proof.
  intros H. pose proof (SafeMsg.run_ok_state ci_iter (fun s => ci_parsed s = true) SafeMsg.ci_iter_ok_parsed rest pre i s o s' H) as X.
  unfold ci_parsed in X. destruct (ci_state s'); try discriminate; reflexivity.
Qed.
Lemma cs_run_ok_fin pre rest i s o s' : run cs_iter pre rest i 0 s = Done o EOk s' -> cs_state s' = CsFIN.
Proof.
  intros H. pose proof (SafeMsg.run_ok_state cs_iter (fun s => cs_parsed s = true) SafeMsg.cs_iter_ok_parsed rest pre i s o s' H) as X.
  unfold cs_parsed in X. destruct (cs_state s'); try discriminate; reflexivity.
Qed.

Lemma clenR_shift J pre rest i s s' : i = nnat (length pre) -> Rui (nnat (length J)) s s' ->
  rrel (nnat (length J)) (Rui (nnat (length J))) (ExtHdrLine.clen_R pre rest i s) (ExtHdrLine.clen_R (pre ++ J) rest (i + nnat (length J)) s').
Proof.
  intros Hi HR. pose proof (rrel_of_shift J _ _ _ (ui_run_shift J pre rest i s s' Hi HR)) as H. unfold ExtHdrLine.clen_R.
  destruct (run ui_iter pre rest i 0 s) as [o e t| |] eqn:E1, (run ui_iter (pre ++ J) rest _ 0 s') as [o' e' t'| |]; try contradiction; auto.
  destruct H as (Ho' & <- & HRt). destruct e; try (split; [exact Ho'|split; [reflexivity|exact HRt]]).
  pose proof HRt as (Hst & Hv & HR'). rewrite Hv. rewrite (ui_run_ok_fin _ _ _ _ _ _ E1) in HR'. destruct HR' as [Hsv _]. rewrite Hsv. cbn [shf pl po].
  destruct (_ || _); (split; [|split; [reflexivity|exact HRt]]); [reflexivity|exact Ho'].
Qed.

Lemma zp_of_shf k f : zp k f (shf k f). Proof. left. reflexivity. Qed.

Lemma hb_run_shift J hs pre rest o st st' v v' : o = nnat (length pre) -> 1 <= o -> ExtHdrLine.is_body hs = true ->
  h_type (hx_h st') = h_type (hx_h st) ->
  h_name (hx_h st') = shf (nnat (length J)) (h_name (hx_h st)) -> h_val (hx_h st) = pf0 -> h_val (hx_h st') = pf0 ->
  Rpv (nnat (length J)) v v' ->
  ires_shiftI J (Rhl (nnat (length J))) (Rhl0 (nnat (length J))) o (hb_run hs pre rest o st v) (hb_run hs (pre ++ J) rest (o + nnat (length J)) st' v').
Proof.
  set (k := nnat (length J)). intros Ho H1 Hb Ht Hn Hv Hv' (P1&P2&P3&P4&P5&P6&P7&P8).
  assert (Hidx : forall s : pfrom, fb_state s <> FbInit -> 1 <= o) by (intros _ _; exact H1).
  destruct hs; try discriminate Hb; unfold hb_run.
  - (* From *)
    eapply (hb_finish_shift J (R0 k)); try reflexivity; try (destruct st as [[? ? ? ?] ?], st' as [[? ? ? ?] ?]; cbn in *; assumption).
    + apply rrel_of_shiftI. apply fb_run_shift; [exact Ho|split; [exact P1|apply Hidx]].
    + intros n b b' E HB. pose proof (parsed_not_init b (fb_run_ok_parsed _ _ _ _ _ _ _ _ E (or_introl eq_refl))) as Hni.
      destruct HB as (_ & _ & V3 & _). rewrite V3. destruct (fb_state b); try (exfalso; apply Hni; reflexivity); apply zp_of_shf.
    + intros b b' HB. destruct v, v'; unfold Rpv; cbn in *. auto 10.
  - (* To *)
    eapply (hb_finish_shift J (R0 k)); try reflexivity; try (destruct st as [[? ? ? ?] ?], st' as [[? ? ? ?] ?]; cbn in *; assumption).
    + apply rrel_of_shiftI. apply fb_run_shift; [exact Ho|split; [exact P2|apply Hidx]].
    + intros n b b' E HB. pose proof (parsed_not_init b (fb_run_ok_parsed _ _ _ _ _ _ _ _ E (or_introl eq_refl))) as Hni.
      destruct HB as (_ & _ & V3 & _). rewrite V3. destruct (fb_state b); try (exfalso; apply Hni; reflexivity); apply zp_of_shf.
    + intros b b' HB. destruct v, v'; unfold Rpv; cbn in *. auto 10.
  - (* Call-ID *)
    eapply (hb_finish_shift J (Rci k)); try reflexivity; try (destruct st as [[? ? ? ?] ?], st' as [[? ? ? ?] ?]; cbn in *; assumption).
    + apply rrel_of_shift. apply ci_run_shift; assumption.
    + intros n b b' E [_ HB]. rewrite (ci_run_ok_fin _ _ _ _ _ _ E) in HB. destruct HB as [-> _]. apply zp_of_shf.
    + intros b b' HB. destruct v, v'; unfold Rpv; cbn in *. auto 10.
  - (* CSeq *)
    eapply (hb_finish_shift J (Rcs k)); try reflexivity; try (destruct st as [[? ? ? ?] ?], st' as [[? ? ? ?] ?]; cbn in *; assumption).
    + apply rrel_of_shift. apply cs_run_shift; assumption.
    + intros n b b' E (_ & _ & _ & HB). rewrite (cs_run_ok_fin _ _ _ _ _ _ E) in HB. destruct HB as (_ & _ & ->). apply zp_of_shf.
    + intros b b' HB. destruct v, v'; unfold Rpv; cbn in *. auto 10.
  - (* Content-Length *)
    eapply (hb_finish_shift J (Rui k) (ExtHdrLine.clen_R pre rest o (pv_clen v)) (ExtHdrLine.clen_R (pre ++ J) rest (o + k) (pv_clen v'))); try reflexivity;
      try (destruct st as [[? ? ? ?] ?], st' as [[? ? ? ?] ?]; cbn in *; assumption).
    + apply clenR_shift; assumption.
    + intros n b b' E (_ & _ & HB). unfold ExtHdrLine.clen_R in E.
      destruct (run ui_iter pre rest o 0 (pv_clen v)) as [n0 e0 b0| |] eqn:Er; try discriminate E.
      destruct e0; try discriminate E. destruct (_ || _); [discriminate E|]. injection E as <- <-.
      rewrite (ui_run_ok_fin _ _ _ _ _ _ Er) in HB. destruct HB as [-> _]. apply zp_of_shf.
    + intros b b' HB. destruct v, v'; unfold Rpv; cbn in *. auto 10.
  - (* Contact *)
    eapply (hb_finish_shift J (Rct0 k)); try reflexivity; try (destruct st as [[? ? ? ?] ?], st' as [[? ? ? ?] ?]; cbn in *; assumption).
    + apply rrel_of_shiftI. apply ct_run_shift; assumption.
    + intros n b b' E (_&_&_&_&_&HB&_). exact HB.
    + intros b b' HB. destruct v, v'; unfold Rpv; cbn in *. auto 10.
  - (* Expires *)
    eapply (hb_finish_shift J (Rui k)); try reflexivity; try (destruct st as [[? ? ? ?] ?], st' as [[? ? ? ?] ?]; cbn in *; assumption).
    + apply rrel_of_shift. apply ui_run_shift; assumption.
    + intros n b b' E (_ & _ & HB). rewrite (ui_run_ok_fin _ _ _ _ _ _ E) in HB. destruct HB as [-> _]. apply zp_of_shf.
    + intros b b' HB. destruct v, v'; unfold Rpv; cbn in *. auto 10.
  - (* PAI *)
    eapply (hb_finish_shift J (Rpa0 k)); try reflexivity; try (destruct st as [[? ? ? ?] ?], st' as [[? ? ? ?] ?]; cbn in *; assumption).
    + apply rrel_of_shiftI. apply pa_run_shift; assumption.
    + intros n b b' E (_&_&_&HB&_). exact HB.
    + intros b b' HB. destruct v, v'; unfold Rpv; cbn in *. auto 10.
Qed.

Lemma Rci_parsed k s s' : Rci k s s' -> ci_parsed s' = ci_parsed s.
Proof. intros [H _]. unfold ci_parsed. now rewrite H. Qed.
Lemma Rcs_parsed k s s' : Rcs k s s' -> cs_parsed s' = cs_parsed s.
Proof. intros [H _]. unfold cs_parsed. now rewrite H. Qed.
Lemma Rui_parsed k s s' : Rui k s s' -> ui_parsed s' = ui_parsed s.
Proof. intros [H _]. unfold ui_parsed. now rewrite H. Qed.

Lemma pick_rel k st st' : h_type (hx_h st') = h_type (hx_h st) -> Ropv k (hx_pv st) (hx_pv st') ->
  match ExtHdrLine.hb_pick st, ExtHdrLine.hb_pick st' with
  | Some (hs, v), Some (hs', v') => hs' = hs /\ ExtHdrLine.is_body hs = true /\ Rpv k v v'
  | None, None => True
  | _, _ => False
  end.
Proof.
  intros Ht Hpv. unfold ExtHdrLine.hb_pick. rewrite Ht. destruct (hx_pv st) as [v|], (hx_pv st') as [v'|]; try contradiction; [|exact I].
  cbn in Hpv. pose proof Hpv as (P1&P2&P3&P4&P5&P6&P7&P8). cbv zeta.
  rewrite (R0_parsed k _ _ P1), (R0_parsed k _ _ P2), (Rci_parsed k _ _ P3), (Rcs_parsed k _ _ P4), (Rui_parsed k _ _ P5), (Rui_parsed k _ _ P8).
  repeat match goal with |- context [if ?b then _ else _] => destruct b end; try exact I; try (split; [reflexivity|split; [reflexivity|exact Hpv]]).
  - split; [reflexivity|]. split; [reflexivity|]. destruct v, v'; unfold Rpv in *; cbn in *. repeat (split; [tauto|]). split; [|split; tauto].
    destruct P6 as (C1&C2&C3&C4&C5&C6&C7&C8). destruct pv_contacts, pv_contacts0; unfold Rct0, zp in *; cbn in *. subst.
    (split; [|split; [|split; [|split; [|split; [|split; [|split]]]]]]); auto.
  - split; [reflexivity|]. split; [reflexivity|]. destruct v, v'; unfold Rpv in *; cbn in *. repeat (split; [tauto|]). split; [|tauto].
    destruct P7 as (C1&C2&C3&C4&C5). destruct pv_pais, pv_pais0; unfold Rpa0, zp in *; cbn in *. subst.
    (split; [|split; [|split; [|split]]]); auto.
Qed.

Notation HlRes J i := (ires_shiftI J (Rhl (nnat (length J))) (Rhl0 (nnat (length J))) i).

Lemma colon_shift J pre rest i k0 st st' : i = nnat (length pre) -> (S k0 <= length rest)%nat ->
  h_name (hx_h st') = shf (nnat (length J)) (h_name (hx_h st)) -> h_val (hx_h st) = pf0 -> h_val (hx_h st') = pf0 ->
  Ropv (nnat (length J)) (hx_pv st) (hx_pv st') ->
  HlRes J i (hl_colon pre rest i k0 st) (hl_colon (pre ++ J) rest (i + nnat (length J)) k0 st').
Proof.
  set (k := nnat (length J)). intros Hi Hk Hn Hv Hv' Hpv. rewrite !ExtHdrLine.hl_colon_eq. unfold ExtHdrLine.hl_colon'.
  rewrite Hn, (zget_shift pre J rest i _ Hi). destruct (zget pre rest i (h_name (hx_h st))) as [name|]; [|exact I]. cbv zeta.
  set (st1 := st <| hx_h := _ |>). set (st1' := st' <| hx_h := _ |>).
  assert (E1 : h_type (hx_h st1') = h_type (hx_h st1)) by (subst st1 st1'; destruct st as [[? ? ? ?] ?], st' as [[? ? ? ?] ?]; reflexivity).
  assert (E2 : h_name (hx_h st1') = shf k (h_name (hx_h st1))) by (subst st1 st1'; destruct st as [[? ? ? ?] ?], st' as [[? ? ? ?] ?]; exact Hn).
  assert (E3 : h_val (hx_h st1) = pf0) by (subst st1; destruct st as [[? ? ? ?] ?]; exact Hv).
  assert (E3' : h_val (hx_h st1') = pf0) by (subst st1'; destruct st' as [[? ? ? ?] ?]; exact Hv').
  assert (E4 : Ropv k (hx_pv st1) (hx_pv st1')) by (subst st1 st1'; destruct st as [[? ? ? ?] ?], st' as [[? ? ? ?] ?]; exact Hpv).
  pose proof (pick_rel k st1 st1' E1 E4) as Hp.
  destruct (ExtHdrLine.hb_pick st1) as [[hs v]|], (ExtHdrLine.hb_pick st1') as [[hs' v']|]; try contradiction.
  - destruct Hp as (-> & Hb & Hpv'). rewrite zpre_app_r. replace (i + k + nnat k0 + 1) with (i + nnat k0 + 1 + k) by lia.
    pose proof (hb_run_shift J hs (zpre (S k0) pre rest) (zrest (S k0) rest) (i + nnat k0 + 1) st1 st1' v v'
                  ltac:(unfold nnat in *; rewrite zpre_length by lia; lia) ltac:(unfold nnat; lia) Hb E1 E2 E3 E3' Hpv') as H.
    (* a result k0+1 bytes further on is a result here: hb_run never says "next" *)
    pose proof (ExtHdrLine.hb_run_noNext hs (zpre (S k0) pre rest) (zrest (S k0) rest) (i + nnat k0 + 1) st1 v) as Hnn.
    destruct (hb_run hs _ _ _ st1 v) as [|n e x|], (hb_run hs (zpre (S k0) pre rest ++ J) _ _ st1' v') as [|n' e' x'|]; try contradiction; exact H.
  - cbn. split; [reflexivity|]. split; [|intros _; lia]. unfold Rhl0. split; [|exact E4].
    subst st1 st1'. destruct st as [[? ? ? ?] ?], st' as [[? ? ? ?] ?]. unfold Rhdr. cbn in *. auto.
Qed.

Lemma name_shift J pre rest i st st' : i = nnat (length pre) -> h_state (hx_h st) = HName -> Rhl0 (nnat (length J)) st st' ->
  HlRes J i (hl_name_ph pre rest i st) (hl_name_ph (pre ++ J) rest (i + nnat (length J)) st').
Proof.
  set (k := nnat (length J)). intros Hi Hs HR. pose proof HR as [(Ht & Hst & Hf) Hpv]. rewrite Hs in Hf. destruct Hf as (Hn & Hv & Hv').
  unfold hl_name_ph. cbv zeta. set (k0 := skipTokenDelim 58 rest).
  destruct (skipn k0 rest) as [|c r] eqn:Es.
  - cbn. split; [lia|]. split; [reflexivity|exact HR].
  - pose proof (MsgBounds.skipn_cons_len _ _ _ _ Es) as Hl.
    rewrite Hn. replace (i + k + nnat k0) with (i + nnat k0 + k) by lia. rewrite pf_extend_shift.
    destruct (is_sp c).
    + destruct (pf_extend (h_name (hx_h st)) (i + nnat k0)) as [n1|]; [|exact I].
      assert (Ee : pf_empty (shf k n1) = pf_empty n1) by reflexivity. rewrite Ee. destruct (pf_empty n1).
      * cbn. split; [lia|]. split; [reflexivity|]. unfold Rhl0. split; [|destruct st, st'; exact Hpv].
        destruct st as [[? ? ? ?] ?], st' as [[? ? ? ?] ?]. unfold Rhdr. cbn in *. auto.
      * cbn. split; [reflexivity|]. split; [|intros _; lia]. unfold Rhl0. split; [|destruct st, st'; exact Hpv].
        destruct st as [[? ? ? ?] ?], st' as [[? ? ? ?] ?]. unfold Rhdr. cbn in *. auto.
    + destruct (c =? 58); [|cbn; split; [lia|]; split; [reflexivity|exact HR]].
      destruct (pf_extend (h_name (hx_h st)) (i + nnat k0)) as [n1|]; [|exact I].
      assert (Ee : pf_empty (shf k n1) = pf_empty n1) by reflexivity. rewrite Ee. destruct (pf_empty n1).
      * cbn. split; [lia|]. split; [reflexivity|]. unfold Rhl0. split; [|destruct st, st'; exact Hpv].
        destruct st as [[? ? ? ?] ?], st' as [[? ? ? ?] ?]. unfold Rhdr. cbn in *. auto.
      * apply colon_shift; auto; try lia; destruct st as [[? ? ? ?] ?], st' as [[? ? ? ?] ?]; cbn in *; auto.
Qed.

Lemma valend_shift J (pre : list byte) (r' : list byte) i k0 st st' h1 h1' : Ropv (nnat (length J)) (hx_pv st) (hx_pv st') ->
  h_type h1' = h_type h1 -> h_state h1 = HValEnd -> h_state h1' = HValEnd ->
  h_name h1' = shf (nnat (length J)) (h_name h1) -> h_val h1' = shf (nnat (length J)) (h_val h1) ->
  i = nnat (length pre) ->
  HlRes J i (ExtHdrLine.hl_valend r' i k0 st h1) (ExtHdrLine.hl_valend r' (i + nnat (length J)) k0 st' h1').
Proof.
  intros Hpv Ht Hs Hs' Hn Hv Hi. unfold ExtHdrLine.hl_valend. destruct (skipLWS false r') as [k2|k2 crl|k2].
  - cbn. split; [reflexivity|]. split; [|intros _; lia]. unfold Rhl0. split; [|destruct st, st'; exact Hpv].
    destruct st as [? ?], st' as [? ?], h1 as [? ? ? ?], h1' as [? ? ? ?]. unfold Rhdr. cbn in *. subst. auto.
  - cbn. split; [lia|]. split; [reflexivity|]. unfold Rhl0. split; [|destruct st, st'; exact Hpv].
    destruct st as [? ?], st' as [? ?], h1 as [? ? ? ?], h1' as [? ? ? ?]. unfold Rhdr, zp. cbn in *. subst. auto 6.
  - cbn. split; [lia|]. split; [reflexivity|]. unfold Rhl0. split; [|destruct st, st'; exact Hpv].
    destruct st as [? ?], st' as [? ?], h1 as [? ? ? ?], h1' as [? ? ? ?]. unfold Rhdr. cbn in *. subst. auto.
Qed.


Lemma hl_shift_step J pre rest i st st' : i = nnat (length pre) -> Rhl (nnat (length J)) i st st' ->
  HlRes J i (hl_iter pre rest i st) (hl_iter (pre ++ J) rest (i + nnat (length J)) st').
Proof.
  set (k := nnat (length J)). intros Hi [HR Hi1]. pose proof HR as [(Ht & Hst & Hf) Hpv].
  destruct rest as [|c r1]; [cbn; split; [reflexivity|]; split; [reflexivity|exact HR]|].
  destruct (h_state (hx_h st)) eqn:Hs.
  1: { (* HInit *)
    rewrite !ExtHdrLine.hit_init by congruence. destruct Hf as (Hn & Hv & Hv').
    assert (Hfin : Rhl0 k (st <| hx_h := (hx_h st) <| h_state := HFIN |> |>) (st' <| hx_h := (hx_h st') <| h_state := HFIN |> |>)).
    { unfold Rhl0. split; [|destruct st, st'; exact Hpv]. destruct st as [[? ? ? ?] ?], st' as [[? ? ? ?] ?]. unfold Rhdr, zp. cbn in *. subst. auto 6. }
    destruct (is_cr c).
    { destruct r1 as [|d r2]; [cbn; split; [reflexivity|]; split; [reflexivity|exact HR]|].
      cbn. split; [destruct (is_lf d); lia|]. split; [reflexivity|exact Hfin]. }
    destruct (is_lf c); [cbn; split; [lia|]; split; [reflexivity|exact Hfin]|].
    rewrite (pf_set_shift i i k). destruct (pf_set i i) as [n1|]; [|exact I].
    apply name_shift; [exact Hi|destruct st as [[? ? ? ?] ?]; reflexivity|].
    unfold Rhl0. split; [|destruct st, st'; exact Hpv]. destruct st as [[? ? ? ?] ?], st' as [[? ? ? ?] ?]. unfold Rhdr. cbn in *. subst. auto. }
  1: { (* HName *) rewrite !ExtHdrLine.hit_name by congruence. apply name_shift; auto. }
  1: { (* HNameEnd *)
    rewrite !ExtHdrLine.hit_nameend by congruence. destruct Hf as (Hn & Hv & Hv'). unfold ExtHdrLine.hl_nameend. cbv zeta.
    set (k0 := skipWS (c :: r1)). destruct (skipn k0 (c :: r1)) as [|d r] eqn:Es.
    - cbn. split; [lia|]. split; [reflexivity|exact HR].
    - pose proof (MsgBounds.skipn_cons_len _ _ _ _ Es) as Hl. destruct (d =? 58); [|cbn; split; [lia|]; split; [reflexivity|exact HR]].
      apply colon_shift; auto. lia. }
  1: { (* HBodyStart *)
    rewrite !ExtHdrLine.hit_bstart by congruence. destruct Hf as (Hn & Hv & Hv'). unfold ExtHdrLine.hl_bstart.
    destruct (skipLWS false (c :: r1)) as [k0|k0 crl|k0].
    - replace (i + k + nnat k0) with (i + nnat k0 + k) by lia. rewrite (pf_set_shift (i + nnat k0) (i + nnat k0) k).
      destruct (pf_set (i + nnat k0) (i + nnat k0)) as [v1|]; [|exact I].
      cbn. split; [reflexivity|]. split; [|intros _; lia]. unfold Rhl0. split; [|destruct st, st'; exact Hpv].
      destruct st as [[? ? ? ?] ?], st' as [[? ? ? ?] ?]. unfold Rhdr. cbn in *. subst. auto.
    - cbn. split; [lia|]. split; [reflexivity|]. unfold Rhl0. split; [|destruct st, st'; exact Hpv].
      destruct st as [[? ? ? ?] ?], st' as [[? ? ? ?] ?]. unfold Rhdr, zp. cbn in *. subst. auto 6.
    - cbn. split; [lia|]. split; [reflexivity|exact HR]. }
  1: { (* HVal *)
    rewrite !ExtHdrLine.hit_val by congruence. destruct Hf as [Hn Hv]. unfold ExtHdrLine.hl_val. cbv zeta.
    set (k0 := skipToken (c :: r1)). destruct (skipn k0 (c :: r1)) as [|d r] eqn:Es.
    - cbn. split; [lia|]. split; [reflexivity|exact HR].
    - rewrite Hv. replace (i + k + nnat k0) with (i + nnat k0 + k) by lia. rewrite pf_extend_shift.
      destruct (pf_extend (h_val (hx_h st)) (i + nnat k0)) as [v1|]; [|exact I].
      apply (valend_shift J pre); auto; destruct st as [[? ? ? ?] ?], st' as [[? ? ? ?] ?]; cbn in *; auto. }
  1: { (* HValEnd *)
    rewrite !ExtHdrLine.hit_valend by congruence. destruct Hf as [Hn Hv]. apply (valend_shift J pre); auto; congruence. }
  (* HFrom .. HPAI *)
  all: try (specialize (Hi1 ltac:(discriminate));
            destruct Hf as (Hn & Hv & Hv');
            destruct (hx_pv st) as [v|] eqn:Epv, (hx_pv st') as [v'|] eqn:Epv'; try contradiction;
            [match type of Hs with _ = ?hs =>
               rewrite (ExtHdrLine.hit_body hs pre c r1 i st v eq_refl Hs Epv), (ExtHdrLine.hit_body hs (pre ++ J) c r1 (i + k) st' v' eq_refl Hst Epv') end;
             apply hb_run_shift; auto
            |rewrite !ExtHdrLine.hit_nopv by (try rewrite Hst; try rewrite Hs; auto); exact I]).
  (* HFIN *)
  rewrite !ExtHdrLine.hit_fin by congruence. cbn. split; [reflexivity|]. split; [reflexivity|exact HR].
Qed.

Lemma Rhl_mono k i j s s' : Rhl k i s s' -> i <= j -> Rhl k j s s'.
Proof. intros [H1 H2] Hij. split; [exact H1|]. intros E. specialize (H2 E). lia. Qed.

Lemma hl_run_shift J pre rest i st st' : i = nnat (length pre) -> Rhl (nnat (length J)) i st st' ->
  res_shiftI J (Rhl0 (nnat (length J))) (run hl_iter pre rest i 0 st) (run hl_iter (pre ++ J) rest (i + nnat (length J)) 0 st').
Proof.
  intros Hi HR. apply (run_shiftI hl_iter J (Rhl (nnat (length J))) (Rhl0 (nnat (length J)))); auto.
  - intros p r j t t' Hj Ht. apply hl_shift_step; assumption.
  - intros a b t t' H Hab. apply (Rhl_mono _ a); assumption.
Qed.

(* ---- the header block ---------------------------------------------------------------------------------------------------------------------------------- *)
Lemma Rhdr_hdr0 k : Rhdr k hdr0 hdr0.
Proof. unfold Rhdr. cbn. auto. Qed.
Lemma Forall2_nth_Rhdr k : forall l l' n, Forall2 (Rhdr k) l l' -> Rhdr k (nth n l hdr0) (nth n l' hdr0).
Proof. intros l l' n H. revert n. induction H as [|x x' l l' Hx _ IH]; intros [|n]; cbn; try apply Rhdr_hdr0; auto. Qed.

Definition Rhlst (k : N) (l l' : hdrlst) : Prop :=
  hl_pflags l' = hl_pflags l /\ hl_n l' = hl_n l /\ Forall2 (Rhdr k) (hl_hdrs l) (hl_hdrs l') /\
  Forall2 (Rhdr k) (hl_first l) (hl_first l') /\ Rhdr k (hl_tmp l) (hl_tmp l').
Definition Rhs0 (k : N) (st st' : hdrs_st) : Prop := Rhlst k (hs_l st) (hs_l st') /\ Ropv k (hs_pv st) (hs_pv st').
Definition Rhs (k i : N) (st st' : hdrs_st) : Prop := Rhs0 k st st' /\ (h_state (hl_slot (hs_l st)) <> HInit -> 1 <= i).

Lemma Rhlst_tmp k l l' : Rhlst k l l' -> hl_is_tmp l' = hl_is_tmp l.
Proof. intros (_ & Hn & Hh & _). unfold hl_is_tmp, hl_cap. rewrite Hn, <- (Forall2_len _ _ _ Hh). reflexivity. Qed.
Lemma hl_slot_rel k l l' : Rhlst k l l' -> Rhdr k (hl_slot l) (hl_slot l').
Proof.
  intros H. pose proof (Rhlst_tmp k l l' H) as Ht. destruct H as (_ & Hn & Hh & _ & Htmp). unfold hl_slot. rewrite Ht, Hn.
  destruct (hl_is_tmp l); [exact Htmp|apply Forall2_nth_Rhdr; exact Hh].
Qed.
Lemma hl_store_rel k l l' h h' : Rhlst k l l' -> Rhdr k h h' -> Rhlst k (hl_store l h) (hl_store l' h').
Proof.
  intros H Hh. pose proof (Rhlst_tmp k l l' H) as Ht. unfold hl_store. rewrite Ht. destruct H as (H1 & H2 & H3 & H4 & H5).
  destruct (hl_is_tmp l); destruct l, l'; unfold Rhlst; cbn in *; subst; (split; [|split; [|split; [|split]]]); auto.
  apply Forall2_set_nth; assumption.
Qed.
Lemma hl_sethdr_rel k l l' h h' : Rhlst k l l' -> Rhdr k h h' -> Rhlst k (hl_sethdr l h) (hl_sethdr l' h').
Proof.
  intros H Hh. pose proof H as (H1 & H2 & H3 & H4 & H5). pose proof Hh as (Ht & _). unfold hl_sethdr. rewrite Ht, <- (Forall2_len _ _ _ H4).
  pose proof (Forall2_nth_Rhdr k _ _ (N.to_nat (h_type h - 1)) H4) as (Hm & _). unfold h_missing. rewrite Hm.
  destruct (_ && _); [|exact H].
  destruct l, l'; unfold Rhlst; cbn in *; subst; (split; [|split; [|split; [|split]]]); auto. apply Forall2_set_nth; assumption.
Qed.

Lemma hs_shift_step J pre rest i st st' : i = nnat (length pre) -> Rhs (nnat (length J)) i st st' ->
  ires_shiftI J (Rhs (nnat (length J))) (Rhs0 (nnat (length J))) i (hs_iter pre rest i st) (hs_iter (pre ++ J) rest (i + nnat (length J)) st').
Proof.
  set (k := nnat (length J)). intros Hi [HR Hi1]. pose proof HR as [Hl Hpv].
  destruct rest as [|c r]; [cbn; split; [reflexivity|]; split; [reflexivity|exact HR]|].
  rewrite !ExtHeaders.hs_iter_def. unfold ExtHeaders.hs_sel.
  pose proof (hl_run_shift J pre (c :: r) i (mkhline (hl_slot (hs_l st)) (hs_pv st)) (mkhline (hl_slot (hs_l st')) (hs_pv st')) Hi) as H.
  specialize (H ltac:(split; [split; [apply hl_slot_rel; exact Hl|exact Hpv]|exact Hi1])). unfold res_shiftI in H. fold k in H.
  destruct (run hl_iter pre (c :: r) i 0 _) as [n e x| |], (run hl_iter (pre ++ J) (c :: r) (i + k) 0 _) as [n' e' x'| |]; try contradiction; try exact I.
  destruct H as (Hn & <- & [Hx Hxpv]). unfold ExtHeaders.hs_post. cbv zeta.
  pose proof (hl_store_rel k _ _ _ _ Hl Hx) as Hs1.
  assert (Hst1 : Rhs0 k (mkhdrs_st (hl_store (hs_l st) (hx_h x)) (hx_pv x)) (mkhdrs_st (hl_store (hs_l st') (hx_h x')) (hx_pv x'))) by (split; assumption).
  destruct e; try (cbn; split; [exact Hn|]; split; [reflexivity|exact Hst1]).
  - (* the header is complete *)
    rewrite (Rhlst_tmp k _ _ Hl). pose proof Hx as (Hty & _). rewrite Hty.
    pose proof Hs1 as (S1 & S2 & S3 & S4 & S5). rewrite S1.
    set (p1 := hl_store (hs_l st) (hx_h x) <| hl_pflags := _ |>). set (p1' := hl_store (hs_l st') (hx_h x') <| hl_pflags := _ |>).
    assert (Hp1 : Rhlst k p1 p1') by (subst p1 p1'; destruct (hl_store (hs_l st) (hx_h x)), (hl_store (hs_l st') (hx_h x')); unfold Rhlst in *; cbn in *; auto 10).
    pose proof (hl_sethdr_rel k p1 p1' _ _ Hp1 Hx) as Hl2.
    cbn. split; [rewrite Hn; f_equal; lia|]. split; [|intros _; lia]. split; [|exact Hxpv]. cbn [hs_l].
    destruct (hl_is_tmp (hs_l st)).
    + destruct Hl2 as (A1 & A2 & A3 & A4 & A5). destruct (hl_sethdr p1 (hx_h x)), (hl_sethdr p1' (hx_h x')); unfold Rhlst; cbn in *; subst;
        (split; [|split; [|split; [|split]]]); auto. apply Rhdr_hdr0.
    + destruct Hl2 as (A1 & A2 & A3 & A4 & A5). destruct (hl_sethdr p1 (hx_h x)), (hl_sethdr p1' (hx_h x')); unfold Rhlst; cbn in *; subst;
        (split; [|split; [|split; [|split]]]); auto.
  - (* end of the block *)
    destruct Hs1 as (_ & S2 & _). rewrite S2. destruct (0 <? _); cbn; (split; [exact Hn|]; split; [reflexivity|exact Hst1]).
Qed.

Lemma Rhs_mono k i j s s' : Rhs k i s s' -> i <= j -> Rhs k j s s'.
Proof. intros [H1 H2] Hij. split; [exact H1|]. intros E. specialize (H2 E). lia. Qed.

(* ---- the message ---------------------------------------------------------------------------------------------------------------------------------------- *)
Definition Rraw (k : N) (r r' : option (N * N)) : Prop :=
  match r, r' with Some (a, l), Some (a', l') => a' = a + k /\ l' = l | None, None => True | _, _ => False end.
(* after a call *)
Definition Rmsg (k : N) (m m' : pmsg) : Prop :=
  m_state m' = m_state m /\ Rfl k (m_fl m) (m_fl m') /\ Rhs0 k (m_hs m) (m_hs m') /\
  m_buflen m' = m_buflen m + k /\ m_offs m' = m_offs m + k /\ Rraw k (m_raw m) (m_raw m') /\
  match m_state m with
  | MBody | MFIN | MNoCLen => m_body m' = shf k (m_body m)
  | _ => m_body m' = m_body m
  end.
Definition mrel (k : N) (r r' : res pmsg) : Prop := rrel k (Rmsg k) r r'.

Lemma Rmsg_intro k fl fl' hs hs' b b' bl raw raw' st offs :
  Rfl k fl fl' -> Rhs0 k hs hs' -> Rraw k raw raw' ->
  b' = match st with MBody | MFIN | MNoCLen => shf k b | _ => b end ->
  Rmsg k (mkpmsg fl hs b bl raw st offs) (mkpmsg fl' hs' b' (bl + k) raw' st (offs + k)).
Proof. intros H1 H2 H3 H4. unfold Rmsg. cbn. (split; [|split; [|split; [|split; [|split; [|split]]]]]); auto. destruct st; exact H4. Qed.

Lemma fail_shift k flags o e m m' : Rmsg k m m' -> (m_state m <> MBody /\ m_state m <> MFIN /\ m_state m <> MNoCLen) ->
  mrel k (msg_fail flags o e m) (msg_fail flags (o + k) e m').
Proof.
  intros (H1&H2&H3&H4&H5&H6&H7) Hns. unfold msg_fail, mrel.
  assert (Herr : Rmsg k (m <| m_state := MErr |>) (m' <| m_state := MErr |>)).
  { destruct Hns as (N1 & N2 & N3). destruct m, m'; unfold Rmsg; cbn [Msg.m_state Msg.m_fl Msg.m_hs Msg.m_buflen Msg.m_offs Msg.m_raw Msg.m_body] in *. subst.
    (split; [|split; [|split; [|split; [|split; [|split]]]]]); auto. destruct m_state; try reflexivity; try assumption; exfalso; auto. }
  destruct e; try (cbn; split; [reflexivity|split; [reflexivity|exact Herr]]).
  destruct (testbit flags bSIPMsgNoMoreData); cbn; (split; [reflexivity|split; [reflexivity|]]); [exact Herr|unfold Rmsg; auto 10].
Qed.

Lemma Rpv_init_nil k : Rpv k (phvals_init []) (phvals_init []).
Proof.
  unfold Rpv, phvals_init. cbn. split; [apply R0_pfrom0|]. split; [apply R0_pfrom0|]. split; [split; [reflexivity|]; cbn; auto|].
  split; [repeat split; reflexivity|]. split; [split; [reflexivity|split; [reflexivity|cbn; auto]]|]. split; [apply (Rct0_init k 0)|].
  split; [|split; [reflexivity|split; [reflexivity|cbn; auto]]].
  unfold Rpa0, pais0, zp. cbn. split; [repeat (constructor; [apply R0_pfrom0|]); constructor|]. split; [reflexivity|]. split; [reflexivity|]. split; [right; auto|apply R0_pfrom0].
Qed.
Lemma msg_pv_rel k m m' : Rhs0 k (m_hs m) (m_hs m') -> Rpv k (msg_pv m) (msg_pv m').
Proof.
  intros [_ H]. unfold msg_pv. destruct (hs_pv (m_hs m)) as [v|], (hs_pv (m_hs m')) as [v'|]; try contradiction; [exact H|apply Rpv_init_nil].
Qed.

Lemma body_shift k flags L o m m' : m_state m = MBody -> m_state m' = MBody -> Rfl k (m_fl m) (m_fl m') -> Rhs0 k (m_hs m) (m_hs m') ->
  m_offs m' = m_offs m + k -> Rraw k (m_raw m) (m_raw m') -> m_buflen m' = m_buflen m + k ->
  mrel k (msg_body flags L o m) (msg_body flags (L + k) (o + k) m').
Proof.
  intros Hs Hs' Hfl Hhs Hoffs Hraw Hbl. unfold msg_body, msg_end, mrel.
  rewrite (pf_set_shift o o k). destruct (pf_set o o) as [b0|]; [|exact I]. cbv zeta.
  assert (Hpv : msg_pv (m' <| m_body := shf k b0 |>) = msg_pv m' /\ msg_pv (m <| m_body := b0 |>) = msg_pv m) by (destruct m, m'; split; reflexivity).
  destruct Hpv as [Ep' Ep]. rewrite Ep', Ep.
  pose proof (msg_pv_rel k m m' Hhs) as (_&_&_&_&Hcl&_). pose proof Hcl as (Hcs & Hcv & _).
  rewrite (Rui_parsed k _ _ Hcl), Hcv.
  destruct m as [fl hs body bl raw st offs], m' as [fl' hs' body' bl' raw' st' offs']. cbn in Hs, Hs', Hfl, Hhs, Hoffs, Hraw, Hbl. subst st st' offs' bl'.
  cbn -[testbit N.ltb N.add N.sub pf_extend].
  set (cl := pv_clen _).
  assert (PE : forall x, pf_extend (shf k b0) (x + k) = match pf_extend b0 x with Some g => Some (shf k g) | None => None end) by (intros x; apply pf_extend_shift).
  assert (T1 : forall x y, (x + k <? y + k) = (x <? y)) by (intros; lia).
  repeat match goal with
         | |- context [if testbit ?f ?b then _ else _] => destruct (testbit f b)
         | |- context [if ui_parsed ?c then _ else _] => destruct (ui_parsed c)
         end; cbn [andb negb];
  rewrite ?T1; replace (o + k + ui_val cl) with (o + ui_val cl + k) by lia; rewrite ?T1, ?PE;
  repeat match goal with
         | |- context [match pf_extend ?a ?b with _ => _ end] => destruct (pf_extend a b)
         | |- context [if ?b then _ else _] => destruct b
         end; try exact I; cbn; (split; [try reflexivity; try lia|]); (split; [reflexivity|]);
  unfold Rmsg; cbn [Msg.m_state Msg.m_fl Msg.m_hs Msg.m_buflen Msg.m_offs Msg.m_raw Msg.m_body];
  (split; [|split; [|split; [|split; [|split; [|split]]]]]); auto; try lia; try (unfold Rraw; split; lia); try (unfold shf; cbn; f_equal; lia).
Qed.

Lemma headers_parse_shift J junk buf o st st' : J = rev junk -> o <= nnat (length buf) -> Rhs (nnat (length J)) o st st' ->
  rrel (nnat (length J)) (Rhs0 (nnat (length J))) (parse_headers buf o st) (parse_headers (junk ++ buf) (o + nnat (length J)) st').
Proof.
  intros HJ Ho HR. apply rrel_of_shiftI. unfold parse_headers.
  apply (parse_shiftI hs_iter J (Rhs (nnat (length J))) (Rhs0 (nnat (length J)))); auto.
  - intros pre rest i s s' Hi H. apply hs_shift_step; assumption.
  - intros i j s s' H Hij. apply (Rhs_mono _ i); assumption.
Qed.

Lemma mheaders_shift J junk flags buf o m m' : J = rev junk -> o <= nnat (length buf) ->
  Rmsg (nnat (length J)) m m' -> m_state m = MHeaders -> (h_state (hl_slot (hs_l (m_hs m))) <> HInit -> 1 <= o) ->
  mrel (nnat (length J)) (msg_headers flags buf o m) (msg_headers flags (junk ++ buf) (o + nnat (length J)) m').
Proof.
  set (k := nnat (length J)). intros HJ Ho HR Hs Hidx. pose proof HR as (R1&R2&R3&R4&R5&R6&R7). unfold msg_headers.
  pose proof (headers_parse_shift J junk buf o (m_hs m) (m_hs m') HJ Ho (conj R3 Hidx)) as H. fold k in H.
  destruct (parse_headers buf o (m_hs m)) as [o1 e hs1| |], (parse_headers (junk ++ buf) (o + k) (m_hs m')) as [o1' e' hs1'| |]; try contradiction; try exact I.
  destruct H as (-> & <- & Hh).
  assert (Hm : Rmsg k (m <| m_hs := hs1 |>) (m' <| m_hs := hs1' |>)).
  { destruct m, m'; unfold Rmsg in *; cbn [Msg.m_state Msg.m_fl Msg.m_hs Msg.m_buflen Msg.m_offs Msg.m_raw Msg.m_body] in *.
    (split; [|split; [|split; [|split; [|split; [|split]]]]]); auto. }
  destruct e; try (apply fail_shift; [exact Hm|destruct m; cbn in *; subst; repeat split; discriminate]).
  replace (nnat (length (junk ++ buf))) with (nnat (length buf) + k) by (subst k; rewrite HJ, rev_length, app_length; unfold nnat; lia).
  apply body_shift; destruct m, m'; cbn in *; auto.
Qed.

Lemma mfline_shift J junk flags buf o m m' : J = rev junk -> o <= nnat (length buf) ->
  Rmsg (nnat (length J)) m m' -> m_state m = MFLine -> h_state (hl_slot (hs_l (m_hs m))) = HInit ->
  mrel (nnat (length J)) (msg_fline flags buf o m) (msg_fline flags (junk ++ buf) (o + nnat (length J)) m').
Proof.
  set (k := nnat (length J)). intros HJ Ho HR Hs Hslot. pose proof HR as (R1&R2&R3&R4&R5&R6&R7). unfold msg_fline.
  pose proof (parse_shift fl_iter J (Rfl k) ltac:(intros p r j s s' Hj Hr; apply fl_shift_step; assumption) junk buf o (m_fl m) (m_fl m') HJ Ho R2) as H.
  unfold parse_fline. fold k in H.
  destruct (parse fl_iter buf o (m_fl m)) as [o1 e fl1| |] eqn:E1, (parse fl_iter (junk ++ buf) (o + k) (m_fl m')) as [o1' e' fl1'| |]; try contradiction; try exact I.
  destruct H as (-> & <- & Hf).
  assert (Hm : Rmsg k (m <| m_fl := fl1 |>) (m' <| m_fl := fl1' |>)).
  { destruct m, m'; unfold Rmsg in *; cbn [Msg.m_state Msg.m_fl Msg.m_hs Msg.m_buflen Msg.m_offs Msg.m_raw Msg.m_body] in *.
    (split; [|split; [|split; [|split; [|split; [|split]]]]]); auto. }
  destruct e; try (apply fail_shift; [exact Hm|destruct m; cbn in *; subst; repeat split; discriminate]).
  pose proof (MsgBounds.fline_ok_bound buf o (m_fl m) o1 fl1 Ho E1) as [_ Hb].
  apply (mheaders_shift J junk); [exact HJ|exact Hb| | |].
  - destruct m as [a1 a2 a3 a4 a5 a6 a7], m' as [b1 b2 b3 b4 b5 b6 b7]; cbn [Msg.m_state Msg.m_fl Msg.m_hs Msg.m_buflen Msg.m_offs Msg.m_raw Msg.m_body] in *. subst.
    apply Rmsg_intro; auto.
  - destruct m; reflexivity.
  - destruct m as [a1 a2 a3 a4 a5 a6 a7]; cbn in *. intros E. exfalso. apply E. exact Hslot.
Qed.

(* ParseSIPMsg on an object that has not been started (fresh, or Reset): every flag set, every capacity *)
Theorem message_shift flags junk buf offs m m' : offs <= nnat (length buf) ->
  m_state m = MInit -> m_state m' = MInit -> Rfl (nnat (length junk)) (m_fl m) (m_fl m') -> Rhs0 (nnat (length junk)) (m_hs m) (m_hs m') ->
  h_state (hl_slot (hs_l (m_hs m))) = HInit -> m_body m' = m_body m -> Rraw (nnat (length junk)) (m_raw m) (m_raw m') ->
  mrel (nnat (length junk)) (parse_sipmsg flags buf offs m) (parse_sipmsg flags (junk ++ buf) (offs + nnat (length junk)) m').
Proof.
  intros Ho Hs Hs' Hfl Hhs Hslot Hb Hraw. unfold parse_sipmsg. cbv zeta.
  replace (m_state (m <| m_buflen := nnat (length buf) |>)) with MInit by (destruct m; cbn in *; congruence).
  replace (m_state (m' <| m_buflen := nnat (length (junk ++ buf)) |>)) with MInit by (destruct m'; cbn in *; congruence).
  rewrite <- (rev_length junk).
  apply (mfline_shift (rev junk) junk); [reflexivity|exact Ho| | |].
  - destruct m as [a1 a2 a3 a4 a5 a6 a7], m' as [b1 b2 b3 b4 b5 b6 b7]; cbn [Msg.m_state Msg.m_fl Msg.m_hs Msg.m_buflen Msg.m_offs Msg.m_raw Msg.m_body] in *. subst.
    replace (nnat (length (junk ++ buf))) with (nnat (length buf) + nnat (length (rev junk))) by (rewrite rev_length, app_length; unfold nnat; lia).
    apply Rmsg_intro; auto; rewrite rev_length; auto.
  - destruct m; reflexivity.
  - destruct m as [a1 a2 a3 a4 a5 a6 a7]; exact Hslot.
Qed.

Lemma Forall2_repeat_Rhdr k n : Forall2 (Rhdr k) (repeat hdr0 n) (repeat hdr0 n).
Proof. induction n; cbn; constructor; auto using Rhdr_hdr0. Qed.
Lemma Rpv_init k n : Rpv k (phvals_init (repeat pfrom0 n)) (phvals_init (repeat pfrom0 n)).
Proof.
  pose proof (Rpv_init_nil k) as (P1&P2&P3&P4&P5&P6&P7&P8). unfold Rpv, phvals_init in *. cbn in *.
  split; [exact P1|]. split; [exact P2|]. split; [exact P3|]. split; [exact P4|]. split; [exact P5|]. split; [apply Rct0_init|]. split; [exact P7|exact P8].
Qed.

Theorem fresh_message_shift flags junk buf offs L nh nc : offs <= nnat (length buf) ->
  mrel (nnat (length junk)) (parse_sipmsg flags buf offs (msg_init L (repeat hdr0 nh) (repeat pfrom0 nc)))
                            (parse_sipmsg flags (junk ++ buf) (offs + nnat (length junk)) (msg_init L (repeat hdr0 nh) (repeat pfrom0 nc))).
Proof.
  intros Ho. apply message_shift; auto; try reflexivity.
  - unfold Rfl, flrel, fr. cbn. auto 10.
  - unfold msg_init. cbn. split; [|apply Rpv_init]. unfold Rhlst, hdrlst_init. cbn.
    split; [reflexivity|]. split; [reflexivity|]. split; [apply Forall2_repeat_Rhdr|]. split; [apply (Forall2_repeat_Rhdr _ n_first)|apply Rhdr_hdr0].
  - unfold msg_init, hl_slot, hdrlst_init, hl_is_tmp, hl_cap. cbn. destruct (_ <=? 0); [reflexivity|rewrite nth_repeat; reflexivity].
Qed.
