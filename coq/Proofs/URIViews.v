(* C18: relocating a parsed URI and its derived views *)
From Sipsp Require Import Harness.
From Coq Require Import ZifyN ZifyNat ZifyBool.
Ltac Zify.zify_post_hook ::= Z.div_mod_to_equations.

Definition uri_fields (u : puri) : list pf :=
  [u_user u; u_pass u; u_host u; u_port u; u_params u; u_headers u].

(* a refused relocation leaves the structure untouched *)
Theorem adjust_refused_unchanged u np : fst (uri_adjust u np) = false -> snd (uri_adjust u np) = u.
Proof.
  unfold uri_adjust. cbv zeta. destruct (pl np <? _); [reflexivity|].
  repeat match goal with |- context [let '(a, b) := ?x in _] => destruct x end.
  destruct (_ <? _); cbn; [reflexivity|discriminate].
Qed.

(* a span shorter than the component lengths is refused *)
Theorem adjust_short_refused u np :
  pl np < to16 (pl (u_scheme u) + pl (u_user u) + pl (u_pass u) + pl (u_host u) + pl (u_port u)
                + pl (u_params u) + pl (u_headers u)) -> uri_adjust u np = (false, u).
Proof. intros H. unfold uri_adjust. replace (pl np <? _) with true by lia. reflexivity. Qed.

(* one component under relocation *)
Definition moved (start offs : N) (f f' : pf) : Prop :=
  pl f' = pl f /\ (if po f =? 0 then po f' = 0 else po f' = to16 (po f + 65536 - start + offs)).

(* an accepted relocation keeps type, port number and every length, puts the
   scheme at the new offset and moves every present component by the same amount *)
Theorem adjust_ok_moves u np u' : uri_adjust u np = (true, u') ->
  u_type u' = u_type u /\ u_portno u' = u_portno u /\
  u_scheme u' = mkpf (po np) (pl (u_scheme u)) /\
  Forall2 (moved (po (u_scheme u)) (po np)) (uri_fields u) (uri_fields u').
Proof.
  unfold uri_adjust. cbv zeta. destruct (pl np <? _); [discriminate|].
  destruct (po (u_user u) =? 0) eqn:E1, (po (u_pass u) =? 0) eqn:E2, (po (u_host u) =? 0) eqn:E3,
           (po (u_port u) =? 0) eqn:E4, (po (u_params u) =? 0) eqn:E5, (po (u_headers u) =? 0) eqn:E6;
    cbv beta iota;
    (match goal with |- context [if ?c then (false, u) else _] => destruct c end; [discriminate|]);
    intros H; injection H as <-; cbn;
    (split; [reflexivity|]); (split; [reflexivity|]); (split; [reflexivity|]);
    unfold uri_fields; cbn; repeat constructor; unfold moved; cbn;
    rewrite ?E1, ?E2, ?E3, ?E4, ?E5, ?E6; auto using N.eqb_eq;
    try (split; [reflexivity|]; apply N.eqb_eq; assumption); try (apply N.eqb_eq; assumption).
Qed.

(* an accepted relocation holds every present component inside the new span: the bound is the
   maximum over the components, whatever their order in the text (tel: URIs with '@' put an empty
   password before the user) *)
Theorem adjust_ok_fits u np u' : uri_adjust u np = (true, u') ->
  Forall (fun f => po f <> 0 -> to16 (po f + 65536 - po (u_scheme u)) + pl f <= pl np) (uri_fields u).
Proof.
  unfold uri_adjust. cbv zeta. destruct (pl np <? _); [discriminate|].
  destruct (po (u_user u) =? 0) eqn:E1, (po (u_pass u) =? 0) eqn:E2, (po (u_host u) =? 0) eqn:E3,
           (po (u_port u) =? 0) eqn:E4, (po (u_params u) =? 0) eqn:E5, (po (u_headers u) =? 0) eqn:E6;
    cbv beta iota;
    (match goal with |- context [if ?c then (false, u) else _] => destruct c eqn:Ec end; [discriminate|]);
    intros _; unfold uri_fields; repeat constructor; intros Hnz; try lia.
Qed.
(* hence a span too short for any one present component is refused, structure untouched *)
Theorem adjust_too_short_refused u np f : In f (uri_fields u) -> po f <> 0 ->
  pl np < to16 (po f + 65536 - po (u_scheme u)) + pl f -> uri_adjust u np = (false, u).
Proof.
  intros Hin Hnz Hlt. destruct (uri_adjust u np) as [ok u'] eqn:E. destruct ok.
  - pose proof (adjust_ok_fits u np u' E) as HF. rewrite Forall_forall in HF. specialize (HF f Hin Hnz). lia.
  - pose proof (adjust_refused_unchanged u np) as H. rewrite E in H. cbn in H. rewrite H by reflexivity. reflexivity.
Qed.

(* with everything inside the 16-bit range the move is exact: same bytes at the new place *)
Theorem adjust_exact start offs f f' :
  moved start offs f f' -> po f <> 0 -> start <= po f -> po f - start + offs <= 65535 ->
  po f' = po f - start + offs /\ pl f' = pl f.
Proof.
  intros [Hl Hm] Hnz Hs Hr. replace (po f =? 0) with false in Hm by lia. split; [|exact Hl].
  rewrite Hm. unfold to16.
  replace (po f + 65536 - start + offs) with (po f - start + offs + 1 * 65536) by lia.
  rewrite N.mod_add by lia. apply N.mod_small. lia.
Qed.

(* truncating removes exactly parameters and headers *)
Theorem truncate_exact u :
  uri_truncate u = mkpuri (u_type u) (u_scheme u) (u_user u) (u_pass u) (u_host u) (u_port u) pf0 pf0 (u_portno u).
Proof. destruct u; reflexivity. Qed.

(* the views: Long is scheme .. last non-empty component, Short stops at host/port *)
Definition last_nonempty (fs : list pf) : option pf :=
  fold_left (fun acc f => if 0 <? pl f then Some f else acc) fs None.
Theorem long_is_last_nonempty u :
  uri_long u = match last_nonempty (uri_fields u) with
               | Some f => view_to u f | None => Some pf0 end.
Proof.
  unfold uri_long, last_nonempty, uri_fields. cbn [fold_left].
  destruct (0 <? pl (u_headers u)); [reflexivity|].
  destruct (0 <? pl (u_params u)); [reflexivity|].
  destruct (0 <? pl (u_port u)); [reflexivity|].
  destruct (0 <? pl (u_host u)); [reflexivity|].
  destruct (0 <? pl (u_pass u)); [reflexivity|].
  destruct (0 <? pl (u_user u)); reflexivity.
Qed.
Theorem short_is_last_of_user_host_port u :
  uri_short u = match last_nonempty [u_user u; u_host u; u_port u] with
                | Some f => view_to u f | None => Some pf0 end.
Proof.
  unfold uri_short, last_nonempty. cbn [fold_left].
  destruct (0 <? pl (u_port u)); [reflexivity|].
  destruct (0 <? pl (u_host u)); [reflexivity|].
  destruct (0 <? pl (u_user u)); reflexivity.
Qed.
(* both views start at the scheme; Short is a prefix of Long when the components are ordered *)
Theorem short_prefix_of_long u s l :
  uri_short u = Some s -> uri_long u = Some l -> 0 < pl s ->
  (forall f g, In f [u_user u; u_host u; u_port u] -> In g (uri_fields u) -> 0 < pl f -> 0 < pl g ->
               po (u_scheme u) <= po f + pl f <= 65535 /\ po g + pl g <= 65535) ->
  (forall f, In f [u_user u; u_host u; u_port u] -> 0 < pl f ->
     forall g, In g (uri_fields u) -> 0 < pl g ->
     (exists h, last_nonempty (uri_fields u) = Some h /\ po f + pl f <= po h + pl h)) ->
  po s = po l /\ pl s <= pl l.
Proof.
  intros Hs Hl Hpos Hr Hord. rewrite short_is_last_of_user_host_port in Hs. rewrite long_is_last_nonempty in Hl.
  destruct (last_nonempty [u_user u; u_host u; u_port u]) as [f|] eqn:Ef.
  2:{ injection Hs as <-. cbn in Hpos. lia. }
  assert (Hf : In f [u_user u; u_host u; u_port u] /\ 0 < pl f).
  { unfold last_nonempty in Ef. cbn [fold_left] in Ef.
    destruct (0 <? pl (u_port u)) eqn:A; [injection Ef as <-; cbn; split; [auto|lia]|].
    destruct (0 <? pl (u_host u)) eqn:B; [injection Ef as <-; cbn; split; [auto|lia]|].
    destruct (0 <? pl (u_user u)) eqn:C; [injection Ef as <-; cbn; split; [auto|lia]|discriminate]. }
  destruct Hf as [Hin Hfp].
  assert (Hg : In f (uri_fields u)) by (unfold uri_fields; cbn in *; intuition).
  destruct (Hord f Hin Hfp f Hg Hfp) as (h & Hh & Hle). rewrite Hh in Hl.
  assert (Hhin : In h (uri_fields u) /\ 0 < pl h).
  { unfold last_nonempty, uri_fields in Hh. cbn [fold_left] in Hh.
    repeat match type of Hh with context [if 0 <? pl ?x then _ else _] =>
      let E := fresh in destruct (0 <? pl x) eqn:E; [injection Hh as <-; cbn; split; [intuition|lia]|] end.
    discriminate. }
  destruct Hhin as [Hhin Hhp].
  destruct (Hr f h Hin Hhin Hfp Hhp) as [Hb1 Hb2].
  destruct (Hr f f Hin Hg Hfp Hfp) as [_ Hb3].
  unfold view_to, pf_set16, end16, to16 in *.
  rewrite (N.mod_small (po f + pl f)) in Hs by lia. rewrite (N.mod_small (po h + pl h)) in Hl by lia.
  destruct (po f + pl f <? po (u_scheme u)) eqn:E1; [discriminate|].
  destruct (po h + pl h <? po (u_scheme u)) eqn:E2; [discriminate|].
  injection Hs as <-. injection Hl as <-. cbn. split; [reflexivity|].
  rewrite !N.mod_small by lia. lia.
Qed.
