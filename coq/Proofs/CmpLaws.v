(* C15: URI comparison obeys the laws of an equivalence check (component level) *)
From Sipsp Require Import Harness Classify.
From Coq Require Import ZifyN ZifyNat ZifyBool.

Lemma eqb_bytes_refl a : eqb_bytes a a = true.
Proof. apply eqb_bytes_eq. reflexivity. Qed.
Lemma eqb_bytes_sym a b : eqb_bytes a b = eqb_bytes b a.
Proof.
  destruct (eqb_bytes a b) eqn:E1, (eqb_bytes b a) eqn:E2; auto.
  - apply eqb_bytes_eq in E1. subst. now rewrite eqb_bytes_refl in E2.
  - apply eqb_bytes_eq in E2. subst. now rewrite eqb_bytes_refl in E1.
Qed.
Lemma eqb_nocase_refl a : eqb_nocase a a = true.
Proof. apply eqb_bytes_refl. Qed.
Lemma eqb_nocase_sym a b : eqb_nocase a b = eqb_nocase b a.
Proof. apply eqb_bytes_sym. Qed.
(* letter case never matters for the case-insensitive comparison *)
Lemma eqb_nocase_lower a b : eqb_nocase (map to_lower a) b = eqb_nocase a b.
Proof. unfold eqb_nocase. now rewrite map_lower_idem. Qed.

(* ---- URICmpShort -------------------------------------------------------------- *)
Theorem cmp_short_sym u1 b1 u2 b2 f : uri_cmp_short u1 b1 u2 b2 f = uri_cmp_short u2 b2 u1 b1 f.
Proof.
  unfold uri_cmp_short. rewrite (N.eqb_sym (u_type u1)), (N.eqb_sym (u_portno u1)).
  destruct (negb (_ || (u_type u2 =? u_type u1))); [reflexivity|].
  destruct (negb (_ || (u_portno u2 =? u_portno u1))); [reflexivity|].
  assert (G : forall (x1 x2 : option (list byte)) (eq : list byte -> list byte -> bool),
            (forall a b, eq a b = eq b a) ->
            match x1, x2 with Some x, Some y => Some (eq x y) | _, _ => None end =
            match x2, x1 with Some x, Some y => Some (eq x y) | _, _ => None end).
  { intros [x|] [y|] eq H; auto. now rewrite H. }
  rewrite (G (bget b1 (u_user u1)) (bget b2 (u_user u2)) eqb_bytes eqb_bytes_sym).
  rewrite (G (bget b1 (u_pass u1)) (bget b2 (u_pass u2)) eqb_bytes eqb_bytes_sym).
  rewrite (G (bget b1 (u_host u1)) (bget b2 (u_host u2)) eqb_nocase eqb_nocase_sym).
  reflexivity.
Qed.

Theorem cmp_short_refl u b f : bget b (u_user u) <> None -> bget b (u_pass u) <> None -> bget b (u_host u) <> None ->
  uri_cmp_short u b u b f = Some true.
Proof.
  intros H1 H2 H3. unfold uri_cmp_short. rewrite !N.eqb_refl, !orb_true_r. cbn [negb].
  destruct (bget b (u_user u)); [|congruence]. destruct (bget b (u_pass u)); [|congruence].
  destruct (bget b (u_host u)); [|congruence].
  rewrite !eqb_bytes_refl, eqb_nocase_refl. destruct (testbit f _), (testbit f _); reflexivity.
Qed.

(* ignoring more components can only turn 'different' into 'equal' *)
Definition flags_le (f f' : N) : Prop := forall bit, testbit f bit = true -> testbit f' bit = true.
Theorem cmp_short_monotone u1 b1 u2 b2 f f' : flags_le f f' ->
  uri_cmp_short u1 b1 u2 b2 f = Some true -> uri_cmp_short u1 b1 u2 b2 f' = Some true.
Proof.
  intros Hle. unfold uri_cmp_short.
  pose proof (Hle bURICmpSkipScheme) as Hs. pose proof (Hle bURICmpSkipPort) as Hp.
  pose proof (Hle bURICmpSkipUser) as Hu. pose proof (Hle bURICmpSkipPass) as Hw.
  destruct (testbit f bURICmpSkipScheme), (testbit f' bURICmpSkipScheme); try (specialize (Hs eq_refl); discriminate);
  destruct (testbit f bURICmpSkipPort), (testbit f' bURICmpSkipPort); try (specialize (Hp eq_refl); discriminate);
  destruct (testbit f bURICmpSkipUser), (testbit f' bURICmpSkipUser); try (specialize (Hu eq_refl); discriminate);
  destruct (testbit f bURICmpSkipPass), (testbit f' bURICmpSkipPass); try (specialize (Hw eq_refl); discriminate);
  cbn [orb negb];
  destruct (u_type u1 =? u_type u2), (u_portno u1 =? u_portno u2); cbn [negb]; try discriminate; auto;
  destruct (bget b1 (u_user u1)), (bget b2 (u_user u2)); try discriminate; auto;
  try (destruct (eqb_bytes _ _); try discriminate; auto);
  destruct (bget b1 (u_pass u1)), (bget b2 (u_pass u2)); try discriminate; auto;
  try (destruct (eqb_bytes _ _); try discriminate; auto).
Qed.

(* user and password compare case-sensitively, the host does not *)
Theorem cmp_short_user_case_sensitive u1 b1 u2 b2 f x y :
  testbit f bURICmpSkipUser = false -> bget b1 (u_user u1) = Some x -> bget b2 (u_user u2) = Some y -> x <> y ->
  uri_cmp_short u1 b1 u2 b2 f <> Some true.
Proof.
  intros Hf Hx Hy Hne. unfold uri_cmp_short. rewrite Hf, Hx, Hy.
  destruct (negb _); [discriminate|]. destruct (negb _); [discriminate|].
  destruct (eqb_bytes x y) eqn:E; [apply eqb_bytes_eq in E; congruence|discriminate].
Qed.

(* ---- the parse-and-compare entry point ------------------------------------------------- *)
Theorem parse_cmp_agrees raw1 raw2 f r e w r1 r2 :
  uri_parse_cmp raw1 raw2 f = Some (r, e, w, r1, r2) -> e = NoURIErr ->
  exists o1 o2 u1 u2, parse_uri raw1 puri0 = Some (NoURIErr, o1, u1) /\ parse_uri raw2 puri0 = Some (NoURIErr, o2, u2) /\
    r1 = Some u1 /\ r2 = Some u2 /\ uri_cmp u1 raw1 u2 raw2 f = Some r.
Proof.
  unfold uri_parse_cmp.
  destruct (parse_uri raw1 puri0) as [[[e1 o1] u1]|]; [|discriminate].
  destruct (negb (e1 =? NoURIErr)) eqn:E1.
  { intros H He. injection H as <- <- <- <- <-. apply negb_true_iff, N.eqb_neq in E1. congruence. }
  destruct (parse_uri raw2 puri0) as [[[e2 o2] u2]|]; [|discriminate].
  destruct (negb (e2 =? NoURIErr)) eqn:E2.
  { intros H He. injection H as <- <- <- <- <-. apply negb_true_iff, N.eqb_neq in E2. congruence. }
  destruct (uri_cmp u1 raw1 u2 raw2 f) as [rr|] eqn:Ec; [|discriminate].
  intros H _. injection H as <- <- <- <- <-.
  apply negb_false_iff, N.eqb_eq in E1. apply negb_false_iff, N.eqb_eq in E2. subst.
  exists o1, o2, u1, u2. auto.
Qed.

(* ---- header lists: same count, every header matched ------------------------------------ *)
Definition names_nodup (e : list (list byte * list byte)) : Prop :=
  NoDup (map (fun x => map to_lower (fst x)) e).

Lemma uh_find_self n v e : In (n, v) e -> names_nodup e -> uh_find n v e = true.
Proof.
  induction e as [|[n0 v0] e IH]; cbn; [tauto|]. intros [H|H] Hnd.
  - injection H as -> ->. rewrite eqb_nocase_refl. apply eqb_nocase_refl.
  - unfold names_nodup in Hnd. cbn in Hnd. inversion Hnd as [|x l Hnot Hnd']. subst.
    destruct (eqb_nocase n n0) eqn:E.
    + exfalso. apply Hnot. apply nocase_eq in E. rewrite <- E.
      apply (in_map (fun x => map to_lower (fst x)) e (n, v) H).
    + apply IH; assumption.
Qed.
Theorem uhdrs_eq_refl e : names_nodup e -> uhdrs_entries_eq e e = true.
Proof.
  intros Hnd. unfold uhdrs_entries_eq. rewrite Nat.eqb_refl. cbn [andb].
  apply forallb_forall. intros [n v] Hin. now apply uh_find_self.
Qed.
