(* C05: the CSeq number and the method lie inside the CSeq value, the number first - for every input and every chunk
   schedule: an invariant of the suspended states (CsInv) that every call preserves and that gives the nesting when ok. *)
From Sipsp Require Import Harness RunLemmas Safe.
From Coq Require Import ZifyN ZifyNat ZifyBool.
From RecordUpdate Require Import RecordUpdate.

Lemma pf_set_inv a b f : pf_set a b = Some f -> f = mkpf a (b - a) /\ a <= b.
Proof. unfold pf_set. destruct (b <? a) eqn:E; [discriminate|]. intros H. injection H as <-. split; [reflexivity|lia]. Qed.
Lemma pf_extend_inv f e f' : pf_extend f e = Some f' -> f' = mkpf (po f) (e - po f) /\ po f <= e.
Proof. unfold pf_extend. destruct (e <? po f) eqn:E; [discriminate|]. intros H. injection H as <-. split; [reflexivity|lia]. Qed.

(* the value starts with the number, the method comes after the number and ends the value *)
Definition cs_nest (s : cseq) : Prop :=
  po (cs_v s) = po (cs_cseq s) /\ pf_end (cs_cseq s) <= po (cs_method s) /\ pf_end (cs_method s) = pf_end (cs_v s).
Definition CsInv (i : N) (s : cseq) : Prop :=
  match cs_state s with
  | CsInit => True
  | CsFoundDigit => cs_soffs s <= i
  | CsEndDigit => cs_v s = cs_cseq s /\ pf_end (cs_cseq s) <= i
  | CsFoundMethod => cs_v s = cs_cseq s /\ pf_end (cs_cseq s) <= cs_soffs s /\ cs_soffs s <= i
  | CsEnd | CsFIN => cs_nest s
  end.
Lemma CsInv_mono i j s : i <= j -> CsInv i s -> CsInv j s.
Proof. unfold CsInv. intros H. destruct (cs_state s); intuition lia. Qed.

Definition cs_res (i : N) (r : ires cseq) : Prop :=
  match r with
  | Next k s' => CsInv (i + nnat k) s'
  | Ret o e s' => (e = EMore -> i <= o /\ CsInv o s') /\ (e = EOk -> cs_nest s')
  | IPanic => True
  end.

Lemma cs_iter_nest pre rest i s : CsInv i s -> cs_res i (cs_iter pre rest i s).
Proof.
  intros H1. unfold cs_iter, cs_lws, cs_endOfHdr, cs_finish. destruct s as [no mno cq mt vv st so]. unfold CsInv, cs_res, cs_nest, pf_end in *. cbn in *.
  destruct st; cbn -[skipLWS pf_set pf_extend acc32 zget].
  all: destruct rest as [|c r]; cbn -[skipLWS pf_set pf_extend acc32 zget].
  all: try destruct (is_ws c); cbn -[skipLWS pf_set pf_extend acc32 zget].
  all: try destruct (is_digit c); cbn -[skipLWS pf_set pf_extend acc32 zget].
  all: try match goal with |- context [acc32 ?a ?b] => destruct (acc32 a b) end; cbn -[skipLWS pf_set pf_extend acc32 zget].
  all: repeat match goal with
              | |- context [pf_set ?a ?b] => destruct (pf_set a b) eqn:?
              | |- context [pf_extend ?a ?b] => destruct (pf_extend a b) eqn:?
              end; cbn -[skipLWS pf_set pf_extend zget].
  all: try destruct (skipLWS false (c :: r)); cbn -[skipLWS pf_set pf_extend zget].
  all: repeat match goal with
              | |- context [pf_set ?a ?b] => destruct (pf_set a b) eqn:?
              | |- context [pf_extend ?a ?b] => destruct (pf_extend a b) eqn:?
              end; cbn -[skipLWS pf_set pf_extend zget].
  all: repeat match goal with |- context [if ?b then _ else _] => destruct b end; cbn -[zget].
  all: repeat match goal with |- context [zget ?a ?b ?c ?d] => destruct (zget a b c d) end; cbn.
  all: repeat match goal with
              | H : pf_set _ _ = Some _ |- _ => apply pf_set_inv in H; destruct H as [-> ?]
              | H : pf_extend _ _ = Some _ |- _ => apply pf_extend_inv in H; destruct H as [-> ?]
              end; cbn in *.
  all: try exact I.
  all: repeat match goal with H : _ /\ _ |- _ => destruct H end; subst; cbn in *.
  all: repeat split; try discriminate; try (intros; discriminate); unfold nnat; intros; try lia.
  all: unfold pf_end, set in *; cbn in *; unfold nnat in *; try lia.
Qed.

(* one call: a suspended state satisfies the invariant again at the returned offset; ok gives the nesting *)
Theorem cs_call_nest buf i s o e s' : CsInv i s -> parse_cseq buf i s = Done o e s' ->
  (e = EMore -> CsInv o s') /\ (e = EOk -> cs_nest s').
Proof.
  intros Hs H. unfold parse_cseq, parse, zinit in H.
  pose proof (run_inv cs_iter (fun _ j t => CsInv j t) (fun o0 e0 t => (e0 = EMore -> CsInv o0 t) /\ (e0 = EOk -> cs_nest t))) as R.
  assert (Hstep : forall pre rest j t, CsInv j t ->
            match cs_iter pre rest j t with
            | Next k t' => (0 < k)%nat -> (k <= length rest)%nat -> CsInv (j + nnat k) t'
            | Ret o0 e0 t' => (e0 = EMore -> CsInv o0 t') /\ (e0 = EOk -> cs_nest t')
            | IPanic => True
            end).
  { intros p r j t P1. pose proof (cs_iter_nest p r j t P1) as X. destruct (cs_iter p r j t) as [k t'|o0 e0 t'|]; cbn [cs_res] in X; [intros _ _; exact X|tauto|exact I]. }
  specialize (R Hstep (skipn (N.to_nat i) buf) (rev (firstn (N.to_nat i) buf)) i s Hs).
  rewrite H in R. exact R.
Qed.
Lemma CsInv_fresh i : CsInv i cseq0. Proof. exact I. Qed.

(* every schedule: calls chained on growing buffers, each resumed where the previous one stopped *)
Inductive cs_fed : N -> cseq -> Prop :=
| cs_fed0 i : cs_fed i cseq0
| cs_fed1 i s buf o s' : cs_fed i s -> parse_cseq buf i s = Done o EMore s' -> cs_fed o s'.
Lemma cs_fed_inv i s : cs_fed i s -> CsInv i s.
Proof. induction 1 as [i|i s buf o s' _ IH H]; [exact I|]. exact (proj1 (cs_call_nest buf i s o EMore s' IH H) eq_refl). Qed.
Theorem cseq_fields_nest i s buf o s' : cs_fed i s -> parse_cseq buf i s = Done o EOk s' -> cs_nest s'.
Proof. intros Hf H. exact (proj2 (cs_call_nest buf i s o EOk s' (cs_fed_inv i s Hf) H) eq_refl). Qed.
