(* C04 for the URI parameter and URI header lists: no panic, no stuck loop (the zero-advance re-iteration
   always makes progress the second time, because the next slot is fresh), offsets in range, every
   stored field inside the buffer.  Invariant: the array is "well formed" (slots beyond the count are
   untouched - true after Init / Reset and kept by every call) and every field ends at or before the
   current position. *)
From Sipsp Require Import Driver Harness RunLemmas Safe SafeLeaf SafeMore ExtLists Capacity CapURI ShiftTok.
From Coq Require Import ZifyN ZifyNat ZifyBool.
From RecordUpdate Require Import RecordUpdate.

Lemma tp_run_safe flags pre rest i s : i = nnat (length pre) -> tp_inv i s ->
  match run (tp_iter flags) pre rest i 0 s with
  | Done o e s' => o <= i + nnat (length rest) /\ tp_inv (i + nnat (length rest)) s' /\ (e = EMore -> i <= o /\ tp_inv o s')
  | _ => False
  end.
Proof.
  intros Hi Hinv.
  pose proof (run_safe (tp_iter flags) (fun p r j s => tp_P p r j s /\ i <= j) (fun p r j o e s => tp_Q p r j o e s /\ i <= j)) as H.
  assert (G : forall p r j s0, tp_P p r j s0 /\ i <= j ->
            match tp_iter flags p r j s0 with
            | Next k s' => (0 < k <= length r)%nat /\ (tp_P (zpre k p r) (zrest k r) (j + nnat k) s' /\ i <= j + nnat k)
            | Ret o e s' => tp_Q p r j o e s' /\ i <= j
            | IPanic => False end).
  { intros p r j s0 [HP Ho]. pose proof (tp_step_ok flags p r j s0 HP) as X. unfold tp_step_res in X.
    destruct (tp_iter flags p r j s0); auto. destruct X as [X1 X2]. split; [exact X1|]. split; [exact X2|unfold nnat; lia]. }
  specialize (H G rest pre i s (conj (conj Hi Hinv) (N.le_refl i))).
  destruct (run (tp_iter flags) pre rest i 0 s) as [o e s'| |]; auto.
  destruct H as (p' & r' & i' & ((Hi' & H1 & H2 & H3) & Hio) & Hw).
  apply (f_equal (@length _)) in Hw. rewrite !app_length, !rev_length in Hw.
  assert (E : i' + nnat (length r') = i + nnat (length rest)) by (unfold nnat in *; lia).
  rewrite E in *. split; [exact H1|]. split; [exact H2|]. intros He. destruct (H3 He). split; [lia|assumption].
Qed.

(* "more values" is answered at or after the start *)
Lemma tp_mv_ge flags rest pre i s next s' : run (tp_iter flags) pre rest i 0 s = Done next EMoreValues s' -> i <= next.
Proof.
  intros Hr.
  pose proof (run_inv (tp_iter flags) (fun _ j _ => i <= j) (fun o e _ => e = EMoreValues -> i <= o)) as H.
  specialize (H ltac:(intros p r j t P1; cbv beta in P1 |- *; pose proof (tp_iter_mv flags p r j t) as X;
                      destruct (tp_iter flags p r j t) as [k t'|o e t'|]; auto;
                      [intros _ _; unfold nnat; lia|intros ->; destruct X as [-> _]; exact P1])
                rest pre i s (N.le_refl i)).
  rewrite Hr in H. apply H. reflexivity.
Qed.

Lemma tp_iter_mv_inv flags p r j t : tp_inv j t ->
  match tp_iter flags p r j t with Ret o EMoreValues t' => tp_inv o t' | _ => True end.
Proof.
  intros Hinv. pose proof (tp_iter_mv flags p r j t) as Z.
  destruct (tp_iter flags p r j t) as [|o e t'|] eqn:E; auto. destruct e; auto. destruct Z as [-> Hs].
  unfold tp_iter in E. cbv zeta in E. rewrite Hs in E.
  destruct r as [|c r1].
  { pose proof (tp_mb_nomv (tp_decode flags) j j t) as X. rewrite E in X. destruct X. }
  unfold tp_step, tp_sInit, tp_bad, is_tp_fnxt in E.
  destruct (is_ws c). { pose proof (tp_ws_nomv (tp_decode flags) (c :: r1) j t (Some t)) as X. rewrite E in X. destruct X. }
  destruct (c =? tf_sep (tp_decode flags)); [discriminate E|].
  destruct (negb (tok_allowed (tf_uriparam (tp_decode flags)) c)); [discriminate E|].
  injection E as <-. destruct t; exact Hinv.
Qed.
Lemma tp_mv_inv flags rest pre i s next s' : i = nnat (length pre) -> tp_inv i s ->
  run (tp_iter flags) pre rest i 0 s = Done next EMoreValues s' -> tp_inv next s'.
Proof.
  intros Hi Hinv Hr.
  pose proof (run_inv (tp_iter flags) (fun p j t => j = nnat (length p) /\ tp_inv j t) (fun o e t => e = EMoreValues -> tp_inv o t)) as X.
  specialize (X ltac:(intros p r j t [P1 P2]; pose proof (tp_step_ok flags p r j t (conj P1 P2)) as Y; pose proof (tp_iter_mv_inv flags p r j t P2) as Z;
                      unfold tp_step_res in Y; destruct (tp_iter flags p r j t) as [k t'|o e t'|]; auto;
                      [intros _ _; destruct Y as [_ Y]; exact Y|intros ->; exact Z])
                rest pre i s (conj Hi Hinv)).
  rewrite Hr in X. apply X. reflexivity.
Qed.

(* ---- URI parameters ----------------------------------------------------------------------------------------------------------------------------------- *)
Definition ul_bnd (o : N) (l : uparams) : Prop :=
  Forall (fun p => tp_inv o (up_param p)) (ul_params l) /\ tp_inv o (up_param (ul_tmp l)).
Definition ul_inv (o : N) (l : uparams) : Prop := ul_bnd o l /\ ul_wf l.

Lemma tp_inv0 o : tp_inv o tokparam0. Proof. unfold tp_inv, pf_end. cbn. lia. Qed.
Lemma ul_bnd_mono o o' l : o <= o' -> ul_bnd o l -> ul_bnd o' l.
Proof.
  intros H [H1 H2]. split; [|apply (tp_inv_mono o); assumption]. eapply Forall_impl; [|exact H1]. intros p Hp. apply (tp_inv_mono o); assumption.
Qed.
Lemma ul_bnd_slot o l : ul_bnd o l -> tp_inv o (up_param (ul_slot l)).
Proof.
  intros [H1 H2]. unfold ul_slot. destruct (ul_is_tmp l); [exact H2|].
  destruct (nth_in_or_default (N.to_nat (ul_n l)) (ul_params l) uriparam0) as [Hin|Hd]; [rewrite Forall_forall in H1; exact (H1 _ Hin)|rewrite Hd; apply tp_inv0].
Qed.
Lemma Forall_set_nth {A} (P : A -> Prop) : forall l n x, Forall P l -> P x -> Forall P (set_nth n x l).
Proof. intros l n x H Hx. revert n. induction H as [|y l Hy Hl IH]; intros [|n]; cbn; constructor; auto. Qed.
Lemma ul_bnd_store o l p : ul_bnd o l -> tp_inv o (up_param p) -> ul_bnd o (ul_store l p).
Proof.
  intros [H1 H2] Hp. destruct (ul_store_proj l p) as (_ & _ & _ & S4 & S5). unfold ul_bnd. rewrite S4, S5.
  destruct (ul_is_tmp l); split; auto. apply Forall_set_nth; assumption.
Qed.

Definition ul_res (pre rest : list byte) (i : N) (r : ires uparams) : Prop :=
  match r with
  | Next k l' => (k <= length rest)%nat /\ ul_inv (i + nnat k) l' /\ ul_slot l' = uriparam0
  | Ret o e l' => o <= i + nnat (length rest) /\ ul_bnd (i + nnat (length rest)) l' /\ (e = EMore -> i <= o /\ ul_inv o l')
  | IPanic => False
  end.

Lemma ul_iter1_ok flags pre rest i l : i = nnat (length pre) -> ul_inv i l -> ul_res pre rest i (ul_iter1 flags pre rest i l).
Proof.
  intros Hi [Hb Hwf]. unfold ul_iter1. cbv zeta.
  pose proof (tp_run_safe (N.lor flags (2 ^ bPOptParamSemiSep)) pre rest i (up_param (ul_slot l)) Hi (ul_bnd_slot i l Hb)) as H.
  destruct (run (tp_iter _) pre rest i 0 (up_param (ul_slot l))) as [next e tp| |] eqn:Er; try contradiction.
  destruct H as (H1 & H2 & H3).
  assert (HbL : ul_bnd (i + nnat (length rest)) l) by (apply (ul_bnd_mono i); [unfold nnat; lia|exact Hb]).
  assert (Hfin : forall t (o : N), i <= o -> o <= i + nnat (length rest) -> tp_inv o tp ->
     let l1 := ul_store l (mkuriparam tp t) in let l2 := l1 <| ul_types := N.lor (ul_types l1) t |> <| ul_vno := ul_vno l1 + 1 |> in
     let l3 := if ul_is_tmp l then l2 <| ul_tmp := uriparam0 |> else l2 in let l4 := l3 <| ul_n := ul_n l3 + 1 |> in
     ul_inv o l4 /\ ul_slot l4 = uriparam0).
  { intros t o Ho1 Ho2 Htp. cbv zeta.
    destruct (ul_store_proj l (mkuriparam tp t)) as (S1 & S2 & S3 & S4 & S5).
    pose proof (ul_bnd_store o l (mkuriparam tp t) (ul_bnd_mono i o l Ho1 Hb) Htp) as [B1 B2].
    set (l4 := (if ul_is_tmp l then _ else _) <| ul_n := _ |>).
    assert (X1 : ul_n l4 = ul_n l + 1) by (subst l4; destruct (ul_is_tmp l); destruct (ul_store l (mkuriparam tp t)); cbn in *; subst; reflexivity).
    assert (X2 : ul_params l4 = (if ul_is_tmp l then ul_params l else set_nth (N.to_nat (ul_n l)) (mkuriparam tp t) (ul_params l)))
      by (subst l4; destruct (ul_is_tmp l); destruct (ul_store l (mkuriparam tp t)); cbn in *; subst; reflexivity).
    assert (X3 : ul_tmp l4 = (if ul_is_tmp l then uriparam0 else ul_tmp l))
      by (subst l4; destruct (ul_is_tmp l) eqn:E; destruct (ul_store l (mkuriparam tp t)); cbn in *; subst; reflexivity).
    split; [split; [|exact (unext_wf l l4 _ Hwf X1 X2 X3)]|exact (unext_slot l l4 _ Hwf X1 X2 X3)].
    unfold ul_bnd. rewrite X2, X3, <- S4. split; [exact B1|]. destruct (ul_is_tmp l); [apply tp_inv0|rewrite S5 in B2; exact B2]. }
  assert (Hname : pf_end (tp_name tp) <= i + nnat (length rest)) by apply H2.
  assert (Herr : forall e', e' <> EMore -> ul_res pre rest i (Ret next e' (ul_store l uriparam0))).
  { intros e' He'. unfold ul_res. split; [exact H1|]. split; [apply ul_bnd_store; [exact HbL|apply tp_inv0]|intros E; congruence]. }
  destruct e; try (apply Herr; discriminate).
  - (* EOk *)
    destruct (zget_some pre rest i (tp_name tp) Hname) as [name ->].
    unfold ul_res. split; [exact H1|]. split; [|intros E; discriminate].
    destruct (Hfin (uri_param_resolve name) (i + nnat (length rest)) ltac:(unfold nnat; lia) ltac:(lia) H2) as [[Hb4 _] _]. exact Hb4.
  - (* EEOH *)
    destruct (zget_some pre rest i (tp_name tp) Hname) as [name ->].
    unfold ul_res. split; [exact H1|]. split; [|intros E; discriminate].
    destruct (Hfin (uri_param_resolve name) (i + nnat (length rest)) ltac:(unfold nnat; lia) ltac:(lia) H2) as [[Hb4 _] _]. exact Hb4.
  - (* EMore *)
    destruct (H3 eq_refl) as [Hio Htp]. unfold ul_res. split; [exact H1|].
    split; [apply ul_bnd_store; [exact HbL|destruct (ul_slot l); exact H2]|]. intros _. split; [exact Hio|].
    split; [apply ul_bnd_store; [apply (ul_bnd_mono i); assumption|destruct (ul_slot l); exact Htp]|apply ul_wf_store; exact Hwf].
  - (* EMoreValues *)
    destruct (zget_some pre rest i (tp_name tp) Hname) as [name ->].
    pose proof (tp_mv_ge _ _ _ _ _ _ _ Er) as Hge.
    (* the value that ended lies before next: fields end at or before next *)
    pose proof (tp_mv_inv _ _ _ _ _ _ _ Hi (ul_bnd_slot i l Hb) Er) as Htpn.
    unfold ul_res. replace (i + nnat (N.to_nat (next - i))) with next by (unfold nnat; lia).
    split; [unfold nnat in *; lia|]. apply (Hfin (uri_param_resolve name) next Hge H1 Htpn).
Qed.

Lemma ul_iter1_progress flags pre rest i l : tp_state (up_param (ul_slot l)) = PInit ->
  match ul_iter1 flags pre rest i l with Next k _ => (0 < k)%nat | _ => True end.
Proof.
  intros Hs. unfold ul_iter1. cbv zeta.
  destruct (run (tp_iter _) pre rest i 0 (up_param (ul_slot l))) as [next e tp| |] eqn:Er; try exact I.
  destruct e; try exact I; destruct (zget pre rest i (tp_name tp)); try exact I.
  pose proof (tp_mv_strict _ _ _ _ _ _ _ Hs Er). lia.
Qed.

Definition ul_P (pre rest : list byte) (i : N) (l : uparams) : Prop := i = nnat (length pre) /\ ul_inv i l.
Definition ul_Q (pre rest : list byte) (i o : N) (e : err) (l : uparams) : Prop :=
  i = nnat (length pre) /\ o <= i + nnat (length rest) /\ ul_bnd (i + nnat (length rest)) l /\ (e = EMore -> i <= o /\ ul_inv o l).

Lemma ul_step_ok flags pre rest i l : ul_P pre rest i l ->
  match ul_iter flags pre rest i l with
  | Next k l' => (0 < k <= length rest)%nat /\ ul_P (zpre k pre rest) (zrest k rest) (i + nnat k) l'
  | Ret o e l' => ul_Q pre rest i o e l'
  | IPanic => False
  end.
Proof.
  intros [Hi Hinv]. unfold ul_iter. pose proof (ul_iter1_ok flags pre rest i l Hi Hinv) as H. unfold ul_res in H.
  destruct (ul_iter1 flags pre rest i l) as [k l1|o e l1|]; [|unfold ul_Q; tauto|exact H].
  destruct H as (Hk & Hinv1 & Hslot). destruct k as [|k].
  - replace (i + nnat 0) with i in Hinv1 by (unfold nnat; lia).
    pose proof (ul_iter1_ok flags pre rest i l1 Hi Hinv1) as H2. unfold ul_res in H2.
    pose proof (ul_iter1_progress flags pre rest i l1 ltac:(rewrite Hslot; reflexivity)) as Hp.
    destruct (ul_iter1 flags pre rest i l1) as [k2 l2|o2 e2 l2|]; [|unfold ul_Q; tauto|exact H2].
    destruct H2 as (Hk2 & Hinv2 & _). split; [lia|]. split; [unfold nnat in *; rewrite zpre_length by lia; lia|exact Hinv2].
  - split; [lia|]. split; [unfold nnat in *; rewrite zpre_length by lia; lia|exact Hinv1].
Qed.

(* ParseAllURIParams: every buffer, start offset, flag set, capacity *)
Theorem uparams_safe flags buf offs l : offs <= nnat (length buf) -> ul_inv offs l ->
  match parse_all_uri_params flags buf offs l with
  | Done o e l' => o <= nnat (length buf) /\ ul_bnd (nnat (length buf)) l' /\ (e = EMore -> offs <= o /\ ul_inv o l')
  | _ => False
  end.
Proof.
  intros Hoffs Hinv. unfold parse_all_uri_params, parse, zinit.
  pose proof (run_safe (ul_iter flags) (fun p r j s => ul_P p r j s /\ offs <= j) (fun p r j o e s => ul_Q p r j o e s /\ offs <= j)) as H.
  assert (G : forall p r j s0, ul_P p r j s0 /\ offs <= j ->
            match ul_iter flags p r j s0 with
            | Next k s' => (0 < k <= length r)%nat /\ (ul_P (zpre k p r) (zrest k r) (j + nnat k) s' /\ offs <= j + nnat k)
            | Ret o e s' => ul_Q p r j o e s' /\ offs <= j
            | IPanic => False end).
  { intros p r j s0 [HP Ho]. pose proof (ul_step_ok flags p r j s0 HP) as X.
    destruct (ul_iter flags p r j s0); auto. destruct X as [X1 X2]. split; [exact X1|]. split; [exact X2|unfold nnat; lia]. }
  specialize (H G (skipn (N.to_nat offs) buf) (rev (firstn (N.to_nat offs) buf)) offs (l <| ul_vno := 0 |>)).
  assert (H0 : ul_P (rev (firstn (N.to_nat offs) buf)) (skipn (N.to_nat offs) buf) offs (l <| ul_vno := 0 |>) /\ offs <= offs).
  { split; [|lia]. split; [rewrite rev_length, firstn_length; unfold nnat in *; lia|]. destruct l; exact Hinv. }
  specialize (H H0).
  destruct (run (ul_iter flags) _ _ offs 0 _) as [o e l'| |]; auto.
  destruct H as (p' & r' & i' & ((Hi' & H1 & H2 & H3) & Hio) & Hw).
  rewrite zinit_whole in Hw. apply (f_equal (@length _)) in Hw. rewrite app_length, rev_length in Hw.
  assert (E : i' + nnat (length r') = nnat (length buf)) by (unfold nnat in *; lia).
  rewrite E in *. split; [exact H1|]. split; [exact H2|]. intros He. destruct (H3 He). split; [lia|assumption].
Qed.
Lemma ul_inv_init n o : ul_inv o (uparams_init (repeat uriparam0 n)).
Proof.
  split.
  - unfold ul_bnd, uparams_init. cbn. split; [apply Forall_forall; intros p Hp; apply repeat_spec in Hp; subst; apply tp_inv0|apply tp_inv0].
  - unfold ul_wf, uparams_init. cbn. split; [intros j _; apply nth_repeat|reflexivity].
Qed.

(* ---- URI headers ----------------------------------------------------------------------------------------------------------------------------------- *)
Definition uh_bnd (o : N) (l : uhdrs) : Prop :=
  Forall (fun p => tp_inv o p) (uh_hdrs l) /\ tp_inv o (uh_tmp l).
Definition uh_inv (o : N) (l : uhdrs) : Prop := uh_bnd o l /\ uh_wf l.

Lemma uh_bnd_mono o o' l : o <= o' -> uh_bnd o l -> uh_bnd o' l.
Proof.
  intros H [H1 H2]. split; [|apply (tp_inv_mono o); assumption]. eapply Forall_impl; [|exact H1]. intros p Hp. apply (tp_inv_mono o); assumption.
Qed.
Lemma uh_bnd_slot o l : uh_bnd o l -> tp_inv o (uh_slot l).
Proof.
  intros [H1 H2]. unfold uh_slot. destruct (uh_is_tmp l); [exact H2|].
  destruct (nth_in_or_default (N.to_nat (uh_n l)) (uh_hdrs l) tokparam0) as [Hin|Hd]; [rewrite Forall_forall in H1; exact (H1 _ Hin)|rewrite Hd; apply tp_inv0].
Qed.
Lemma uh_bnd_store o l p : uh_bnd o l -> tp_inv o p -> uh_bnd o (uh_store l p).
Proof.
  intros [H1 H2] Hp. destruct (uh_store_proj l p) as (_ & _ & S4 & S5). unfold uh_bnd. rewrite S4, S5.
  destruct (uh_is_tmp l); split; auto. apply Forall_set_nth; assumption.
Qed.

Definition uh_res (pre rest : list byte) (i : N) (r : ires uhdrs) : Prop :=
  match r with
  | Next k l' => (k <= length rest)%nat /\ uh_inv (i + nnat k) l' /\ uh_slot l' = tokparam0
  | Ret o e l' => o <= i + nnat (length rest) /\ uh_bnd (i + nnat (length rest)) l' /\ (e = EMore -> i <= o /\ uh_inv o l')
  | IPanic => False
  end.

Lemma uh_iter1_ok flags pre rest i l : i = nnat (length pre) -> uh_inv i l -> uh_res pre rest i (uh_iter1 flags pre rest i l).
Proof.
  intros Hi [Hb Hwf]. unfold uh_iter1. cbv zeta.
  pose proof (tp_run_safe (N.lor flags (N.lor (2 ^ bPOptParamAmpSep) (2 ^ bPOptTokURIHdr))) pre rest i (uh_slot l) Hi (uh_bnd_slot i l Hb)) as H.
  destruct (run (tp_iter _) pre rest i 0 (uh_slot l)) as [next e tp| |] eqn:Er; try contradiction.
  destruct H as (H1 & H2 & H3).
  assert (HbL : uh_bnd (i + nnat (length rest)) l) by (apply (uh_bnd_mono i); [unfold nnat; lia|exact Hb]).
  assert (Hfin : forall (o : N), i <= o -> o <= i + nnat (length rest) -> tp_inv o tp ->
     let l1 := uh_store l tp in let l2 := l1 <| uh_vno := uh_vno l1 + 1 |> in
     let l3 := if uh_is_tmp l then l2 <| uh_tmp := tokparam0 |> else l2 in let l4 := l3 <| uh_n := uh_n l3 + 1 |> in
     uh_inv o l4 /\ uh_slot l4 = tokparam0).
  { intros o Ho1 Ho2 Htp. cbv zeta.
    destruct (uh_store_proj l tp) as (S1 & S3 & S4 & S5).
    pose proof (uh_bnd_store o l tp (uh_bnd_mono i o l Ho1 Hb) Htp) as [B1 B2].
    set (l4 := (if uh_is_tmp l then _ else _) <| uh_n := _ |>).
    assert (X1 : uh_n l4 = uh_n l + 1) by (subst l4; destruct (uh_is_tmp l); destruct (uh_store l tp); cbn in *; subst; reflexivity).
    assert (X2 : uh_hdrs l4 = (if uh_is_tmp l then uh_hdrs l else set_nth (N.to_nat (uh_n l)) tp (uh_hdrs l)))
      by (subst l4; destruct (uh_is_tmp l); destruct (uh_store l tp); cbn in *; subst; reflexivity).
    assert (X3 : uh_tmp l4 = (if uh_is_tmp l then tokparam0 else uh_tmp l))
      by (subst l4; destruct (uh_is_tmp l) eqn:E; destruct (uh_store l tp); cbn in *; subst; reflexivity).
    split; [split; [|exact (hhnext_wf l l4 _ Hwf X1 X2 X3)]|exact (hhnext_slot l l4 _ Hwf X1 X2 X3)].
    unfold uh_bnd. rewrite X2, X3, <- S4. split; [exact B1|]. destruct (uh_is_tmp l); [apply tp_inv0|rewrite S5 in B2; exact B2]. }
  assert (Herr : forall e', e' <> EMore -> uh_res pre rest i (Ret next e' (uh_store l tokparam0))).
  { intros e' He'. unfold uh_res. split; [exact H1|]. split; [apply uh_bnd_store; [exact HbL|apply tp_inv0]|intros E; congruence]. }
  destruct e; try (apply Herr; discriminate).
  - (* EOk *)
    unfold uh_res. split; [exact H1|]. split; [|intros E; discriminate].
    destruct (Hfin (i + nnat (length rest)) ltac:(unfold nnat; lia) ltac:(lia) H2) as [[Hb4 _] _]. exact Hb4.
  - (* EEOH *)
    unfold uh_res. split; [exact H1|]. split; [|intros E; discriminate].
    destruct (Hfin (i + nnat (length rest)) ltac:(unfold nnat; lia) ltac:(lia) H2) as [[Hb4 _] _]. exact Hb4.
  - (* EMore *)
    destruct (H3 eq_refl) as [Hio Htp]. unfold uh_res. split; [exact H1|].
    split; [apply uh_bnd_store; [exact HbL|destruct (uh_slot l); exact H2]|]. intros _. split; [exact Hio|].
    split; [apply uh_bnd_store; [apply (uh_bnd_mono i); assumption|destruct (uh_slot l); exact Htp]|apply uh_wf_store; exact Hwf].
  - (* EMoreValues *)
    pose proof (tp_mv_ge _ _ _ _ _ _ _ Er) as Hge.
    (* the value that ended lies before next: fields end at or before next *)
    pose proof (tp_mv_inv _ _ _ _ _ _ _ Hi (uh_bnd_slot i l Hb) Er) as Htpn.
    unfold uh_res. replace (i + nnat (N.to_nat (next - i))) with next by (unfold nnat; lia).
    split; [unfold nnat in *; lia|]. apply (Hfin next Hge H1 Htpn).
Qed.

Lemma uh_iter1_progress flags pre rest i l : tp_state (uh_slot l) = PInit ->
  match uh_iter1 flags pre rest i l with Next k _ => (0 < k)%nat | _ => True end.
Proof.
  intros Hs. unfold uh_iter1. cbv zeta.
  destruct (run (tp_iter _) pre rest i 0 (uh_slot l)) as [next e tp| |] eqn:Er; try exact I.
  destruct e; try exact I.
  pose proof (tp_mv_strict _ _ _ _ _ _ _ Hs Er). lia.
Qed.

Definition uh_P (pre rest : list byte) (i : N) (l : uhdrs) : Prop := i = nnat (length pre) /\ uh_inv i l.
Definition uh_Q (pre rest : list byte) (i o : N) (e : err) (l : uhdrs) : Prop :=
  i = nnat (length pre) /\ o <= i + nnat (length rest) /\ uh_bnd (i + nnat (length rest)) l /\ (e = EMore -> i <= o /\ uh_inv o l).

Lemma uh_step_ok flags pre rest i l : uh_P pre rest i l ->
  match uh_iter flags pre rest i l with
  | Next k l' => (0 < k <= length rest)%nat /\ uh_P (zpre k pre rest) (zrest k rest) (i + nnat k) l'
  | Ret o e l' => uh_Q pre rest i o e l'
  | IPanic => False
  end.
Proof.
  intros [Hi Hinv]. unfold uh_iter. pose proof (uh_iter1_ok flags pre rest i l Hi Hinv) as H. unfold uh_res in H.
  destruct (uh_iter1 flags pre rest i l) as [k l1|o e l1|]; [|unfold uh_Q; tauto|exact H].
  destruct H as (Hk & Hinv1 & Hslot). destruct k as [|k].
  - replace (i + nnat 0) with i in Hinv1 by (unfold nnat; lia).
    pose proof (uh_iter1_ok flags pre rest i l1 Hi Hinv1) as H2. unfold uh_res in H2.
    pose proof (uh_iter1_progress flags pre rest i l1 ltac:(rewrite Hslot; reflexivity)) as Hp.
    destruct (uh_iter1 flags pre rest i l1) as [k2 l2|o2 e2 l2|]; [|unfold uh_Q; tauto|exact H2].
    destruct H2 as (Hk2 & Hinv2 & _). split; [lia|]. split; [unfold nnat in *; rewrite zpre_length by lia; lia|exact Hinv2].
  - split; [lia|]. split; [unfold nnat in *; rewrite zpre_length by lia; lia|exact Hinv1].
Qed.

(* ParseAllURIParams: every buffer, start offset, flag set, capacity *)
Theorem uhdrs_safe flags buf offs l : offs <= nnat (length buf) -> uh_inv offs l ->
  match parse_all_uri_hdrs flags buf offs l with
  | Done o e l' => o <= nnat (length buf) /\ uh_bnd (nnat (length buf)) l' /\ (e = EMore -> offs <= o /\ uh_inv o l')
  | _ => False
  end.
Proof.
  intros Hoffs Hinv. unfold parse_all_uri_hdrs, parse, zinit.
  pose proof (run_safe (uh_iter flags) (fun p r j s => uh_P p r j s /\ offs <= j) (fun p r j o e s => uh_Q p r j o e s /\ offs <= j)) as H.
  assert (G : forall p r j s0, uh_P p r j s0 /\ offs <= j ->
            match uh_iter flags p r j s0 with
            | Next k s' => (0 < k <= length r)%nat /\ (uh_P (zpre k p r) (zrest k r) (j + nnat k) s' /\ offs <= j + nnat k)
            | Ret o e s' => uh_Q p r j o e s' /\ offs <= j
            | IPanic => False end).
  { intros p r j s0 [HP Ho]. pose proof (uh_step_ok flags p r j s0 HP) as X.
    destruct (uh_iter flags p r j s0); auto. destruct X as [X1 X2]. split; [exact X1|]. split; [exact X2|unfold nnat; lia]. }
  specialize (H G (skipn (N.to_nat offs) buf) (rev (firstn (N.to_nat offs) buf)) offs (l <| uh_vno := 0 |>)).
  assert (H0 : uh_P (rev (firstn (N.to_nat offs) buf)) (skipn (N.to_nat offs) buf) offs (l <| uh_vno := 0 |>) /\ offs <= offs).
  { split; [|lia]. split; [rewrite rev_length, firstn_length; unfold nnat in *; lia|]. destruct l; exact Hinv. }
  specialize (H H0).
  destruct (run (uh_iter flags) _ _ offs 0 _) as [o e l'| |]; auto.
  destruct H as (p' & r' & i' & ((Hi' & H1 & H2 & H3) & Hio) & Hw).
  rewrite zinit_whole in Hw. apply (f_equal (@length _)) in Hw. rewrite app_length, rev_length in Hw.
  assert (E : i' + nnat (length r') = nnat (length buf)) by (unfold nnat in *; lia).
  rewrite E in *. split; [exact H1|]. split; [exact H2|]. intros He. destruct (H3 He). split; [lia|assumption].
Qed.
Lemma uh_inv_init n o : uh_inv o (uhdrs_init (repeat tokparam0 n)).
Proof.
  split.
  - unfold uh_bnd, uhdrs_init. cbn. split; [apply Forall_forall; intros p Hp; apply repeat_spec in Hp; subst; apply tp_inv0|apply tp_inv0].
  - unfold uh_wf, uhdrs_init. cbn. split; [intros j _; apply nth_repeat|reflexivity].
Qed.
