(* ExtOK for ParseHdrLine: name / colon / generic value phases and the eight header specific
   value parsers it hands the value to. *)
From Sipsp Require Import RunLemmas Safe Resume Ext ExtLeaf ZSlice Harness ExtCSeq ExtNameAddr ExtNested ExtLists
  ExtFLine ExtAdv OkBounds.
From Coq Require Import ZifyN ZifyNat ZifyBool.

Notation hit := hl_iter.

(* ---- a value parser seen as a function of the zipper -------------------------------------------- *)
Definition rext {B} (R : list byte -> list byte -> N -> B -> res B) : Prop :=
  forall rest pre x i v, i = nnat (length pre) ->
  match R pre rest i v with
  | Done o EMore v' => exists k, (k <= length rest)%nat /\ o = i + nnat k /\
       R (zpre k pre (rest ++ x)) (zrest k (rest ++ x)) o v' = R pre (rest ++ x) i v
  | Done o e v' => R pre (rest ++ x) i v = Done o e v'
  | _ => True
  end.

Lemma rext_run {B} (iter : list byte -> list byte -> N -> B -> ires B) :
  IterExt iter -> rext (fun pre rest i v => run iter pre rest i 0 v).
Proof. intros HI rest pre x i v Hi. exact (run_ext iter (fun _ => []) HI rest pre x i v Hi). Qed.

(* ParseCLenVal's check on top of the number parser *)
Definition clen_R (pre rest : list byte) (o : N) (v : uintb) : res uintb :=
  match run ui_iter pre rest o 0 v with
  | Done n EOk b =>
    if (MaxCLenValueSize <? pl (ui_sval b)) || (MaxClenValue <? ui_val b)
    then Done (po (ui_sval b)) ENumTooBig b else Done n EOk b
  | r => r
  end.
Lemma rext_clen : rext clen_R.
Proof.
  intros rest pre x i v Hi. unfold clen_R.
  pose proof (run_ext ui_iter (fun _ => []) ui_IterExt rest pre x i v Hi) as H.
  destruct (run ui_iter pre rest i 0 v) as [o e v'| |]; auto.
  destruct e; try (rewrite H; reflexivity).
  - rewrite H. destruct (_ || _); reflexivity.
  - destruct H as (k & Hk & Ho & Hr). exists k. split; [exact Hk|]. split; [exact Ho|]. now rewrite Hr.
Qed.

Definition is_body (hs : hst) : bool :=
  match hs with HFrom | HTo | HCallID | HCSeq | HCLen | HContact | HExpires | HPAI => true | _ => false end.

Lemma hit_body hs pre c r i st v : is_body hs = true -> h_state (hx_h st) = hs -> hx_pv st = Some v ->
  hit pre (c :: r) i st = hb_run hs pre (c :: r) i st v.
Proof. intros Hb Hs Hv. unfold hl_iter. rewrite Hs, Hv. destruct hs; try discriminate; reflexivity. Qed.

Lemma hb_finish_ext {B} (r : res B) st st' valof (put put' : B -> phvals) :
  hx_h st = hx_h st' -> (forall b, put b = put' b) -> hb_finish r st valof put = hb_finish r st' valof put'.
Proof. intros Hh Hp. unfold hb_finish. destruct r as [n e b| |]; auto. now rewrite Hh, Hp. Qed.
Lemma hb_finish_noNext {B} (r : res B) st valof put : noNext (hb_finish r st valof put).
Proof. unfold hb_finish. destruct r; exact I. Qed.

Section Body.
  Context {B : Type}.
  Variable hs : hst.
  Variable R : list byte -> list byte -> N -> B -> res B.
  Variable sel : phvals -> B.
  Variable put : phvals -> B -> phvals.
  Variable valof : B -> pf.
  Hypothesis Hbody : is_body hs = true.
  Hypothesis R_ext : rext R.
  Hypothesis hb_def : forall pre rest o st v,
    hb_run hs pre rest o st v
    = hb_finish (R pre rest o (sel v)) (st <| hx_h := (hx_h st) <| h_state := hs |> |>) valof (put v).
  Hypothesis sel_put : forall v b, sel (put v b) = b.
  Hypothesis put_put : forall v b b', put (put v b) b' = put v b'.

  Lemma hb_clause pre rest x j st v : j = nnat (length pre) ->
    clause hit pre rest x j (hb_run hs pre rest j st v) (hb_run hs pre (rest ++ x) j st v).
  Proof.
    intros Hj. rewrite !hb_def. set (st1 := st <| hx_h := _ |>).
    pose proof (R_ext rest pre x j (sel v) Hj) as He.
    destruct (R pre rest j (sel v)) as [o e b| |] eqn:Er; [|exact I|exact I].
    destruct e; try (rewrite He; apply clause_same; exact I).
    destruct He as (k & Hk & Ho & Hrq). set (Bf := rest ++ x) in *.
    cbn [hb_finish]. unfold clause. exists k. split; [exact Hk|]. split; [exact Ho|].
    change (rest ++ x) with Bf.
    destruct (zrest k Bf) as [|c r] eqn:Ez.
    - (* nothing was appended *)
      assert (x = []).
      { assert (Hl : length (zrest k Bf) = 0%nat) by now rewrite Ez. rewrite zrest_length in Hl. subst Bf.
        rewrite app_length in Hl. destruct x; [reflexivity|cbn in Hl; lia]. }
      subst x. subst Bf. rewrite app_nil_r in *. rewrite Er. reflexivity.
    - rewrite run_after.
      rewrite (hit_body hs _ c r o _ (put v b) Hbody); [|subst st1; destruct st as [[? ? ? ?] ?]; reflexivity|reflexivity].
      rewrite hb_def, sel_put, Hrq.
      rewrite (hb_finish_ext (R pre Bf j (sel v)) _ st1 valof (put (put v b)) (put v)).
      + pose proof (hb_finish_noNext (R pre Bf j (sel v)) st1 valof (put v)) as Hn.
        destruct (hb_finish (R pre Bf j (sel v)) st1 valof (put v)); [destruct Hn|reflexivity|reflexivity].
      + subst st1. destruct st as [[? ? ? ?] ?]. reflexivity.
      + intros b'. apply put_put.
  Qed.

  (* successful returns make progress unless the value was finished before *)
  Variable fin : B -> Prop.
  Hypothesis R_ok : forall pre rest i b, run_okb fin rest i b (R pre rest i b).
  Lemma hb_ok pre rest i st v : okb (fun _ => fin (sel v)) rest i st (hb_run hs pre rest i st v).
  Proof.
    rewrite hb_def. pose proof (R_ok pre rest i (sel v)) as H. unfold hb_finish, okb.
    destruct (R pre rest i (sel v)) as [o e b| |]; [|exact I|exact I]. destruct e; try exact I. exact H.
  Qed.
  Hypothesis R_more : forall pre rest i b o b', R pre rest i b = Done o EMore b' -> ~ fin b'.
  Lemma hb_more pre rest i st v :
    match hb_run hs pre rest i st v with
    | Ret _ EMore st' => h_state (hx_h st') = hs /\ exists v', hx_pv st' = Some v' /\ ~ fin (sel v')
    | _ => True
    end.
  Proof.
    rewrite hb_def. unfold hb_finish.
    destruct (R pre rest i (sel v)) as [o e b| |] eqn:E; [|exact I|exact I]. destruct e; try exact I.
    split; [destruct st as [[? ? ? ?] ?]; reflexivity|].
    exists (put v b). split; [reflexivity|]. rewrite sel_put. apply (R_more _ _ _ _ _ _ E).
  Qed.
End Body.

(* ---- the eight value parsers ------------------------------------------------------------------------ *)
Definition hfin (hs : hst) (v : phvals) : Prop :=
  match hs with
  | HFrom => fb_parsed (pv_from v) = true
  | HTo => fb_parsed (pv_to v) = true
  | HCallID => ci_parsed (pv_callid v) = true
  | HCSeq => cs_parsed (pv_cseq v) = true
  | HCLen => ui_parsed (pv_clen v) = true
  | HContact => ct_fin (pv_contacts v)
  | HExpires => ui_parsed (pv_expires v) = true
  | HPAI => pa_fin (pv_pais v)
  | _ => False
  end.

Lemma clen_R_ok pre rest i b : run_okb (fun s => ui_parsed s = true) rest i b (clen_R pre rest i b).
Proof.
  unfold clen_R. pose proof (run_okb_of ui_iter _ ui_iter_ok pre rest i b) as H.
  destruct (run ui_iter pre rest i 0 b) as [o e b'| |]; auto. destruct e; auto. destruct (_ || _); [exact I|exact H].
Qed.
Lemma clen_R_more pre rest i b o b' : clen_R pre rest i b = Done o EMore b' -> ui_parsed b' <> true.
Proof.
  unfold clen_R. destruct (run ui_iter pre rest i 0 b) as [o1 e b1| |] eqn:E; try discriminate.
  destruct e; try discriminate.
  - destruct (_ || _); discriminate.
  - intros H. injection H as <- <-. apply (run_more_state ui_iter _ ui_iter_more) in E. congruence.
Qed.

Ltac body_hyps :=
  first [ reflexivity
        | apply rext_run; first [apply nameaddr_IterExt|apply ci_IterExt|apply cs_IterExt|apply ui_IterExt|apply ct_IterExt|apply pa_IterExt]
        | apply rext_clen
        | intros; reflexivity
        | intros [? ? ? ? ? ? ? ?] ?; reflexivity
        | intros [? ? ? ? ? ? ? ?] ? ?; reflexivity ].

Lemma hb_run_clause hs pre rest x j st v : j = nnat (length pre) ->
  clause hit pre rest x j (hb_run hs pre rest j st v) (hb_run hs pre (rest ++ x) j st v).
Proof.
  destruct hs; try (intros; exact I).
  - apply (hb_clause HFrom (fun pre rest i b => run (fb_iter HdrFrom) pre rest i 0 b) pv_from (fun v b => v <| pv_from := b |>) fb_v); body_hyps.
  - apply (hb_clause HTo (fun pre rest i b => run (fb_iter HdrTo) pre rest i 0 b) pv_to (fun v b => v <| pv_to := b |>) fb_v); body_hyps.
  - apply (hb_clause HCallID (fun pre rest i b => run ci_iter pre rest i 0 b) pv_callid (fun v b => v <| pv_callid := b |>) ci_callid); body_hyps.
  - apply (hb_clause HCSeq (fun pre rest i b => run cs_iter pre rest i 0 b) pv_cseq (fun v b => v <| pv_cseq := b |>) cs_v); body_hyps.
  - apply (hb_clause HCLen clen_R pv_clen (fun v b => v <| pv_clen := b |>) ui_sval); body_hyps.
  - apply (hb_clause HContact (fun pre rest i b => run ct_iter pre rest i 0 b) pv_contacts (fun v b => v <| pv_contacts := b |>) ct_lasthval); body_hyps.
  - apply (hb_clause HExpires (fun pre rest i b => run ui_iter pre rest i 0 b) pv_expires (fun v b => v <| pv_expires := b |>) ui_sval); body_hyps.
  - apply (hb_clause HPAI (fun pre rest i b => run pa_iter pre rest i 0 b) pv_pais (fun v b => v <| pv_pais := b |>) pa_lasthval); body_hyps.
Qed.

Lemma hb_run_ok hs pre rest i st v : okb (fun _ => hfin hs v) rest i st (hb_run hs pre rest i st v).
Proof.
  destruct hs; try exact I.
  - apply (hb_ok HFrom (fun pre rest i b => run (fb_iter HdrFrom) pre rest i 0 b) pv_from (fun v b => v <| pv_from := b |>) fb_v ltac:(body_hyps) (fun b => fb_parsed b = true)).
    intros. apply run_okb_of, fb_iter_ok.
  - apply (hb_ok HTo (fun pre rest i b => run (fb_iter HdrTo) pre rest i 0 b) pv_to (fun v b => v <| pv_to := b |>) fb_v ltac:(body_hyps) (fun b => fb_parsed b = true)).
    intros. apply run_okb_of, fb_iter_ok.
  - apply (hb_ok HCallID (fun pre rest i b => run ci_iter pre rest i 0 b) pv_callid (fun v b => v <| pv_callid := b |>) ci_callid ltac:(body_hyps) (fun b => ci_parsed b = true)).
    intros. apply run_okb_of, ci_iter_ok.
  - apply (hb_ok HCSeq (fun pre rest i b => run cs_iter pre rest i 0 b) pv_cseq (fun v b => v <| pv_cseq := b |>) cs_v ltac:(body_hyps) (fun b => cs_parsed b = true)).
    intros. apply run_okb_of, cs_iter_ok.
  - apply (hb_ok HCLen clen_R pv_clen (fun v b => v <| pv_clen := b |>) ui_sval ltac:(body_hyps) (fun b => ui_parsed b = true)).
    intros. apply clen_R_ok.
  - apply (hb_ok HContact (fun pre rest i b => run ct_iter pre rest i 0 b) pv_contacts (fun v b => v <| pv_contacts := b |>) ct_lasthval ltac:(body_hyps) ct_fin).
    intros. apply run_okb_of, ct_iter_ok.
  - apply (hb_ok HExpires (fun pre rest i b => run ui_iter pre rest i 0 b) pv_expires (fun v b => v <| pv_expires := b |>) ui_sval ltac:(body_hyps) (fun b => ui_parsed b = true)).
    intros. apply run_okb_of, ui_iter_ok.
  - apply (hb_ok HPAI (fun pre rest i b => run pa_iter pre rest i 0 b) pv_pais (fun v b => v <| pv_pais := b |>) pa_lasthval ltac:(body_hyps) pa_fin).
    intros. apply run_okb_of, pa_iter_ok.
Qed.

Lemma hb_run_more hs pre rest i st v :
  match hb_run hs pre rest i st v with
  | Ret _ EMore st' => h_state (hx_h st') = hs /\ exists v', hx_pv st' = Some v' /\ ~ hfin hs v'
  | _ => True
  end.
Proof.
  destruct hs; try exact I.
  - apply (hb_more HFrom (fun pre rest i b => run (fb_iter HdrFrom) pre rest i 0 b) pv_from (fun v b => v <| pv_from := b |>) fb_v ltac:(body_hyps) ltac:(body_hyps) (fun b => fb_parsed b = true)).
    intros p r j b o b' H. apply fb_more_not_parsed in H. congruence.
  - apply (hb_more HTo (fun pre rest i b => run (fb_iter HdrTo) pre rest i 0 b) pv_to (fun v b => v <| pv_to := b |>) fb_v ltac:(body_hyps) ltac:(body_hyps) (fun b => fb_parsed b = true)).
    intros p r j b o b' H. apply fb_more_not_parsed in H. congruence.
  - apply (hb_more HCallID (fun pre rest i b => run ci_iter pre rest i 0 b) pv_callid (fun v b => v <| pv_callid := b |>) ci_callid ltac:(body_hyps) ltac:(body_hyps) (fun b => ci_parsed b = true)).
    intros p r j b o b' H. apply (run_more_state ci_iter _ ci_iter_more) in H. congruence.
  - apply (hb_more HCSeq (fun pre rest i b => run cs_iter pre rest i 0 b) pv_cseq (fun v b => v <| pv_cseq := b |>) cs_v ltac:(body_hyps) ltac:(body_hyps) (fun b => cs_parsed b = true)).
    intros p r j b o b' H. apply (run_more_state cs_iter _ cs_iter_more) in H. congruence.
  - apply (hb_more HCLen clen_R pv_clen (fun v b => v <| pv_clen := b |>) ui_sval ltac:(body_hyps) ltac:(body_hyps) (fun b => ui_parsed b = true)).
    intros p r j b o b' H. apply (clen_R_more _ _ _ _ _ _ H).
  - apply (hb_more HContact (fun pre rest i b => run ct_iter pre rest i 0 b) pv_contacts (fun v b => v <| pv_contacts := b |>) ct_lasthval ltac:(body_hyps) ltac:(body_hyps) ct_fin).
    intros p r j b o b' H. apply (run_more_state ct_iter _ ct_iter_more) in H. unfold ct_fin. congruence.
  - apply (hb_more HExpires (fun pre rest i b => run ui_iter pre rest i 0 b) pv_expires (fun v b => v <| pv_expires := b |>) ui_sval ltac:(body_hyps) ltac:(body_hyps) (fun b => ui_parsed b = true)).
    intros p r j b o b' H. apply (run_more_state ui_iter _ ui_iter_more) in H. congruence.
  - apply (hb_more HPAI (fun pre rest i b => run pa_iter pre rest i 0 b) pv_pais (fun v b => v <| pv_pais := b |>) pa_lasthval ltac:(body_hyps) ltac:(body_hyps) pa_fin).
    intros p r j b o b' H. apply (run_more_state pa_iter _ pa_iter_more) in H. unfold pa_fin. congruence.
Qed.

Lemma hb_run_noNext hs pre rest i st v : noNext (hb_run hs pre rest i st v).
Proof. unfold hb_run. destruct hs; try exact I; apply hb_finish_noNext. Qed.

(* ---- after the colon ------------------------------------------------------------------------------------ *)
Definition hb_pick (st : hline) : option (hst * phvals) :=
  match hx_pv st with
  | None => None
  | Some v =>
    let t := h_type (hx_h st) in
    if t =? HdrFrom then (if fb_parsed (pv_from v) then None else Some (HFrom, v))
    else if t =? HdrTo then (if fb_parsed (pv_to v) then None else Some (HTo, v))
    else if t =? HdrCallID then (if ci_parsed (pv_callid v) then None else Some (HCallID, v))
    else if t =? HdrCSeq then (if cs_parsed (pv_cseq v) then None else Some (HCSeq, v))
    else if t =? HdrCLen then (if ui_parsed (pv_clen v) then None else Some (HCLen, v))
    else if t =? HdrContact then
      let c := pv_contacts v in
      Some (HContact, v <| pv_contacts := c <| ct_hno := ct_hno c + 1 |> <| ct_lasthval := pf0 |> |>)
    else if t =? HdrExpires then (if ui_parsed (pv_expires v) then None else Some (HExpires, v))
    else if t =? HdrPAI then
      let c := pv_pais v in
      Some (HPAI, v <| pv_pais := c <| pa_hno := pa_hno c + 1 |> <| pa_lasthval := pf0 |> |>)
    else None
  end.
Lemma hb_parse_body_pick pre rest o st :
  hb_parse_body pre rest o st = match hb_pick st with
                                | Some (hs, v) => Some (hb_run hs pre rest o st v)
                                | None => None end.
Proof.
  unfold hb_parse_body, hb_pick. destruct (hx_pv st) as [v|]; [|reflexivity]. cbv zeta.
  repeat match goal with |- context [if ?b then _ else _] => destruct b end; reflexivity.
Qed.

Definition hl_colon' (pre rest : list byte) (i : N) (k : nat) (st : hline) : ires hline :=
  match zget pre rest i (h_name (hx_h st)) with
  | None => IPanic
  | Some name =>
    let st1 := st <| hx_h := (hx_h st) <| h_state := HBodyStart |> <| h_type := get_hdr_type name |> |> in
    match hb_pick st1 with
    | Some (hs, v) => hb_run hs (zpre (S k) pre rest) (zrest (S k) rest) (i + nnat k + 1) st1 v
    | None => Next (S k) st1
    end
  end.
Lemma hl_colon_eq pre rest i k st : hl_colon pre rest i k st = hl_colon' pre rest i k st.
Proof.
  unfold hl_colon, hl_colon'. destruct (zget _ _ _ _) as [name|]; [|reflexivity]. cbv zeta.
  rewrite hb_parse_body_pick. destruct (hb_pick _) as [[hs v]|]; reflexivity.
Qed.

Lemma colon_noNext0 pre rest i k st : noNext0 (hl_colon pre rest i k st).
Proof.
  rewrite hl_colon_eq. unfold hl_colon'. destruct (zget _ _ _ _); [|exact I]. cbv zeta.
  destruct (hb_pick _) as [[hs v]|]; [|exact I]. apply noNext_noNext0, hb_run_noNext.
Qed.

Lemma colon_clause pre rest x i k st : i = nnat (length pre) -> (S k <= length rest)%nat ->
  clause hit pre rest x i (hl_colon pre rest i k st) (hl_colon pre (rest ++ x) i k st).
Proof.
  intros Hi Hk. rewrite !hl_colon_eq. unfold hl_colon'.
  pose proof (zslice_ext pre rest x i (po (h_name (hx_h st))) (pf_end (h_name (hx_h st))) Hi) as Hz.
  change (same_or_panic (zget pre rest i (h_name (hx_h st))) (zget pre (rest ++ x) i (h_name (hx_h st)))) in Hz.
  destruct Hz as [Hz|Hz]; [rewrite Hz; exact I|]. rewrite Hz.
  destruct (zget pre rest i (h_name (hx_h st))) as [name|]; [|exact I]. cbv zeta.
  set (st1 := st <| hx_h := _ |>).
  destruct (hb_pick st1) as [[hs v]|]; [|apply clause_same; exact I].
  rewrite (zpre_app (S k) pre rest x Hk), (zrest_app (S k) rest x Hk).
  replace (i + nnat k + 1) with (i + nnat (S k)) by (unfold nnat; lia).
  pose proof (hb_run_noNext hs (zpre (S k) pre rest) (zrest (S k) rest) (i + nnat (S k)) st1 v) as Hn1.
  pose proof (hb_run_noNext hs (zpre (S k) pre rest) (zrest (S k) rest ++ x) (i + nnat (S k)) st1 v) as Hn2.
  rewrite <- (ishift_noNext (S k) _ Hn1), <- (ishift_noNext (S k) _ Hn2).
  apply clause_adv; [exact Hk|apply noNext_noNext0; exact Hn2|].
  apply hb_run_clause. unfold zpre. rewrite app_length, rev_length, firstn_length. unfold nnat in *. lia.
Qed.

(* the same colon seen from n bytes before *)
Lemma colon_adv pre B i n k st : i = nnat (length pre) -> (n <= length B)%nat ->
  hl_colon pre B i (n + k) st = ishift n (hl_colon (zpre n pre B) (zrest n B) (i + nnat n) k st).
Proof.
  intros Hi Hn. rewrite !hl_colon_eq. unfold hl_colon'. rewrite (zget_adv pre B i n _ Hn Hi).
  destruct (zget pre B i (h_name (hx_h st))) as [name|]; [|reflexivity]. cbv zeta.
  set (st1 := st <| hx_h := _ |>).
  destruct (hb_pick st1) as [[hs v]|].
  - rewrite ishift_noNext by apply hb_run_noNext.
    rewrite (zpre_zpre n (S k) pre B Hn), zrest_zrest.
    replace (n + S k)%nat with (S (n + k)) by lia. f_equal. unfold nnat; lia.
  - cbn [ishift]. f_equal. lia.
Qed.

(* ---- header name ---------------------------------------------------------------------------------------- *)
Lemma zrest_len_app (a y : list byte) : zrest (length a) (a ++ y) = y.
Proof. unfold zrest. replace (length a) with (length a + 0)%nat by lia. now rewrite skipn_app_ge. Qed.

Lemma hit_name pre R i st : h_state (hx_h st) = HName -> hit pre R i st = hl_name_ph pre R i st.
Proof.
  intros Hs. unfold hl_iter. rewrite Hs. destruct R as [|c r]; [|reflexivity].
  unfold hl_name_ph. cbn. f_equal. unfold nnat; lia.
Qed.

Lemma name_noNext0 pre rest i st : noNext0 (hl_name_ph pre rest i st).
Proof.
  unfold hl_name_ph. destruct (skipn _ rest) as [|c r]; [exact I|].
  destruct (is_sp c).
  - destruct (pf_extend _ _); [|exact I]. destruct (pf_empty _); exact I.
  - destruct (c =? 58); [|exact I]. destruct (pf_extend _ _); [|exact I]. destruct (pf_empty _); [exact I|].
    apply colon_noNext0.
Qed.

Lemma name_adv pre a y i st : i = nnat (length pre) -> skipTokenDelim 58 a = length a ->
  hl_name_ph pre (a ++ y) i st
  = ishift (length a) (hl_name_ph (zpre (length a) pre (a ++ y)) y (i + nnat (length a)) st).
Proof.
  intros Hi Ha. unfold hl_name_ph, skipTokenDelim in *. rewrite span_app, Ha, Nat.eqb_refl, skipn_app_ge.
  set (ky := span _ y).
  replace (i + nnat (length a + ky)) with (i + nnat (length a) + nnat ky) by (unfold nnat; lia).
  destruct (skipn ky y) as [|c r]; [reflexivity|].
  destruct (is_sp c).
  - destruct (pf_extend _ _); [|reflexivity]. destruct (pf_empty _); [reflexivity|]. cbn [ishift]. f_equal. lia.
  - destruct (c =? 58); [|reflexivity]. destruct (pf_extend _ _); [|reflexivity]. destruct (pf_empty _); [reflexivity|].
    rewrite (colon_adv pre (a ++ y) i (length a) ky _ Hi) by (rewrite app_length; lia).
    now rewrite zrest_len_app.
Qed.

Lemma name_clause pre rest x i st : i = nnat (length pre) -> h_state (hx_h st) = HName ->
  clause hit pre rest x i (hl_name_ph pre rest i st) (hl_name_ph pre (rest ++ x) i st).
Proof.
  intros Hi Hs.
  destruct (span_lt_or_all (fun c => negb (is_ws c) && negb (c =? 58)) rest) as [Hlt|Hall].
  - (* the name ends inside rest *)
    destruct (span_stop _ rest Hlt) as (c & r & Hsk & Hc).
    unfold hl_name_ph, skipTokenDelim. rewrite span_app.
    replace (span _ rest =? length rest)%nat with false by (symmetry; apply Nat.eqb_neq; lia).
    rewrite skipn_app_le by lia. rewrite Hsk. cbn [app].
    destruct (is_sp c).
    + destruct (pf_extend _ _); [|exact I]. destruct (pf_empty _); apply clause_same; exact I.
    + destruct (c =? 58); [|apply clause_same; exact I].
      destruct (pf_extend _ _); [|exact I]. destruct (pf_empty _); [apply clause_same; exact I|].
      apply colon_clause; [exact Hi|lia].
  - (* every byte of rest belongs to the name *)
    unfold hl_name_ph at 1. unfold skipTokenDelim. rewrite Hall, skipn_all.
    apply (clause_susp hit pre rest x i (length rest)); [lia|reflexivity| |].
    + rewrite zrest_len_app, hit_name by exact Hs. apply name_noNext0.
    + rewrite zrest_len_app, hit_name by exact Hs. apply name_adv; [exact Hi|exact Hall].
Qed.

(* ---- white space between the name and the colon --------------------------------------------------------- *)
Definition hl_nameend (pre rest : list byte) (i : N) (st : hline) : ires hline :=
  let k := skipWS rest in
  match skipn k rest with
  | [] => Ret (i + nnat k) EMore st
  | d :: _ => if d =? 58 then hl_colon pre rest i k st else Ret (i + nnat k) EBadChar st
  end.
Lemma hit_nameend pre R i st : h_state (hx_h st) = HNameEnd -> hit pre R i st = hl_nameend pre R i st.
Proof.
  intros Hs. unfold hl_iter. rewrite Hs. destruct R as [|c r]; [|reflexivity].
  unfold hl_nameend. cbn. f_equal. unfold nnat; lia.
Qed.
Lemma nameend_noNext0 pre rest i st : noNext0 (hl_nameend pre rest i st).
Proof.
  unfold hl_nameend. destruct (skipn _ rest) as [|c r]; [exact I|].
  destruct (c =? 58); [|exact I]. apply colon_noNext0.
Qed.
Lemma nameend_adv pre a y i st : i = nnat (length pre) -> skipWS a = length a ->
  hl_nameend pre (a ++ y) i st
  = ishift (length a) (hl_nameend (zpre (length a) pre (a ++ y)) y (i + nnat (length a)) st).
Proof.
  intros Hi Ha. unfold hl_nameend, skipWS in *. rewrite span_app, Ha, Nat.eqb_refl, skipn_app_ge.
  set (ky := span _ y).
  replace (i + nnat (length a + ky)) with (i + nnat (length a) + nnat ky) by (unfold nnat; lia).
  destruct (skipn ky y) as [|c r]; [reflexivity|].
  destruct (c =? 58); [|reflexivity].
  rewrite (colon_adv pre (a ++ y) i (length a) ky _ Hi) by (rewrite app_length; lia).
  now rewrite zrest_len_app.
Qed.
Lemma nameend_clause pre rest x i st : i = nnat (length pre) -> h_state (hx_h st) = HNameEnd ->
  clause hit pre rest x i (hl_nameend pre rest i st) (hl_nameend pre (rest ++ x) i st).
Proof.
  intros Hi Hs.
  destruct (span_lt_or_all is_sp rest) as [Hlt|Hall].
  - destruct (span_stop _ rest Hlt) as (c & r & Hsk & Hc).
    unfold hl_nameend, skipWS. rewrite span_app.
    replace (span _ rest =? length rest)%nat with false by (symmetry; apply Nat.eqb_neq; lia).
    rewrite skipn_app_le by lia. rewrite Hsk. cbn [app].
    destruct (c =? 58); [|apply clause_same; exact I].
    apply colon_clause; [exact Hi|lia].
  - unfold hl_nameend at 1. unfold skipWS. rewrite Hall, skipn_all.
    apply (clause_susp hit pre rest x i (length rest)); [lia|reflexivity| |].
    + rewrite zrest_len_app, hit_nameend by exact Hs. apply nameend_noNext0.
    + rewrite zrest_len_app, hit_nameend by exact Hs. apply nameend_adv; [exact Hi|exact Hall].
Qed.

(* ---- start of the value ------------------------------------------------------------------------------------ *)
Definition hl_bstart (rest : list byte) (i : N) (st : hline) : ires hline :=
  match skipLWS false rest with
  | LOk k =>
    let! v := pf_set (i + nnat k) (i + nnat k) in
    Next (S k) (st <| hx_h := (hx_h st) <| h_state := HVal |> <| h_val := v |> |>)
  | LEOH k crl => Ret (i + nnat k + nnat crl) EOk (st <| hx_h := (hx_h st) <| h_state := HFIN |> |>)
  | LMore k => Ret (i + nnat k) EMore st
  end.
Lemma hit_bstart pre R i st : h_state (hx_h st) = HBodyStart -> hit pre R i st = hl_bstart R i st.
Proof.
  intros Hs. unfold hl_iter. rewrite Hs. destruct R as [|c r]; [|reflexivity].
  unfold hl_bstart. cbn. f_equal. unfold nnat; lia.
Qed.
Lemma bstart_noNext0 rest i st : noNext0 (hl_bstart rest i st).
Proof. unfold hl_bstart. destruct (skipLWS false rest); try exact I. destruct (pf_set _ _); exact I. Qed.

Lemma bstart_clause pre rest x i st : i = nnat (length pre) -> h_state (hx_h st) = HBodyStart ->
  clause hit pre rest x i (hl_bstart rest i st) (hl_bstart (rest ++ x) i st).
Proof.
  intros Hi Hs. pose proof (skipLWS_ext rest x) as He. unfold hl_bstart at 1.
  destruct (skipLWS false rest) as [k|k crl|n] eqn:El.
  - unfold hl_bstart. rewrite He. destruct (pf_set _ _); [apply clause_same|]; exact I.
  - unfold hl_bstart. rewrite He. apply clause_same; exact I.
  - destruct He as [Hn He].
    apply (clause_susp hit pre rest x i n); [exact Hn|reflexivity| |].
    + rewrite hit_bstart by exact Hs. apply bstart_noNext0.
    + rewrite hit_bstart by exact Hs. unfold hl_bstart. rewrite He. unfold zrest.
      destruct (skipLWS false (skipn n (rest ++ x))) as [k|k crl|k]; cbn [lshift ishift].
      * replace (i + nnat (n + k)) with (i + nnat n + nnat k) by (unfold nnat; lia).
        destruct (pf_set _ _); [|reflexivity]. cbn [ishift]. f_equal. lia.
      * f_equal. unfold nnat; lia.
      * f_equal. unfold nnat; lia.
Qed.

(* ---- generic value: tokens separated by (folded) white space ---------------------------------------------- *)
Definition hl_valend (r' : list byte) (i : N) (k : nat) (st : hline) (h1 : hdr) : ires hline :=
  match skipLWS false r' with
  | LOk k2 => Next (S (k + k2)) (st <| hx_h := h1 <| h_state := HVal |> |>)
  | LEOH k2 crl => Ret (i + nnat k + nnat k2 + nnat crl) EOk (st <| hx_h := h1 <| h_state := HFIN |> |>)
  | LMore k2 => Ret (i + nnat k + nnat k2) EMore (st <| hx_h := h1 |>)
  end.
Definition hl_val (rest : list byte) (i : N) (st : hline) : ires hline :=
  let h := hx_h st in
  let k := skipToken rest in
  match skipn k rest with
  | [] => Ret (i + nnat k) EMore st
  | r' =>
    match pf_extend (h_val h) (i + nnat k) with
    | None => IPanic
    | Some v => hl_valend r' i k st (h <| h_val := v |> <| h_state := HValEnd |>)
    end
  end.

Lemma hit_val pre R i st : h_state (hx_h st) = HVal -> hit pre R i st = hl_val R i st.
Proof.
  intros Hs. unfold hl_iter, hl_val. rewrite Hs. destruct R as [|c r].
  - cbn. f_equal. unfold nnat; lia.
  - destruct (skipn (skipToken (c :: r)) (c :: r)); [reflexivity|].
    destruct (pf_extend _ _); reflexivity.
Qed.
Lemma hit_valend pre R i st : h_state (hx_h st) = HValEnd -> hit pre R i st = hl_valend R i 0 st (hx_h st).
Proof.
  intros Hs. unfold hl_iter, hl_valend. rewrite Hs. destruct R as [|c r].
  - cbn. destruct st as [h pv]. cbn. f_equal. unfold nnat; lia.
  - cbn [skipn]. reflexivity.
Qed.
Lemma valend_noNext0 r' i k st h1 : noNext0 (hl_valend r' i k st h1).
Proof. unfold hl_valend. destruct (skipLWS false r'); exact I. Qed.
Lemma val_noNext0 rest i st : noNext0 (hl_val rest i st).
Proof.
  unfold hl_val. destruct (skipn _ rest); [exact I|]. destruct (pf_extend _ _); [|exact I]. apply valend_noNext0.
Qed.

Lemma valend_clause pre rest x i k st h1 : i = nnat (length pre) -> (k <= length rest)%nat -> h_state h1 = HValEnd ->
  clause hit pre rest x i (hl_valend (zrest k rest) i k st h1) (hl_valend (zrest k rest ++ x) i k st h1).
Proof.
  intros Hi Hk Hs. pose proof (skipLWS_ext (zrest k rest) x) as He. unfold hl_valend at 1.
  destruct (skipLWS false (zrest k rest)) as [k2|k2 crl|n] eqn:El.
  - unfold hl_valend. rewrite He. apply clause_same; exact I.
  - unfold hl_valend. rewrite He. apply clause_same; exact I.
  - destruct He as [Hn He]. rewrite zrest_length in Hn.
    apply (clause_susp hit pre rest x i (k + n)); [lia|unfold nnat; lia| |].
    + rewrite hit_valend by (destruct st; exact Hs). apply valend_noNext0.
    + rewrite hit_valend by (destruct st; exact Hs). unfold hl_valend. rewrite He.
      rewrite <- (zrest_zrest k n (rest ++ x)), (zrest_app k rest x Hk). change (zrest n (zrest k rest ++ x)) with (skipn n (zrest k rest ++ x)).
      destruct (skipLWS false (skipn n (zrest k rest ++ x))) as [k3|k3 crl|k3]; cbn [lshift ishift].
      * destruct st; cbn. f_equal. lia.
      * destruct st; cbn. f_equal. unfold nnat; lia.
      * destruct st; cbn. f_equal. unfold nnat; lia.
Qed.

Lemma val_adv a y i st : skipToken a = length a ->
  hl_val (a ++ y) i st = ishift (length a) (hl_val y (i + nnat (length a)) st).
Proof.
  intros Ha. unfold hl_val, skipToken in *. rewrite span_app, Ha, Nat.eqb_refl, skipn_app_ge.
  set (ky := span _ y).
  replace (i + nnat (length a + ky)) with (i + nnat (length a) + nnat ky) by (unfold nnat; lia).
  destruct (skipn ky y) as [|c r]; [reflexivity|].
  destruct (pf_extend _ _); [|reflexivity]. unfold hl_valend.
  destruct (skipLWS false (c :: r)); cbn [ishift]; f_equal; try lia; unfold nnat; lia.
Qed.

Lemma val_clause pre rest x i st : i = nnat (length pre) -> h_state (hx_h st) = HVal ->
  clause hit pre rest x i (hl_val rest i st) (hl_val (rest ++ x) i st).
Proof.
  intros Hi Hs.
  destruct (span_lt_or_all (fun c => negb (is_ws c)) rest) as [Hlt|Hall].
  - destruct (span_stop _ rest Hlt) as (c & r & Hsk & Hc).
    unfold hl_val, skipToken. rewrite span_app.
    replace (span _ rest =? length rest)%nat with false by (symmetry; apply Nat.eqb_neq; lia).
    rewrite skipn_app_le by lia. rewrite Hsk. cbn [app].
    destruct (pf_extend _ _); [|exact I].
    change (c :: r ++ x) with ((c :: r) ++ x). rewrite <- Hsk.
    apply (valend_clause pre rest x i (span (fun c0 => negb (is_ws c0)) rest)); [exact Hi|lia|].
    destruct (hx_h st); reflexivity.
  - unfold hl_val at 1. unfold skipToken. rewrite Hall, skipn_all.
    apply (clause_susp hit pre rest x i (length rest)); [lia|reflexivity| |].
    + rewrite zrest_len_app, hit_val by exact Hs. apply val_noNext0.
    + rewrite zrest_len_app, hit_val by exact Hs. apply val_adv. exact Hall.
Qed.

(* ---- the iteration ------------------------------------------------------------------------------------------ *)
Lemma hit_init pre c r i st : h_state (hx_h st) = HInit ->
  hit pre (c :: r) i st =
  if is_cr c then
    match r with
    | [] => Ret i EMore st
    | d :: _ => Ret (if is_lf d then i + 2 else i + 1) EEmpty (st <| hx_h := (hx_h st) <| h_state := HFIN |> |>)
    end
  else if is_lf c then Ret (i + 1) EEmpty (st <| hx_h := (hx_h st) <| h_state := HFIN |> |>)
  else let! n := pf_set i i in
       hl_name_ph pre (c :: r) i (st <| hx_h := (hx_h st) <| h_state := HName |> <| h_name := n |> |>).
Proof. intros Hs. unfold hl_iter. rewrite Hs. reflexivity. Qed.
Lemma hit_fin pre c r i st : h_state (hx_h st) = HFIN -> hit pre (c :: r) i st = Ret i EBug st.
Proof. intros Hs. unfold hl_iter. rewrite Hs. reflexivity. Qed.
Lemma hit_nopv pre c r i st : is_body (h_state (hx_h st)) = true -> hx_pv st = None -> hit pre (c :: r) i st = IPanic.
Proof. intros Hb Hv. unfold hl_iter. rewrite Hv. destruct (h_state (hx_h st)); try discriminate; reflexivity. Qed.

Lemma hl_clause pre rest x i st : i = nnat (length pre) ->
  clause hit pre rest x i (hit pre rest i st) (hit pre (rest ++ x) i st).
Proof.
  intros Hi. destruct rest as [|c r1].
  { apply clause_here. }
  destruct (h_state (hx_h st)) eqn:Hs.
  - (* HInit *)
    destruct (is_cr c) eqn:Ecr.
    { destruct r1 as [|d r2].
      - rewrite (hit_init pre c [] i st Hs), Ecr. apply clause_here.
      - cbn [app]. rewrite !hit_init by exact Hs. rewrite Ecr. apply clause_same. exact I. }
    cbn [app]. rewrite !hit_init by exact Hs. rewrite Ecr.
    destruct (is_lf c); [apply clause_same; exact I|].
    destruct (pf_set i i) as [n|]; [|exact I].
    change (c :: r1 ++ x) with ((c :: r1) ++ x).
    apply name_clause; [exact Hi|]. destruct st as [[? ? ? ?] ?]; reflexivity.
  - rewrite !hit_name by exact Hs. apply name_clause; assumption.
  - rewrite !hit_nameend by exact Hs. apply nameend_clause; assumption.
  - rewrite !hit_bstart by exact Hs. apply bstart_clause; assumption.
  - rewrite !hit_val by exact Hs. apply val_clause; assumption.
  - rewrite !hit_valend by exact Hs.
    apply (valend_clause pre (c :: r1) x i 0 st (hx_h st) Hi ltac:(lia) Hs).
  - destruct (hx_pv st) as [v|] eqn:Hv; [|rewrite hit_nopv by (try rewrite Hs; auto); exact I].
    change ((c :: r1) ++ x) with (c :: r1 ++ x).
    rewrite !(hit_body HFrom _ _ _ _ _ v eq_refl Hs Hv). apply (hb_run_clause HFrom pre (c :: r1) x i st v Hi).
  - destruct (hx_pv st) as [v|] eqn:Hv; [|rewrite hit_nopv by (try rewrite Hs; auto); exact I].
    change ((c :: r1) ++ x) with (c :: r1 ++ x).
    rewrite !(hit_body HTo _ _ _ _ _ v eq_refl Hs Hv). apply (hb_run_clause HTo pre (c :: r1) x i st v Hi).
  - destruct (hx_pv st) as [v|] eqn:Hv; [|rewrite hit_nopv by (try rewrite Hs; auto); exact I].
    change ((c :: r1) ++ x) with (c :: r1 ++ x).
    rewrite !(hit_body HCallID _ _ _ _ _ v eq_refl Hs Hv). apply (hb_run_clause HCallID pre (c :: r1) x i st v Hi).
  - destruct (hx_pv st) as [v|] eqn:Hv; [|rewrite hit_nopv by (try rewrite Hs; auto); exact I].
    change ((c :: r1) ++ x) with (c :: r1 ++ x).
    rewrite !(hit_body HCSeq _ _ _ _ _ v eq_refl Hs Hv). apply (hb_run_clause HCSeq pre (c :: r1) x i st v Hi).
  - destruct (hx_pv st) as [v|] eqn:Hv; [|rewrite hit_nopv by (try rewrite Hs; auto); exact I].
    change ((c :: r1) ++ x) with (c :: r1 ++ x).
    rewrite !(hit_body HCLen _ _ _ _ _ v eq_refl Hs Hv). apply (hb_run_clause HCLen pre (c :: r1) x i st v Hi).
  - destruct (hx_pv st) as [v|] eqn:Hv; [|rewrite hit_nopv by (try rewrite Hs; auto); exact I].
    change ((c :: r1) ++ x) with (c :: r1 ++ x).
    rewrite !(hit_body HContact _ _ _ _ _ v eq_refl Hs Hv). apply (hb_run_clause HContact pre (c :: r1) x i st v Hi).
  - destruct (hx_pv st) as [v|] eqn:Hv; [|rewrite hit_nopv by (try rewrite Hs; auto); exact I].
    change ((c :: r1) ++ x) with (c :: r1 ++ x).
    rewrite !(hit_body HExpires _ _ _ _ _ v eq_refl Hs Hv). apply (hb_run_clause HExpires pre (c :: r1) x i st v Hi).
  - destruct (hx_pv st) as [v|] eqn:Hv; [|rewrite hit_nopv by (try rewrite Hs; auto); exact I].
    change ((c :: r1) ++ x) with (c :: r1 ++ x).
    rewrite !(hit_body HPAI _ _ _ _ _ v eq_refl Hs Hv). apply (hb_run_clause HPAI pre (c :: r1) x i st v Hi).
  - cbn [app]. rewrite !hit_fin by exact Hs. apply clause_same. exact I.
Qed.

Theorem hl_IterExt : IterExt hl_iter.
Proof. apply clause_IterExt. intros pre rest x j t Hj. apply hl_clause. exact Hj. Qed.

Theorem hdrline_ExtOK : ExtOK parse_hdrline (fun st => obs_hdr (hx_h st) ++ obs_opt_phvals (hx_pv st)) (fun _ _ => True).
Proof. exact (parse_ExtOK hl_iter _ hl_IterExt). Qed.
