(* C05: lower bound of the header-value span of the Contact and P-Asserted-Identity list parsers: started
   just after the colon on a list whose current slot has not been started, every value and so the span
   from the first to the last value begins at or after the start offset. *)
From Sipsp Require Import RunLemmas Safe Resume Ext ExtLeaf ZSlice Harness ExtLists SafeMore SafeMsg Capacity ContactSpec TrimSpec.
From Coq Require Import ZifyN ZifyNat ZifyBool.
From RecordUpdate Require Import RecordUpdate.

Definition lbv (lb : N) (f : pf) : Prop := pl f = 0 \/ lb <= po f.
Lemma pf_extend_po f e f' : pf_extend f e = Some f' -> po f' = po f.
Proof. unfold pf_extend. destruct (e <? po f); [discriminate|]. intros H. injection H as <-. reflexivity. Qed.

(* a name-addr value started from scratch at i: it begins at or after any lb <= i *)
Lemma fb_inv_pfrom0 L pre i : L <= i -> fb_inv L pre i pfrom0.
Proof. intros H. unfold fb_inv, pfrom0, pf_end. cbn. repeat split; try lia; intros; try congruence; try contradiction. Qed.
Lemma fb_fresh_lb h lb pre rest i o e v : i = nnat (length pre) -> lb <= i ->
  run (fb_iter h) pre rest i 0 pfrom0 = Done o e v -> e = EOk \/ e = EMoreValues -> fb_parsed v = true /\ lb <= po (fb_v v).
Proof.
  intros Hi Hlb H He. pose proof (fb_run_ok lb h pre rest i pfrom0 (conj Hi (fb_inv_pfrom0 lb pre i Hlb))) as Sf. rewrite H in Sf.
  destruct Sf as (_ & _ & _ & S4). destruct (S4 He) as [_ Hb].
  pose proof (fb_run_ok_parsed _ _ _ _ _ _ _ _ H He) as Hp. split; [exact Hp|].
  destruct Hb as (_&_&_&_&_&_&_&_&_&_&_&B12). apply B12. unfold fb_parsed in Hp. destruct (fb_state v); discriminate.
Qed.

(* ---- Contact ------------------------------------------------------------------------------------------------------------------------------ *)
Definition LBct (lb : N) (c : contacts) : Prop := ct_wf c /\ ct_sel c = pfrom0 /\ lbv lb (ct_lasthval c).

Lemma ct_lb_next lb l v c6 (more : bool) : ct_wf l -> lbv lb (ct_lasthval l) -> fb_parsed v = true -> lb <= po (fb_v v) ->
  ct_count (ct_store l v) v = Some c6 ->
  LBct lb (if more then ct_reset_last_if (ct_slot_is_last l) c6 else c6).
Proof.
  intros Hwf Hlh Hp Hv E6.
  destruct (ct_store_proj l v) as (S1 & S2 & S3 & S4 & S5 & S6 & S7 & S8).
  destruct (ct_count_proj _ _ _ E6) as (P1 & P2 & P3 & P4 & P5). pose proof (ct_count_lh _ _ _ E6) as Hl6.
  set (X := if more then ct_reset_last_if (ct_slot_is_last l) c6 else c6).
  assert (Xp : ct_vals X = ct_vals c6 /\ ct_n X = ct_n c6 /\ ct_first X = ct_first c6 /\ ct_lasthval X = ct_lasthval c6 /\
               ct_last X = (if more && ct_slot_is_last l then pfrom0 else ct_last c6)).
  { subst X. unfold ct_reset_last_if. destruct more, (ct_slot_is_last l); destruct c6; cbn; repeat split; reflexivity. }
  destruct Xp as (X1 & X2 & X3 & X4 & X5).
  assert (Hn : ct_n X = ct_n l + 1) by (rewrite X2, P2, S1; reflexivity).
  assert (Hvals : ct_vals X = (if ct_cap l <=? ct_n l then ct_vals l else set_nth (N.to_nat (ct_n l)) v (ct_vals l))) by (rewrite X1, P1, S7; reflexivity).
  set (w := if more then pfrom0 else v).
  assert (Hlast : ct_last X = (if ct_cap l <=? ct_n l then w else ct_last l)).
  { rewrite X5, P4, S8. unfold ct_slot_is_last. subst w. destruct more, (ct_cap l <=? ct_n l); reflexivity. }
  split; [exact (next_wf l X v w Hwf Hn Hvals Hlast)|]. split.
  - apply (next_sel l X v w Hwf Hn Hvals Hlast). subst w. destruct more; [reflexivity|rewrite Hp; reflexivity].
  - rewrite X4. rewrite S1, S5 in Hl6. unfold lbv in *.
    destruct ((ct_n l =? 0) || pf_empty (ct_lasthval l)) eqn:Ec.
    + injection Hl6 as ->. right. exact Hv.
    + apply orb_false_iff in Ec. destruct Ec as [_ Ee]. unfold pf_empty in Ee. symmetry in Hl6. apply pf_extend_po in Hl6.
      right. rewrite Hl6. destruct Hlh as [Hz|Hz]; [lia|exact Hz].
Qed.

Lemma ct_iter_lb lb pre rest i c : i = nnat (length pre) -> lb <= i /\ LBct lb c ->
  match ct_iter pre rest i c with
  | Next k c' => (0 < k)%nat -> (k <= length rest)%nat -> lb <= i + nnat k /\ LBct lb c'
  | Ret o e c' => e = EOk -> LBct lb c'
  | IPanic => True
  end.
Proof.
  intros Hi [Hlb (Hwf & Hsel & Hlh)]. rewrite ct_iter_def, Hsel.
  destruct (run (fb_iter HdrContact) pre rest i 0 pfrom0) as [next e v| |] eqn:Er; [|exact I|exact I].
  rewrite ct_post_eq. cbv zeta.
  destruct e; try (intros E; discriminate E).
  - destruct (fb_fresh_lb HdrContact lb pre rest i next EOk v Hi Hlb Er (or_introl eq_refl)) as [Hp Hv].
    destruct (ct_count (ct_store c v) v) as [c6|] eqn:E6; [|exact I]. intros _.
    exact (ct_lb_next lb c v c6 false Hwf Hlh Hp Hv E6).
  - destruct (fb_fresh_lb HdrContact lb pre rest i next EMoreValues v Hi Hlb Er (or_intror eq_refl)) as [Hp Hv].
    destruct (ct_count (ct_store c v) v) as [c6|] eqn:E6; [|exact I]. intros _ _. split; [lia|].
    exact (ct_lb_next lb c v c6 true Hwf Hlh Hp Hv E6).
Qed.
Lemma ct_run_lb lb pre rest o c n c' : o = nnat (length pre) -> lb <= o -> LBct lb c ->
  run ct_iter pre rest o 0 c = Done n EOk c' -> LBct lb c'.
Proof.
  intros Ho Hlb Hc H.
  pose proof (run_invQ ct_iter (fun _ j t => lb <= j /\ LBct lb t) (fun _ _ _ _ e t => e = EOk -> LBct lb t)
                (fun p r j t Hj HP => ct_iter_lb lb p r j t Hj HP) rest pre o c Ho (conj Hlb Hc)) as R.
  rewrite H in R. destruct R as (_ & _ & _ & _ & _ & HQ). exact (HQ eq_refl).
Qed.

(* ---- P-Asserted-Identity ---------------------------------------------------------------------------------------------------------------- *)
Definition LBpa (lb : N) (c : pais) : Prop := pa_wf c /\ pa_sel c = pfrom0 /\ lbv lb (pa_lasthval c).

Lemma pa_iter_lb lb pre rest i c : i = nnat (length pre) -> lb <= i /\ LBpa lb c ->
  match pa_iter pre rest i c with
  | Next k c' => (0 < k)%nat -> (k <= length rest)%nat -> lb <= i + nnat k /\ LBpa lb c'
  | Ret o e c' => e = EOk -> LBpa lb c'
  | IPanic => True
  end.
Proof.
  intros Hi [Hlb (Hwf & Hsel & Hlh)]. rewrite pa_iter_def, Hsel.
  destruct (run (fb_iter HdrPAI) pre rest i 0 pfrom0) as [next e0 v| |] eqn:Er; [|exact I|exact I].
  unfold pa_post. cbv zeta. rewrite pa_store_prep, pa_is_last_prep.
  destruct (pa_store_proj c v) as (S1 & S2 & S3 & S4 & S5).
  assert (Main : forall more : bool, e0 = EOk \/ e0 = EMoreValues ->
            match (if (pa_n (pa_store c v) =? 0) || pf_empty (pa_lasthval (pa_store c v)) then Some (fb_v v)
                   else pf_extend (pa_lasthval (pa_store c v)) (pf_end (fb_v v))) with
            | Some lh => LBpa lb (if more then pa_reset_last_if (pa_slot_is_last c) ((pa_store c v) <| pa_lasthval := lh |> <| pa_n := pa_n (pa_store c v) + 1 |>)
                                  else (pa_store c v) <| pa_lasthval := lh |> <| pa_n := pa_n (pa_store c v) + 1 |>)
            | None => True
            end).
  { intros more He. destruct (fb_fresh_lb HdrPAI lb pre rest i next e0 v Hi Hlb Er He) as [Hp Hv].
    destruct (if (pa_n (pa_store c v) =? 0) || _ then _ else _) as [lh|] eqn:El; [|exact I].
    set (c3 := (pa_store c v) <| pa_lasthval := lh |> <| pa_n := pa_n (pa_store c v) + 1 |>).
    assert (C3 : pa_n c3 = pa_n c + 1 /\ pa_vals c3 = pa_vals (pa_store c v) /\ pa_last c3 = pa_last (pa_store c v) /\ pa_lasthval c3 = lh)
      by (subst c3; rewrite <- S1; destruct (pa_store c v); cbn; repeat split; reflexivity).
    destruct C3 as (C1 & C2 & C4 & C5).
    set (X := if more then pa_reset_last_if (pa_slot_is_last c) c3 else c3).
    assert (Xp : pa_vals X = pa_vals c3 /\ pa_n X = pa_n c3 /\ pa_lasthval X = pa_lasthval c3 /\
                 pa_last X = (if more && pa_slot_is_last c then pfrom0 else pa_last c3)).
    { subst X. unfold pa_reset_last_if. destruct more, (pa_slot_is_last c); destruct c3; cbn; repeat split; reflexivity. }
    destruct Xp as (X1 & X2 & X4 & X5).
    set (w := if more then pfrom0 else v).
    destruct (pa_next_sel c X v w Hwf ltac:(rewrite X2, C1; reflexivity) ltac:(rewrite X1, C2, S4; reflexivity)
                ltac:(rewrite X5, C4, S5; unfold pa_slot_is_last; subst w; destruct more, (pa_cap c <=? pa_n c); reflexivity)
                ltac:(subst w; destruct more; [reflexivity|rewrite Hp; reflexivity])) as [Hs Hw].
    split; [exact Hw|]. split; [exact Hs|]. rewrite X4, C5. rewrite S1, S3 in El. unfold lbv in *.
    destruct ((pa_n c =? 0) || pf_empty (pa_lasthval c)) eqn:Ec.
    - injection El as <-. right. exact Hv.
    - apply orb_false_iff in Ec. destruct Ec as [_ Ee]. unfold pf_empty in Ee. apply pf_extend_po in El.
      right. rewrite El. destruct Hlh as [Hz|Hz]; [lia|exact Hz]. }
  destruct e0; cbn [err_eqb orb andb]; try (intros E; discriminate E).
  - destruct (fb_star v); cbn [andb]; [intros E; discriminate E|].
    pose proof (Main false (or_introl eq_refl)) as M. destruct (if (pa_n (pa_store c v) =? 0) || _ then _ else _); [|exact I]. intros _. exact M.
  - destruct (fb_star v); cbn [andb]; [intros E; discriminate E|].
    pose proof (Main true (or_intror eq_refl)) as M. destruct (if (pa_n (pa_store c v) =? 0) || _ then _ else _); [|exact I].
    intros _ _. split; [lia|exact M].
Qed.
Lemma pa_run_lb lb pre rest o c n c' : o = nnat (length pre) -> lb <= o -> LBpa lb c ->
  run pa_iter pre rest o 0 c = Done n EOk c' -> LBpa lb c'.
Proof.
  intros Ho Hlb Hc H.
  pose proof (run_invQ pa_iter (fun _ j t => lb <= j /\ LBpa lb t) (fun _ _ _ _ e t => e = EOk -> LBpa lb t)
                (fun p r j t Hj HP => pa_iter_lb lb p r j t Hj HP) rest pre o c Ho (conj Hlb Hc)) as R.
  rewrite H in R. destruct R as (_ & _ & _ & _ & _ & HQ). exact (HQ eq_refl).
Qed.
