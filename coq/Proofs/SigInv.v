(* C19: the invariances of the message signature.  The walk over the stored headers looks at the first
   header of each fingerprinted type only: headers of other types - wherever they stand, whatever
   their names and values - and later repetitions of a type leave the signature as it is. *)
From Sipsp Require Import Harness Tables SigWalk.
From Coq Require Import ZifyN ZifyNat ZifyBool.

(* ---- the 16-bit flag sets ------------------------------------------------------------------------------------------------------------------------------ *)
Lemma hf_bit_small t : t < 16 -> hf_bit t = 2 ^ t.
Proof.
  intros H. unfold hf_bit. apply N.mod_small. change 65536 with (2 ^ 16). apply N.pow_lt_mono_r; lia.
Qed.
Lemma hf_bit_big t : 16 <= t -> hf_bit t = 0.
Proof.
  intros H. unfold hf_bit. replace t with (16 + (t - 16)) by lia. rewrite N.pow_add_r. change (2 ^ 16) with 65536.
  rewrite N.mul_comm. apply N.mod_mul. discriminate.
Qed.
Lemma land_pow2 f t : N.land f (2 ^ t) = if N.testbit f t then 2 ^ t else 0.
Proof.
  apply N.bits_inj. intros n. rewrite N.land_spec, N.pow2_bits_eqb.
  destruct (N.testbit f t) eqn:E.
  - rewrite N.pow2_bits_eqb. destruct (N.eqb_spec t n) as [->|Hne]; [rewrite E; reflexivity|now rewrite andb_false_r].
  - rewrite N.bits_0. destruct (N.eqb_spec t n) as [->|Hne]; [rewrite E; reflexivity|now rewrite andb_false_r].
Qed.
Lemma hf_test_spec f t : hf_test f t = (t <? 16) && N.testbit f t.
Proof.
  unfold hf_test. destruct (N.ltb_spec t 16) as [H|H].
  - rewrite (hf_bit_small t H), land_pow2. destruct (N.testbit f t); cbn [andb].
    + assert (2 ^ t <> 0) by (apply N.pow_nonzero; discriminate). destruct (2 ^ t =? 0) eqn:E; [apply N.eqb_eq in E; contradiction|reflexivity].
    + reflexivity.
  - rewrite (hf_bit_big t H), N.land_0_r. reflexivity.
Qed.
Lemma hf_set_big f t : 16 <= t -> hf_set f t = f.
Proof. intros H. unfold hf_set. rewrite (hf_bit_big t H). apply N.lor_0_r. Qed.
Lemma hf_set_bits f t n : t < 16 -> N.testbit (hf_set f t) n = N.testbit f n || (n =? t).
Proof. intros H. unfold hf_set. rewrite (hf_bit_small t H), N.lor_spec, N.pow2_bits_eqb. f_equal. apply N.eqb_sym. Qed.
Lemma hf_test_set f t t' : hf_test (hf_set f t) t' = hf_test f t' || ((t <? 16) && (t' =? t)).
Proof.
  destruct (N.ltb_spec t 16) as [H|H].
  - rewrite !hf_test_spec, (hf_set_bits f t t' H). destruct (N.ltb_spec t' 16) as [H'|H']; cbn; [reflexivity|]. symmetry. apply N.eqb_neq. lia.
  - rewrite (hf_set_big f t H). cbn. now rewrite orb_false_r.
Qed.
Lemma hf_set_comm f a b : hf_set (hf_set f a) b = hf_set (hf_set f b) a.
Proof. unfold hf_set. rewrite <- !N.lor_assoc. f_equal. apply N.lor_comm. Qed.

(* ---- fingerprinted and other header types ------------------------------------------------------------------------------------------------------ *)
Definition neutral (t : N) : Prop := hf_test go_sigHdrsFlags t = false.

Lemma neutral_id h : neutral (h_type h) -> snd (hdr_sig_id h) <> EOk.
Proof.
  unfold neutral, hdr_sig_id. intros Hn.
  destruct (nnat (length go_hdr2SigId) <=? h_type h) eqn:E; [cbn; discriminate|].
  assert (Ht : h_type h < 15) by (unfold go_hdr2SigId, nnat in E; cbn in E; lia).
  assert (Hall : forallb (fun t => hf_test go_sigHdrsFlags t || (nth (N.to_nat t) go_hdr2SigId 255 =? 255)) [0;1;2;3;4;5;6;7;8;9;10;11;12;13;14] = true) by (vm_compute; reflexivity).
  rewrite forallb_forall in Hall. specialize (Hall (h_type h)).
  assert (Hin : In (h_type h) [0;1;2;3;4;5;6;7;8;9;10;11;12;13;14]).
  { remember (h_type h) as t. clear -Ht. destruct t as [|p]; [cbn; auto|]. 
    do 14 (destruct p as [p|p|]; try (cbn in Ht; lia); cbn; auto 20). }
  specialize (Hall Hin). rewrite Hn in Hall. cbn [orb] in Hall. rewrite Hall. cbn. discriminate.
Qed.
Lemma neutral_not_via t : neutral t -> (t =? HdrVia) = false.
Proof. unfold neutral. intros H. destruct (N.eqb_spec t HdrVia) as [->|]; [vm_compute in H; discriminate|reflexivity]. Qed.

Section Walk.
  Variable viabr_sig : list byte -> N.
  Notation walk := (sig_walk viabr_sig).
  Definition wsig (r : option (msgsig * bool)) : option msgsig := match r with Some (s, _) => Some s | None => None end.

  (* the parsed-header flags contain the type of every stored header (true of every parsed message) *)
  (* unused slots of the array (type HdrNone) are walked too: they are of a type that is not fingerprinted *)
  Definition coherent (pf : N) (hs : list hdr) : Prop :=
    Forall (fun h => neutral (h_type h) \/ (h_type h < 16 -> N.testbit pf (h_type h) = true)) hs.

  (* one neutral header, not seen before: the signature is untouched, only "seen" grows *)
  Lemma neutral_step buf pf h hs seen sig : neutral (h_type h) -> hf_test seen (h_type h) = false -> h_type h < 16 ->
    walk buf pf (h :: hs) seen sig = walk buf pf hs (hf_set seen (h_type h)) sig.
  Proof.
    intros Hn Hs Ht. cbn [sig_walk]. rewrite Hs, (neutral_not_via _ Hn).
    pose proof (neutral_id h Hn) as Hid. destruct (hdr_sig_id h) as [s e]. cbn in Hid.
    assert (Ee : err_eqb e EOk = false) by (destruct e; try reflexivity; contradiction). rewrite Ee. cbn [andb].
    (* the completeness test cannot succeed: "seen" has a bit outside the fingerprinted set *)
    destruct (N.eqb_spec (N.land pf go_sigHdrsFlags) (hf_set seen (h_type h))) as [E|E]; [|reflexivity].
    exfalso. apply (f_equal (fun x => N.testbit x (h_type h))) in E. rewrite N.land_spec, (hf_set_bits _ _ _ Ht), N.eqb_refl, orb_true_r in E.
    unfold neutral in Hn. rewrite hf_test_spec in Hn. replace (h_type h <? 16) with true in Hn by lia. cbn [andb] in Hn. rewrite Hn, andb_false_r in E. discriminate.
  Qed.

  (* once every fingerprinted type the message has is seen, the rest of the walk changes nothing *)
  Lemma walk_complete buf pf : forall hs seen sig, coherent pf hs ->
    (forall n, n < 16 -> N.testbit (N.land pf go_sigHdrsFlags) n = true -> N.testbit seen n = true) ->
    wsig (walk buf pf hs seen sig) = Some sig.
  Proof.
    induction hs as [|h hs IH]; intros seen sig Hc Hsub; [reflexivity|].
    inversion Hc as [|? ? Hh Hc']; subst.
    destruct (hf_test seen (h_type h)) eqn:Hs; [cbn [sig_walk]; rewrite Hs; apply IH; assumption|].
    assert (Hn : neutral (h_type h)).
    { destruct Hh as [Hh|Hh]; [exact Hh|]. unfold neutral. rewrite hf_test_spec in *. destruct (N.ltb_spec (h_type h) 16) as [Ht|Ht]; [|reflexivity]. cbn [andb] in *.
      destruct (N.testbit go_sigHdrsFlags (h_type h)) eqn:Em; [|reflexivity].
      rewrite (Hsub _ Ht) in Hs; [discriminate|]. rewrite N.land_spec, (Hh Ht), Em. reflexivity. }
    destruct (N.ltb_spec (h_type h) 16) as [Ht|Ht].
    - rewrite (neutral_step buf pf h hs seen sig Hn Hs Ht). apply IH; [exact Hc'|].
      intros n Hn16 Hb. rewrite (hf_set_bits _ _ _ Ht). rewrite (Hsub n Hn16 Hb). reflexivity.
    - (* a type beyond the flag word: never recorded as seen *)
      cbn [sig_walk]. rewrite Hs, (neutral_not_via _ Hn). pose proof (neutral_id h Hn) as Hid. destruct (hdr_sig_id h) as [s e]. cbn in Hid.
      assert (Ee : err_eqb e EOk = false) by (destruct e; try reflexivity; contradiction). rewrite Ee. cbn [andb]. rewrite (hf_set_big _ _ Ht).
      destruct (_ =? seen); [reflexivity|]. apply IH; assumption.
  Qed.

  (* a neutral type already marked as seen, or not: the same signature *)
  Lemma walk_neutral_seen buf pf t : neutral t -> forall hs seen sig, coherent pf hs ->
    wsig (walk buf pf hs (hf_set seen t) sig) = wsig (walk buf pf hs seen sig).
  Proof.
    intros Hn. destruct (N.ltb_spec t 16) as [Ht|Ht]; [|intros hs seen sig _; now rewrite (hf_set_big _ _ Ht)].
    induction hs as [|h hs IH]; intros seen sig Hc; [reflexivity|].
    inversion Hc as [|? ? Hh Hc']; subst.
    destruct (N.eqb_spec (h_type h) t) as [Et|Et].
    - (* a header of the neutral type itself *)
      assert (H1 : hf_test (hf_set seen t) (h_type h) = true) by (rewrite hf_test_set, Et, N.eqb_refl; replace (t <? 16) with true by lia; apply orb_true_r).
      assert (L : walk buf pf (h :: hs) (hf_set seen t) sig = walk buf pf hs (hf_set seen t) sig) by (cbn [sig_walk]; rewrite H1; reflexivity).
      rewrite L.
      destruct (hf_test seen (h_type h)) eqn:Hs; [cbn [sig_walk]; rewrite Hs; apply IH; exact Hc'|].
      rewrite (neutral_step buf pf h hs seen sig ltac:(rewrite Et; exact Hn) Hs ltac:(lia)), Et. reflexivity.
    - assert (H1 : hf_test (hf_set seen t) (h_type h) = hf_test seen (h_type h)).
      { rewrite hf_test_set. replace (h_type h =? t) with false by lia. now rewrite andb_false_r, orb_false_r. }
      cbn [sig_walk]. rewrite H1. destruct (hf_test seen (h_type h)) eqn:Hs; [apply IH; exact Hc'|].
      destruct (if h_type h =? HdrVia then _ else Some sig) as [sig1|]; [|reflexivity].
      destruct (hdr_sig_id h) as [s e].
      match goal with |- context [if ?c then sig1 <| sg_hdrsig := ?x |> else sig1] => set (sig2 := if c then sig1 <| sg_hdrsig := x |> else sig1) end.
      destruct (_ && (go_NoSigHdrs <=? _)); [reflexivity|].
      rewrite (hf_set_comm seen t (h_type h)).
      (* the walk with the extra bit never sees the fingerprinted set complete *)
      destruct (N.eqb_spec (N.land pf go_sigHdrsFlags) (hf_set (hf_set seen (h_type h)) t)) as [E|E].
      { exfalso. apply (f_equal (fun x => N.testbit x t)) in E. rewrite N.land_spec, (hf_set_bits _ _ _ Ht), N.eqb_refl, orb_true_r in E.
        unfold neutral in Hn. rewrite hf_test_spec in Hn. replace (t <? 16) with true in Hn by lia. cbn [andb] in Hn. rewrite Hn, andb_false_r in E. discriminate. }
      destruct (N.eqb_spec (N.land pf go_sigHdrsFlags) (hf_set seen (h_type h))) as [E2|E2].
      + (* the walk without it stops here: what is left adds nothing *)
        cbn [wsig]. apply walk_complete; [exact Hc'|]. intros n Hn16 Hb. rewrite (hf_set_bits _ _ _ Ht). rewrite E2 in Hb. rewrite Hb. reflexivity.
      + apply IH. exact Hc'.
  Qed.

  (* C19: inserting (or removing) a header of a type that is not fingerprinted - anywhere in the list, with any name and value - *)
  Theorem neutral_header_irrelevant buf pf h : neutral (h_type h) -> forall hs1 hs2 seen sig, coherent pf (hs1 ++ hs2) ->
    wsig (walk buf pf (hs1 ++ h :: hs2) seen sig) = wsig (walk buf pf (hs1 ++ hs2) seen sig).
  Proof.
    intros Hn. induction hs1 as [|g hs1 IH]; intros hs2 seen sig Hc; cbn [app].
    - destruct (hf_test seen (h_type h)) eqn:Hs; [cbn [sig_walk]; rewrite Hs; reflexivity|].
      destruct (N.ltb_spec (h_type h) 16) as [Ht|Ht].
      + rewrite (neutral_step buf pf h hs2 seen sig Hn Hs Ht). apply walk_neutral_seen; assumption.
      + cbn [sig_walk]. rewrite Hs, (neutral_not_via _ Hn). pose proof (neutral_id h Hn) as Hid. destruct (hdr_sig_id h) as [s e]. cbn in Hid.
        assert (Ee : err_eqb e EOk = false) by (destruct e; try reflexivity; contradiction). rewrite Ee. cbn [andb]. rewrite (hf_set_big _ _ Ht).
        destruct (N.eqb_spec (N.land pf go_sigHdrsFlags) seen) as [E|E]; [|reflexivity].
        cbn [wsig]. symmetry. apply walk_complete; [exact Hc|]. intros n _ Hb. rewrite E in Hb. exact Hb.
    - inversion Hc as [|? ? Hg Hc']; subst. cbn [sig_walk].
      destruct (hf_test seen (h_type g)); [apply IH; exact Hc'|].
      destruct (if h_type g =? HdrVia then _ else Some sig) as [sig1|]; [|reflexivity].
      destruct (hdr_sig_id g) as [s e]. destruct (_ && (go_NoSigHdrs <=? _)); [reflexivity|].
      destruct (_ =? _); [reflexivity|]. apply IH. exact Hc'.
  Qed.

  (* C19: repeating a header type later - the first occurrence decides *)
  Theorem later_repetition_irrelevant buf pf h : forall hs1 hs2 seen sig, In (h_type h) (map h_type hs1) -> h_type h < 16 ->
    wsig (walk buf pf (hs1 ++ h :: hs2) seen sig) = wsig (walk buf pf (hs1 ++ hs2) seen sig).
  Proof.
    induction hs1 as [|g hs1 IH]; intros hs2 seen sig Hin Ht; [destruct Hin|]. cbn [app sig_walk].
    assert (Hskip : forall seen' sig', hf_test seen' (h_type h) = true ->
              walk buf pf (hs1 ++ h :: hs2) seen' sig' = walk buf pf (hs1 ++ hs2) seen' sig').
    { clear IH Hin. induction hs1 as [|g' hs1' IH']; intros seen' sig' Hs'; cbn [app sig_walk]; [rewrite Hs'; reflexivity|].
      destruct (hf_test seen' (h_type g')); [apply IH'; exact Hs'|].
      destruct (if h_type g' =? HdrVia then _ else Some sig') as [sig1|]; [|reflexivity].
      destruct (hdr_sig_id g') as [s e]. destruct (_ && (go_NoSigHdrs <=? _)); [reflexivity|]. destruct (_ =? _); [reflexivity|].
      apply IH'. rewrite hf_test_set, Hs'. reflexivity. }
    destruct (hf_test seen (h_type g)) eqn:Hs.
    - destruct Hin as [Eg|Hin]; [rewrite Hskip by (rewrite <- Eg; exact Hs); reflexivity|apply IH; assumption].
    - destruct (if h_type g =? HdrVia then _ else Some sig) as [sig1|]; [|reflexivity].
      destruct (hdr_sig_id g) as [s e]. destruct (_ && (go_NoSigHdrs <=? _)); [reflexivity|]. destruct (_ =? _); [reflexivity|].
      destruct Hin as [Eg|Hin]; [|apply IH; assumption].
      rewrite Hskip; [reflexivity|]. rewrite hf_test_set, Eg, N.eqb_refl. replace (h_type h <? 16) with true by lia. apply orb_true_r.
  Qed.
End Walk.

(* ---- at the level of GetMsgSig ---------------------------------------------------------------------------------------------------------------------------- *)
Section Msg.
  Variable callid_sig : list byte -> N * N.
  Variable str_sig : list byte -> N.
  Variable viabr_sig : list byte -> N.
  Notation walk := (sig_walk viabr_sig).
  Notation gsig := (get_msg_sig callid_sig str_sig viabr_sig).
  Definition gsig_sig (r : option (msgsig * err)) : option msgsig := match r with Some (s, _) => Some s | None => None end.

  (* the walk looks at the parsed-header flags only through the fingerprinted types *)
  Lemma walk_pf buf pf pf' : N.land pf go_sigHdrsFlags = N.land pf' go_sigHdrsFlags ->
    forall hs seen sig, walk buf pf hs seen sig = walk buf pf' hs seen sig.
  Proof.
    intros E. induction hs as [|h hs IH]; intros seen sig; [reflexivity|]. cbn [sig_walk]. rewrite E.
    destruct (hf_test seen (h_type h)); [apply IH|].
    destruct (if h_type h =? HdrVia then _ else Some sig) as [sig1|]; [|reflexivity].
    destruct (hdr_sig_id h) as [s e]. destruct (_ && (go_NoSigHdrs <=? _)); [reflexivity|]. destruct (_ =? _); [reflexivity|apply IH].
  Qed.

  (* what two messages must share for their signatures to be compared *)
  Definition same_fingerprint_sources (m m' : pmsg) : Prop :=
    msg_request m' = msg_request m /\ msg_pv m' = msg_pv m /\ m_fl m' = m_fl m /\
    N.land (hl_pflags (hs_l (m_hs m'))) go_sigHdrsFlags = N.land (hl_pflags (hs_l (m_hs m))) go_sigHdrsFlags.

  Lemma gsig_of_walk m m' buf : same_fingerprint_sources m m' ->
    (forall seen sig, wsig (walk buf (hl_pflags (hs_l (m_hs m))) (hl_hdrs (hs_l (m_hs m'))) seen sig)
                      = wsig (walk buf (hl_pflags (hs_l (m_hs m))) (hl_hdrs (hs_l (m_hs m))) seen sig)) ->
    gsig_sig (gsig m' buf) = gsig_sig (gsig m buf).
  Proof.
    intros (Hr & Hpv & Hfl & Hpf) Hw. unfold get_msg_sig. rewrite Hr, Hpv, Hfl. destruct (msg_request m); [|reflexivity].
    destruct (bget buf _) as [cid|]; [|reflexivity]. destruct (bget buf _) as [tag|]; [|reflexivity].
    destruct (callid_sig cid) as [cs cl].
    rewrite (walk_pf buf _ _ Hpf). specialize (Hw 0 (mkmsgsig (fl_methodno (m_fl m)) cl cs (str_sig tag) 0 [])).
    destruct (walk buf _ (hl_hdrs (hs_l (m_hs m'))) 0 _) as [[s1 b1]|], (walk buf _ (hl_hdrs (hs_l (m_hs m))) 0 _) as [[s2 b2]|]; cbn in Hw; try discriminate; [|reflexivity].
    injection Hw as ->. destruct b1, b2; repeat (destruct (_ <? _)); reflexivity.
  Qed.

  (* inserting / removing a header of a type that is not fingerprinted, anywhere, with any name and value *)
  Theorem sig_ignores_other_headers m m' buf h hs1 hs2 : same_fingerprint_sources m m' -> neutral (h_type h) ->
    hl_hdrs (hs_l (m_hs m)) = hs1 ++ hs2 -> hl_hdrs (hs_l (m_hs m')) = hs1 ++ h :: hs2 ->
    coherent (hl_pflags (hs_l (m_hs m))) (hs1 ++ hs2) ->
    gsig_sig (gsig m' buf) = gsig_sig (gsig m buf).
  Proof.
    intros Hs Hn E E' Hc. apply gsig_of_walk; [exact Hs|]. intros seen sig. rewrite E, E'. apply neutral_header_irrelevant; assumption.
  Qed.
  (* repeating a header type after its first occurrence *)
  Theorem sig_ignores_later_repetitions m m' buf h hs1 hs2 : same_fingerprint_sources m m' ->
    In (h_type h) (map h_type hs1) -> h_type h < 16 ->
    hl_hdrs (hs_l (m_hs m)) = hs1 ++ hs2 -> hl_hdrs (hs_l (m_hs m')) = hs1 ++ h :: hs2 ->
    gsig_sig (gsig m' buf) = gsig_sig (gsig m buf).
  Proof.
    intros Hs Hin Ht E E'. apply gsig_of_walk; [exact Hs|]. intros seen sig. rewrite E, E'. apply later_repetition_irrelevant; assumption.
  Qed.
End Msg.
