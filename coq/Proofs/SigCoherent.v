(* C19: every successfully parsed header block is "coherent": the parsed-header flags contain the type
   of every stored header, and every other slot of the array is of the unfingerprinted type HdrNone. *)
From Sipsp Require Import Driver Harness RunLemmas Ext ExtLeaf ExtAdv OkBounds ExtHdrLine HdrLineBounds ExtHeaders MsgBounds ExtMsg ExtLists Capacity CapHeaders Tables SigWalk SigInv.
From Coq Require Import ZifyN ZifyNat ZifyBool.
From RecordUpdate Require Import RecordUpdate.

Definition nxt_ok (r : ires hline) : Prop := match r with Next _ st' => h_state (hx_h st') <> HInit | _ => True end.

Lemma colon_nxt pre rest i k st : nxt_ok (hl_colon pre rest i k st).
Proof.
  rewrite hl_colon_eq. unfold hl_colon'. destruct (zget _ _ _ _); [|exact I]. cbv zeta.
  destruct (hb_pick _) as [[hs v]|].
  - pose proof (hb_run_noNext hs (zpre (S k) pre rest) (zrest (S k) rest) (i + nnat k + 1) (st <| hx_h := hx_h st <| h_state := HBodyStart |> <| h_type := get_hdr_type l |> |>) v) as H.
    destruct (hb_run _ _ _ _ _ _); [destruct H|exact I|exact I].
  - cbn. destruct st as [[? ? ? ?] ?]. cbn. discriminate.
Qed.
Lemma name_nxt pre rest i st : nxt_ok (hl_name_ph pre rest i st).
Proof.
  unfold hl_name_ph. destruct (skipn _ rest) as [|c r]; [exact I|]. destruct (is_sp c).
  - destruct (pf_extend _ _); [|exact I]. destruct (pf_empty _); [exact I|]. cbn. destruct st as [[? ? ? ?] ?]. cbn. discriminate.
  - destruct (c =? 58); [|exact I]. destruct (pf_extend _ _); [|exact I]. destruct (pf_empty _); [exact I|apply colon_nxt].
Qed.

Lemma hl_iter_facts pre rest i st :
  match hit pre rest i st with
  | Next _ st' => h_state (hx_h st') <> HInit
  | Ret _ EEmpty st' => h_state (hx_h st) = HInit /\ h_type (hx_h st') = h_type (hx_h st)
  | _ => True
  end.
Proof.
  assert (W : forall r : ires hline, noE r -> nxt_ok r ->
            match r with Next _ st' => h_state (hx_h st') <> HInit | Ret _ EEmpty st' => h_state (hx_h st) = HInit /\ h_type (hx_h st') = h_type (hx_h st) | _ => True end).
  { intros r H1 H2. destruct r as [k s|o e s|]; auto. destruct e; auto. destruct H1. }
  destruct rest as [|c r1]; [exact I|].
  destruct (h_state (hx_h st)) eqn:Hs.
  - rewrite hit_init by exact Hs. destruct (is_cr c).
    { destruct r1 as [|d r2]; [exact I|]. split; [reflexivity|]. destruct st as [[? ? ? ?] ?]; reflexivity. }
    destruct (is_lf c); [split; [reflexivity|]; destruct st as [[? ? ? ?] ?]; reflexivity|]. destruct (pf_set i i); [|exact I].
    pose proof (name_noE pre (c :: r1) i (st <| hx_h := hx_h st <| h_state := HName |> <| h_name := p |> |>)) as N1.
    pose proof (name_nxt pre (c :: r1) i (st <| hx_h := hx_h st <| h_state := HName |> <| h_name := p |> |>)) as N2.
    destruct (hl_name_ph _ _ _ _) as [k s|o e s|]; auto. destruct e; auto. destruct N1.
  - rewrite hit_name by exact Hs. apply W; [apply name_noE|apply name_nxt].
  - rewrite hit_nameend by exact Hs. apply W; unfold hl_nameend; destruct (skipn _ _) as [|d r]; try exact I;
      (destruct (d =? 58); [first [apply colon_noE|apply colon_nxt]|exact I]).
  - rewrite hit_bstart by exact Hs. apply W; unfold hl_bstart; destruct (skipLWS _ _); try exact I; destruct (pf_set _ _); try exact I.
    cbn. destruct st as [[? ? ? ?] ?]. cbn. discriminate.
  - rewrite hit_val by exact Hs. apply W; unfold hl_val; destruct (skipn _ _); try exact I; destruct (pf_extend _ _); try exact I;
      unfold hl_valend; destruct (skipLWS _ _); try exact I. cbn. destruct st as [[? ? ? ?] ?]. cbn. discriminate.
  - rewrite hit_valend by exact Hs. apply W; unfold hl_valend; destruct (skipLWS _ _); try exact I. cbn. destruct st as [[? ? ? ?] ?]. cbn in *. discriminate.
  - destruct (hx_pv st) as [v|] eqn:Hv; [|rewrite hit_nopv by (try rewrite Hs; auto); exact I].
    rewrite (hit_body HFrom _ _ _ _ _ v eq_refl Hs Hv). apply W; [apply hb_run_noE|]. pose proof (hb_run_noNext HFrom pre (c :: r1) i st v) as H. destruct (hb_run _ _ _ _ _ _); [destruct H|exact I|exact I].
  - destruct (hx_pv st) as [v|] eqn:Hv; [|rewrite hit_nopv by (try rewrite Hs; auto); exact I].
    rewrite (hit_body HTo _ _ _ _ _ v eq_refl Hs Hv). apply W; [apply hb_run_noE|]. pose proof (hb_run_noNext HTo pre (c :: r1) i st v) as H. destruct (hb_run _ _ _ _ _ _); [destruct H|exact I|exact I].
  - destruct (hx_pv st) as [v|] eqn:Hv; [|rewrite hit_nopv by (try rewrite Hs; auto); exact I].
    rewrite (hit_body HCallID _ _ _ _ _ v eq_refl Hs Hv). apply W; [apply hb_run_noE|]. pose proof (hb_run_noNext HCallID pre (c :: r1) i st v) as H. destruct (hb_run _ _ _ _ _ _); [destruct H|exact I|exact I].
  - destruct (hx_pv st) as [v|] eqn:Hv; [|rewrite hit_nopv by (try rewrite Hs; auto); exact I].
    rewrite (hit_body HCSeq _ _ _ _ _ v eq_refl Hs Hv). apply W; [apply hb_run_noE|]. pose proof (hb_run_noNext HCSeq pre (c :: r1) i st v) as H. destruct (hb_run _ _ _ _ _ _); [destruct H|exact I|exact I].
  - destruct (hx_pv st) as [v|] eqn:Hv; [|rewrite hit_nopv by (try rewrite Hs; auto); exact I].
    rewrite (hit_body HCLen _ _ _ _ _ v eq_refl Hs Hv). apply W; [apply hb_run_noE|]. pose proof (hb_run_noNext HCLen pre (c :: r1) i st v) as H. destruct (hb_run _ _ _ _ _ _); [destruct H|exact I|exact I].
  - destruct (hx_pv st) as [v|] eqn:Hv; [|rewrite hit_nopv by (try rewrite Hs; auto); exact I].
    rewrite (hit_body HContact _ _ _ _ _ v eq_refl Hs Hv). apply W; [apply hb_run_noE|]. pose proof (hb_run_noNext HContact pre (c :: r1) i st v) as H. destruct (hb_run _ _ _ _ _ _); [destruct H|exact I|exact I].
  - destruct (hx_pv st) as [v|] eqn:Hv; [|rewrite hit_nopv by (try rewrite Hs; auto); exact I].
    rewrite (hit_body HExpires _ _ _ _ _ v eq_refl Hs Hv). apply W; [apply hb_run_noE|]. pose proof (hb_run_noNext HExpires pre (c :: r1) i st v) as H. destruct (hb_run _ _ _ _ _ _); [destruct H|exact I|exact I].
  - destruct (hx_pv st) as [v|] eqn:Hv; [|rewrite hit_nopv by (try rewrite Hs; auto); exact I].
    rewrite (hit_body HPAI _ _ _ _ _ v eq_refl Hs Hv). apply W; [apply hb_run_noE|]. pose proof (hb_run_noNext HPAI pre (c :: r1) i st v) as H. destruct (hb_run _ _ _ _ _ _); [destruct H|exact I|exact I].
  - rewrite hit_fin by exact Hs. exact I.
Qed.

(* an "empty line" verdict hands back the slot it was given, marked finished *)
Lemma hl_run_empty_type pre rest i st o x : run hl_iter pre rest i 0 st = Done o EEmpty x -> h_type (hx_h x) = h_type (hx_h st).
Proof.
  intros H.
  pose proof (run_inv hl_iter (fun _ _ s => h_state (hx_h s) = HInit -> h_type (hx_h s) = h_type (hx_h st))
                (fun _ e s' => e = EEmpty -> h_type (hx_h s') = h_type (hx_h st))) as R.
  specialize (R ltac:(intros p r j s P; pose proof (hl_iter_facts p r j s) as X; destruct (hit p r j s) as [k s'|o' e' s'|]; auto;
                      [intros _ _ E; contradiction|intros ->; destruct X as [X1 X2]; rewrite X2; apply P; exact X1])
                rest pre i st (fun _ => eq_refl)).
  rewrite H in R. apply R. reflexivity.
Qed.

Definition CI (l : hdrlst) : Prop :=
  hl_wf l /\ hl_slot l = hdr0 /\
  forall j, (j < N.to_nat (hl_n l))%nat -> (j < length (hl_hdrs l))%nat ->
    h_type (nth j (hl_hdrs l) hdr0) < 16 -> N.testbit (hl_pflags l) (h_type (nth j (hl_hdrs l) hdr0)) = true.

Lemma neutral_none : neutral HdrNone. Proof. vm_compute. reflexivity. Qed.

Lemma testbit_flag pf t n : n < 16 -> N.testbit (N.lor pf (2 ^ t) mod 65536) n = N.testbit pf n || (n =? t).
Proof.
  intros Hn. change 65536 with (2 ^ 16). rewrite N.mod_pow2_bits_low by exact Hn. rewrite N.lor_spec, N.pow2_bits_eqb. f_equal. apply N.eqb_sym.
Qed.

Lemma hs_iter_coherent pre rest i st : CI (hs_l st) ->
  match hs_iter pre rest i st with
  | Next k st' => (0 < k)%nat -> (k <= length rest)%nat -> CI (hs_l st')
  | Ret o e st' => e = EOk -> coherent (hl_pflags (hs_l st')) (hl_hdrs (hs_l st'))
  | IPanic => True
  end.
Proof.
  intros (Hwf & Hslot & Hst). destruct rest as [|c r]; [cbn; intros E; discriminate E|].
  rewrite hs_iter_def. unfold hs_sel. rewrite Hslot.
  destruct (run hl_iter pre (c :: r) i 0 (mkhline hdr0 (hs_pv st))) as [n e x| |] eqn:Er; try exact I.
  unfold hs_post. cbv zeta. destruct e; try (intros E; discriminate E).
  - (* a header is complete *)
    intros _ _. set (h := hx_h x).
    destruct (hl_store_proj (hs_l st) h) as (S1 & S2 & S3 & S4 & S5).
    set (l1 := hl_store (hs_l st) h) in *.
    set (p1 := l1 <| hl_pflags := _ |>).
    assert (Pp : hl_n p1 = hl_n l1 /\ hl_hdrs p1 = hl_hdrs l1 /\ hl_tmp p1 = hl_tmp l1 /\ hl_pflags p1 = N.lor (hl_pflags l1) (2 ^ h_type h) mod 65536)
      by (subst p1; destruct l1; cbn; repeat split; reflexivity).
    destruct Pp as (B2 & B3 & B4 & B5).
    destruct (hl_sethdr_proj p1 h) as (C1 & C2 & C3 & C4 & C5). set (l2 := hl_sethdr p1 h) in *.
    set (l3 := if hl_is_tmp (hs_l st) then l2 <| hl_tmp := hdr0 |> else l2).
    assert (D : hl_n l3 = hl_n l2 /\ hl_hdrs l3 = hl_hdrs l2 /\ hl_tmp l3 = (if hl_is_tmp (hs_l st) then hdr0 else hl_tmp l2) /\ hl_pflags l3 = hl_pflags l2)
      by (subst l3; destruct (hl_is_tmp (hs_l st)); destruct l2; cbn; repeat split; reflexivity).
    destruct D as (D2 & D3 & D5 & D6).
    set (l4 := l3 <| hl_n := hl_n l3 + 1 |>).
    assert (F : hl_n l4 = hl_n l3 + 1 /\ hl_hdrs l4 = hl_hdrs l3 /\ hl_tmp l4 = hl_tmp l3 /\ hl_pflags l4 = hl_pflags l3) by (subst l4; destruct l3; cbn; repeat split; reflexivity).
    destruct F as (G2 & G3 & G5 & G6).
    assert (X1 : hl_n l4 = hl_n (hs_l st) + 1) by (rewrite G2, D2, C2, B2, S2; reflexivity).
    assert (X2 : hl_hdrs l4 = (if hl_is_tmp (hs_l st) then hl_hdrs (hs_l st) else set_nth (N.to_nat (hl_n (hs_l st))) h (hl_hdrs (hs_l st)))) by (rewrite G3, D3, C3, B3, S4; reflexivity).
    assert (X3 : hl_tmp l4 = (if hl_is_tmp (hs_l st) then hdr0 else hl_tmp (hs_l st))) by (rewrite G5, D5, C4, B4, S5; destruct (hl_is_tmp (hs_l st)); reflexivity).
    assert (X4 : hl_pflags l4 = N.lor (hl_pflags (hs_l st)) (2 ^ h_type h) mod 65536) by (rewrite G6, D6, C1, B5, S1; reflexivity).
    cbn [hs_l]. split; [exact (hnext_wf (hs_l st) l4 h Hwf X1 X2 X3)|]. split; [exact (hnext_slot (hs_l st) l4 h Hwf X1 X2 X3)|].
    intros j Hj Hlen. rewrite X1 in Hj. rewrite (hnext_len (hs_l st) l4 h X2 X3) in Hlen.
    rewrite (hnext_nth (hs_l st) l4 h X1 X2 j) by lia. rewrite X4.
    destruct (j =? N.to_nat (hl_n (hs_l st)))%nat eqn:Ej.
    + intros Ht. rewrite (testbit_flag _ _ _ Ht), N.eqb_refl. apply orb_true_r.
    + intros Ht. rewrite (testbit_flag _ _ _ Ht). apply Nat.eqb_neq in Ej. rewrite (Hst j ltac:(lia) Hlen Ht). reflexivity.
  - (* the blank line: end of the block *)
    pose proof (hl_run_empty_type _ _ _ _ _ _ Er) as Hty. cbn [hx_h] in Hty.
    assert (Hcoh : coherent (hl_pflags (hl_store (hs_l st) (hx_h x))) (hl_hdrs (hl_store (hs_l st) (hx_h x)))).
    { destruct (hl_store_proj (hs_l st) (hx_h x)) as (S1 & S2 & S3 & S4 & S5). rewrite S1, S4.
      unfold coherent. apply Forall_forall. intros g Hg. apply (In_nth _ _ hdr0) in Hg. destruct Hg as (j & Hj & <-).
      destruct Hwf as [W1 W2].
      assert (Hlen : length (if hl_is_tmp (hs_l st) then hl_hdrs (hs_l st) else set_nth (N.to_nat (hl_n (hs_l st))) (hx_h x) (hl_hdrs (hs_l st))) = length (hl_hdrs (hs_l st)))
        by (destruct (hl_is_tmp (hs_l st)); [reflexivity|apply set_nth_len]).
      rewrite Hlen in Hj.
      destruct (lt_eq_lt_dec j (N.to_nat (hl_n (hs_l st)))) as [[Hlt|Heq]|Hgt].
      - right. intros Ht. replace (nth j (if hl_is_tmp (hs_l st) then _ else _) hdr0) with (nth j (hl_hdrs (hs_l st)) hdr0) in *
          by (destruct (hl_is_tmp (hs_l st)); [reflexivity|symmetry; apply nth_set_nth_ne; lia]).
        apply Hst; assumption.
      - left. unfold hl_is_tmp, hl_cap in *. destruct (nnat (length (hl_hdrs (hs_l st))) <=? hl_n (hs_l st)) eqn:E; [unfold nnat in *; lia|].
        subst j. rewrite nth_set_nth by exact Hj. rewrite Hty. apply neutral_none.
      - left. replace (nth j (if hl_is_tmp (hs_l st) then _ else _) hdr0) with (nth j (hl_hdrs (hs_l st)) hdr0)
          by (destruct (hl_is_tmp (hs_l st)); [reflexivity|symmetry; apply nth_set_nth_ne; lia]).
        rewrite (W1 j Hgt). apply neutral_none. }
    destruct (0 <? _); intros E; try discriminate E. exact Hcoh.
Qed.

(* ParseHeaders on a fresh header list (any capacity, with or without PHdrVals): a successful result is coherent *)
Theorem headers_coherent buf offs n pv o st' :
  parse_headers buf offs (mkhdrs_st (hdrlst_init (repeat hdr0 n)) pv) = Done o EOk st' ->
  coherent (hl_pflags (hs_l st')) (hl_hdrs (hs_l st')).
Proof.
  intros H. unfold parse_headers, parse in H. destruct (zinit buf offs) as [pre rest].
  pose proof (run_inv hs_iter (fun _ _ s => CI (hs_l s)) (fun _ e s' => e = EOk -> coherent (hl_pflags (hs_l s')) (hl_hdrs (hs_l s')))) as R.
  specialize (R ltac:(intros p r j s P; exact (hs_iter_coherent p r j s P)) rest pre offs (mkhdrs_st (hdrlst_init (repeat hdr0 n)) pv)).
  rewrite H in R. apply R; [|reflexivity].
  unfold CI, hdrlst_init. cbn. split; [split; [intros j _; apply nth_repeat|reflexivity]|]. split.
  - unfold hl_slot, hl_is_tmp, hl_cap. cbn. destruct (_ <=? 0); [reflexivity|apply nth_repeat].
  - intros j Hj. lia.
Qed.

(* ---- ParseSIPMsg --------------------------------------------------------------------------------------------------------------------- *)
Lemma body_hs flags L o m : match msg_body flags L o m with Done _ _ m' => m_hs m' = m_hs m | _ => True end.
Proof.
  unfold msg_body, msg_end. destruct (pf_set o o) as [b0|]; [|exact I]. destruct m as [fl hs body bl raw st offs].
  cbn -[testbit N.ltb N.add N.sub pf_extend].
  repeat match goal with
         | |- context [if ?b then _ else _] => destruct b
         | |- context [match pf_extend ?a ?b with _ => _ end] => destruct (pf_extend a b)
         end; try exact I; reflexivity.
Qed.

Lemma fail_ok flags o e m : match msg_fail flags o e m with Done _ _ m' => m_state m' = MErr \/ m_state m' = m_state m | _ => True end.
Proof.
  unfold msg_fail. destruct e; try (left; destruct m; reflexivity). destruct (testbit flags bSIPMsgNoMoreData); [left; destruct m; reflexivity|right; reflexivity].
Qed.

Definition msg_coherent (m : pmsg) : Prop := coherent (hl_pflags (hs_l (m_hs m))) (hl_hdrs (hs_l (m_hs m))).

(* a message parsed in one call from a fresh (or Reset) object, once the header block is complete (the
   object is in its final state, or in the "no Content-Length" state): the header flags and the header
   array agree on everything the signature walk looks at *)
Theorem message_coherent flags buf offs bl n cv o e m' :
  parse_sipmsg flags buf offs (msg_init bl (repeat hdr0 n) cv) = Done o e m' -> m_state m' = MFIN \/ m_state m' = MNoCLen -> msg_coherent m'.
Proof.
  unfold parse_sipmsg, msg_init. cbn -[msg_fline]. unfold msg_fline. cbn -[parse_fline msg_headers msg_fail].
  destruct (parse_fline buf offs fline0) as [o1 e1 fl| |]; try discriminate.
  assert (Hf : forall oo ee m, (m_state m = MFLine \/ m_state m = MHeaders) -> msg_fail flags oo ee m = Done o e m' -> m_state m' = MFIN \/ m_state m' = MNoCLen -> msg_coherent m').
  { intros oo ee m Hm H Hs. pose proof (fail_ok flags oo ee m) as F. rewrite H in F. destruct F as [F|F]; rewrite F in Hs; destruct Hm as [Hm|Hm]; try rewrite Hm in Hs; destruct Hs; discriminate. }
  destruct e1; try (apply Hf; left; reflexivity).
  unfold msg_headers. cbn -[parse_headers msg_body msg_fail].
  pose proof (headers_coherent buf o1 n (Some (phvals_init cv))) as Hc.
  destruct (parse_headers buf o1 _) as [o2 e2 hs| |]; try discriminate.
  destruct e2; try (apply Hf; right; reflexivity).
  intros H _. match type of H with msg_body ?f ?L ?oo ?mm = _ => pose proof (body_hs f L oo mm) as B end. rewrite H in B.
  unfold msg_coherent. rewrite B. cbn. apply (Hc o2 hs eq_refl).
Qed.

(* ---- any way of feeding the message ---------------------------------------------------------------------------------------------------- *)
(* feeds B i s o s': (o, s') is what the caller holds after zero or more calls on growing prefixes of B,
   each answered "more", each continued at the returned offset with the same object *)
Inductive feeds (flags : N) (B : list byte) : N -> pmsg -> N -> pmsg -> Prop :=
| feeds_nil i s : feeds flags B i s i s
| feeds_step p x i s o s' o2 s2 : B = p ++ x -> i <= nnat (length p) -> parse_sipmsg flags p i s = Done o EMore s' ->
    feeds flags B o s' o2 s2 -> feeds flags B i s o2 s2.

Lemma feeds_same flags B i s o2 s2 : testbit flags bSIPMsgNoMoreData = false -> feeds flags B i s o2 s2 ->
  parse_sipmsg flags B o2 s2 = parse_sipmsg flags B i s.
Proof.
  intros Hf H. induction H as [|p x i s o s' o2 s2 EB Hi Hp _ IH]; [reflexivity|].
  rewrite IH. pose proof (msg_resume flags p x i s Hf Hi) as R. rewrite Hp in R. subst B. apply R.
Qed.

Theorem message_coherent_fed flags B offs bl n cv o s o' e m' : testbit flags bSIPMsgNoMoreData = false ->
  feeds flags B offs (msg_init bl (repeat hdr0 n) cv) o s ->
  parse_sipmsg flags B o s = Done o' e m' -> m_state m' = MFIN \/ m_state m' = MNoCLen -> msg_coherent m'.
Proof.
  intros Hf Hfeed H. rewrite (feeds_same _ _ _ _ _ _ Hf Hfeed) in H. exact (message_coherent _ _ _ _ _ _ _ _ _ H).
Qed.

Section Sig.
  Variable callid_sig : list byte -> N * N.
  Variable str_sig : list byte -> N.
  Variable viabr_sig : list byte -> N.
  Let gsig := get_msg_sig callid_sig str_sig viabr_sig.

  Theorem parsed_sig_ignores_other_headers flags B offs bl n cv o s o' e m m' sbuf h hs1 hs2 :
    testbit flags bSIPMsgNoMoreData = false -> feeds flags B offs (msg_init bl (repeat hdr0 n) cv) o s ->
    parse_sipmsg flags B o s = Done o' e m -> m_state m = MFIN \/ m_state m = MNoCLen ->
    same_fingerprint_sources m m' -> neutral (h_type h) ->
    hl_hdrs (hs_l (m_hs m)) = hs1 ++ hs2 -> hl_hdrs (hs_l (m_hs m')) = hs1 ++ h :: hs2 ->
    gsig_sig (gsig m' sbuf) = gsig_sig (gsig m sbuf).
  Proof.
    intros Hf Hfeed Hp Hs Hsrc Hn E E'. apply (sig_ignores_other_headers _ _ _ m m' sbuf h hs1 hs2 Hsrc Hn E E').
    rewrite <- E. exact (message_coherent_fed _ _ _ _ _ _ _ _ _ _ _ Hf Hfeed Hp Hs).
  Qed.
End Sig.
