(* Generic facts about the loop driver `run`: unfolding, the invariant rule
   (method S of DESIGN.md) and basic zipper arithmetic. *)
From Sipsp Require Export Driver.
From Coq Require Import ZifyN ZifyNat ZifyBool.

Lemma nnat_S k : nnat (S k) = nnat k + 1.
Proof. unfold nnat. lia. Qed.

Section Run.
  Context {St : Type}.
  Variable iter : list byte -> list byte -> N -> St -> ires St.

  (* skipping k bytes is k structural steps *)
  Lemma run_skip : forall k pre rest i s, (k <= length rest)%nat ->
    run iter pre rest i k s = run iter (zpre k pre rest) (zrest k rest) (i + nnat k) 0 s.
  Proof.
    induction k as [|k IH]; intros pre rest i s Hk.
    - unfold zpre, zrest, nnat. cbn. rewrite N.add_0_r. reflexivity.
    - destruct rest as [|c r]; [cbn in Hk; lia|].
      cbn [run]. rewrite IH by (cbn in Hk; lia).
      unfold zpre, zrest. cbn [firstn skipn rev]. rewrite <- app_assoc. cbn [app].
      rewrite nnat_S. f_equal. lia.
  Qed.

  (* the invariant rule: P relates the bytes read so far (reversed), the
     offset and the state; it must be kept by every iteration *)
  Variable P : list byte -> N -> St -> Prop.
  Variable Q : N -> err -> St -> Prop.
  Hypothesis step_ok : forall pre rest i s, P pre i s ->
    match iter pre rest i s with
    | Next k s' => (0 < k)%nat -> (k <= length rest)%nat -> P (zpre k pre rest) (i + nnat k) s'
    | Ret o e s' => Q o e s'
    | IPanic => True
    end.

  Lemma run_inv : forall rest pre i s, P pre i s ->
    match run iter pre rest i 0 s with
    | Done o e s' => Q o e s'
    | _ => True
    end.
  Proof.
    intros rest. remember (length rest) as n eqn:Hn. revert rest Hn.
    induction n as [n IH] using lt_wf_ind. intros rest Hn pre i s HP.
    destruct rest as [|c r].
    - cbn [run]. specialize (step_ok pre [] i s HP). destruct (iter pre [] i s) as [k s'|o e s'|]; auto.
      destruct k; exact I.
    - cbn [run]. specialize (step_ok pre (c :: r) i s HP).
      destruct (iter pre (c :: r) i s) as [k s'|o e s'|]; auto.
      destruct k as [|k]; [exact I|].
      destruct (le_lt_dec (S k) (length (c :: r))) as [Hle|Hgt].
      + specialize (step_ok ltac:(lia) Hle).
        rewrite run_skip by (cbn in Hle |- *; lia).
        assert (E : run iter (zpre k (c :: pre) r) (zrest k r) (i + 1 + nnat k) 0 s'
                    = run iter (zpre (S k) pre (c :: r)) (zrest (S k) (c :: r)) (i + nnat (S k)) 0 s').
        { unfold zpre, zrest. cbn [firstn skipn rev]. rewrite <- app_assoc. cbn [app]. rewrite nnat_S. f_equal. lia. }
        rewrite E. eapply IH; [| reflexivity | exact step_ok].
        unfold zrest. rewrite skipn_length. subst n. cbn [length]. lia.
      + (* the skip runs past the end of the buffer: Stuck *)
        clear step_ok IH. cbn in Hgt.
        assert (Hs : forall (r0 : list byte) pre0 i0 k0, (length r0 < k0)%nat -> run iter pre0 r0 i0 k0 s' = Stuck).
        { induction r0 as [|c0 r0 IHr]; intros pre0 i0 k0 Hlt; destruct k0; cbn in *; try lia; auto.
          apply IHr. lia. }
        rewrite Hs by lia. exact I.
  Qed.
End Run.

(* the same for an exported call *)
Lemma parse_inv {S} (iter : list byte -> list byte -> N -> S -> ires S)
  (P : list byte -> N -> S -> Prop) (Q : N -> err -> S -> Prop) :
  (forall pre rest i s, P pre i s ->
    match iter pre rest i s with
    | Next k s' => (0 < k)%nat -> (k <= length rest)%nat -> P (zpre k pre rest) (i + nnat k) s'
    | Ret o e s' => Q o e s'
    | IPanic => True
    end) ->
  forall buf offs s, P (rev (firstn (N.to_nat offs) buf)) offs s ->
    match parse iter buf offs s with Done o e s' => Q o e s' | _ => True end.
Proof.
  intros H buf offs s HP. unfold parse, zinit. apply (run_inv iter P Q H). exact HP.
Qed.
