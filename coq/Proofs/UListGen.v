(* C17, list level with the general item: ParseAllURIParams on  item [LWS] ";" [LWS] item ... item [LWS] <terminator>  where every item is
   name [LWS] [ "=" [LWS] [ token | quoted-string ] ]  (TokItem.v): every parameter counted, entry j = item j with the extents of its
   name and value (without the white space around them) and its known-parameter kind, kind mask = union, ok at the terminator. *)
From Sipsp Require Import Driver Harness RunLemmas Ext ExtLeaf ZSlice HdrSpec UIntSpec FLineSpec TokSpec NameAddrSpec Shift ShiftFb ShiftTok
  ExtLists Capacity CapHeaders CapURI ExtURI UListSpec TokItem.
From Coq Require Import ZifyN ZifyNat ZifyBool.
From RecordUpdate Require Import RecordUpdate.

Section GL.
  Variable flags0 : N.
  Notation flags := (N.lor flags0 (2 ^ bPOptParamSemiSep)).
  Notation sep := (tf_sep (tp_decode flags)).

  (* an item, the white space after it and (for all but the last) the white space after the separator *)
  Record gitem := mkgitem { g_n0 : byte; g_name : list byte; g_v : vshape; g_w : list byte; g_w4 : list byte }.
  Definition g_ok (g : gitem) : Prop :=
    plain flags (g_n0 g) /\ Forall (plain flags) (g_name g) /\ vok flags (g_v g) /\ gap flags (g_w g) /\ gap flags (g_w4 g).
  Definition g_item (g : gitem) : list byte := (g_n0 g :: g_name g) ++ vbody (g_v g).
  (* the item, its trailing white space, the separator and the white space after it *)
  Definition g_more (g : gitem) : list byte := g_item g ++ g_w g ++ sep :: g_w4 g.
  Definition g_last (g : gitem) : list byte := g_item g ++ g_w g.
  Definition g_entry (g : gitem) (i : N) (en : ending) (st : tpst) : uriparam :=
    let a := i + nnat (length (g_n0 g :: g_name g)) in
    mkuriparam (exp_item i a (g_v g) en (a + nnat (length (vbody (g_v g))) + nnat (length (g_w g))) st) (uri_param_resolve (g_n0 g :: g_name g)).
  Fixpoint gl_bytes (gs : list gitem) : list byte :=
    match gs with
    | [] => []
    | [g] => g_last g
    | g :: gs' => g_more g ++ gl_bytes gs'
    end.
  Fixpoint gl_entries (i : N) (gs : list gitem) : list uriparam :=
    match gs with
    | [] => []
    | [g] => [g_entry g i ETerm PFIN]
    | g :: gs' => g_entry g i ESep PInitNxtVal :: gl_entries (i + nnat (length (g_more g))) gs'
    end.

  Lemma g_head g y : g_ok g -> exists c r, g_item g ++ y = c :: r /\ plain flags c.
  Proof. intros (H1 & _). exists (g_n0 g), (g_name g ++ vbody (g_v g) ++ y). split; [unfold g_item; cbn; rewrite <- app_assoc; reflexivity|exact H1]. Qed.
  Lemma exp_item_name k a v en j st : tp_name (exp_item k a v en j st) = mkpf k (a - k).
  Proof. reflexivity. Qed.

  Lemma gl_iter1_more g c r pre i l : g_ok g -> plain flags c -> i = nnat (length pre) -> ULI l ->
    ul_iter1 flags0 pre (g_more g ++ c :: r) i l = Next (length (g_more g)) (ul_add l (g_entry g i ESep PInitNxtVal)).
  Proof.
    intros (H1 & H2 & H3 & H4 & H5) Hc Hi [Hwf Hslot]. unfold ul_iter1. cbv zeta. rewrite Hslot. cbn [up_param uriparam0].
    pose proof (item_more flags (rev pre) (g_n0 g) (g_name g) (g_v g) H1 H2 H3 (g_w g) (g_w4 g) c r H4 H5 Hc) as H.
    unfold parse_tokparam in H. rewrite rev_length, <- Hi in H.
    assert (Hi' : i = nnat (length (rev pre))) by (rewrite rev_length; exact Hi).
    rewrite Hi' in H at 1. rewrite parse_at, rev_involutive, <- Hi' in H.
    unfold g_more, g_item. repeat (rewrite <- ?app_assoc; cbn [app]). repeat (rewrite <- ?app_assoc in H; cbn [app] in H).
    match goal with |- context [run ?a ?b ?c ?d ?e ?f] => match type of H with _ = ?R => replace (run a b c d e f) with R by (symmetry; exact H) end end.
    cbv beta iota. rewrite exp_item_name.
    assert (Z : zget pre (g_n0 g :: g_name g ++ vbody (g_v g) ++ g_w g ++ sep :: g_w4 g ++ c :: r) i
                  (mkpf i (i + nnat (length (g_n0 g :: g_name g)) - i)) = Some (g_n0 g :: g_name g)).
    { pose proof (FLineSpec.zget_here pre (g_n0 g :: g_name g) (vbody (g_v g) ++ g_w g ++ sep :: g_w4 g ++ c :: r) i Hi) as Zh. cbn [app] in Zh.
      replace (i + nnat (length (g_n0 g :: g_name g)) - i) with (nnat (length (g_n0 g :: g_name g))) by lia. exact Zh. }
    match goal with |- context [zget ?a ?b ?c ?d] => replace (zget a b c d) with (Some (g_n0 g :: g_name g)) by (symmetry; exact Z) end.
    unfold ul_add, g_entry. cbv zeta. cbn [up_t up_param].
    f_equal. repeat (rewrite ?app_length; cbn [length]). unfold nnat. lia.
  Qed.
  Lemma gl_iter1_last g t r pre i l : g_ok g -> is_term_c flags t = true -> i = nnat (length pre) -> ULI l ->
    ul_iter1 flags0 pre (g_last g ++ t :: r) i l = Ret (i + nnat (length (g_last g))) EOk (ul_add l (g_entry g i ETerm PFIN)).
  Proof.
    intros (H1 & H2 & H3 & H4 & H5) Ht Hi [Hwf Hslot]. unfold ul_iter1. cbv zeta. rewrite Hslot. cbn [up_param uriparam0].
    pose proof (item_term flags (rev pre) (g_n0 g) (g_name g) (g_v g) H1 H2 H3 (g_w g) t r H4 Ht) as H.
    unfold parse_tokparam in H. rewrite rev_length, <- Hi in H.
    assert (Hi' : i = nnat (length (rev pre))) by (rewrite rev_length; exact Hi).
    rewrite Hi' in H at 1. rewrite parse_at, rev_involutive, <- Hi' in H.
    unfold g_last, g_item. repeat (rewrite <- ?app_assoc; cbn [app]). repeat (rewrite <- ?app_assoc in H; cbn [app] in H).
    match goal with |- context [run ?a ?b ?c ?d ?e ?f] => match type of H with _ = ?R => replace (run a b c d e f) with R by (symmetry; exact H) end end.
    cbv beta iota. rewrite exp_item_name.
    assert (Z : zget pre (g_n0 g :: g_name g ++ vbody (g_v g) ++ g_w g ++ t :: r) i
                  (mkpf i (i + nnat (length (g_n0 g :: g_name g)) - i)) = Some (g_n0 g :: g_name g)).
    { pose proof (FLineSpec.zget_here pre (g_n0 g :: g_name g) (vbody (g_v g) ++ g_w g ++ t :: r) i Hi) as Zh. cbn [app] in Zh.
      replace (i + nnat (length (g_n0 g :: g_name g)) - i) with (nnat (length (g_n0 g :: g_name g))) by lia. exact Zh. }
    match goal with |- context [zget ?a ?b ?c ?d] => replace (zget a b c d) with (Some (g_n0 g :: g_name g)) by (symmetry; exact Z) end.
    unfold ul_add, g_entry. cbv zeta. cbn [up_t up_param].
    f_equal. repeat (rewrite ?app_length; cbn [length]). unfold nnat. lia.
  Qed.

  Lemma g_more_nonempty g : (0 < length (g_more g))%nat.
  Proof. unfold g_more, g_item. repeat (rewrite ?app_length; cbn [length]). lia. Qed.

  Lemma glist_run gs : forall pre i l t r, gs <> [] -> Forall g_ok gs -> is_term_c flags t = true -> i = nnat (length pre) -> ULI l ->
    run (ul_iter flags0) pre (gl_bytes gs ++ t :: r) i 0 l
    = Done (i + nnat (length (gl_bytes gs))) EOk (ul_adds l (gl_entries i gs)).
  Proof.
    induction gs as [|g gs IH]; intros pre i l t r Hne Hall Ht Hi Hl; [congruence|].
    apply Forall_cons_iff in Hall. destruct Hall as [Hg Hall].
    destruct gs as [|g2 gs].
    - cbn [gl_bytes gl_entries ul_adds fold_left]. rewrite run_after.
      rewrite (ul_iter_ret _ _ _ _ _ _ _ _ (gl_iter1_last g t r pre i l Hg Ht Hi Hl)). cbn [after]. reflexivity.
    - change (gl_bytes (g :: g2 :: gs)) with (g_more g ++ gl_bytes (g2 :: gs)).
      change (gl_entries i (g :: g2 :: gs)) with (g_entry g i ESep PInitNxtVal :: gl_entries (i + nnat (length (g_more g))) (g2 :: gs)).
      rewrite <- app_assoc.
      assert (Hg2 : g_ok g2) by (apply Forall_cons_iff in Hall; apply Hall).
      assert (Hhd : exists c y, gl_bytes (g2 :: gs) ++ t :: r = c :: y /\ plain flags c).
      { destruct gs as [|g3 gs]; cbn [gl_bytes]; unfold g_last, g_more; repeat rewrite <- app_assoc; apply g_head; exact Hg2. }
      destruct Hhd as (c & y & Ey & Hc). rewrite Ey.
      rewrite run_after.
      pose proof (gl_iter1_more g c y pre i l Hg Hc Hi Hl) as H1.
      pose proof (g_more_nonempty g) as Hk. destruct (length (g_more g)) as [|k0] eqn:Ek; [lia|].
      rewrite (ul_iter_noz _ _ _ _ _ _ _ H1).
      rewrite after_next by (try rewrite app_length; cbn [length]; lia).
      assert (Ez : zpre (S k0) pre (g_more g ++ c :: y) = rev (g_more g) ++ pre /\ zrest (S k0) (g_more g ++ c :: y) = c :: y).
      { unfold zpre, zrest. rewrite <- Ek. rewrite firstn_app, Nat.sub_diag, firstn_all, skipn_app, Nat.sub_diag, skipn_all. cbn [firstn skipn app]. rewrite app_nil_r. auto. }
      destruct Ez as [-> ->]. rewrite <- Ey.
      rewrite (IH (rev (g_more g) ++ pre) (i + nnat (S k0)) (ul_add l (g_entry g i ESep PInitNxtVal)) t r ltac:(discriminate) Hall Ht).
      + cbn [ul_adds fold_left]. f_equal. rewrite app_length, Ek. unfold nnat. lia.
      + rewrite app_length, rev_length, Ek. unfold nnat in *. lia.
      + apply ul_add_ULI. exact Hl.
  Qed.

  Lemma gl_entries_length gs : forall i, length (gl_entries i gs) = length gs.
  Proof.
    induction gs as [|g gs IH]; intros i; [reflexivity|]. destruct gs as [|g2 gs]; [reflexivity|].
    change (gl_entries i (g :: g2 :: gs)) with (g_entry g i ESep PInitNxtVal :: gl_entries (i + nnat (length (g_more g))) (g2 :: gs)).
    cbn [length]. rewrite IH. reflexivity.
  Qed.

  Theorem uri_params_general_list_spec gs (junk : list byte) t r n : gs <> [] -> Forall g_ok gs -> is_term_c flags t = true ->
    let i := nnat (length junk) in
    let es := gl_entries i gs in
    exists L, parse_all_uri_params flags0 (junk ++ gl_bytes gs ++ t :: r) i (uparams_init (repeat uriparam0 n))
              = Done (i + nnat (length (gl_bytes gs))) EOk L /\
      ul_n L = nnat (length gs) /\ ul_vno L = nnat (length gs) /\
      ul_types L = fold_left (fun a p => N.lor a (up_t p)) es 0 /\
      (forall j, (j < length gs)%nat -> (j < n)%nat -> nth j (ul_params L) uriparam0 = nth j es uriparam0).
  Proof.
    intros Hne Hall Ht i es. set (l0 := uparams_init (repeat uriparam0 n)).
    assert (Hl0 : ULI l0).
    { unfold ULI, l0. split; [apply ul_wf_init|]. unfold ul_slot, ul_is_tmp, ul_cap, uparams_init. cbn. destruct (_ <=? 0); [reflexivity|apply nth_repeat]. }
    exists (ul_adds l0 es). unfold parse_all_uri_params.
    replace (l0 <| ul_vno := 0 |>) with l0 by reflexivity. subst i. rewrite parse_at.
    rewrite (glist_run gs (rev junk) (nnat (length junk)) l0 t r Hne Hall Ht ltac:(now rewrite rev_length) Hl0).
    split; [reflexivity|]. fold es.
    assert (Hlen : length es = length gs) by apply gl_entries_length.
    destruct (uadds_n es l0) as (A1 & A2 & A3). rewrite A1, A2, Hlen.
    split; [reflexivity|]. split; [reflexivity|]. split; [apply uadds_types|].
    intros j Hj Hjn. pose proof (uadds_nth es l0 j ltac:(lia)) as A. change (ul_n l0) with 0 in A. cbn [N.to_nat Nat.add] in A.
    apply A. unfold l0, uparams_init. cbn [ul_params]. rewrite repeat_length. exact Hjn.
  Qed.
End GL.
