(* C10 / C08-style spec for ParseCSeqVal: on  *WSP digits 1*WSP method CRLF <non-continuation byte>  the
   number reported is the decimal value of exactly the digits, the method is the method text (and its
   number the look-up of that text), the extents are those of the text; a number above 2^32-1 or
   written with more than 10 digits is rejected as too big. *)
From Sipsp Require Import RunLemmas Safe Resume Ext ExtLeaf ZSlice Harness IP4 Numbers FLineSpec UIntSpec HdrSpec TokSpec NameAddrSpec.
From Coq Require Import ZifyN ZifyNat ZifyBool.
From RecordUpdate Require Import RecordUpdate.

Lemma cs_iter_digit pre d r i s : cs_state s = CsFoundDigit -> is_digit d = true ->
  cs_iter pre (d :: r) i s = match acc32 (cs_no s) (digit_val d) with
                             | Some v => Next 1 (s <| cs_no := v |>)
                             | None => Ret i ENumTooBig s end.
Proof. intros Hs Hd. unfold cs_iter. rewrite Hs, (digit_not_ws d Hd), Hd. reflexivity. Qed.

Lemma run_cs_digits : forall ds pre y i s, all_digits ds -> cs_state s = CsFoundDigit ->
  match acc32_all (cs_no s) ds with
  | Some v => run cs_iter pre (ds ++ y) i 0 s = run cs_iter (rev ds ++ pre) y (i + nnat (length ds)) 0 (s <| cs_no := v |>)
  | None => exists o s', run cs_iter pre (ds ++ y) i 0 s = Done o ENumTooBig s'
  end.
Proof.
  induction ds as [|d r IH]; intros pre y i s Hd Hs; cbn [acc32_all].
  - cbn [app rev length]. replace (i + nnat 0) with i by (unfold nnat; lia). destruct s; reflexivity.
  - unfold all_digits in Hd. cbn in Hd. apply andb_true_iff in Hd as [Hc Hr].
    cbn [app]. rewrite run_after, (cs_iter_digit pre d (r ++ y) i s Hs Hc).
    destruct (acc32 (cs_no s) (digit_val d)) as [v1|] eqn:Ea.
    + specialize (IH (d :: pre) y (i + 1) (s <| cs_no := v1 |>) Hr ltac:(destruct s; exact Hs)).
      replace (cs_no (s <| cs_no := v1 |>)) with v1 in IH by (destruct s; reflexivity).
      cbn [after length Nat.leb]. unfold zpre, zrest. cbn [firstn skipn rev app]. replace (i + nnat 1) with (i + 1) by (unfold nnat; lia).
      destruct (acc32_all v1 r) as [v|].
      * rewrite IH. rewrite <- app_assoc. cbn [app].
        replace (i + 1 + nnat (length r)) with (i + nnat (S (length r))) by (unfold nnat; lia).
        destruct s; reflexivity.
      * exact IH.
    + cbn [after]. eexists. eexists. reflexivity.
Qed.

Lemma cs_method_loop s pre c r i : cs_state s = CsFoundMethod -> is_ws c = false -> cs_iter pre (c :: r) i s = Next 1 s.
Proof. intros Hs Hc. unfold cs_iter. rewrite Hs, Hc. destruct (is_digit c); reflexivity. Qed.

Theorem cseq_value_spec (p sp : list byte) d0 (r : list byte) b1 (sp1 : list byte) m0 (m : list byte) d x :
  spaces sp -> all_digits (d0 :: r) -> spaces (b1 :: sp1) -> tok (m0 :: m) -> is_sp d = false ->
  let ds := d0 :: r in let ws := b1 :: sp1 in let mt := m0 :: m in
  let i := nnat (length p) in
  let a := i + nnat (length sp) in                     (* the number starts here *)
  let c := a + nnat (length ds) + nnat (length ws) in  (* the method starts here *)
  let e := c + nnat (length mt) in
  let text := sp ++ ds ++ ws ++ mt ++ CR :: LF :: d :: x in
  if (dec ds <=? MaxU32) && (nnat (length ds) <=? MaxCSeqNValueSize) then
    parse_cseq (p ++ text) i cseq0
    = Done (e + 2) EOk (mkcseq (dec ds) (get_method_no mt) (mkpf a (nnat (length ds))) (mkpf c (nnat (length mt))) (mkpf a (e - a)) CsFIN 0)
  else exists o s', parse_cseq (p ++ text) i cseq0 = Done o ENumTooBig s'.
Proof.
  intros Hsp Hd Hws Hm Hdn ds ws mt i a c e text. unfold parse_cseq. subst ds ws mt. subst i. rewrite parse_at.
  assert (Ea : a = nnat (length p) + nnat (length sp)) by reflexivity.
  assert (Ecc : c = a + nnat (length (d0 :: r)) + nnat (length (b1 :: sp1))) by reflexivity.
  assert (Eee : e = c + nnat (length (m0 :: m))) by reflexivity. clearbody e. clearbody c. clearbody a.
  unfold all_digits in Hd. cbn in Hd. apply andb_true_iff in Hd as [Hc Hr].
  assert (Hm0 : is_ws m0 = false) by (inversion Hm; assumption).
  assert (Hmm : Forall (fun c => is_ws c = false) m) by (inversion Hm; assumption).
  (* leading white space and the first digit *)
  assert (Hstart : run cs_iter (rev p) text (nnat (length p)) 0 cseq0
                   = run cs_iter (d0 :: rev sp ++ rev p) (r ++ (b1 :: sp1) ++ (m0 :: m) ++ CR :: LF :: d :: x) (a + 1) 0
                       (mkcseq (digit_val d0) 0 pf0 pf0 pf0 CsFoundDigit a)).
  { subst text. rewrite Ea.
    assert (Hd0 : forall pre y j, cs_iter pre (d0 :: y) j cseq0 = Next 1 (mkcseq (digit_val d0) 0 pf0 pf0 pf0 CsFoundDigit j))
      by (intros; unfold cs_iter; cbn [cs_state cseq0]; rewrite (digit_not_ws d0 Hc), Hc; reflexivity).
    destruct sp as [|b sp'].
    - cbn [app rev length]. rewrite (run_one cs_iter _ d0 _ _ _ _ (Hd0 _ _ _)).
      replace (nnat (length p) + nnat 0) with (nnat (length p)) by (unfold nnat; lia). reflexivity.
    - assert (Hb : is_ws b = true) by (inversion Hsp; subst; unfold is_ws; match goal with H : is_sp b = true |- _ => rewrite H end; reflexivity).
      rewrite (run_step cs_iter (rev p) (b :: sp') _ (nnat (length p)) cseq0 cseq0); [|discriminate|].
      + cbn [app]. rewrite (run_one cs_iter _ d0 _ _ _ _ (Hd0 _ _ _)). cbn [rev]. rewrite <- app_assoc. reflexivity.
      + cbn [app]. unfold cs_iter. cbn [cs_state cseq0]. rewrite Hb. unfold cs_lws.
        match goal with |- context [skipLWS false ?l] => replace (skipLWS false l) with (LOk (length (b :: sp')))
          by (symmetry; exact (skipLWS_sp_prefix (b :: sp') d0 (r ++ (b1 :: sp1) ++ (m0 :: m) ++ CR :: LF :: d :: x) Hsp (digit_not_ws d0 Hc))) end.
        reflexivity. }
  cbv zeta. rewrite Hstart.
  (* the remaining digits *)
  pose proof (run_cs_digits r (d0 :: rev sp ++ rev p) ((b1 :: sp1) ++ (m0 :: m) ++ CR :: LF :: d :: x) (a + 1)
                (mkcseq (digit_val d0) 0 pf0 pf0 pf0 CsFoundDigit a) Hr eq_refl) as Hrun.
  cbn [cs_no] in Hrun.
  pose proof (acc32_all_exact r (digit_val d0) Hr ltac:(pose proof (digit_val_le d0 Hc); unfold MaxU32; lia)) as Hacc.
  assert (Hdec : dec (d0 :: r) = dec_from (digit_val d0) r) by reflexivity. rewrite Hdec.
  rewrite Hacc in Hrun. destruct (dec_from (digit_val d0) r <=? MaxU32) eqn:Ev; [|exact Hrun].
  rewrite Hrun. clear Hrun Hstart. cbn [andb].
  set (v := dec_from (digit_val d0) r) in *.
  change ((mkcseq (digit_val d0) 0 pf0 pf0 pf0 CsFoundDigit a) <| cs_no := v |>) with (mkcseq v 0 pf0 pf0 pf0 CsFoundDigit a).
  remember (a + 1 + nnat (length r)) as a1 eqn:Ea1.
  assert (Ea1' : a1 = a + nnat (length (d0 :: r))) by (subst a1; cbn [length]; unfold nnat; lia).
  (* the blanks after the number *)
  set (s2 := mkcseq v 0 (mkpf a (a1 - a)) pf0 (mkpf a (a1 - a)) CsEndDigit a).
  rewrite (run_step cs_iter _ (b1 :: sp1) ((m0 :: m) ++ CR :: LF :: d :: x) a1 _ s2) by
    (try discriminate; cbn [app]; unfold cs_iter; cbn [cs_state];
     replace (is_ws b1) with true by (inversion Hws; subst; unfold is_ws; match goal with H : is_sp b1 = true |- _ => rewrite H end; reflexivity);
     unfold pf_set; cbn [cs_soffs]; replace (a1 <? a) with false by lia; unfold cs_lws;
     change (b1 :: sp1 ++ m0 :: m ++ CR :: LF :: d :: x) with ((b1 :: sp1) ++ m0 :: (m ++ CR :: LF :: d :: x));
     rewrite (skipLWS_sp_prefix (b1 :: sp1) m0 _ Hws Hm0); reflexivity).
  remember (a1 + nnat (length (b1 :: sp1))) as c1 eqn:Ec1.
  assert (Ec1' : c1 = c) by (subst c1; rewrite Ecc; lia).
  (* first byte of the method *)
  set (s3 := mkcseq v 0 (mkpf a (a1 - a)) pf0 (mkpf a (a1 - a)) CsFoundMethod c1).
  cbn [app].
  rewrite (run_one cs_iter _ m0 _ c1 s2 s3) by (unfold cs_iter; cbn [cs_state s2]; rewrite Hm0; destruct (is_digit m0); reflexivity).
  rewrite (run_selfloop cs_iter (fun c => is_ws c = false) s3 ltac:(intros pp cc rr jj Hcc; apply cs_method_loop; [reflexivity|exact Hcc]) m _ _ (c1 + 1) Hmm).
  remember (c1 + 1 + nnat (length m)) as e1 eqn:Ee1.
  assert (Ee1' : e1 = e) by (subst e1; rewrite Eee; cbn [length]; unfold nnat in *; lia).
  (* the end of the line *)
  rewrite run_after.
  match goal with |- context [cs_iter ?pp (CR :: LF :: d :: x) e1 s3] => set (pre := pp) end.
  assert (Hlen : e1 = nnat (length pre)).
  { subst pre. repeat (rewrite ?app_length, ?rev_length; cbn [length]). cbn [length] in *. unfold nnat in *. lia. }
  assert (HB : rev pre ++ CR :: LF :: d :: x = (p ++ sp ++ d0 :: r ++ b1 :: sp1) ++ (m0 :: m) ++ (CR :: LF :: d :: x)).
  { subst pre. repeat (rewrite ?rev_app_distr, ?rev_involutive; cbn [rev app]). repeat (rewrite <- ?app_assoc; cbn [app]). reflexivity. }
  assert (Z : zget pre (CR :: LF :: d :: x) e1 (mkpf c1 (e1 - c1)) = Some (m0 :: m)).
  { pose proof (zslice_mid pre (CR :: LF :: d :: x) e1 _ _ _ HB Hlen) as Z. unfold zget, pf_end. cbn [po pl].
    match type of Z with zslice _ _ _ ?u ?w = _ => replace u with c1 in Z by (subst c1 a1; rewrite Ea; repeat (rewrite ?app_length; cbn [length]); unfold nnat in *; lia);
      replace (c1 + nnat (length (m0 :: m))) with (c1 + (e1 - c1)) in Z by (cbn [length]; unfold nnat in *; lia) end. exact Z. }
  replace (cs_iter pre (CR :: LF :: d :: x) e1 s3)
    with (if (MaxCSeqNValueSize <? a1 - a) || (MaxCSeqNValue <? v)
          then Ret a ENumTooBig (mkcseq v 0 (mkpf a (a1 - a)) (mkpf c1 (e1 - c1)) (mkpf a (e1 - a)) CsFIN c1)
          else Ret (e1 + nnat 0 + nnat 2) EOk (mkcseq v (get_method_no (m0 :: m)) (mkpf a (a1 - a)) (mkpf c1 (e1 - c1)) (mkpf a (e1 - a)) CsFIN 0) : ires cseq).
  2:{ unfold cs_iter. subst s3. cbn [cs_state]. replace (is_ws CR) with true by reflexivity. unfold pf_set, pf_extend. cbn [cs_soffs cs_v po pl].
      replace (e1 <? c1) with false by lia. replace (e1 <? a) with false by lia. unfold cs_lws.
      match goal with |- context [skipLWS false ?l] => replace (skipLWS false l) with (LEOH 0 2) by (symmetry; exact (skipLWS_sp_eol [] d x (Forall_nil _) Hdn)) end.
      match goal with |- context [cs_endOfHdr _ _ _ _ _ _ ?S] => change S with (mkcseq v 0 (mkpf a (a1 - a)) (mkpf c1 (e1 - c1)) (mkpf a (e1 - a)) CsEnd c1) end.
      unfold cs_endOfHdr. cbn [cs_state]. unfold cs_finish.
      change ((mkcseq v 0 (mkpf a (a1 - a)) (mkpf c1 (e1 - c1)) (mkpf a (e1 - a)) CsEnd c1) <| cs_state := CsFIN |>)
        with (mkcseq v 0 (mkpf a (a1 - a)) (mkpf c1 (e1 - c1)) (mkpf a (e1 - a)) CsFIN c1).
      cbv zeta. cbn [cs_cseq cs_no pl po cs_method].
      destruct ((MaxCSeqNValueSize <? a1 - a) || (MaxCSeqNValue <? v)); [reflexivity|]. rewrite Z. reflexivity. }
  replace (a1 - a) with (nnat (length (d0 :: r))) by lia.
  replace (MaxCSeqNValue <? v) with false by (unfold MaxCSeqNValue, MaxU32 in *; lia). rewrite orb_false_r.
  destruct (nnat (length (d0 :: r)) <=? MaxCSeqNValueSize) eqn:El.
  - replace (MaxCSeqNValueSize <? nnat (length (d0 :: r))) with false by lia. cbn [after]. f_equal; [unfold nnat; lia|].
    rewrite Ec1', Ee1'. f_equal. f_equal. lia.
  - replace (MaxCSeqNValueSize <? nnat (length (d0 :: r))) with true by lia. cbn [after]. eexists. eexists. reflexivity.
Qed.
