(* C05: the values of the Call-ID, Content-Length / Expires and CSeq headers are trimmed - first and last byte not white space -
   for every input and every chunk schedule.  Content invariants over the zipper, as in NameAddrTrim.v. *)
From Sipsp Require Import Harness RunLemmas Safe SafeLeaf SafeMore TrimSpec NameAddrNest NameAddrTrim.
From Coq Require Import ZifyN ZifyNat ZifyBool.
From RecordUpdate Require Import RecordUpdate.

Definition vt (pre : list byte) (f : pf) : Prop := nonws_pre pre (po f) /\ nonws_pre pre (pf_end f - 1).
Lemma vt_zpre k pre rest f : vt pre f -> vt (zpre k pre rest) f.
Proof. intros [A B]. split; apply nonws_zpre; assumption. Qed.
Lemma vt_set pre i so : i = nnat (length pre) -> nonws_pre pre so -> so < i -> span is_ws pre = 0%nat -> vt pre (mkpf so (i - so)).
Proof.
  intros Hi A Hlt Hs. split; [exact A|]. unfold pf_end. cbn [po pl]. replace (so + (i - so) - 1) with (i - 1) by lia.
  apply nonws_prev; [exact Hi|lia|exact Hs].
Qed.
Lemma vt_trimmed pre rest f : vt pre f -> trimmed (rev pre ++ rest) f.
Proof. intros [A B]. right. split; apply nonws_buf; assumption. Qed.
Lemma zpre0 pre (rest : list byte) : zpre 0 pre rest = pre.
Proof. reflexivity. Qed.
Lemma zpre1 pre c (r : list byte) : zpre 1 pre (c :: r) = c :: pre.
Proof. reflexivity. Qed.
Lemma span_cons_nonws c pre : is_ws c = false -> span is_ws (c :: pre) = 0%nat.
Proof. intros H. cbn [span]. rewrite H. reflexivity. Qed.

(* ---- Call-ID ---------------------------------------------------------------------------------------------------------------------------------- *)
Definition CiT (pre : list byte) (i : N) (s : callid) : Prop :=
  match ci_state s with
  | CiInit => True
  | CiFound => nonws_pre pre (ci_soffs s) /\ ci_soffs s < i /\ span is_ws pre = 0%nat
  | CiEnd | CiFIN => vt pre (ci_callid s)
  end.
Definition ci_tres (pre rest : list byte) (i : N) (r : ires callid) : Prop :=
  match r with
  | Next k s' => (k <= length rest)%nat -> CiT (zpre k pre rest) (i + nnat k) s'
  | Ret o e s' => (e = EMore -> exists k, (k <= length rest)%nat /\ o = i + nnat k /\ CiT (zpre k pre rest) o s') /\ (e = EOk -> vt pre (ci_callid s'))
  | IPanic => True
  end.
Lemma ci_lws_trim pre rest i s1 : (ci_state s1 = CiInit \/ (ci_state s1 = CiEnd /\ vt pre (ci_callid s1))) -> ci_tres pre rest i (ci_lws rest i s1).
Proof.
  intros Hs. unfold ci_lws. pose proof (skipLWS_bounds false rest) as Hb.
  assert (Hadv : forall k j, CiT (zpre k pre rest) j s1).
  { intros k j. unfold CiT. destruct Hs as [->|[-> Hv]]; [exact I|apply vt_zpre; exact Hv]. }
  destruct (skipLWS false rest) as [k|k crl|k].
  - cbn [ci_tres]. intros _. apply Hadv.
  - unfold ci_endOfHdr. destruct Hs as [->|[-> Hv]]; cbn [ci_tres].
    + split; [intros E; discriminate|intros E; discriminate].
    + split; [intros E; discriminate|]. intros _. destruct s1; exact Hv.
  - cbn [ci_tres]. split; [|intros E; discriminate]. intros _. exists k. split; [exact Hb|]. split; [reflexivity|apply Hadv].
Qed.
Lemma ci_iter_trim pre rest i s : i = nnat (length pre) -> CiT pre i s -> ci_tres pre rest i (ci_iter pre rest i s).
Proof.
  intros Hi HT. unfold ci_iter. unfold CiT in HT.
  assert (Hm : ci_tres pre rest i (Ret i EMore s)).
  { cbn. split; [|intros E; discriminate]. intros _. exists 0%nat. rewrite zpre0. split; [lia|]. split; [unfold nnat; lia|exact HT]. }
  destruct (ci_state s) eqn:Est.
  4: { cbn. split; [intros E; discriminate|intros _; exact HT]. }
  all: destruct rest as [|c r]; [exact Hm|]; destruct (is_ws c) eqn:Ew.
  - apply ci_lws_trim. left. exact Est.
  - cbn [ci_tres]. intros _. rewrite zpre1. unfold CiT. destruct s; cbn in *. split; [apply nonws_here; assumption|]. split; [unfold nnat; lia|apply span_cons_nonws; exact Ew].
  - destruct HT as (A & Hlt & Hs). destruct (pf_set (ci_soffs s) i) as [f|] eqn:Ef; [|exact I]. apply pf_set_inv in Ef. destruct Ef as [-> _].
    apply ci_lws_trim. right. destruct s; cbn in *. split; [reflexivity|apply vt_set; assumption].
  - cbn [ci_tres]. intros _. rewrite zpre1. unfold CiT. rewrite Est. destruct HT as (A & Hlt & Hs).
    split; [apply nonws_cons; exact A|]. split; [unfold nnat; lia|apply span_cons_nonws; exact Ew].
  - apply ci_lws_trim. right. split; [exact Est|exact HT].
  - cbn. split; intros E; discriminate.
Qed.
Theorem callid_call_trim buf offs s o e s' : offs <= nnat (length buf) -> CiT (rev (firstn (N.to_nat offs) buf)) offs s ->
  parse_callid buf offs s = Done o e s' ->
  (e = EMore -> CiT (rev (firstn (N.to_nat o) buf)) o s') /\ (e = EOk -> trimmed buf (ci_callid s')).
Proof.
  intros Hoffs HT H. unfold parse_callid, parse, zinit in H.
  pose proof (run_invQ ci_iter CiT (fun pre rest i o e s' => i = nnat (length pre) /\
                (e = EMore -> exists k, (k <= length rest)%nat /\ o = i + nnat k /\ CiT (zpre k pre rest) o s') /\ (e = EOk -> vt pre (ci_callid s')))) as R.
  assert (Hstep : forall pre rest i s0, i = nnat (length pre) -> CiT pre i s0 ->
            match ci_iter pre rest i s0 with
            | Next k s1 => (0 < k)%nat -> (k <= length rest)%nat -> CiT (zpre k pre rest) (i + nnat k) s1
            | Ret o0 e0 s1 => i = nnat (length pre) /\ (e0 = EMore -> exists k, (k <= length rest)%nat /\ o0 = i + nnat k /\ CiT (zpre k pre rest) o0 s1) /\ (e0 = EOk -> vt pre (ci_callid s1))
            | IPanic => True
            end).
  { intros p r j t Hj HP. pose proof (ci_iter_trim p r j t Hj HP) as X. destruct (ci_iter p r j t); cbn [ci_tres] in X; [intros _ Hk; exact (X Hk)|split; [exact Hj|exact X]|exact I]. }
  specialize (R Hstep (skipn (N.to_nat offs) buf) (rev (firstn (N.to_nat offs) buf)) offs s ltac:(rewrite rev_length, firstn_length; unfold nnat in *; lia) HT).
  rewrite H in R. destruct R as (p' & r' & i' & Hi' & Hw & (_ & Q1 & Q2)). rewrite rev_involutive, firstn_skipn in Hw. split.
  - intros He. destruct (Q1 He) as (k & Hk & Ho & HT'). rewrite (zpre_whole_prefix p' r' k buf Hw Hk) in HT'.
    replace (N.to_nat o) with (length p' + k)%nat by (unfold nnat in *; lia). exact HT'.
  - intros He. rewrite <- Hw. apply vt_trimmed. exact (Q2 He).
Qed.
Inductive ci_fed : list byte -> N -> callid -> Prop :=
| ci_fed0 buf offs : offs <= nnat (length buf) -> ci_fed buf offs callid0
| ci_fed1 buf offs s o s' buf' : ci_fed buf offs s -> parse_callid buf offs s = Done o EMore s' ->
    firstn (N.to_nat o) buf' = firstn (N.to_nat o) buf -> o <= nnat (length buf') -> ci_fed buf' o s'.
Lemma ci_fed_inv buf offs s : ci_fed buf offs s -> offs <= nnat (length buf) /\ CiT (rev (firstn (N.to_nat offs) buf)) offs s.
Proof.
  induction 1 as [buf offs Ho|buf offs s o s' buf' _ IH H Hpre Ho]; [split; [exact Ho|exact I]|].
  destruct IH as [I1 I2]. split; [exact Ho|]. rewrite Hpre. exact (proj1 (callid_call_trim buf offs s o EMore s' I1 I2 H) eq_refl).
Qed.
Theorem callid_value_trimmed buf offs s o s' : ci_fed buf offs s -> parse_callid buf offs s = Done o EOk s' -> trimmed buf (ci_callid s').
Proof. intros Hf H. destruct (ci_fed_inv buf offs s Hf) as [I1 I2]. exact (proj2 (callid_call_trim buf offs s o EOk s' I1 I2 H) eq_refl). Qed.

(* ---- Content-Length / Expires ----------------------------------------------------------------------------------------------------------------- *)
Definition UiT (pre : list byte) (i : N) (s : uintb) : Prop :=
  match ui_state s with
  | ClInit => True
  | ClFound => nonws_pre pre (ui_soffs s) /\ ui_soffs s < i /\ span is_ws pre = 0%nat
  | ClEnd | ClFIN => vt pre (ui_sval s)
  end.
Definition ui_tres (pre rest : list byte) (i : N) (r : ires uintb) : Prop :=
  match r with
  | Next k s' => (k <= length rest)%nat -> UiT (zpre k pre rest) (i + nnat k) s'
  | Ret o e s' => (e = EMore -> exists k, (k <= length rest)%nat /\ o = i + nnat k /\ UiT (zpre k pre rest) o s') /\ (e = EOk -> vt pre (ui_sval s'))
  | IPanic => True
  end.
Lemma ui_lws_trim pre rest i s1 : (ui_state s1 = ClInit \/ (ui_state s1 = ClEnd /\ vt pre (ui_sval s1))) -> ui_tres pre rest i (ui_lws rest i s1).
Proof.
  intros Hs. unfold ui_lws. pose proof (skipLWS_bounds false rest) as Hb.
  assert (Hadv : forall k j, UiT (zpre k pre rest) j s1).
  { intros k j. unfold UiT. destruct Hs as [->|[-> Hv]]; [exact I|apply vt_zpre; exact Hv]. }
  destruct (skipLWS false rest) as [k|k crl|k].
  - cbn [ui_tres]. intros _. apply Hadv.
  - unfold ui_endOfHdr. destruct Hs as [->|[-> Hv]]; cbn [ui_tres].
    + split; [intros E; discriminate|intros E; discriminate].
    + split; [intros E; discriminate|]. intros _. destruct s1; exact Hv.
  - cbn [ui_tres]. split; [|intros E; discriminate]. intros _. exists k. split; [exact Hb|]. split; [reflexivity|apply Hadv].
Qed.
Lemma ui_iter_trim pre rest i s : i = nnat (length pre) -> UiT pre i s -> ui_tres pre rest i (ui_iter pre rest i s).
Proof.
  intros Hi HT. unfold ui_iter. unfold UiT in HT.
  assert (Hm : ui_tres pre rest i (Ret i EMore s)).
  { cbn. split; [|intros E; discriminate]. intros _. exists 0%nat. rewrite zpre0. split; [lia|]. split; [unfold nnat; lia|exact HT]. }
  assert (Hbad : forall e0, e0 <> EMore -> e0 <> EOk -> ui_tres pre rest i (Ret i e0 s)) by (intros e0 H1 H2; cbn; split; intros E; congruence).
  destruct (ui_state s) eqn:Est.
  4: { cbn. split; [intros E; discriminate|intros _; exact HT]. }
  all: destruct rest as [|c r]; [exact Hm|]; destruct (is_ws c) eqn:Ew.
  - apply ui_lws_trim. left. exact Est.
  - destruct (is_digit c); [|apply Hbad; discriminate].
    cbn [ui_tres]. intros _. rewrite zpre1. unfold UiT. destruct s; cbn in *. split; [apply nonws_here; assumption|]. split; [unfold nnat; lia|apply span_cons_nonws; exact Ew].
  - destruct HT as (A & Hlt & Hs). destruct (pf_set (ui_soffs s) i) as [f|] eqn:Ef; [|exact I]. apply pf_set_inv in Ef. destruct Ef as [-> _].
    apply ui_lws_trim. right. destruct s; cbn in *. split; [reflexivity|apply vt_set; assumption].
  - destruct (is_digit c); [|apply Hbad; discriminate]. destruct (acc32 _ _) as [v|]; [|apply Hbad; discriminate].
    cbn [ui_tres]. intros _. rewrite zpre1. unfold UiT. destruct HT as (A & Hlt & Hs). destruct s; cbn in *. rewrite Est.
    split; [apply nonws_cons; exact A|]. split; [unfold nnat; lia|apply span_cons_nonws; exact Ew].
  - apply ui_lws_trim. right. split; [exact Est|exact HT].
  - destruct (is_digit c); apply Hbad; discriminate.
Qed.
Theorem uint_call_trim buf offs s o e s' : offs <= nnat (length buf) -> UiT (rev (firstn (N.to_nat offs) buf)) offs s ->
  parse_uint buf offs s = Done o e s' ->
  (e = EMore -> UiT (rev (firstn (N.to_nat o) buf)) o s') /\ (e = EOk -> trimmed buf (ui_sval s')).
Proof.
  intros Hoffs HT H. unfold parse_uint, parse, zinit in H.
  pose proof (run_invQ ui_iter UiT (fun pre rest i o e s' => i = nnat (length pre) /\
                (e = EMore -> exists k, (k <= length rest)%nat /\ o = i + nnat k /\ UiT (zpre k pre rest) o s') /\ (e = EOk -> vt pre (ui_sval s')))) as R.
  assert (Hstep : forall pre rest i s0, i = nnat (length pre) -> UiT pre i s0 ->
            match ui_iter pre rest i s0 with
            | Next k s1 => (0 < k)%nat -> (k <= length rest)%nat -> UiT (zpre k pre rest) (i + nnat k) s1
            | Ret o0 e0 s1 => i = nnat (length pre) /\ (e0 = EMore -> exists k, (k <= length rest)%nat /\ o0 = i + nnat k /\ UiT (zpre k pre rest) o0 s1) /\ (e0 = EOk -> vt pre (ui_sval s1))
            | IPanic => True
            end).
  { intros p r j t Hj HP. pose proof (ui_iter_trim p r j t Hj HP) as X. destruct (ui_iter p r j t); cbn [ui_tres] in X; [intros _ Hk; exact (X Hk)|split; [exact Hj|exact X]|exact I]. }
  specialize (R Hstep (skipn (N.to_nat offs) buf) (rev (firstn (N.to_nat offs) buf)) offs s ltac:(rewrite rev_length, firstn_length; unfold nnat in *; lia) HT).
  rewrite H in R. destruct R as (p' & r' & i' & Hi' & Hw & (_ & Q1 & Q2)). rewrite rev_involutive, firstn_skipn in Hw. split.
  - intros He. destruct (Q1 He) as (k & Hk & Ho & HT'). rewrite (zpre_whole_prefix p' r' k buf Hw Hk) in HT'.
    replace (N.to_nat o) with (length p' + k)%nat by (unfold nnat in *; lia). exact HT'.
  - intros He. rewrite <- Hw. apply vt_trimmed. exact (Q2 He).
Qed.
Inductive ui_fed : list byte -> N -> uintb -> Prop :=
| ui_fed0 buf offs : offs <= nnat (length buf) -> ui_fed buf offs uintb0
| ui_fed1 buf offs s o s' buf' : ui_fed buf offs s -> parse_uint buf offs s = Done o EMore s' ->
    firstn (N.to_nat o) buf' = firstn (N.to_nat o) buf -> o <= nnat (length buf') -> ui_fed buf' o s'.
Lemma ui_fed_inv buf offs s : ui_fed buf offs s -> offs <= nnat (length buf) /\ UiT (rev (firstn (N.to_nat offs) buf)) offs s.
Proof.
  induction 1 as [buf offs Ho|buf offs s o s' buf' _ IH H Hpre Ho]; [split; [exact Ho|exact I]|].
  destruct IH as [I1 I2]. split; [exact Ho|]. rewrite Hpre. exact (proj1 (uint_call_trim buf offs s o EMore s' I1 I2 H) eq_refl).
Qed.
Theorem uint_value_trimmed buf offs s o s' : ui_fed buf offs s -> parse_uint buf offs s = Done o EOk s' -> trimmed buf (ui_sval s').
Proof. intros Hf H. destruct (ui_fed_inv buf offs s Hf) as [I1 I2]. exact (proj2 (uint_call_trim buf offs s o EOk s' I1 I2 H) eq_refl). Qed.
(* ParseCLenVal answers ok only with the object ParseUIntVal answered ok with *)
Theorem clen_value_trimmed buf offs s o s' : ui_fed buf offs s -> parse_clen buf offs s = Done o EOk s' -> trimmed buf (ui_sval s').
Proof.
  intros Hf H. unfold parse_clen in H. destruct (parse_uint buf offs s) as [o1 e1 s1| |] eqn:E; try discriminate.
  destruct e1; try discriminate. destruct (_ || _); [discriminate|]. injection H as <- <-. exact (uint_value_trimmed buf offs s o1 s1 Hf E).
Qed.

(* ---- CSeq ---------------------------------------------------------------------------------------------------------------------------------------- *)
Definition CsT (pre : list byte) (i : N) (s : cseq) : Prop :=
  match cs_state s with
  | CsInit => True
  | CsFoundDigit => nonws_pre pre (cs_soffs s) /\ cs_soffs s < i /\ span is_ws pre = 0%nat
  | CsFoundMethod => nonws_pre pre (po (cs_v s)) /\ po (cs_v s) < i /\ span is_ws pre = 0%nat
  | CsEndDigit | CsEnd | CsFIN => vt pre (cs_v s)
  end.
Definition cs_tres (pre rest : list byte) (i : N) (r : ires cseq) : Prop :=
  match r with
  | Next k s' => (k <= length rest)%nat -> CsT (zpre k pre rest) (i + nnat k) s'
  | Ret o e s' => (e = EMore -> exists k, (k <= length rest)%nat /\ o = i + nnat k /\ CsT (zpre k pre rest) o s') /\ (e = EOk -> vt pre (cs_v s'))
  | IPanic => True
  end.
Definition cs_rest (s : cseq) : bool := match cs_state s with CsInit | CsEndDigit | CsEnd => true | _ => false end.
Lemma cs_finish_trim pre rest i0 ret s : vt pre (cs_v s) -> cs_tres pre rest i0 (cs_finish pre rest i0 ret s).
Proof.
  intros Hv. unfold cs_finish. cbv zeta. destruct (_ || _).
  - cbn. split; intros E; discriminate.
  - destruct (zget _ _ _ _); [|exact I]. cbn [cs_tres]. split; [intros E; discriminate|]. intros _. destruct s; exact Hv.
Qed.
Lemma cs_lws_trim pre rest i s1 : cs_rest s1 = true -> CsT pre i s1 -> cs_tres pre rest i (cs_lws pre rest i s1).
Proof.
  intros Hr HT. unfold cs_lws. pose proof (skipLWS_bounds false rest) as Hb.
  assert (Hadv : forall k j, CsT (zpre k pre rest) j s1).
  { intros k j. unfold CsT, cs_rest in *. destruct (cs_state s1); try discriminate; try exact I; apply vt_zpre; exact HT. }
  destruct (skipLWS false rest) as [k|k crl|k].
  - cbn [cs_tres]. intros _. apply Hadv.
  - unfold cs_endOfHdr. unfold CsT, cs_rest in *. destruct (cs_state s1) eqn:Est; try discriminate.
    + cbn. split; intros E; discriminate.
    + cbn. split; intros E; discriminate.
    + apply cs_finish_trim. exact HT.
  - cbn [cs_tres]. split; [|intros E; discriminate]. intros _. exists k. split; [exact Hb|]. split; [reflexivity|apply Hadv].
Qed.
Lemma cs_iter_trim pre rest i s : i = nnat (length pre) -> CsT pre i s -> cs_tres pre rest i (cs_iter pre rest i s).
Proof.
  intros Hi HT. unfold cs_iter.
  assert (Hm : cs_tres pre rest i (Ret i EMore s)).
  { cbn. split; [|intros E; discriminate]. intros _. exists 0%nat. rewrite zpre0. split; [lia|]. split; [unfold nnat; lia|exact HT]. }
  assert (Hbad : forall e0, e0 <> EMore -> e0 <> EOk -> cs_tres pre rest i (Ret i e0 s)) by (intros e0 H1 H2; cbn; split; intros E; congruence).
  unfold CsT in HT. destruct (cs_state s) eqn:Est.
  6: { cbn. split; [intros E; discriminate|intros _; exact HT]. }
  all: destruct rest as [|c r]; [exact Hm|]; destruct (is_ws c) eqn:Ew.
  - (* Init, ws *) apply cs_lws_trim; [unfold cs_rest; rewrite Est; reflexivity|unfold CsT; rewrite Est; exact I].
  - destruct (is_digit c); [|apply Hbad; discriminate].
    cbn [cs_tres]. intros _. rewrite zpre1. unfold CsT. destruct s; cbn in *. split; [apply nonws_here; assumption|]. split; [unfold nnat; lia|apply span_cons_nonws; exact Ew].
  - (* FoundDigit, ws *) destruct HT as (A & Hlt & Hs). destruct (pf_set (cs_soffs s) i) as [f|] eqn:Ef; [|exact I]. apply pf_set_inv in Ef. destruct Ef as [-> _].
    apply cs_lws_trim; [destruct s; reflexivity|]. unfold CsT. destruct s; cbn in *. apply vt_set; assumption.
  - destruct (is_digit c); [|apply Hbad; discriminate]. destruct (acc32 _ _) as [v|]; [|apply Hbad; discriminate].
    cbn [cs_tres]. intros _. rewrite zpre1. unfold CsT. destruct HT as (A & Hlt & Hs). destruct s; cbn in *. rewrite Est.
    split; [apply nonws_cons; exact A|]. split; [unfold nnat; lia|apply span_cons_nonws; exact Ew].
  - (* EndDigit, ws *) apply cs_lws_trim; [unfold cs_rest; rewrite Est; reflexivity|unfold CsT; rewrite Est; exact HT].
  - assert (G : cs_tres pre (c :: r) i (Next 1 (s <| cs_state := CsFoundMethod |> <| cs_soffs := i |>))).
    { cbn [cs_tres]. intros _. rewrite zpre1. unfold CsT. destruct HT as [A B]. destruct s; cbn in *.
      split; [apply nonws_cons; exact A|]. split; [|apply span_cons_nonws; exact Ew].
      destruct A as (c0 & Hc0 & _). unfold bpre in Hc0. assert (X : (N.to_nat (po cs_v) < length (rev pre))%nat) by (apply nth_error_Some; congruence).
      rewrite rev_length in X. unfold nnat in *. lia. }
    destruct (is_digit c); exact G.
  - (* FoundMethod, ws *) destruct HT as (A & Hlt & Hs). destruct (pf_set (cs_soffs s) i) as [m|]; [|exact I].
    destruct (pf_extend (cs_v s) i) as [v|] eqn:Ev; [|exact I]. apply pf_extend_inv in Ev. destruct Ev as [-> _].
    apply cs_lws_trim; [destruct s; reflexivity|]. unfold CsT. destruct s; cbn in *. apply vt_set; assumption.
  - assert (G : cs_tres pre (c :: r) i (Next 1 s)).
    { cbn [cs_tres]. intros _. rewrite zpre1. unfold CsT. rewrite Est. destruct HT as (A & Hlt & Hs).
      split; [apply nonws_cons; exact A|]. split; [unfold nnat; lia|apply span_cons_nonws; exact Ew]. }
    destruct (is_digit c); exact G.
  - (* End, ws *) apply cs_lws_trim; [unfold cs_rest; rewrite Est; reflexivity|unfold CsT; rewrite Est; exact HT].
  - destruct (is_digit c); apply Hbad; discriminate.
Qed.
Theorem cseq_call_trim buf offs s o e s' : offs <= nnat (length buf) -> CsT (rev (firstn (N.to_nat offs) buf)) offs s ->
  parse_cseq buf offs s = Done o e s' ->
  (e = EMore -> CsT (rev (firstn (N.to_nat o) buf)) o s') /\ (e = EOk -> trimmed buf (cs_v s')).
Proof.
  intros Hoffs HT H. unfold parse_cseq, parse, zinit in H.
  pose proof (run_invQ cs_iter CsT (fun pre rest i o e s' => i = nnat (length pre) /\
                (e = EMore -> exists k, (k <= length rest)%nat /\ o = i + nnat k /\ CsT (zpre k pre rest) o s') /\ (e = EOk -> vt pre (cs_v s')))) as R.
  assert (Hstep : forall pre rest i s0, i = nnat (length pre) -> CsT pre i s0 ->
            match cs_iter pre rest i s0 with
            | Next k s1 => (0 < k)%nat -> (k <= length rest)%nat -> CsT (zpre k pre rest) (i + nnat k) s1
            | Ret o0 e0 s1 => i = nnat (length pre) /\ (e0 = EMore -> exists k, (k <= length rest)%nat /\ o0 = i + nnat k /\ CsT (zpre k pre rest) o0 s1) /\ (e0 = EOk -> vt pre (cs_v s1))
            | IPanic => True
            end).
  { intros p r j t Hj HP. pose proof (cs_iter_trim p r j t Hj HP) as X. destruct (cs_iter p r j t); cbn [cs_tres] in X; [intros _ Hk; exact (X Hk)|split; [exact Hj|exact X]|exact I]. }
  specialize (R Hstep (skipn (N.to_nat offs) buf) (rev (firstn (N.to_nat offs) buf)) offs s ltac:(rewrite rev_length, firstn_length; unfold nnat in *; lia) HT).
  rewrite H in R. destruct R as (p' & r' & i' & Hi' & Hw & (_ & Q1 & Q2)). rewrite rev_involutive, firstn_skipn in Hw. split.
  - intros He. destruct (Q1 He) as (k & Hk & Ho & HT'). rewrite (zpre_whole_prefix p' r' k buf Hw Hk) in HT'.
    replace (N.to_nat o) with (length p' + k)%nat by (unfold nnat in *; lia). exact HT'.
  - intros He. rewrite <- Hw. apply vt_trimmed. exact (Q2 He).
Qed.
Inductive cs_fedb : list byte -> N -> cseq -> Prop :=
| cs_fedb0 buf offs : offs <= nnat (length buf) -> cs_fedb buf offs cseq0
| cs_fedb1 buf offs s o s' buf' : cs_fedb buf offs s -> parse_cseq buf offs s = Done o EMore s' ->
    firstn (N.to_nat o) buf' = firstn (N.to_nat o) buf -> o <= nnat (length buf') -> cs_fedb buf' o s'.
Lemma cs_fedb_inv buf offs s : cs_fedb buf offs s -> offs <= nnat (length buf) /\ CsT (rev (firstn (N.to_nat offs) buf)) offs s.
Proof.
  induction 1 as [buf offs Ho|buf offs s o s' buf' _ IH H Hpre Ho]; [split; [exact Ho|exact I]|].
  destruct IH as [I1 I2]. split; [exact Ho|]. rewrite Hpre. exact (proj1 (cseq_call_trim buf offs s o EMore s' I1 I2 H) eq_refl).
Qed.
Theorem cseq_value_trimmed buf offs s o s' : cs_fedb buf offs s -> parse_cseq buf offs s = Done o EOk s' -> trimmed buf (cs_v s').
Proof. intros Hf H. destruct (cs_fedb_inv buf offs s Hf) as [I1 I2]. exact (proj2 (cseq_call_trim buf offs s o EOk s' I1 I2 H) eq_refl). Qed.
