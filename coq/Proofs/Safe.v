(* Method S of DESIGN.md: the safety rule for `run` (no panic, no stuck loop,
   offsets in range) and the bounds of the white space utilities. *)
From Sipsp Require Import RunLemmas.
From Coq Require Import ZifyN ZifyNat ZifyBool.

Section RunSafe.
  Context {St : Type}.
  Variable iter : list byte -> list byte -> N -> St -> ires St.
  (* P pre rest i s: holds at the start of every iteration; Q ... o e s': at the return *)
  Variable P : list byte -> list byte -> N -> St -> Prop.
  Variable Q : list byte -> list byte -> N -> N -> err -> St -> Prop.
  Hypothesis step_ok : forall pre rest i s, P pre rest i s ->
    match iter pre rest i s with
    | Next k s' => (0 < k <= length rest)%nat /\ P (zpre k pre rest) (zrest k rest) (i + nnat k) s'
    | Ret o e s' => Q pre rest i o e s'
    | IPanic => False
    end.

  Lemma zip_whole k (pre rest : list byte) : (k <= length rest)%nat ->
    rev (zpre k pre rest) ++ zrest k rest = rev pre ++ rest.
  Proof.
    intros _. unfold zpre, zrest. rewrite rev_app_distr, rev_involutive, <- app_assoc, firstn_skipn. reflexivity.
  Qed.

  Theorem run_safe : forall rest pre i s, P pre rest i s ->
    match run iter pre rest i 0 s with
    | Done o e s' => exists pre' rest' i', Q pre' rest' i' o e s' /\ rev pre' ++ rest' = rev pre ++ rest
    | _ => False
    end.
  Proof.
    intros rest. remember (length rest) as n eqn:Hn. revert rest Hn.
    induction n as [n IH] using lt_wf_ind. intros rest Hn pre i s HP.
    pose proof (step_ok pre rest i s HP) as Hs.
    destruct rest as [|c r].
    - cbn [run]. destruct (iter pre [] i s) as [k s'|o e s'|]; [|eauto|exact Hs].
      cbn in Hs. lia.
    - cbn [run]. destruct (iter pre (c :: r) i s) as [k s'|o e s'|]; [|eauto|exact Hs].
      destruct Hs as [Hk HP']. destruct k as [|k]; [lia|].
      rewrite run_skip by (cbn in Hk |- *; lia).
      assert (E : run iter (zpre k (c :: pre) r) (zrest k r) (i + 1 + nnat k) 0 s'
                  = run iter (zpre (S k) pre (c :: r)) (zrest (S k) (c :: r)) (i + nnat (S k)) 0 s').
      { unfold zpre, zrest. cbn [firstn skipn rev]. rewrite <- app_assoc. cbn [app]. rewrite nnat_S. f_equal. lia. }
      rewrite E.
      assert (Hlen : (length (zrest (S k) (c :: r)) < n)%nat).
      { unfold zrest. rewrite skipn_length. subst n. cbn [length] in *. lia. }
      specialize (IH _ Hlen _ eq_refl _ _ _ HP').
      destruct (run iter _ _ _ 0 s') as [o e s''| |]; auto.
      destruct IH as (p' & r' & i' & HQ & Hw). exists p', r', i'. split; [exact HQ|].
      rewrite Hw. apply zip_whole. exact (proj2 Hk).
  Qed.
End RunSafe.

(* ---- skipLWS / skipCRLF bounds ----------------------------------------------------- *)
Lemma skipLWS_at_bounds ie : forall r k,
  match skipLWS_at ie r k with
  | LOk n => (k <= n <= k + length r)%nat
  | LEOH n crl => (k <= n /\ n + crl <= k + length r)%nat
  | LMore n => (k <= n <= k + length r)%nat
  end.
Proof.
  intros r. remember (length r) as m eqn:Hm. revert r Hm.
  induction m as [m IH] using lt_wf_ind. intros r Hm k. destruct r as [|c r1]; cbn [skipLWS_at]; [cbn in *; lia|].
  cbn [length] in Hm.
  destruct (is_sp c).
  { specialize (IH (length r1) ltac:(lia) r1 eq_refl (S k)). destruct (skipLWS_at ie r1 (S k)); cbn [length]; lia. }
  destruct (is_cr c).
  { destruct r1 as [|d r2]; [cbn; lia|]. cbn [length] in *.
    destruct (is_lf d).
    { destruct r2 as [|e r3]; [destruct ie; cbn; lia|]. cbn [length] in *.
      destruct (is_sp e); [|lia].
      specialize (IH (length (e :: r3)) ltac:(cbn; lia) (e :: r3) eq_refl (k + 2)%nat).
      destruct (skipLWS_at ie (e :: r3) (k + 2)); cbn [length] in *; lia. }
    destruct (is_sp d); [|lia].
    specialize (IH (length (d :: r2)) ltac:(cbn; lia) (d :: r2) eq_refl (k + 1)%nat).
    destruct (skipLWS_at ie (d :: r2) (k + 1)); cbn [length] in *; lia. }
  destruct (is_lf c); [|lia].
  destruct r1 as [|d r2]; [cbn; lia|]. cbn [length] in *.
  destruct (is_sp d); [|lia].
  specialize (IH (length (d :: r2)) ltac:(cbn; lia) (d :: r2) eq_refl (k + 1)%nat).
  destruct (skipLWS_at ie (d :: r2) (k + 1)); cbn [length] in *; lia.
Qed.

Lemma skipLWS_bounds ie r :
  match skipLWS ie r with
  | LOk n => (n <= length r)%nat
  | LEOH n crl => (n + crl <= length r)%nat
  | LMore n => (n <= length r)%nat
  end.
Proof. unfold skipLWS. pose proof (skipLWS_at_bounds ie r 0). destruct (skipLWS_at ie r 0); lia. Qed.

(* white space at the head: a completed skip makes progress *)
Lemma skipLWS_ws_progress ie c r n : is_ws c = true -> skipLWS ie (c :: r) = LOk n -> (0 < n)%nat.
Proof.
  unfold skipLWS, is_ws, is_crlf. intros Hws H. cbn [skipLWS_at] in H.
  destruct (is_sp c).
  { pose proof (skipLWS_at_bounds ie r 1). rewrite H in H0. lia. }
  destruct (is_cr c).
  { destruct r as [|d r2]; [discriminate|]. destruct (is_lf d).
    { destruct r2 as [|e r3]; [destruct ie; discriminate|]. destruct (is_sp e); [|discriminate].
      pose proof (skipLWS_at_bounds ie (e :: r3) (0 + 2)). rewrite H in H0. lia. }
    destruct (is_sp d); [|discriminate].
    pose proof (skipLWS_at_bounds ie (d :: r2) (0 + 1)). rewrite H in H0. lia. }
  destruct (is_lf c); [|cbn in Hws; discriminate].
  destruct r as [|d r2]; [discriminate|]. destruct (is_sp d); [|discriminate].
  pose proof (skipLWS_at_bounds ie (d :: r2) (0 + 1)). rewrite H in H0. lia.
Qed.

Lemma span_le p r : (span p r <= length r)%nat.
Proof. induction r as [|c r IH]; cbn; [lia|]. destruct (p c); cbn; lia. Qed.
