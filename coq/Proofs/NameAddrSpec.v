(* C09: ParseNameAddrPVal against the grammar (completeness) for the common shapes of a From / To /
   Contact / PAI value: "<" uri ">", display-name SP "<" uri ">", "<" uri ">;tag=" value - each ended
   by the end of the header line.  Proved at offset 0; any offset follows from the shift theorem (C11). *)
From Sipsp Require Import Driver Harness RunLemmas Ext ExtLeaf ZSlice HdrSpec UIntSpec TokSpec Shift ShiftFb.
From Coq Require Import ZifyN ZifyNat ZifyBool.
From RecordUpdate Require Import RecordUpdate.

Lemma run_one {St} (iter : list byte -> list byte -> N -> St -> ires St) pre c r i s s' :
  iter pre (c :: r) i s = Next 1 s' -> run iter pre (c :: r) i 0 s = run iter (c :: pre) r (i + 1) 0 s'.
Proof.
  intros H. pose proof (run_step iter pre [c] r i s s' ltac:(discriminate) H) as X. cbn [app rev length] in X.
  replace (i + nnat 1) with (i + 1) in X by (unfold nnat; lia). exact X.
Qed.

(* bytes of a URI inside angle brackets; bytes of a token display name *)
Definition uchar (c : byte) : Prop := match ccls_of c with KGt | KLt | KWs => False | _ => True end.
Definition nchar (c : byte) : Prop := match ccls_of c with KStar | KEq | KBsl | KOther => True | _ => False end.
Definition nchar0 (c : byte) : Prop := match ccls_of c with KEq | KBsl | KOther => True | _ => False end.

Lemma zslice_mid pre rest i (P M S : list byte) : rev pre ++ rest = P ++ M ++ S -> i = nnat (length pre) ->
  zslice pre rest i (nnat (length P)) (nnat (length P) + nnat (length M)) = Some M.
Proof.
  intros HB Hi. rewrite (zslice_bslice pre rest i _ _ Hi), HB. unfold bslice.
  replace ((nnat (length P) <=? nnat (length P) + nnat (length M)) && (nnat (length P) + nnat (length M) <=? nnat (length (P ++ M ++ S)))) with true
    by (rewrite !app_length; unfold nnat; lia).
  f_equal. replace (N.to_nat (nnat (length P) + nnat (length M) - nnat (length P))) with (length M) by (unfold nnat; lia).
  replace (N.to_nat (nnat (length P))) with (length P) by (unfold nnat; lia).
  rewrite skipn_app, skipn_all, Nat.sub_diag. cbn [skipn app]. rewrite firstn_app, firstn_all, Nat.sub_diag. cbn [firstn]. now rewrite app_nil_r.
Qed.

(* bytes of an unquoted parameter value *)
Definition vchar (c : byte) : Prop := match ccls_of c with KStar | KBsl | KOther => True | _ => False end.

Section Spec.
  Variable h : N.
  Let it := fb_iter h.

  Lemma uri_loop s pre c r i : fb_state s = FbURI -> uchar c -> it pre (c :: r) i s = Next 1 s.
  Proof.
    intros Hs Hc. unfold it, fb_iter. rewrite Hs. unfold fb_step, fb_gURI, uchar in *. destruct (ccls_of c); try contradiction; reflexivity.
  Qed.
  Lemma name_loop s pre c r i : fb_state s = FbNameOrURI -> nchar c -> it pre (c :: r) i s = Next 1 s.
  Proof.
    intros Hs Hc. unfold it, fb_iter. rewrite Hs. unfold fb_step, fb_gA, nchar in *. cbn [is_st_init is_st_nameoruriend].
    destruct (ccls_of c); try contradiction; reflexivity.
  Qed.

  Lemma eol_lws x tail : is_sp x = false -> skipLWS false (CR :: LF :: x :: tail) = LEOH 0 2.
  Proof. intros Hx. exact (skipLWS_sp_eol [] x tail (Forall_nil _) Hx). Qed.
  Lemma cr_class : ccls_of CR = KWs. Proof. reflexivity. Qed.

  (* "<" uri ">" end-of-line *)
  Theorem spec_uri_only uri x tail : Forall uchar uri -> is_sp x = false ->
    let lu := nnat (length uri) in
    parse_nameaddr h (60 :: uri ++ 62 :: CR :: LF :: x :: tail) 0 pfrom0
    = Done (lu + 4) EOk (mkpfrom pf0 (mkpf 1 lu) pf0 false false false h 0 0 pf0 (mkpf 0 (lu + 2)) EOk 0 FbFIN 0 0 0 0 0).
  Proof.
    intros Hu Hx lu. unfold parse_nameaddr, parse, zinit. cbn [N.to_nat firstn skipn rev app]. fold it.
    (* '<' *)
    set (s1 := mkpfrom pf0 pf0 pf0 false false false 0 0 0 pf0 (mkpf 0 0) EOk 0 FbURI (0 + 1) 0 0 0 0).
    rewrite (run_one it [] 60 _ 0 pfrom0 s1) by reflexivity.
    (* the URI *)
    rewrite (run_selfloop it uchar s1 ltac:(intros p c r j Hc; apply uri_loop; [reflexivity|exact Hc]) uri [60] _ (0 + 1) Hu). subst s1.
    remember (0 + 1 + nnat (length uri)) as i1 eqn:Ei1.
    (* '>' *)
    rewrite (run_one it _ 62 _ i1 _ (mkpfrom pf0 (mkpf 1 (i1 - 1)) pf0 false false false 0 0 0 pf0 (mkpf 0 (i1 + 1)) EOk 0 FbURIFound 1 0 0 0 0)).
    2:{ unfold it, fb_iter. cbn [fb_state]. unfold fb_step, fb_gURI. replace (ccls_of 62) with KGt by reflexivity. unfold pf_set, pf_extend. cbn [fb_soffs fb_v po pl].
        replace (i1 <? 0 + 1) with false by lia. replace (i1 + 1 <? 0) with false by lia. rewrite ?N.sub_0_r. replace (0 + 1) with 1 by reflexivity. reflexivity. }
    (* end of line *)
    rewrite run_after.
    replace (it _ (CR :: LF :: x :: tail) (i1 + 1) _)
      with (Ret (i1 + 1 + nnat 0 + nnat 2) EOk (mkpfrom pf0 (mkpf 1 (i1 - 1)) pf0 false false false h 0 0 pf0 (mkpf 0 (i1 + 1)) EOk 0 FbFIN 0 0 0 0 0) : ires pfrom).
    2:{ unfold it, fb_iter. cbn [fb_state]. unfold fb_step, fb_gURIFound. rewrite cr_class. unfold fb_lws. rewrite (eol_lws x tail Hx). reflexivity. }
    cbn [after]. subst lu. unfold nnat in *. f_equal; [lia|]. f_equal; f_equal; lia.
  Qed.

  (* display-name SP "<" uri ">" end-of-line: the name is reported from its first byte up to the "<" *)
  Theorem spec_name_uri n0 name uri x tail : nchar0 n0 -> Forall nchar name -> Forall uchar uri -> is_sp x = false ->
    let ln := nnat (length (n0 :: name)) in let lu := nnat (length uri) in
    parse_nameaddr h ((n0 :: name) ++ 32 :: 60 :: uri ++ 62 :: CR :: LF :: x :: tail) 0 pfrom0
    = Done (ln + 2 + lu + 3) EOk (mkpfrom (mkpf 0 (ln + 1)) (mkpf (ln + 2) lu) pf0 false false false h 0 0 pf0 (mkpf 0 (ln + 2 + lu + 1)) EOk 0 FbFIN 0 0 0 0 0).
  Proof.
    intros Hn0 Hname Hu Hx ln lu. unfold parse_nameaddr, parse, zinit. cbn [N.to_nat firstn skipn rev app]. fold it.
    (* first byte of the name *)
    set (s1 := mkpfrom pf0 pf0 pf0 false false false 0 0 0 pf0 (mkpf 0 0) EOk 0 FbNameOrURI 0 0 0 0 0).
    rewrite (run_one it [] n0 _ 0 pfrom0 s1).
    2:{ unfold it, fb_iter. cbn [fb_state pfrom0]. unfold fb_step, fb_gA, nchar0 in *. cbn [is_st_init]. destruct (ccls_of n0); try contradiction; reflexivity. }
    rewrite (run_selfloop it nchar s1 ltac:(intros p c r j Hc; apply name_loop; [reflexivity|exact Hc]) name [n0] _ (0 + 1) Hname). subst s1.
    remember (0 + 1 + nnat (length name)) as i1 eqn:Ei1.
    (* the blank *)
    rewrite (run_one it _ 32 _ i1 _ (mkpfrom pf0 (mkpf 0 i1) pf0 false false false 0 0 0 pf0 (mkpf 0 i1) EOk 0 FbNameOrURIEnd 0 0 0 0 0)).
    2:{ unfold it, fb_iter. cbn [fb_state]. unfold fb_step, fb_gA. replace (ccls_of 32) with KWs by reflexivity. cbn [is_st_nameoruri]. unfold pf_set, pf_extend. cbn [fb_soffs fb_v po pl].
        replace (i1 <? 0) with false by lia. rewrite ?N.sub_0_r. unfold fb_lws.
        pose proof (UIntSpec.skipLWS_sp_prefix (@cons byte 32 nil) 60 (uri ++ 62 :: CR :: LF :: x :: tail) ltac:(repeat constructor) eq_refl) as Hl. cbn [app length] in Hl.
        match goal with |- context [skipLWS false ?l] => replace (skipLWS false l) with (LOk 1) by (symmetry; exact Hl) end. reflexivity. }
    (* '<' *)
    set (s2 := mkpfrom (mkpf 0 (i1 + 1)) pf0 pf0 false false false 0 0 0 pf0 (mkpf 0 i1) EOk 0 FbURI (i1 + 1 + 1) 0 0 0 0).
    rewrite (run_one it _ 60 _ (i1 + 1) _ s2).
    2:{ unfold it, fb_iter. cbn [fb_state]. unfold fb_step, fb_gA, fb_reset3. replace (ccls_of 60) with KLt by reflexivity. cbn [is_st_init]. unfold pf_set. cbn [fb_soffs].
        replace (i1 + 1 <? 0) with false by lia. rewrite ?N.sub_0_r. reflexivity. }
    rewrite (run_selfloop it uchar s2 ltac:(intros p c r j Hc; apply uri_loop; [reflexivity|exact Hc]) uri _ _ (i1 + 1 + 1) Hu). subst s2.
    remember (i1 + 1 + 1 + nnat (length uri)) as i2 eqn:Ei2.
    (* '>' *)
    rewrite (run_one it _ 62 _ i2 _ (mkpfrom (mkpf 0 (i1 + 1)) (mkpf (i1 + 1 + 1) (i2 - (i1 + 1 + 1))) pf0 false false false 0 0 0 pf0 (mkpf 0 (i2 + 1)) EOk 0 FbURIFound (i1 + 1 + 1) 0 0 0 0)).
    2:{ unfold it, fb_iter. cbn [fb_state]. unfold fb_step, fb_gURI. replace (ccls_of 62) with KGt by reflexivity. unfold pf_set, pf_extend. cbn [fb_soffs fb_v po pl].
        replace (i2 <? i1 + 1 + 1) with false by lia. replace (i2 + 1 <? 0) with false by lia. rewrite ?N.sub_0_r. reflexivity. }
    rewrite run_after.
    replace (it _ (CR :: LF :: x :: tail) (i2 + 1) _)
      with (Ret (i2 + 1 + nnat 0 + nnat 2) EOk (mkpfrom (mkpf 0 (i1 + 1)) (mkpf (i1 + 1 + 1) (i2 - (i1 + 1 + 1))) pf0 false false false h 0 0 pf0 (mkpf 0 (i2 + 1)) EOk 0 FbFIN 0 0 0 0 0) : ires pfrom).
    2:{ unfold it, fb_iter. cbn [fb_state]. unfold fb_step, fb_gURIFound. rewrite cr_class. unfold fb_lws. rewrite (eol_lws x tail Hx). reflexivity. }
    cbn [after]. subst ln lu. cbn [length]. unfold nnat in *. f_equal; [lia|]. f_equal; f_equal; lia.
  Qed.

  Lemma val_loop s pre c r i : fb_state s = FbParamVal -> vchar c -> it pre (c :: r) i s = Next 1 s.
  Proof.
    intros Hs Hc. unfold it, fb_iter. rewrite Hs. unfold fb_step, fb_gV, vchar in *. cbn [is_st_new st_poss].
    destruct (ccls_of c); try contradiction; reflexivity.
  Qed.

  (* "<" uri ">;tag=" value end-of-line *)
  Theorem spec_uri_tag uri v0 value x tail : Forall uchar uri -> vchar v0 -> Forall vchar value -> is_sp x = false ->
    let lu := nnat (length uri) in let lv := nnat (length (v0 :: value)) in
    parse_nameaddr h (60 :: uri ++ 62 :: 59 :: 116 :: 97 :: 103 :: 61 :: (v0 :: value) ++ CR :: LF :: x :: tail) 0 pfrom0
    = Done (lu + 7 + lv + 2) EOk
        (mkpfrom pf0 (mkpf 1 lu) (mkpf (lu + 7) lv) false false false h 0 0 (mkpf (lu + 3) (4 + lv)) (mkpf 0 (lu + 7 + lv)) EOk 0 FbFIN 0 0 0 0 0).
  Proof.
    intros Hu Hv0 Hval Hx lu lv. unfold parse_nameaddr, parse, zinit. cbn [N.to_nat firstn skipn rev app]. fold it.
    set (s1 := mkpfrom pf0 pf0 pf0 false false false 0 0 0 pf0 (mkpf 0 0) EOk 0 FbURI (0 + 1) 0 0 0 0).
    rewrite (run_one it [] 60 _ 0 pfrom0 s1) by reflexivity.
    rewrite (run_selfloop it uchar s1 ltac:(intros p c r j Hc; apply uri_loop; [reflexivity|exact Hc]) uri [60] _ (0 + 1) Hu). subst s1.
    remember (0 + 1 + nnat (length uri)) as i1 eqn:Ei1.
    (* '>' *)
    rewrite (run_one it _ 62 _ i1 _ (mkpfrom pf0 (mkpf 1 (i1 - 1)) pf0 false false false 0 0 0 pf0 (mkpf 0 (i1 + 1)) EOk 0 FbURIFound 1 0 0 0 0)).
    2:{ unfold it, fb_iter. cbn [fb_state]. unfold fb_step, fb_gURI. replace (ccls_of 62) with KGt by reflexivity. unfold pf_set, pf_extend. cbn [fb_soffs fb_v po pl].
        replace (i1 <? 0 + 1) with false by lia. replace (i1 + 1 <? 0) with false by lia. rewrite ?N.sub_0_r. replace (0 + 1) with 1 by reflexivity. reflexivity. }
    (* ';' *)
    rewrite (run_one it _ 59 _ (i1 + 1) _ (mkpfrom pf0 (mkpf 1 (i1 - 1)) pf0 false false false 0 0 0 pf0 (mkpf 0 (i1 + 1)) EOk 0 FbNewParam 0 0 0 0 0)) by reflexivity.
    (* 't' *)
    remember (i1 + 1 + 1) as p0 eqn:Ep0.
    set (s2 := mkpfrom pf0 (mkpf 1 (i1 - 1)) pf0 false false false 0 0 0 (mkpf p0 0) (mkpf 0 (i1 + 1)) EOk 0 FbParamName 0 p0 0 0 0).
    rewrite (run_one it _ 116 _ p0 _ s2).
    2:{ unfold it, fb_iter. cbn [fb_state]. unfold fb_step, fb_gP. replace (ccls_of 116) with KOther by reflexivity. cbn [is_st_name st_poss st_paramname]. reflexivity. }
    (* 'a' 'g' *)
    assert (Hp0 : (p0 =? 0) = false) by lia.
    rewrite (run_one it _ 97 _ (p0 + 1) s2 s2).
    2:{ unfold it, fb_iter. cbn [fb_state]. unfold fb_step, fb_gP. replace (ccls_of 97) with KOther by reflexivity. cbn [is_st_name s2 fb_state fb_params po]. rewrite Hp0. reflexivity. }
    rewrite (run_one it _ 103 _ (p0 + 1 + 1) s2 s2).
    2:{ unfold it, fb_iter. cbn [fb_state]. unfold fb_step, fb_gP. replace (ccls_of 103) with KOther by reflexivity. cbn [is_st_name s2 fb_state fb_params po]. rewrite Hp0. reflexivity. }
    (* '=' *)
    rewrite (run_one it _ 61 _ (p0 + 1 + 1 + 1) s2 (mkpfrom pf0 (mkpf 1 (i1 - 1)) pf0 false false false 0 0 0 (mkpf p0 0) (mkpf 0 (i1 + 1)) EOk 0 FbNewParamVal 0 p0 (p0 + 1 + 1 + 1) (p0 + 1 + 1 + 1 + 1) 0)) by reflexivity.
    (* first byte of the value *)
    remember (p0 + 1 + 1 + 1 + 1) as q0 eqn:Eq0.
    set (s3 := mkpfrom pf0 (mkpf 1 (i1 - 1)) pf0 false false false 0 0 0 (mkpf p0 0) (mkpf 0 (i1 + 1)) EOk 0 FbParamVal 0 p0 (p0 + 1 + 1 + 1) q0 0).
    rewrite (run_one it _ v0 _ q0 _ s3).
    2:{ unfold it, fb_iter. cbn [fb_state]. unfold fb_step, fb_gV, vchar in *. cbn [is_st_new st_poss st_val]. destruct (ccls_of v0); try contradiction; reflexivity. }
    rewrite (run_selfloop it vchar s3 ltac:(intros p c r j Hc; apply val_loop; [reflexivity|exact Hc]) value _ _ (q0 + 1) Hval).
    remember (q0 + 1 + nnat (length value)) as e eqn:Ee.
    (* end of line: the parameter is closed and recognised *)
    rewrite run_after.
    match goal with |- context [it ?p (CR :: LF :: x :: tail) e s3] => set (pre := p) end.
    assert (HB : rev pre ++ CR :: LF :: x :: tail = (60 :: uri ++ [62; 59]) ++ [116; 97; 103] ++ (61 :: (v0 :: value) ++ CR :: LF :: x :: tail)).
    { subst pre. rewrite rev_app_distr. cbn [rev app]. rewrite rev_app_distr, rev_involutive, rev_involutive. cbn [rev app]. rewrite <- !app_assoc. cbn [app]. reflexivity. }
    assert (HB2 : rev pre ++ CR :: LF :: x :: tail = (60 :: uri ++ [62; 59; 116; 97; 103; 61]) ++ (v0 :: value) ++ (CR :: LF :: x :: tail)).
    { rewrite HB. cbn [app]. rewrite <- !app_assoc. cbn [app]. reflexivity. }
    assert (Hlen : e = nnat (length pre)).
    { subst pre. rewrite app_length, rev_length. cbn [length]. rewrite app_length, rev_length. cbn [length]. unfold nnat in *. lia. }
    assert (Z1 : zslice pre (CR :: LF :: x :: tail) e p0 (p0 + 1 + 1 + 1) = Some [116; 97; 103]).
    { pose proof (zslice_mid pre (CR :: LF :: x :: tail) e _ _ _ HB Hlen) as Z. cbn [length] in Z. rewrite app_length in Z. cbn [length] in Z.
      replace (nnat (S (length uri + 2))) with p0 in Z by (unfold nnat in *; lia). replace (p0 + nnat 3) with (p0 + 1 + 1 + 1) in Z by (unfold nnat; lia). exact Z. }
    assert (Z2 : zslice pre (CR :: LF :: x :: tail) e q0 e = Some (v0 :: value)).
    { pose proof (zslice_mid pre (CR :: LF :: x :: tail) e _ _ _ HB2 Hlen) as Z. cbn [length] in Z. rewrite app_length in Z. cbn [length] in Z.
      replace (nnat (S (length uri + 6))) with q0 in Z by (unfold nnat in *; lia). replace (q0 + nnat (S (length value))) with e in Z by (unfold nnat in *; lia). exact Z. }
    replace (it pre (CR :: LF :: x :: tail) e s3)
      with (Ret (e + nnat 0 + nnat 2) EOk (mkpfrom pf0 (mkpf 1 (i1 - 1)) (mkpf q0 (e - q0)) false false false h 0 0 (mkpf p0 (e - p0)) (mkpf 0 e) EOk 0 FbFIN 0 0 0 0 0) : ires pfrom).
    2:{ unfold it, fb_iter. cbn [fb_state s3]. unfold fb_step, fb_gV. rewrite cr_class. unfold fb_lws_b. rewrite (eol_lws x tail Hx). cbn [is_st_new st_poss st_valend].
        change (s3 <| fb_state := FbParamValEnd |> <| fb_vend := e |>)
          with (mkpfrom pf0 (mkpf 1 (i1 - 1)) pf0 false false false 0 0 0 (mkpf p0 0) (mkpf 0 (i1 + 1)) EOk 0 FbParamValEnd 0 p0 (p0 + 1 + 1 + 1) q0 e).
        unfold fb_endOfHdr, fb_close. cbn [fb_state]. unfold setFromParamVal. cbn [fb_pstart fb_pend fb_vstart fb_vend].
        replace (p0 <? p0 + 1 + 1 + 1) with true by lia. replace (q0 <? e) with true by lia. cbn [andb]. rewrite Z1, Z2.
        replace (eqb_nocase [116; 97; 103] str_tag) with true by reflexivity. unfold pf_set, pf_extend. replace (e <? q0) with false by lia.
        match goal with |- context [?r <| fb_tag := ?t |> <| fb_pstart := 0 |> <| fb_pend := 0 |> <| fb_vstart := 0 |> <| fb_vend := 0 |>] =>
          change (r <| fb_tag := t |> <| fb_pstart := 0 |> <| fb_pend := 0 |> <| fb_vstart := 0 |> <| fb_vend := 0 |>)
            with (mkpfrom pf0 (mkpf 1 (i1 - 1)) t false false false 0 0 0 (mkpf p0 0) (mkpf 0 (i1 + 1)) EOk 0 FbParamValEnd 0 0 0 0 0) end.
        cbn [fb_params fb_v po pl negb orb].
        assert (E1 : (e <? p0) = false) by (apply N.ltb_ge; lia). assert (E2 : (e <? 0) = false) by (apply N.ltb_ge; lia). rewrite E1, E2, ?N.sub_0_r. reflexivity. }
    cbn [after]. subst lu lv. cbn [length]. unfold nnat in *. f_equal; [lia|]. f_equal; f_equal; lia.
  Qed.
End Spec.

(* at any offset, whatever precedes: the shift theorem applied to the statement at offset 0 *)
Theorem spec_uri_tag_at h (junk : list byte) (uri : list byte) v0 value x tail : Forall uchar uri -> vchar v0 -> Forall vchar value -> is_sp x = false ->
  let k := nnat (length junk) in let lu := nnat (length uri) in let lv := nnat (length (v0 :: value)) in
  exists s', parse_nameaddr h (junk ++ 60 :: uri ++ 62 :: 59 :: 116 :: 97 :: 103 :: 61 :: (v0 :: value) ++ CR :: LF :: x :: tail) k pfrom0
             = Done (k + (lu + 7 + lv + 2)) EOk s' /\
    fb_state s' = FbFIN /\ fb_type s' = h /\ fb_star s' = false /\ pl (fb_name s') = 0 /\
    fb_uri s' = mkpf (k + 1) lu /\ fb_tag s' = mkpf (k + (lu + 7)) lv /\ fb_params s' = mkpf (k + (lu + 3)) (4 + lv) /\
    fb_v s' = mkpf k (lu + 7 + lv).
Proof.
  intros Hu Hv0 Hval Hx k lu lv.
  pose proof (spec_uri_tag h uri v0 value x tail Hu Hv0 Hval Hx) as H0. cbv zeta in H0. fold lu lv in H0.
  pose proof (nameaddr_shift h junk (60 :: uri ++ 62 :: 59 :: 116 :: 97 :: 103 :: 61 :: (v0 :: value) ++ CR :: LF :: x :: tail) 0 ltac:(unfold nnat; lia)) as Hs.
  rewrite H0 in Hs. replace (0 + nnat (length junk)) with k in Hs by (subst k; lia). unfold res_shiftI in Hs. rewrite rev_length in Hs. fold k in Hs.
  assert (Hlv : lv <> 0) by (subst lv; cbn [length]; unfold nnat; lia).
  clearbody lu lv k.
  match type of Hs with match ?t with _ => _ end => destruct t as [o' e' s'| |] eqn:Ep; try contradiction end.
  unfold R0, Rbase in Hs. destruct Hs as (-> & <- & Hst & (B1&B2&B3&B4&B5&B6&B7&B8&B9&B10&B11&B12) & Hv & _).
  cbn [fb_state fb_star fb_type fb_name fb_uri fb_tag fb_params fb_v is_st_init] in *.
  exists s'. split; [f_equal; lia|]. split; [exact Hst|]. split; [exact B4|]. split; [exact B1|].
  split; [destruct B8 as [->|[_ ->]]; reflexivity|].
  split. { destruct B9 as [->|[E _]]; [unfold shf; cbn [po pl]; f_equal; lia|]. exfalso. unfold pf0 in E. injection E as E1 E2. 
           (* the URI is at offset 1: not pf0 *) discriminate E1. }
  split. { destruct B10 as [->|[E _]]; [unfold shf; cbn [po pl]; f_equal; lia|]. exfalso. unfold pf0 in E. injection E as E1 E2. lia. }
  split. { destruct B11 as [[E _]|[_ ->]]; [cbn [po] in E; lia|unfold shf; cbn [po pl]; f_equal; lia]. }
  rewrite Hv. unfold shf. cbn [po pl]. f_equal; lia.
Qed.
